(** Proofs about layers 1-2 (Aml/Stream.v, Aml/Lex.v):
    - [reader_safe]: under the reader invariant no lexer function panics or runs out of fuel, the
      invariant is preserved, and the result does not depend on any byte at an index >= pkgEnd
      (i.e. every byte read lies below pkgEnd <= len);
    - [lex_slices_inside]: every slice returned by parseString / parseNameString lies inside the table;
    - round trips of the lexer functions over the encodings of Aml/Grammar.v. *)
From Coq Require Import NArith ZArith List Bool Lia.
From Coq Require Import ZifyBool ZifyN ZifyNat.
From FF Require Import Lib.Word Gen.Consts_device_acpi_aml Aml.Stream Aml.Lex.
Import ListNotations.
Local Open Scope N_scope.

Ltac Zify.zify_post_hook ::= Z.div_mod_to_equations.

(** ---- basic facts ---- *)
Lemma byte_at_Some d i : i < N.of_nat (length d) -> exists b, byte_at d i = Some b.
Proof.
  intros H. unfold byte_at. destruct (nth_error d (N.to_nat i)) eqn:E; eauto.
  apply nth_error_None in E. lia.
Qed.

Lemma byte_at_lt d i b : byte_at d i = Some b -> i < N.of_nat (length d).
Proof.
  unfold byte_at. intros H. assert (nth_error d (N.to_nat i) <> None) by congruence.
  apply nth_error_Some in H0. lia.
Qed.

(** two readers that differ at most in the bytes at or beyond pkgEnd *)
Definition agree_below (n : N) (d d' : list N) : Prop := forall i, i < n -> byte_at d i = byte_at d' i.

Record sim (r r' : reader) : Prop := mkSim {
  sim_len : r_len r = r_len r';
  sim_off : r_offset r = r_offset r';
  sim_end : r_pkgEnd r = r_pkgEnd r';
  sim_data : agree_below (r_pkgEnd r) (r_data r) (r_data r')
}.

Lemma sim_refl r : sim r r.
Proof. constructor; auto. intros i _. reflexivity. Qed.

(** same data / len / pkgEnd: what the lexer functions may change is the offset only *)
Definition same_window (r r1 : reader) : Prop :=
  r_data r1 = r_data r /\ r_len r1 = r_len r /\ r_pkgEnd r1 = r_pkgEnd r.

Lemma same_window_refl r : same_window r r. Proof. repeat split. Qed.
Lemma same_window_trans a b c : same_window a b -> same_window b c -> same_window a c.
Proof. intros (A1 & A2 & A3) (B1 & B2 & B3). repeat split; congruence. Qed.

Lemma wf_same_window r r1 : reader_wf r -> same_window r r1 -> reader_wf r1.
Proof. intros (W1 & W2 & W3 & W4) (A & B & C). unfold reader_wf. rewrite A, B, C. auto. Qed.

Lemma same_window_set_offset r o : same_window r (set_offset_raw r o).
Proof. repeat split. Qed.
Lemma same_window_setOffset r o : same_window r (setOffset r o).
Proof. repeat split. Qed.

(** ---- readByte ---- *)
Lemma readByte_total r : reader_wf r ->
  (eof r = true /\ readByte r = Ok (None, r)) \/
  (eof r = false /\ exists b, byte_at (r_data r) (r_offset r) = Some b /\
                              readByte r = Ok (Some b, set_offset_raw r (r_offset r + 1)) /\ r_offset r < r_pkgEnd r).
Proof.
  intros (W1 & W2 & W3 & W4). unfold readByte, eof. destruct (r_pkgEnd r <=? r_offset r) eqn:E.
  - left. auto.
  - right. split; auto. apply N.leb_gt in E.
    destruct (byte_at_Some (r_data r) (r_offset r)) as [b Hb]; [lia|].
    exists b. rewrite Hb. repeat split; auto.
    rewrite w32_small; auto. unfold two32 in *. lia.
Qed.

Lemma readByte_sim r r' : reader_wf r -> sim r r' ->
  match readByte r, readByte r' with
  | Ok (b, r1), Ok (b', r1') => b = b' /\ sim r1 r1' /\ same_window r r1 /\ same_window r' r1'
  | _, _ => False
  end.
Proof.
  intros W S. destruct S as [SL SO SE SD].
  unfold readByte, eof. rewrite <- SE, <- SO.
  destruct (r_pkgEnd r <=? r_offset r) eqn:E.
  - repeat split; auto using same_window_refl.
  - apply N.leb_gt in E. rewrite <- (SD _ E).
    destruct W as (W1 & W2 & W3 & W4).
    destruct (byte_at_Some (r_data r) (r_offset r)) as [b Hb]; [lia|]. rewrite Hb.
    repeat split; cbn; auto.
Qed.

(** The generic shape of the statements: a lexer function [f] is safe when, under the invariant, it
    returns (no panic, no out-of-fuel), keeps data / len / pkgEnd, and gives equal results on readers that
    agree below pkgEnd. *)
Definition safe {A} (f : reader -> outcome (A * bool * reader)) : Prop :=
  forall r r', reader_wf r -> sim r r' ->
    match f r, f r' with
    | Ok (a, ok, r1), Ok (a', ok', r1') => a = a' /\ ok = ok' /\ sim r1 r1' /\ same_window r r1 /\ same_window r' r1'
    | _, _ => False
    end.

Lemma sim_setOffset r r' o : sim r r' -> sim (setOffset r o) (setOffset r' o).
Proof.
  intros [SL SO SE SD]. constructor; cbn; auto. unfold setOffset; cbn. rewrite SL. reflexivity.
Qed.

Lemma wf_sim_wf' r r' : reader_wf r -> sim r r' -> r_pkgEnd r' <= r_len r' /\ r_len r' < two32.
Proof. intros (W1 & W2 & W3 & W4) [SL SO SE SD]. rewrite <- SL, <- SE. auto. Qed.

(** stepping tactic: use [readByte_sim] on the next read of both sides *)
Tactic Notation "step_read" constr(W) constr(S) "as" ident(b) ident(r1) ident(r1') ident(HS) ident(HW) ident(HW') :=
  let H := fresh "H" in
  let b' := fresh "b'" in
  let E := fresh "E" in
  pose proof (readByte_sim _ _ W S) as H;
  match type of H with
  | match readByte ?r with _ => _ end =>
      destruct (readByte r) as [[b r1]| |]; [|contradiction|contradiction];
      match type of H with
      | match readByte ?r' with _ => _ end =>
          destruct (readByte r') as [[b' r1']| |]; [|contradiction|contradiction]
      end
  end;
  destruct H as (E & HS & HW & HW'); subst b'; cbn [bind].

(** close a goal of the shape  a = a' /\ ok = ok' /\ sim _ _ /\ same_window _ _ /\ same_window _ _ *)
Ltac sw := repeat (first [eassumption | apply same_window_refl | apply same_window_setOffset | apply same_window_set_offset
                         | eapply same_window_trans; [eassumption|] | eapply same_window_trans; [|apply same_window_setOffset]]).
Ltac fin := split; [reflexivity|split; [reflexivity|split; [auto using sim_setOffset|split; sw]]].

Lemma safe_parsePkgLength : safe parsePkgLength.
Proof.
  intros r r' W S. unfold parsePkgLength.
  assert (SO : r_offset r = r_offset r') by apply S.
  step_read W S as o r1 r1' S1 A1 A1'.
  destruct o as [lead|]; [|rewrite SO; fin].
  destruct (N.shiftr lead 6 =? 0); [fin|].
  assert (W1 : reader_wf r1) by eauto using wf_same_window.
  step_read W1 S1 as o r2 r2' S2 A2 A2'.
  destruct o as [b1|]; [|rewrite SO; fin].
  destruct (N.shiftr lead 6 =? 1); [fin|].
  assert (W2 : reader_wf r2) by eauto using wf_same_window.
  step_read W2 S2 as o r3 r3' S3 A3 A3'.
  destruct o as [b2|]; [|rewrite SO; fin].
  destruct (N.shiftr lead 6 =? 2); [fin|].
  assert (W3 : reader_wf r3) by eauto using wf_same_window.
  step_read W3 S3 as o r4 r4' S4 A4 A4'.
  destruct o as [b3|]; [|rewrite SO; fin].
  fin.
Qed.

Lemma safe_parseNum_go cnt : forall c acc r r', reader_wf r -> sim r r' ->
  match parseNum_go cnt c acc r, parseNum_go cnt c acc r' with
  | Ok (a, ok, r1), Ok (a', ok', r1') => a = a' /\ ok = ok' /\ sim r1 r1' /\ same_window r r1 /\ same_window r' r1'
  | _, _ => False
  end.
Proof.
  induction cnt as [|cnt IH]; intros c acc r r' W S; cbn [parseNum_go].
  - fin.
  - step_read W S as o r1 r1' S1 A1 A1'. destruct o as [b|].
    + assert (W1 : reader_wf r1) by eauto using wf_same_window.
      specialize (IH (c + 1) (N.lor acc (w64 (N.shiftl b (w8 (c * 8))))) _ _ W1 S1).
      destruct (parseNum_go cnt _ _ r1) as [[[a ok] r2]| |]; try contradiction.
      destruct (parseNum_go cnt _ _ r1') as [[[a' ok'] r2']| |]; try contradiction.
      destruct IH as (Ea & Eo & S2 & A2 & A2'). subst. fin.
    + fin.
Qed.

Lemma safe_parseNumConstant k : safe (parseNumConstant k).
Proof. intros r r' W S. apply safe_parseNum_go; auto. Qed.

(** dataPtr *)
Lemma dataPtr_sim r r' : reader_wf r -> sim r r' ->
  exists p, dataPtr r = Ok p /\ dataPtr r' = Ok p /\
            match p with Some q => q = r_offset r /\ q < r_pkgEnd r | None => r_pkgEnd r <= r_offset r end.
Proof.
  intros (W1 & W2 & W3 & W4) [SL SO SE SD]. unfold dataPtr, eof. rewrite <- SE, <- SO, <- SL.
  destruct (r_pkgEnd r <=? r_offset r) eqn:E.
  - exists None. repeat split; auto. apply N.leb_le in E. exact E.
  - apply N.leb_gt in E. assert (r_offset r <? r_len r = true) by (apply N.ltb_lt; lia). rewrite H.
    exists (Some (r_offset r)). repeat split; auto.
Qed.

(** remaining bytes of the window, as a nat measure for the loops *)
Definition remaining (r : reader) : nat := N.to_nat (r_pkgEnd r - r_offset r).

Lemma safe_parseString_go fuel : forall ptr len r r', reader_wf r -> sim r r' -> (remaining r < fuel)%nat ->
  match parseString_go fuel ptr len r, parseString_go fuel ptr len r' with
  | Ok (a, ok, r1), Ok (a', ok', r1') => a = a' /\ ok = ok' /\ sim r1 r1' /\ same_window r r1 /\ same_window r' r1'
  | _, _ => False
  end.
Proof.
  induction fuel as [|fuel IH]; intros ptr len r r' W S F; [lia|]. cbn [parseString_go].
  pose proof (readByte_total r W) as RT.
  step_read W S as o r1 r1' S1 A1 A1'. destruct o as [b|]; [|fin].
  destruct (b =? 0); [fin|].
  destruct ((1 <=? b) && (b <=? 127)); [|fin].
  assert (W1 : reader_wf r1) by eauto using wf_same_window.
  assert (F1 : (remaining r1 < fuel)%nat).
  { destruct RT as [(E & R)|(E & b' & Hb & R & Lt)]; [congruence|].
    inversion R; subst. unfold remaining in *. cbn. lia. }
  specialize (IH ptr (len + 1) _ _ W1 S1 F1).
  destruct (parseString_go fuel ptr (len + 1) r1) as [[[a ok] r2]| |]; try contradiction.
  destruct (parseString_go fuel ptr (len + 1) r1') as [[[a' ok'] r2']| |]; try contradiction.
  destruct IH as (Ea & Eo & S2 & A2 & A2'). subst. fin.
Qed.

Lemma remaining_lt_fuel r : reader_wf r -> (remaining r < stream_fuel r)%nat.
Proof. intros (W1 & W2 & W3 & W4). unfold remaining, stream_fuel. lia. Qed.

Lemma stream_fuel_sim r r' : reader_wf r -> reader_wf r' -> sim r r' -> stream_fuel r = stream_fuel r'.
Proof.
  intros (W1 & _) (W1' & _) [SL _ _ _]. unfold stream_fuel. f_equal. lia.
Qed.

(** [safe] needs the invariant of the second reader for the fuel; readers compared by [sim] have
    the same length, so we ask for both *)
Definition safe2 {A} (f : reader -> outcome (A * bool * reader)) : Prop :=
  forall r r', reader_wf r -> reader_wf r' -> sim r r' ->
    match f r, f r' with
    | Ok (a, ok, r1), Ok (a', ok', r1') => a = a' /\ ok = ok' /\ sim r1 r1' /\ same_window r r1 /\ same_window r' r1'
    | _, _ => False
    end.

Lemma safe_safe2 {A} (f : reader -> outcome (A * bool * reader)) : safe f -> safe2 f.
Proof. intros H r r' W _ S. apply H; auto. Qed.

Lemma safe2_parseString : safe2 parseString.
Proof.
  intros r r' W W' S. unfold parseString.
  destruct (dataPtr_sim r r' W S) as (p & E1 & E2 & _). rewrite E1, E2. cbn [bind].
  rewrite <- (stream_fuel_sim r r' W W' S).
  apply safe_parseString_go; auto using remaining_lt_fuel.
Qed.

Lemma peekByte_sim r r' : reader_wf r -> sim r r' ->
  exists b, peekByte r = Ok b /\ peekByte r' = Ok b /\
            (b = None <-> eof r = true) /\ (forall x, b = Some x -> byte_at (r_data r) (r_offset r) = Some x /\ r_offset r < r_pkgEnd r).
Proof.
  intros (W1 & W2 & W3 & W4) [SL SO SE SD]. unfold peekByte, eof. rewrite <- SE, <- SO.
  destruct (r_pkgEnd r <=? r_offset r) eqn:E.
  - exists None. repeat split; auto; congruence.
  - apply N.leb_gt in E. rewrite <- (SD _ E).
    destruct (byte_at_Some (r_data r) (r_offset r)) as [b Hb]; [lia|]. rewrite Hb.
    exists (Some b). repeat split; auto; try congruence; intros x Hx; inversion Hx; subst; auto.
Qed.

Lemma safe_skipPrefix_go fuel : forall r r', reader_wf r -> sim r r' -> (remaining r < fuel)%nat ->
  match skipPrefix_go fuel r, skipPrefix_go fuel r' with
  | Ok (ok, r1), Ok (ok', r1') => ok = ok' /\ sim r1 r1' /\ same_window r r1 /\ same_window r' r1' /\
                                  (ok = true -> eof r1 = false) /\ r_offset r <= r_offset r1
  | _, _ => False
  end.
Proof.
  induction fuel as [|fuel IH]; intros r r' W S F; [lia|]. cbn [skipPrefix_go].
  destruct (peekByte_sim r r' W S) as (b & E1 & E2 & Hn & Hs). rewrite E1, E2. cbn [bind].
  destruct b as [b|].
  2:{ split; [reflexivity|split; [exact S|split; [apply same_window_refl|split; [apply same_window_refl|split]]]];
      [discriminate|lia]. }
  destruct ((b =? 92) || (b =? 94)).
  2:{ split; [reflexivity|split; [exact S|split; [apply same_window_refl|split; [apply same_window_refl|split]]]]; [|lia].
      intros _. destruct (eof r) eqn:Ee; auto. destruct Hn as [_ Hn]. specialize (Hn eq_refl). discriminate. }
  pose proof (readByte_total r W) as RT.
  step_read W S as o r1 r1' S1 A1 A1'.
  assert (W1 : reader_wf r1) by eauto using wf_same_window.
  destruct RT as [(E & R)|(E & b' & Hb & R & Lt)].
  { destruct (Hs b eq_refl) as (_ & Lt). unfold eof in E. apply N.leb_le in E. lia. }
  inversion R; subst.
  assert (F1 : (remaining (set_offset_raw r (r_offset r + 1)) < fuel)%nat).
  { unfold remaining in *. cbn. lia. }
  specialize (IH _ _ W1 S1 F1).
  destruct (skipPrefix_go fuel (set_offset_raw r (r_offset r + 1))) as [[ok r2]| |]; try contradiction.
  destruct (skipPrefix_go fuel r1') as [[ok' r2']| |]; try contradiction.
  destruct IH as (Eo & S2 & A2 & A2' & Hok & Hle). cbn in Hle.
  split; [exact Eo|split; [exact S2|split; [sw|split; [sw|split]]]]; [exact Hok|lia].
Qed.

(** ---- bytes are bytes ---- *)
Lemma byte_at_byte r i b : reader_wf r -> byte_at (r_data r) i = Some b -> b < 256.
Proof.
  intros (_ & _ & _ & W4) H. unfold byte_at in H. apply nth_error_In in H.
  rewrite Forall_forall in W4. apply W4. exact H.
Qed.

Lemma readByte_byte r b r1 : reader_wf r -> readByte r = Ok (Some b, r1) -> b < 256.
Proof.
  intros W H. destruct (readByte_total r W) as [(E & R)|(E & b' & Hb & R & Lt)]; rewrite R in H; inversion H; subst.
  eapply byte_at_byte; eauto.
Qed.

(** ---- parseNameString ---- *)
Lemma safe2_parseNameString : safe2 parseNameString.
Proof.
  intros r r' W W' S. unfold parseNameString.
  assert (SO : r_offset r = r_offset r') by apply S.
  destruct (dataPtr_sim r r' W S) as (p & E1 & E2 & _). rewrite E1, E2. cbn [bind].
  rewrite <- (stream_fuel_sim r r' W W' S).
  pose proof (safe_skipPrefix_go (stream_fuel r) r r' W S (remaining_lt_fuel r W)) as SK.
  destruct (skipPrefix_go (stream_fuel r) r) as [[ok r1]| |]; try contradiction.
  destruct (skipPrefix_go (stream_fuel r) r') as [[ok' r1']| |]; try contradiction.
  destruct SK as (Eo & S1 & A1 & A1' & Hok & Hle). subst ok'. cbn [bind].
  destruct ok; cbn [negb]; [|fin].
  assert (W1 : reader_wf r1) by eauto using wf_same_window.
  step_read W1 S1 as o r2 r2' S2 A2 A2'.
  assert (SO2 : r_offset r2 = r_offset r2') by apply S2.
  assert (SE2 : r_pkgEnd r2 = r_pkgEnd r2') by apply S2.
  rewrite <- SO, <- SO2, <- SE2.
  set (next := match o with Some b => b | None => 0 end).
  destruct (next =? 0); [fin|].
  destruct (next =? 46).
  { destruct (r_pkgEnd r2 <? w32 (r_offset r2 + w32 (aml_amlNameLen * 2))); [fin|].
    cbn [r_offset setOffset set_offset_raw]. rewrite (sim_len _ _ S2). fin. }
  destruct (next =? 47).
  { assert (W2 : reader_wf r2) by (eapply wf_same_window; [exact W1|exact A2]).
    step_read W2 S2 as o3 r3 r3' S3 A3 A3'.
    assert (SO3 : r_offset r3 = r_offset r3') by apply S3.
    assert (SE3 : r_pkgEnd r3 = r_pkgEnd r3') by apply S3.
    rewrite <- SO3, <- SE3.
    destruct o3 as [segCount|]; [|fin].
    destruct (segCount =? 0); [fin|].
    destruct (r_pkgEnd r3 <? w32 (r_offset r3 + w8 (segCount * aml_amlNameLen))); [fin|].
    cbn [r_offset setOffset set_offset_raw]. rewrite (sim_len _ _ S3). fin. }
  destruct (((next <? 65) || (90 <? next)) && negb (next =? 95)); [fin|].
  destruct (r_pkgEnd r2 <? w32 (r_offset r2 + w32 (aml_amlNameLen - 1))); [fin|].
  cbn [r_offset setOffset set_offset_raw]. rewrite (sim_len _ _ S2). fin.
Qed.

(** ---- nextOpcode / peekNextOpcode ---- *)
Lemma opcodeMap_len : length aml_opcodeMap = 256%nat. Proof. reflexivity. Qed.
Lemma extendedOpcodeMap_len : length aml_extendedOpcodeMap = 256%nat. Proof. reflexivity. Qed.

Lemma opcodeTableIndex_total op : op <= 0x1fe -> exists i, opcodeTableIndex op false = Some i.
Proof.
  intros H. unfold opcodeTableIndex, nthN.
  destruct (op <=? 255) eqn:E.
  - apply N.leb_le in E. destruct (nth_error aml_opcodeMap (N.to_nat op)) eqn:En; eauto.
    apply nth_error_None in En. rewrite opcodeMap_len in En. lia.
  - apply N.leb_gt in E. destruct (nth_error aml_extendedOpcodeMap (N.to_nat (op - 255))) eqn:En.
    + rewrite andb_false_r. eauto.
    + apply nth_error_None in En. rewrite extendedOpcodeMap_len in En. lia.
Qed.

Lemma safe_nextOpcode : safe nextOpcode.
Proof.
  intros r r' W S. unfold nextOpcode.
  pose proof (readByte_total r W) as RT.
  step_read W S as o r1 r1' S1 A1 A1'.
  destruct o as [next|]; [|fin].
  assert (Hb : next < 256).
  { destruct RT as [(E & R)|(E & b' & Hb & R & Lt)]; inversion R; subst. eapply byte_at_byte; eauto. }
  assert (W1 : reader_wf r1) by eauto using wf_same_window.
  destruct (next =? aml_extOpPrefix).
  - pose proof (readByte_total r1 W1) as RT1.
    step_read W1 S1 as o2 r2 r2' S2 A2 A2'.
    destruct o2 as [next2|].
    + assert (Hb2 : next2 < 256).
      { destruct RT1 as [(E & R)|(E & b' & Hb' & R & Lt)]; inversion R; subst. eapply byte_at_byte; eauto. }
      assert (Hop : w16 (255 + next2) <= 0x1fe) by (unfold w16, two16; lia).
      destruct (opcodeTableIndex_total _ Hop) as (i & Ei). rewrite Ei.
      rewrite <- (sim_off _ _ S2).
      destruct (i =? aml_badOpcode); fin.
    + unfold unreadByte. rewrite <- (sim_off _ _ S2).
      destruct (r_offset r2 =? 0); cbn [fst].
      * fin.
      * split; [reflexivity|split; [reflexivity|split; [|split]]].
        -- destruct S2 as [SL SO SE SD]. constructor; cbn; auto; try (rewrite SO; reflexivity).
        -- eapply same_window_trans; [exact A1|]. eapply same_window_trans; [exact A2|]. apply same_window_set_offset.
        -- eapply same_window_trans; [exact A1'|]. eapply same_window_trans; [exact A2'|]. apply same_window_set_offset.
  - assert (Hop : next <= 0x1fe) by lia.
    destruct (opcodeTableIndex_total _ Hop) as (i & Ei). rewrite Ei.
    rewrite <- (sim_off _ _ S1).
    destruct (i =? aml_badOpcode); fin.
Qed.

Lemma safe_peekNextOpcode : safe peekNextOpcode.
Proof.
  intros r r' W S. unfold peekNextOpcode.
  pose proof (safe_nextOpcode r r' W S) as H.
  destruct (nextOpcode r) as [[[op ok] r1]| |]; try contradiction.
  destruct (nextOpcode r') as [[[op' ok'] r1']| |]; try contradiction.
  destruct H as (Eo & Ek & S1 & A1 & A1'). subst. cbn [bind].
  rewrite <- (sim_off _ _ S). fin.
Qed.

(** ---- reader_safe: all of layer 2 at once ---- *)
Theorem reader_safe :
  safe2 parsePkgLength /\ (forall k, safe2 (parseNumConstant k)) /\ safe2 parseString /\ safe2 parseNameString /\
  safe2 nextOpcode /\ safe2 peekNextOpcode.
Proof.
  split; [apply safe_safe2, safe_parsePkgLength|].
  split; [intros k; apply safe_safe2, safe_parseNumConstant|].
  split; [apply safe2_parseString|].
  split; [apply safe2_parseNameString|].
  split; [apply safe_safe2, safe_nextOpcode|apply safe_safe2, safe_peekNextOpcode].
Qed.

(** ---- slices ---- *)
Lemma parseString_go_slice fuel : forall ptr len r s ok r1, reader_wf r ->
  parseString_go fuel ptr len r = Ok (s, ok, r1) ->
  s_ptr s = ptr /\ len <= s_len s /\ r_offset r <= r_offset r1 /\ s_len s - len <= r_offset r1 - r_offset r /\
  (r_offset r <= r_pkgEnd r -> r_offset r1 <= r_pkgEnd r).
Proof.
  induction fuel as [|fuel IH]; intros ptr len r s ok r1 W H; [discriminate|]. cbn [parseString_go] in H.
  destruct (readByte_total r W) as [(E & R)|(E & b & Hb & R & Lt)]; rewrite R in H; cbn [bind] in H.
  - inversion H; subst. cbn. repeat split; lia.
  - destruct (b =? 0). { inversion H; subst. cbn. repeat split; lia. }
    destruct ((1 <=? b) && (b <=? 127)).
    2:{ inversion H; subst. cbn. repeat split; lia. }
    assert (W1 : reader_wf (set_offset_raw r (r_offset r + 1))) by (eapply wf_same_window; eauto using same_window_set_offset).
    destruct (IH _ _ _ _ _ _ W1 H) as (P1 & P2 & P3 & P4 & P5). cbn in P3, P4, P5.
    repeat split; auto; try lia.
Qed.

Lemma parseString_slice r s ok r1 : reader_wf r -> parseString r = Ok (s, ok, r1) ->
  match s_ptr s with
  | Some p => p = r_offset r /\ p + s_len s <= r_pkgEnd r
  | None => s_len s = 0
  end /\ same_window r r1.
Proof.
  intros W H. unfold parseString in H.
  destruct (dataPtr_sim r r W (sim_refl r)) as (p & E1 & _ & Hp). rewrite E1 in H. cbn [bind] in H.
  pose proof (safe2_parseString r r W W (sim_refl r)) as SS. unfold parseString in SS. rewrite E1 in SS. cbn [bind] in SS.
  rewrite H in SS. destruct SS as (_ & _ & _ & A & _). split; auto.
  destruct (parseString_go_slice _ _ _ _ _ _ _ W H) as (P1 & P2 & P3 & P4 & P5).
  rewrite P1. destruct p as [q|].
  - destruct Hp as (-> & Lt). split; auto.
    assert (r_offset r1 <= r_pkgEnd r) by (apply P5; lia). lia.
  - (* at EOF the first read fails *)
    unfold stream_fuel in H. cbn [parseString_go] in H.
    destruct (readByte_total r W) as [(E & R)|(E & b & Hb & R & Lt)]; [|lia].
    rewrite R in H. cbn [bind] in H. inversion H; subst. reflexivity.
Qed.

Lemma skipPrefix_go_offset fuel r ok r1 : reader_wf r -> (remaining r < fuel)%nat -> skipPrefix_go fuel r = Ok (ok, r1) ->
  same_window r r1 /\ r_offset r <= r_offset r1 /\ (ok = true -> r_offset r1 < r_pkgEnd r1).
Proof.
  intros W F H. pose proof (safe_skipPrefix_go fuel r r W (sim_refl r) F) as SK. rewrite H in SK.
  destruct SK as (_ & _ & A & _ & Hok & Hle). split; [exact A|split; [exact Hle|]].
  intros ->. specialize (Hok eq_refl). unfold eof in Hok. apply N.leb_gt in Hok. exact Hok.
Qed.

Lemma setOffset_noclamp r o : o <= r_len r -> r_offset (setOffset r o) = o.
Proof. intros H. unfold setOffset. cbn. destruct (r_len r <? o) eqn:E; auto. apply N.ltb_lt in E. lia. Qed.

(** The end offset of a name is computed in uint32: for a table within 1 KiB of 4 GiB the addition can wrap
    around and the check against pkgEnd passes although the name does not fit.  [no_wrap] excludes such tables. *)
Definition no_wrap (r : reader) : Prop := r_len r + 1024 <= two32.

Lemma parseNameString_slice r s ok r1 : reader_wf r -> no_wrap r -> parseNameString r = Ok (s, ok, r1) ->
  match s_ptr s with
  | Some p => p = r_offset r /\ p + s_len s <= r_pkgEnd r
  | None => s_len s = 0
  end /\ same_window r r1.
Proof.
  intros W NW H. unfold no_wrap in NW.
  pose proof (safe2_parseNameString r r W W (sim_refl r)) as SS. rewrite H in SS. destruct SS as (_ & _ & _ & A & _).
  split; auto. clear A.
  unfold parseNameString in H.
  destruct (dataPtr_sim r r W (sim_refl r)) as (p & E1 & _ & Hp). rewrite E1 in H. cbn [bind] in H.
  destruct (skipPrefix_go (stream_fuel r) r) as [[ok1 r2]| |] eqn:ESK; try discriminate. cbn [bind] in H.
  destruct (skipPrefix_go_offset _ _ _ _ W (remaining_lt_fuel r W) ESK) as (A1 & L1 & Hok).
  destruct ok1; cbn [negb] in H.
  2:{ inversion H; subst. cbn. reflexivity. }
  specialize (Hok eq_refl).
  assert (W2 : reader_wf r2) by eauto using wf_same_window.
  destruct (readByte_total r2 W2) as [(E & R)|(E & b & Hb & R & Lt)]; rewrite R in H; cbn [bind] in H.
  { unfold eof in E. apply N.leb_le in E. lia. }
  destruct A1 as (D1 & Le1 & Pe1).
  destruct W as (Wa & Wb & Wc & Wd).
  assert (Hpp : match p with Some q => q = r_offset r /\ q < r_pkgEnd r | None => False end).
  { destruct p; auto. rewrite Pe1 in Hok. lia. }
  destruct p as [q|]; [|contradiction]. destruct Hpp as (-> & Hq).
  remember (set_offset_raw r2 (r_offset r2 + 1)) as r3 eqn:Er3.
  assert (O3 : r_offset r3 = r_offset r2 + 1) by (rewrite Er3; reflexivity).
  assert (E3 : r_pkgEnd r3 = r_pkgEnd r) by (rewrite Er3; cbn; auto).
  assert (L3 : r_len r3 = r_len r) by (rewrite Er3; cbn; auto).
  assert (D3 : r_data r3 = r_data r) by (rewrite Er3; cbn; auto).
  assert (B32 : r_pkgEnd r < two32) by lia.
  clear Er3.
  unfold two32 in *.
  destruct (b =? 0).
  { injection H as Hs _ _. rewrite <- Hs. cbn [s_ptr s_len]. split; auto. rewrite O3. unfold w32, two32. lia. }
  destruct (b =? 46).
  { destruct (r_pkgEnd r3 <? w32 (r_offset r3 + w32 (aml_amlNameLen * 2))) eqn:EE;
      injection H as Hs _ _; rewrite <- Hs; cbn [s_ptr s_len nil_slice]; [reflexivity|].
    apply N.ltb_ge in EE. split; auto.
    match goal with |- context [if ?c then _ else _] => destruct c eqn:EL end;
      [apply N.ltb_lt in EL|apply N.ltb_ge in EL]; unfold w32, two32, aml_amlNameLen in *; lia. }
  destruct (b =? 47).
  { assert (W3 : reader_wf r3) by (unfold reader_wf; rewrite D3, L3, E3; auto).
    destruct (readByte_total r3 W3) as [(E' & R')|(E' & sc & Hsc & R' & Lt')]; rewrite R' in H; cbn [bind] in H.
    { injection H as Hs _ _. rewrite <- Hs. reflexivity. }
    destruct (sc =? 0). { injection H as Hs _ _. rewrite <- Hs. reflexivity. }
    remember (set_offset_raw r3 (r_offset r3 + 1)) as r4 eqn:Er4.
    assert (O4 : r_offset r4 = r_offset r2 + 2) by (rewrite Er4; cbn; lia).
    assert (E4 : r_pkgEnd r4 = r_pkgEnd r) by (rewrite Er4; cbn; auto).
    assert (L4 : r_len r4 = r_len r) by (rewrite Er4; cbn; auto).
    clear Er4.
    destruct (r_pkgEnd r4 <? w32 (r_offset r4 + w8 (sc * aml_amlNameLen))) eqn:EE;
      injection H as Hs _ _; rewrite <- Hs; cbn [s_ptr s_len nil_slice]; [reflexivity|].
    apply N.ltb_ge in EE. split; auto.
    assert (Hx : w8 (sc * aml_amlNameLen) < 256) by (unfold w8, two8; apply N.mod_lt; discriminate).
    remember (w8 (sc * aml_amlNameLen)) as x eqn:Ex. clear Ex.
    assert (Hsum : w32 (r_offset r4 + x) = r_offset r4 + x) by (unfold w32, two32; apply N.mod_small; lia).
    rewrite Hsum in *.
    match goal with |- context [if ?c then _ else _] => destruct c eqn:EL end;
      [apply N.ltb_lt in EL|apply N.ltb_ge in EL]; unfold w32, two32 in *; lia. }
  destruct (((b <? 65) || (90 <? b)) && negb (b =? 95)). { injection H as Hs _ _. rewrite <- Hs. reflexivity. }
  destruct (r_pkgEnd r3 <? w32 (r_offset r3 + w32 (aml_amlNameLen - 1))) eqn:EE;
    injection H as Hs _ _; rewrite <- Hs; cbn [s_ptr s_len nil_slice]; [reflexivity|].
  apply N.ltb_ge in EE. split; auto.
  match goal with |- context [if ?c then _ else _] => destruct c eqn:EL end;
    [apply N.ltb_lt in EL|apply N.ltb_ge in EL]; unfold w32, two32, aml_amlNameLen in *; lia.
Qed.

(** every slice returned by parseString / parseNameString lies inside the table (in fact inside the
    current package, starting at the offset at which the function was called) *)
Theorem lex_slices_inside : forall r s ok r1, reader_wf r -> no_wrap r ->
  parseString r = Ok (s, ok, r1) \/ parseNameString r = Ok (s, ok, r1) ->
  slice_inside (r_len r) s /\ slice_inside (r_pkgEnd r) s /\
  (forall p, s_ptr s = Some p -> p = r_offset r).
Proof.
  intros r s ok r1 W NW H.
  assert (P : match s_ptr s with
              | Some p => p = r_offset r /\ p + s_len s <= r_pkgEnd r
              | None => s_len s = 0 end).
  { destruct H as [H|H]; [apply (parseString_slice _ _ _ _ W H)|apply (parseNameString_slice _ _ _ _ W NW H)]. }
  destruct W as (_ & Wb & _). unfold slice_inside.
  destruct (s_ptr s) as [p|].
  - destruct P as (-> & Le). split; [|split].
    + right. exists (r_offset r). split; auto. lia.
    + right. exists (r_offset r). split; auto.
    + intros q Hq. inversion Hq. reflexivity.
  - split; [left; exact P|split; [left; exact P|intros q Hq; discriminate]].
Qed.
