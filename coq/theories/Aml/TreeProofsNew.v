(** C13: the object newObject returns carries the zero name, whether its slot is fresh or a reused
    slot of the free list (/repo d18acb2: before that repair a reused slot kept the name of the freed
    object, and Find resolved that name to the new, unnamed object). *)
From Coq Require Import NArith Arith List Bool Lia.
From Coq Require Import ZifyBool ZifyN ZifyNat.
From FF Require Import Lib.Word Gen.Consts_aml_tree Aml.Stream Aml.Tree Aml.TreeSpec Aml.TreeProofs Aml.TreeProofsOps
  Aml.ParserTotalTree.
Import ListNotations.
Local Open Scope N_scope.

Lemma newObject_unnamed {V} (t t' : ObjectTree V) opc th p :
  newObject t opc th = Ok (t', p) ->
  exists o, get t' p = Some o /\ o_name o = name_zero /\ o_opcode o = opc /\ o_tableHandle o = th /\ o_value o = None /\
            o_parent o = InvalidIndex /\ o_prev o = InvalidIndex /\ o_next o = InvalidIndex /\
            o_first o = InvalidIndex /\ o_last o = InvalidIndex.
Proof.
  unfold newObject. intros H. destruct (t_free t =? InvalidIndex) eqn:Ef; cbn [bind] in H.
  - apply bind_ok in H. destruct H as (info & _ & H). apply bind_ok in H. destruct H as (t2 & Hw & H). inversion H; subst t2 p. clear H.
    destruct (wr_inv _ _ _ _ Hw) as (-> & o & Ho). rewrite get_tset, N.eqb_refl, Ho. cbn [option_map]. eexists. split; [reflexivity|].
    cbn. repeat split; reflexivity.
  - apply bind_ok in H. destruct H as ([t1 p1] & Htp & H). apply bind_ok in Htp. destruct Htp as (o & Ho & Htp). inversion Htp; subst t1 p1. clear Htp.
    apply bind_ok in H. destruct H as (info & _ & H). apply bind_ok in H. destruct H as (t2 & Hw & H). inversion H; subst t2 p. clear H.
    destruct (wr_inv _ _ _ _ Hw) as (-> & o1 & Ho1). rewrite get_tset, N.eqb_refl, Ho1. cbn [option_map]. eexists. split; [reflexivity|].
    cbn. repeat split; reflexivity.
Qed.

(** the history of the repaired defect: a named object is created, freed, its slot reused by newObject:
    the new object does not answer to the old name *)
Lemma reuse_forgets_name {V} (t t1 t2 t3 : ObjectTree V) opc opc2 th nm p q :
  newNamedObject t opc th nm = Ok (t1, p) -> free t1 p = Ok t2 -> newObject t2 opc2 th = Ok (t3, q) ->
  exists o, get t3 q = Some o /\ o_name o = name_zero.
Proof.
  intros _ _ H. destruct (newObject_unnamed _ _ _ _ _ H) as (o & Ho & Hn & _). eauto.
Qed.
