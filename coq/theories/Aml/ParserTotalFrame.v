(** C12 (stretch): frames.  What a parser function leaves untouched: the payload of the objects that were live before,
    and their child lists (which only grow at the end).  Obtained for the leaf functions from partial-correctness lemmas
    ("only these objects are written") and the fact that the forest is determined by the pool. *)
From Coq Require Import NArith Arith List Bool Lia.
From Coq Require Import ZifyBool ZifyN ZifyNat.
From FF Require Import Lib.Word Gen.Consts_device_acpi_aml Gen.Consts_aml_tree Aml.Stream Aml.Lex Aml.LexProofs
  Aml.Tree Aml.TreeSpec Aml.TreeProofs Aml.TreeProofsOps Aml.Parser
  Aml.ParserTotalTree Aml.ParserTotalLex Aml.ParserTotalTable Aml.ParserTotalBase Aml.ParserTotalLeaf.
Import ListNotations.
Local Open Scope N_scope.

(** ---- the forest is determined by the pool ---- *)
Lemma chain_same {V} (t t' : ObjectTree V) y :
  (forall i o, tget t i = Some o -> o_opcode o <> opFreed -> tget t' i = Some o) ->
  (forall i o, tget t' i = Some o -> i <> InvalidIndex) ->
  forall l l' prev, chain t y prev l InvalidIndex -> chain t' y prev l' InvalidIndex ->
    hd InvalidIndex l = hd InvalidIndex l' -> l = l'.
Proof.
  intros Hsame Hninv. induction l as [|c rest IH]; intros l' prev Hc Hc' Hhd.
  - destruct l' as [|c' rest']; [reflexivity|]. cbn [hd] in Hhd. exfalso.
    destruct Hc' as ((o & Ho & _) & _). apply (Hninv _ _ Ho). symmetry. exact Hhd.
  - destruct Hc as ((o & Ho & Hlo & Hp & Hpv & Hnx) & Hrest).
    destruct l' as [|c' rest'].
    { cbn [hd] in Hhd. exfalso. pose proof (Hsame _ _ Ho Hlo) as Ho'. apply (Hninv _ _ Ho'). exact Hhd. }
    cbn [hd] in Hhd. subst c'.
    destruct Hc' as ((o' & Ho' & _ & _ & _ & Hnx') & Hrest').
    pose proof (Hsame _ _ Ho Hlo) as Ho2. assert (o' = o) by congruence. subst o'.
    f_equal. apply (IH rest' c Hrest Hrest'). congruence.
Qed.

Lemma kids_same {V} (t t' : ObjectTree V) g g' :
  R t g -> R t' g' ->
  (forall i o, tget t i = Some o -> o_opcode o <> opFreed -> tget t' i = Some o) ->
  forall y, glive g y -> kids g' y = kids g y.
Proof.
  intros HR HR' Hsame y Hl. apply (R_live_glive _ _ HR) in Hl. destruct Hl as (o & Ho & Hlo).
  pose proof (Hsame _ _ Ho Hlo) as Ho'.
  destruct (R_kids _ _ HR _ _ Ho Hlo) as (Hf & _ & Hc & _).
  destruct (R_kids _ _ HR' _ _ Ho' Hlo) as (Hf' & _ & Hc' & _).
  symmetry. eapply (chain_same t t' y Hsame); [|exact Hc|exact Hc'|congruence].
  intros i oi Hi. eapply (R_pos_not_Inv _ _ HR'); eauto.
Qed.

(** ---- frames ---- *)
(** all payload fields but the value *)
Definition pnv {V} (o o' : Object V) : Prop :=
  o_opcode o' = o_opcode o /\ o_infoIndex o' = o_infoIndex o /\ o_tableHandle o' = o_tableHandle o /\
  o_name o' = o_name o /\ o_index o' = o_index o /\ o_amlOffset o' = o_amlOffset o /\ o_pkgEnd o' = o_pkgEnd o.

Lemma pnv_refl {V} (o : Object V) : pnv o o.
Proof. unfold pnv. tauto. Qed.
Lemma pnv_trans {V} (a b c : Object V) : pnv a b -> pnv b c -> pnv a c.
Proof. unfold pnv. intuition congruence. Qed.
Lemma pay_eq_pnv {V} (o o' : Object V) : pay_eq o o' -> pnv o o' /\ o_value o' = o_value o.
Proof. unfold pay_eq, pnv. tauto. Qed.

(** the objects that were live keep their payload; those in [P] may get another value *)
Definition keep (P : N -> Prop) (s : pstate) (g : ghost) (s' : pstate) : Prop :=
  forall i o, glive g i -> tget (p_tree s) i = Some o ->
    exists o', tget (p_tree s') i = Some o' /\ pnv o o' /\ (~ P i -> o_value o' = o_value o).

(** child lists: nothing is said about the nodes in [E]; the lists of the others only grow at the end, those outside [X] not at all *)
Definition Fk (X E : N -> Prop) (g g' : ghost) : Prop :=
  forall y, glive g y -> ~ E y -> (exists extra, kids g' y = kids g y ++ extra) /\ (~ X y -> kids g' y = kids g y).

Record Fr (P X E : N -> Prop) (s : pstate) (g : ghost) (s' : pstate) (g' : ghost) : Prop := mkFr {
  fr_keep : keep P s g s';
  fr_kids : Fk X E g g'
}.

Definition NoP : N -> Prop := fun _ => False.

Lemma keep_refl P s g : keep P s g s.
Proof. intros i o _ Ho. exists o. split; auto. split; [apply pnv_refl|auto]. Qed.

Lemma keep_trans (P P1 : N -> Prop) s g s1 g1 s2 :
  keep P s g s1 -> keep P1 s1 g1 s2 -> (forall x, glive g x -> glive g1 x) -> (forall i, glive g i -> P1 i -> P i) -> keep P s g s2.
Proof.
  intros K1 K2 Hl Hp i o Hi Ho. destruct (K1 i o Hi Ho) as (o1 & Ho1 & E1 & V1).
  destruct (K2 i o1 (Hl _ Hi) Ho1) as (o2 & Ho2 & E2 & V2).
  exists o2. split; auto. split; [eapply pnv_trans; eauto|]. intros Hn. rewrite V2; [apply V1; exact Hn|]. intros F. apply Hn. apply Hp; auto.
Qed.

Lemma keep_gets P s g s1 s2 : keep P s g s1 -> (forall i, glive g i -> tget (p_tree s2) i = tget (p_tree s1) i) -> keep P s g s2.
Proof. intros K E i o Hi Ho. rewrite (E i Hi). apply (K i o Hi Ho). Qed.

Lemma keep_pframe P s g s1 (t2 : T) : keep P s g s1 -> pframe (p_tree s1) t2 -> keep P s g (with_tree s1 t2).
Proof.
  intros K Hpf i o Hi Ho. destruct (K i o Hi Ho) as (o1 & Ho1 & E1 & V1).
  destruct (proj2 Hpf _ _ Ho1) as (o2 & Ho2 & E2). destruct (pay_eq_pnv _ _ E2) as (E2' & V2).
  exists o2. split; [exact Ho2|]. split; [eapply pnv_trans; eauto|]. intros Hn. rewrite V2. apply V1. exact Hn.
Qed.

Lemma Fk_refl X E g : Fk X E g g.
Proof. intros y _ _. split; [exists []; rewrite app_nil_r; reflexivity|reflexivity]. Qed.

Lemma Fk_trans (X X1 E E1 : N -> Prop) g g1 g2 :
  Fk X E g g1 -> Fk X1 E1 g1 g2 -> (forall x, glive g x -> glive g1 x) ->
  (forall y, glive g y -> X1 y -> X y) -> (forall y, glive g y -> E1 y -> E y) -> Fk X E g g2.
Proof.
  intros F1 F2 Hl Hx He y Hy HE. destruct (F1 y Hy HE) as (A1 & B1).
  destruct (F2 y (Hl _ Hy) (fun F => HE (He _ Hy F))) as (A2 & B2). split.
  - destruct A1 as (e1 & E1'). destruct A2 as (e2 & E2'). exists (e1 ++ e2). rewrite E2', E1', app_assoc. reflexivity.
  - intros HX. rewrite B2; [apply B1; exact HX|]. intros H1. apply HX. apply Hx; auto.
Qed.

Lemma Fr_refl P X E s g : Fr P X E s g s g.
Proof. constructor; [apply keep_refl|apply Fk_refl]. Qed.

Lemma Fr_trans (P P1 X X1 E E1 : N -> Prop) s g s1 g1 s2 g2 :
  Fr P X E s g s1 g1 -> Fr P1 X1 E1 s1 g1 s2 g2 -> (forall x, glive g x -> glive g1 x) ->
  (forall i, glive g i -> P1 i -> P i) -> (forall y, glive g y -> X1 y -> X y) -> (forall y, glive g y -> E1 y -> E y) ->
  Fr P X E s g s2 g2.
Proof. intros [K1 G1] [K2 G2] Hl Hp Hx He. constructor; [eapply keep_trans; eauto|eapply Fk_trans; eauto]. Qed.

Lemma Fr_weaken (P P' X X' E E' : N -> Prop) s g s' g' :
  (forall i, glive g i -> P i -> P' i) -> (forall y, glive g y -> X y -> X' y) -> (forall y, glive g y -> E y -> E' y) ->
  Fr P X E s g s' g' -> Fr P' X' E' s g s' g'.
Proof.
  intros Hp Hx He [K G]. constructor.
  - intros i o Hi Ho. destruct (K i o Hi Ho) as (o' & Ho' & E1 & V1). exists o'. split; [exact Ho'|]. split; [exact E1|].
    intros Hn. apply V1. intros F. apply Hn. apply Hp; auto.
  - intros y Hy HE. destruct (G y Hy (fun F => HE (He _ Hy F))) as (A & B). split; [exact A|].
    intros HX'. apply B. intros H1. apply HX'. apply Hx; auto.
Qed.

(** the objects that were live are exactly as they were: the frame of a function that only creates and fills new objects *)
Lemma Fr_same s g s' g' :
  R (p_tree s) g -> R (p_tree s') g' ->
  (forall i o, tget (p_tree s) i = Some o -> o_opcode o <> opFreed -> tget (p_tree s') i = Some o) ->
  Fr NoP NoP NoP s g s' g'.
Proof.
  intros HR HR' Hsame. constructor.
  - intros i o Hi Ho. exists o. split; [|split; [apply pnv_refl|auto]].
    apply (R_live_glive _ _ HR) in Hi. destruct Hi as (o1 & Ho1 & Hl1). assert (o1 = o) by congruence. subst. auto.
  - intros y Hy _. assert (E : kids g' y = kids g y) by (eapply kids_same; eauto).
    split; [exists []; rewrite app_nil_r; exact E|intros _; exact E].
Qed.

(** ---- partial correctness: which objects a function writes ---- *)
Definition only {A} (W : N -> Prop) (m : M A) : Prop :=
  forall s a s', m s = Ok (a, s') -> forall i, ~ W i -> tget (p_tree s') i = tget (p_tree s) i.

Lemma only_ret {A} W (a : A) : only W (ret a).
Proof. intros s a' s' H i _. inversion H; subst. reflexivity. Qed.

Lemma only_bind {A B} W (m : M A) (f : A -> M B) : only W m -> (forall a, only W (f a)) -> only W (bindM m f).
Proof.
  intros Hm Hf s b s' H i Hi. unfold bindM in H. destruct (m s) as [[a s1]| |] eqn:E; try discriminate.
  rewrite (Hf a _ _ _ H i Hi). apply (Hm _ _ _ E i Hi).
Qed.

Lemma only_get {A} W (f : pstate -> A) : only W (get f).
Proof. intros s a s' H i _. inversion H; subst. reflexivity. Qed.

Lemma only_lex {A} W (f : reader -> outcome (A * bool * reader)) : only W (lex f).
Proof.
  intros s a s' H i _. unfold lex in H. destruct (f (p_r s)) as [[[x ok] r]| |]; try discriminate. inversion H; subst. reflexivity.
Qed.

Lemma only_ru W f : only W (ru f).
Proof. intros s a s' H i _. inversion H; subst. reflexivity. Qed.

Lemma only_tq {A} W (f : T -> outcome A) : only W (tq f).
Proof. intros s a s' H i _. unfold tq in H. destruct (f (p_tree s)); try discriminate. inversion H; subst. reflexivity. Qed.

Lemma only_lift {A} W (o : outcome A) : only W (lift o).
Proof. intros s a s' H i _. unfold lift in H. destruct o; try discriminate. inversion H; subst. reflexivity. Qed.

Lemma only_tableIndex W op b : only W (tableIndex op b).
Proof. unfold tableIndex. destruct (opcodeTableIndex op b); [apply only_ret|]. intros s a s' H. discriminate. Qed.

Lemma only_wrf (W : N -> Prop) p f : W p -> only W (wrf p f).
Proof.
  intros Hp s a s' H i Hi. unfold wrf, tu in H. destruct (wr (p_tree s) p f) as [t'| |] eqn:E; try discriminate.
  inversion H; subst. destruct (wr_inv _ _ _ _ E) as (-> & _). cbn [p_tree with_tree]. rewrite get_tset.
  destruct (N.eqb_spec i p) as [->|_]; [contradiction|reflexivity].
Qed.

Lemma only_if {A} W (b : bool) (m1 m2 : M A) : only W m1 -> only W m2 -> only W (if b then m1 else m2).
Proof. destruct b; auto. Qed.

(** a total-correctness fact and a partial-correctness fact about the same run *)
Lemma wp_and_pc {A} P (m : M A) s (Q1 Q2 : A -> pstate -> Prop) :
  wp P m s Q1 -> (forall a s', m s = Ok (a, s') -> Q2 a s') -> wp P m s (fun a s' => Q1 a s' /\ Q2 a s').
Proof. unfold wp. intros H1 H2. destruct (m s) as [[a s']| |] eqn:E; auto. Qed.

Ltac only_tac :=
  repeat first
    [ apply only_ret | apply only_get | apply only_lex | apply only_ru | apply only_tq | apply only_lift
    | apply only_tableIndex | (apply only_wrf; reflexivity) | apply only_if
    | (apply only_bind; [|intros ?])
    | match goal with |- only _ (match ?x with _ => _ end) => destruct x end
    | match goal with |- only _ (let '(_, _) := ?x in _) => destruct x end ].

(** ---- parseByteList writes its object only ---- *)
Lemma parseByteList_only obj dataLen : only (fun i => i = obj) (parseByteList obj dataLen).
Proof.
  unfold parseByteList, rq, curTable, setOffsetM. only_tac.
Qed.

Lemma parseByteList_spec2 {md} P obj dataLen s g : FIm md s g -> glive g obj ->
  wp P (parseByteList obj dataLen) s (fun res s' => FIm md s' g /\ rstep s s' /\
     forall i, i <> obj -> tget (p_tree s') i = tget (p_tree s) i).
Proof.
  intros H Hl. eapply wp_weaken; [apply (wp_and_pc P _ s _ (fun _ s' => forall i, i <> obj -> tget (p_tree s') i = tget (p_tree s) i)
     (parseByteList_spec P obj dataLen s g H Hl))|auto|].
  - intros a s' E i Hi. apply (parseByteList_only obj dataLen s a s' E i). exact Hi.
  - intros a s' ((A & B) & C). auto.
Qed.

(** ---- parseSimpleArg writes the object it creates only ---- *)
Lemma bindM_ok {A B} (m : M A) (f : A -> M B) s b s' :
  bindM m f s = Ok (b, s') -> exists a s1, m s = Ok (a, s1) /\ f a s1 = Ok (b, s').
Proof. unfold bindM. destruct (m s) as [[a s1]| |]; try discriminate. eauto. Qed.

Lemma simple_num_only obj op bytes : only (fun i => i = obj) (simple_num obj op bytes).
Proof. unfold simple_num. only_tac. Qed.

Lemma simple_str_only obj tbl op f : only (fun i => i = obj) (simple_str obj tbl op f).
Proof. unfold simple_str. only_tac. Qed.

(** the opcode-table row of the object a number argument ends up with *)
Lemma simple_num_info obj op bytes s x s' :
  simple_num obj op bytes s = Ok (x, s') ->
  exists po idx, tget (p_tree s') obj = Some po /\ opcodeTableIndex op true = Some idx /\ o_infoIndex po = idx.
Proof.
  unfold simple_num. intros H.
  apply bindM_ok in H. destruct H as (u1 & s1 & _ & H).
  apply bindM_ok in H. destruct H as ([v ok] & s2 & _ & H).
  apply bindM_ok in H. destruct H as (u3 & s3 & _ & H).
  apply bindM_ok in H. destruct H as (idx & s4 & E4 & H).
  unfold tableIndex in E4. destruct (opcodeTableIndex op true) as [i0|] eqn:Ei; [|discriminate]. inversion E4; subst idx s4. clear E4.
  apply bindM_ok in H. destruct H as (u5 & s5 & E5 & H). inversion H; subst x s'. clear H.
  unfold wrf, tu in E5. destruct (wr (p_tree s3) obj (set_infoIndex i0)) as [t5| |] eqn:Ew; try discriminate.
  inversion E5; subst s5. destruct (wr_inv _ _ _ _ Ew) as (-> & o & Ho).
  exists (set_infoIndex i0 o), i0. cbn [p_tree with_tree]. rewrite get_tset, N.eqb_refl, Ho. auto.
Qed.

Lemma simple_str_info obj tbl op f s x s' :
  simple_str obj tbl op f s = Ok (x, s') ->
  exists po idx, tget (p_tree s') obj = Some po /\ opcodeTableIndex op true = Some idx /\ o_infoIndex po = idx.
Proof.
  unfold simple_str. intros H.
  apply bindM_ok in H. destruct H as (u1 & s1 & _ & H).
  apply bindM_ok in H. destruct H as ([v ok] & s2 & _ & H).
  apply bindM_ok in H. destruct H as (u3 & s3 & _ & H).
  apply bindM_ok in H. destruct H as (idx & s4 & E4 & H).
  unfold tableIndex in E4. destruct (opcodeTableIndex op true) as [i0|] eqn:Ei; [|discriminate]. inversion E4; subst idx s4. clear E4.
  apply bindM_ok in H. destruct H as (u5 & s5 & E5 & H). inversion H; subst x s'. clear H.
  unfold wrf, tu in E5. destruct (wr (p_tree s3) obj (set_infoIndex i0)) as [t5| |] eqn:Ew; try discriminate.
  inversion E5; subst s5. destruct (wr_inv _ _ _ _ Ew) as (-> & o & Ho).
  exists (set_infoIndex i0 o), i0. cbn [p_tree with_tree]. rewrite get_tset, N.eqb_refl, Ho. auto.
Qed.

Lemma simple_num_res obj op bytes s a r s' : simple_num obj op bytes s = Ok ((a, r), s') -> a = Some obj /\ r <> RShort.
Proof.
  unfold simple_num. intros E.
  apply bindM_ok in E. destruct E as (? & ? & _ & E).
  apply bindM_ok in E. destruct E as ([v ok] & ? & _ & E).
  apply bindM_ok in E. destruct E as (? & ? & _ & E).
  apply bindM_ok in E. destruct E as (? & ? & _ & E).
  apply bindM_ok in E. destruct E as (? & ? & _ & E).
  inversion E; subst. split; [reflexivity|destruct ok; discriminate].
Qed.

Lemma simple_str_res obj tbl op f s a r s' : simple_str obj tbl op f s = Ok ((a, r), s') -> a = Some obj /\ r <> RShort.
Proof.
  unfold simple_str. intros E.
  apply bindM_ok in E. destruct E as (? & ? & _ & E).
  apply bindM_ok in E. destruct E as ([v ok] & ? & _ & E).
  apply bindM_ok in E. destruct E as (? & ? & _ & E).
  apply bindM_ok in E. destruct E as (? & ? & _ & E).
  apply bindM_ok in E. destruct E as (? & ? & _ & E).
  inversion E; subst. split; [reflexivity|destruct ok; discriminate].
Qed.

Lemma parseSimpleArg_pc argTy s a r s' :
  parseSimpleArg argTy s = Ok ((a, r), s') ->
  exists t1 p, newObject (p_tree s) 0 (p_handle s) = Ok (t1, p) /\
    (forall i, i <> p -> tget (p_tree s') i = tget t1 i) /\
    (a = Some p \/ a = None) /\ r <> RShort /\
    (argTy = aml_pArgTypeByteData ->
       exists po idx, tget (p_tree s') p = Some po /\ opcodeTableIndex aml_pOpBytePrefix true = Some idx /\ o_infoIndex po = idx) /\
    (argTy = aml_pArgTypeNameString -> a = Some p ->
       exists po idx, tget (p_tree s') p = Some po /\ opcodeTableIndex aml_pOpIntNamePath true = Some idx /\ o_infoIndex po = idx).
Proof.
  unfold parseSimpleArg. intros H.
  apply bindM_ok in H. destruct H as (p & s1 & E1 & H).
  unfold newObj in E1. destruct (newObject (p_tree s) 0 (p_handle s)) as [[t1 p1]| |] eqn:En; try discriminate.
  inversion E1; subst p1 s1. clear E1. exists t1, p. split; [reflexivity|].
  apply bindM_ok in H. destruct H as (off & s2 & E2 & H). inversion E2; subst off s2. clear E2.
  apply bindM_ok in H. destruct H as (u3 & s3 & E3 & H).
  assert (F3 : forall i, i <> p -> tget (p_tree s3) i = tget t1 i).
  { intros i Hi. apply (only_wrf (fun i => i = p) p _ eq_refl _ _ _ E3 i Hi). }
  apply bindM_ok in H. destruct H as (tbl & s4 & E4 & H). inversion E4; subst tbl s4. clear E4.
  cbv zeta in H.
  assert (Hcase : (exists op bytes, simple_num p op bytes s3 = Ok ((a, r), s') /\ (argTy = aml_pArgTypeByteData -> op = aml_pOpBytePrefix) /\ argTy <> aml_pArgTypeNameString) \/
                  (exists tbl op f, simple_str p tbl op f s3 = Ok ((a, r), s') /\ argTy <> aml_pArgTypeByteData /\
                                    (argTy = aml_pArgTypeNameString -> op = aml_pOpIntNamePath)) \/
                  (a = None /\ r = RFailed /\ s' = s3 /\ argTy <> aml_pArgTypeByteData)).
  { destruct (N.eqb_spec argTy aml_pArgTypeByteData) as [Eb|Eb]; [left; exists aml_pOpBytePrefix, 1; split; [exact H|split; [auto|rewrite Eb; discriminate]]|].
    destruct (N.eqb_spec argTy aml_pArgTypeWordData) as [Ew|Ew]; [left; exists aml_pOpWordPrefix, 2; split; [exact H|split; [intros; contradiction|rewrite Ew; discriminate]]|].
    destruct (N.eqb_spec argTy aml_pArgTypeDwordData) as [Ed|Ed]; [left; exists aml_pOpDwordPrefix, 4; split; [exact H|split; [intros; contradiction|rewrite Ed; discriminate]]|].
    destruct (N.eqb_spec argTy aml_pArgTypeQwordData) as [Eq|Eq]; [left; exists aml_pOpQwordPrefix, 8; split; [exact H|split; [intros; contradiction|rewrite Eq; discriminate]]|].
    destruct (N.eqb_spec argTy aml_pArgTypeString) as [Es|Es].
    { right; left; eexists _, _, _; split; [exact H|split; [exact Eb|]]. intros En0. rewrite Es in En0. discriminate. }
    destruct (N.eqb_spec argTy aml_pArgTypeNameString) as [Ens|Ens]; [right; left; eexists _, _, _; split; [exact H|split; [exact Eb|reflexivity]]|].
    right. right. inversion H; subst. auto. }
  destruct Hcase as [(op & bytes & E & Hop & Hnn)|[(tbl & op & f & E & Hnb & Hopn)|(-> & -> & -> & Hnb)]].
  - split; [|split].
    + intros i Hi. rewrite (simple_num_only p op bytes s3 _ s' E i Hi). apply F3. exact Hi.
    + left. exact (proj1 (simple_num_res _ _ _ _ _ _ _ E)).
    + split; [exact (proj2 (simple_num_res _ _ _ _ _ _ _ E))|].
      split; [intros Eb; rewrite (Hop Eb) in E; apply (simple_num_info _ _ _ _ _ _ E)|].
      intros En0 _. contradiction.
  - split; [|split].
    + intros i Hi. rewrite (simple_str_only p tbl op f s3 _ s' E i Hi). apply F3. exact Hi.
    + left. exact (proj1 (simple_str_res _ _ _ _ _ _ _ _ E)).
    + split; [exact (proj2 (simple_str_res _ _ _ _ _ _ _ _ E))|].
      split; [intros Eb; contradiction|]. intros En0 _. rewrite (Hopn En0) in E. apply (simple_str_info _ _ _ _ _ _ _ E).
  - split; [exact F3|]. split; [right; reflexivity|]. split; [discriminate|]. split; [intros Eb; contradiction|]. intros _ Ea. discriminate.
Qed.

(** the slot a new object gets was not live *)
Lemma newObject_fresh (t t1 : T) g opc th p : R t g -> newok opc -> N.of_nat (length (t_pool t)) + 1 < InvalidIndex ->
  newObject t opc th = Ok (t1, p) -> ~ glive g p.
Proof.
  intros HR (Hnf & Hmaps & _) Hroom E.
  destruct (newObject_R t g opc th HR) as (t' & p' & E' & _ & _ & Hp).
  { split; auto. split; auto. intros _. rewrite (R_len _ _ HR). lia. }
  rewrite E in E'. injection E' as Et Ep.
  destruct (new_slot_fresh t g opc th HR) as (F1 & _). unfold new_slot in F1. rewrite <- Hp, <- Ep in F1. exact F1.
Qed.

Lemma parseSimpleArg_spec2 {md} P argTy s g : FIm md s g -> lp s + 1 < InvalidIndex ->
  specm md P (parseSimpleArg argTy) s g (fun '(a, res) s' g' =>
     lp s' <= lp s + 1 /\ p_scopeStack s' = p_scopeStack s /\
     (res = ROk -> r_offset (p_r s) < r_offset (p_r s')) /\
     match a with
     | Some obj => ~ glive g obj /\ glive g' obj /\ groot g' obj /\
                   (argTy = aml_pArgTypeByteData ->
                      exists po v idx, tget (p_tree s') obj = Some po /\ o_value po = Some (VNum v) /\
                                       opcodeTableIndex aml_pOpBytePrefix true = Some idx /\ o_infoIndex po = idx) /\
                   (argTy = aml_pArgTypeNameString ->
                      exists po idx, tget (p_tree s') obj = Some po /\
                                     opcodeTableIndex aml_pOpIntNamePath true = Some idx /\ o_infoIndex po = idx)
     | None => res = RFailed /\ argTy <> aml_pArgTypeByteData
     end /\
     Fr NoP NoP NoP s g s' g' /\ res <> RShort).
Proof.
  intros H Hroom. unfold specm.
  eapply wp_weaken; [apply (wp_and_pc P _ s _ (fun ar s' => parseSimpleArg argTy s = Ok (ar, s')) (parseSimpleArg_spec P argTy s g H Hroom))|auto|].
  - intros a s' E. exact E.
  - intros [a res] s' ((g' & H' & Hext & Q1 & Q2 & Q3 & Q4) & E).
    destruct (parseSimpleArg_pc _ _ _ _ _ E) as (t1 & p & En & Hfr & Ha & Hrs & Hinfo & Hinfo2).
    pose proof (fi_R _ _ H) as HR.
    assert (Hfresh : ~ glive g p).
    { apply (newObject_fresh (p_tree s) t1 g 0 (p_handle s) p HR (newokb_sound 0 eq_refl)); [unfold lp in Hroom; exact Hroom|exact En]. }
    destruct (newObject_shape _ _ _ _ _ En) as (_ & Hfw & _).
    exists g'. split; [exact H'|]. split; [exact Hext|]. split; [exact Q1|]. split; [exact Q2|]. split; [exact Q3|]. split.
    + destruct a as [obj|]; [|exact Q4]. destruct Q4 as (A1 & A2 & A3 & A4). repeat (split; [assumption|]).
      assert (obj = p) by (destruct Ha as [Ea|Ea]; congruence). subst obj. split.
      * intros Eb. destruct (A4 Eb) as (po & v & Hpo & Hv). destruct (Hinfo Eb) as (po' & idx & Hpo' & Hidx & Hii).
        assert (po' = po) by congruence. subst po'. exists po, v, idx. auto.
      * intros Ens. exact (Hinfo2 Ens eq_refl).
    + split; [|exact Hrs]. apply Fr_same; [exact HR|apply (fi_R _ _ H')|].
      intros i o Ho Hlo. assert (Hip : i <> p).
      { intros ->. apply Hfresh. apply (R_live_glive _ _ HR). exists o. auto. }
      rewrite (Hfr i Hip). apply (Hfw i o Hip Ho).
Qed.

(** ---- functions that do not touch the pool ---- *)
Definition notree {A} (m : M A) : Prop := forall s a s', m s = Ok (a, s') -> p_tree s' = p_tree s.

Lemma notree_ret {A} (a : A) : notree (ret a).
Proof. intros s a' s' H. inversion H; subst. reflexivity. Qed.
Lemma notree_bind {A B} (m : M A) (f : A -> M B) : notree m -> (forall a, notree (f a)) -> notree (bindM m f).
Proof.
  intros Hm Hf s b s' H. unfold bindM in H. destruct (m s) as [[a s1]| |] eqn:E; try discriminate.
  rewrite (Hf a _ _ _ H). apply (Hm _ _ _ E).
Qed.
Lemma notree_get {A} (f : pstate -> A) : notree (get f).
Proof. intros s a s' H. inversion H; subst. reflexivity. Qed.
Lemma notree_lex {A} (f : reader -> outcome (A * bool * reader)) : notree (lex f).
Proof. intros s a s' H. unfold lex in H. destruct (f (p_r s)) as [[[x ok] r]| |]; try discriminate. inversion H; subst. reflexivity. Qed.
Lemma notree_ru f : notree (ru f).
Proof. intros s a s' H. inversion H; subst. reflexivity. Qed.
Lemma notree_setPkgEndM e : notree (setPkgEndM e).
Proof. intros s a s' H. unfold setPkgEndM in H. destruct (setPkgEnd (p_r s) e). inversion H; subst. reflexivity. Qed.
Lemma notree_readByteM : notree readByteM.
Proof. intros s a s' H. unfold readByteM in H. destruct (readByte (p_r s)) as [[b r]| |]; try discriminate. inversion H; subst. reflexivity. Qed.
Lemma notree_if {A} (b : bool) (m1 m2 : M A) : notree m1 -> notree m2 -> notree (if b then m1 else m2).
Proof. destruct b; auto. Qed.

Ltac notree_tac :=
  repeat first
    [ apply notree_ret | apply notree_get | apply notree_lex | apply notree_ru | apply notree_setPkgEndM | apply notree_readByteM
    | apply notree_if | (apply notree_bind; [|intros ?])
    | match goal with |- notree (match ?x with _ => _ end) => destruct x end
    | match goal with |- notree (let '(_, _) := ?x in _) => destruct x end ].

Lemma fieldByte_notree : notree fieldByte.
Proof. unfold fieldByte. notree_tac. Qed.

Lemma dl_block_notree origOffset pkgLen : notree (dl_block origOffset pkgLen).
Proof. unfold dl_block. notree_tac. Qed.

Lemma readName_go_only field cnt : forall i, only (fun x => x = field) (readName_go cnt i field).
Proof.
  induction cnt as [|cnt IH]; intros i; cbn [readName_go]; [apply only_ret|].
  apply only_bind; [intros s a s' H j _; rewrite (notree_readByteM _ _ _ H); reflexivity|]. intros b.
  apply only_bind; [apply only_tq|]. intros nm.
  destruct b; (apply only_bind; [apply only_wrf; reflexivity|intros _]); [apply IH|apply only_ret].
Qed.

(** ---- frame steps ---- *)
Lemma Fr_gets P X E s0 g0 s1 g1 s2 : Fr P X E s0 g0 s1 g1 -> (forall i, glive g0 i -> tget (p_tree s2) i = tget (p_tree s1) i) ->
  Fr P X E s0 g0 s2 g1.
Proof. intros [K G] Eq. constructor; [eapply keep_gets; eauto|exact G]. Qed.

Lemma Fr_tree_eq P X E s0 g0 s1 g1 s2 : Fr P X E s0 g0 s1 g1 -> p_tree s2 = p_tree s1 -> Fr P X E s0 g0 s2 g1.
Proof. intros F Eq. eapply Fr_gets; [exact F|]. intros i _. rewrite Eq. reflexivity. Qed.

Lemma Fr_tset_fresh P X E s0 g0 s1 g1 p f : Fr P X E s0 g0 s1 g1 -> ~ glive g0 p ->
  Fr P X E s0 g0 (with_tree s1 (tset (p_tree s1) p f)) g1.
Proof.
  intros F Hp. eapply Fr_gets; [exact F|]. intros i Hi. cbn [p_tree with_tree]. rewrite get_tset.
  destruct (N.eqb_spec i p) as [->|_]; [contradiction|reflexivity].
Qed.

(** a write of the value of an object that is allowed to change it *)
Lemma Fr_tset_value (P X E : N -> Prop) s0 g0 s1 g1 p v : Fr P X E s0 g0 s1 g1 -> P p ->
  Fr P X E s0 g0 (with_tree s1 (tset (p_tree s1) p (set_value v))) g1.
Proof.
  intros [K G] Hp. constructor; [|exact G]. intros i o Hi Ho. destruct (K i o Hi Ho) as (o1 & Ho1 & E1 & V1).
  cbn [p_tree with_tree]. rewrite get_tset, Ho1. cbn [option_map]. destruct (N.eqb_spec i p) as [->|Hne].
  - exists (set_value v o1). split; [reflexivity|]. split; [exact E1|]. intros Hn. contradiction.
  - exists o1. auto.
Qed.

Lemma Fr_pframe_kids (P X E : N -> Prop) s0 g0 s1 g1 (t2 : T) g2 :
  Fr P X E s0 g0 s1 g1 -> pframe (p_tree s1) t2 ->
  (forall y, glive g0 y -> ~ E y -> (exists extra, kids g2 y = kids g1 y ++ extra) /\ (~ X y -> kids g2 y = kids g1 y)) ->
  Fr P X E s0 g0 (with_tree s1 t2) g2.
Proof.
  intros [K G] Hpf Hk. constructor; [eapply keep_pframe; eauto|].
  intros y Hy HE. destruct (G y Hy HE) as ((e1 & E1) & B1). destruct (Hk y Hy HE) as ((e2 & E2) & B2). split.
  - exists (e1 ++ e2). rewrite E2, E1, app_assoc. reflexivity.
  - intros HX. rewrite (B2 HX). apply B1. exact HX.
Qed.

(** appending [a] to [o]: [o] was not live at the base, or is allowed to grow, or is excluded *)
Lemma Fr_append (P X E : N -> Prop) s0 g0 s1 g1 (t2 : T) g2 o a :
  Fr P X E s0 g0 s1 g1 -> pframe (p_tree s1) t2 ->
  kids g2 o = kids g1 o ++ [a] -> (forall q, q <> o -> kids g2 q = kids g1 q) ->
  (glive g0 o -> X o \/ E o) ->
  Fr P X E s0 g0 (with_tree s1 t2) g2.
Proof.
  intros F Hpf Ko Kq Hx. eapply Fr_pframe_kids; eauto. intros y Hy HE.
  destruct (N.eq_dec y o) as [->|Hne].
  - split; [exists [a]; exact Ko|]. intros HX. exfalso. destruct (Hx Hy); contradiction.
  - rewrite (Kq y Hne). split; [exists []; rewrite app_nil_r; reflexivity|reflexivity].
Qed.

(** any change of the child list of an excluded (or new) node *)
Lemma Fr_kids_E (P X E : N -> Prop) s0 g0 s1 g1 (t2 : T) g2 o :
  Fr P X E s0 g0 s1 g1 -> pframe (p_tree s1) t2 -> (forall q, q <> o -> kids g2 q = kids g1 q) ->
  (glive g0 o -> E o) ->
  Fr P X E s0 g0 (with_tree s1 t2) g2.
Proof.
  intros F Hpf Kq Hx. eapply Fr_pframe_kids; eauto. intros y Hy HE.
  destruct (N.eq_dec y o) as [->|Hne]; [exfalso; apply HE; apply Hx; exact Hy|].
  rewrite (Kq y Hne). split; [exists []; rewrite app_nil_r; reflexivity|reflexivity].
Qed.

Lemma insert_after_last n a l : NoDup (l ++ [n]) -> insert_after n a (l ++ [n]) = l ++ [n; a].
Proof.
  intros Hnd. rewrite insert_after_split.
  - reflexivity.
  - apply NoDup_remove_2 in Hnd. rewrite app_nil_r in Hnd. exact Hnd.
Qed.

Lemma kids_new g opc th y : kids (astep g (OpNew opc th)) y = kids g y.
Proof. cbn [astep]. destruct (g_free g) as [|x rest]; [apply kids_app_nil|reflexivity]. Qed.

(** [new_step] with the frame: all other objects and all child lists are as before *)
Lemma new_step2 {md} P opc s g (Q : N -> pstate -> Prop) :
  FIm md s g -> newok opc -> lp s + 1 < InvalidIndex ->
  (forall p t' g' po,
     FIm md (with_tree s t') g' -> gext g g' -> ~ glive g p -> glive g' p -> groot g' p -> kids g' p = [] ->
     tget t' p = Some po -> o_opcode po = opc -> o_value po = None ->
     opcodeTableIndex opc true = Some (o_infoIndex po) ->
     (length (t_pool t') <= S (length (t_pool (p_tree s))))%nat ->
     (forall i o, i <> p -> tget (p_tree s) i = Some o -> tget t' i = Some o) ->
     (forall y, kids g' y = kids g y) ->
     (forall x, glive g' x -> glive g x \/ x = p) ->
     Q p (with_tree s t')) ->
  wp P (newObj opc) s Q.
Proof.
  intros H (Hnf & Hmaps & i0 & Hi0 & Hinfo) Hroom K.
  pose proof (fi_R _ _ H) as HR.
  destruct (newObject_R (p_tree s) g opc (p_handle s) HR) as (t' & p & E & HR' & _ & Hp).
  { split; auto. split; auto. intros _. rewrite (R_len _ _ HR). unfold lp in Hroom. lia. }
  destruct (newObject_shape _ _ _ _ _ E) as ((po & Hpo & Hop & Hidx & _ & Hval) & Hfw & Hbw & Hl1 & Hl2).
  destruct (new_slot_fresh (p_tree s) g opc (p_handle s) HR) as (F1 & F2 & F3 & F4). fold (new_slot (p_tree s) g) in Hp.
  rewrite <- Hp in F1, F2, F3, F4.
  rewrite pOpcodeTableIndex_eq, Hi0 in Hidx. inversion Hidx as [Hii].
  unfold wp, newObj. rewrite E.
  apply (K p t' (astep g (OpNew opc (p_handle s))) po); auto.
  - apply FI_with_tree with (g := g); auto.
    + intros i o Hg Hl. destruct (N.eqb_spec i p) as [->|Hne].
      * assert (o = po) by congruence. subst o. rewrite <- Hii. exact Hinfo.
      * apply (fi_info _ _ H i o); auto.
    + apply (ge_live _ _ (gext_new g opc (p_handle s))).
  - apply gext_new.
  - rewrite <- Hii. exact Hi0.
  - intros y. apply kids_new.
  - intros x Hx. destruct (N.eq_dec x p) as [->|Hne]; [right; reflexivity|left].
    revert Hx. unfold new_slot in Hp. cbn [astep]. destruct (g_free g) as [|f0 rest] eqn:Ef; intros [Hlt Hnin]; cbn [g_kids g_free] in *.
    + split; [|rewrite Ef; intros []]. rewrite app_length in Hlt. cbn [length] in Hlt. pose proof (R_len _ _ HR) as HL. lia.
    + split; [exact Hlt|]. rewrite Ef. intros [E0|Hin]; [subst; contradiction|contradiction].
Qed.

Lemma Fr_new (P X E : N -> Prop) s0 g0 s1 g1 (t2 : T) g2 p :
  Fr P X E s0 g0 s1 g1 -> (forall x, glive g0 x -> glive g1 x) -> ~ glive g1 p ->
  (forall i o, i <> p -> tget (p_tree s1) i = Some o -> tget t2 i = Some o) ->
  (forall y, kids g2 y = kids g1 y) ->
  Fr P X E s0 g0 (with_tree s1 t2) g2.
Proof.
  intros [K G] Hl Hp Hfw Hk. constructor.
  - intros i o Hi Ho. destruct (K i o Hi Ho) as (o1 & Ho1 & E1). exists o1. split; [|exact E1].
    cbn [p_tree with_tree]. apply Hfw; [|exact Ho1]. intros ->. apply Hp. apply Hl. exact Hi.
  - intros y Hy HE. rewrite Hk. apply (G y Hy HE).
Qed.

(** [appendAfter_step] with the other child lists *)
Lemma appendAfter_step2 {md} P o a n s g g0 (Q : unit -> pstate -> Prop) :
  FIm md s g -> gwf g0 -> gext g0 g -> glive g0 o -> ~ glive g0 a -> glive g a -> groot g a -> In n (kids g o) ->
  (forall t', FIm md (with_tree s t') (astep g (OpAppendAfter o a n)) -> gext g0 (astep g (OpAppendAfter o a n)) ->
              pframe (p_tree s) t' -> kids (astep g (OpAppendAfter o a n)) o = insert_after n a (kids g o) ->
              (forall q, q <> o -> kids (astep g (OpAppendAfter o a n)) q = kids g q) ->
              Q tt (with_tree s t')) ->
  wp P (tu (fun t => appendAfter t o a n)) s Q.
Proof.
  intros H Hwf Hext Hlo Hna Hla Hroot Hin K.
  destruct (appendAfter_full (p_tree s) g g0 o a n (fi_R _ _ H) Hwf Hext Hlo Hna Hla Hroot Hin) as (t' & E & HR' & Hpf & Hext').
  assert (Holt : o < N.of_nat (length (g_kids g))) by (apply glive_lt; eapply ge_live; eauto).
  apply wp_tu. exists t'. split; auto. apply K; auto.
  - apply FI_with_tree with (g := g); auto.
    + eapply info_valid_pframe; [apply (fi_info _ _ H)|exact Hpf].
    + intros x Hx. cbn [astep]. apply glive_set_kids; auto.
  - cbn [astep]. rewrite kids_set_kids by auto. rewrite N.eqb_refl. reflexivity.
  - intros q Hq. cbn [astep]. rewrite kids_set_kids by auto. apply N.eqb_neq in Hq. rewrite Hq. reflexivity.
Qed.

(** ---- partial correctness: no function below creates a Method object or turns an object into one ---- *)
Definition nmeth {A} (m : M A) : Prop :=
  forall s a s', m s = Ok (a, s') -> forall i o, tget (p_tree s') i = Some o -> o_opcode o = aml_pOpMethod ->
    exists o0, tget (p_tree s) i = Some o0 /\ o_opcode o0 = aml_pOpMethod.

Lemma nmeth_notree {A} (m : M A) : notree m -> nmeth m.
Proof. intros H s a s' E i o Ho Hop. rewrite (H _ _ _ E) in Ho. eauto. Qed.

Lemma nmeth_ret {A} (a : A) : nmeth (ret a).
Proof. apply nmeth_notree, notree_ret. Qed.
Lemma nmeth_bind {A B} (m : M A) (f : A -> M B) : nmeth m -> (forall a, nmeth (f a)) -> nmeth (bindM m f).
Proof.
  intros Hm Hf s b s' H i o Ho Hop. unfold bindM in H. destruct (m s) as [[a s1]| |] eqn:E; try discriminate.
  destruct (Hf a _ _ _ H i o Ho Hop) as (o1 & Ho1 & Hop1). exact (Hm _ _ _ E i o1 Ho1 Hop1).
Qed.
Lemma nmeth_if {A} (b : bool) (m1 m2 : M A) : nmeth m1 -> nmeth m2 -> nmeth (if b then m1 else m2).
Proof. destruct b; auto. Qed.
Lemma notree_tq {A} (f : T -> outcome A) : notree (tq f).
Proof. intros s a s' H. unfold tq in H. destruct (f (p_tree s)); try discriminate. inversion H; subst. reflexivity. Qed.
Lemma notree_lift {A} (o : outcome A) : notree (lift o).
Proof. intros s a s' H. unfold lift in H. destruct o; try discriminate. inversion H; subst. reflexivity. Qed.
Lemma notree_tableIndex op b : notree (tableIndex op b).
Proof. unfold tableIndex. destruct (opcodeTableIndex op b); [apply notree_ret|]. intros s a s' H. discriminate. Qed.
Lemma notree_need (o : option N) : notree (need o).
Proof. destruct o; [apply notree_ret|]. intros s a s' H. discriminate. Qed.

Lemma nmeth_wrf p f : (forall o, o_opcode (f o) = aml_pOpMethod -> o_opcode o = aml_pOpMethod) -> nmeth (wrf p f).
Proof.
  intros Hf s a s' H i o Ho Hop. unfold wrf, tu in H. destruct (wr (p_tree s) p f) as [t'| |] eqn:E; try discriminate.
  inversion H; subst. destruct (wr_inv _ _ _ _ E) as (-> & _). cbn [p_tree with_tree] in Ho. rewrite get_tset in Ho.
  destruct (N.eqb_spec i p) as [->|_]; [|eauto].
  destruct (tget (p_tree s) p) as [o0|] eqn:E0; cbn [option_map] in Ho; [|discriminate]. inversion Ho; subst o.
  exists o0. split; [reflexivity|apply Hf; exact Hop].
Qed.

Lemma nmeth_newObj opc : opc <> aml_pOpMethod -> nmeth (newObj opc).
Proof.
  intros Hne s a s' H i o Ho Hop. unfold newObj in H. destruct (newObject (p_tree s) opc (p_handle s)) as [[t' p]| |] eqn:E; try discriminate.
  inversion H; subst a s'. cbn [p_tree with_tree] in Ho.
  destruct (newObject_shape _ _ _ _ _ E) as ((po & Hpo & Hpop & _) & _ & Hbw & _).
  destruct (N.eq_dec i p) as [->|Hip].
  - exfalso. assert (Epo : po = o) by congruence. rewrite Epo in Hpop. rewrite Hop in Hpop. apply Hne. symmetry. exact Hpop.
  - exists o. split; [apply (Hbw i o Hip Ho)|exact Hop].
Qed.

Lemma nmeth_tu_pframe (f : T -> outcome T) : (forall t t', f t = Ok t' -> pframe t t') -> nmeth (tu f).
Proof.
  intros Hf s a s' H i o Ho Hop. unfold tu in H. destruct (f (p_tree s)) as [t'| |] eqn:E; try discriminate.
  inversion H; subst. cbn [p_tree with_tree] in Ho. destruct (pframe_inv _ _ _ _ (Hf _ _ E) Ho) as (o0 & Ho0 & E0 & _).
  exists o0. split; [exact Ho0|congruence].
Qed.

Lemma nmeth_appendM o a : nmeth (appendM o a).
Proof.
  unfold appendM. apply nmeth_bind; [apply nmeth_notree, notree_need|]. intros x.
  apply nmeth_tu_pframe. intros t t' E. eapply append_pframe; eauto.
Qed.

Ltac nmeth_prim :=
  first [ apply nmeth_ret | apply nmeth_appendM
        | (apply nmeth_notree; first [ apply notree_get | apply notree_lex | apply notree_ru | apply notree_setPkgEndM
                                       | apply notree_readByteM | apply notree_tq | apply notree_lift | apply notree_tableIndex
                                       | apply notree_need ])
        | (apply nmeth_wrf; let o := fresh "o" in intros o;
           cbn [o_opcode set_opcode set_name set_amlOffset set_pkgEnd set_value set_infoIndex]; first [tauto | intros; discriminate])
        | (apply nmeth_newObj; discriminate)
        | (apply nmeth_tu_pframe; let t := fresh in let t' := fresh in let E := fresh in intros t t' E;
           first [solve [eapply append_pframe; eauto] | solve [eapply appendAfter_pframe; eauto]]) ].

Ltac nmeth_tac :=
  repeat first
    [ nmeth_prim | apply nmeth_if | (apply nmeth_bind; [|intros ?])
    | match goal with |- nmeth (match ?x with _ => _ end) => destruct x end
    | match goal with |- nmeth (let '(_, _) := ?x in _) => destruct x end ].

Lemma parseByteList_nmeth obj dataLen : nmeth (parseByteList obj dataLen).
Proof. unfold parseByteList, rq, curTable, setOffsetM. nmeth_tac. Qed.

Lemma parseSimpleArg_nmeth argTy : nmeth (parseSimpleArg argTy).
Proof. unfold parseSimpleArg, offsetM, rq, curTable. cbv zeta. nmeth_tac. Qed.

Lemma readName_go_nmeth field cnt : forall i, nmeth (readName_go cnt i field).
Proof. induction cnt as [|cnt IH]; intros i; cbn [readName_go]; [apply nmeth_ret|]. nmeth_tac; apply IH. Qed.

Lemma fieldElements_go_nmeth fuel : forall curObj f, nmeth (fieldElements_go fuel curObj f).
Proof.
  induction fuel as [|fuel IH]; intros curObj f; cbn [fieldElements_go].
  { intros s a s' H. discriminate. }
  unfold eofM, rq, offsetM, fieldByte, objectAt', objectAt, rdf.
  nmeth_tac; first [apply IH | apply readName_go_nmeth | apply parseByteList_nmeth | idtac].
Qed.

Lemma parseFieldElements_nmeth curObj : nmeth (parseFieldElements curObj).
Proof.
  unfold parseFieldElements, streamFuel, objectAt', objectAt, rdf, rdo. nmeth_tac; try apply fieldElements_go_nmeth.
  all: intros ? ? ? HH; discriminate.
Qed.
