(** C12 (stretch): the first table.  [load [payload]] - CreateDefaultScopes on an empty tree, then ParseAML of the image of
    [payload] with handle 1 - never panics, for every payload of bytes of at most 10000 bytes (the bound comes from the
    generous quadratic memory hypothesis of parseAML_never_panics). *)
From Coq Require Import NArith Arith List Bool Lia.
From Coq Require Import ZifyBool ZifyN ZifyNat.
From FF Require Import Lib.Word Gen.Consts_device_acpi_aml Gen.Consts_aml_tree Aml.Stream Aml.Lex Aml.LexProofs
  Aml.Tree Aml.Parser Aml.ParserProofs Aml.TreeSpec Aml.TreeProofs Aml.TreeProofsOps Aml.TreeProofsFind Aml.TreeProofsAnc
  Aml.ParserTotalTree Aml.ParserTotalTree2 Aml.ParserTotalLex Aml.ParserTotalTable Aml.ParserTotalBase Aml.ParserTotalLeaf
  Aml.ParserTotalFrame Aml.ParserTotalFirst Aml.ParserTotalConn Aml.ParserTotalNonNamed Aml.ParserTotalCalls Aml.ParserTotalReloc
  Aml.ParserTotalMerge Aml.ParserTotalResolve Aml.ParserTotalDefer Aml.ParserTotalDeferW Aml.ParserTotalDeferV
  Aml.ParserTotalTyped Aml.ParserTotalShape Aml.ParserTotalChain Aml.ParserTotalConn2 Aml.ParserTotalPass2
  Aml.ParserTotalBenign Aml.ParserTotalFirst2 Aml.ParserTotalNameLex Aml.ParserTotalGoodPath Aml.ParserTotalPass1 Aml.ParserTotalHandle.
Import ListNotations.
Local Open Scope N_scope.

(** ---- the pool CreateDefaultScopes builds, as a history ---- *)
Definition ds_ops : list op :=
  [ OpNewNamed opScopeBlock 0 (name_of_list [0x5c; 0; 0; 0]);
    OpNewNamed opScopeBlock 0 (name_of_list [0x5f; 0x47; 0x50; 0x45]); OpAppend 0 1;
    OpNewNamed opScopeBlock 0 (name_of_list [0x5f; 0x50; 0x52; 0x5f]); OpAppend 0 2;
    OpNewNamed opScopeBlock 0 (name_of_list [0x5f; 0x53; 0x42; 0x5f]); OpAppend 0 3;
    OpNewNamed opScopeBlock 0 (name_of_list [0x5f; 0x53; 0x49; 0x5f]); OpAppend 0 4;
    OpNewNamed opScopeBlock 0 (name_of_list [0x5f; 0x54; 0x5a; 0x5f]); OpAppend 0 5 ].
Definition ds_tree : T := match run (@NewObjectTree value) ds_ops with Ok t => t | _ => NewObjectTree end.
Definition ds_ghost : ghost := arun ghost0 ds_ops.

Lemma ds_create : CreateDefaultScopes (@NewObjectTree value) 0 = Ok ds_tree.
Proof. vm_compute. reflexivity. Qed.
Lemma ds_run : run (@NewObjectTree value) ds_ops = Ok ds_tree.
Proof. vm_compute. reflexivity. Qed.

Lemma desc_leaf g a x : kids g a = [] -> desc g a x -> x = a.
Proof. intros Hk D. induction D as [|p c D IH Hin]; [reflexivity|]. subst p. rewrite Hk in Hin. contradiction. Qed.

Ltac ds_new := split; [vm_compute; discriminate | split; [first [left; vm_compute; discriminate | right; vm_compute; reflexivity] | intros _; vm_compute; reflexivity]].
Ltac ds_live := split; [vm_compute; reflexivity|vm_compute; intuition discriminate].
Ltac ds_app := split; [ds_live|split; [ds_live|split; [apply groot_chk; vm_compute; reflexivity|
  let D := fresh in intros D; apply desc_leaf in D; [discriminate|vm_compute; reflexivity]]]].

Lemma ds_legal : legal_seq ghost0 ds_ops.
Proof.
  unfold ds_ops. cbn [legal_seq legal].
  split; [ds_new|]. split; [ds_new|]. split; [ds_app|]. split; [ds_new|]. split; [ds_app|]. split; [ds_new|]. split; [ds_app|].
  split; [ds_new|]. split; [ds_app|]. split; [ds_new|]. split; [ds_app|]. exact I.
Qed.

Lemma ds_R : R ds_tree ds_ghost.
Proof.
  destruct (run_R ds_ops (@NewObjectTree value) ghost0 R_empty ds_legal) as (t' & Hrun & HR').
  unfold ds_tree, ds_ghost. rewrite Hrun. exact HR'.
Qed.

Lemma ds_all (P : N -> Obj -> Prop) :
  (forall n o, (n < 6)%nat -> nth_error (t_pool ds_tree) n = Some o -> P (N.of_nat n) o) -> forall i o, tget ds_tree i = Some o -> P i o.
Proof.
  intros HP. apply pool_cases. intros n o Hn. apply HP; [|exact Hn].
  assert (Hl : length (t_pool ds_tree) = 6%nat) by (vm_compute; reflexivity). rewrite <- Hl. apply nth_error_Some. rewrite Hn. discriminate.
Qed.

Ltac ds_cases n Hlt Hn o tac :=
  do 6 (destruct n as [|n]; [vm_compute in Hn; inversion Hn; subst o; clear Hn; solve [tac]|]); exfalso; lia.

(** ---- lengths and bytes of the image ---- *)
Lemma le_bytes_length cnt : forall v, length (le_bytes cnt v) = cnt.
Proof. induction cnt as [|c IH]; intros v; cbn [le_bytes length]; [reflexivity|rewrite IH; reflexivity]. Qed.
Lemma le_bytes_small cnt : forall v, Forall (fun b => b < 256) (le_bytes cnt v).
Proof.
  induction cnt as [|c IH]; intros v; cbn [le_bytes]; constructor; [|apply IH].
  change 0xff with (N.ones 8). rewrite N.land_ones. apply N.mod_lt. discriminate.
Qed.
Lemma table_image_length p : length (table_image p) = (36 + length p)%nat.
Proof.
  unfold table_image. cbv zeta. repeat rewrite app_length. rewrite le_bytes_length, repeat_length. cbn [length].
  change (N.to_nat aml_sizeofSDTHeader - 9)%nat with 27%nat. lia.
Qed.
Lemma table_image_small p : Forall (fun b => b < 256) p -> Forall (fun b => b < 256) (table_image p).
Proof.
  intros Hp. unfold table_image. cbv zeta. repeat (apply Forall_app; split).
  - repeat constructor.
  - apply le_bytes_small.
  - repeat constructor.
  - apply Forall_forall. intros x Hx. apply repeat_spec in Hx. subst x. reflexivity.
  - exact Hp.
Qed.

(** ---- the theorem ---- *)
Theorem first_table_never_panics : forall payload,
  Forall (fun b => b < 256) payload -> N.of_nat (length payload) <= 10000 ->
  match parseAML ds_tree [] 1 (table_image payload) with
  | Ok (_, s') => exists g', R (p_tree s') g' /\ info_valid (p_tree s') /\ pool_ok (p_tables s') (p_tree s')
  | Panic => False
  | OutOfFuel => True
  end.
Proof.
  intros payload Hb Hlen.
  apply (parseAML_never_panics ds_tree ds_ghost [] 1 (table_image payload)).
  - exact ds_R.
  - unfold info_valid. apply (ds_all (fun i o => o_opcode o <> opFreed -> opInfo (o_infoIndex o) <> None)). intros n o Hlt Hn _.
    ds_cases n Hlt Hn o ltac:(vm_compute; discriminate).
  - ds_live.
  - apply groot_chk. vm_compute. reflexivity.
  - eexists. split; vm_compute; reflexivity.
  - unfold TM3. apply (ds_all (fun m mo => o_opcode mo = aml_pOpMethod -> mtyped3 ds_tree ds_ghost m)). intros n o Hlt Hn Hop.
    ds_cases n Hlt Hn o ltac:(vm_compute in Hop; discriminate).
  - unfold typed. apply (ds_all (fun i o => o_opcode o <> opFreed -> o_opcode o = aml_pOpIntNamePathOrMethodCall -> exists tbl sl, o_value o = Some (VBytes tbl sl))).
    intros n o Hlt Hn _ Hop. ds_cases n Hlt Hn o ltac:(vm_compute in Hop; discriminate).
  - unfold pool_ok. rewrite Forall_forall. intros o Hin. destruct (In_nth_error _ _ Hin) as (n & Hn).
    assert (Hlt : (n < 6)%nat).
    { assert (Hl : length (t_pool ds_tree) = 6%nat) by (vm_compute; reflexivity). rewrite <- Hl. apply nth_error_Some. rewrite Hn. discriminate. }
    ds_cases n Hlt Hn o ltac:(exact I).
  - apply (ds_all (fun i o => o_tableHandle o <> 1)). intros n o Hlt Hn. ds_cases n Hlt Hn o ltac:(vm_compute; discriminate).
  - split; [apply table_image_small; exact Hb|]. rewrite table_image_length. assert (E2 : two32 = 4294967296) by reflexivity. rewrite E2. lia.
  - cbv zeta. rewrite table_image_length. assert (Hl : length (t_pool ds_tree) = 6%nat) by (vm_compute; reflexivity). rewrite Hl.
    assert (EI : InvalidIndex = 0xffffffff) by reflexivity. rewrite EI. nia.
Qed.

(** the same about the model's entry point [load]: the outcome class of loading one table is never 2 (panic) *)
Theorem load_first_table_never_panics : forall payload,
  Forall (fun b => b < 256) payload -> N.of_nat (length payload) <= 10000 ->
  fst (fst (load [payload])) <> 2.
Proof.
  intros payload Hb Hlen. pose proof (first_table_never_panics payload Hb Hlen) as H.
  unfold load. rewrite ds_create. cbn [load_tables].
  destruct (parseAML ds_tree [] 1 (table_image payload)) as [[[|] s]| |]; cbn [fst]; try discriminate. contradiction.
Qed.

(** ---- a sequence of tables ---- *)
(** [INV]: the invariant of the load loop - the hypotheses of parseAML_never_panics about the pool, with "every handle in the pool is
    below the next handle" *)
Definition INV (tree : T) (g : ghost) (earlier : list (list N)) (h : N) : Prop :=
  R tree g /\ info_valid tree /\ glive g 0 /\ groot g 0 /\
  (exists o, tget tree 0 = Some o /\ o_opcode o = aml_pOpIntScopeBlock) /\
  TM3 tree g /\ typed tree /\ pool_ok earlier tree /\
  (forall i o, tget tree i = Some o -> o_tableHandle o < h).

(** the size hypothesis: the image and the quadratic memory bound over the pool at that moment *)
Definition fits (tree : T) (data : list N) : Prop :=
  image_small data /\
  (let L := N.of_nat (length (t_pool tree)) + 4 * N.of_nat (length data) + 2 in
   L + L * (8 * N.of_nat (length data) + 3) + 4 <= InvalidIndex).

(** a successful ParseAML re-establishes [INV] for the next handle *)
Theorem parseAML_keeps_INV : forall tree g earlier h data s,
  INV tree g earlier h -> fits tree data -> parseAML tree earlier h data = Ok (true, s) ->
  exists g', INV (p_tree s) g' (earlier ++ [data]) (h + 1).
Proof.
  intros tree g earlier h data s (HR & Hi & H0 & Hr0 & Hsb & HTM & Hty & Hpool & Hh) (Him & Hcap) E.
  assert (Hfresh : forall i o, tget tree i = Some o -> o_tableHandle o <> h) by (intros i o Ho E'; specialize (Hh i o Ho); lia).
  pose proof (parseAML_body_post3 tree g earlier h data (parse_fuel (length data + length (t_pool tree)))
                HR Hi H0 Hr0 Hsb HTM Hty Hpool Hfresh Him Hcap) as W.
  unfold parseAML in E. rewrite E in W. destruct W as (g' & HR' & Hi' & _ & Hb). destruct (Hb eq_refl) as (B0 & B1 & B2 & B3 & B4).
  assert (Him' : image_ok data) by (destruct Him as (Hb' & Hl); split; [exact Hb'|unfold two32 in *; lia]).
  destruct (parseAML_inv tree earlier h data true s Him' Hpool E) as (Hp' & _).
  exists g'. split; [exact HR'|]. split; [exact Hi'|]. split; [exact B0|]. split; [exact B1|]. split; [exact B3|].
  split; [exact B4|]. split; [exact B2|]. split; [exact Hp'|].
  intros i o Ho. assert (Hle : o_tableHandle o <= h); [|lia].
  apply (parseAML_handles tree earlier h data true s (fun j oj Hj => N.lt_le_incl _ _ (Hh j oj Hj)) E i o Ho).
Qed.

(** the sizes only: [fits] at each step (over the pool the previous tables left) *)
Fixpoint SEQ (tree : T) (earlier : list (list N)) (h : N) (payloads : list (list N)) : Prop :=
  match payloads with
  | [] => True
  | p :: rest =>
      let data := table_image p in
      fits tree data /\
      forall s, parseAML tree earlier h data = Ok (true, s) -> SEQ (p_tree s) (earlier ++ [data]) (h + 1) rest
  end.

Theorem load_tables_never_panics : forall payloads tree g earlier h,
  INV tree g earlier h -> SEQ tree earlier h payloads -> fst (fst (load_tables tree earlier h payloads)) <> 2.
Proof.
  induction payloads as [|p rest IH]; intros tree g earlier h HI HS; cbn [load_tables]; [cbn; discriminate|].
  cbn [SEQ] in HS. cbv zeta in HS. destruct HS as (Hfit & Hnext).
  pose proof HI as (HR & Hi & H0 & Hr0 & Hsb & HTM & Hty & Hpool & Hh). pose proof Hfit as (Him & Hcap).
  assert (Hfresh : forall i o, tget tree i = Some o -> o_tableHandle o <> h) by (intros i o Ho E; specialize (Hh i o Ho); lia).
  pose proof (parseAML_never_panics tree g earlier h (table_image p) HR Hi H0 Hr0 Hsb HTM Hty Hpool Hfresh Him Hcap) as W.
  cbv zeta. destruct (parseAML tree earlier h (table_image p)) as [[[|] s]| |] eqn:E; cbn [fst]; try discriminate; [|contradiction].
  destruct (parseAML_keeps_INV tree g earlier h (table_image p) s HI Hfit E) as (g' & HI').
  apply (IH (p_tree s) g' (earlier ++ [table_image p]) (h + 1) HI' (Hnext s eq_refl)).
Qed.

Lemma ds_INV : INV ds_tree ds_ghost [] 1.
Proof.
  split; [exact ds_R|].
  split; [unfold info_valid; apply (ds_all (fun i o => o_opcode o <> opFreed -> opInfo (o_infoIndex o) <> None)); intros n o Hlt Hn _;
          ds_cases n Hlt Hn o ltac:(vm_compute; discriminate)|].
  split; [ds_live|]. split; [apply groot_chk; vm_compute; reflexivity|]. split; [eexists; split; vm_compute; reflexivity|].
  split; [unfold TM3; apply (ds_all (fun m mo => o_opcode mo = aml_pOpMethod -> mtyped3 ds_tree ds_ghost m)); intros n o Hlt Hn Hop;
          ds_cases n Hlt Hn o ltac:(vm_compute in Hop; discriminate)|].
  split; [unfold typed; apply (ds_all (fun i o => o_opcode o <> opFreed -> o_opcode o = aml_pOpIntNamePathOrMethodCall -> exists tbl sl, o_value o = Some (VBytes tbl sl)));
          intros n o Hlt Hn _ Hop; ds_cases n Hlt Hn o ltac:(vm_compute in Hop; discriminate)|].
  split.
  { unfold pool_ok. rewrite Forall_forall. intros o Hin. destruct (In_nth_error _ _ Hin) as (n & Hn).
    assert (Hlt : (n < 6)%nat).
    { assert (Hl : length (t_pool ds_tree) = 6%nat) by (vm_compute; reflexivity). rewrite <- Hl. apply nth_error_Some. rewrite Hn. discriminate. }
    ds_cases n Hlt Hn o ltac:(exact I). }
  apply (ds_all (fun i o => o_tableHandle o < 1)). intros n o Hlt Hn. ds_cases n Hlt Hn o ltac:(vm_compute; reflexivity).
Qed.

(** [load]: ANY NUMBER of tables over the default scopes *)
Theorem load_never_panics : forall payloads,
  SEQ ds_tree [] 1 payloads -> fst (fst (load payloads)) <> 2.
Proof.
  intros payloads HS. unfold load. rewrite ds_create. exact (load_tables_never_panics payloads ds_tree ds_ghost [] 1 ds_INV HS).
Qed.
