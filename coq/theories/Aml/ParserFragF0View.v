(** C11 (fragment F0): the namespace view of the tree ParseAML builds for a flat list of Name declarations lists
    the declarations in program order, each at the path [SEG] with kind Name and the rendered constant. *)
From Coq Require Import NArith ZArith Arith List Bool Lia.
From Coq Require Import ZifyBool ZifyN ZifyNat.
From FF Require Import Lib.Word Gen.Consts_device_acpi_aml Gen.Consts_aml_tree Aml.Stream Aml.Lex Aml.LexProofs
  Aml.Tree Aml.TreeSpec Aml.TreeProofs Aml.TreeProofsOps Aml.TreeProofsFind Aml.Parser Aml.Grammar Aml.LexRoundtrip
  Aml.ParserTotalTree Aml.ParserTotalTree2 Aml.ParserTotalLex Aml.ParserTotalTable Aml.ParserTotalBase
  Aml.ParserFragBase Aml.ParserFragFirst Aml.ParserFragF0 Aml.ParserFragF0Shape Aml.ParserFragConn Aml.ParserFragF0Conn
  Aml.ParserFragWalk Aml.ParserFragF0Top Aml.View Aml.ParserFragView.
Import ListNotations.
Local Open Scope N_scope.

Ltac Zify.zify_post_hook ::= Z.div_mod_to_equations.

Definition f0_entry (d : decl) : list N :=
  [1] ++ tok_path [d_seg d] ++ [aml_pOpName] ++ const_tokens (d_op d) (const_val (d_op d) (d_v d)).

Lemma name_num_seg s : s < 0x100000000 -> name_num (seg_nm s) = s.
Proof.
  intros H. unfold name_num, seg_nm. rewrite !land_255, !N.shiftr_div_pow2.
  change (2 ^ 24) with 16777216. change (2 ^ 16) with 65536. change (2 ^ 8) with 256. lia.
Qed.

Lemma skipn_nth {A} (l : list A) : forall j d, nth_error l j = Some d -> skipn j l = d :: skipn (S j) l.
Proof.
  induction l as [|x l IH]; intros j d Hn; [destruct j; discriminate|].
  destruct j as [|j]; cbn [nth_error] in Hn; [inversion Hn; reflexivity|]. cbn [skipn]. apply IH. exact Hn.
Qed.

Section ViewF0.
Variable ds : list decl.
Hypothesis Hok : forallb decl_okb ds = true.
Hypothesis Hseg : forall d, In d ds -> d_seg d < 0x100000000.
Variable t : T.
Variable g : ghost.
Variable pl : list pay.
Hypothesis H : Rep t g pl.
Hypothesis S0 : Sh ds 0 g pl.
Variable tables : list (list N).
Let n := length ds.

Lemma const_op_facts d : In d ds ->
  (d_op d =? aml_pOpIntScopeBlock) = false /\ (d_op d =? aml_pOpIntResolvedNamePath) = false /\ (d_op d =? aml_pOpIntNamePath) = false /\
  (d_op d =? aml_pOpIntNamePathOrMethodCall) = false /\ (d_op d =? aml_pOpIntMethodCall) = false /\ d_op d <> opFreed.
Proof.
  intros Hin. pose proof (decl_const ds Hok d Hin) as Hc.
  destruct (is_constb_cases _ Hc) as [E|[E|[E|[E|[E|[E|E]]]]]]; rewrite E; repeat split; discriminate.
Qed.

Lemma fold_dflt f known p : forall l acc,
  (forall c, In c l -> exists co, obj t c = Some co /\ o_opcode co = aml_pOpIntScopeBlock /\
                                  name_eqb (o_name co) (0, 0, 0, 0) = false /\ View.kids t co = []) ->
  fold_left (walkF t tables (S f) known p) l acc = acc.
Proof.
  induction l as [|c l IH]; intros acc Hall; cbn [fold_left]; [reflexivity|].
  destruct (Hall c (or_introl eq_refl)) as (co & Ho & Hop & Hnm & Hk).
  rewrite (walkF_empty_scope t tables f known p acc c co Ho Hop Hnm Hk). apply IH. intros c' Hc'. apply Hall. right. exact Hc'.
Qed.

Lemma fold_names f known : forall m j es st, (j + m <= n)%nat ->
  fold_left (walkF t tables f known []) (names_from 6 j m) (es, st) = (es ++ map f0_entry (firstn m (skipn j ds)), st).
Proof.
  induction m as [|m IH]; intros j es st Hj.
  - cbn [names_from seq map fold_left firstn]. rewrite app_nil_r. reflexivity.
  - rewrite names_from_cons. cbn [fold_left].
    destruct (nth_ex' ds j ltac:(unfold n in Hj; lia)) as (d & Hd).
    pose proof S0 as S0'. destruct S0' as [A1 A2 A3 A4 A5 A6 A7 A8 A9]. change (N.of_nat 6) with 6 in *.
    pose proof (nth_error_In _ _ Hd) as Hin.
    destruct (view_obj t g pl (Nn 6 j) _ H (A7 j d Hd) ltac:(discriminate)) as (co & Hco & Epco & Hkco).
    destruct (const_op_facts d Hin) as (E0 & E1 & E2 & E3 & E4 & Hlc).
    destruct (view_obj t g pl (Cn 6 j) _ H (A9 j d Hd) Hlc) as (ko & Hko & Epko & Hkko).
    rewrite (A3 j ltac:(unfold n in Hj; lia)) in Hkco. cbn [Nat.ltb Nat.leb] in Hkco.
    rewrite (proj2 (A4 j ltac:(unfold n in Hj; lia))) in Hkko.
    assert (Hopk : o_opcode ko = d_op d) by (rewrite (pay_op _ _ Epko); reflexivity).
    assert (Hvk : o_value ko = const_val (d_op d) (d_v d)) by (rewrite (pay_val _ _ Epko); reflexivity).
    rewrite (walkF_name t tables f known [] es st (Nn 6 j) co (Pn 6 j) (Cn 6 j) ko Hco ltac:(rewrite (pay_op _ _ Epco); reflexivity) Hkco Hko Hkko);
      try (rewrite Hopk; assumption).
    2:{ rewrite Hvk. unfold const_val. destruct (const_bytes (d_op d)); exact I. }
    rewrite (IH (S j) _ st ltac:(lia)). rewrite (skipn_nth ds j d Hd). cbn [firstn map]. rewrite <- app_assoc. cbn [app].
    f_equal. f_equal. f_equal. unfold f0_entry. rewrite Hopk, Hvk, (pay_name _ _ Epco). cbn [name_pay y_name app].
    cbn [Nat.ltb Nat.leb negb]. rewrite (name_num_seg _ (Hseg d Hin)). reflexivity.
Qed.

Theorem view_f0 : view t tables = map f0_entry ds.
Proof.
  unfold view. set (known := [] :: collect_known t (pool_fuel t) 0 []).
  unfold pool_fuel at 1. rewrite walk_S.
  pose proof S0 as S0'. destruct S0' as [A1 A2 A3 A4 A5 A6 A7 A8 A9]. change (N.of_nat 6) with 6 in *.
  assert (Hp0 : pget pl 0 = Some (scope_pay 0 [92; 0; 0; 0])) by (rewrite (A6 0 ltac:(reflexivity)); reflexivity).
  destruct (view_obj t g pl 0 _ H Hp0 ltac:(discriminate)) as (so & Hso & _ & Hkso).
  rewrite Hso, Hkso, A2. unfold inter_rng. cbn [seq flat_map]. cbn [app]. rewrite Nat.sub_0_r.
  change (1 :: 2 :: 3 :: 4 :: 5 :: names_from 6 0 (length ds)) with (D0 ++ names_from 6 0 (length ds)).
  rewrite fold_left_app.
  rewrite (fold_dflt (length (t_pool t)) known [] D0).
  2:{ intros c Hc. destruct (D0_facts c Hc) as (Hlt & _ & _).
      assert (Hpc : pget pl c = pget pl0c c) by (apply A6; exact Hlt).
      unfold D0 in Hc. cbn [In] in Hc.
      destruct Hc as [ <- | [ <- | [ <- | [ <- | [ <- | [] ] ] ] ] ];
        (destruct (view_obj t g pl _ _ H Hpc ltac:(discriminate)) as (co & Hco & Epco & Hkco);
         exists co; split; [exact Hco|]; split; [rewrite (pay_op _ _ Epco); reflexivity|];
         split; [rewrite (pay_name _ _ Epco); reflexivity|]; rewrite Hkco; apply A5; cbn; tauto). }
  rewrite (fold_names (S (length (t_pool t))) known (length ds) 0 [] [] ltac:(unfold n; lia)).
  cbn [skipn app anon map]. rewrite firstn_all, app_nil_r. reflexivity.
Qed.
End ViewF0.
