(** C11 (fragment F0): closed forms of the forest and of the payloads after the first pass. *)
From Coq Require Import NArith ZArith Arith List Bool Lia.
From Coq Require Import ZifyBool ZifyN ZifyNat.
From FF Require Import Lib.Word Gen.Consts_device_acpi_aml Gen.Consts_aml_tree Aml.Stream Aml.Lex Aml.LexProofs
  Aml.Tree Aml.TreeSpec Aml.TreeProofs Aml.TreeProofsOps Aml.TreeProofsFind Aml.Parser Aml.Grammar Aml.LexRoundtrip
  Aml.ParserTotalTree Aml.ParserTotalTree2 Aml.ParserTotalLex Aml.ParserTotalTable Aml.ParserTotalBase
  Aml.ParserFragBase Aml.ParserFragFirst Aml.ParserFragF0.
Import ListNotations.
Local Open Scope N_scope.

Ltac Zify.zify_post_hook ::= Z.div_mod_to_equations.

(** slot numbers of declaration [j] when the pool held [L] objects before: Name object, name path, constant *)
Definition Nn (L : N) (j : nat) : N := L + 3 * N.of_nat j.
Definition Pn (L : N) (j : nat) : N := Nn L j + 1.
Definition Cn (L : N) (j : nat) : N := Nn L j + 2.

Definition inter_rng (L : N) (j m : nat) : list N := flat_map (fun i => [Nn L i; Cn L i]) (seq j m).
Definition names_from (L : N) (j m : nat) : list N := map (Nn L) (seq j m).

Lemma Nn_shift L j : Nn L (S j) = Nn (L + 3) j.
Proof. unfold Nn. lia. Qed.

Lemma inter_rng_shift L j m : inter_rng L (S j) m = inter_rng (L + 3) j m.
Proof.
  unfold inter_rng. rewrite <- seq_shift, flat_map_concat_map, map_map, <- flat_map_concat_map.
  apply flat_map_ext. intros i. unfold Cn. rewrite Nn_shift. reflexivity.
Qed.

Lemma inter_rng_S L j m : inter_rng L j (S m) = inter_rng L j m ++ [Nn L (j + m); Cn L (j + m)].
Proof. unfold inter_rng. rewrite seq_S, flat_map_app. cbn [flat_map]. rewrite app_nil_r. reflexivity. Qed.

Lemma inter_rng_cons L j m : inter_rng L j (S m) = Nn L j :: Cn L j :: inter_rng L (S j) m.
Proof. reflexivity. Qed.

(** ---- the forest ---- *)
Lemma len_g_decls ds : forall g sc, length (g_kids (g_decls g sc ds)) = (length (g_kids g) + 3 * length ds)%nat.
Proof.
  induction ds as [|d ds IH]; intros g sc; cbn [g_decls length]; [lia|].
  rewrite IH, len_g_head, len_g_name. lia.
Qed.

Lemma free_g_decls ds : forall g sc, g_free g = [] -> g_free (g_decls g sc ds) = [].
Proof. induction ds as [|d ds IH]; intros g sc Hf; cbn [g_decls]; [exact Hf|]. apply IH. reflexivity. Qed.

Lemma kids_step g sc i : sc < N.of_nat (length (g_kids g)) ->
  let L := N.of_nat (length (g_kids g)) in
  kids (g_head (g_name g sc) sc) i =
  if i =? sc then kids g sc ++ [L; L + 2] else if i =? L then [L + 1] else kids g i.
Proof.
  intros Hsc L. rewrite kids_g_head by (rewrite len_g_name; lia). rewrite len_g_name.
  rewrite !kids_g_name by exact Hsc. fold L.
  destruct (N.eqb_spec i sc) as [->|Hne].
  - destruct (N.eqb_spec sc L); [lia|]. rewrite N.eqb_refl, <- app_assoc. cbn [app].
    replace (N.of_nat (S (S (length (g_kids g))))) with (L + 2) by lia. reflexivity.
  - reflexivity.
Qed.

Lemma kids_g_decls_root ds : forall g sc, sc < N.of_nat (length (g_kids g)) ->
  kids (g_decls g sc ds) sc = kids g sc ++ inter_rng (N.of_nat (length (g_kids g))) 0 (length ds).
Proof.
  induction ds as [|d ds IH]; intros g sc Hsc; cbn [g_decls length].
  - unfold inter_rng. cbn. rewrite app_nil_r. reflexivity.
  - rewrite IH by (rewrite len_g_head, len_g_name; lia). rewrite kids_step by exact Hsc. cbv zeta. rewrite N.eqb_refl.
    rewrite len_g_head, len_g_name, <- app_assoc. f_equal.
    rewrite inter_rng_cons, inter_rng_shift. unfold Nn, Cn, Nn. cbn [app]. f_equal; [lia|]. f_equal; [lia|].
    f_equal. lia.
Qed.

Lemma kids_g_decls_old ds : forall g sc i, sc < N.of_nat (length (g_kids g)) -> i < N.of_nat (length (g_kids g)) -> i <> sc ->
  kids (g_decls g sc ds) i = kids g i.
Proof.
  induction ds as [|d ds IH]; intros g sc i Hsc Hi Hne; cbn [g_decls]; [reflexivity|].
  rewrite IH by (rewrite ?len_g_head, ?len_g_name; lia). rewrite kids_step by exact Hsc. cbv zeta.
  apply N.eqb_neq in Hne. rewrite Hne. destruct (N.eqb_spec i (N.of_nat (length (g_kids g)))); [lia|reflexivity].
Qed.

Lemma kids_g_decls_name ds : forall g sc j, sc < N.of_nat (length (g_kids g)) -> (j < length ds)%nat ->
  let L := N.of_nat (length (g_kids g)) in
  kids (g_decls g sc ds) (Nn L j) = [Pn L j] /\ kids (g_decls g sc ds) (Pn L j) = [] /\ kids (g_decls g sc ds) (Cn L j) = [].
Proof.
  induction ds as [|d ds IH]; intros g sc j Hsc Hj L; cbn [g_decls length] in *; [lia|].
  set (g' := g_head (g_name g sc) sc).
  assert (Hl' : N.of_nat (length (g_kids g')) = L + 3) by (unfold g'; rewrite len_g_head, len_g_name; lia).
  destruct j as [|j].
  - unfold Pn, Cn, Nn. change (3 * N.of_nat 0) with 0. rewrite !N.add_0_r.
    rewrite !kids_g_decls_old by lia. unfold g'. rewrite !kids_step by exact Hsc. cbv zeta. fold L.
    destruct (N.eqb_spec L sc); [lia|]. rewrite N.eqb_refl.
    destruct (N.eqb_spec (L + 1) sc); [lia|]. destruct (N.eqb_spec (L + 1) L); [lia|].
    destruct (N.eqb_spec (L + 2) sc); [lia|]. destruct (N.eqb_spec (L + 2) L); [lia|].
    repeat split; apply kids_oob; lia.
  - unfold Pn, Cn. rewrite Nn_shift, <- Hl'. apply (IH g' sc j); [lia|lia].
Qed.

(** ---- the payloads ---- *)
Lemma pget_app_old pl x i : i < N.of_nat (length pl) -> pget (pl ++ x) i = pget pl i.
Proof. intros H. unfold pget. apply nth_error_app1. lia. Qed.

Lemma pget_app_new pl x i : pget (pl ++ x) (N.of_nat (length pl) + i) = pget x i.
Proof. unfold pget. rewrite nth_error_app2 by lia. f_equal. lia. Qed.

Definition decl_off (off : N) (ds : list decl) (j : nat) : N := off + lenN (enc_decls (firstn j ds)).

Lemma pget_pl_decls h tbl ds : forall off j d c, nth_error ds j = Some d -> c < 3 ->
  pget (pl_decls h tbl off ds) (3 * N.of_nat j + c) = pget (decl_pays h tbl (decl_off off ds j) d) c.
Proof.
  induction ds as [|d0 ds IH]; intros off j d c Hj Hc; [destruct j; discriminate|].
  cbn [pl_decls]. destruct j as [|j].
  - cbn [nth_error] in Hj. inversion Hj; subst d0. unfold decl_off. cbn [firstn enc_decls flat_map]. change (lenN (@nil N)) with 0.
    rewrite N.add_0_r. change (3 * N.of_nat 0 + c) with c.
    change (decl_pays h tbl off d ++ pl_decls h tbl (off + lenN (enc_decl d)) ds) with ((decl_pays h tbl off d) ++ pl_decls h tbl (off + lenN (enc_decl d)) ds).
    apply pget_app_old. cbn [decl_pays length]. lia.
  - cbn [nth_error] in Hj.
    replace (3 * N.of_nat (S j) + c) with (N.of_nat (length (decl_pays h tbl off d0)) + (3 * N.of_nat j + c)) by (cbn [decl_pays length]; lia).
    rewrite pget_app_new. rewrite (IH _ j d c Hj Hc). f_equal. f_equal. unfold decl_off. cbn [firstn enc_decls flat_map].
    fold (enc_decls (firstn j ds)). rewrite lenN_app. lia.
Qed.
