(** C11 (fragment F3): connectNamedObjArgs over the top-level items (Scope directives are not named objects: only
    their bodies change). *)
From Coq Require Import NArith ZArith Arith List Bool Lia.
From Coq Require Import ZifyBool ZifyN ZifyNat.
From FF Require Import Lib.Word Gen.Consts_device_acpi_aml Gen.Consts_aml_tree Aml.Stream Aml.Lex Aml.LexProofs
  Aml.Tree Aml.TreeSpec Aml.TreeProofs Aml.TreeProofsOps Aml.TreeProofsFind Aml.Parser Aml.Grammar Aml.LexRoundtrip
  Aml.ParserTotalTree Aml.ParserTotalBase
  Aml.ParserFragBase Aml.ParserFragFirst Aml.ParserFragF0 Aml.ParserFragF0Shape Aml.ParserFragConn Aml.ParserFragF0Conn Aml.ParserFragWalk
  Aml.ParserFragF0Top Aml.ParserFragRose Aml.ParserFragDev Aml.ParserFragF1 Aml.ParserFragF1First Aml.ParserFragF1Conn Aml.ParserFragScope.
Import ListNotations.
Local Open Scope N_scope.

Ltac Zify.zify_post_hook ::= Z.div_mod_to_equations.

Definition tclen_item (x : titem) : nat := match x with TItem it => clen [it] | TScope _ _ _ _ => 1%nat end.
Definition tclen (l : list titem) : nat := fold_right (fun x n => (tclen_item x + n)%nat) O l.
Definition tcfuel_item (x : titem) : nat := match x with TItem it => cfuel_item it | TScope _ _ _ body => (6 + cfuel body)%nat end.
Definition tcfuel (l : list titem) : nat := fold_right (fun x n => (tcfuel_item x + n)%nat) O l.

Lemma tclen_le_tcfuel l : (tclen l <= tcfuel l)%nat.
Proof.
  induction l as [|[it|k root d body] t IH]; [cbn; lia| |]; cbn [tclen tcfuel fold_right tclen_item tcfuel_item]; fold (tclen t); fold (tcfuel t).
  - pose proof (clen_le_cfuel [it]). cbn [cfuel fold_right] in H. lia.
  - lia.
Qed.

(** composition: the later siblings first, then the earlier ones *)
Lemma Post2_compose g pl g1 pl1 g2 pl2 x b n1 n2 pre post tr1 tr2 :
  (x < b \/ b + N.of_nat (n1 + n2) <= x) ->
  (forall y, In y (rnodesl tr2) -> b + N.of_nat n1 <= y < b + N.of_nat (n1 + n2)) ->
  Post2 g pl g1 pl1 x (b + N.of_nat n1) n2 (pre ++ map ridx tr1) post tr2 ->
  (forall tr1', Post2 g1 pl1 g2 pl2 x b n1 pre (map ridx tr2 ++ post) tr1' -> Post2 g pl g2 pl2 x b (n1 + n2) pre post (tr1' ++ tr2)).
Proof.
  intros Hx Hn [A1 A2 A3 A4] tr1' [B1 B2 B3 B4]. constructor.
  - rewrite B1, map_app, <- !app_assoc. reflexivity.
  - apply Forall_app. split; [exact B2|]. apply (Desc_frame_l g1 pl1); [exact A2|].
    intros y Hy. destruct (Hn y Hy) as (Hlo & Hhi). split; [apply B3; lia|apply B4; lia].
  - intros y Hy Hyx. rewrite B3 by lia. apply A3; [lia|exact Hyx].
  - intros y Hy. rewrite B4 by lia. apply A4. lia.
Qed.

Section TConn.
Variable h tbl : N.
Variable tbls : list (list N).
Variable data : list N.
Hypothesis Hnth : nth_error tbls (N.to_nat tbl) = Some data.

Definition TCSpec (ts : list titem) : Prop :=
  forall x pre post b off s g pl f ax R dpre dpost (Q : pres -> pstate -> Prop),
  Rep (p_tree s) g pl ->
  kids g x = pre ++ map ridx (tlay1 h tbl b off ts) ++ post ->
  Forall (Desc g pl) (tlay1 h tbl b off ts) ->
  pget pl x = Some ax -> y_op ax <> opFreed -> (x < b \/ b + N.of_nat (tszs ts) <= x) ->
  p_handle s = h -> p_tables s = tbls -> data = dpre ++ enc_titems ts ++ dpost -> off = lenN dpre ->
  forallb titem_okb ts = true ->
  (8 <= R)%nat -> (tcfuel ts + R <= f)%nat ->
  (forall t' g' pl', Rep t' g' pl' -> Post2 g pl g' pl' x b (tszs ts) pre post (tlay2 h tbl b off ts) ->
     wp False (connectNamed_loop (f - tclen ts) x (last pre InvalidIndex)) (with_tree s t') Q) ->
  wp False (connectNamed_loop f x (last (pre ++ map ridx (tlay1 h tbl b off ts)) InvalidIndex)) s Q.

Lemma tcspec_nil : TCSpec [].
Proof.
  intros x pre post b off s g pl f ax R dpre dpost Q H Hk HD Hx Hlx Hrange Hh Htb Hdata Hoff Hok HR Hf K.
  cbn [tlay1 map tclen fold_right] in *. rewrite app_nil_r. rewrite Nat.sub_0_r in K.
  specialize (K (p_tree s) g pl H). assert (E : with_tree s (p_tree s) = s) by (destruct s; reflexivity). rewrite E in K.
  apply K. constructor; auto.
Qed.

Lemma tcspec_item it rest : TCSpec rest -> TCSpec (TItem it :: rest).
Proof.
  intros IH x pre post b off s g pl f ax R dpre dpost Q H Hk HD Hx Hlx Hrange Hh Htb Hdata Hoff Hok HR Hf K.
  cbn [forallb titem_okb] in Hok. apply andb_prop in Hok. destruct Hok as [Hit Hok].
  rewrite tlay1_cons in Hk, HD |- *. rewrite tszs_cons in Hrange. cbn [tsz tlay1_item enc_titem] in *.
  cbn [tcfuel fold_right tcfuel_item] in Hf. fold (tcfuel rest) in Hf.
  rewrite map_app in Hk |- *. apply Forall_app in HD. destruct HD as [HDit HDrest].
  rewrite enc_titems_cons in Hdata. cbn [enc_titem] in Hdata.
  set (B' := b + N.of_nat (isz it)) in *. set (off' := off + lenN (enc_item it)) in *.
  rewrite app_assoc.
  eapply (IH x (pre ++ map ridx (lay1_item h tbl b off it)) post B' off' s g pl f ax (R + cfuel_item it)%nat (dpre ++ enc_item it) dpost Q);
    [exact H|rewrite Hk, <- !app_assoc; reflexivity|exact HDrest|exact Hx|exact Hlx|unfold B'; lia|exact Hh|exact Htb| | |exact Hok|lia|lia|].
  { rewrite Hdata, <- !app_assoc. reflexivity. }
  { unfold off'. rewrite Hoff. symmetry. apply lenN_app. }
  intros t1 g1 pl1 H1 P1. pose proof P1 as [Q1 Q2 Q3 Q4].
  assert (Hout : forall y, b <= y < b + N.of_nat (isz it) -> (y < B' \/ B' + N.of_nat (tszs rest) <= y) /\ y <> x) by (intros y Hy; unfold B'; lia).
  assert (HDit1 : Forall (Desc g1 pl1) (lay1 h tbl b off [it])).
  { rewrite lay1_single. apply (Desc_frame_l g pl); [exact HDit|]. intros y Hy. rewrite <- lay1_single in Hy. apply lay1_nodes in Hy.
    cbn [iszs fold_right] in Hy. split; [apply Q3; apply Hout; lia|apply Q4; apply Hout; lia]. }
  assert (Px1 : pget pl1 x = Some ax) by (rewrite Q4 by (unfold B'; lia); exact Hx).
  rewrite <- lay1_single.
  eapply (cspec_all h tbl tbls data Hnth [it] x pre (map ridx (tlay2 h tbl B' off' rest) ++ post) b off (with_tree s t1) g1 pl1 _ ax
            (f - tclen rest - cfuel_item it)%nat dpre (enc_titems rest ++ dpost) Q);
    [exact H1| |exact HDit1|exact Px1|exact Hlx|cbn [iszs fold_right]; lia|exact Hh|exact Htb| |exact Hoff|cbn [forallb]; rewrite Hit; reflexivity| | |].
  { rewrite Q1, lay1_single, <- !app_assoc. reflexivity. }
  { rewrite Hdata. cbn [enc_items flat_map]. rewrite app_nil_r, <- !app_assoc. reflexivity. }
  { pose proof (tclen_le_tcfuel rest). lia. }
  { pose proof (tclen_le_tcfuel rest). cbn [cfuel fold_right]. lia. }
  intros t2 g2 pl2 H2 P2.
  replace (f - tclen rest - clen [it])%nat with (f - tclen (TItem it :: rest))%nat by (cbn [tclen fold_right tclen_item]; fold (tclen rest); lia).
  apply (K t2 _ _ H2). rewrite tlay2_cons. cbn [tlay2_item tsz enc_titem]. fold B' off'. rewrite tszs_cons. cbn [tsz].
  rewrite <- lay2_single.
  eapply (Post2_compose g pl g1 pl1 g2 pl2 x b (isz it) (tszs rest) pre post (lay1_item h tbl b off it)); [lia| |exact P1|].
  - intros y Hy. apply tlay2_nodes in Hy. unfold B' in Hy. lia.
  - cbn [iszs fold_right] in P2. rewrite Nat.add_0_r in P2. exact P2.
Qed.

Lemma tcspec_scope k root d body rest : TCSpec rest -> TCSpec (TScope k root d body :: rest).
Proof.
  intros IH x pre post b off s g pl f ax R dpre dpost Q H Hk HD Hx Hlx Hrange Hh Htb Hdata Hoff Hok HR Hf K.
  cbn [forallb titem_okb] in Hok. apply andb_prop in Hok. destruct Hok as [Hd_ok Hok].
  apply andb_prop in Hd_ok. destruct Hd_ok as [Hx' Hbody_ok]. apply andb_prop in Hx'. destruct Hx' as [_ Hpk]. apply pkglen_okb_adm in Hpk.
  rewrite tlay1_cons in Hk, HD |- *. rewrite tszs_cons in Hrange. cbn [tsz tlay1_item enc_titem] in *.
  cbn [tcfuel fold_right tcfuel_item] in Hf. fold (tcfuel rest) in Hf.
  rewrite map_app in Hk |- *. cbn [map ridx] in Hk |- *.
  set (nl := sc_len root) in *. set (seg := dseg d) in *. unfold sc_body in *. fold seg in Hk, HD, Hpk |- *.
  set (v := k + lenN (enc_name (sc_name root seg) ++ enc_items body)) in *.
  pose proof (lenN_enc_pkglen k v Hpk) as Hlk.
  set (off1 := off + 1 + k + nl) in *.
  set (B' := b + N.of_nat (3 + iszs body)) in *.
  set (off' := off + lenN (enc_op OP_SCOPE ++ enc_pkglen k v ++ enc_name (sc_name root seg) ++ enc_items body)) in *.
  apply Forall_app in HD. destruct HD as [HDit HDrest].
  pose proof (Forall_inv HDit) as DD. clear HDit.
  destruct (Desc_inv _ _ _ _ _ DD) as (PD & KD & HD2). cbn [map ridx] in KD.
  pose proof (Forall_inv HD2) as DP. pose proof (Forall_inv (Forall_inv_tail HD2)) as DS. clear HD2.
  destruct (Desc_inv _ _ _ _ _ DP) as (PP & KP & _). destruct (Desc_inv _ _ _ _ _ DS) as (PS & KS & HDbody). cbn [map] in KP.
  rewrite enc_titems_cons in Hdata. cbn [enc_titem] in Hdata. unfold sc_body in Hdata. fold seg in Hdata. fold v in Hdata.
  replace (pre ++ [b] ++ map ridx (tlay1 h tbl B' off' rest)) with ((pre ++ [b]) ++ map ridx (tlay1 h tbl B' off' rest)) by (rewrite <- app_assoc; reflexivity).
  eapply (IH x (pre ++ [b]) post B' off' s g pl f ax (R + 6 + cfuel body)%nat (dpre ++ enc_op OP_SCOPE ++ enc_pkglen k v ++ enc_name (sc_name root seg) ++ enc_items body) dpost Q);
    [exact H|rewrite Hk, <- !app_assoc; reflexivity|exact HDrest|exact Hx|exact Hlx|unfold B'; lia|exact Hh|exact Htb| | |exact Hok|lia|lia|].
  { rewrite Hdata, <- !app_assoc. reflexivity. }
  { unfold off'. rewrite Hoff. symmetry. apply lenN_app. }
  intros t1 g1 pl1 H1 [Q1 Q2 Q3 Q4].
  assert (Hxne : x <> b /\ x <> b + 1 /\ x <> b + 2) by lia. destruct Hxne as (Hxb & Hxb1 & Hxb2).
  assert (Hout1 : forall y, b <= y < b + N.of_nat (3 + iszs body) -> (y < B' \/ B' + N.of_nat (tszs rest) <= y) /\ y <> x) by (intros y Hy; unfold B'; lia).
  assert (KD1 : kids g1 b = [b + 1; b + 2]) by (rewrite Q3 by (apply Hout1; lia); exact KD).
  assert (KP1 : kids g1 (b + 1) = []) by (rewrite Q3 by (apply Hout1; lia); exact KP).
  assert (KS1 : kids g1 (b + 2) = map ridx (lay1 h tbl (b + 3) off1 body)) by (rewrite Q3 by (apply Hout1; lia); exact KS).
  assert (PD1 : pget pl1 b = Some (scp_pay h off)) by (rewrite Q4 by (apply Hout1; lia); exact PD).
  assert (PP1 : pget pl1 (b + 1) = Some (pthn_pay h tbl (off + 1 + k) nl)) by (rewrite Q4 by (apply Hout1; lia); exact PP).
  assert (PS1 : pget pl1 (b + 2) = Some (sb_pay h off1)) by (rewrite Q4 by (apply Hout1; lia); exact PS).
  assert (Px1 : pget pl1 x = Some ax) by (rewrite Q4 by (unfold B'; lia); exact Hx).
  assert (HDbody1 : Forall (Desc g1 pl1) (lay1 h tbl (b + 3) off1 body)).
  { apply (Desc_frame_l g pl); [exact HDbody|]. intros y Hy. apply lay1_nodes in Hy.
    split; [apply Q3; apply Hout1; lia|apply Q4; apply Hout1; lia]. }
  set (l2 := map ridx (tlay2 h tbl B' off' rest) ++ post) in *.
  assert (Hk1 : kids g1 x = pre ++ b :: l2) by (rewrite Q1, <- !app_assoc; reflexivity).
  rewrite last_app_one.
  assert (EF : exists f', (f - tclen rest = S (S (S (S (S (S (S f')))))))%nat).
  { pose proof (tclen_le_tcfuel rest). exists (f - tclen rest - 7)%nat. lia. }
  destruct EF as (f' & EF). rewrite EF.
  rewrite connectNamed_loop_S. rewrite (rep_not_Inv _ _ _ _ _ H1 PD1).
  apply wp_bind. eapply wp_objectAt_rep; [exact H1|exact PD1|discriminate|].
  apply wp_bind. eapply wp_rdf_rep; [exact H1|exact PD1|discriminate|]. intros od _ Hidx _ _. rewrite Hidx.
  apply wp_bind. rewrite connectNamedObjArgs_S.
  apply wp_bind. eapply wp_objectAt_rep; [exact H1|exact PD1|discriminate|].
  apply wp_bind. eapply wp_rdf_rep; [exact H1|exact PD1|discriminate|]. intros od2 _ _ _ Hlast. rewrite Hlast, KD1. cbn [last].
  rewrite connectNamed_loop_S. rewrite (rep_not_Inv _ _ _ _ _ H1 PS1).
  apply wp_bind. eapply wp_objectAt_rep; [exact H1|exact PS1|discriminate|].
  apply wp_bind. eapply wp_rdf_rep; [exact H1|exact PS1|discriminate|]. intros os _ Hidxs _ _. rewrite Hidxs.
  apply wp_bind. rewrite connectNamedObjArgs_S.
  apply wp_bind. eapply wp_objectAt_rep; [exact H1|exact PS1|discriminate|].
  apply wp_bind. eapply wp_rdf_rep; [exact H1|exact PS1|discriminate|]. intros os2 _ _ _ Hlasts. rewrite Hlasts, KS1.
  change (map ridx (lay1 h tbl (b + 3) off1 body)) with ([] ++ map ridx (lay1 h tbl (b + 3) off1 body)).
  eapply (cspec_all h tbl tbls data Hnth body (b + 2) [] [] (b + 3) off1 (with_tree s t1) g1 pl1 _ (sb_pay h off1) (R + 2)%nat
            (dpre ++ enc_op OP_SCOPE ++ enc_pkglen k v ++ enc_name (sc_name root seg)) (enc_titems rest ++ dpost));
    [exact H1|rewrite KS1, app_nil_r; reflexivity|exact HDbody1|exact PS1|discriminate|lia|exact Hh|exact Htb| | |exact Hbody_ok|lia|pose proof (tclen_le_tcfuel rest); lia|].
  { rewrite Hdata, <- !app_assoc. reflexivity. }
  { unfold off1. rewrite !lenN_app, Hlk, lenN_sc_name, Hoff. change (lenN (enc_op OP_SCOPE)) with 1. fold nl. lia. }
  intros t2 g2 pl2 H2 [U1 U2 U3 U4]. cbn [last app] in U1 |- *. rewrite app_nil_r in U1.
  assert (EF3 : exists f3, (S (S (S f')) - clen body = S f3)%nat).
  { pose proof (clen_le_cfuel body). pose proof (tclen_le_tcfuel rest). exists (S (S (S f')) - clen body - 1)%nat. lia. }
  destruct EF3 as (f3 & EF3). rewrite EF3. rewrite connectNamed_loop_S, N.eqb_refl. apply wp_ret.
  change (negb (pres_eqb ROk ROk)) with false. cbv iota zeta.
  assert (PS2 : pget pl2 (b + 2) = Some (sb_pay h off1)) by (rewrite U4 by lia; exact PS1).
  assert (PP2 : pget pl2 (b + 1) = Some (pthn_pay h tbl (off + 1 + k) nl)) by (rewrite U4 by lia; exact PP1).
  assert (PD2 : pget pl2 b = Some (scp_pay h off)) by (rewrite U4 by lia; exact PD1).
  assert (KD2 : kids g2 b = [b + 1; b + 2]) by (rewrite U3 by lia; exact KD1).
  assert (KP2 : kids g2 (b + 1) = []) by (rewrite U3 by lia; exact KP1).
  assert (Kx2 : kids g2 x = pre ++ b :: l2) by (rewrite U3 by lia; exact Hk1).
  apply wp_bind. eapply wp_rdo_rep; [exact H2|exact PS2|discriminate|]. intros aos Hpays _ _ _.
  rewrite (pay_info _ _ Hpays). apply wp_bind. eapply wp_info; [reflexivity|]. cbv beta iota.
  apply wp_bind, wp_get. rewrite (pay_op _ _ Hpays). cbn [sb_pay y_op].
  change (aml_pOpIntScopeBlock =? aml_pOpIntScopeBlock) with true. rewrite orb_true_r.
  apply wp_bind. eapply (wp_rdf_sib False b [b + 1] (b + 2) []); [exact H2|exact KD2|]. intros o' _ _ Hprev _ _. rewrite Hprev. cbn [last].
  eapply (CNloop_leaf _ b (b + 1) [] [b + 2] (pthn_pay h tbl (off + 1 + k) nl) (aml_pOpIntNamePath, 8, 0));
    [exact H2|exact KD2|exact PP2|discriminate|exact KP2|reflexivity|].
  cbn [last]. rewrite connectNamed_loop_S, N.eqb_refl. apply wp_ret.
  (* the directive itself is not a named object *)
  change (negb (pres_eqb ROk ROk)) with false. cbv iota zeta.
  apply wp_bind. eapply wp_rdo_rep; [exact H2|exact PD2|discriminate|]. intros aod Hpayd _ _ _.
  rewrite (pay_info _ _ Hpayd). apply wp_bind. eapply (wp_info False 9 (aml_pOpScope, 0, 67855)); [reflexivity|]. cbv beta iota.
  apply wp_bind, wp_get. change (negb (hasFlag 0 aml_pOpFlagNamed)) with true. cbn [orb].
  apply wp_bind. eapply (wp_rdf_sib False x pre b l2); [exact H2|exact Kx2|]. intros o3 _ _ Hprev3 _ _. rewrite Hprev3.
  replace (S (S (S (S (S (S f')))))) with (f - tclen (TScope k root d body :: rest))%nat by (cbn [tclen fold_right tclen_item]; fold (tclen rest); lia).
  apply (K t2 _ _ H2).
  rewrite tlay2_cons. cbn [tlay2_item tsz enc_titem]. unfold sc_body. fold seg nl v off1 B' off'. rewrite tszs_cons. cbn [tsz]. constructor.
  - rewrite Kx2. rewrite map_app. cbn [map ridx]. unfold l2. rewrite <- !app_assoc. reflexivity.
  - apply Forall_app. split.
    + constructor; [|constructor]. constructor; [exact PD2|exact KD2|].
      constructor; [|constructor; [|constructor]].
      * constructor; [exact PP2|exact KP2|constructor].
      * constructor; [exact PS2|exact U1|exact U2].
    + apply (Desc_frame_l g1 pl1); [exact Q2|]. intros y Hy. apply tlay2_nodes in Hy. unfold B' in Hy.
      split; [apply U3; lia|apply U4; lia].
  - intros y Hy Hyx. rewrite U3 by lia. apply Q3; [unfold B'; lia|exact Hyx].
  - intros y Hy. rewrite U4 by lia. apply Q4. unfold B'. lia.
Qed.

Theorem tcspec_all : forall ts, TCSpec ts.
Proof.
  induction ts as [|[it|k root d body] rest IH].
  - apply tcspec_nil.
  - apply tcspec_item. exact IH.
  - apply tcspec_scope. exact IH.
Qed.
End TConn.
