(** C12 (stretch): the passes of ParseAML after connectNamedObjArgs chained - the resolve loop, parseDeferredBlocks,
    resolveMethodCalls, connectNonNamedObjArgs never panic from a state that satisfies the invariants of the resolve loop,
    [TM2] and [PEND]; the count of pending objects the walk needs exists (induction over the forest) and is bounded by the
    pool. *)
From Coq Require Import NArith Arith List Bool Lia.
From Coq Require Import ZifyBool ZifyN ZifyNat.
From FF Require Import Lib.Word Gen.Consts_device_acpi_aml Gen.Consts_aml_tree Aml.Stream Aml.Lex Aml.LexProofs
  Aml.Tree Aml.Parser Aml.ParserProofs Aml.TreeSpec Aml.TreeProofs Aml.TreeProofsOps Aml.TreeProofsFind Aml.TreeProofsAnc
  Aml.ParserTotalTree Aml.ParserTotalTree2 Aml.ParserTotalLex Aml.ParserTotalTable Aml.ParserTotalBase Aml.ParserTotalLeaf
  Aml.ParserTotalFrame Aml.ParserTotalFirst Aml.ParserTotalConn Aml.ParserTotalNonNamed Aml.ParserTotalCalls Aml.ParserTotalReloc
  Aml.ParserTotalMerge Aml.ParserTotalResolve Aml.ParserTotalDefer Aml.ParserTotalDeferW Aml.ParserTotalDeferH Aml.ParserTotalDeferM Aml.ParserTotalDeferV
  Aml.ParserTotalTyped Aml.ParserTotalShape.
Import ListNotations.
Local Open Scope N_scope.

(** ---- induction over the forest ---- *)
Section Forest.
Context (t : T) (g : ghost) (HR : R t g).

Lemma forest_ind (P : N -> Prop) :
  (forall x, glive g x -> (forall c, In c (kids g x) -> P c) -> P x) -> forall x, glive g x -> P x.
Proof.
  intros H.
  assert (Hn : forall n x k, Depth t x k -> (length (t_pool t) - k <= n)%nat -> glive g x -> P x).
  { induction n as [|n IH]; intros x k Hd Hle Hl.
    - pose proof (Depth_bound t x k Hd). lia.
    - apply H; [exact Hl|]. intros c Hc. apply (IH c (S k)).
      + eapply child_depth; eauto.
      + lia.
      + apply ((R_gwf _ _ HR) _ _ Hc). }
  intros x Hl. destruct (live_depth _ _ HR x Hl) as (k & Hd). apply (Hn _ x k Hd (Nat.le_refl _) Hl).
Qed.

(** the ancestors of an object form a chain *)
Lemma desc_chain a b y : desc g a y -> desc g b y -> desc g a b \/ desc g b a.
Proof.
  intros Ha. revert b. induction Ha as [|p c Ha IH Hin]; intros b Hb.
  - right. exact Hb.
  - inversion Hb as [|p' c' Hb' Hin']; subst.
    + left. eapply desc_step; eauto.
    + assert (p' = p) by (eapply (R_parent_unique _ _ HR); eauto). subst p'. apply IH. exact Hb'.
Qed.

Lemma siblings_disjoint p a b y : In a (kids g p) -> In b (kids g p) -> desc g a y -> desc g b y -> a = b.
Proof.
  intros Ha Hb Da Db. destruct (desc_chain a b y Da Db) as [D|D].
  - symmetry. eapply (sibling_not_desc _ _ HR); eauto.
  - eapply (sibling_not_desc _ _ HR); [exact Hb|exact Ha|exact D].
Qed.
End Forest.

Lemma NoDup_app_intro (l1 l2 : list N) : NoDup l1 -> NoDup l2 -> (forall y, In y l1 -> In y l2 -> False) -> NoDup (l1 ++ l2).
Proof.
  induction l1 as [|a l1 IH]; intros H1 H2 Hd; [exact H2|]. cbn [app]. apply NoDup_cons_iff in H1. destruct H1 as (Ha & H1).
  constructor.
  - intros Hin. apply in_app_or in Hin. destruct Hin as [Hin|Hin]; [contradiction|apply (Hd a); [left; reflexivity|exact Hin]].
  - apply IH; auto. intros y Hy1 Hy2. apply (Hd y); [right; exact Hy1|exact Hy2].
Qed.

(** ---- the count of the walk exists ---- *)
Lemma dcnt_exists s g : WI s g -> PEND s g -> forall x, glive g x ->
  exists l, NoDup l /\ (forall y, In y l -> desc g x y) /\ dcnt s g x (N.of_nat (length l)).
Proof.
  intros H HP. pose proof (fi_R _ _ H) as HR. pose proof (R_gwf _ _ HR) as Hwf.
  apply (forest_ind _ _ HR). intros x Hl IH.
  destruct (isflag s x) eqn:Ef.
  - destruct (FI_live_get _ _ _ H Hl) as (o & Ho & _). destruct (HP x o Hl Ho Ef) as (Hpar & Hnp).
    exists [x]. split; [repeat constructor; intros []|]. split; [intros y [<-|[]]; constructor|].
    cbn [length]. change (N.of_nat 1) with 1. apply dc_flag; auto.
    intros o' Ho'. assert (o' = o) by congruence. subst. exact Hnp.
  - assert (Hl' : forall cs, (forall c, In c cs -> In c (kids g x)) -> NoDup cs ->
              exists l, NoDup l /\ (forall y, In y l -> exists c, In c cs /\ desc g c y) /\ dcl s g cs (N.of_nat (length l))).
    { induction cs as [|c cs IHc]; intros Hsub Hnd.
      - exists []. split; [constructor|]. split; [intros y []|apply dcl_nil].
      - apply NoDup_cons_iff in Hnd. destruct Hnd as (Hnc & Hnd).
        destruct (IH c (Hsub c (or_introl eq_refl))) as (l1 & N1 & D1 & C1).
        destruct (IHc (fun c' Hc' => Hsub c' (or_intror Hc')) Hnd) as (l2 & N2 & D2 & C2).
        exists (l1 ++ l2). split; [|split].
        + apply NoDup_app_intro; auto. intros y Hy1 Hy2. destruct (D2 y Hy2) as (c' & Hc' & Dc').
          assert (c = c') by (eapply (siblings_disjoint _ _ HR x); [apply Hsub; left; reflexivity|apply Hsub; right; exact Hc'|apply D1; exact Hy1|exact Dc']).
          subst c'. contradiction.
        + intros y Hy. apply in_app_or in Hy. destruct Hy as [Hy|Hy].
          * exists c. split; [left; reflexivity|apply D1; exact Hy].
          * destruct (D2 y Hy) as (c' & Hc' & Dc'). exists c'. split; [right; exact Hc'|exact Dc'].
        + rewrite app_length, Nat2N.inj_add. apply dcl_cons; auto. }
    destruct (FI_live_get _ _ _ H Hl) as (o & Ho & Hlo).
    destruct (R_kids _ _ HR _ _ Ho Hlo) as (_ & _ & _ & Hnd).
    destruct (Hl' (kids g x) (fun c Hc => Hc) Hnd) as (l & Nl & Dl & Cl).
    exists l. split; [exact Nl|]. split.
    + intros y Hy. destruct (Dl y Hy) as (c & Hc & Dc). eapply desc_trans; [eapply desc_step; [constructor|exact Hc]|exact Dc].
    + apply dc_node; auto.
Qed.

Lemma desc_live g x y : gwf g -> glive g x -> desc g x y -> glive g y.
Proof. intros Hwf Hl Hd. induction Hd as [|p c Hd IH Hin]; [exact Hl|apply (Hwf _ _ Hin)]. Qed.

Lemma dcnt_bounded s g : WI s g -> PEND s g -> forall x, glive g x -> exists n, dcnt s g x n /\ n <= lp s.
Proof.
  intros H HP x Hl. destruct (dcnt_exists s g H HP x Hl) as (l & Nl & Dl & Cl).
  exists (N.of_nat (length l)). split; [exact Cl|]. pose proof (fi_R _ _ H) as HR.
  assert (length l <= length (t_pool (p_tree s)))%nat; [|unfold lp; lia].
  apply nodup_bound; [exact Nl|]. intros y Hy. rewrite <- (R_len _ _ HR). eapply glive_lt.
  eapply desc_live; [apply (R_gwf _ _ HR)|exact Hl|apply Dl; exact Hy].
Qed.

(** ---- the resolve loop touches neither the reader nor the stacks nor the size of the pool ---- *)
Definition quiet {A} (m : M A) : Prop :=
  forall s a s', m s = Ok (a, s') ->
    p_r s' = p_r s /\ p_scopeStack s' = p_scopeStack s /\ length (t_pool (p_tree s')) = length (t_pool (p_tree s)).

Lemma quiet_same {A} (m : M A) : (forall s a s', m s = Ok (a, s') -> s' = s) -> quiet m.
Proof. intros H s a s' E. rewrite (H _ _ _ E). auto. Qed.
Lemma quiet_ret {A} (a : A) : quiet (ret a).
Proof. apply quiet_same. intros s a' s' H. inversion H; reflexivity. Qed.
Lemma quiet_bind {A B} (m : M A) (f : A -> M B) : quiet m -> (forall a, quiet (f a)) -> quiet (bindM m f).
Proof.
  intros Hm Hf s b s' H. apply bindM_ok in H. destruct H as (a & s1 & E1 & E2).
  destruct (Hm _ _ _ E1) as (A1 & A2 & A3). destruct (Hf a _ _ _ E2) as (B1 & B2 & B3). repeat split; congruence.
Qed.
Lemma quiet_if {A} (b : bool) (m1 m2 : M A) : quiet m1 -> quiet m2 -> quiet (if b then m1 else m2).
Proof. destruct b; auto. Qed.
Lemma quiet_fail {A} (m : M A) : (forall s, m s = Panic \/ m s = OutOfFuel) -> quiet m.
Proof. intros H s a s' E. destruct (H s) as [F|F]; rewrite F in E; discriminate. Qed.
Lemma quiet_get {A} (f : pstate -> A) : quiet (Parser.get f).
Proof. apply quiet_same. intros s a s' H. inversion H; reflexivity. Qed.
Lemma quiet_tq {A} (f : T -> outcome A) : quiet (tq f).
Proof. apply quiet_same. intros s a s' H. unfold tq, lift in H. destruct (f (p_tree s)); try discriminate. inversion H; reflexivity. Qed.
Lemma quiet_liftf {A} (f : pstate -> outcome A) : quiet (fun s => lift (f s) s).
Proof. apply quiet_same. intros s a s' H. unfold lift in H. destruct (f s); try discriminate. inversion H; reflexivity. Qed.
Lemma quiet_need (o : option N) : quiet (need o).
Proof. destruct o; [apply quiet_ret|apply quiet_fail; intros; left; reflexivity]. Qed.
Lemma quiet_info i : quiet (info i).
Proof. unfold info. destruct (opInfo i); [apply quiet_ret|apply quiet_fail; intros; left; reflexivity]. Qed.
Lemma quiet_panic {A} : quiet (@panic A).
Proof. apply quiet_fail. intros; left; reflexivity. Qed.
Lemma quiet_counters (f : pstate -> pstate) : (forall s, exists a b c, f s = with_counters s a b c) -> quiet (fun s => Ok (tt, f s)).
Proof. intros Hf s u s' H. inversion H; subst. destruct (Hf s) as (a & b & c & ->). auto. Qed.
Lemma quiet_tu (f : T -> outcome T) : (forall t t', f t = Ok t' -> length (t_pool t') = length (t_pool t)) -> quiet (tu f).
Proof.
  intros Hf s u s' H. unfold tu in H. destruct (f (p_tree s)) as [t'| |] eqn:E; try discriminate. inversion H; subst.
  cbn [p_r p_scopeStack p_tree with_tree]. repeat split; auto.
Qed.

Ltac quiet_prim :=
  first [ apply quiet_ret | apply quiet_get | apply quiet_tq | apply quiet_liftf | apply quiet_need | apply quiet_info | apply quiet_panic
        | (apply quiet_counters; intros ?; eexists _, _, _; reflexivity)
        | (apply quiet_tu; let t := fresh in let t' := fresh in let E := fresh in intros t t' E;
           first [ solve [destruct (wr_inv _ _ _ _ E) as (-> & _); apply tset_len]
                 | solve [apply (proj1 (append_pframe _ _ _ _ E))]
                 | solve [apply (proj1 (detach_pframe _ _ _ _ E))]
                 | solve [apply (proj1 (free_frame _ _ _ E))] ]) ].

Ltac quiet_tac rec :=
  repeat first
    [ rec | quiet_prim | apply quiet_if | (apply quiet_bind; [|intros ?])
    | match goal with |- quiet (match ?x with _ => _ end) => destruct x end
    | match goal with |- quiet (let '(_, _) := ?x in _) => destruct x end ].

Ltac q_unf := unfold rdf, rdo, objectAt, objectAt', appendM, detachM, freeM, wrf, bytesOf, poolFuel, valueBytes.

Lemma nestedScope_go_quiet fuel : forall i, quiet (nestedScope_go fuel i).
Proof.
  induction fuel as [|fuel IH]; intros; cbn [nestedScope_go]; [apply quiet_fail; intros; right; reflexivity|].
  q_unf. quiet_tac ltac:(apply IH).
Qed.
Lemma scopeOf_quiet i : quiet (scopeOf i).
Proof. unfold scopeOf. q_unf. quiet_tac ltac:(apply nestedScope_go_quiet). Qed.
Lemma moveContents_go_quiet fuel : forall c t i, quiet (moveContents_go fuel c t i).
Proof.
  induction fuel as [|fuel IH]; intros; cbn [moveContents_go]; [apply quiet_fail; intros; right; reflexivity|].
  q_unf. quiet_tac ltac:(apply IH).
Qed.
Lemma insideSelf_go_quiet fuel : forall a o, quiet (insideSelf_go fuel a o).
Proof.
  induction fuel as [|fuel IH]; intros; cbn [insideSelf_go]; [apply quiet_fail; intros; right; reflexivity|].
  q_unf. quiet_tac ltac:(apply IH).
Qed.
Lemma merge_quiet fuel : (forall i, quiet (mergeScopeDirectives fuel i)) /\ (forall i r, quiet (mergeScope_loop fuel i r)).
Proof.
  induction fuel as [|fuel (IH1 & IH2)]; (split; intros; [cbn [mergeScopeDirectives]|cbn [mergeScope_loop]]);
    try (apply quiet_fail; intros; right; reflexivity).
  - q_unf. quiet_tac ltac:(first [apply IH2 | apply scopeOf_quiet | apply moveContents_go_quiet]).
  - q_unf. quiet_tac ltac:(first [apply IH1 | apply IH2]).
Qed.
Lemma relocate_quiet fuel : (forall i, quiet (relocateNamedObjects fuel i)) /\ (forall i r, quiet (relocate_loop fuel i r)).
Proof.
  induction fuel as [|fuel (IH1 & IH2)]; (split; intros; [cbn [relocateNamedObjects]|cbn [relocate_loop]]);
    try (apply quiet_fail; intros; right; reflexivity).
  - q_unf. quiet_tac ltac:(first [apply IH2 | apply scopeOf_quiet | apply insideSelf_go_quiet]).
  - q_unf. quiet_tac ltac:(first [apply IH1 | apply IH2]).
Qed.
Lemma resolve_loop_quiet wf : forall fuel, quiet (resolve_loop fuel wf).
Proof.
  induction fuel as [|fuel IH]; cbn [resolve_loop]; [apply quiet_fail; intros; right; reflexivity|].
  quiet_tac ltac:(first [apply IH | apply (proj1 (merge_quiet wf)) | apply (proj1 (relocate_quiet wf))]).
Qed.

Section Chain.
Variable tbls : list (list N).
Notation IV := (Inv tbls).

(** the tail of ParseAML with [PEND] in place of the count *)
Theorem tail_never_panics_pend : forall f4 pf f5 f6 s g,
  R (p_tree s) g -> info_valid (p_tree s) -> rok (p_r s) -> Forall (glive g) (p_scopeStack s) -> IV s ->
  glive g 0 -> groot g 0 -> TM NoX s g -> typed (p_tree s) -> PEND s g ->
  lp s + lp s * (8 * r_len (p_r s) + 3) + 4 <= InvalidIndex ->
  match parse_tail f4 pf f5 f6 s with
  | Ok (_, s') => exists g', R (p_tree s') g' /\ info_valid (p_tree s') /\ pool_ok (p_tables s') (p_tree s')
  | Panic => False
  | OutOfFuel => True
  end.
Proof.
  intros f4 pf f5 f6 s g HR Hi Hrk Hsc I0 H0 Hroot HTM Hty HP Hcap.
  assert (H : WI s g) by (constructor; auto).
  destruct (dcnt_bounded s g H HP 0 H0) as (n & Hd & Hn).
  apply (deferred_tail_never_panics tbls f4 pf f5 f6 n s g); auto. nia.
Qed.

(** everything after connectNamedObjArgs, as in parseAML_body *)
Definition parse_rest (fuel : nat) : M bool :=
  mlet r3 <~ resolve_loop fuel fuel ;;
  if negb (pres_eqb r3 ROk) then ret false else parse_tail fuel fuel fuel fuel.

Lemma parseAML_body_rest fuel :
  parseAML_body fuel =
  (scopeEnter 0 ;;;
   mlet r1 <~ parseObjectList fuel ;;
   if pres_eqb r1 RFailed then ret false else
   mlet r2 <~ connectNamedObjArgs fuel 0 ;;
   if negb (pres_eqb r2 ROk) then ret false else
   (fun s => Ok (tt, with_counters s 1 (p_mergedScopes s) (p_relocatedObjects s))) ;;;
   parse_rest fuel).
Proof. reflexivity. Qed.

Theorem rest_never_panics : forall fuel s g,
  R (p_tree s) g -> info_valid (p_tree s) -> rok (p_r s) -> p_scopeStack s = [] -> IV s ->
  glive g 0 -> groot g 0 -> is_sb s 0 ->
  tyS NoX (p_tables s) (p_handle s) (p_tree s) g ->
  TM3 (p_tree s) g -> PEND s g -> typed (p_tree s) ->
  lp s + lp s * (8 * r_len (p_r s) + 3) + 4 <= InvalidIndex ->
  match parse_rest fuel s with
  | Ok (_, s') => exists g', R (p_tree s') g' /\ info_valid (p_tree s') /\ pool_ok (p_tables s') (p_tree s')
  | Panic => False
  | OutOfFuel => True
  end.
Proof.
  intros fuel s g HR Hi Hrk Hst I0 H0 Hroot Hsb Hty HTM HP Htyp Hcap.
  assert (Hpool : pool_ok (p_tables s) (p_tree s)) by (rewrite (inv_tbls _ _ I0); apply (inv_pool _ _ I0)).
  assert (HM : MI KS3 NoX s g).
  { constructor; auto; [constructor; auto|split; [split; [apply TM3_TM2; exact HTM|exact HP]|exact HTM]]. }
  assert (W : wp True (parse_rest fuel) s (fun _ s' => exists g',
            R (p_tree s') g' /\ info_valid (p_tree s') /\ pool_ok (p_tables s') (p_tree s'))).
  { unfold parse_rest.
    apply (wp_bind_inv tbls _ _ _ _ _ I0); [apply hoare_resolve_loop|].
    eapply wp_weaken; [apply (wp_and_pc _ _ _ _ (fun _ s' => (p_r s' = p_r s /\ p_scopeStack s' = p_scopeStack s /\
                                  length (t_pool (p_tree s')) = length (t_pool (p_tree s))) /\ typed (p_tree s'))
                         (KS3_loop fuel fuel s g HM))|auto|].
    - intros a s' E. split; [apply (resolve_loop_quiet fuel fuel s a s' E)|apply (resolve_loop_tyk fuel fuel s a s' E Htyp)].
    - intros r3 s1 ((g1 & [[A B C] D E F G ((_ & K2) & K1)]) & (Q1 & Q2 & Q3) & Ht1) I1.
      destruct (pres_eqb r3 ROk); cbn [negb].
      2:{ apply wp_ret. exists g1. auto. }
      pose proof (tail_never_panics_pend fuel fuel fuel fuel s1 g1 A B) as T.
      unfold wp. destruct (parse_tail fuel fuel fuel fuel s1) as [[b s']| |] eqn:Et; auto; apply T; auto;
        try (rewrite Q1; exact Hrk); try (rewrite Q2, Hst; constructor); try (apply TM3_TM; exact K1);
        try (unfold lp in *; rewrite Q1, Q3; exact Hcap). }
  unfold wp in W. destruct (parse_rest fuel s) as [[b s']| |]; auto.
Qed.
(** ---- the same chain with a postcondition: an invariant [K] of the tree that the last three passes preserve, an invariant [KI]
     of the resolve loop (it implies [KS]) ---- *)
Section Post.
Variable K : T -> ghost -> Prop.
Hypothesis K_move : Kmove K.
Hypothesis K_upd : Kupd K.
Hypothesis K_walk : forall f4 pf s g s1 g1, WI s g -> parseDeferredBlocks f4 pf 0 s = Ok (ROk, s1) -> WI s1 g1 -> wstep s g s1 g1 -> TM NoX s1 g1 ->
  K (p_tree s) g -> K (p_tree s1) g1.

Definition tpost (b : bool) (s' : pstate) : Prop :=
  exists g', R (p_tree s') g' /\ info_valid (p_tree s') /\ pool_ok (p_tables s') (p_tree s') /\
    (b = true -> glive g' 0 /\ groot g' 0 /\ typed (p_tree s') /\ K (p_tree s') g').

Theorem tail_post : forall f4 pf f5 f6 s g,
  R (p_tree s) g -> info_valid (p_tree s) -> rok (p_r s) -> Forall (glive g) (p_scopeStack s) -> IV s ->
  glive g 0 -> groot g 0 -> TM NoX s g -> typed (p_tree s) -> PEND s g ->
  lp s + lp s * (8 * r_len (p_r s) + 3) + 4 <= InvalidIndex -> K (p_tree s) g ->
  match parse_tail f4 pf f5 f6 s with
  | Ok (b, s') => tpost b s'
  | Panic => False
  | OutOfFuel => True
  end.
Proof.
  intros f4 pf f5 f6 s g HR Hi Hrk Hsc I0 H0 Hroot HTM Hty HP Hcap HK.
  assert (H : WI s g) by (constructor; auto).
  destruct (dcnt_bounded s g H HP 0 H0) as (n & Hd & Hn).
  apply (deferred_tail_post tbls K K_move K_upd f4 pf f5 f6 n s g); auto; [nia|].
  intros s1 g1 E1 H1 S1 T1. apply (K_walk f4 pf s g s1 g1 H E1 H1 S1 T1 HK).
Qed.

Variable KI : pstate -> ghost -> Prop.
Hypothesis KI_KS : forall s g, KI s g -> KS s g.
Hypothesis KI_TM : forall s g, KI s g -> TM NoX s g.
Hypothesis KI_loop : forall wf fuel s g, MI KI NoX s g ->
  wp True (resolve_loop fuel wf) s (fun _ s' => exists g', MI KI NoX s' g').
Hypothesis K_start : forall s g, MI KI NoX s g -> K (p_tree s) g.

Theorem rest_post : forall fuel s g,
  R (p_tree s) g -> info_valid (p_tree s) -> rok (p_r s) -> p_scopeStack s = [] -> IV s ->
  glive g 0 -> groot g 0 -> is_sb s 0 ->
  tyS NoX (p_tables s) (p_handle s) (p_tree s) g ->
  KI s g -> typed (p_tree s) ->
  lp s + lp s * (8 * r_len (p_r s) + 3) + 4 <= InvalidIndex ->
  match parse_rest fuel s with
  | Ok (b, s') => tpost b s'
  | Panic => False
  | OutOfFuel => True
  end.
Proof.
  intros fuel s g HR Hi Hrk Hst I0 H0 Hroot Hsb Hty HKI Htyp Hcap.
  assert (Hpool : pool_ok (p_tables s) (p_tree s)) by (rewrite (inv_tbls _ _ I0); apply (inv_pool _ _ I0)).
  assert (HM : MI KI NoX s g).
  { constructor; auto. constructor; auto. }
  assert (W : wp True (parse_rest fuel) s tpost).
  { unfold parse_rest.
    apply (wp_bind_inv tbls _ _ _ _ _ I0); [apply hoare_resolve_loop|].
    eapply wp_weaken; [apply (wp_and_pc _ _ _ _ (fun _ s' => (p_r s' = p_r s /\ p_scopeStack s' = p_scopeStack s /\
                                  length (t_pool (p_tree s')) = length (t_pool (p_tree s))) /\ typed (p_tree s'))
                         (KI_loop fuel fuel s g HM))|auto|].
    - intros a s' E. split; [apply (resolve_loop_quiet fuel fuel s a s' E)|apply (resolve_loop_tyk fuel fuel s a s' E Htyp)].
    - intros r3 s1 ((g1 & HM1) & (Q1 & Q2 & Q3) & Ht1) I1.
      pose proof (K_start s1 g1 HM1) as HK1.
      destruct HM1 as [[A B C] D E F G HKI1]. destruct (KI_KS _ _ HKI1) as (K1 & K2).
      destruct (pres_eqb r3 ROk); cbn [negb].
      2:{ apply wp_ret. exists g1. split; [exact A|]. split; [exact B|]. split; [exact C|discriminate]. }
      pose proof (tail_post fuel fuel fuel fuel s1 g1 A B) as T.
      unfold wp. destruct (parse_tail fuel fuel fuel fuel s1) as [[b s']| |] eqn:Et; auto; apply T; auto;
        try (rewrite Q1; exact Hrk); try (rewrite Q2, Hst; constructor); try (apply KI_TM; exact HKI1);
        try (unfold lp in *; rewrite Q1, Q3; exact Hcap). }
  unfold wp in W. destruct (parse_rest fuel s) as [[b s']| |]; auto.
Qed.
End Post.
End Chain.

(** the resolve loop alone: it keeps [TM2], [PEND] and the typing of the name-path objects *)
Theorem resolve_loop_keeps_shape : forall fuel walkFuel s g,
  R (p_tree s) g -> info_valid (p_tree s) -> pool_ok (p_tables s) (p_tree s) ->
  glive g 0 -> groot g 0 -> is_sb s 0 ->
  tyS NoX (p_tables s) (p_handle s) (p_tree s) g ->
  TM2 (p_tree s) g -> PEND s g -> typed (p_tree s) ->
  match resolve_loop fuel walkFuel s with
  | Ok (_, s') => exists g', R (p_tree s') g' /\ info_valid (p_tree s') /\ pool_ok (p_tables s') (p_tree s') /\
      glive g' 0 /\ groot g' 0 /\ is_sb s' 0 /\ tyS NoX (p_tables s') (p_handle s') (p_tree s') g' /\
      TM2 (p_tree s') g' /\ PEND s' g' /\ typed (p_tree s') /\
      p_r s' = p_r s /\ p_scopeStack s' = p_scopeStack s /\ lp s' = lp s
  | Panic => False
  | OutOfFuel => True
  end.
Proof.
  intros fuel wf s g HR Hi Hpool H0 Hroot Hsb Hty HTM HP Htyp.
  assert (HM : MI KS NoX s g).
  { constructor; auto; [constructor; auto|split; auto]. }
  pose proof (resolve_loop_MI KS KS_counters KS_move KS_free KS_reloc wf fuel s g HM) as W. unfold wp in W.
  destruct (resolve_loop fuel wf s) as [[r s']| |] eqn:E; auto.
  destruct W as (g' & [[A B C] D E1 F G (K1 & K2)]).
  destruct (resolve_loop_quiet wf fuel s r s' E) as (Q1 & Q2 & Q3).
  exists g'. repeat (split; [assumption|]). split; [exact (resolve_loop_tyk wf fuel s r s' E Htyp)|].
  split; [exact Q1|]. split; [exact Q2|]. unfold lp. rewrite Q3. reflexivity.
Qed.

(** ---- the hypotheses of [rest_never_panics] are satisfiable: the state of DeferW's example with an empty scope stack ---- *)
Definition dex0_state : pstate := with_scopeStack dex_state [].

Lemma dex0_hyps :
  let s := dex0_state in let g := dex_ghost in
    R (p_tree s) g /\ info_valid (p_tree s) /\ rok (p_r s) /\ p_scopeStack s = [] /\ Inv (p_tables s) s /\
    glive g 0 /\ groot g 0 /\ is_sb s 0 /\ tyS NoX (p_tables s) (p_handle s) (p_tree s) g /\
    TM3 (p_tree s) g /\ PEND s g /\ typed (p_tree s) /\
    lp s + lp s * (8 * r_len (p_r s) + 3) + 4 <= InvalidIndex.
Proof.
  cbv zeta. unfold dex0_state.
  destruct dex_hyps as (oo & op & fl & af & A & B & C & D & E & F & G & Hoo & Hrow & Hdf & Hh & Hfl & HTM & _ & _).
  split; [exact A|]. split; [exact B|]. split; [exact C|]. split; [reflexivity|].
  split; [destruct E as [E1 E2 E3 E4 E5]; constructor; assumption|].
  split; [exact F|]. split; [apply groot_chk; vm_compute; reflexivity|].
  split; [eexists; split; [vm_compute; reflexivity|vm_compute; reflexivity]|].
  change (p_tree (with_scopeStack dex_state [])) with dex_tree.
  split.
  { unfold tyS. apply (pool_cases dex_tree (fun x xo => o_opcode xo = aml_pOpScope -> o_tableHandle xo = p_handle (with_scopeStack dex_state []) -> ~ NoX x ->
                                             sdir (p_tables (with_scopeStack dex_state [])) dex_tree dex_ghost x (o_name xo) (o_infoIndex xo))).
    intros k o Hk Hop. do 2 (destruct k as [|k]; [vm_compute in Hk; inversion Hk; subst o; vm_compute in Hop; discriminate|]).
    vm_compute in Hk. destruct k; discriminate. }
  split.
  { unfold TM3. apply (pool_cases dex_tree (fun m mo => o_opcode mo = aml_pOpMethod -> mtyped3 dex_tree dex_ghost m)).
    intros k o Hk Hop. do 2 (destruct k as [|k]; [vm_compute in Hk; inversion Hk; subst o; vm_compute in Hop; discriminate|]).
    vm_compute in Hk. destruct k; discriminate. }
  split.
  { intros x o Hl Ho Hf. change (p_tree (with_scopeStack dex_state [])) with dex_tree in Ho.
    revert Hl Hf. pattern x, o. revert x o Ho. apply pool_cases. intros k o Hk Hl Hf.
    destruct k as [|k]; [vm_compute in Hf; discriminate|].
    destruct k as [|k]; [|vm_compute in Hk; destruct k; discriminate].
    split; [exists 0; vm_compute; left; reflexivity|]. vm_compute in Hk. inversion Hk; subst o. vm_compute. discriminate. }
  split.
  { unfold typed. apply (pool_cases dex_tree (fun i o => o_opcode o <> opFreed -> o_opcode o = aml_pOpIntNamePathOrMethodCall ->
                                           exists tbl sl, o_value o = Some (VBytes tbl sl))). intros k o Hk _ Hop.
    do 2 (destruct k as [|k]; [vm_compute in Hk; inversion Hk; subst o; vm_compute in Hop; discriminate|]).
    vm_compute in Hk. destruct k; discriminate. }
  vm_compute; discriminate.
Qed.

Lemma rest_hyps_example :
  exists (s : pstate) (g : ghost),
    R (p_tree s) g /\ info_valid (p_tree s) /\ rok (p_r s) /\ p_scopeStack s = [] /\ Inv (p_tables s) s /\
    glive g 0 /\ groot g 0 /\ is_sb s 0 /\ tyS NoX (p_tables s) (p_handle s) (p_tree s) g /\
    TM3 (p_tree s) g /\ PEND s g /\ typed (p_tree s) /\
    lp s + lp s * (8 * r_len (p_r s) + 3) + 4 <= InvalidIndex /\
    match parse_rest 10 s with Ok (b, s') => b = true /\ lp s' = 4 | _ => False end.
Proof.
  pose proof dex0_hyps as H. cbv zeta in H. destruct H as (A & B & C & D & E & F & G & H1 & H2 & H3 & H4 & H5 & H6).
  exists dex0_state, dex_ghost.
  split; [exact A|]. split; [exact B|]. split; [exact C|]. split; [exact D|]. split; [exact E|]. split; [exact F|].
  split; [exact G|]. split; [exact H1|]. split; [exact H2|]. split; [exact H3|]. split; [exact H4|]. split; [exact H5|].
  split; [exact H6|]. vm_compute. split; reflexivity.
Qed.
