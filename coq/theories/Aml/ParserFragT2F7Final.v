(** C11 (two-table fragment T2F7): [parse_encode] for programs of TWO tables with the items of F7.

    As T2 (see ParserFragT2Final.v), with the items of the fragment F7 in both tables: in addition to T2, Name declarations
    whose value is a string or a package of integer constants and strings.  The first table has no Scope directives;
    the second table may have Scope(\SEG) / Scope(SEG) directives over the predefined scopes at its top level. *)
From Coq Require Import NArith ZArith Arith List Bool Lia Permutation.
From Coq Require Import ZifyBool ZifyN ZifyNat.
From FF Require Import Lib.Word Gen.Consts_device_acpi_aml Gen.Consts_aml_tree Aml.Stream Aml.Lex Aml.LexProofs
  Aml.Tree Aml.TreeSpec Aml.Parser Aml.Grammar Aml.LexRoundtrip
  Aml.ParserFragBase Aml.ParserFragFirst Aml.ParserFragF0 Aml.ParserFragF0Conn Aml.ParserFragF0Top
  Aml.ParserFragRose Aml.ParserFragDev Aml.ParserFragArgs Aml.ParserFragF1 Aml.ParserFragF1First Aml.ParserFragF1Conn Aml.ParserFragF1Top
  Aml.View Aml.ParserFragView Aml.ParserFragF0View Aml.ParserFragF0Final Aml.ParserFragSort Aml.ParserFragF1View Aml.WfProgram
  Aml.ParserFragF1Final Aml.ParserFragScope Aml.ParserFragScope3 Aml.ParserFragF3Top Aml.ParserFragF3View Aml.ParserFragF3Final
  Aml.ParserFragF7Final Aml.ParserFragT2Top Aml.ParserFragT2View.
Import ListNotations.
Local Open Scope N_scope.

Ltac Zify.zify_post_hook ::= Z.div_mod_to_equations.

Definition in_fragment_T2F7 (tables : list (list ast)) : bool :=
  match tables with
  | [p1; p2] =>
      match f7_items p1, f7_titems p2 with
      | Some _, Some _ => (lenN (encode_table p1) <? 0x10000000) && (lenN (encode_table p2) <? 0x10000000)
      | _, _ => false
      end
  | _ => false
  end.

(** THE THEOREM for the two-table fragment over F7 *)
Theorem parse_encode_T2F7 : forall tables,
  wf_program tables = true -> in_fragment_T2F7 tables = true -> parse_encode_statement tables.
Proof.
  intros tables Hwf Hfr. unfold in_fragment_T2F7 in Hfr.
  destruct tables as [|p1 [|p2 [|p3 rest]]]; try discriminate.
  destruct (f7_items p1) as [its1|] eqn:E1; [|discriminate]. destruct (f7_titems p2) as [ts|] eqn:E2; [|discriminate].
  apply andb_prop in Hfr. destruct Hfr as [Hfr1 Hfr2]. apply N.ltb_lt in Hfr1. apply N.ltb_lt in Hfr2.
  destruct (f7_items_ast p1 its1 E1) as (-> & Hs1). destruct (f7_titems_ast p2 ts E2) as (-> & Hd & Hs).
  unfold wf_program in Hwf. cbn [wf_tables app] in Hwf. apply andb_prop in Hwf. destruct Hwf as [Hwf1 Hwf2].
  apply andb_prop in Hwf2. destruct Hwf2 as [Hwf2 _].
  pose proof (wf_items _ _ its1 Hs1 Hwf1) as Hok1. pose proof (wf_titems _ _ ts Hs Hd Hwf2) as Hok.
  rewrite (encode_items its1 Hs1) in Hfr1. rewrite (encode_titems ts Hs) in Hfr2.
  unfold parse_encode_statement, parse_program, load. cbn [map].
  destruct default_rep as (t0 & Et0 & H0). rewrite Et0. cbn [load_tables]. rewrite (encode_items its1 Hs1), (encode_titems ts Hs).
  destruct (table1 its1 t0 Hok1 Hfr1 H0) as (s1 & g1 & pl1 & Ep1 & HF1 & DF1 & Etb1 & Hl1 & Hfree1).
  rewrite Ep1. cbn [app]. change (1 + 1) with 2.
  destruct (parse_t2 its1 ts (p_tree s1) g1 pl1 (table_image (enc_items its1)) Hok1 Hok Hfr1 Hfr2 HF1 DF1 Hl1 Hfree1) as (s2 & gF & plF & Ep2 & HF & DF & Etb).
  rewrite Ep2. cbn [app]. change (0 =? 0) with true. cbv iota.
  rewrite (view_t2_eq (p_tree s2) gF plF HF [table_image (enc_items its1); table_image (enc_titems ts)] its1 ts (hdr_of (enc_items its1)) (hdr_of (enc_titems ts)) DF Hok1 Hok
             ltac:(rewrite !table_image_hdr; reflexivity) eq_refl eq_refl).
  unfold ns. cbn [flat_map]. rewrite app_nil_r.
  rewrite (entries_items _ its1 Hs1).
  rewrite (entries_titems _ ts (fun d Hd' => resolve_env_default _ d Hd') Hs Hd).
  f_equal. apply sort_perm. apply view_t2_perm. exact Hok.
Qed.
