(** C11 (fragment proofs): exact specifications of the first-pass functions on encoded declarations.

    [next_head]: parseNextObject in front of an encoded opcode creates the object, records its offset, appends
    it to the current scope and goes on with parseObjectArgs.
    [objargs_name]: the arguments of a Name object in the first pass: the name path (the value is left for
    the next parseNextObject: the parser attaches it in connectNamedObjArgs).
    [next_const]: an integer constant (Zero / One / Ones / Byte- / Word- / DWord- / QWordPrefix). *)
From Coq Require Import NArith ZArith Arith List Bool Lia.
From Coq Require Import ZifyBool ZifyN ZifyNat.
From FF Require Import Lib.Word Gen.Consts_device_acpi_aml Gen.Consts_aml_tree Aml.Stream Aml.Lex Aml.LexProofs
  Aml.Tree Aml.TreeSpec Aml.TreeProofs Aml.TreeProofsOps Aml.TreeProofsFind Aml.Parser Aml.Grammar Aml.LexRoundtrip
  Aml.ParserTotalTree Aml.ParserTotalTree2 Aml.ParserTotalLex Aml.ParserTotalTable Aml.ParserTotalBase
  Aml.ParserFragBase.
Import ListNotations.
Local Open Scope N_scope.

Ltac Zify.zify_post_hook ::= Z.div_mod_to_equations.

(** ---- tokens ---- *)
Lemma at_split r pre a b post : at_token r pre (a ++ b) post -> at_token r pre a (b ++ post).
Proof.
  intros [D O E W]. constructor; auto.
  - rewrite D, <- app_assoc. reflexivity.
  - rewrite lenN_app in E. lia.
Qed.

Lemma at_adv r pre a b post : at_token r pre (a ++ b) post ->
  at_token (set_offset_raw r (lenN pre + lenN a)) (pre ++ a) b post.
Proof.
  intros [D O E W]. constructor; cbn [r_data r_offset r_pkgEnd set_offset_raw].
  - rewrite D, <- !app_assoc. reflexivity.
  - rewrite lenN_app. reflexivity.
  - rewrite !lenN_app in *. lia.
  - destruct W as (W1 & W2 & W3 & W4). unfold reader_wf. cbn. auto.
Qed.

Lemma at_cons_split r pre x b post : at_token r pre (x :: b) post -> at_token r pre [x] (b ++ post).
Proof. intros H. apply (at_split r pre [x] b post). exact H. Qed.

Lemma at_not_eof r pre x tok post : at_token r pre (x :: tok) post -> eof r = false.
Proof. intros [D O E W]. unfold eof. rewrite O. rewrite lenN_cons in E. apply N.leb_gt. lia. Qed.

Lemma at_eof r pre post : at_token r pre [] post -> r_pkgEnd r = lenN pre -> eof r = true.
Proof. intros [D O E W] Hp. unfold eof. rewrite O, Hp. apply N.leb_refl. Qed.

(** ---- payload projections ---- *)
Lemma pay_op (o : Obj) a : pay_of o = a -> o_opcode o = y_op a. Proof. intros <-. reflexivity. Qed.
Lemma pay_info (o : Obj) a : pay_of o = a -> o_infoIndex o = y_info a. Proof. intros <-. reflexivity. Qed.
Lemma pay_th (o : Obj) a : pay_of o = a -> o_tableHandle o = y_th a. Proof. intros <-. reflexivity. Qed.
Lemma pay_val (o : Obj) a : pay_of o = a -> o_value o = y_val a. Proof. intros <-. reflexivity. Qed.
Lemma pay_name (o : Obj) a : pay_of o = a -> o_name o = y_name a. Proof. intros <-. reflexivity. Qed.

(** ---- fresh slots in the forest ---- *)
Lemma groot_fresh (t : T) g : R t g -> groot (gnew g) (N.of_nat (length (g_kids g))).
Proof.
  intros HR p Hin. rewrite kids_gnew in Hin. destruct (R_gwf _ _ HR _ _ Hin) as (_ & Hl). destruct Hl as [Hlt _]. lia.
Qed.

Lemma kids_fresh g : kids g (N.of_nat (length (g_kids g))) = [].
Proof. apply kids_oob. lia. Qed.

(** ---- parseNextObject in front of an opcode ---- *)
Definition g_head (g : ghost) (sc : N) : ghost :=
  set_kids (gnew g) sc (kids g sc ++ [N.of_nat (length (g_kids g))]).

Lemma next_head f op idx s g pl pre rest post sc scs a (Q : pres -> pstate -> Prop) :
  Rep (p_tree s) g pl -> g_free g = [] -> N.of_nat (length pl) < InvalidIndex ->
  at_token (p_r s) pre (enc_op op ++ rest) post -> valid_opcode op -> op <> aml_pOpNoop ->
  op <> opFreed -> opcodeTableIndex op true = Some idx ->
  p_scopeStack s = sc :: scs -> pget pl sc = Some a -> y_op a <> opFreed ->
  (forall t', Rep t' (g_head g sc) (pl ++ [mkPay op idx (p_handle s) name_zero (lenN pre) 0 None]) ->
     wp False (parseObjectArgs f (N.of_nat (length pl)))
        (with_tree (with_r s (set_offset_raw (p_r s) (lenN pre + lenN (enc_op op)))) t') Q) ->
  wp False (parseNextObject (S f)) s Q.
Proof.
  intros H Hfree Hroom Hat Hvalid Hnoop Hnf Hidx Est Hsc Hlsc K.
  pose proof (rep_len_g _ _ _ H) as Hlg.
  cbn [parseNextObject]. unfold offsetM, rq.
  apply wp_bind, wp_get.
  apply wp_bind. apply wp_lex.
  exists op, true, (set_offset_raw (p_r s) (lenN pre + lenN (enc_op op))). split.
  { apply (opcode_roundtrip op (p_r s) pre (rest ++ post) Hvalid). apply at_split. exact Hat. }
  cbv beta iota.
  assert (En : op =? aml_pOpNoop = false) by (apply N.eqb_neq; exact Hnoop). rewrite En. cbn [negb].
  pose proof (at_off _ _ _ _ Hat) as Hoff.
  set (s1 := with_r s (set_offset_raw (p_r s) (lenN pre + lenN (enc_op op)))).
  assert (Hmaps : opcode_in_maps op).
  { destruct Hvalid as (Hle & _). unfold opcode_in_maps. change (length tree_extendedOpcodeMap) with 256%nat. lia. }
  apply wp_bind. eapply (wp_newObj_rep False op idx s1 g pl); [exact H|exact Hfree|exact Hroom|exact Hnf|exact Hmaps|exact Hidx|].
  intros t1 H1.
  apply wp_bind. eapply (wp_wrf_rep False _ _ (ys_off (r_offset (p_r s)))); [exact H1|apply pget_app_last|exact Hnf|apply st_amlOffset|].
  intros t2 H2. rewrite pupd_app_last in H2. unfold ys_off in H2; cbn [y_op y_info y_th y_name y_off y_pkgEnd y_val] in H2. rewrite Hoff in H2.
  assert (Hsclt : sc < N.of_nat (length pl)) by (eapply pget_lt; eauto).
  assert (Hsc2 : pget (pl ++ [mkPay op idx (p_handle s1) name_zero (lenN pre) 0 None]) sc = Some a).
  { rewrite pget_app_l by exact Hsclt. exact Hsc. }
  apply wp_bind. eapply wp_scopeCurrent; [exact Est|].
  scbn. rewrite (rep_ObjectAt _ _ _ H2 _ _ Hsc2 Hlsc).
  assert (Hlive_sc : glive g sc) by (eapply rep_live; eauto).
  rewrite <- Hlg.
  apply wp_bind. eapply wp_append_rep; [exact H2|apply glive_gnew; assumption|apply glive_gnew_new| | |].
  { eapply groot_fresh. apply (rep_R _ _ _ H). }
  { intros Hd. apply desc_leaf in Hd; [|rewrite kids_gnew; apply kids_fresh]. lia. }
  intros t3 H3. rewrite kids_gnew in H3. rewrite Hlg in *.
  assert (H3' : Rep t3 (g_head g sc) (pl ++ [mkPay op idx (p_handle s) name_zero (lenN pre) 0 None])) by (unfold g_head; rewrite Hlg; exact H3).
  exact (K t3 H3').
Qed.

(** ---- parseObjectArgs of an opcode that is not a data prefix ---- *)
Definition is_prefix_op (op : N) : bool :=
  (op =? aml_pOpBytePrefix) || (op =? aml_pOpWordPrefix) || (op =? aml_pOpDwordPrefix) || (op =? aml_pOpQwordPrefix) ||
  (op =? aml_pOpStringPrefix).

Lemma objargs_other f cur a inf s g pl (Q : pres -> pstate -> Prop) :
  Rep (p_tree s) g pl -> pget pl cur = Some a -> y_op a <> opFreed -> is_prefix_op (y_op a) = false ->
  opInfo (y_info a) = Some inf ->
  wp False (parseArgs f inf cur 0) s (fun res s' => Q (match res with RShort => ROk | r => r end) s') ->
  wp False (parseObjectArgs (S f) cur) s Q.
Proof.
  intros H Ha Hl Hp Hinf K. cbn [parseObjectArgs].
  apply wp_bind. eapply wp_rdf_rep; [exact H|exact Ha|exact Hl|]. intros o Ho _ _ _. rewrite (pay_op _ _ Ho).
  unfold curTable. apply wp_bind, wp_get.
  unfold is_prefix_op in Hp. repeat (apply orb_false_elim in Hp; destruct Hp as [Hp ?]).
  repeat match goal with E : (_ =? _) = false |- _ => rewrite E; clear E end.
  apply wp_bind. apply wp_bind. eapply wp_rdf_rep; [exact H|exact Ha|exact Hl|]. intros o' Ho' _ _ _. rewrite (pay_info _ _ Ho').
  apply wp_bind. eapply wp_info; [exact Hinf|].
  eapply wp_conseq; [exact K|]. intros res s' HQ. apply wp_ret. exact HQ.
Qed.

(** ---- the name path argument ---- *)
Lemma simpleArg_name_eq :
  parseSimpleArg aml_pArgTypeNameString =
  (mlet obj <~ newObj 0 ;;
   mlet off <~ offsetM ;;
   wrf obj (set_amlOffset off) ;;;
   mlet tbl <~ curTable ;;
   wrf obj (set_opcode aml_pOpIntNamePath) ;;;
   mlet '(v, ok) <~ lex parseNameString ;;
   wrf obj (set_value (Some (bytesValue tbl v))) ;;;
   mlet idx <~ tableIndex aml_pOpIntNamePath true ;;
   wrf obj (set_infoIndex idx) ;;;
   ret (Some obj, pres_of_bool ok)).
Proof. reflexivity. Qed.

Definition cur_tbl (s : pstate) : N := N.of_nat (length (p_tables s)) - 1.

Definition path_pay (s : pstate) (off len : N) : pay :=
  mkPay aml_pOpIntNamePath 118 (p_handle s) name_zero off 0 (Some (VBytes (cur_tbl s) (mkSlice (Some off) len))).

Lemma simpleArg_name nm s g pl pre rest post (Q : option N * pres -> pstate -> Prop) :
  Rep (p_tree s) g pl -> g_free g = [] -> N.of_nat (length pl) < InvalidIndex ->
  at_token (p_r s) pre (enc_name nm ++ rest) post -> wf_name nm -> 1 <= name_slice_len nm ->
  (forall t', Rep t' (gnew g) (pl ++ [path_pay s (lenN pre) (name_slice_len nm)]) ->
     Q (Some (N.of_nat (length pl)), ROk)
       (with_tree (with_r s (set_offset_raw (p_r s) (lenN pre + lenN (enc_name nm)))) t')) ->
  wp False (parseSimpleArg aml_pArgTypeNameString) s Q.
Proof.
  intros H Hfree Hroom Hat Hwf Hlen K. rewrite simpleArg_name_eq.
  apply wp_bind. eapply (wp_newObj_rep False 0 0 s g pl); [exact H|exact Hfree|exact Hroom|discriminate| |reflexivity|].
  { left. lia. }
  intros t1 H1. unfold offsetM, rq. apply wp_bind, wp_get. scbn.
  apply wp_bind. eapply (wp_wrf_rep False _ _ (ys_off (r_offset (p_r s)))); [exact H1|apply pget_app_last|discriminate|apply st_amlOffset|].
  intros t2 H2. rewrite pupd_app_last in H2. unfold ys_off in H2; cbn [y_op y_info y_th y_name y_off y_pkgEnd y_val] in H2.
  rewrite (at_off _ _ _ _ Hat) in H2.
  unfold curTable. apply wp_bind, wp_get. scbn.
  apply wp_bind. eapply (wp_wrf_rep False _ _ (ys_opcode aml_pOpIntNamePath)); [exact H2|apply pget_app_last|discriminate|apply st_opcode; discriminate|].
  intros t3 H3. rewrite pupd_app_last in H3. unfold ys_opcode in H3; cbn [y_op y_info y_th y_name y_off y_pkgEnd y_val] in H3.
  apply wp_bind. apply wp_lex.
  exists (mkSlice (Some (lenN pre)) (name_slice_len nm)), true, (set_offset_raw (p_r s) (lenN pre + lenN (enc_name nm))). split.
  { apply (name_roundtrip nm (p_r s) pre (rest ++ post) Hwf). apply at_split. exact Hat. }
  cbv beta iota. unfold bytesValue. cbn [s_ptr].
  apply wp_bind. eapply (wp_wrf_rep False _ _ (ys_val _)); [exact H3|apply pget_app_last|discriminate|apply st_value|].
  intros t4 H4. rewrite pupd_app_last in H4. unfold ys_val in H4; cbn [y_op y_info y_th y_name y_off y_pkgEnd y_val] in H4.
  apply wp_bind. eapply wp_tableIndex; [reflexivity|].
  apply wp_bind. eapply (wp_wrf_rep False _ _ (ys_info _)); [exact H4|apply pget_app_last|discriminate|apply st_infoIndex|].
  intros t5 H5. rewrite pupd_app_last in H5. unfold ys_info in H5; cbn [y_op y_info y_th y_name y_off y_pkgEnd y_val] in H5.
  apply wp_ret. cbn [pres_of_bool]. apply K. exact H5.
Qed.

(** ---- the arguments of Name in the first pass ---- *)
Lemma parseArg_NameString f inf cur : parseArg (S f) inf cur aml_pArgTypeNameString = parseSimpleArg aml_pArgTypeNameString.
Proof. destruct inf as [[a b] c]. reflexivity. Qed.

Lemma parseArg_DataRef f inf cur s : p_allBlocks s = false ->
  parseArg (S f) inf cur aml_pArgTypeDataRefObj s = Ok ((None, RShort), s).
Proof.
  destruct inf as [[a b] c]. intros E.
  change (parseArg (S f) (a, b, c) cur aml_pArgTypeDataRefObj) with
    (mlet allBlocks <~ get p_allBlocks ;; if allBlocks then parseStrictTermArg f cur else ret (None, RShort)).
  unfold bindM, get. rewrite E. reflexivity.
Qed.

Definition name_inf : N * N * N := (aml_pOpName, 1, 3081).
Lemma name_info : opInfo 3 = Some name_inf. Proof. reflexivity. Qed.

Definition g_name (g : ghost) (sc : N) : ghost :=
  let n := N.of_nat (length (g_kids g)) in set_kids (gnew (g_head g sc)) n [n + 1].

Lemma len_g_head g sc : length (g_kids (g_head g sc)) = S (length (g_kids g)).
Proof. unfold g_head. rewrite len_set_kids, len_gnew. reflexivity. Qed.

Lemma free_g_head g sc : g_free (g_head g sc) = [].
Proof. reflexivity. Qed.

Lemma len_g_name g sc : length (g_kids (g_name g sc)) = S (S (length (g_kids g))).
Proof. unfold g_name. cbv zeta. rewrite len_set_kids, len_gnew, len_g_head. reflexivity. Qed.

Lemma free_g_name g sc : g_free (g_name g sc) = [].
Proof. reflexivity. Qed.

Lemma kids_g_head g sc i : sc < N.of_nat (length (g_kids g)) ->
  kids (g_head g sc) i = if i =? sc then kids g sc ++ [N.of_nat (length (g_kids g))] else kids g i.
Proof.
  intros Hsc. unfold g_head. rewrite kids_set_kids by (rewrite len_gnew; lia). rewrite kids_gnew. reflexivity.
Qed.

Lemma kids_g_name g sc i : sc < N.of_nat (length (g_kids g)) ->
  kids (g_name g sc) i =
  if i =? N.of_nat (length (g_kids g)) then [N.of_nat (length (g_kids g)) + 1]
  else if i =? sc then kids g sc ++ [N.of_nat (length (g_kids g))] else kids g i.
Proof.
  intros Hsc. unfold g_name. cbv zeta. rewrite kids_set_kids by (rewrite len_gnew, len_g_head; lia).
  rewrite kids_gnew, kids_g_head by exact Hsc. reflexivity.
Qed.

Definition seg_name (seg : N) : namestr := mkName false 0 false [seg].

Lemma enc_seg_name seg : enc_name (seg_name seg) = seg_bytes seg.
Proof.
  cbv [enc_name seg_name n_root n_carets n_segs n_multi]. change (lenN [seg]) with 1.
  change (N.to_nat 0) with 0%nat. change (2 <? 1) with false. change (1 =? 2) with false.
  cbn [repeat app orb flat_map]. apply app_nil_r.
Qed.

Definition lead_okb (b : N) : bool := ((0x41 <=? b) && (b <=? 0x5a)) || (b =? 0x5f).

Lemma wf_seg_name seg : lead_okb (seg_lead seg) = true -> wf_name (seg_name seg).
Proof.
  intros H. split; [cbn; lia|]. cbn [n_segs seg_name n_multi]. right. unfold lead_char. unfold lead_okb in H.
  apply orb_prop in H. destruct H as [H|H]; [left; apply andb_prop in H; destruct H; lia|right; lia].
Qed.

Lemma slice_seg_name seg : name_slice_len (seg_name seg) = 4.
Proof. unfold name_slice_len. cbn [n_segs seg_name]. rewrite enc_seg_name. reflexivity. Qed.

Lemma next_name f s g pl pre seg rest post sc scs a :
  Rep (p_tree s) g pl -> g_free g = [] -> N.of_nat (length pl) + 1 < InvalidIndex ->
  at_token (p_r s) pre (OP_NAME :: seg_bytes seg ++ rest) post -> lead_okb (seg_lead seg) = true ->
  p_scopeStack s = sc :: scs -> pget pl sc = Some a -> y_op a <> opFreed -> p_allBlocks s = false ->
  wp False (parseNextObject (S (S (S (S (S f)))))) s (fun res s' => res = ROk /\ exists t',
    s' = with_tree (with_r s (set_offset_raw (p_r s) (lenN pre + 5))) t' /\
    Rep t' (g_name g sc)
        (pl ++ [mkPay aml_pOpName 3 (p_handle s) name_zero (lenN pre) 0 None; path_pay s (lenN pre + 1) 4])).
Proof.
  intros H Hfree Hroom Hat Hlead Est Hsc Hlsc Hab.
  pose proof (rep_len_g _ _ _ H) as Hlg.
  assert (Hsclt : sc < N.of_nat (length pl)) by (eapply pget_lt; eauto).
  eapply (next_head _ aml_pOpName 3 s g pl pre (seg_bytes seg ++ rest) post sc scs a);
    [exact H|exact Hfree|lia|exact Hat| | discriminate|discriminate|reflexivity|exact Est|exact Hsc|exact Hlsc|].
  { split; [cbv; discriminate|]. exists 3. split; [reflexivity|discriminate]. }
  intros t1 H1. change (lenN (enc_op aml_pOpName)) with 1.
  set (s1 := with_tree (with_r s (set_offset_raw (p_r s) (lenN pre + 1))) t1).
  set (pl1 := pl ++ [mkPay aml_pOpName 3 (p_handle s) name_zero (lenN pre) 0 None]) in *.
  assert (Hl1 : length pl1 = S (length pl)) by (unfold pl1; rewrite app_length; cbn [length]; lia).
  assert (Hn : pget pl1 (N.of_nat (length pl)) = Some (mkPay aml_pOpName 3 (p_handle s) name_zero (lenN pre) 0 None))
    by apply pget_app_last.
  eapply (objargs_other _ _ _ name_inf s1 _ pl1); [exact H1|exact Hn|discriminate|reflexivity|reflexivity|].
  (* parseArgs, argument 0 *)
  unfold name_inf. cbn [parseArgs]. change (argCount 3081) with 2. change (2 =? 0) with false. change (2 <=? 0) with false. cbv iota.
  change (argType 3081 0) with aml_pArgTypeNameString. rewrite parseArg_NameString.
  assert (Hat1 : at_token (p_r s1) (pre ++ [OP_NAME]) (enc_name (seg_name seg) ++ rest) post).
  { rewrite enc_seg_name. apply (at_adv (p_r s) pre [OP_NAME] (seg_bytes seg ++ rest) post). exact Hat. }
  apply wp_bind.
  eapply (simpleArg_name (seg_name seg) s1 _ pl1 _ rest post); [exact H1|apply free_g_head|lia|exact Hat1|apply wf_seg_name; exact Hlead|rewrite slice_seg_name; lia|].
  intros t2 H2. cbv beta iota.
  rewrite slice_seg_name, enc_seg_name, lenN_app in *. change (lenN [OP_NAME]) with 1 in *. change (lenN (seg_bytes seg)) with 4.
  set (pl2 := pl1 ++ [path_pay s1 (lenN pre + 1) 4]) in *.
  assert (Hl2 : length pl2 = S (S (length pl))) by (unfold pl2; rewrite app_length; cbn [length]; lia).
  (* append the path to the Name object *)
  assert (Hlg1 : length (g_kids (gnew (g_head g sc))) = S (S (length pl))) by (rewrite len_gnew, len_g_head; lia).
  assert (Hlive_n : glive (gnew (g_head g sc)) (N.of_nat (length pl))).
  { split; [rewrite Hlg1; lia|cbn; tauto]. }
  assert (Hlive_p : glive (gnew (g_head g sc)) (N.of_nat (length pl1))).
  { split; [rewrite Hlg1; lia|cbn; tauto]. }
  assert (Hkn : kids (g_head g sc) (N.of_nat (length pl)) = []).
  { rewrite kids_g_head by lia. destruct (N.eqb_spec (N.of_nat (length pl)) sc); [lia|]. apply kids_oob. lia. }
  apply wp_bind. eapply wp_append_rep; [exact H2|exact Hlive_n|exact Hlive_p| | |].
  { replace (N.of_nat (length pl1)) with (N.of_nat (length (g_kids (g_head g sc)))) by (rewrite len_g_head; lia).
    eapply groot_fresh. apply (rep_R _ _ _ H1). }
  { intros Hd. apply desc_leaf in Hd; [lia|]. rewrite kids_gnew. apply kids_oob. rewrite len_g_head. lia. }
  intros t3 H3. rewrite kids_gnew, Hkn in H3. cbn [app] in H3.
  change (pres_eqb ROk ROk) with true. cbv iota.
  (* argument 1: left to the next parseNextObject *)
  change (w8 (0 + 1)) with 1. cbn [parseArgs]. change (argCount 3081) with 2. change (2 =? 0) with false. change (2 <=? 1) with false. cbv iota.
  change (argType 3081 1) with aml_pArgTypeDataRefObj.
  apply wp_bind. eapply wp_of_run; [apply parseArg_DataRef; exact Hab|]. cbv beta iota.
  apply wp_bind. apply wp_ret. change (pres_eqb RShort ROk) with false. cbv iota. apply wp_ret.
  split; [reflexivity|]. exists t3. split.
  - unfold s1. replace (lenN pre + 1 + 4) with (lenN pre + 5) by lia. reflexivity.
  - unfold g_name. cbv zeta. rewrite Hlg. replace (N.of_nat (length pl) + 1) with (N.of_nat (length pl1)) by lia.
    unfold pl2, pl1 in H3. rewrite <- app_assoc in H3. exact H3.
Qed.

(** ---- integer constants ---- *)
Definition prefix_bytes (op : N) : option nat :=
  if op =? aml_pOpBytePrefix then Some 1%nat else if op =? aml_pOpWordPrefix then Some 2%nat
  else if op =? aml_pOpDwordPrefix then Some 4%nat else if op =? aml_pOpQwordPrefix then Some 8%nat else None.

Lemma objargs_num f cur a k s g pl pre v rest post (Q : pres -> pstate -> Prop) :
  Rep (p_tree s) g pl -> pget pl cur = Some a -> y_op a <> opFreed -> prefix_bytes (y_op a) = Some k ->
  at_token (p_r s) pre (Grammar.le_bytes k v ++ rest) post -> v < 2 ^ (N.of_nat k * 8) ->
  (forall t', Rep t' g (pupd pl cur (ys_val (Some (VNum v)))) ->
      Q ROk (with_tree (with_r s (set_offset_raw (p_r s) (lenN pre + N.of_nat k))) t')) ->
  wp False (parseObjectArgs (S f) cur) s Q.
Proof.
  intros H Ha Hl Hk Hat Hv K. cbn [parseObjectArgs].
  apply wp_bind. eapply wp_rdf_rep; [exact H|exact Ha|exact Hl|]. intros o Ho _ _ _. rewrite (pay_op _ _ Ho).
  unfold curTable. apply wp_bind, wp_get.
  assert (Hk8 : (k <= 8)%nat).
  { unfold prefix_bytes in Hk. repeat match type of Hk with (if ?c then _ else _) = _ => destruct c end; inversion Hk; lia. }
  assert (Hlex : parseNumConstant (N.of_nat k) (p_r s) = Ok (v, true, set_offset_raw (p_r s) (lenN pre + N.of_nat k))).
  { apply (num_roundtrip k v (p_r s) pre (rest ++ post) Hk8 Hv). apply at_split. exact Hat. }
  assert (Hfin : wp False (mlet '(v0, ok) <~ lex (parseNumConstant (N.of_nat k)) ;; wrf cur (set_value (Some (VNum v0))) ;;; ret (pres_of_bool ok)) s
                   (fun res s' => Q (match res with RShort => ROk | r => r end) s')).
  { apply wp_bind. apply wp_lex. exists v, true, (set_offset_raw (p_r s) (lenN pre + N.of_nat k)). split; [exact Hlex|].
    cbv beta iota. apply wp_bind. eapply (wp_wrf_rep False _ _ (ys_val _)); [exact H|exact Ha|exact Hl|apply st_value|].
    intros t' H'. apply wp_ret. cbn [pres_of_bool]. apply K. exact H'. }
  apply wp_bind. unfold prefix_bytes in Hk.
  destruct (y_op a =? aml_pOpBytePrefix); [inversion Hk; subst k; eapply wp_conseq; [exact Hfin|intros r s' HQ; apply wp_ret; exact HQ]|].
  destruct (y_op a =? aml_pOpWordPrefix); [inversion Hk; subst k; eapply wp_conseq; [exact Hfin|intros r s' HQ; apply wp_ret; exact HQ]|].
  destruct (y_op a =? aml_pOpDwordPrefix); [inversion Hk; subst k; eapply wp_conseq; [exact Hfin|intros r s' HQ; apply wp_ret; exact HQ]|].
  destruct (y_op a =? aml_pOpQwordPrefix); [inversion Hk; subst k; eapply wp_conseq; [exact Hfin|intros r s' HQ; apply wp_ret; exact HQ]|].
  discriminate.
Qed.

Definition is_constb (op : N) : bool :=
  (op =? aml_pOpZero) || (op =? aml_pOpOne) || (op =? aml_pOpOnes) || (op =? OP_BYTE) || (op =? OP_WORD) || (op =? OP_DWORD) || (op =? OP_QWORD).

Definition const_info (op : N) : N := match opcodeTableIndex op true with Some i => i | None => 0 end.

Definition const_val (op v : N) : option value := match const_bytes op with O => None | _ => Some (VNum v) end.

Definition const_pay (s : pstate) (off op v : N) : pay :=
  mkPay op (const_info op) (p_handle s) name_zero off 0 (const_val op v).

Lemma is_constb_cases op : is_constb op = true ->
  op = aml_pOpZero \/ op = aml_pOpOne \/ op = aml_pOpOnes \/ op = OP_BYTE \/ op = OP_WORD \/ op = OP_DWORD \/ op = OP_QWORD.
Proof.
  unfold is_constb. intros H. repeat (apply orb_prop in H; destruct H as [H|H]); apply N.eqb_eq in H; tauto.
Qed.

Lemma next_const f s g pl pre op v rest post sc scs a :
  Rep (p_tree s) g pl -> g_free g = [] -> N.of_nat (length pl) < InvalidIndex ->
  at_token (p_r s) pre (enc_op op ++ Grammar.le_bytes (const_bytes op) v ++ rest) post -> is_constb op = true ->
  v < 2 ^ (N.of_nat (const_bytes op) * 8) ->
  p_scopeStack s = sc :: scs -> pget pl sc = Some a -> y_op a <> opFreed ->
  wp False (parseNextObject (S (S (S f)))) s (fun res s' => res = ROk /\ exists t',
    s' = with_tree (with_r s (set_offset_raw (p_r s) (lenN pre + lenN (enc_op op) + N.of_nat (const_bytes op)))) t' /\
    Rep t' (g_head g sc) (pl ++ [const_pay s (lenN pre) op v])).
Proof.
  intros H Hfree Hroom Hat Hc Hv Est Hsc Hlsc.
  assert (Hops : valid_opcode op /\ op <> aml_pOpNoop /\ op <> opFreed /\ opcodeTableIndex op true = Some (const_info op)).
  { destruct (is_constb_cases _ Hc) as [E|[E|[E|[E|[E|[E|E]]]]]]; subst op;
      (split; [split; [cbv; discriminate|eexists; split; [reflexivity|discriminate]]|split; [discriminate|split; [discriminate|reflexivity]]]). }
  destruct Hops as (Hvalid & Hnoop & Hnf & Hidx).
  eapply (next_head _ op (const_info op) s g pl pre _ post sc scs a);
    [exact H|exact Hfree|exact Hroom|exact Hat|exact Hvalid|exact Hnoop|exact Hnf|exact Hidx|exact Est|exact Hsc|exact Hlsc|].
  intros t1 H1.
  set (s1 := with_tree (with_r s (set_offset_raw (p_r s) (lenN pre + lenN (enc_op op)))) t1).
  set (a1 := mkPay op (const_info op) (p_handle s) name_zero (lenN pre) 0 None) in *.
  assert (Hn : pget (pl ++ [a1]) (N.of_nat (length pl)) = Some a1) by apply pget_app_last.
  assert (Hat1 : at_token (p_r s1) (pre ++ enc_op op) (Grammar.le_bytes (const_bytes op) v ++ rest) post).
  { apply (at_adv (p_r s) pre (enc_op op) _ post). exact Hat. }
  destruct (prefix_bytes op) as [k|] eqn:Ek.
  - (* a data prefix *)
    assert (Hk : const_bytes op = k).
    { destruct (is_constb_cases _ Hc) as [E|[E|[E|[E|[E|[E|E]]]]]]; subst op; cbv in Ek; inversion Ek; reflexivity. }
    rewrite Hk in *.
    eapply (objargs_num _ _ a1 k s1 _ _ _ v rest post); [exact H1|exact Hn|exact Hnf|exact Ek|exact Hat1|exact Hv|].
    intros t2 H2. split; [reflexivity|]. exists t2. split.
    + unfold s1. rewrite lenN_app. reflexivity.
    + rewrite pupd_app_last in H2. unfold const_pay, const_val. rewrite Hk.
      assert (Hk0 : k <> 0%nat).
      { destruct (is_constb_cases _ Hc) as [E|[E|[E|[E|[E|[E|E]]]]]]; subst op; cbv in Ek; inversion Ek; lia. }
      destruct k; [congruence|]. exact H2.
  - (* Zero / One / Ones *)
    assert (Hk : const_bytes op = 0%nat /\ is_prefix_op op = false /\ opInfo (const_info op) = Some (op, 2, 0)).
    { destruct (is_constb_cases _ Hc) as [E|[E|[E|[E|[E|[E|E]]]]]]; subst op; cbv in Ek; try discriminate; repeat split; reflexivity. }
    destruct Hk as (Hk & Hnp & Hinf).
    eapply (objargs_other _ _ a1 (op, 2, 0) s1 _ _); [exact H1|exact Hn|exact Hnf|exact Hnp|exact Hinf|].
    cbn [parseArgs]. change (argCount 0) with 0. change (0 =? 0) with true. cbv iota. apply wp_ret.
    split; [reflexivity|]. exists t1. split.
    + unfold s1. rewrite Hk. rewrite N.add_0_r. reflexivity.
    + unfold const_pay, const_val. rewrite Hk. exact H1.
Qed.
