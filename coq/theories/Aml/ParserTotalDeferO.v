From Coq Require Import NArith Arith List Bool Lia.
From Coq Require Import ZifyBool ZifyN ZifyNat.
From FF Require Import Lib.Word Gen.Consts_device_acpi_aml Gen.Consts_aml_tree Aml.Stream Aml.Lex Aml.LexProofs
  Aml.Tree Aml.Parser Aml.ParserProofs Aml.TreeSpec Aml.TreeProofs Aml.TreeProofsOps Aml.TreeProofsFind Aml.TreeProofsAnc
  Aml.ParserTotalTree Aml.ParserTotalTree2 Aml.ParserTotalLex Aml.ParserTotalTable Aml.ParserTotalBase Aml.ParserTotalLeaf
  Aml.ParserTotalFrame Aml.ParserTotalLeaf2 Aml.ParserTotalFirst Aml.ParserTotalConn Aml.ParserTotalReloc Aml.ParserTotalDefer
  Aml.ParserTotalDeferS Aml.ParserTotalDeferA Aml.ParserTotalDeferG.
Import ListNotations.
Local Open Scope N_scope.

Section StepO.
Variable tbls : list (list N).
Notation IV := (Inv tbls).
Notation FD := (FIm true).

(** the postcondition of parseObjectArgs *)
Definition ObjPost (curObj : N) (s : pstate) (g : ghost) (res : pres) (s' : pstate) : Prop :=
  exists g', FD s' g' /\ ExtD s g s' g' /\
    Fr (eq curObj) (eq curObj) (fun y => hasfl s curObj /\ In curObj (kids g y)) s g s' g' /\
    finsert s' g g' curObj /\ Psi s' <= Psi s + 3 /\ res <> RShort /\
    (res = ROk -> Psi s' <= Psi s + 1 /\ TM NoX s' g' /\ p_scopeStack s' = p_scopeStack s).

(** a prefix object: its value is read; nothing else changes *)
Lemma objargs_value curObj s g r1 v co (res : pres) :
  FD s g -> glive g curObj -> adv (p_r s) r1 -> tget (p_tree s) curObj = Some co -> o_opcode co <> aml_pOpMethod ->
  TM (eq curObj) s g -> nota1 s g curObj -> res <> RShort ->
  FD (with_tree (with_r s r1) (tset (p_tree (with_r s r1)) curObj (set_value v))) g ->
  ObjPost curObj s g res (with_tree (with_r s r1) (tset (p_tree (with_r s r1)) curObj (set_value v))).
Proof.
  intros H Hl Hadv Hco Hnm HTM Hn1 Hrs H'. pose proof (fi_rok _ _ H) as Hrok.
  set (s' := with_tree (with_r s r1) (tset (p_tree (with_r s r1)) curObj (set_value v))) in *.
  assert (A : at_ s s' 0 0) by (apply at_tset; apply at_adv0; [apply at_refl; exact Hrok|exact Hadv]).
  pose proof (at_Psi _ _ _ _ A) as P.
  exists g. split; [exact H'|]. split; [eapply at_ExtD; [exact A|apply gext_refl]|].
  split.
  { apply (Fr_tset_value (eq curObj) (eq curObj) _ s g (with_r s r1) g curObj v); [|reflexivity].
    eapply Fr_tree_eq; [apply Fr_refl|reflexivity]. }
  split; [apply finsert_refl|]. split; [lia|]. split; [exact Hrs|].
  intros _. split; [lia|]. split; [|destruct A as (_ & _ & _ & _ & A5 & _); exact A5].
  intros m mo Hm Hop _.
  assert (Hmc : m <> curObj).
  { intros ->. unfold s' in Hm. pcbn_in Hm. rewrite get_tset, N.eqb_refl, Hco in Hm. cbn [option_map] in Hm.
    inversion Hm; subst mo. cbn [o_opcode set_value] in Hop. contradiction. }
  assert (Hm0 : tget (p_tree s) m = Some mo).
  { unfold s' in Hm. pcbn_in Hm. rewrite get_tset in Hm. apply N.eqb_neq in Hmc. rewrite Hmc in Hm. exact Hm. }
  destruct (HTM m mo Hm0 Hop (fun E => Hmc (eq_sym E))) as (a0 & a1 & rest & a0o & a1o & vv & Hk & Ha0 & Hn0 & Ha1 & Hv & Hn1' & Hmx).
  assert (Ha1c : a1 <> curObj) by (apply (Hn1 m mo a0 a1 rest Hm0 Hop Hk)).
  assert (Hget : forall i o, tget (p_tree s) i = Some o -> exists o', tget (p_tree s') i = Some o' /\ pnv o o' /\ (i <> curObj -> o' = o)).
  { intros i o Ho. unfold s'. pcbn. rewrite get_tset, Ho. cbn [option_map]. destruct (N.eqb_spec i curObj) as [->|Hne].
    - eexists. split; [reflexivity|]. split; [unfold pnv; cbn [set_value o_opcode o_infoIndex o_tableHandle o_name o_index o_amlOffset o_pkgEnd]; tauto|]. intros F; contradiction.
    - exists o. split; [reflexivity|]. split; [apply pnv_refl|auto]. }
  destruct (Hget a0 a0o Ha0) as (a0o' & Ha0' & E0 & _). destruct (Hget a1 a1o Ha1) as (a1o' & Ha1' & E1 & E1').
  rewrite (E1' Ha1c) in Ha1'.
  exists a0, a1, rest, a0o', a1o, vv. split; [exact Hk|]. split; [exact Ha0'|]. split; [eapply nodefer_pnv; eauto|].
  split; [exact Ha1'|]. split; [exact Hv|]. split; [exact Hn1'|]. apply (mx_pnv g g a0 a0o a0o' a1o a1o E0 (pnv_refl _) eq_refl Hmx).
Qed.

Lemma prefix_not_method op : op = aml_pOpBytePrefix \/ op = aml_pOpWordPrefix \/ op = aml_pOpDwordPrefix \/ op = aml_pOpQwordPrefix \/ op = aml_pOpStringPrefix ->
  op <> aml_pOpMethod.
Proof. intros [->|[->|[->|[->| ->]]]]; discriminate. Qed.

Lemma step_Dobjargs fuel : D_args tbls fuel -> D_objargs tbls (S fuel).
Proof.
  intros IHa curObj s g H I0 H0 Hl Hroom HTM Hmb Hflp Hn1.
  assert (K : wp True (parseObjectArgs (S fuel) curObj) s (ObjPost curObj s g)); [|exact K].
  cbn [parseObjectArgs]. pose proof (fi_rok _ _ H) as Hrok.
  destruct (FI_live_get _ _ _ H Hl) as (co & Hco & Hlco).
  apply wp_bind. apply wp_rdf. exists co. split; [exact Hco|].
  apply wp_bind, wp_get.
  (* the prefix objects *)
  assert (Hnum : forall k, o_opcode co <> aml_pOpMethod ->
     wp True (mlet '(v, ok) <~ lex (parseNumConstant k) ;; wrf curObj (set_value (Some (VNum v))) ;;; ret (pres_of_bool ok)) s
       (fun res s' => wp True (ret match res with RShort => ROk | r => r end) s' (ObjPost curObj s g))).
  { intros k Hnm. apply wp_bind. apply wp_num; [exact Hrok|]. intros v ok r1 Hadv _.
    assert (H1 : FD (with_r s r1) g) by (apply FI_adv; auto).
    wwrf H1 Hl. intros o2 Hg2 Hlo2 H2. apply wp_ret. apply wp_ret.
    apply (objargs_value curObj s g r1 (Some (VNum v)) co); auto. destruct ok; discriminate. }
  apply wp_bind.
  destruct (N.eqb_spec (o_opcode co) aml_pOpBytePrefix) as [E1|E1]; [apply Hnum; apply prefix_not_method; auto|].
  destruct (N.eqb_spec (o_opcode co) aml_pOpWordPrefix) as [E2|E2]; [apply Hnum; apply prefix_not_method; auto|].
  destruct (N.eqb_spec (o_opcode co) aml_pOpDwordPrefix) as [E3|E3]; [apply Hnum; apply prefix_not_method; auto 6|].
  destruct (N.eqb_spec (o_opcode co) aml_pOpQwordPrefix) as [E4|E4]; [apply Hnum; apply prefix_not_method; auto 6|].
  destruct (N.eqb_spec (o_opcode co) aml_pOpStringPrefix) as [E5|E5].
  { apply wp_bind. apply wp_string; [exact Hrok|]. intros v ok r1 Hadv _.
    assert (H1 : FD (with_r s r1) g) by (apply FI_adv; auto).
    wwrf H1 Hl. intros o2 Hg2 Hlo2 H2. apply wp_ret. apply wp_ret.
    apply (objargs_value curObj s g r1 _ co); auto; [apply prefix_not_method; auto 6|destruct ok; discriminate]. }
  (* the general case *)
  apply wp_bind. apply wp_rdf. exists co. split; [exact Hco|].
  pose proof (fi_info _ _ H _ _ Hco Hlco) as Hinfo.
  destruct (opInfo (o_infoIndex co)) as [[[op fl] af]|] eqn:Erow; [|contradiction].
  apply wp_bind. eapply wp_info; [exact Erow|].
  assert (Hhf : has_fl af <-> hasfl s curObj).
  { split.
    - intros Hf. exists co, op, fl, af. auto.
    - intros (co' & op' & fl' & af' & Hco' & Hrow' & Hf). assert (co' = co) by congruence. subst co'. rewrite Erow in Hrow'. inversion Hrow'; subst. exact Hf. }
  eapply wp_weaken; [apply (IHa (o_infoIndex co) op fl af curObj 0 s g H I0 H0 Hl Erow)| |].
  - lia.
  - destruct (cntu_01 af 0) as [E|E]; rewrite E; unfold roomD in *; lia.
  - intros Hf. apply Hflp. apply Hhf. exact Hf.
  - intros co' Hco'. congruence.
  - intros _ Hfl0. exfalso. destruct (fieldlist_after_bytedata _ _ _ _ 0 Erow) as (Hc & _); [lia|exact Hfl0|lia].
  - exact HTM.
  - intros co' Hco' Hop'. assert (co' = co) by congruence. subst co'.
    destruct (Hmb co Hco Hop') as [Ht|(Eii & Hk0)]; [left; exact Ht|right].
    destruct method_row as (_ & Er & _). rewrite Eii, Er in Erow. inversion Erow; subst. split; [reflexivity|]. left. split; [lia|exact Hk0].
  - auto.
  - intros res s' (g' & F1 & F2 & F3 & F4 & F5 & F6). apply wp_ret. exists g'. split; [exact F1|]. split; [exact F2|].
    split.
    { eapply Fr_weaken; [| | |exact F3]; auto.
      - intros i _ [].
      - intros y _ (Hf & Hin). split; [apply Hhf; exact Hf|exact Hin]. }
    split; [exact F4|]. split; [exact F5|]. split; [destruct res; discriminate|].
    intros Hr. assert (Hok : okres res) by (destruct res; try discriminate; [left|right]; reflexivity).
    destruct (F6 Hok) as (L1 & L2 & L3). split; [destruct (cntu_01 af 0) as [E|E]; rewrite E in L1; lia|]. split; [exact L2|exact L3].
Qed.

End StepO.
