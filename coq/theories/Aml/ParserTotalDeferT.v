From Coq Require Import NArith Arith List Bool Lia.
From Coq Require Import ZifyBool ZifyN ZifyNat.
From FF Require Import Lib.Word Gen.Consts_device_acpi_aml Gen.Consts_aml_tree Aml.Stream Aml.Lex Aml.LexProofs
  Aml.Tree Aml.Parser Aml.ParserProofs Aml.TreeSpec Aml.TreeProofs Aml.TreeProofsOps Aml.TreeProofsFind Aml.TreeProofsAnc
  Aml.ParserTotalTree Aml.ParserTotalTree2 Aml.ParserTotalLex Aml.ParserTotalTable Aml.ParserTotalBase Aml.ParserTotalLeaf
  Aml.ParserTotalFrame Aml.ParserTotalLeaf2 Aml.ParserTotalFirst Aml.ParserTotalConn Aml.ParserTotalDefer.
Import ListNotations.
Local Open Scope N_scope.

Section StepT.
Variable tbls : list (list N).
Notation IV := (Inv tbls).
Notation FD := (FIm true).

Ltac wwrfI I H Hl :=
  wbi tbls I; eapply (wrf_step _ _ _ _ _ _ H Hl);
  [ let o := fresh "o" in let Ho := fresh "Ho" in intros o Ho; lk_tac
  | let o := fresh "o" in let Ho := fresh "Ho" in let Hi := fresh "Hi" in intros o Ho Hi; info_tac
  | ].

Lemma target_not_method op : target_cond op = true -> op <> aml_pOpMethod.
Proof. intros H ->. vm_compute in H. discriminate. Qed.

Lemma step_Dtarget fuel : D_objargs tbls fuel -> D_target tbls (S fuel).
Proof.
  intros IHo s g H I0 H0 Hroom HTM. cbn [parseTarget].
  pose proof (fi_rok _ _ H) as Hrok. pose proof (roomD_lp _ _ Hroom) as Hlp.
  pose proof (R_gwf _ _ (fi_R _ _ H)) as Hwf.
  wbi tbls I0. apply wp_get. intros _.
  wbi tbls I0. apply wp_nextop; auto. intros nextOp ok r1 Hadv Hok Hnok I1.
  assert (H1 : FD (with_r s r1) g) by (apply FI_adv; auto).
  assert (F1 : Fr NoP NoP NoP s g (with_r s r1) g) by (eapply Fr_tree_eq; [apply Fr_refl|reflexivity]).
  destruct ok.
  - destruct (Hok eq_refl) as (Hlt & Hop & idx & Hidx & Hbad). clear Hok Hnok.
    assert (A1 : at_ s (with_r s r1) 1 0).
    { eapply at_r; [apply at_refl; auto|destruct Hadv as ((_ & E & _) & _); exact E|lia|destruct Hadv as (_ & _ & L); exact L]. }
    pose proof (at_Psi _ _ _ _ A1) as P1.
    destruct (nextOp =? aml_pOpZero).
    { apply wp_ret. exists g. split; [exact H1|]. split; [eapply at_ExtD; [exact A1|apply gext_refl]|]. split; [exact F1|].
      split; [exact I|]. split; [lia|]. split; [discriminate|]. intros _. split; [lia|]. split; [|reflexivity].
      eapply TM_tree_eq; [exact HTM|reflexivity]. }
    change (isArg nextOp || (nextOp =? aml_pOpRefOf) || (nextOp =? aml_pOpDerefOf) || (nextOp =? aml_pOpIndex) || (nextOp =? aml_pOpDebug))
      with (target_cond nextOp).
    destruct (target_cond nextOp) eqn:Etc.
    2:{ apply wp_ret. exists g. split; [exact H1|]. split; [eapply at_ExtD; [exact A1|apply gext_refl]|]. split; [exact F1|].
        split; [exact I|]. split; [lia|]. split; [discriminate|]. intros E; discriminate. }
    destruct (valid_op _ _ Hop Hidx Hbad) as (Hnk & Hidx').
    wbi tbls I1. eapply new_step2; [exact H1|exact Hnk| |].
    { unfold lp in *. pcbn. lia. }
    intros p t2 g2 po H2 Hext2 Hfresh2 Hlive2 Hroot2 Hkids2 Hpo Hpop Hpval Hpidx Hl2 Hfw2 Hks2 Hlv2 I2.
    set (s2 := with_tree (with_r s r1) t2) in *.
    assert (F2 : Fr NoP NoP NoP s g s2 g2) by (apply (Fr_new NoP NoP NoP s g (with_r s r1) g t2 g2 p F1 (fun x Hx => Hx) Hfresh2 Hfw2 Hks2)).
    assert (A2 : at_ s s2 1 1) by (eapply at_new'; [exact A1|exact Hl2|reflexivity]).
    wwrfI I2 H2 Hlive2. intros o3 Hg3 Hlo3 H3 I3.
    match type of H3 with FIm true ?st _ => set (s3 := st) in * end.
    assert (F3 : Fr NoP NoP NoP s g s3 g2) by (apply Fr_tset_fresh; [exact F2|exact Hfresh2]).
    assert (A3 : at_ s s3 1 1) by (apply at_tset; exact A2).
    pose proof (at_Psi _ _ _ _ A3) as P3.
    assert (o3 = po) by (assert (Hx : tget t2 p = Some o3) by exact Hg3; congruence). subst o3.
    assert (Hg3' : tget (p_tree s3) p = Some (set_amlOffset (r_offset (p_r s)) po)).
    { unfold s3, s2. pcbn. rewrite get_tset, N.eqb_refl. assert (Hx : tget t2 p = Some po) by exact Hpo. rewrite Hx. reflexivity. }
    assert (HTM3 : TM (eq p) s3 g2).
    { eapply (TM_frame2 NoX (eq p) NoP NoP NoP s g s3 g2 Hwf (fi_R _ _ H) HTM F3); try (intros; contradiction); try apply Eok_NoP.
      intros m mo Hm Hmop Hnl. left.
      assert (Hl2m : glive g2 m) by (apply (R_live_glive _ _ (fi_R _ _ H3)); exists mo; split; [exact Hm|rewrite Hmop; discriminate]).
      destruct (Hlv2 m Hl2m) as [F|F]; [contradiction|symmetry; exact F]. }
    wbi tbls I3.
    eapply wp_weaken; [apply (IHo p s3 g2 H3 I3 (ge_live _ _ Hext2 _ H0) Hlive2)| |].
    + unfold roomD in *. lia.
    + exact HTM3.
    + intros co Hco Hcop. exfalso. rewrite Hg3' in Hco. inversion Hco; subst co.
      cbn [o_opcode set_amlOffset] in Hcop. rewrite Hpop in Hcop. exact (target_not_method _ Etc Hcop).
    + intros (co & op' & fl & af & Hco & Hinfo & (k & Hk & Hfl)). exfalso.
      rewrite Hg3' in Hco. inversion Hco; subst co. cbn [o_infoIndex set_amlOffset] in Hinfo.
      rewrite Hidx' in Hpidx. inversion Hpidx as [Hii].
      eapply (target_no_fieldlist nextOp idx op' fl af k); eauto. rewrite Hii. exact Hinfo.
    + intros m mo a0 a1 rest Hm Hmop Hk E. subst a1. apply (Hroot2 m). rewrite Hk. right. left. reflexivity.
    + auto.
    + intros res s' (g' & G1 & G2 & G3 & G4 & G5 & G6 & G7) I4.
      apply wp_ret. exists g'. split; [exact G1|].
      split; [eapply ExtD_trans; [eapply at_ExtD; [exact A3|exact Hext2]|exact G2]|].
      split.
      { eapply Fr_trans; [exact F3|exact G3|apply (ge_live _ _ Hext2)| | |].
        - intros i Hi E. subst i. contradiction.
        - intros y Hy E. subst y. contradiction.
        - intros y Hy (_ & Hin). exfalso. exact (Hroot2 y Hin). }
      split.
      { cbn [fresh_root]. split; [exact Hfresh2|]. split; [apply (ge_live _ _ (xd_g _ _ _ _ G2)); exact Hlive2|].
        eapply groot_ext; [apply (xd_g _ _ _ _ G2)|exact Hlive2|exact Hroot2]. }
      split; [lia|]. split; [exact G6|].
      intros Hr. destruct (G7 Hr) as (K1 & K2 & K3). split; [lia|]. split; [exact K2|].
      rewrite K3. destruct A3 as (_ & _ & _ & _ & A5 & _). exact A5.
  - destruct (Hnok eq_refl) as (Ho1 & _). clear Hok Hnok.
    wbi tbls I1. apply wp_ru. intros I2.
    destruct (rok_setOffset r1 (r_offset (p_r s)) (fi_rok _ _ H1)) as (Hrok2 & Hlen2).
    set (r2 := setOffset (p_r (with_r s r1)) (r_offset (p_r s))) in *.
    assert (Eo2 : r_offset r2 = r_offset (p_r s)).
    { unfold r2. apply setOffset_noclamp. pcbn. destruct Hadv as ((_ & E & _) & _). rewrite E. destruct Hrok as (_ & _ & O). exact O. }
    assert (H2 : FD (with_r (with_r s r1) r2) g) by (apply FI_with_r; auto).
    assert (F2 : Fr NoP NoP NoP s g (with_r (with_r s r1) r2) g) by (eapply Fr_tree_eq; [apply Fr_refl|reflexivity]).
    assert (A2 : at_ s (with_r (with_r s r1) r2) 0 0).
    { eapply at_r; [apply at_adv0; [apply at_refl; auto|exact Hadv]|exact Hlen2|lia|destruct Hrok2 as (_ & _ & O); exact O]. }
    wbi tbls I2. eapply new_step2; [exact H2|apply (newokb_sound aml_pOpIntNamePath eq_refl)| |].
    { unfold lp in *. pcbn. lia. }
    intros p t3 g3 po H3 Hext3 Hfresh3 Hlive3 Hroot3 Hkids3 Hpo Hpop _ _ Hl3 Hfw3 Hks3 Hlv3 I3.
    set (s3 := with_tree (with_r (with_r s r1) r2) t3) in *.
    assert (F3 : Fr NoP NoP NoP s g s3 g3) by (apply (Fr_new NoP NoP NoP s g _ g t3 g3 p F2 (fun x Hx => Hx) Hfresh3 Hfw3 Hks3)).
    assert (A3 : at_ s s3 0 1) by (eapply at_new'; [exact A2|exact Hl3|reflexivity]).
    wwrfI I3 H3 Hlive3. intros o4 Hg4 Hlo4 H4 I4.
    match type of H4 with FIm true ?st _ => set (s4 := st) in * end.
    assert (F4 : Fr NoP NoP NoP s g s4 g3) by (apply Fr_tset_fresh; [exact F3|exact Hfresh3]).
    assert (A4 : at_ s s4 0 1) by (apply at_tset; exact A3).
    assert (o4 = po) by (assert (Hx : tget t3 p = Some o4) by exact Hg4; congruence). subst o4.
    wbi tbls I4. apply wp_get. intros _.
    apply (wp_bind_hoare tbls _ _ _ _ _ (fun x => slice_ok tbls (cur tbls) (fst x)) I4);
      [apply hoare_lex_slice; [apply safe2_parseNameString|right; reflexivity]|].
    apply wp_namestring; [apply (fi_rok _ _ H4)|]. intros v ok2 r5 Hadv5 Hok5 I5 Hsl. cbn [fst] in Hsl.
    assert (H5 : FD (with_r s4 r5) g3) by (apply FI_adv; auto).
    assert (F5 : Fr NoP NoP NoP s g (with_r s4 r5) g3) by (eapply Fr_tree_eq; [exact F4|reflexivity]).
    apply (wp_bind_inv tbls _ _ _ _ _ I5).
    { apply hoare_wrf. apply keeps_set_value. apply value_ok_bytes.
      replace (N.of_nat (length (p_tables s4)) - 1) with (cur tbls); [exact Hsl|].
      unfold cur. rewrite <- (inv_tbls _ _ I4). reflexivity. }
    eapply (wrf_step _ _ _ _ _ _ H5 Hlive3); [intros o Ho; lk_tac|intros o Ho Hi; info_tac|].
    intros o6 Hg6 Hlo6 H6 I6.
    match type of H6 with FIm true ?st _ => set (s6 := st) in * end.
    assert (F6 : Fr NoP NoP NoP s g s6 g3) by (apply Fr_tset_fresh; [exact F5|exact Hfresh3]).
    assert (Hg6' : exists o6', tget (p_tree s6) p = Some o6' /\ o_opcode o6' = aml_pOpIntNamePath).
    { unfold s6, s4, s3. pcbn. rewrite !get_tset, !N.eqb_refl. assert (Hy : tget t3 p = Some po) by exact Hpo.
      rewrite Hy. cbn [option_map]. eexists. split; [reflexivity|]. cbn [o_opcode set_value set_amlOffset]. exact Hpop. }
    assert (HTM6 : TM NoX s6 g3).
    { eapply (TM_frame2 NoX NoX NoP NoP NoP s g s6 g3 Hwf (fi_R _ _ H) HTM F6); try (intros; contradiction); try apply Eok_NoP.
      intros m mo Hm Hmop Hnl. exfalso.
      assert (Hl3m : glive g3 m) by (apply (R_live_glive _ _ (fi_R _ _ H6)); exists mo; split; [exact Hm|rewrite Hmop; discriminate]).
      destruct (Hlv3 m Hl3m) as [F|F]; [contradiction|]. subst m. destruct Hg6' as (o6' & Ho6' & Eop).
      assert (o6' = mo) by congruence. subst. rewrite Hmop in Eop. discriminate. }
    apply wp_ret. exists g3. split; [exact H6|].
    destruct ok2.
    + specialize (Hok5 eq_refl).
      assert (A6 : at_ s s6 1 1).
      { apply at_tset. replace 1 with (0 + 1) at 1 by reflexivity. apply at_adv; [exact A4|exact Hadv5|lia]. }
      pose proof (at_Psi _ _ _ _ A6) as P6.
      split; [eapply at_ExtD; [exact A6|exact Hext3]|]. split; [exact F6|].
      split; [cbn [fresh_root]; auto|]. split; [lia|]. split; [discriminate|].
      intros _. split; [lia|]. split; [exact HTM6|]. destruct A6 as (_ & _ & _ & _ & A5 & _). exact A5.
    + assert (A6 : at_ s s6 0 1) by (apply at_tset; apply at_adv0; [exact A4|exact Hadv5]).
      pose proof (at_Psi _ _ _ _ A6) as P6.
      split; [eapply at_ExtD; [exact A6|exact Hext3]|]. split; [exact F6|].
      split; [cbn [fresh_root]; auto|]. split; [lia|]. split; [discriminate|]. intros E; discriminate.
Qed.
End StepT.
