(** C11 (fragment proofs): the argument loop of the first pass, argument by argument, for named objects whose
    arguments are [PkgLength] NameString (Byte|Word|DWord data)* [TermList]. *)
From Coq Require Import NArith ZArith Arith List Bool Lia.
From Coq Require Import ZifyBool ZifyN ZifyNat.
From FF Require Import Lib.Word Gen.Consts_device_acpi_aml Gen.Consts_aml_tree Aml.Stream Aml.Lex Aml.LexProofs
  Aml.Tree Aml.TreeSpec Aml.TreeProofs Aml.TreeProofsOps Aml.TreeProofsFind Aml.Parser Aml.Grammar Aml.LexRoundtrip
  Aml.ParserTotalTree Aml.ParserTotalTree2 Aml.ParserTotalLex Aml.ParserTotalTable Aml.ParserTotalBase
  Aml.ParserFragBase Aml.ParserFragFirst Aml.ParserFragDev.
Import ListNotations.
Local Open Scope N_scope.

Ltac Zify.zify_post_hook ::= Z.div_mod_to_equations.

(** ---- the forest while arguments are appended to an object ---- *)
Definition g_arg1 (g : ghost) (cur : N) : ghost := set_kids (gnew g) cur (kids g cur ++ [N.of_nat (length (g_kids g))]).
Fixpoint g_args (g : ghost) (cur : N) (m : nat) : ghost :=
  match m with O => g | S j => g_arg1 (g_args g cur j) cur end.

Lemma g_args_shift g cur n : g_args (g_arg1 g cur) cur n = g_arg1 (g_args g cur n) cur.
Proof. induction n as [|n IHn]; [reflexivity|]. cbn [g_args]. rewrite IHn. reflexivity. Qed.

Lemma g_head_arg1 g sc : g_head g sc = g_arg1 g sc. Proof. reflexivity. Qed.

Lemma len_g_arg1 g cur : length (g_kids (g_arg1 g cur)) = S (length (g_kids g)).
Proof. unfold g_arg1. rewrite len_set_kids, len_gnew. reflexivity. Qed.

Lemma len_g_args g cur m : length (g_kids (g_args g cur m)) = (length (g_kids g) + m)%nat.
Proof. induction m as [|j IH]; cbn [g_args]; [lia|]. rewrite len_g_arg1, IH. lia. Qed.

Lemma free_g_arg1 g cur : g_free (g_arg1 g cur) = []. Proof. reflexivity. Qed.

Lemma free_g_args g cur m : g_free g = [] -> g_free (g_args g cur m) = [].
Proof. intros Hf. destruct m; [exact Hf|reflexivity]. Qed.

Lemma kids_g_arg1 g cur y : cur < N.of_nat (length (g_kids g)) ->
  kids (g_arg1 g cur) y = if y =? cur then kids g cur ++ [N.of_nat (length (g_kids g))] else kids g y.
Proof. intros Hc. unfold g_arg1. rewrite kids_set_kids by (rewrite len_gnew; lia). rewrite kids_gnew. reflexivity. Qed.

Fixpoint seqN (b : N) (m : nat) : list N := match m with O => [] | S j => b :: seqN (b + 1) j end.

Lemma seqN_snoc b m : seqN b (S m) = seqN b m ++ [b + N.of_nat m].
Proof.
  revert b. induction m as [|j IH]; intros b; [cbn; rewrite N.add_0_r; reflexivity|].
  change (seqN b (S (S j))) with (b :: seqN (b + 1) (S j)). rewrite IH. cbn [seqN app]. f_equal. f_equal. f_equal. lia.
Qed.

Lemma seqN_len b m : length (seqN b m) = m.
Proof. revert b. induction m as [|j IH]; intros b; cbn [seqN length]; [reflexivity|rewrite IH; reflexivity]. Qed.

Lemma seqN_in b m x : In x (seqN b m) <-> b <= x < b + N.of_nat m.
Proof.
  revert b. induction m as [|j IH]; intros b; cbn [seqN In]; [lia|]. rewrite IH. lia.
Qed.

Lemma kids_g_args g cur m y : cur < N.of_nat (length (g_kids g)) ->
  kids (g_args g cur m) y = if y =? cur then kids g cur ++ seqN (N.of_nat (length (g_kids g))) m else kids g y.
Proof.
  intros Hc. revert y. induction m as [|j IH]; intros y.
  - cbn [g_args seqN]. rewrite app_nil_r. destruct (y =? cur) eqn:E; [apply N.eqb_eq in E; subst; reflexivity|reflexivity].
  - cbn [g_args]. rewrite kids_g_arg1 by (rewrite len_g_args; lia). rewrite !IH, N.eqb_refl.
    destruct (y =? cur); [|reflexivity]. rewrite len_g_args, seqN_snoc, app_assoc. f_equal. f_equal. lia.
Qed.

(** appending the object that was just created *)
Lemma wp_append_new P cur (t0 : T) s g pl a (Q : unit -> pstate -> Prop) :
  Rep t0 g pl -> Rep (p_tree s) (gnew g) (pl ++ [a]) -> g_free g = [] -> cur < N.of_nat (length pl) ->
  (forall t', Rep t' (g_arg1 g cur) (pl ++ [a]) -> Q tt (with_tree s t')) ->
  wp P (appendM (Some cur) (N.of_nat (length pl))) s Q.
Proof.
  intros H0 H Hfree Hcur K. pose proof (rep_len_g _ _ _ H0) as Hlg.
  eapply wp_append_rep; [exact H| | | | |].
  - split; [rewrite len_gnew; lia|cbn; tauto].
  - split; [rewrite len_gnew; lia|cbn; tauto].
  - rewrite <- Hlg. eapply groot_fresh. apply (rep_R _ _ _ H0).
  - intros Hd. apply desc_leaf in Hd; [lia|]. rewrite kids_gnew. apply kids_oob. lia.
  - intros t' H'. apply K. unfold g_arg1. rewrite kids_gnew in H'. rewrite Hlg. exact H'.
Qed.

(** ---- widths of the fixed data arguments ---- *)
Inductive fw : Type := W1 | W2 | W4.
Definition fw_n (w : fw) : nat := match w with W1 => 1 | W2 => 2 | W4 => 4 end.
Definition fw_op (w : fw) : N := match w with W1 => aml_pOpBytePrefix | W2 => aml_pOpWordPrefix | W4 => aml_pOpDwordPrefix end.
Definition fw_info (w : fw) : N := match w with W1 => 4 | W2 => 5 | W4 => 6 end.
Definition fw_ty (w : fw) : N := match w with W1 => aml_pArgTypeByteData | W2 => aml_pArgTypeWordData | W4 => aml_pArgTypeDwordData end.
Definition fw_len (w : fw) : N := N.of_nat (fw_n w).

Definition num_pay (hd : N) (w : fw) (off v : N) : pay := mkPay (fw_op w) (fw_info w) hd name_zero off 0 (Some (VNum v)).

Lemma simpleArg_num_eq w :
  parseSimpleArg (fw_ty w) =
  (mlet obj <~ newObj 0 ;;
   mlet off <~ offsetM ;;
   wrf obj (set_amlOffset off) ;;;
   mlet tbl <~ curTable ;;
   wrf obj (set_opcode (fw_op w)) ;;;
   mlet '(v, ok) <~ lex (parseNumConstant (fw_len w)) ;;
   wrf obj (set_value (Some (VNum v))) ;;;
   mlet idx <~ tableIndex (fw_op w) true ;;
   wrf obj (set_infoIndex idx) ;;;
   ret (Some obj, pres_of_bool ok)).
Proof. destruct w; reflexivity. Qed.

Lemma parseArg_num f inf cur w : parseArg (S f) inf cur (fw_ty w) = parseSimpleArg (fw_ty w).
Proof. destruct inf as [[a b] c]. destruct w; reflexivity. Qed.

Lemma simpleArg_num w v s g pl pre rest post (Q : option N * pres -> pstate -> Prop) :
  Rep (p_tree s) g pl -> g_free g = [] -> N.of_nat (length pl) < InvalidIndex ->
  at_token (p_r s) pre (Grammar.le_bytes (fw_n w) v ++ rest) post -> v < 2 ^ (fw_len w * 8) ->
  (forall t', Rep t' (gnew g) (pl ++ [num_pay (p_handle s) w (lenN pre) v]) ->
     Q (Some (N.of_nat (length pl)), ROk) (with_tree (with_r s (set_offset_raw (p_r s) (lenN pre + fw_len w))) t')) ->
  wp False (parseSimpleArg (fw_ty w)) s Q.
Proof.
  intros H Hfree Hroom Hat Hv K. rewrite simpleArg_num_eq.
  apply wp_bind. eapply (wp_newObj_rep False 0 0 s g pl); [exact H|exact Hfree|exact Hroom|discriminate| |reflexivity|].
  { left. lia. }
  intros t1 H1. unfold offsetM, rq. apply wp_bind, wp_get. scbn.
  apply wp_bind. eapply (wp_wrf_rep False _ _ (ys_off (r_offset (p_r s)))); [exact H1|apply pget_app_last|discriminate|apply st_amlOffset|].
  intros t2 H2. rewrite pupd_app_last in H2. unfold ys_off in H2; cbn [y_op y_info y_th y_name y_off y_pkgEnd y_val] in H2.
  rewrite (at_off _ _ _ _ Hat) in H2.
  unfold curTable. apply wp_bind, wp_get. scbn.
  apply wp_bind. eapply (wp_wrf_rep False _ _ (ys_opcode (fw_op w))); [exact H2|apply pget_app_last|discriminate|apply st_opcode; destruct w; discriminate|].
  intros t3 H3. rewrite pupd_app_last in H3. unfold ys_opcode in H3; cbn [y_op y_info y_th y_name y_off y_pkgEnd y_val] in H3.
  apply wp_bind. apply wp_lex.
  exists v, true, (set_offset_raw (p_r s) (lenN pre + fw_len w)). split.
  { apply (num_roundtrip (fw_n w) v (p_r s) pre (rest ++ post)); [destruct w; cbn; lia|exact Hv|apply at_split; exact Hat]. }
  cbv beta iota.
  assert (Hlf : y_op (mkPay (fw_op w) 0 (p_handle s) name_zero (lenN pre) 0 None) <> opFreed) by (destruct w; discriminate).
  apply wp_bind. eapply (wp_wrf_rep False _ _ (ys_val _)); [exact H3|apply pget_app_last|exact Hlf|apply st_value|].
  intros t4 H4. rewrite pupd_app_last in H4. unfold ys_val in H4; cbn [y_op y_info y_th y_name y_off y_pkgEnd y_val] in H4.
  apply wp_bind. eapply (wp_tableIndex False (fw_op w) true (fw_info w)); [destruct w; reflexivity|].
  apply wp_bind. eapply (wp_wrf_rep False _ _ (ys_info _)); [exact H4|apply pget_app_last|exact Hlf|apply st_infoIndex|].
  intros t5 H5. rewrite pupd_app_last in H5. unfold ys_info in H5; cbn [y_op y_info y_th y_name y_off y_pkgEnd y_val] in H5.
  apply wp_ret. cbn [pres_of_bool]. apply K. exact H5.
Qed.

(** ---- one argument of the loop ---- *)
Lemma parseArgs_go f op flags af cur i : i < argCount af ->
  parseArgs (S f) (op, flags, af) cur i =
  (mlet '(argObj, res) <~ parseArg f (op, flags, af) cur (argType af i) ;;
   (match argObj with Some a => appendM (Some cur) a | None => ret tt end) ;;;
   if pres_eqb res ROk then parseArgs f (op, flags, af) cur (w8 (i + 1)) else ret res).
Proof.
  intros Hi. rewrite parseArgs_S. cbv zeta.
  assert (E0 : argCount af =? 0 = false) by (apply N.eqb_neq; lia). assert (E1 : argCount af <=? i = false) by (apply N.leb_gt; exact Hi).
  rewrite E0, E1. reflexivity.
Qed.

Lemma parseArgs_end f op flags af cur i s (Q : pres -> pstate -> Prop) : argCount af <= i -> Q ROk s ->
  wp False (parseArgs (S f) (op, flags, af) cur i) s Q.
Proof.
  intros Hi K. rewrite parseArgs_S. cbv zeta. destruct (argCount af =? 0); [apply wp_ret; exact K|].
  assert (E1 : argCount af <=? i = true) by (apply N.leb_le; exact Hi). rewrite E1. apply wp_ret. exact K.
Qed.

Lemma args_name f op flags af cur i nm s g pl pre rest post (Q : pres -> pstate -> Prop) :
  Rep (p_tree s) g pl -> g_free g = [] -> N.of_nat (length pl) < InvalidIndex -> cur < N.of_nat (length pl) ->
  i < argCount af -> argType af i = aml_pArgTypeNameString ->
  at_token (p_r s) pre (enc_name nm ++ rest) post -> wf_name nm -> 1 <= name_slice_len nm ->
  (forall t', Rep t' (g_arg1 g cur) (pl ++ [path_pay s (lenN pre) (name_slice_len nm)]) ->
     wp False (parseArgs (S f) (op, flags, af) cur (w8 (i + 1)))
        (with_tree (with_r s (set_offset_raw (p_r s) (lenN pre + lenN (enc_name nm)))) t') Q) ->
  wp False (parseArgs (S (S f)) (op, flags, af) cur i) s Q.
Proof.
  intros H Hfree Hroom Hcur Hi Hty Hat Hwf Hlen K. rewrite parseArgs_go by exact Hi. rewrite Hty, parseArg_NameString.
  apply wp_bind. eapply (simpleArg_name nm s g pl pre rest post); [exact H|exact Hfree|exact Hroom|exact Hat|exact Hwf|exact Hlen|].
  intros t1 H1. cbv beta iota.
  apply wp_bind. eapply (wp_append_new False cur (p_tree s) _ g pl); [exact H|exact H1|exact Hfree|exact Hcur|].
  intros t2 H2. change (pres_eqb ROk ROk) with true. cbv iota. exact (K t2 H2).
Qed.

Lemma args_num f op flags af cur i w v s g pl pre rest post (Q : pres -> pstate -> Prop) :
  Rep (p_tree s) g pl -> g_free g = [] -> N.of_nat (length pl) < InvalidIndex -> cur < N.of_nat (length pl) ->
  i < argCount af -> argType af i = fw_ty w ->
  at_token (p_r s) pre (Grammar.le_bytes (fw_n w) v ++ rest) post -> v < 2 ^ (fw_len w * 8) ->
  (forall t', Rep t' (g_arg1 g cur) (pl ++ [num_pay (p_handle s) w (lenN pre) v]) ->
     wp False (parseArgs (S f) (op, flags, af) cur (w8 (i + 1)))
        (with_tree (with_r s (set_offset_raw (p_r s) (lenN pre + fw_len w))) t') Q) ->
  wp False (parseArgs (S (S f)) (op, flags, af) cur i) s Q.
Proof.
  intros H Hfree Hroom Hcur Hi Hty Hat Hv K. rewrite parseArgs_go by exact Hi. rewrite Hty, parseArg_num.
  apply wp_bind. eapply (simpleArg_num w v s g pl pre rest post); [exact H|exact Hfree|exact Hroom|exact Hat|exact Hv|].
  intros t1 H1. cbv beta iota.
  apply wp_bind. eapply (wp_append_new False cur (p_tree s) _ g pl); [exact H|exact H1|exact Hfree|exact Hcur|].
  intros t2 H2. change (pres_eqb ROk ROk) with true. cbv iota. exact (K t2 H2).
Qed.

(** ---- a run of fixed data arguments ---- *)
Definition fxs : Type := list (fw * N).
Fixpoint fx_pays (hd off : N) (l : fxs) : list pay :=
  match l with [] => [] | (w, v) :: r => num_pay hd w off v :: fx_pays hd (off + fw_len w) r end.
Definition fw_enc (w : fw) (v : N) : list N := match w with W1 => [v] | W2 => Grammar.le_bytes 2 v | W4 => Grammar.le_bytes 4 v end.
Fixpoint enc_fx (l : fxs) : list N :=
  match l with [] => [] | (w, v) :: r => fw_enc w v ++ enc_fx r end.

Lemma fw_enc_le w v : v < 2 ^ (fw_len w * 8) -> fw_enc w v = Grammar.le_bytes (fw_n w) v.
Proof.
  intros Hv. destruct w; try reflexivity. cbn [fw_enc fw_n Grammar.le_bytes]. rewrite land_255, N.mod_small; [reflexivity|exact Hv].
Qed.

Lemma lenN_fw_enc w v : lenN (fw_enc w v) = fw_len w.
Proof. destruct w; reflexivity. Qed.
Definition fx_okb (l : fxs) : bool := forallb (fun '(w, v) => v <? 2 ^ (fw_len w * 8)) l.

Lemma lenN_le_bytes' k v : lenN (Grammar.le_bytes k v) = N.of_nat k.
Proof. unfold lenN. f_equal. revert v. induction k as [|n IH]; intros v; cbn [Grammar.le_bytes length]; [reflexivity|rewrite IH; reflexivity]. Qed.

Lemma len_le_bytes n v : length (Grammar.le_bytes n v) = n.
Proof. revert v. induction n as [|n IH]; intros v; cbn [Grammar.le_bytes length]; [reflexivity|rewrite IH; reflexivity]. Qed.

Lemma len_fx_pays hd off l : length (fx_pays hd off l) = length l.
Proof. revert off. induction l as [|[w v] r IH]; intros off; cbn [fx_pays length]; [reflexivity|rewrite IH; reflexivity]. Qed.

Lemma state_same s pre tok post : at_token (p_r s) pre tok post ->
  with_tree (with_r s (set_offset_raw (p_r s) (lenN pre + 0))) (p_tree s) = s.
Proof.
  intros Hat. pose proof (at_off _ _ _ _ Hat) as Ho. rewrite N.add_0_r, <- Ho. destruct s as [r t ss ps se a b c d hh tb]. destruct r. reflexivity.
Qed.

Lemma args_fix : forall (l : fxs) f op flags af cur i s g pl pre rest post (Q : pres -> pstate -> Prop),
  Rep (p_tree s) g pl -> g_free g = [] -> N.of_nat (length pl) + N.of_nat (length l) < InvalidIndex -> cur < N.of_nat (length pl) ->
  i + N.of_nat (length l) <= argCount af -> argCount af < 256 ->
  (forall j w v, nth_error l j = Some (w, v) -> argType af (i + N.of_nat j) = fw_ty w) ->
  fx_okb l = true ->
  at_token (p_r s) pre (enc_fx l ++ rest) post ->
  (forall t', Rep t' (g_args g cur (length l)) (pl ++ fx_pays (p_handle s) (lenN pre) l) ->
     wp False (parseArgs (S f) (op, flags, af) cur (i + N.of_nat (length l)))
        (with_tree (with_r s (set_offset_raw (p_r s) (lenN pre + lenN (enc_fx l)))) t') Q) ->
  wp False (parseArgs (length l + S f) (op, flags, af) cur i) s Q.
Proof.
  induction l as [|[w v] r IH]; intros f op flags af cur i s g pl pre rest post Q H Hfree Hroom Hcur Hi Hcnt Hty Hok Hat K.
  - cbn [length Nat.add]. specialize (K (p_tree s)). cbn [length g_args fx_pays enc_fx] in K. rewrite app_nil_r, N.add_0_r in K.
    change (lenN (@nil N)) with 0 in K. rewrite (state_same s pre _ post Hat) in K. apply K. exact H.
  - cbn [length] in *. cbn [fx_okb forallb] in Hok. apply andb_prop in Hok. destruct Hok as [Hv Hok]. apply N.ltb_lt in Hv.
    cbn [enc_fx] in Hat. rewrite <- app_assoc in Hat. rewrite (fw_enc_le w v Hv) in Hat.
    replace (S (length r) + S f)%nat with (S (S (length r + f))) by lia.
    eapply (args_num _ op flags af cur i w v s g pl pre _ post); [exact H|exact Hfree|lia|exact Hcur|lia| |exact Hat|exact Hv|].
    { rewrite <- (N.add_0_r i). apply (Hty 0%nat w v). reflexivity. }
    intros t1 H1.
    assert (Hw8 : w8 (i + 1) = i + 1) by (unfold w8; apply N.mod_small; change two8 with 256; lia). rewrite Hw8.
    set (s1 := with_tree (with_r s (set_offset_raw (p_r s) (lenN pre + fw_len w))) t1).
    pose proof (at_adv _ pre _ _ post Hat) as Hat1. rewrite lenN_le_bytes' in Hat1. fold (fw_len w) in Hat1.
    replace (S (length r + f)) with (length r + S f)%nat by lia.
    eapply (IH f op flags af cur (i + 1) s1 (g_arg1 g cur) _ (pre ++ Grammar.le_bytes (fw_n w) v) rest post);
      [exact H1|reflexivity|rewrite app_length; cbn [length]; lia|rewrite app_length; cbn [length]; lia|lia|exact Hcnt| |exact Hok|exact Hat1|].
    { intros j w' v' Hj. replace (i + 1 + N.of_nat j) with (i + N.of_nat (S j)) by lia. apply (Hty (S j) w' v'). exact Hj. }
    intros t2 H2.
    assert (El : lenN (pre ++ Grammar.le_bytes (fw_n w) v) = lenN pre + fw_len w) by (rewrite lenN_app, lenN_le_bytes'; reflexivity).
    rewrite El in H2 |- *.
    specialize (K t2). cbn [g_args fx_pays enc_fx] in K.
    replace (i + N.of_nat (S (length r))) with (i + 1 + N.of_nat (length r)) in K by lia.
    rewrite lenN_app, lenN_fw_enc in K. rewrite N.add_assoc in K.
    apply K. rewrite <- app_assoc in H2. cbn [app] in H2.
    rewrite <- g_args_shift. exact H2.
Qed.

(** ---- the block-like named objects ---- *)
Inductive bkind : Type := BDev | BTZ | BProc | BPwr | BMeth.
Definition bk_op (bk : bkind) : N :=
  match bk with BDev => aml_pOpDevice | BTZ => aml_pOpThermalZone | BProc => aml_pOpProcessor | BPwr => aml_pOpPowerRes | BMeth => aml_pOpMethod end.
Definition bk_info (bk : bkind) : N := match bk with BDev => 106 | BTZ => 109 | BProc => 107 | BPwr => 108 | BMeth => 13 end.
Definition bk_af (bk : bkind) : N :=
  match bk with BDev => 67855 | BTZ => 67855 | BProc => 1121104234767 | BPwr => 4395960591 | BMeth => 17107215 end.
Definition bk_ws (bk : bkind) : list fw :=
  match bk with BDev => [] | BTZ => [] | BProc => [W1; W4; W1] | BPwr => [W1; W2] | BMeth => [W1] end.

Lemma bk_facts bk : valid_opcode (bk_op bk) /\ bk_op bk <> aml_pOpNoop /\ bk_op bk <> opFreed /\ is_prefix_op (bk_op bk) = false /\
  opcodeTableIndex (bk_op bk) true = Some (bk_info bk) /\ opInfo (bk_info bk) = Some (bk_op bk, 33, bk_af bk) /\
  hasFlag 33 aml_pOpFlagDeferParsing = false.
Proof.
  split; [destruct bk; (split; [discriminate|]); eexists; (split; [reflexivity|discriminate])|].
  destruct bk; (repeat split; try discriminate; try reflexivity).
Qed.

Lemma bk_args bk : argCount (bk_af bk) = 3 + N.of_nat (length (bk_ws bk)) /\
  argType (bk_af bk) 0 = aml_pArgTypePkgLen /\ argType (bk_af bk) 1 = aml_pArgTypeNameString /\
  (forall j w, nth_error (bk_ws bk) j = Some w -> argType (bk_af bk) (2 + N.of_nat j) = fw_ty w) /\
  argType (bk_af bk) (2 + N.of_nat (length (bk_ws bk))) = aml_pArgTypeTermList.
Proof.
  destruct bk; (split; [reflexivity|]; split; [reflexivity|]; split; [reflexivity|]; split; [|reflexivity]);
    intros j w Hj; destruct j as [|[|[|j]]]; cbn [nth_error bk_ws] in Hj; try discriminate; try (inversion Hj; reflexivity); destruct j; discriminate.
Qed.

Lemma lenN_enc_pkglen' k v : pkglen_admissible k v -> lenN (enc_pkglen k v) = k.
Proof. intros [(-> & _)|[(-> & _)|[(-> & _)|(-> & _)]]]; reflexivity. Qed.

Lemma at_pkg r pre a b post e : at_token r pre (a ++ b) post -> lenN pre + lenN a <= e -> e <= r_len r ->
  at_token (set_pkgEnd_raw r e) pre a (b ++ post).
Proof.
  intros [D O E W] He Hl. constructor; cbn [r_data r_offset r_pkgEnd set_pkgEnd_raw].
  - rewrite D, <- app_assoc. reflexivity.
  - exact O.
  - exact He.
  - destruct W as (W1 & W2 & W3 & W4). unfold reader_wf. cbn [r_data r_len r_pkgEnd set_pkgEnd_raw]. repeat split; auto.
Qed.

Definition blk_pays' (s : pstate) (bk : bkind) (off k : N) (l : fxs) : list pay :=
  let lo := lenN (enc_op (bk_op bk)) in
  [mkPay (bk_op bk) (bk_info bk) (p_handle s) name_zero off 0 None; path_pay s (off + lo + k) 4] ++
  fx_pays (p_handle s) (off + lo + k + 4) l ++
  [mkPay aml_pOpIntScopeBlock 113 (p_handle s) name_zero (off + lo + k + 4 + lenN (enc_fx l)) 0 None].

Definition after_blk (s : pstate) (m off' e : N) (t' : T) : pstate :=
  with_tree
    (with_scopeStack
       (with_pkgEndStack (with_r s (set_pkgEnd_raw (set_offset_raw (p_r s) off') e)) (e :: p_pkgEndStack s))
       (N.of_nat (length (t_pool (p_tree s))) + m :: p_scopeStack s))
    t'.

Lemma nth_error_fst (l : fxs) j w v : nth_error l j = Some (w, v) -> nth_error (map fst l) j = Some w.
Proof. intros Hj. rewrite nth_error_map, Hj. reflexivity. Qed.

Lemma next_blk f bk s g pl pre k v seg l rest post sc scs a :
  let lo := lenN (enc_op (bk_op bk)) in
  Rep (p_tree s) g pl -> g_free g = [] -> N.of_nat (length pl) + 2 + N.of_nat (length l) < InvalidIndex ->
  at_token (p_r s) pre (enc_op (bk_op bk) ++ enc_pkglen k v ++ seg_bytes seg ++ enc_fx l ++ rest) post ->
  map fst l = bk_ws bk -> fx_okb l = true ->
  pkglen_admissible k v -> 4 + k + lenN (enc_fx l) <= v -> lenN pre + lo + v <= r_len (p_r s) ->
  lead_okb (seg_lead seg) = true ->
  p_scopeStack s = sc :: scs -> pget pl sc = Some a -> y_op a <> opFreed -> p_allBlocks s = false ->
  wp False (parseNextObject (S (S (S (S (S (length l + S (S f)))))))) s (fun res s' => res = ROk /\ exists t',
    s' = after_blk s (2 + N.of_nat (length l)) (lenN pre + lo + k + 4 + lenN (enc_fx l)) (lenN pre + lo + v) t' /\
    Rep t' (g_args (g_head g sc) (N.of_nat (length pl)) (2 + length l)) (pl ++ blk_pays' s bk (lenN pre) k l)).
Proof.
  intros lo H Hfree Hroom Hat Hws Hfx Hadm Hv4 Hend Hlead Est Hsc Hlsc Hab.
  destruct (bk_facts bk) as (Hvalid & Hnoop & Hnf & Hnp & Hidx & Hinfo & Hdefer).
  destruct (bk_args bk) as (Hcnt & Ht0 & Ht1 & Htj & Htl).
  assert (Hlen3 : (length (bk_ws bk) <= 3)%nat) by (destruct bk; cbn; lia).
  rewrite <- Hws, map_length in Hcnt, Htl, Hlen3.
  pose proof (rep_len_g _ _ _ H) as Hlg. pose proof (rep_len_pool _ _ _ H) as Hlp.
  assert (Hsclt : sc < N.of_nat (length pl)) by (eapply pget_lt; eauto).
  set (n := N.of_nat (length pl)) in *. set (af := bk_af bk) in *. set (op := bk_op bk) in *.
  eapply (next_head _ op (bk_info bk) s g pl pre _ post sc scs a);
    [exact H|exact Hfree|lia|exact Hat|exact Hvalid|exact Hnoop|exact Hnf|exact Hidx|exact Est|exact Hsc|exact Hlsc|].
  intros t1 H1. fold lo.
  set (a1 := mkPay op (bk_info bk) (p_handle s) name_zero (lenN pre) 0 None) in *.
  set (pl1 := pl ++ [a1]) in *.
  assert (Hl1 : length pl1 = S (length pl)) by (unfold pl1; rewrite app_length; cbn [length]; lia).
  assert (Hn : pget pl1 n = Some a1) by apply pget_app_last.
  eapply (objargs_other _ _ a1 (op, 33, af) _ _ pl1); [exact H1|exact Hn|exact Hnf|exact Hnp|exact Hinfo|].
  (* argument 0: the PkgLength *)
  rewrite parseArgs_go by lia. rewrite Ht0.
  pose proof (at_adv (p_r s) pre (enc_op op) _ post Hat) as Hat1. fold lo in Hat1.
  apply wp_bind.
  eapply (arg_pkglen _ op 33 af _ _ (pre ++ enc_op op) k v (seg_bytes seg ++ enc_fx l ++ rest) post); [exact Hat1|exact Hadm| |exact Hab|exact Hdefer|].
  { rewrite lenN_app. fold lo. exact Hend. }
  cbv beta iota. apply wp_bind. apply wp_ret. change (pres_eqb ROk ROk) with true. cbv iota. change (w8 (0 + 1)) with 1.
  rewrite lenN_app. fold lo. set (e := lenN pre + lo + v).
  (* argument 1: the name *)
  destruct (at_token_facts _ _ _ _ Hat) as (Ooff & Eend & Wb & Wc).
  pose proof (lenN_enc_pkglen' k v Hadm) as Hlk.
  pose proof (at_adv _ (pre ++ enc_op op) (enc_pkglen k v) (seg_bytes seg ++ enc_fx l ++ rest) post Hat1) as A.
  rewrite Hlk, lenN_app in A. fold lo in A.
  set (pre2 := (pre ++ enc_op op) ++ enc_pkglen k v) in *.
  assert (Hlpre2 : lenN pre2 = lenN pre + lo + k) by (unfold pre2; rewrite !lenN_app, Hlk; reflexivity).
  assert (Hat2 : at_token (set_pkgEnd_raw (set_offset_raw (p_r s) (lenN pre + lo + k)) e) pre2 (enc_name (seg_name seg) ++ enc_fx l) (rest ++ post)).
  { rewrite enc_seg_name. replace (seg_bytes seg ++ enc_fx l ++ rest) with ((seg_bytes seg ++ enc_fx l) ++ rest) in A by (rewrite <- app_assoc; reflexivity).
    apply at_pkg; [exact A| |cbn [r_len set_offset_raw]; unfold e; lia].
    rewrite Hlpre2, lenN_app. change (lenN (seg_bytes seg)) with 4. unfold e. lia. }
  eapply (args_name _ op 33 af n 1 (seg_name seg) _ (g_head g sc) pl1 pre2 (enc_fx l) (rest ++ post));
    [exact H1|apply free_g_head|lia|lia|lia|exact Ht1|exact Hat2|apply wf_seg_name; exact Hlead|rewrite slice_seg_name; lia|].
  intros t2 H2. change (w8 (1 + 1)) with 2.
  rewrite ?slice_seg_name, ?enc_seg_name, ?Hlpre2 in H2. rewrite ?slice_seg_name, ?enc_seg_name, ?Hlpre2. change (lenN (seg_bytes seg)) with 4.
  (* the fixed data arguments *)
  pose proof (at_adv _ pre2 (enc_name (seg_name seg)) (enc_fx l) (rest ++ post) Hat2) as A3.
  rewrite enc_seg_name, Hlpre2 in A3. change (lenN (seg_bytes seg)) with 4 in A3.
  set (pl2 := pl1 ++ [path_pay _ (lenN pre + lo + k) 4]) in *.
  assert (Hl2 : length pl2 = S (S (length pl))) by (unfold pl2; rewrite app_length; cbn [length]; lia).
  replace (S (length l + S (S f))) with (length l + S (S (S f)))%nat by lia.
  eapply (args_fix l _ op 33 af n 2 _ (g_arg1 (g_head g sc) n) pl2 (pre2 ++ seg_bytes seg) [] (rest ++ post));
    [exact H2|reflexivity|lia|lia|lia|lia| |exact Hfx|rewrite app_nil_r; exact A3|].
  { intros j w v' Hj. apply Htj. rewrite <- Hws. eapply nth_error_fst. exact Hj. }
  intros t3 H3.
  assert (Hlp3 : lenN (pre2 ++ seg_bytes seg) = lenN pre + lo + k + 4) by (rewrite lenN_app, Hlpre2; reflexivity).
  rewrite Hlp3 in H3 |- *.
  set (pl3 := pl2 ++ fx_pays _ (lenN pre + lo + k + 4) l) in *.
  assert (Hl3 : length pl3 = (S (S (length pl)) + length l)%nat) by (unfold pl3; rewrite app_length, len_fx_pays; lia).
  (* the ScopeBlock *)
  rewrite parseArgs_go by lia. rewrite Htl.
  apply wp_bind.
  eapply (arg_termlist _ _ _ _ _ pl3); [exact H3|apply free_g_args; reflexivity|lia|exact Hab|].
  intros t4 H4. cbv beta iota.
  apply wp_bind. eapply (wp_append_new False n _ _ _ pl3); [exact H3|exact H4|apply free_g_args; reflexivity|lia|].
  intros t5 H5. change (pres_eqb RShort ROk) with false. cbv iota. apply wp_ret.
  split; [reflexivity|]. exists t5. split.
  - unfold after_blk. rewrite <- Hlp. replace (N.of_nat (length pl) + (2 + N.of_nat (length l))) with (N.of_nat (length pl3)) by lia. reflexivity.
  - rewrite g_args_shift in H5. change (g_arg1 (g_arg1 (g_args (g_head g sc) n (length l)) n) n) with (g_args (g_head g sc) n (2 + length l)) in H5.
    unfold blk_pays'. fold lo. unfold pl3, pl2, pl1 in H5. rewrite <- !app_assoc in H5. cbn [app] in H5 |- *. exact H5.
Qed.

(** ---- the leaf named objects: Mutex, Event, OperationRegion ---- *)
Inductive lkind : Type := LMutex | LEvent | LOpReg | LName.
Definition lk_op (lk : lkind) : N := match lk with LMutex => aml_pOpMutex | LEvent => aml_pOpEvent | LOpReg => aml_pOpOpRegion | LName => aml_pOpName end.
Definition lk_info (lk : lkind) : N := match lk with LMutex => 84 | LEvent => 85 | LOpReg => 104 | LName => 3 end.
Definition lk_af (lk : lkind) : N := match lk with LMutex => 1289 | LEvent => 9 | LOpReg => 33686793 | LName => 3081 end.
Definition lk_ws (lk : lkind) : list fw := match lk with LMutex => [W1] | LEvent => [] | LOpReg => [W1] | LName => [] end.
(** number of TermArg arguments, parsed as the next objects and attached by connectNamedObjArgs *)
Definition lk_nt (lk : lkind) : nat := match lk with LMutex => 0 | LEvent => 0 | LOpReg => 2 | LName => 1 end.

Lemma lk_facts lk : valid_opcode (lk_op lk) /\ lk_op lk <> aml_pOpNoop /\ lk_op lk <> opFreed /\ is_prefix_op (lk_op lk) = false /\
  opcodeTableIndex (lk_op lk) true = Some (lk_info lk) /\ opInfo (lk_info lk) = Some (lk_op lk, 1, lk_af lk).
Proof.
  split; [destruct lk; (split; [discriminate|]); eexists; (split; [reflexivity|discriminate])|].
  destruct lk; (repeat split; try discriminate; try reflexivity).
Qed.

Lemma lk_args lk : argCount (lk_af lk) = 1 + N.of_nat (length (lk_ws lk)) + N.of_nat (lk_nt lk) /\
  argType (lk_af lk) 0 = aml_pArgTypeNameString /\
  (forall j w, nth_error (lk_ws lk) j = Some w -> argType (lk_af lk) (1 + N.of_nat j) = fw_ty w) /\
  (lk_nt lk <> O -> argType (lk_af lk) (1 + N.of_nat (length (lk_ws lk))) = aml_pArgTypeTermArg \/
                    argType (lk_af lk) (1 + N.of_nat (length (lk_ws lk))) = aml_pArgTypeDataRefObj).
Proof.
  destruct lk; (split; [reflexivity|]; split; [reflexivity|]; split; [|cbn [lk_nt]; intros Hn; try (exfalso; apply Hn; reflexivity); first [left; reflexivity|right; reflexivity]]);
    intros j w Hj; destruct j as [|[|j]]; cbn [nth_error lk_ws] in Hj; try discriminate; try (inversion Hj; reflexivity); destruct j; discriminate.
Qed.

Lemma parseArg_TermArg f inf cur s : p_allBlocks s = false ->
  parseArg (S f) inf cur aml_pArgTypeTermArg s = Ok ((None, RShort), s).
Proof.
  destruct inf as [[a b] c]. intros E.
  change (parseArg (S f) (a, b, c) cur aml_pArgTypeTermArg) with
    (mlet allBlocks <~ get p_allBlocks ;; if allBlocks then parseStrictTermArg f cur else ret (None, RShort)).
  unfold bindM, get. rewrite E. reflexivity.
Qed.

Definition leaf_pays' (s : pstate) (lk : lkind) (off : N) (l : fxs) : list pay :=
  let lo := lenN (enc_op (lk_op lk)) in
  [mkPay (lk_op lk) (lk_info lk) (p_handle s) name_zero off 0 None; path_pay s (off + lo) 4] ++ fx_pays (p_handle s) (off + lo + 4) l.

Lemma next_leaf f lk s g pl pre seg l rest post sc scs a :
  let lo := lenN (enc_op (lk_op lk)) in
  Rep (p_tree s) g pl -> g_free g = [] -> N.of_nat (length pl) + 2 + N.of_nat (length l) < InvalidIndex ->
  at_token (p_r s) pre (enc_op (lk_op lk) ++ seg_bytes seg ++ enc_fx l ++ rest) post ->
  map fst l = lk_ws lk -> fx_okb l = true ->
  lead_okb (seg_lead seg) = true ->
  p_scopeStack s = sc :: scs -> pget pl sc = Some a -> y_op a <> opFreed -> p_allBlocks s = false ->
  wp False (parseNextObject (S (S (S (S (length l + S (S f))))))) s (fun res s' => res = ROk /\ exists t',
    s' = with_tree (with_r s (set_offset_raw (p_r s) (lenN pre + lo + 4 + lenN (enc_fx l)))) t' /\
    Rep t' (g_args (g_head g sc) (N.of_nat (length pl)) (1 + length l)) (pl ++ leaf_pays' s lk (lenN pre) l)).
Proof.
  intros lo H Hfree Hroom Hat Hws Hfx Hlead Est Hsc Hlsc Hab.
  destruct (lk_facts lk) as (Hvalid & Hnoop & Hnf & Hnp & Hidx & Hinfo).
  destruct (lk_args lk) as (Hcnt & Ht0 & Htj & Htt).
  assert (Hlen3 : (length (lk_ws lk) <= 1)%nat) by (destruct lk; cbn; lia).
  assert (Hnt2 : (lk_nt lk <= 2)%nat) by (destruct lk; cbn; lia).
  rewrite <- Hws, map_length in Hcnt, Htt, Hlen3.
  pose proof (rep_len_g _ _ _ H) as Hlg. pose proof (rep_len_pool _ _ _ H) as Hlp.
  assert (Hsclt : sc < N.of_nat (length pl)) by (eapply pget_lt; eauto).
  set (n := N.of_nat (length pl)) in *. set (af := lk_af lk) in *. set (op := lk_op lk) in *.
  eapply (next_head _ op (lk_info lk) s g pl pre _ post sc scs a);
    [exact H|exact Hfree|lia|exact Hat|exact Hvalid|exact Hnoop|exact Hnf|exact Hidx|exact Est|exact Hsc|exact Hlsc|].
  intros t1 H1. fold lo.
  set (a1 := mkPay op (lk_info lk) (p_handle s) name_zero (lenN pre) 0 None) in *.
  set (pl1 := pl ++ [a1]) in *.
  assert (Hl1 : length pl1 = S (length pl)) by (unfold pl1; rewrite app_length; cbn [length]; lia).
  assert (Hn : pget pl1 n = Some a1) by apply pget_app_last.
  eapply (objargs_other _ _ a1 (op, 1, af) _ _ pl1); [exact H1|exact Hn|exact Hnf|exact Hnp|exact Hinfo|].
  (* argument 0: the name *)
  pose proof (at_adv (p_r s) pre (enc_op op) _ post Hat) as Hat1. fold lo in Hat1.
  set (pre2 := pre ++ enc_op op) in *.
  assert (Hlpre2 : lenN pre2 = lenN pre + lo) by (unfold pre2; rewrite lenN_app; reflexivity).
  assert (Hat2 : at_token (set_offset_raw (p_r s) (lenN pre + lo)) pre2 (enc_name (seg_name seg) ++ enc_fx l ++ rest) post).
  { rewrite enc_seg_name. exact Hat1. }
  eapply (args_name _ op 1 af n 0 (seg_name seg) _ (g_head g sc) pl1 pre2 (enc_fx l ++ rest) post);
    [exact H1|apply free_g_head|lia|lia|lia|exact Ht0|exact Hat2|apply wf_seg_name; exact Hlead|rewrite slice_seg_name; lia|].
  intros t2 H2. change (w8 (0 + 1)) with 1.
  rewrite ?slice_seg_name, ?enc_seg_name, ?Hlpre2 in H2. rewrite ?slice_seg_name, ?enc_seg_name, ?Hlpre2. change (lenN (seg_bytes seg)) with 4.
  (* the fixed data arguments *)
  pose proof (at_adv _ pre2 (enc_name (seg_name seg)) (enc_fx l ++ rest) post Hat2) as A3.
  rewrite enc_seg_name, Hlpre2 in A3. change (lenN (seg_bytes seg)) with 4 in A3.
  set (pl2 := pl1 ++ [path_pay _ (lenN pre + lo) 4]) in *.
  assert (Hl2 : length pl2 = S (S (length pl))) by (unfold pl2; rewrite app_length; cbn [length]; lia).
  replace (S (length l + S (S f))) with (length l + S (S (S f)))%nat by lia.
  eapply (args_fix l _ op 1 af n 1 _ (g_arg1 (g_head g sc) n) pl2 (pre2 ++ seg_bytes seg) rest post);
    [exact H2|reflexivity|lia|lia|lia|lia| |exact Hfx|exact A3|].
  { intros j w v' Hj. apply Htj. rewrite <- Hws. eapply nth_error_fst. exact Hj. }
  intros t3 H3.
  assert (Hlp3 : lenN (pre2 ++ seg_bytes seg) = lenN pre + lo + 4) by (rewrite lenN_app, Hlpre2; reflexivity).
  rewrite Hlp3 in H3 |- *.
  (* the end of the fixed arguments: either all arguments are read, or a TermArg is left for the later pass *)
  assert (Hfin : forall t', Rep t' (g_args (g_arg1 (g_head g sc) n) n (length l)) (pl2 ++ fx_pays (p_handle s) (lenN pre + lo + 4) l) ->
            Rep t' (g_args (g_head g sc) n (1 + length l)) (pl ++ leaf_pays' s lk (lenN pre) l)).
  { intros t' H'. rewrite g_args_shift in H'. change (g_arg1 (g_args (g_head g sc) n (length l)) n) with (g_args (g_head g sc) n (1 + length l)) in H'.
    unfold leaf_pays'. fold lo. unfold pl2, pl1 in H'. rewrite <- !app_assoc in H'. cbn [app] in H' |- *. exact H'. }
  destruct (Nat.eq_dec (lk_nt lk) 0) as [Hz|Hnz].
  - apply parseArgs_end; [lia|]. split; [reflexivity|]. exists t3. split; [reflexivity|apply Hfin; exact H3].
  - rewrite parseArgs_go by lia. destruct (Htt Hnz) as [Ety|Ety]; rewrite Ety; unfold wp, bindM;
      [rewrite parseArg_TermArg by exact Hab|rewrite parseArg_DataRef by exact Hab];
      cbv beta iota; unfold ret; (split; [reflexivity|]); exists t3; (split; [reflexivity|apply Hfin; exact H3]).
Qed.

(** ---- a string object ---- *)
Lemma objargs_str f cur a s g pl pre b rest post (Q : pres -> pstate -> Prop) :
  Rep (p_tree s) g pl -> pget pl cur = Some a -> y_op a = aml_pOpStringPrefix ->
  at_token (p_r s) pre ((b ++ [0]) ++ rest) post -> Forall ascii_char b ->
  (forall t', Rep t' g (pupd pl cur (ys_val (Some (VBytes (cur_tbl s) (mkSlice (Some (lenN pre)) (lenN b)))))) ->
      Q ROk (with_tree (with_r s (set_offset_raw (p_r s) (lenN pre + lenN b + 1))) t')) ->
  wp False (parseObjectArgs (S f) cur) s Q.
Proof.
  intros H Ha Hop Hat Hasc K. assert (Hl : y_op a <> opFreed) by (rewrite Hop; discriminate). cbn [parseObjectArgs].
  apply wp_bind. eapply wp_rdf_rep; [exact H|exact Ha|exact Hl|]. intros o Ho _ _ _. rewrite (pay_op _ _ Ho), Hop.
  unfold curTable. apply wp_bind, wp_get.
  change (aml_pOpStringPrefix =? aml_pOpBytePrefix) with false. change (aml_pOpStringPrefix =? aml_pOpWordPrefix) with false.
  change (aml_pOpStringPrefix =? aml_pOpDwordPrefix) with false. change (aml_pOpStringPrefix =? aml_pOpQwordPrefix) with false.
  change (aml_pOpStringPrefix =? aml_pOpStringPrefix) with true. cbv iota.
  apply wp_bind. apply wp_bind. apply wp_lex.
  exists (mkSlice (Some (lenN pre)) (lenN b)), true, (set_offset_raw (p_r s) (lenN pre + lenN b + 1)). split.
  { apply (string_roundtrip b (p_r s) pre (rest ++ post) Hasc). apply at_split. exact Hat. }
  cbv beta iota. apply wp_bind. unfold bytesValue. cbn [s_ptr].
  eapply (wp_wrf_rep False _ _ (ys_val _)); [exact H|exact Ha|exact Hl|apply st_value|].
  intros t' H'. apply wp_ret. cbn [pres_of_bool]. apply wp_ret. apply K. exact H'.
Qed.

Definition str_pay' (s : pstate) (off : N) (b : list N) : pay :=
  mkPay aml_pOpStringPrefix 7 (p_handle s) name_zero off 0 (Some (VBytes (cur_tbl s) (mkSlice (Some (off + 1)) (lenN b)))).

Lemma next_string f s g pl pre b rest post sc scs a :
  Rep (p_tree s) g pl -> g_free g = [] -> N.of_nat (length pl) < InvalidIndex ->
  at_token (p_r s) pre (aml_pOpStringPrefix :: (b ++ [0]) ++ rest) post -> Forall ascii_char b ->
  p_scopeStack s = sc :: scs -> pget pl sc = Some a -> y_op a <> opFreed ->
  wp False (parseNextObject (S (S (S f)))) s (fun res s' => res = ROk /\ exists t',
    s' = with_tree (with_r s (set_offset_raw (p_r s) (lenN pre + 1 + lenN b + 1))) t' /\
    Rep t' (g_head g sc) (pl ++ [str_pay' s (lenN pre) b])).
Proof.
  intros H Hfree Hroom Hat Hasc Est Hsc Hlsc.
  eapply (next_head _ aml_pOpStringPrefix 7 s g pl pre _ post sc scs a);
    [exact H|exact Hfree|exact Hroom|exact Hat| |discriminate|discriminate|reflexivity|exact Est|exact Hsc|exact Hlsc|].
  { split; [cbv; discriminate|]. exists 7. split; [reflexivity|discriminate]. }
  intros t1 H1. change (lenN (enc_op aml_pOpStringPrefix)) with 1.
  set (s1 := with_tree (with_r s (set_offset_raw (p_r s) (lenN pre + 1))) t1).
  set (a1 := mkPay aml_pOpStringPrefix 7 (p_handle s) name_zero (lenN pre) 0 None) in *.
  assert (Hn : pget (pl ++ [a1]) (N.of_nat (length pl)) = Some a1) by apply pget_app_last.
  assert (Hat1 : at_token (p_r s1) (pre ++ [aml_pOpStringPrefix]) ((b ++ [0]) ++ rest) post).
  { apply (at_adv (p_r s) pre [aml_pOpStringPrefix] _ post). exact Hat. }
  eapply (objargs_str _ _ a1 s1 _ _ _ b rest post); [exact H1|exact Hn|reflexivity|exact Hat1|exact Hasc|].
  intros t2 H2. split; [reflexivity|]. exists t2. split.
  - unfold s1. rewrite lenN_app. reflexivity.
  - rewrite pupd_app_last in H2. unfold str_pay'. rewrite lenN_app in H2. exact H2.
Qed.

(** ---- the header of a Package: opcode, PkgLength, number of elements, ScopeBlock of the elements ---- *)
Lemma pkg_facts : valid_opcode aml_pOpPackage /\ aml_pOpPackage <> aml_pOpNoop /\ aml_pOpPackage <> opFreed /\
  is_prefix_op aml_pOpPackage = false /\ opcodeTableIndex aml_pOpPackage true = Some 11 /\
  opInfo 11 = Some (aml_pOpPackage, 8, 66831) /\ hasFlag 8 aml_pOpFlagDeferParsing = false.
Proof. repeat split; try discriminate; try reflexivity. exists 11. split; [reflexivity|discriminate]. Qed.

Definition pkg_pays' (s : pstate) (off k n : N) : list pay :=
  [mkPay aml_pOpPackage 11 (p_handle s) name_zero off 0 None; num_pay (p_handle s) W1 (off + 1 + k) n;
   mkPay aml_pOpIntScopeBlock 113 (p_handle s) name_zero (off + 1 + k + 1) 0 None].

Lemma next_pkg f s g pl pre k v n rest post sc scs a :
  Rep (p_tree s) g pl -> g_free g = [] -> N.of_nat (length pl) + 3 < InvalidIndex ->
  at_token (p_r s) pre (enc_op aml_pOpPackage ++ enc_pkglen k v ++ enc_fx [(W1, n)] ++ rest) post ->
  n < 256 -> pkglen_admissible k v -> 1 + k <= v -> lenN pre + 1 + v <= r_len (p_r s) ->
  p_scopeStack s = sc :: scs -> pget pl sc = Some a -> y_op a <> opFreed -> p_allBlocks s = false ->
  wp False (parseNextObject (S (S (S (S (S (S (S f)))))))) s (fun res s' => res = ROk /\ exists t',
    s' = after_blk s 2 (lenN pre + 1 + k + 1) (lenN pre + 1 + v) t' /\
    Rep t' (g_args (g_head g sc) (N.of_nat (length pl)) 2) (pl ++ pkg_pays' s (lenN pre) k n)).
Proof.
  intros H Hfree Hroom Hat Hn Hadm Hv4 Hend Est Hsc Hlsc Hab.
  destruct pkg_facts as (Hvalid & Hnoop & Hnf & Hnp & Hidx & Hinfo & Hdefer).
  pose proof (rep_len_g _ _ _ H) as Hlg. pose proof (rep_len_pool _ _ _ H) as Hlp.
  assert (Hsclt : sc < N.of_nat (length pl)) by (eapply pget_lt; eauto).
  set (n0 := N.of_nat (length pl)) in *. change (lenN (enc_op aml_pOpPackage)) with 1 in *.
  eapply (next_head _ aml_pOpPackage 11 s g pl pre _ post sc scs a);
    [exact H|exact Hfree|lia|exact Hat|exact Hvalid|exact Hnoop|exact Hnf|exact Hidx|exact Est|exact Hsc|exact Hlsc|].
  intros t1 H1. change (lenN (enc_op aml_pOpPackage)) with 1.
  set (a1 := mkPay aml_pOpPackage 11 (p_handle s) name_zero (lenN pre) 0 None) in *.
  set (pl1 := pl ++ [a1]) in *.
  assert (Hl1 : length pl1 = S (length pl)) by (unfold pl1; rewrite app_length; cbn [length]; lia).
  assert (Hn0 : pget pl1 n0 = Some a1) by apply pget_app_last.
  eapply (objargs_other _ _ a1 (aml_pOpPackage, 8, 66831) _ _ pl1); [exact H1|exact Hn0|exact Hnf|exact Hnp|exact Hinfo|].
  (* argument 0: the PkgLength *)
  rewrite parseArgs_go by (change (argCount 66831) with 3; lia). change (argType 66831 0) with aml_pArgTypePkgLen.
  pose proof (at_adv (p_r s) pre (enc_op aml_pOpPackage) _ post Hat) as Hat1. change (lenN (enc_op aml_pOpPackage)) with 1 in Hat1.
  apply wp_bind.
  eapply (arg_pkglen _ aml_pOpPackage 8 66831 _ _ (pre ++ enc_op aml_pOpPackage) k v (enc_fx [(W1, n)] ++ rest) post); [exact Hat1|exact Hadm| |exact Hab|exact Hdefer|].
  { rewrite lenN_app. change (lenN (enc_op aml_pOpPackage)) with 1. exact Hend. }
  cbv beta iota. apply wp_bind. apply wp_ret. change (pres_eqb ROk ROk) with true. cbv iota. change (w8 (0 + 1)) with 1.
  rewrite lenN_app. change (lenN (enc_op aml_pOpPackage)) with 1. set (e := lenN pre + 1 + v).
  (* argument 1: the number of elements *)
  destruct (at_token_facts _ _ _ _ Hat) as (Ooff & Eend & Wb & Wc).
  pose proof (lenN_enc_pkglen' k v Hadm) as Hlk.
  pose proof (at_adv _ (pre ++ enc_op aml_pOpPackage) (enc_pkglen k v) (enc_fx [(W1, n)] ++ rest) post Hat1) as A.
  rewrite Hlk, lenN_app in A. change (lenN (enc_op aml_pOpPackage)) with 1 in A.
  set (pre2 := (pre ++ enc_op aml_pOpPackage) ++ enc_pkglen k v) in *.
  assert (Hlpre2 : lenN pre2 = lenN pre + 1 + k) by (unfold pre2; rewrite !lenN_app, Hlk; reflexivity).
  assert (Hat2 : at_token (set_pkgEnd_raw (set_offset_raw (p_r s) (lenN pre + 1 + k)) e) pre2 (enc_fx [(W1, n)] ++ []) (rest ++ post)).
  { rewrite app_nil_r. apply at_pkg; [exact A| |cbn [r_len set_offset_raw]; unfold e; lia].
    rewrite Hlpre2. change (lenN (enc_fx [(W1, n)])) with 1. unfold e. lia. }
  eapply (args_fix [(W1, n)] _ aml_pOpPackage 8 66831 n0 1 _ (g_head g sc) pl1 pre2 [] (rest ++ post));
    [exact H1|apply free_g_head|cbn [length]; lia|lia|change (argCount 66831) with 3; cbn [length]; lia|change (argCount 66831) with 3; lia| | |exact Hat2|].
  { intros j w v' Hj. destruct j as [|[|j]]; cbn in Hj; inversion Hj. reflexivity. }
  { cbn [fx_okb forallb]. assert (E : (n <? 2 ^ (fw_len W1 * 8)) = true) by (apply N.ltb_lt; exact Hn). rewrite E. reflexivity. }
  intros t3 H3. cbn [length] in H3 |- *. change (1 + N.of_nat 1) with 2.
  change (lenN (enc_fx [(W1, n)])) with 1. rewrite Hlpre2 in H3 |- *.
  set (pl3 := pl1 ++ fx_pays (p_handle _) (lenN pre + 1 + k) [(W1, n)]) in *.
  assert (Hl3 : length pl3 = S (S (length pl))) by (unfold pl3; rewrite app_length; cbn [fx_pays length]; lia).
  (* the ScopeBlock *)
  rewrite parseArgs_go by (change (argCount 66831) with 3; lia). change (argType 66831 2) with aml_pArgTypeTermList.
  apply wp_bind.
  eapply (arg_termlist _ _ _ _ _ pl3); [exact H3|reflexivity|lia|exact Hab|].
  intros t4 H4. cbv beta iota.
  apply wp_bind. eapply (wp_append_new False n0 _ _ _ pl3); [exact H3|exact H4|reflexivity|lia|].
  intros t5 H5. change (pres_eqb RShort ROk) with false. cbv iota. apply wp_ret.
  split; [reflexivity|]. exists t5. split.
  - unfold after_blk. rewrite <- Hlp. replace (N.of_nat (length pl) + 2) with (N.of_nat (length pl3)) by lia. reflexivity.
  - change (g_arg1 (g_args (g_head g sc) n0 1) n0) with (g_args (g_head g sc) n0 2) in H5.
    unfold pkg_pays'. unfold pl3, pl1 in H5. rewrite <- !app_assoc in H5. cbn [app fx_pays] in H5 |- *. exact H5.
Qed.
