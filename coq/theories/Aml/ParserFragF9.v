(** C11 (fragment F9): the items of F8 and, new, STATEMENTS [op(c1, ..., cn)] (Return / Sleep / Stall / LNot / LAnd /
    LOr / LEqual / LGreater / LLess with constant operands, Break / Continue / BreakPoint).  This file is the copy of
    ParserFragF1.v with one more constructor [IStmt] of [item] (the item type of F1 .. F8 is shared by those fragments
    and is not touched).
    Items, their encoding, the tree the first pass builds for them ([lay1]) and the tree after
    connectNamedObjArgs ([lay2]). *)
From Coq Require Import NArith ZArith Arith List Bool Lia.
From Coq Require Import ZifyBool ZifyN ZifyNat.
From FF Require Import Lib.Word Gen.Consts_device_acpi_aml Gen.Consts_aml_tree Aml.Stream Aml.Lex Aml.LexProofs
  Aml.Tree Aml.TreeSpec Aml.TreeProofs Aml.Parser Aml.Grammar Aml.LexRoundtrip
  Aml.ParserTotalBase Aml.ParserFragBase Aml.ParserFragFirst Aml.ParserFragF0 Aml.ParserFragF0Conn Aml.ParserFragWalk Aml.ParserFragRose
  Aml.ParserFragDev Aml.ParserFragArgs.
Import ListNotations.
Local Open Scope N_scope.

Ltac Zify.zify_post_hook ::= Z.div_mod_to_equations.

(** a constant TermArg argument of a leaf named object: an integer constant or a string *)
Inductive targ : Type := TInt (d : decl) | TStr (b : list N).

(** an element of a package: a constant or a package of such elements *)
Inductive pel : Type := PLeaf (a : targ) | PSub (k n : N) (es : list pel).

(** statement operators whose operands are all TermArgs (the first pass leaves every operand to the object list) *)
Inductive skind : Type := SRet | SSleep | SStall | SLNot | SLAnd | SLOr | SLEq | SLGt | SLLt | SBreak | SCont | SBrkPt.
Definition sk_op (sk : skind) : N :=
  match sk with SRet => 0xa4 | SSleep => 0x121 | SStall => 0x120 | SLNot => 0x92 | SLAnd => 0x90 | SLOr => 0x91
              | SLEq => 0x93 | SLGt => 0x94 | SLLt => 0x95 | SBreak => 0xa5 | SCont => 0x9f | SBrkPt => 0xcc end.
Definition sk_info (sk : skind) : N :=
  match sk with SRet => 80 | SSleep => 91 | SStall => 90 | SLNot => 64 | SLAnd => 62 | SLOr => 63
              | SLEq => 65 | SLGt => 66 | SLLt => 67 | SBreak => 81 | SCont => 75 | SBrkPt => 82 end.
Definition sk_af (sk : skind) : N :=
  match sk with SRet | SSleep | SStall | SLNot => 2 | SLAnd | SLOr | SLEq | SLGt | SLLt => 514 | SBreak | SCont | SBrkPt => 0 end.
Definition sk_n (sk : skind) : nat :=
  match sk with SRet | SSleep | SStall | SLNot => 1 | SLAnd | SLOr | SLEq | SLGt | SLLt => 2 | SBreak | SCont | SBrkPt => 0 end.
Lemma sk_row sk : opInfo (sk_info sk) = Some (sk_op sk, 16, sk_af sk) /\ opcodeTableIndex (sk_op sk) false = Some (sk_info sk) /\
  argCount (sk_af sk) = N.of_nat (sk_n sk) /\ termArgIndex (sk_af sk) = 0.
Proof. destruct sk; repeat split; reflexivity. Qed.
Definition slo (sk : skind) : N := lenN (enc_op (sk_op sk)).

Inductive item : Type :=
| IName (d : decl)
| IBlk (bk : bkind) (k seg : N) (fa : list N) (body : list item)
| ILeaf (lk : lkind) (seg : N) (fa : list N) (ta : list targ)
| IPkg (seg k n : N) (elems : list pel)           (* Name(SEG, Package(n){ constants and packages }) *)
| IStmt (sk : skind) (ta : list targ).            (* a statement: operator with constant operands *)

(** Device and Method blocks (the fragments F1 / F2) *)
Definition IDev (k seg : N) (body : list item) : item := IBlk BDev k seg [] body.
Definition IMeth (k seg fl : N) (body : list item) : item := IBlk BMeth k seg [fl] body.

(** the fixed data arguments of a block with their widths *)
Definition bfx (bk : bkind) (fa : list N) : fxs := combine (bk_ws bk) fa.
Definition blo (bk : bkind) : N := lenN (enc_op (bk_op bk)).
Definition lfx (lk : lkind) (fa : list N) : fxs := combine (lk_ws lk) fa.
Definition llo (lk : lkind) : N := lenN (enc_op (lk_op lk)).
(** the constant TermArg arguments of a leaf object (only opcode and value of the [decl] are used) *)
Definition cst_okb (d : decl) : bool := is_constb (d_op d) && (d_v d <? 2 ^ (N.of_nat (const_bytes (d_op d)) * 8)).
Definition str_okb (b : list N) : bool := forallb (fun c => (1 <=? c) && (c <=? 127)) b.
Definition enc_targ (a : targ) : list N := match a with TInt d => enc_const d | TStr b => OP_STRING :: b ++ [0] end.
Definition targ_okb (a : targ) : bool := match a with TInt d => cst_okb d | TStr b => str_okb b end.
Definition enc_ta (ta : list targ) : list N := flat_map enc_targ ta.

Fixpoint enc_pel (e : pel) : list N :=
  match e with
  | PLeaf a => enc_targ a
  | PSub k n es => [OP_PACKAGE] ++ enc_pkglen k (k + lenN ([n] ++ flat_map enc_pel es)) ++ [n] ++ flat_map enc_pel es
  end.
Definition enc_pels (es : list pel) : list N := flat_map enc_pel es.
(** number of objects / of steps of the object-list loop *)
Fixpoint pel_sz (e : pel) : nat :=
  match e with PLeaf _ => 1%nat | PSub _ _ es => (3 + fold_right (fun x n => (pel_sz x + n)%nat) O es)%nat end.
Definition pels_sz (es : list pel) : nat := fold_right (fun x n => (pel_sz x + n)%nat) O es.
Fixpoint pel_cnt (e : pel) : nat :=
  match e with PLeaf _ => 1%nat | PSub _ _ es => (2 + fold_right (fun x n => (pel_cnt x + n)%nat) O es)%nat end.
Definition pels_cnt (es : list pel) : nat := fold_right (fun x n => (pel_cnt x + n)%nat) O es.

Fixpoint enc_item (it : item) : list N :=
  match it with
  | IName d => enc_decl d
  | IBlk bk k seg fa body =>
      enc_op (bk_op bk) ++ enc_pkglen k (k + lenN (seg_bytes seg ++ enc_fx (bfx bk fa) ++ flat_map enc_item body)) ++
      seg_bytes seg ++ enc_fx (bfx bk fa) ++ flat_map enc_item body
  | ILeaf lk seg fa ta => enc_op (lk_op lk) ++ seg_bytes seg ++ enc_fx (lfx lk fa) ++ enc_ta ta
  | IPkg seg k n elems => OP_NAME :: seg_bytes seg ++ [OP_PACKAGE] ++ enc_pkglen k (k + lenN ([n] ++ enc_pels elems)) ++ [n] ++ enc_pels elems
  | IStmt sk ta => enc_op (sk_op sk) ++ enc_ta ta
  end.
Definition enc_items (l : list item) : list N := flat_map enc_item l.

(** number of objects / fuel units of the first pass *)
Fixpoint isz (it : item) : nat :=
  match it with IName _ => 3%nat
              | IBlk bk _ _ fa body => (3 + length (bfx bk fa) + fold_right (fun x n => (isz x + n)%nat) O body)%nat
              | ILeaf lk _ fa ta => (2 + length (lfx lk fa) + length ta)%nat
              | IPkg _ _ _ elems => (5 + pels_sz elems)%nat
              | IStmt _ ta => (1 + length ta)%nat end.
Definition iszs (l : list item) : nat := fold_right (fun x n => (isz x + n)%nat) O l.

Fixpoint icnt (it : item) : nat :=
  match it with IName _ => 2%nat
              | IBlk bk _ _ fa body => (2 + length (bfx bk fa) + fold_right (fun x n => (icnt x + n)%nat) O body)%nat
              | ILeaf lk _ fa ta => (2 + length (lfx lk fa) + length ta)%nat
              | IPkg _ _ _ elems => (5 + pels_cnt elems)%nat
              | IStmt _ ta => (1 + length ta)%nat end.
Definition icnts (l : list item) : nat := fold_right (fun x n => (icnt x + n)%nat) O l.

Definition pkglen_okb (k v : N) : bool :=
  ((k =? 1) && (v <? 64)) || ((k =? 2) && (v <? 4096)) || ((k =? 3) && (v <? 1048576)) || ((k =? 4) && (v <? 268435456)).

Lemma pkglen_okb_adm k v : pkglen_okb k v = true -> pkglen_admissible k v.
Proof.
  unfold pkglen_okb, pkglen_admissible. intros H.
  repeat (apply orb_prop in H; destruct H as [H|H]); apply andb_prop in H; destruct H as [H1 H2];
    apply N.eqb_eq in H1; apply N.ltb_lt in H2; subst k.
  - left. auto.
  - right; left. split; [reflexivity|]. change (2 ^ 12) with 4096. exact H2.
  - right; right; left. split; [reflexivity|]. change (2 ^ 20) with 1048576. exact H2.
  - right; right; right. split; [reflexivity|]. change (2 ^ 28) with 268435456. exact H2.
Qed.

Fixpoint pel_okb (e : pel) : bool :=
  match e with
  | PLeaf a => targ_okb a
  | PSub k n es => (n <? 256) && pkglen_okb k (k + lenN ([n] ++ flat_map enc_pel es)) && forallb pel_okb es
  end.

Fixpoint item_okb (it : item) : bool :=
  match it with
  | IName d => decl_okb d && (d_seg d <? 0x100000000)
  | IBlk bk k seg fa body =>
      lead_okb (seg_lead seg) && (seg <? 0x100000000) && Nat.eqb (length fa) (length (bk_ws bk)) && fx_okb (bfx bk fa) &&
      pkglen_okb k (k + lenN (seg_bytes seg ++ enc_fx (bfx bk fa) ++ flat_map enc_item body)) && forallb item_okb body
  | ILeaf lk seg fa ta =>
      lead_okb (seg_lead seg) && (seg <? 0x100000000) && Nat.eqb (length fa) (length (lk_ws lk)) && fx_okb (lfx lk fa) &&
      Nat.eqb (length ta) (lk_nt lk) && forallb targ_okb ta
  | IPkg seg k n elems =>
      lead_okb (seg_lead seg) && (seg <? 0x100000000) && (n <? 256) && pkglen_okb k (k + lenN ([n] ++ enc_pels elems)) && forallb pel_okb elems
  | IStmt sk ta => Nat.eqb (length ta) (sk_n sk) && forallb targ_okb ta
  end.

(** ---- the trees ---- *)
Section Lay.
Variable h tbl : N.

Definition blk_pay (bk : bkind) (off : N) (nm : Name) : pay := mkPay (bk_op bk) (bk_info bk) h nm off 0 None.
Definition dev_pay (off : N) (nm : Name) : pay := blk_pay BDev off nm.
Definition mth_pay (off : N) (nm : Name) : pay := blk_pay BMeth off nm.
Definition sb_pay (off : N) : pay := mkPay aml_pOpIntScopeBlock 113 h name_zero off 0 None.
Definition pth_pay (off : N) : pay := mkPay aml_pOpIntNamePath 118 h name_zero off 0 (Some (VBytes tbl (mkSlice (Some off) 4))).
Definition nam_pay (off : N) (nm : Name) : pay := mkPay aml_pOpName 3 h nm off 0 None.
Definition cst_pay (off : N) (d : decl) : pay := mkPay (d_op d) (const_info (d_op d)) h name_zero off 0 (const_val (d_op d) (d_v d)).
Definition byt_pay (off v : N) : pay := cst_pay off (mkDecl 0 OP_BYTE v).

(** childless nodes in consecutive slots *)
Fixpoint leaf_row (b : N) (ps : list pay) : list rose :=
  match ps with [] => [] | p :: r => RN b p [] :: leaf_row (b + 1) r end.

(** name path and fixed data arguments of a block *)
Definition hd_pays (bk : bkind) (off k : N) (fa : list N) : list pay :=
  pth_pay (off + blo bk + k) :: fx_pays h (off + blo bk + k + 4) (bfx bk fa).
Definition sb_off (bk : bkind) (off k : N) (fa : list N) : N := off + blo bk + k + 4 + lenN (enc_fx (bfx bk fa)).
Definition nfx (bk : bkind) (fa : list N) : N := N.of_nat (length (bfx bk fa)).

(** a leaf named object: name path and fixed data arguments below it; the constants follow as siblings (first pass)
    or as further children (after connectNamedObjArgs) *)
Definition lf_pay (lk : lkind) (off : N) (nm : Name) : pay := mkPay (lk_op lk) (lk_info lk) h nm off 0 None.
Definition lhd_pays (lk : lkind) (off : N) (fa : list N) : list pay :=
  pth_pay (off + llo lk) :: fx_pays h (off + llo lk + 4) (lfx lk fa).
Definition ta_off (lk : lkind) (off : N) (fa : list N) : N := off + llo lk + 4 + lenN (enc_fx (lfx lk fa)).
Definition str_pay (off : N) (b : list N) : pay :=
  mkPay aml_pOpStringPrefix 7 h name_zero off 0 (Some (VBytes tbl (mkSlice (Some (off + 1)) (lenN b)))).
Definition targ_pay (off : N) (a : targ) : pay := match a with TInt d => cst_pay off d | TStr b => str_pay off b end.
Fixpoint cst_pays (off : N) (ta : list targ) : list pay :=
  match ta with [] => [] | a :: r => targ_pay off a :: cst_pays (off + lenN (enc_targ a)) r end.
Definition nlf (lk : lkind) (fa : list N) : N := N.of_nat (length (lfx lk fa)).
(** a Package: not a named object; children = number of elements (ByteData) and a ScopeBlock with the elements *)
Definition pkg_pay (off : N) : pay := mkPay aml_pOpPackage 11 h name_zero off 0 None.
(** a statement operator; its operands follow as siblings (first pass .. pass 4) or are its children (after resolveMethodCalls) *)
Definition st_pay (sk : skind) (off : N) : pay := mkPay (sk_op sk) (sk_info sk) h name_zero off 0 None.
Fixpoint pel_tree (b off : N) (e : pel) : rose :=
  match e with
  | PLeaf a => RN b (targ_pay off a) []
  | PSub k n es =>
      RN b (pkg_pay off) [RN (b + 1) (num_pay h W1 (off + 1 + k) n) [];
                          RN (b + 2) (sb_pay (off + 1 + k + 1))
                             ((fix go (b off : N) (l : list pel) {struct l} : list rose :=
                                 match l with [] => [] | x :: t => pel_tree b off x :: go (b + N.of_nat (pel_sz x)) (off + lenN (enc_pel x)) t end)
                                (b + 3) (off + 1 + k + 1) es)]
  end.
Fixpoint pel_trees (b off : N) (l : list pel) : list rose :=
  match l with [] => [] | x :: t => pel_tree b off x :: pel_trees (b + N.of_nat (pel_sz x)) (off + lenN (enc_pel x)) t end.
Definition pkg_tree (b off k n : N) (elems : list pel) : rose := pel_tree b off (PSub k n elems).
Lemma pel_tree_sub b off k n es : pel_tree b off (PSub k n es) =
  RN b (pkg_pay off) [RN (b + 1) (num_pay h W1 (off + 1 + k) n) [];
                      RN (b + 2) (sb_pay (off + 1 + k + 1)) (pel_trees (b + 3) (off + 1 + k + 1) es)].
Proof. reflexivity. Qed.

(** after the first pass: the constant is the next sibling of the Name object; names are not set *)
Fixpoint lay1_item (b off : N) (it : item) : list rose :=
  match it with
  | IName d => [RN b (nam_pay off name_zero) [RN (b + 1) (pth_pay (off + 1)) []]; RN (b + 2) (cst_pay (off + 5) d) []]
  | IBlk bk k seg fa body =>
      [RN b (blk_pay bk off name_zero)
          (leaf_row (b + 1) (hd_pays bk off k fa) ++
           [RN (b + 2 + nfx bk fa) (sb_pay (sb_off bk off k fa))
              ((fix go (b off : N) (l : list item) {struct l} : list rose :=
                  match l with [] => [] | x :: t => lay1_item b off x ++ go (b + N.of_nat (isz x)) (off + lenN (enc_item x)) t end)
                 (b + 3 + nfx bk fa) (sb_off bk off k fa) body)])]
  | ILeaf lk seg fa ta =>
      RN b (lf_pay lk off name_zero) (leaf_row (b + 1) (lhd_pays lk off fa)) :: leaf_row (b + 2 + nlf lk fa) (cst_pays (ta_off lk off fa) ta)
  | IPkg seg k n elems =>
      [RN b (nam_pay off name_zero) [RN (b + 1) (pth_pay (off + 1)) []]; pkg_tree (b + 2) (off + 5) k n elems]
  | IStmt sk ta => RN b (st_pay sk off) [] :: leaf_row (b + 1) (cst_pays (off + slo sk) ta)
  end.
Fixpoint lay1 (b off : N) (l : list item) : list rose :=
  match l with [] => [] | x :: t => lay1_item b off x ++ lay1 (b + N.of_nat (isz x)) (off + lenN (enc_item x)) t end.

Lemma lay1_blk b off bk k seg fa body : lay1_item b off (IBlk bk k seg fa body) =
  [RN b (blk_pay bk off name_zero)
      (leaf_row (b + 1) (hd_pays bk off k fa) ++
       [RN (b + 2 + nfx bk fa) (sb_pay (sb_off bk off k fa)) (lay1 (b + 3 + nfx bk fa) (sb_off bk off k fa) body)])].
Proof. reflexivity. Qed.

(** after connectNamedObjArgs: names set, the constant below the Name object *)
Fixpoint lay2_item (b off : N) (it : item) : list rose :=
  match it with
  | IName d => [RN b (nam_pay off (seg_nm (d_seg d))) [RN (b + 1) (pth_pay (off + 1)) []; RN (b + 2) (cst_pay (off + 5) d) []]]
  | IBlk bk k seg fa body =>
      [RN b (blk_pay bk off (seg_nm seg))
          (leaf_row (b + 1) (hd_pays bk off k fa) ++
           [RN (b + 2 + nfx bk fa) (sb_pay (sb_off bk off k fa))
              ((fix go (b off : N) (l : list item) {struct l} : list rose :=
                  match l with [] => [] | x :: t => lay2_item b off x ++ go (b + N.of_nat (isz x)) (off + lenN (enc_item x)) t end)
                 (b + 3 + nfx bk fa) (sb_off bk off k fa) body)])]
  | ILeaf lk seg fa ta =>
      [RN b (lf_pay lk off (seg_nm seg)) (leaf_row (b + 1) (lhd_pays lk off fa ++ cst_pays (ta_off lk off fa) ta))]
  | IPkg seg k n elems =>
      [RN b (nam_pay off (seg_nm seg)) [RN (b + 1) (pth_pay (off + 1)) []; pkg_tree (b + 2) (off + 5) k n elems]]
  | IStmt sk ta => RN b (st_pay sk off) [] :: leaf_row (b + 1) (cst_pays (off + slo sk) ta)
  end.
Fixpoint lay2 (b off : N) (l : list item) : list rose :=
  match l with [] => [] | x :: t => lay2_item b off x ++ lay2 (b + N.of_nat (isz x)) (off + lenN (enc_item x)) t end.

Lemma lay2_blk b off bk k seg fa body : lay2_item b off (IBlk bk k seg fa body) =
  [RN b (blk_pay bk off (seg_nm seg))
      (leaf_row (b + 1) (hd_pays bk off k fa) ++
       [RN (b + 2 + nfx bk fa) (sb_pay (sb_off bk off k fa)) (lay2 (b + 3 + nfx bk fa) (sb_off bk off k fa) body)])].
Proof. reflexivity. Qed.
(** after resolveMethodCalls: the operands of a statement are its children *)
Fixpoint lay5_item (b off : N) (it : item) : list rose :=
  match it with
  | IName d => [RN b (nam_pay off (seg_nm (d_seg d))) [RN (b + 1) (pth_pay (off + 1)) []; RN (b + 2) (cst_pay (off + 5) d) []]]
  | IBlk bk k seg fa body =>
      [RN b (blk_pay bk off (seg_nm seg))
          (leaf_row (b + 1) (hd_pays bk off k fa) ++
           [RN (b + 2 + nfx bk fa) (sb_pay (sb_off bk off k fa))
              ((fix go (b off : N) (l : list item) {struct l} : list rose :=
                  match l with [] => [] | x :: t => lay5_item b off x ++ go (b + N.of_nat (isz x)) (off + lenN (enc_item x)) t end)
                 (b + 3 + nfx bk fa) (sb_off bk off k fa) body)])]
  | ILeaf lk seg fa ta =>
      [RN b (lf_pay lk off (seg_nm seg)) (leaf_row (b + 1) (lhd_pays lk off fa ++ cst_pays (ta_off lk off fa) ta))]
  | IPkg seg k n elems =>
      [RN b (nam_pay off (seg_nm seg)) [RN (b + 1) (pth_pay (off + 1)) []; pkg_tree (b + 2) (off + 5) k n elems]]
  | IStmt sk ta => [RN b (st_pay sk off) (leaf_row (b + 1) (cst_pays (off + slo sk) ta))]
  end.
Fixpoint lay5 (b off : N) (l : list item) : list rose :=
  match l with [] => [] | x :: t => lay5_item b off x ++ lay5 (b + N.of_nat (isz x)) (off + lenN (enc_item x)) t end.

Lemma lay5_blk b off bk k seg fa body : lay5_item b off (IBlk bk k seg fa body) =
  [RN b (blk_pay bk off (seg_nm seg))
      (leaf_row (b + 1) (hd_pays bk off k fa) ++
       [RN (b + 2 + nfx bk fa) (sb_pay (sb_off bk off k fa)) (lay5 (b + 3 + nfx bk fa) (sb_off bk off k fa) body)])].
Proof. reflexivity. Qed.
End Lay.

(** ---- rows of childless nodes ---- *)
Lemma leaf_row_rsizes b ps : rsizes (leaf_row b ps) = length ps.
Proof. revert b. induction ps as [|p r IH]; intros b; [reflexivity|]. cbn [leaf_row rsizes fold_right length]. fold (rsizes (leaf_row (b + 1) r)). rewrite IH, rsize_eq. reflexivity. Qed.

Lemma leaf_row_idx b ps : map ridx (leaf_row b ps) = seqN b (length ps).
Proof. revert b. induction ps as [|p r IH]; intros b; [reflexivity|]. cbn [leaf_row map ridx length seqN]. rewrite IH. reflexivity. Qed.

Lemma leaf_row_nodes b ps x : In x (rnodesl (leaf_row b ps)) <-> b <= x < b + N.of_nat (length ps).
Proof.
  revert b. induction ps as [|p r IH]; intros b; [cbn; lia|].
  cbn [leaf_row length]. unfold rnodesl. cbn [flat_map]. rewrite rnodes_eq. cbn [rnodesl flat_map app In].
  fold (rnodesl (leaf_row (b + 1) r)). rewrite IH. lia.
Qed.

Lemma leaf_row_desc g pl b ps :
  (forall i p, nth_error ps i = Some p -> pget pl (b + N.of_nat i) = Some p /\ kids g (b + N.of_nat i) = []) ->
  Forall (Desc g pl) (leaf_row b ps).
Proof.
  revert b. induction ps as [|p r IH]; intros b Hall; [constructor|]. cbn [leaf_row]. constructor.
  - destruct (Hall 0%nat p eq_refl) as (A & B). rewrite N.add_0_r in A, B. constructor; [exact A|exact B|constructor].
  - apply IH. intros i q Hi. replace (b + 1 + N.of_nat i) with (b + N.of_nat (S i)) by lia. apply Hall. exact Hi.
Qed.

Lemma leaf_row_desc_inv g pl b ps : Forall (Desc g pl) (leaf_row b ps) ->
  forall i p, nth_error ps i = Some p -> pget pl (b + N.of_nat i) = Some p /\ kids g (b + N.of_nat i) = [].
Proof.
  revert b. induction ps as [|q r IH]; intros b HD i p Hi; [destruct i; discriminate|]. cbn [leaf_row] in HD.
  destruct i as [|i].
  - inversion Hi; subst q. destruct (Desc_inv _ _ _ _ _ (Forall_inv HD)) as (A & B & _). rewrite N.add_0_r. auto.
  - replace (b + N.of_nat (S i)) with (b + 1 + N.of_nat i) by lia. apply (IH (b + 1) (Forall_inv_tail HD) i p Hi).
Qed.

Lemma len_hd_pays h tbl bk off k fa : length (hd_pays h tbl bk off k fa) = S (length (bfx bk fa)).
Proof. unfold hd_pays. cbn [length]. rewrite len_fx_pays. reflexivity. Qed.

Lemma isz_blk bk k seg fa body : isz (IBlk bk k seg fa body) = (3 + length (bfx bk fa) + iszs body)%nat.
Proof. reflexivity. Qed.
Lemma icnt_blk bk k seg fa body : icnt (IBlk bk k seg fa body) = (2 + length (bfx bk fa) + icnts body)%nat.
Proof. reflexivity. Qed.
Lemma enc_blk bk k seg fa body : enc_item (IBlk bk k seg fa body) =
  enc_op (bk_op bk) ++ enc_pkglen k (k + lenN (seg_bytes seg ++ enc_fx (bfx bk fa) ++ enc_items body)) ++ seg_bytes seg ++ enc_fx (bfx bk fa) ++ enc_items body.
Proof. reflexivity. Qed.

Lemma isz_leaf lk seg fa ta : isz (ILeaf lk seg fa ta) = (2 + length (lfx lk fa) + length ta)%nat.
Proof. reflexivity. Qed.
Lemma icnt_leaf lk seg fa ta : icnt (ILeaf lk seg fa ta) = (2 + length (lfx lk fa) + length ta)%nat.
Proof. reflexivity. Qed.
Lemma enc_leaf lk seg fa ta : enc_item (ILeaf lk seg fa ta) = enc_op (lk_op lk) ++ seg_bytes seg ++ enc_fx (lfx lk fa) ++ enc_ta ta.
Proof. reflexivity. Qed.

Lemma leaf_row_app b p1 p2 : leaf_row b (p1 ++ p2) = leaf_row b p1 ++ leaf_row (b + N.of_nat (length p1)) p2.
Proof.
  revert b. induction p1 as [|p r IH]; intros b; [cbn [app length leaf_row]; rewrite N.add_0_r; reflexivity|].
  cbn [app leaf_row length]. rewrite IH. f_equal. f_equal. f_equal. lia.
Qed.

Lemma len_lhd_pays h tbl lk off fa : length (lhd_pays h tbl lk off fa) = S (length (lfx lk fa)).
Proof. unfold lhd_pays. cbn [length]. rewrite len_fx_pays. reflexivity. Qed.

Lemma len_cst_pays h tbl off ta : length (cst_pays h tbl off ta) = length ta.
Proof. revert off. induction ta as [|d r IH]; intros off; cbn [cst_pays length]; [reflexivity|rewrite IH; reflexivity]. Qed.

Lemma isz_pkg seg k n elems : isz (IPkg seg k n elems) = (5 + pels_sz elems)%nat.
Proof. reflexivity. Qed.
Lemma enc_pkg_item seg k n elems : enc_item (IPkg seg k n elems) =
  OP_NAME :: seg_bytes seg ++ [OP_PACKAGE] ++ enc_pkglen k (k + lenN ([n] ++ enc_pels elems)) ++ [n] ++ enc_pels elems.
Proof. reflexivity. Qed.
Lemma enc_pel_sub k n es : enc_pel (PSub k n es) = [OP_PACKAGE] ++ enc_pkglen k (k + lenN ([n] ++ enc_pels es)) ++ [n] ++ enc_pels es.
Proof. reflexivity. Qed.
Lemma pel_sz_sub k n es : pel_sz (PSub k n es) = (3 + pels_sz es)%nat. Proof. reflexivity. Qed.
Lemma pel_cnt_sub k n es : pel_cnt (PSub k n es) = (2 + pels_cnt es)%nat. Proof. reflexivity. Qed.
Lemma pel_okb_sub k n es : pel_okb (PSub k n es) = (n <? 256) && pkglen_okb k (k + lenN ([n] ++ enc_pels es)) && forallb pel_okb es.
Proof. reflexivity. Qed.
Lemma pel_sz_pos e : (1 <= pel_sz e)%nat. Proof. destruct e; [cbn; lia|rewrite pel_sz_sub; lia]. Qed.

(** induction on lists of package elements *)
Lemma pels_ind (P : list pel -> Prop) :
  P [] -> (forall a rest, P rest -> P (PLeaf a :: rest)) -> (forall k n es rest, P es -> P rest -> P (PSub k n es :: rest)) ->
  forall l, P l.
Proof.
  intros H0 HL HS.
  assert (Hn : forall m l, (pels_sz l <= m)%nat -> P l).
  { induction m as [|m IH]; intros l Hl.
    - destruct l as [|x t]; [exact H0|]. cbn [pels_sz fold_right] in Hl. pose proof (pel_sz_pos x). lia.
    - destruct l as [|x t]; [exact H0|]. cbn [pels_sz fold_right] in Hl. fold (pels_sz t) in Hl. pose proof (pel_sz_pos x).
      destruct x as [a|k n es].
      + apply HL. apply IH. cbn [pel_sz] in Hl. lia.
      + rewrite pel_sz_sub in Hl. apply HS; apply IH; lia. }
  intros l. apply (Hn (pels_sz l)). lia.
Qed.

Lemma isz_stmt sk ta : isz (IStmt sk ta) = (1 + length ta)%nat. Proof. reflexivity. Qed.
Lemma icnt_stmt sk ta : icnt (IStmt sk ta) = (1 + length ta)%nat. Proof. reflexivity. Qed.
Lemma enc_stmt sk ta : enc_item (IStmt sk ta) = enc_op (sk_op sk) ++ enc_ta ta. Proof. reflexivity. Qed.

Lemma isz_pos it : (1 <= isz it)%nat.
Proof. destruct it; [cbn; lia|rewrite isz_blk; lia|rewrite isz_leaf; lia|rewrite isz_pkg; lia|rewrite isz_stmt; lia]. Qed.

(** induction on the number of objects *)
Lemma items_ind (P : list item -> Prop) :
  P [] ->
  (forall d rest, P rest -> P (IName d :: rest)) ->
  (forall bk k seg fa body rest, P body -> P rest -> P (IBlk bk k seg fa body :: rest)) ->
  (forall lk seg fa ta rest, P rest -> P (ILeaf lk seg fa ta :: rest)) ->
  (forall seg k n elems rest, P rest -> P (IPkg seg k n elems :: rest)) ->
  (forall sk ta rest, P rest -> P (IStmt sk ta :: rest)) ->
  forall l, P l.
Proof.
  intros H0 Hn Hd Hlf Hpk Hst.
  assert (HS : forall n l, (iszs l <= n)%nat -> P l).
  { induction n as [|n IH]; intros l Hl.
    - destruct l as [|x t]; [exact H0|]. cbn [iszs fold_right] in Hl. pose proof (isz_pos x). lia.
    - destruct l as [|x t]; [exact H0|]. cbn [iszs fold_right] in Hl. fold (iszs t) in Hl. pose proof (isz_pos x).
      destruct x as [d|bk k seg fa body|lk seg fa ta|seg k ne elems|sk ta].
      + apply Hn. apply IH. lia.
      + rewrite isz_blk in Hl. apply Hd; apply IH; lia.
      + apply Hlf. apply IH. lia.
      + apply Hpk. apply IH. lia.
      + apply Hst. apply IH. lia. }
  intros l. apply (HS (iszs l)). lia.
Qed.
