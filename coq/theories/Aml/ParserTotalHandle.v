(** C12 (stretch): every pass of ParseAML leaves the table handle of the parser alone and creates objects with that handle
    only; the handle of an existing slot never changes.  So "every handle in the pool is at most the handle of the table being
    parsed" ([HB]) is preserved - a partial-correctness fact, by structural decomposition (pattern of ParserTotalTyped.v). *)
From Coq Require Import NArith Arith List Bool Lia.
From FF Require Import Lib.Word Gen.Consts_device_acpi_aml Aml.Stream Aml.Lex Aml.Tree Aml.Parser Aml.TreeSpec Aml.TreeProofs
  Aml.ParserTotalTree Aml.ParserTotalTree2 Aml.ParserTotalBase Aml.ParserTotalLeaf Aml.ParserTotalFrame
  Aml.ParserTotalCalls Aml.ParserTotalDeferH Aml.ParserTotalDeferM Aml.ParserTotalTyped.
Import ListNotations.
Local Open Scope N_scope.

Definition HB (h : N) (t : T) : Prop := forall i o, tget t i = Some o -> o_tableHandle o <= h.

Definition hb {A} (m : M A) : Prop :=
  forall s a s', m s = Ok (a, s') -> HB (p_handle s) (p_tree s) -> p_handle s' = p_handle s /\ HB (p_handle s) (p_tree s').

Lemma hb_stay {A} (m : M A) : notree m -> hsame m -> hb m.
Proof. intros H1 H2 s a s' E Hb. split; [apply (H2 _ _ _ E)|rewrite (H1 _ _ _ E); exact Hb]. Qed.
Lemma hb_bind {A B} (m : M A) (f : A -> M B) : hb m -> (forall a, hb (f a)) -> hb (bindM m f).
Proof.
  intros Hm Hf s b s' H Hb. apply bindM_ok in H. destruct H as (a & s1 & E1 & E2).
  destruct (Hm _ _ _ E1 Hb) as (A1 & A2). rewrite <- A1 in A2. destruct (Hf a _ _ _ E2 A2) as (B1 & B2). rewrite A1 in B1, B2. auto.
Qed.
Lemma hb_if {A} (b : bool) (m1 m2 : M A) : hb m1 -> hb m2 -> hb (if b then m1 else m2).
Proof. destruct b; auto. Qed.
Lemma hb_fail {A} (m : M A) : (forall s, m s = Panic \/ m s = OutOfFuel) -> hb m.
Proof. intros H s a s' E. destruct (H s) as [F|F]; rewrite F in E; discriminate. Qed.

Lemma HB_pframe h (t t' : T) : HB h t -> pframe t t' -> HB h t'.
Proof. intros H Hp i o' Hg. destruct (pframe_inv _ _ _ _ Hp Hg) as (o & Ho & _ & _ & E3 & _). rewrite E3. apply (H i o Ho). Qed.
Lemma HB_tset h (t : T) p f : HB h t -> (forall o, o_tableHandle (f o) = o_tableHandle o) -> HB h (tset t p f).
Proof.
  intros H Hf i o' Hg. rewrite get_tset in Hg. destruct (N.eqb_spec i p) as [->|Hne]; [|apply (H i o' Hg)].
  destruct (tget t p) as [o|] eqn:E; cbn [option_map] in Hg; [|discriminate]. inversion Hg; subst o'. rewrite Hf. apply (H p o E).
Qed.

Lemma hb_tu (f : T -> outcome T) : (forall t t' h, f t = Ok t' -> HB h t -> HB h t') -> hb (tu f).
Proof.
  intros Hf s u s' H Hb. pose proof (tu_inv _ _ _ _ H) as E. split; [apply (hsame_tu f _ _ _ H)|apply (Hf _ _ _ E Hb)].
Qed.
Lemma hb_tu_pframe (f : T -> outcome T) : (forall t t', f t = Ok t' -> pframe t t') -> hb (tu f).
Proof. intros Hf. apply hb_tu. intros t t' h E Hb. eapply HB_pframe; [exact Hb|apply Hf; exact E]. Qed.
Lemma hb_wrf p f : (forall o, o_tableHandle (f o) = o_tableHandle o) -> hb (wrf p f).
Proof.
  intros Hf. unfold wrf. apply hb_tu. intros t t' h E Hb. destruct (wr_inv _ _ _ _ E) as (-> & _). apply HB_tset; auto.
Qed.
Lemma hb_newObj opc : hb (newObj opc).
Proof.
  intros s p s' H Hb. split; [apply (hsame_newObj opc _ _ _ H)|].
  unfold newObj in H. destruct (newObject (p_tree s) opc (p_handle s)) as [[t' q]| |] eqn:E; try discriminate.
  inversion H; subst q s'. cbn [p_tree with_tree].
  destruct (newObject_shape _ _ _ _ _ E) as ((po & Hpo & _ & _ & Hh & _) & _ & Hbw & _).
  intros i o Hg. destruct (N.eq_dec i p) as [->|Hip]; [assert (o = po) by congruence; subst o; rewrite Hh; apply N.le_refl|].
  apply (Hb i o (Hbw i o Hip Hg)).
Qed.

Lemma free_HB h (t t' : T) x : free t x = Ok t' -> HB h t -> HB h t'.
Proof.
  unfold free. intros H Ht.
  apply bind_ok in H. destruct H as (par & _ & H).
  apply bind_ok in H. destruct H as (t1 & Ht1 & H).
  assert (T1 : HB h t1).
  { destruct (negb (par =? InvalidIndex)).
    - apply bind_ok in Ht1. destruct Ht1 as (pp & _ & Hd). eapply HB_pframe; [exact Ht|eapply detach_pframe; eauto].
    - inversion Ht1; subst. exact Ht. }
  apply bind_ok in H. destruct H as (first & _ & H).
  apply bind_ok in H. destruct H as (lst & _ & H).
  destruct (negb (first =? InvalidIndex) || negb (lst =? InvalidIndex)); [discriminate|].
  apply bind_ok in H. destruct H as (t2 & Ht2 & H). destruct (wr_inv _ _ _ _ Ht2) as (-> & o1 & Ho1).
  apply bind_ok in H. destruct H as (t3 & Ht3 & H). destruct (wr_inv _ _ _ _ Ht3) as (-> & _).
  apply bind_ok in H. destruct H as (oi & _ & H). inversion H; subst t'. clear H.
  intros i o Hg. change (tget (tset (tset t1 x (set_opcode opFreed)) x (set_next (t_free (tset t1 x (set_opcode opFreed))))) i = Some o) in Hg.
  revert i o Hg. apply HB_tset; [apply HB_tset; [exact T1|]|]; intros o; reflexivity.
Qed.
Lemma hb_freeM x : hb (freeM x).
Proof. unfold freeM. apply hb_tu. intros t t' h E Hb. exact (free_HB h _ _ x E Hb). Qed.

(** ---- automation ---- *)
Ltac hb_prim :=
  first [ (apply hb_stay; [notree_prim2|hsame_prim])
        | (apply hb_wrf; let o := fresh "o" in intros o; reflexivity)
        | apply hb_newObj
        | apply hb_freeM
        | (apply hb_tu_pframe; let t := fresh in let t' := fresh in let E := fresh in intros t t' E;
           first [solve [eapply append_pframe; eauto] | solve [eapply appendAfter_pframe; eauto] | solve [eapply detach_pframe; eauto]]) ].

Ltac hb_tac rec :=
  repeat first
    [ rec | hb_prim | apply hb_if | (apply hb_bind; [|intros ?])
    | match goal with |- hb (match ?x with _ => _ end) => destruct x end
    | match goal with |- hb (let '(_, _) := ?x in _) => destruct x end ].

Ltac hb_out := apply hb_fail; intros; right; reflexivity.

(** ---- the leaves ---- *)
Lemma parseByteList_hb obj n : hb (parseByteList obj n).
Proof. unfold parseByteList. ty_unf. hb_tac fail. Qed.
Lemma readName_go_hb field cnt : forall i, hb (readName_go cnt i field).
Proof. induction cnt as [|cnt IH]; intros i; cbn [readName_go]; ty_unf; hb_tac ltac:(apply IH). Qed.
Lemma parseSimpleArg_hb ty : hb (parseSimpleArg ty).
Proof. unfold parseSimpleArg. ty_unf. cbv zeta. hb_tac fail. Qed.
Lemma fieldElements_go_hb fuel : forall curObj f, hb (fieldElements_go fuel curObj f).
Proof.
  induction fuel as [|fuel IH]; intros curObj f; cbn [fieldElements_go]; [hb_out|].
  ty_unf. hb_tac ltac:(first [apply IH | apply readName_go_hb | apply parseByteList_hb]).
Qed.
Lemma parseFieldElements_hb curObj : hb (parseFieldElements curObj).
Proof. unfold parseFieldElements. ty_unf. hb_tac ltac:(apply fieldElements_go_hb). Qed.

(** the nine mutually recursive functions *)
Definition hbblock (fuel : nat) : Prop :=
  hb (parseNextObject fuel) /\ (forall c, hb (parseObjectArgs fuel c)) /\
  (forall inf c i, hb (parseArgs fuel inf c i)) /\ (forall inf c ty, hb (parseArg fuel inf c ty)) /\
  hb (termList_go fuel) /\ hb (parseNamePathOrMethodCall fuel) /\ (forall n, hb (callArgs_go fuel n)) /\
  (forall c, hb (parseStrictTermArg fuel c)) /\ hb (parseTarget fuel).

Ltac hbrec H1 H2 H3 H4 H5 H6 H7 H8 H9 :=
  first [ apply H1 | apply H2 | apply H3 | apply H4 | apply H5 | apply H6 | apply H7 | apply H8 | apply H9
        | apply parseSimpleArg_hb | apply parseByteList_hb | apply parseFieldElements_hb | apply fieldElements_go_hb ].

Lemma hbblock_all : forall fuel, hbblock fuel.
Proof.
  induction fuel as [|fuel (H1 & H2 & H3 & H4 & H5 & H6 & H7 & H8 & H9)].
  - unfold hbblock. repeat match goal with |- _ /\ _ => split end; intros; cbn; hb_out.
  - unfold hbblock. repeat match goal with |- _ /\ _ => split end; intros.
    + cbn [parseNextObject]. ty_unf. hb_tac ltac:(hbrec H1 H2 H3 H4 H5 H6 H7 H8 H9).
    + cbn [parseObjectArgs]. ty_unf. hb_tac ltac:(hbrec H1 H2 H3 H4 H5 H6 H7 H8 H9).
    + cbn [parseArgs]. destruct inf as [[? ?] ?]. ty_unf. hb_tac ltac:(hbrec H1 H2 H3 H4 H5 H6 H7 H8 H9).
    + cbn [parseArg]. destruct inf as [[? ?] ?]. ty_unf. hb_tac ltac:(hbrec H1 H2 H3 H4 H5 H6 H7 H8 H9).
    + cbn [termList_go]. ty_unf. hb_tac ltac:(hbrec H1 H2 H3 H4 H5 H6 H7 H8 H9).
    + cbn [parseNamePathOrMethodCall]. ty_unf. hb_tac ltac:(hbrec H1 H2 H3 H4 H5 H6 H7 H8 H9).
    + cbn [callArgs_go]. ty_unf. hb_tac ltac:(hbrec H1 H2 H3 H4 H5 H6 H7 H8 H9).
    + cbn [parseStrictTermArg]. ty_unf. hb_tac ltac:(hbrec H1 H2 H3 H4 H5 H6 H7 H8 H9).
    + cbn [parseTarget]. ty_unf. hb_tac ltac:(hbrec H1 H2 H3 H4 H5 H6 H7 H8 H9).
Qed.

Lemma parseNextObject_hb fuel : hb (parseNextObject fuel).
Proof. apply (hbblock_all fuel). Qed.
Lemma parseObjectArgs_hb fuel c : hb (parseObjectArgs fuel c).
Proof. apply (hbblock_all fuel). Qed.

Lemma objectList_inner_hb fuel : hb (objectList_inner fuel).
Proof.
  induction fuel as [|fuel IH]; cbn [objectList_inner]; [hb_out|].
  ty_unf. hb_tac ltac:(first [apply IH | apply parseNextObject_hb]).
Qed.
Lemma parseObjectList_hb fuel : hb (parseObjectList fuel).
Proof.
  induction fuel as [|fuel IH]; cbn [parseObjectList]; [hb_out|].
  ty_unf. hb_tac ltac:(first [apply IH | apply objectList_inner_hb]).
Qed.

(** pass 2 *)
Lemma attachSiblings_go_hb fuel : forall par tgt sib n up, hb (attachSiblings_go fuel par tgt sib n up).
Proof.
  induction fuel as [|fuel IH]; intros; cbn [attachSiblings_go]; [hb_out|].
  ty_unf. hb_tac ltac:(apply IH).
Qed.
Lemma attachSiblingsAsArgs_hb fuel par tgt n up : hb (attachSiblingsAsArgs fuel par tgt n up).
Proof. unfold attachSiblingsAsArgs. ty_unf. hb_tac ltac:(apply attachSiblings_go_hb). Qed.

Lemma connectNamed_hb fuel : (forall i, hb (connectNamedObjArgs fuel i)) /\ (forall o i, hb (connectNamed_loop fuel o i)).
Proof.
  induction fuel as [|fuel (IH1 & IH2)]; (split; intros; [cbn [connectNamedObjArgs]|cbn [connectNamed_loop]]); try hb_out.
  - ty_unf. hb_tac ltac:(apply IH2).
  - unfold valueBytes. ty_unf. hb_tac ltac:(first [apply IH1 | apply IH2 | apply attachSiblingsAsArgs_hb]).
Qed.

(** pass 3 *)
Lemma nestedScope_go_hb fuel : forall i, hb (nestedScope_go fuel i).
Proof. induction fuel as [|fuel IH]; intros; cbn [nestedScope_go]; [hb_out|]. ty_unf. hb_tac ltac:(apply IH). Qed.
Lemma scopeOf_hb i : hb (scopeOf i).
Proof. unfold scopeOf. ty_unf. hb_tac ltac:(apply nestedScope_go_hb). Qed.
Lemma moveContents_go_hb fuel : forall c t i, hb (moveContents_go fuel c t i).
Proof. induction fuel as [|fuel IH]; intros; cbn [moveContents_go]; [hb_out|]. ty_unf. hb_tac ltac:(apply IH). Qed.
Lemma insideSelf_go_hb fuel : forall a o, hb (insideSelf_go fuel a o).
Proof. induction fuel as [|fuel IH]; intros; cbn [insideSelf_go]; [hb_out|]. ty_unf. hb_tac ltac:(apply IH). Qed.

Lemma merge_hb fuel : (forall i, hb (mergeScopeDirectives fuel i)) /\ (forall i r, hb (mergeScope_loop fuel i r)).
Proof.
  induction fuel as [|fuel (IH1 & IH2)]; (split; intros; [cbn [mergeScopeDirectives]|cbn [mergeScope_loop]]); try hb_out.
  - ty_unf. hb_tac ltac:(first [apply IH2 | apply scopeOf_hb | apply moveContents_go_hb]).
  - ty_unf. hb_tac ltac:(first [apply IH1 | apply IH2]).
Qed.
Lemma relocate_hb fuel : (forall i, hb (relocateNamedObjects fuel i)) /\ (forall i r, hb (relocate_loop fuel i r)).
Proof.
  induction fuel as [|fuel (IH1 & IH2)]; (split; intros; [cbn [relocateNamedObjects]|cbn [relocate_loop]]); try hb_out.
  - unfold valueBytes. ty_unf. hb_tac ltac:(first [apply IH2 | apply scopeOf_hb | apply insideSelf_go_hb]).
  - ty_unf. hb_tac ltac:(first [apply IH1 | apply IH2]).
Qed.
Lemma resolve_loop_hb wf : forall fuel, hb (resolve_loop fuel wf).
Proof.
  induction fuel as [|fuel IH]; cbn [resolve_loop]; [hb_out|].
  hb_tac ltac:(first [apply IH | apply (proj1 (merge_hb wf)) | apply (proj1 (relocate_hb wf))]).
Qed.

(** pass 4 *)
Lemma popAll_go_hb fuel : hb (popAll_go fuel).
Proof. induction fuel as [|fuel IH]; cbn [popAll_go]; [hb_out|]. hb_tac ltac:(apply IH). Qed.
Lemma deferred_hb fuel pf : (forall i, hb (parseDeferredBlocks fuel pf i)) /\ (forall i, hb (deferred_loop fuel pf i)).
Proof.
  induction fuel as [|fuel (IH1 & IH2)]; (split; intros; [cbn [parseDeferredBlocks]|cbn [deferred_loop]]); try hb_out.
  - ty_unf. hb_tac ltac:(first [apply IH2 | apply parseObjectArgs_hb | apply popAll_go_hb]).
  - ty_unf. hb_tac ltac:(first [apply IH1 | apply IH2]).
Qed.

(** passes 5 and 6 *)
Lemma connectNonNamedObjArg_hb fuel obj arg : hb (connectNonNamedObjArg fuel obj arg).
Proof. unfold connectNonNamedObjArg. ty_unf. hb_tac ltac:(apply attachSiblingsAsArgs_hb). Qed.
Lemma nonNamed_hb fuel : (forall i, hb (connectNonNamedObjArgs fuel i)) /\ (forall o i, hb (connectNonNamed_loop fuel o i)).
Proof.
  induction fuel as [|fuel (IH1 & IH2)]; (split; intros; [cbn [connectNonNamedObjArgs]|cbn [connectNonNamed_loop]]); try hb_out.
  - ty_unf. hb_tac ltac:(apply IH2).
  - ty_unf. hb_tac ltac:(first [apply IH1 | apply IH2 | apply connectNonNamedObjArg_hb]).
Qed.
Lemma calls_hb fuel : (forall i, hb (resolveMethodCalls fuel i)) /\ (forall o i, hb (resolveCalls_loop fuel o i)).
Proof.
  induction fuel as [|fuel (IH1 & IH2)]; (split; intros; [cbn [resolveMethodCalls]|cbn [resolveCalls_loop]]); try hb_out.
  - ty_unf. hb_tac ltac:(apply IH2).
  - ty_unf. hb_tac ltac:(first [apply IH1 | apply IH2 | apply connectNonNamedObjArg_hb | apply attachSiblingsAsArgs_hb]).
Qed.

(** ---- ParseAML ---- *)
Theorem parseAML_body_hb fuel : hb (parseAML_body fuel).
Proof.
  unfold parseAML_body.
  hb_tac ltac:(first [ apply parseObjectList_hb | apply (proj1 (connectNamed_hb fuel)) | apply resolve_loop_hb
                     | apply (proj1 (deferred_hb fuel fuel)) | apply (proj1 (calls_hb fuel)) | apply (proj1 (nonNamed_hb fuel)) ]).
Qed.

(** every handle of the pool a successful ParseAML returns is at most the handle of the table, if that held before *)
Theorem parseAML_handles : forall tree earlier h data b s',
  (forall i o, tget tree i = Some o -> o_tableHandle o <= h) ->
  parseAML tree earlier h data = Ok (b, s') ->
  forall i o, tget (p_tree s') i = Some o -> o_tableHandle o <= h.
Proof.
  intros tree earlier h data b s' Hb E. unfold parseAML in E.
  destruct (parseAML_body_hb _ _ _ _ E) as (_ & H); [exact Hb|exact H].
Qed.
