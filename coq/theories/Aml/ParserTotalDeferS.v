From Coq Require Import NArith Arith List Bool Lia.
From Coq Require Import ZifyBool ZifyN ZifyNat.
From FF Require Import Lib.Word Gen.Consts_device_acpi_aml Gen.Consts_aml_tree Aml.Stream Aml.Lex Aml.LexProofs
  Aml.Tree Aml.Parser Aml.ParserProofs Aml.TreeSpec Aml.TreeProofs Aml.TreeProofsOps Aml.TreeProofsFind Aml.TreeProofsAnc
  Aml.ParserTotalTree Aml.ParserTotalTree2 Aml.ParserTotalLex Aml.ParserTotalTable Aml.ParserTotalBase Aml.ParserTotalLeaf
  Aml.ParserTotalFrame Aml.ParserTotalLeaf2 Aml.ParserTotalFirst Aml.ParserTotalConn Aml.ParserTotalReloc Aml.ParserTotalDefer.
Import ListNotations.
Local Open Scope N_scope.

(** peekNextOpcode = nextOpcode with the offset put back *)
Lemma peek_next r : rok r ->
  exists op ok r1, nextOpcode r = Ok (op, ok, r1) /\ peekNextOpcode r = Ok (op, ok, r) /\ adv r r1 /\
    (ok = true -> r_offset r < r_offset r1 /\ op <= 0x1fe /\
                  exists idx, opcodeTableIndex op false = Some idx /\ idx <> aml_badOpcode) /\
    (ok = false -> r_offset r1 = r_offset r /\ op = 0xffff).
Proof.
  intros H. destruct (nextOpcode_off r H) as (op & ok & r1 & E & A & K1 & K2).
  exists op, ok, r1. split; [exact E|]. split; [|auto].
  unfold peekNextOpcode. rewrite E. cbn [bind]. f_equal. f_equal.
  destruct A as ((Ed & El & Ep) & _ & _). destruct H as (_ & _ & O).
  unfold setOffset. rewrite El. assert (Hlt : (r_len r <? r_offset r) = false) by (apply N.ltb_ge; exact O). rewrite Hlt.
  destruct r as [d l o p], r1 as [d1 l1 o1 p1]. cbn in *. subst. reflexivity.
Qed.

Lemma wp_peekop P s (Q : N * bool -> pstate -> Prop) : rok (p_r s) ->
  (forall op ok r1, nextOpcode (p_r s) = Ok (op, ok, r1) -> adv (p_r s) r1 ->
     (ok = true -> r_offset (p_r s) < r_offset r1 /\ op <= 0x1fe /\
                   exists idx, opcodeTableIndex op false = Some idx /\ idx <> aml_badOpcode) ->
     (ok = false -> op = 0xffff) -> Q (op, ok) (with_r s (p_r s))) ->
  wp P (lex peekNextOpcode) s Q.
Proof.
  intros H K. destruct (peek_next _ H) as (op & ok & r1 & E & Ep & A & K1 & K2).
  apply wp_lex. exists op, ok, (p_r s). split; [exact Ep|]. apply (K op ok r1 E A K1). intros Eo. apply (K2 Eo).
Qed.

(** popPkgEnd: total, touches only the pkgEnd stack and the reader's pkgEnd *)
Lemma wp_popPkgEnd {md} P s g (Q : unit -> pstate -> Prop) : FIm md s g ->
  (forall s', FIm md s' g -> p_tree s' = p_tree s -> p_scopeStack s' = p_scopeStack s ->
              r_offset (p_r s') = r_offset (p_r s) -> r_len (p_r s') = r_len (p_r s) -> Q tt s') ->
  wp P popPkgEnd s Q.
Proof.
  intros H K. unfold wp, popPkgEnd.
  destruct (match p_pkgEndStack s with [] => [] | _ :: rest => rest end) as [|topE st] eqn:E.
  - apply K; auto. apply FI_with_pkgEnd. exact H.
  - destruct (setPkgEnd_off (p_r (with_pkgEndStack s (topE :: st))) topE) as (Eo & El).
    apply K; auto.
    apply FI_with_r; [apply FI_with_pkgEnd; exact H|]. apply rok_setPkgEnd. apply (fi_rok _ _ H).
Qed.

Section StepS.
Variable tbls : list (list N).
Notation IV := (Inv tbls).
Notation FD := (FIm true).

Ltac wwrfI I H Hl :=
  wbi tbls I; eapply (wrf_step _ _ _ _ _ _ H Hl);
  [ let o := fresh "o" in let Ho := fresh "Ho" in intros o Ho; lk_tac
  | let o := fresh "o" in let Ho := fresh "Ho" in let Hi := fresh "Hi" in intros o Ho Hi; info_tac
  | ].

Lemma glive_append g o a x : glive (astep g (OpAppend o a)) x <-> glive g x.
Proof. cbn [astep]. unfold glive. rewrite set_kids_len, set_kids_free. tauto. Qed.

Lemma glive_detach g o a x : glive (astep g (OpDetach o a)) x <-> glive g x.
Proof. cbn [astep]. unfold glive. rewrite set_kids_len, set_kids_free. tauto. Qed.

Lemma mtyped_pframe_kids s g (t' : T) g' m c :
  gwf g -> mtyped s g m -> pframe (p_tree s) t' -> (forall q, q <> c -> kids g' q = kids g q) -> m <> c -> nnp s c ->
  mtyped (with_tree s t') g' m.
Proof.
  intros Hwf (a0 & a1 & rest & a0o & a1o & v & Hk & Ha0 & Hn0 & Ha1 & Hv & Hn1 & Hmx) Hpf Ekq Hmc Hnc.
  destruct (proj2 Hpf _ _ Ha0) as (a0o' & Ha0' & E0). destruct (proj2 Hpf _ _ Ha1) as (a1o' & Ha1' & E1).
  destruct (pay_eq_pnv _ _ E0) as (E0' & _). destruct (pay_eq_pnv _ _ E1) as (E1' & V1).
  assert (Ha0c : a0 <> c) by (intros ->; destruct Hmx as (_ & M2 & _); exact (Hnc a0o Ha0 M2)).
  exists a0, a1, rest, a0o', a1o', v. rewrite (Ekq m Hmc). split; [exact Hk|]. split; [exact Ha0'|]. split; [eapply nodefer_pnv; eauto|].
  split; [exact Ha1'|]. split; [congruence|]. split; [eapply nodefer_pnv; eauto|].
  apply (mx_pnv g g' a0 a0o a0o' a1o a1o' E0' E1' (Ekq a0 Ha0c) Hmx).
Qed.

(** the end of both branches: at the end of the package the pkgEnd stack is popped *)
Lemma strict_tail (a : option N) (res : pres) s g (Q : option N * pres -> pstate -> Prop) :
  FD s g ->
  (forall s', FD s' g -> p_tree s' = p_tree s -> p_scopeStack s' = p_scopeStack s ->
              r_offset (p_r s') = r_offset (p_r s) -> r_len (p_r s') = r_len (p_r s) -> Q (a, res) s') ->
  wp True (mlet e <~ eofM ;; (if e then popPkgEnd else ret tt) ;;; ret (a, res)) s Q.
Proof.
  intros H K. apply wp_bind, wp_get. destruct (eof (p_r s)).
  - apply wp_bind. eapply wp_popPkgEnd; [exact H|]. intros s' H' E1 E2 E3 E4. apply wp_ret. apply K; auto.
  - apply wp_bind. apply wp_ret. apply wp_ret. apply K; auto.
Qed.

Lemma remove1_last_fresh (p : N) l : ~ In p l -> remove1 p (l ++ [p]) = l.
Proof.
  induction l as [|x l IH]; intros Hn; cbn [app remove1].
  - rewrite N.eqb_refl. reflexivity.
  - destruct (N.eqb_spec x p) as [->|Hne]; [exfalso; apply Hn; left; reflexivity|]. rewrite IH; auto. intros F. apply Hn. right. exact F.
Qed.

Lemma kids_detach g o a q : o < N.of_nat (length (g_kids g)) ->
  kids (astep g (OpDetach o a)) q = if q =? o then remove1 a (kids g o) else kids g q.
Proof. intros Ho. cbn [astep]. rewrite kids_set_kids by exact Ho. destruct (q =? o) eqn:E; [apply N.eqb_eq in E; subst|]; reflexivity. Qed.

Lemma gext_detach_fresh g0 g o a : gext g0 g -> ~ glive g0 a -> gwf g0 -> o < N.of_nat (length (g_kids g)) ->
  gext g0 (astep g (OpDetach o a)).
Proof.
  intros [A1 A2 A3] Hna Hwf Ho. constructor.
  - intros x Hx. apply glive_detach. apply A1. exact Hx.
  - intros p c Hin Hc. rewrite kids_detach in Hin by exact Ho. apply (A2 p c); [|exact Hc].
    destruct (p =? o) eqn:E; [apply N.eqb_eq in E; subst; eapply remove1_In; eauto|exact Hin].
  - intros p c Hin. rewrite kids_detach by exact Ho. pose proof (A3 p c Hin) as Hin'.
    destruct (p =? o) eqn:E; [|exact Hin']. apply N.eqb_eq in E. subst p. apply In_remove1_neq; [|exact Hin'].
    intros ->. apply Hna. apply (Hwf o a Hin).
Qed.

(** detaching the object [x] that was appended to [c] last *)
Lemma detach_last_step P c x s g0 g (Q : unit -> pstate -> Prop) :
  FD s g -> gwf g0 -> gext g0 g -> glive g0 c -> ~ glive g0 x -> kids g c = kids g0 c ++ [x] ->
  (forall t', let g' := astep g (OpDetach c x) in
     FD (with_tree s t') g' -> gext g0 g' -> pframe (p_tree s) t' -> kids g' c = kids g0 c ->
     (forall q, q <> c -> kids g' q = kids g q) -> glive g' x -> groot g' x ->
     Q tt (with_tree s t')) ->
  wp P (detachM (Some c) (Some x)) s Q.
Proof.
  intros H Hwf Hext Hlc Hnx Hk K. pose proof (fi_R _ _ H) as HR.
  assert (Hin : In x (kids g c)) by (rewrite Hk; apply in_or_app; right; left; reflexivity).
  destruct (detach_full (p_tree s) g c x HR Hin) as (t' & E & HR' & Hpf).
  assert (Hclt : c < N.of_nat (length (g_kids g))) by (apply glive_lt; apply (ge_live _ _ Hext); exact Hlc).
  assert (Hnin : ~ In x (kids g0 c)) by (intros F; apply Hnx; apply (Hwf c x F)).
  apply wp_detachM. exists t'. split; [exact E|]. apply K.
  - apply FI_with_tree with (g := g); auto.
    + eapply info_valid_pframe; [apply (fi_info _ _ H)|exact Hpf].
    + intros y Hy. apply glive_detach. exact Hy.
  - apply gext_detach_fresh; auto.
  - exact Hpf.
  - rewrite kids_detach by exact Hclt. rewrite N.eqb_refl, Hk. apply remove1_last_fresh. exact Hnin.
  - intros q Hq. rewrite kids_detach by exact Hclt. apply N.eqb_neq in Hq. rewrite Hq. reflexivity.
  - apply glive_detach. apply ((R_gwf _ _ HR) c x Hin).
  - intros q Hq. rewrite kids_detach in Hq by exact Hclt. destruct (q =? c) eqn:Eq.
    + rewrite Hk, remove1_last_fresh in Hq by exact Hnin. contradiction.
    + apply N.eqb_neq in Eq. apply Eq. eapply (R_parent_unique _ _ HR); eauto.
Qed.

Lemma strict_cond_eq op : negb (isType2 op) && negb (isDataObject op) && negb (isArg op) = negb (strict_cond op).
Proof. unfold strict_cond. destruct (isType2 op), (isDataObject op), (isArg op); reflexivity. Qed.

Lemma Psi_eq s s' : p_tree s' = p_tree s -> r_offset (p_r s') = r_offset (p_r s) -> r_len (p_r s') = r_len (p_r s) -> Psi s' = Psi s.
Proof. intros E1 E2 E3. unfold Psi, lp, rem. rewrite E1, E2, E3. reflexivity. Qed.

Lemma step_Dstrict fuel : D_name tbls fuel -> D_objargs tbls fuel -> D_strict tbls (S fuel).
Proof.
  intros IHn IHo curObj s g H I0 H0 Hl Hroom HTM Hnnp. cbn [parseStrictTermArg].
  pose proof (fi_rok _ _ H) as Hrok. pose proof (roomD_lp _ _ Hroom) as Hlp.
  pose proof (fi_R _ _ H) as HR. pose proof (R_gwf _ _ HR) as Hwf.
  wbi tbls I0. apply wp_get. intros _.
  wbi tbls I0. apply wp_peekop; auto. intros nextOp ok r1 Enx Hadv Hok Hnok I1.
  set (s1 := with_r s (p_r s)) in *.
  assert (H1 : FD s1 g) by (apply FI_with_r; auto).
  assert (F1 : Fr NoP (eq curObj) NoP s g s1 g) by (eapply Fr_tree_eq; [apply Fr_refl|reflexivity]).
  assert (EP1 : Psi s1 = Psi s) by reflexivity.
  assert (A1 : at_ s s1 0 0).
  { eapply at_r; [apply at_refl; auto|reflexivity|lia|destruct Hrok as (_ & _ & O); exact O]. }
  destruct ok; cbn [negb].
  - (* an operator *)
    destruct (Hok eq_refl) as (Hlt & Hop & idx & Hidx & Hbad). clear Hok Hnok.
    rewrite strict_cond_eq. destruct (strict_cond nextOp) eqn:Esc; cbn [negb].
    2:{ apply wp_ret. exists g. split; [exact H1|]. split; [constructor; [apply gext_refl|reflexivity|unfold s1; pcbn; lia|exists []; reflexivity]|].
        split; [exact F1|]. split; [exact I|]. split; [lia|]. split; [discriminate|]. intros E; discriminate. }
    wbi tbls I1. apply wp_lex. exists nextOp, true, r1. split; [exact Enx|]. intros I2.
    set (s2 := with_r s1 r1) in *.
    assert (H2 : FD s2 g) by (apply FI_adv; auto).
    assert (F2 : Fr NoP (eq curObj) NoP s g s2 g) by (eapply Fr_tree_eq; [apply Fr_refl|reflexivity]).
    assert (A2 : at_ s s2 1 0).
    { eapply at_r; [exact A1|destruct Hadv as ((_ & E & _) & _); exact E|unfold s1; pcbn; lia|destruct Hadv as (_ & _ & L); exact L]. }
    destruct (valid_op _ _ Hop Hidx Hbad) as (Hnk & Hidx').
    wbi tbls I2. eapply new_step2; [exact H2|exact Hnk| |].
    { unfold lp in *. unfold s2, s1. pcbn. lia. }
    intros p t3 g3 po H3 Hext3 Hfresh3 Hlive3 Hroot3 Hkids3 Hpo Hpop Hpval Hpidx Hl3 Hfw3 Hks3 Hlv3 I3.
    set (s3 := with_tree s2 t3) in *.
    assert (F3 : Fr NoP (eq curObj) NoP s g s3 g3) by (apply (Fr_new NoP (eq curObj) NoP s g s2 g t3 g3 p F2 (fun x Hx => Hx) Hfresh3 Hfw3 Hks3)).
    assert (A3 : at_ s s3 1 1) by (eapply at_new'; [exact A2|exact Hl3|reflexivity]).
    wwrfI I3 H3 Hlive3. intros o4 Hg4 Hlo4 H4 I4.
    match type of H4 with FIm true ?st _ => set (s4 := st) in * end.
    assert (F4 : Fr NoP (eq curObj) NoP s g s4 g3) by (apply Fr_tset_fresh; [exact F3|exact Hfresh3]).
    assert (A4 : at_ s s4 1 1) by (apply at_tset; exact A3).
    wbi tbls I4. eapply (append_step _ curObj p s4 g3 g); [exact H4|exact Hwf|exact Hext3|exact Hl|exact Hfresh3|exact Hlive3|exact Hroot3|].
    intros t5 H5 Hext5 Hpf5 Hk5 Hk5' I5.
    set (g5 := astep g3 (OpAppend curObj p)) in *. set (s5 := with_tree s4 t5) in *.
    assert (F5 : Fr NoP (eq curObj) NoP s g s5 g5).
    { apply (Fr_append NoP (eq curObj) NoP s g s4 g3 t5 g5 curObj p F4 Hpf5 Hk5 Hk5'). intros _. left. reflexivity. }
    assert (A5 : at_ s s5 1 1) by (apply at_pframe; [exact A4|exact Hpf5]).
    pose proof (at_Psi _ _ _ _ A5) as P5.
    assert (Hkc5 : kids g5 curObj = kids g curObj ++ [p]) by (rewrite Hk5, Hks3; reflexivity).
    assert (Hlive5 : glive g5 p) by (apply glive_append; exact Hlive3).
    assert (Hpc : p <> curObj) by (intros E; apply Hfresh3; rewrite E; exact Hl).
    assert (Hp5 : exists po5, tget (p_tree s5) p = Some po5 /\ o_opcode po5 = nextOp /\ o_infoIndex po5 = o_infoIndex po).
    { assert (Hp4 : tget (p_tree s4) p = Some (set_amlOffset (r_offset (p_r s)) po)).
      { unfold s4, s3. pcbn. rewrite get_tset, N.eqb_refl. assert (Hy : tget t3 p = Some po) by exact Hpo. rewrite Hy. reflexivity. }
      destruct (proj2 Hpf5 _ _ Hp4) as (po5 & Hpo5 & E5 & E5' & _). exists po5. split; [exact Hpo5|].
      cbn [o_opcode o_infoIndex set_amlOffset] in E5, E5'. split; congruence. }
    destruct Hp5 as (po5 & Hpo5 & Eop5 & Eii5).
    destruct (opInfo idx) as [[[rop rfl] raf]|] eqn:Erow.
    2:{ exfalso. destruct Hnk as (_ & _ & i0 & Hi0 & Hinf0). rewrite Hidx' in Hi0. inversion Hi0; subst i0. contradiction. }
    destruct (strict_facts nextOp idx rop rfl raf Hop Esc Hidx' Erow) as (Hnm & Hnfl).
    assert (Hii : o_infoIndex po5 = idx) by (rewrite Eii5; rewrite Hidx' in Hpidx; inversion Hpidx; reflexivity).
    assert (Hnofl : ~ hasfl s5 p).
    { intros (co & op' & fl' & af' & Hco & Hinfo & (k & Hk & Hfl)). assert (co = po5) by congruence. subst co.
      rewrite Hii, Erow in Hinfo. inversion Hinfo; subst. exact (Hnfl k Hk Hfl). }
    assert (HTM5 : TM (eq p) s5 g5).
    { eapply (TM_frame2 NoX (eq p) NoP (eq curObj) NoP s g s5 g5 Hwf HR HTM F5); try (intros; contradiction); try apply Eok_NoP; [intros i <-; exact Hnnp|].
      intros m mo Hm Hmop Hnl. left.
      assert (Hl5m : glive g5 m) by (apply (R_live_glive _ _ (fi_R _ _ H5)); exists mo; split; [exact Hm|rewrite Hmop; discriminate]).
      apply glive_append in Hl5m. destruct (Hlv3 m Hl5m) as [F|F]; [contradiction|symmetry; exact F]. }
    assert (H05 : glive g5 0) by (apply glive_append; apply (ge_live _ _ Hext3); exact H0).
    wbi tbls I5. eapply wp_weaken; [apply (IHo p s5 g5 H5 I5 H05 Hlive5)| |].
    + unfold roomD in *. lia.
    + exact HTM5.
    + intros co Hco Hcop. exfalso. assert (co = po5) by congruence. subst co. rewrite Eop5 in Hcop. contradiction.
    + intros F. contradiction.
    + apply (nota1_appended s g s5 g5 curObj p Hwf HR (fi_R _ _ H5) HTM (fr_keep _ _ _ _ _ _ _ F5) Hl Hfresh3 Hkc5).
    + auto.
    + intros res s6 (g6 & H6 & X6 & G3 & G4 & G5 & G6 & G7) I6.
      assert (Hext6 : gext g g6) by (eapply gext_trans; [exact Hext5|apply (xd_g _ _ _ _ X6)]).
      assert (Hlc5 : glive g5 curObj) by (apply glive_append; apply (ge_live _ _ Hext3); exact Hl).
      assert (Hkc6 : kids g6 curObj = kids g curObj ++ [p]).
      { destruct (fr_kids _ _ _ _ _ _ _ G3 curObj Hlc5) as (_ & Hex); [intros (F & _); contradiction|].
        rewrite Hex; [exact Hkc5|]. intros E. apply Hpc. exact E. }
      wbi tbls I6. eapply (detach_last_step _ curObj p s6 g g6); [exact H6|exact Hwf|exact Hext6|exact Hl|exact Hfresh3|exact Hkc6|].
      intros t7 g7 H7 Hext7 Hpf7 Hkc7 Hkq7 Hlive7 Hroot7 I7.
      set (s7 := with_tree s6 t7) in *.
      apply (strict_tail (Some p) res s7 g7); [exact H7|].
      intros s8 H8 E81 E82 E83 E84.
      assert (EP8 : Psi s8 = Psi s6).
      { unfold Psi, lp, rem. rewrite E81, E83, E84. unfold s7. pcbn. rewrite (proj1 Hpf7). reflexivity. }
      exists g7. split; [exact H8|].
      split.
      { constructor; [exact Hext7| | |].
        - rewrite E84. change (r_len (p_r s7)) with (r_len (p_r s6)). rewrite (xd_len _ _ _ _ X6). destruct A5 as (L & _). exact L.
        - rewrite E83. change (r_offset (p_r s7)) with (r_offset (p_r s6)). pose proof (xd_off _ _ _ _ X6). destruct A5 as (_ & O5 & _). lia.
        - rewrite E82. change (p_scopeStack s7) with (p_scopeStack s6). destruct (xd_scopes _ _ _ _ X6) as (e & Ee). exists e. rewrite Ee.
          destruct A5 as (_ & _ & _ & _ & A55 & _). rewrite A55. reflexivity. }
      assert (Hkeep8 : keep NoP s g s8).
      { apply keep_gets with (s1 := s7); [|intros i _; rewrite E81; reflexivity].
        apply keep_pframe; [|exact Hpf7].
        eapply keep_trans; [apply (fr_keep _ _ _ _ _ _ _ F5)|apply (fr_keep _ _ _ _ _ _ _ G3)| |].
        - intros y Hy. apply glive_append. apply (ge_live _ _ Hext3). exact Hy.
        - intros i Hi E. subst i. contradiction. }
      assert (Hkids8 : forall y, glive g y -> kids g7 y = kids g y).
      { intros y Hy. destruct (N.eq_dec y curObj) as [->|Hne]; [exact Hkc7|].
        rewrite (Hkq7 y Hne).
        assert (Hy5 : glive g5 y) by (apply glive_append; apply (ge_live _ _ Hext3); exact Hy).
        destruct (fr_kids _ _ _ _ _ _ _ G3 y Hy5) as (_ & Hex); [intros (F & _); contradiction|].
        rewrite Hex; [|intros E; subst y; contradiction].
        destruct (fr_kids _ _ _ _ _ _ _ F5 y Hy) as (_ & Hex5); [intros []|]. apply Hex5. intros E. apply Hne. symmetry. exact E. }
      assert (F8 : Fr NoP NoP NoP s g s8 g7).
      { constructor; [exact Hkeep8|]. intros y Hy _. rewrite (Hkids8 y Hy).
        split; [exists []; rewrite app_nil_r; reflexivity|reflexivity]. }
      split; [eapply Fr_weaken; [| | |exact F8]; auto; intros y _ []|].
      split; [cbn [fresh_root]; split; [exact Hfresh3|split; [exact Hlive7|exact Hroot7]]|].
      split; [lia|]. split; [exact G6|].
      intros Hr. destruct (G7 Hr) as (K1 & K2 & K3). split; [lia|]. split; [|split].
      * eapply (TM_frame2 NoX NoX NoP NoP NoP s g s8 g7 Hwf HR HTM F8); try (intros; contradiction); try apply Eok_NoP.
        intros m mo Hm Hmop Hnl. right.
        rewrite E81 in Hm. unfold s7 in Hm. pcbn_in Hm.
        destruct (pframe_inv _ _ _ _ Hpf7 Hm) as (mo6 & Hm6 & E6 & _).
        assert (Ht6 : mtyped s6 g6 m) by (apply (K2 m mo6 Hm6); [congruence|intros []]).
        assert (Hmc : m <> curObj) by (intros E; subst m; contradiction).
        assert (Hnnp6 : nnp s6 curObj).
        { apply (nnp_keep NoP s g s6 curObj); [|exact HR|exact Hl|exact Hnnp].
          eapply keep_trans; [apply (fr_keep _ _ _ _ _ _ _ F5)|apply (fr_keep _ _ _ _ _ _ _ G3)| |].
          - intros y Hy. apply glive_append. apply (ge_live _ _ Hext3). exact Hy.
          - intros i Hi E. subst i. contradiction. }
        pose proof (mtyped_pframe_kids s6 g6 t7 g7 m curObj (R_gwf _ _ (fi_R _ _ H6)) Ht6 Hpf7 Hkq7 Hmc Hnnp6) as Ht7.
        destruct Ht7 as (a0 & a1 & rest & a0o & a1o & v & Q1 & Q2 & Q3 & Q4 & Q5 & Q6 & Q7).
        exists a0, a1, rest, a0o, a1o, v. rewrite E81. auto 10.
      * rewrite E82. change (p_scopeStack s7) with (p_scopeStack s6). rewrite K3.
        destruct A5 as (_ & _ & _ & _ & A55 & _). exact A55.
      * apply Hkids8. exact Hl.
  - (* a name *)
    pose proof (Hnok eq_refl) as Enop. clear Hok Hnok.
    destruct (FI_live_get _ _ _ H1 Hl) as (co & Hco & Hlco).
    wbi tbls I1. apply wp_rdf. exists co. split; [exact Hco|]. intros _. rewrite (R_index _ _ (fi_R _ _ H1) _ _ Hco).
    wbi tbls I1. apply wp_scopeEnter. intros I2.
    set (s2 := with_scopeStack s1 (curObj :: p_scopeStack s1)) in *.
    assert (Est2 : p_scopeStack s2 = curObj :: p_scopeStack s) by reflexivity.
    assert (H2 : FD s2 g).
    { apply FI_with_scope; [exact H1|]. constructor; [exact Hl|]. apply (fi_scopes _ _ H1). }
    assert (EP2 : Psi s2 = Psi s) by reflexivity.
    wbi tbls I2. eapply wp_weaken; [apply (IHn s2 g curObj (p_scopeStack s) H2 I2 H0 Est2)| |].
    + unfold roomD in *. lia.
    + eapply TM_tree_eq; [exact HTM|reflexivity].
    + exact Hnnp.
    + auto.
    + intros res s3 (g3 & H3 & X3 & G3 & G4 & G5 & G6) I3.
      destruct (xd_scopes _ _ _ _ X3) as (extra & Es3). rewrite Est2 in Es3.
      assert (Hst3 : exists x st, p_scopeStack s3 = x :: st /\ exists e2, st = e2 ++ p_scopeStack s /\ (res = ROk -> e2 = [])).
      { destruct extra as [|e extra'].
        - exists curObj, (p_scopeStack s). split; [exact Es3|]. exists []. split; [reflexivity|auto].
        - exists e, (extra' ++ curObj :: p_scopeStack s). split; [exact Es3|]. exists (extra' ++ [curObj]). split; [rewrite <- app_assoc; reflexivity|].
          intros Er. destruct (G6 Er) as (_ & _ & Est3 & _). rewrite Est2 in Est3. rewrite Est3 in Es3.
          exfalso. assert (Hlen : length (curObj :: p_scopeStack s) = length ((e :: extra') ++ curObj :: p_scopeStack s)) by (rewrite <- Es3; reflexivity).
          rewrite app_length in Hlen. cbn [length] in Hlen. lia. }
      destruct Hst3 as (x3 & st3 & Es3' & e2 & Est3 & He2).
      wbi tbls I3. eapply wp_scopeExit; [exact Es3'|]. intros I4.
      set (s4 := with_scopeStack s3 st3) in *.
      assert (H4 : FD s4 g3).
      { apply FI_with_scope; [exact H3|]. pose proof (fi_scopes _ _ H3) as Fs. rewrite Es3' in Fs. inversion Fs; auto. }
      assert (EP4 : Psi s4 = Psi s3) by reflexivity.
      assert (Hext3 : gext g g3) by (apply (xd_g _ _ _ _ X3)).
      assert (HX4 : forall s', p_scopeStack s' = p_scopeStack s4 ->
                r_offset (p_r s') = r_offset (p_r s4) -> r_len (p_r s') = r_len (p_r s4) -> forall g', gext g g' -> ExtD s g s' g').
      { intros s' E2 E3 E4 g' Hg'. constructor; [exact Hg'| | |].
        - rewrite E4. change (r_len (p_r s4)) with (r_len (p_r s3)). rewrite (xd_len _ _ _ _ X3). reflexivity.
        - rewrite E3. change (r_offset (p_r s4)) with (r_offset (p_r s3)). pose proof (xd_off _ _ _ _ X3) as O. exact O.
        - rewrite E2. exists e2. unfold s4. pcbn. exact Est3. }
      destruct (pres_eqb res ROk) eqn:Er.
      * assert (res = ROk) by (destruct res; try discriminate; reflexivity). subst res.
        destruct (G6 eq_refl) as (K1 & K2 & K3 & (x & Hkx & Hfx)).
        assert (Hlc3 : glive g3 curObj) by (apply (ge_live _ _ Hext3); exact Hl).
        destruct (FI_live_get _ _ _ H4 Hlc3) as (co4 & Hco4 & Hlco4).
        destruct (R_kids _ _ (fi_R _ _ H4) _ _ Hco4 Hlco4) as (_ & Hlast & _).
        assert (Hlastx : o_last co4 = x) by (rewrite Hlast, Hkx; apply last_last).
        assert (Hlx3 : glive g3 x).
        { apply ((R_gwf _ _ (fi_R _ _ H3)) curObj x). rewrite Hkx. apply in_or_app. right. left. reflexivity. }
        apply wp_bind.
        wbi tbls I4. apply wp_rdf. exists co4. split; [exact Hco4|]. intros _. rewrite Hlastx.
        wbi tbls I4. apply wp_get. intros _. rewrite (FI_ObjectAt _ _ _ H4 Hlx3).
        wbi tbls I4. eapply (detach_last_step _ curObj x s4 g g3); [exact H4|exact Hwf|exact Hext3|exact Hl|exact Hfx|exact Hkx|].
        intros t5 g5 H5 Hext5 Hpf5 Hkc5 Hkq5 Hlive5 Hroot5 I5.
        apply wp_ret.
        set (s5 := with_tree s4 t5) in *.
        apply (strict_tail (Some x) ROk s5 g5); [exact H5|].
        intros s6 H6 E61 E62 E63 E64.
        assert (EP6 : Psi s6 = Psi s3).
        { unfold Psi, lp, rem. rewrite E61, E63, E64. unfold s5, s4. pcbn. rewrite (proj1 Hpf5). reflexivity. }
        exists g5. split; [exact H6|].
        split; [apply (HX4 s6); [rewrite E62; reflexivity|rewrite E63; reflexivity|rewrite E64; reflexivity|exact Hext5]|].
        assert (Hkeep6 : keep NoP s g s6).
        { apply keep_gets with (s1 := s5); [|intros i _; rewrite E61; reflexivity].
          apply keep_pframe; [|exact Hpf5].
          apply keep_gets with (s1 := s3); [|intros i _; reflexivity].
          apply keep_gets with (s1 := s3); [|intros i _; reflexivity].
          eapply keep_trans; [apply keep_refl|apply (fr_keep _ _ _ _ _ _ _ G3)|auto|auto]. }
        assert (Hkids6 : forall y, glive g y -> kids g5 y = kids g y).
        { intros y Hy. destruct (N.eq_dec y curObj) as [->|Hne]; [exact Hkc5|].
          rewrite (Hkq5 y Hne).
          destruct (fr_kids _ _ _ _ _ _ _ G3 y Hy) as (_ & Hex); [intros []|]. apply Hex. intros E. apply Hne. symmetry. exact E. }
        assert (F6 : Fr NoP NoP NoP s g s6 g5).
        { constructor; [exact Hkeep6|]. intros y Hy _. rewrite (Hkids6 y Hy).
          split; [exists []; rewrite app_nil_r; reflexivity|reflexivity]. }
        split; [eapply Fr_weaken; [| | |exact F6]; auto; intros y _ []|].
        split; [cbn [fresh_root]; split; [exact Hfx|split; [exact Hlive5|exact Hroot5]]|].
        split; [lia|]. split; [discriminate|].
        intros _. split; [lia|]. split; [|split].
        -- eapply (TM_frame2 NoX NoX NoP NoP NoP s g s6 g5 Hwf HR HTM F6); try (intros; contradiction); try apply Eok_NoP.
           intros m mo Hm Hmop Hnl. right.
           rewrite E61 in Hm. unfold s5 in Hm. pcbn_in Hm.
           destruct (pframe_inv _ _ _ _ Hpf5 Hm) as (mo4 & Hm4 & E4 & _).
           assert (Ht3 : mtyped s3 g3 m) by (apply (K2 m mo4 Hm4); [congruence|intros []]).
           assert (Hmc : m <> curObj) by (intros E; subst m; contradiction).
           assert (Ht4 : mtyped s4 g3 m).
           { destruct Ht3 as (a0 & a1 & rest & a0o & a1o & v & Q). exists a0, a1, rest, a0o, a1o, v. exact Q. }
           assert (Hnnp4 : nnp s4 curObj) by (apply (nnp_keep NoP s g s3 curObj (fr_keep _ _ _ _ _ _ _ G3) HR Hl Hnnp)).
           pose proof (mtyped_pframe_kids s4 g3 t5 g5 m curObj (R_gwf _ _ (fi_R _ _ H3)) Ht4 Hpf5 Hkq5 Hmc Hnnp4) as Ht5.
           destruct Ht5 as (a0 & a1 & rest & a0o & a1o & v & Q1 & Q2 & Q3 & Q4 & Q5 & Q6 & Q7).
           exists a0, a1, rest, a0o, a1o, v. rewrite E61. auto 10.
        -- rewrite E62. unfold s5, s4. pcbn. rewrite Est3, (He2 eq_refl). reflexivity.
        -- apply Hkids6. exact Hl.
      * (* the name was not resolved *)
        apply wp_bind. apply wp_ret.
        apply (strict_tail None res s4 g3); [exact H4|].
        intros s6 H6 E61 E62 E63 E64.
        assert (EP6 : Psi s6 = Psi s3) by (apply Psi_eq; [rewrite E61|rewrite E63|rewrite E64]; reflexivity).
        exists g3. split; [exact H6|].
        split; [apply (HX4 s6); [rewrite E62; reflexivity|rewrite E63; reflexivity|rewrite E64; reflexivity|exact Hext3]|].
        split.
        { apply (Fr_tree_eq NoP (eq curObj) NoP s g s3 g3 s6); [|rewrite E61; reflexivity].
          eapply Fr_trans; [apply (Fr_tree_eq NoP (eq curObj) NoP s g s g s2); [apply Fr_refl|reflexivity]|exact G3|auto|auto|auto|auto]. }
        split; [exact I|]. split; [lia|]. split; [exact G5|].
        intros Eok. subst res. discriminate.
Qed.
End StepS.
