(** Layer 3 of the AML model: kernel/device/acpi/aml/obj_tree.go (ObjectTree).   Definitions only.

    The Go object pool is [[]*Object]; an object never moves, so a Go [*Object] that belongs to
    a tree is identified with its position in the pool (a number [N]); a nil pointer is [None]
    of [option N] at the places where the Go code tolerates or produces nil.  Every
    dereference of a pointer that is not in the pool, every [objPool[i]] with [i] out of range
    and every dereference of a nil result of [ObjectAt] is an explicit [Panic]; the explicit
    [panic] of [free] is [Panic] too.  Loops over sibling / parent chains take fuel
    ([OutOfFuel] = the Go loop would not have ended within that many steps).

    Field updates are performed one by one in program order on the pool ([rd] / [wr]), so
    aliased arguments (append(obj, obj), ...) behave exactly as in Go.

    The payload [value interface{}] is a type parameter [V] ([o_value = None] is Go's nil). *)
From Coq Require Import NArith List Bool.
From FF Require Import Lib.Word Gen.Consts_aml_tree Aml.Stream.
Import ListNotations.
Local Open Scope N_scope.

(** ---- constants (regenerated from /repo on every run) ---- *)
Definition InvalidIndex : N := tree_InvalidIndex.
Definition opFreed : N := tree_pOpIntFreedObject.
Definition opScope : N := tree_pOpScope.
Definition opScopeBlock : N := tree_pOpIntScopeBlock.

(** ---- names: [amlNameLen]byte ---- *)
Definition Name : Type := (N * N * N * N)%type.
Definition name_zero : Name := (0, 0, 0, 0).
Definition name_eqb (a b : Name) : bool :=
  let '(a0, a1, a2, a3) := a in let '(b0, b1, b2, b3) := b in
  (a0 =? b0) && (a1 =? b1) && (a2 =? b2) && (a3 =? b3).
Definition name_bytes (a : Name) : list N := let '(a0, a1, a2, a3) := a in [a0; a1; a2; a3].

(** ---- objects ---- *)
Record Object (V : Type) : Type := mkObject {
  o_opcode : N;        (* uint16 *)
  o_infoIndex : N;     (* uint8 *)
  o_tableHandle : N;   (* uint8 *)
  o_name : Name;
  o_index : N;         (* uint32, all the links too *)
  o_parent : N;
  o_prev : N;
  o_next : N;
  o_first : N;
  o_last : N;
  o_amlOffset : N;
  o_pkgEnd : N;
  o_value : option V
}.
Arguments mkObject {V}.
Arguments o_opcode {V}. Arguments o_infoIndex {V}. Arguments o_tableHandle {V}. Arguments o_name {V}.
Arguments o_index {V}. Arguments o_parent {V}. Arguments o_prev {V}. Arguments o_next {V}.
Arguments o_first {V}. Arguments o_last {V}. Arguments o_amlOffset {V}. Arguments o_pkgEnd {V}.
Arguments o_value {V}.

Record ObjectTree (V : Type) : Type := mkTree {
  t_pool : list (Object V);   (* objPool *)
  t_free : N                  (* freeListHeadIndex *)
}.
Arguments mkTree {V}.
Arguments t_pool {V}. Arguments t_free {V}.

(** update element [n] of a list (no effect when out of range; callers check the range) *)
Fixpoint list_upd {A} (l : list A) (n : nat) (f : A -> A) : list A :=
  match l, n with
  | [], _ => []
  | x :: r, O => f x :: r
  | x :: r, S k => x :: list_upd r k f
  end.

Section WithValue.
Context {V : Type}.
Notation Obj := (Object V).
Notation Tree := (ObjectTree V).

(** field setters *)
Definition set_opcode (v : N) (o : Obj) : Obj :=
  mkObject v (o_infoIndex o) (o_tableHandle o) (o_name o) (o_index o) (o_parent o) (o_prev o) (o_next o) (o_first o) (o_last o) (o_amlOffset o) (o_pkgEnd o) (o_value o).
Definition set_name (v : Name) (o : Obj) : Obj :=
  mkObject (o_opcode o) (o_infoIndex o) (o_tableHandle o) v (o_index o) (o_parent o) (o_prev o) (o_next o) (o_first o) (o_last o) (o_amlOffset o) (o_pkgEnd o) (o_value o).
Definition set_parent (v : N) (o : Obj) : Obj :=
  mkObject (o_opcode o) (o_infoIndex o) (o_tableHandle o) (o_name o) (o_index o) v (o_prev o) (o_next o) (o_first o) (o_last o) (o_amlOffset o) (o_pkgEnd o) (o_value o).
Definition set_prev (v : N) (o : Obj) : Obj :=
  mkObject (o_opcode o) (o_infoIndex o) (o_tableHandle o) (o_name o) (o_index o) (o_parent o) v (o_next o) (o_first o) (o_last o) (o_amlOffset o) (o_pkgEnd o) (o_value o).
Definition set_next (v : N) (o : Obj) : Obj :=
  mkObject (o_opcode o) (o_infoIndex o) (o_tableHandle o) (o_name o) (o_index o) (o_parent o) (o_prev o) v (o_first o) (o_last o) (o_amlOffset o) (o_pkgEnd o) (o_value o).
Definition set_first (v : N) (o : Obj) : Obj :=
  mkObject (o_opcode o) (o_infoIndex o) (o_tableHandle o) (o_name o) (o_index o) (o_parent o) (o_prev o) (o_next o) v (o_last o) (o_amlOffset o) (o_pkgEnd o) (o_value o).
Definition set_last (v : N) (o : Obj) : Obj :=
  mkObject (o_opcode o) (o_infoIndex o) (o_tableHandle o) (o_name o) (o_index o) (o_parent o) (o_prev o) (o_next o) (o_first o) v (o_amlOffset o) (o_pkgEnd o) (o_value o).
Definition set_amlOffset (v : N) (o : Obj) : Obj :=
  mkObject (o_opcode o) (o_infoIndex o) (o_tableHandle o) (o_name o) (o_index o) (o_parent o) (o_prev o) (o_next o) (o_first o) (o_last o) v (o_pkgEnd o) (o_value o).
Definition set_pkgEnd (v : N) (o : Obj) : Obj :=
  mkObject (o_opcode o) (o_infoIndex o) (o_tableHandle o) (o_name o) (o_index o) (o_parent o) (o_prev o) (o_next o) (o_first o) (o_last o) (o_amlOffset o) v (o_value o).
Definition set_value (v : option V) (o : Obj) : Obj :=
  mkObject (o_opcode o) (o_infoIndex o) (o_tableHandle o) (o_name o) (o_index o) (o_parent o) (o_prev o) (o_next o) (o_first o) (o_last o) (o_amlOffset o) (o_pkgEnd o) v.

(** NewObjectTree *)
Definition NewObjectTree : Tree := mkTree [] InvalidIndex.

(** [uint32(len(tree.objPool))] *)
Definition pool_len (t : Tree) : N := w32 (N.of_nat (length (t_pool t))).

(** dereference of the pointer to pool slot [p] ([Panic] = nil / out-of-range) *)
Definition deref (t : Tree) (p : N) : outcome Obj :=
  match nth_error (t_pool t) (N.to_nat p) with Some o => Ok o | None => Panic end.

(** read one field through a pointer *)
Definition rd (t : Tree) (p : N) (f : Obj -> N) : outcome N :=
  do o <- deref t p; Ok (f o).

(** write through a pointer: replace the object in slot [p] by [f] of it *)
Definition wr (t : Tree) (p : N) (f : Obj -> Obj) : outcome Tree :=
  do _ <- deref t p; Ok (mkTree (list_upd (t_pool t) (N.to_nat p) f) (t_free t)).

(** ObjectAt: the pointer to the object with that index, or nil (index beyond the pool or
    freed object).  ([nth_error] cannot fail below [pool_len]: [w32 n <= n].) *)
Definition ObjectAt (t : Tree) (index : N) : option N :=
  if pool_len t <=? index then None
  else match nth_error (t_pool t) (N.to_nat index) with
       | Some o => if o_opcode o =? opFreed then None else Some index
       | None => None
       end.

(** dereference of the result of ObjectAt (nil -> Panic) *)
Definition ObjectAt_deref (t : Tree) (index : N) : outcome N :=
  match ObjectAt t index with Some p => Ok p | None => Panic end.

(** pOpcodeTableIndex(opcode, allowInternalOp).  [opcodeMap] and [extendedOpcodeMap] are
    [256]uint8 arrays: indexing beyond them panics.  The internal-opcode formula is
    [uint8(len(pOpcodeTable) + int(opcode) - 0x1fe)] (int arithmetic, truncated). *)
Definition pOpcodeTableIndex (opcode : N) (allowInternalOp : bool) : outcome N :=
  if opcode <=? 0xff then
    match nth_error tree_opcodeMap (N.to_nat opcode) with Some v => Ok v | None => Panic end
  else
    match nth_error tree_extendedOpcodeMap (N.to_nat (opcode - 0xff)) with
    | None => Panic
    | Some index =>
        if (index =? tree_badOpcode) && allowInternalOp
        then Ok (w8 (tree_opcodeTableLen + opcode + (0x200 - 0x1fe)))
        else Ok index
    end.

(** [new(Object)] with [index = uint32(len(objPool))] *)
Definition blank_object (index : N) : Obj :=
  mkObject 0 0 0 name_zero index 0 0 0 0 0 0 0 None.

(** the field initialisation at the end of newObject (index, amlOffset, pkgEnd stay; the name is
    cleared - /repo d18acb2: a reused slot must not answer to the name of the freed object) *)
Definition init_object (opcode info tableHandle : N) (o : Obj) : Obj :=
  mkObject opcode info tableHandle name_zero (o_index o)
           InvalidIndex InvalidIndex InvalidIndex InvalidIndex InvalidIndex
           (o_amlOffset o) (o_pkgEnd o) None.

(** newObject: returns the tree and the pointer to the object *)
Definition newObject (t : Tree) (opcode tableHandle : N) : outcome (Tree * N) :=
  do tp <- (if t_free t =? InvalidIndex
            then Ok (mkTree (t_pool t ++ [blank_object (pool_len t)]) (t_free t),
                     N.of_nat (length (t_pool t)))
            else do o <- deref t (t_free t);           (* tree.objPool[tree.freeListHeadIndex] *)
                 Ok (mkTree (t_pool t) (o_next o), t_free t));
  let '(t1, p) := tp in
  do info <- pOpcodeTableIndex opcode true;
  do t2 <- wr t1 p (init_object opcode info tableHandle);
  Ok (t2, p).

Definition newNamedObject (t : Tree) (opcode tableHandle : N) (name : Name) : outcome (Tree * N) :=
  do tp <- newObject t opcode tableHandle;
  let '(t1, p) := tp in
  do t2 <- wr t1 p (set_name name);
  Ok (t2, p).

(** append(obj, arg) *)
Definition append (t : Tree) (obj arg : N) : outcome Tree :=
  do objIndex <- rd t obj o_index;
  do t <- wr t arg (set_parent objIndex);
  do argIndex <- rd t arg o_index;
  do last <- rd t obj o_last;
  if last =? InvalidIndex then
    do t <- wr t obj (set_first argIndex);
    wr t obj (set_last argIndex)
  else
    do lastArg <- ObjectAt_deref t last;
    do t <- wr t lastArg (set_next argIndex);
    do lastIndex <- rd t lastArg o_index;
    do t <- wr t arg (set_prev lastIndex);
    do t <- wr t arg (set_next InvalidIndex);
    wr t obj (set_last argIndex).

(** appendAfter(obj, arg, nextTo) *)
Definition appendAfter (t : Tree) (obj arg nextTo : N) : outcome Tree :=
  do n <- rd t nextTo o_next;
  if n =? InvalidIndex then append t obj arg
  else
    do objIndex <- rd t obj o_index;
    do t <- wr t arg (set_parent objIndex);
    do nextToIndex <- rd t nextTo o_index;
    do t <- wr t arg (set_prev nextToIndex);
    do n <- rd t nextTo o_next;
    do t <- wr t arg (set_next n);
    do argNext <- rd t arg o_next;
    do argIndex <- rd t arg o_index;
    do nx <- ObjectAt_deref t argNext;
    do t <- wr t nx (set_prev argIndex);
    do argIndex <- rd t arg o_index;
    wr t nextTo (set_next argIndex).

(** detach(obj, arg) *)
Definition detach (t : Tree) (obj arg : N) : outcome Tree :=
  do first <- rd t obj o_first;
  do argIndex <- rd t arg o_index;
  do t <- (if first =? argIndex then do n <- rd t arg o_next; wr t obj (set_first n) else Ok t);
  do last <- rd t obj o_last;
  do argIndex <- rd t arg o_index;
  do t <- (if last =? argIndex then do p <- rd t arg o_prev; wr t obj (set_last p) else Ok t);
  do n <- rd t arg o_next;
  do t <- (if negb (n =? InvalidIndex)
           then do nx <- ObjectAt_deref t n; do p <- rd t arg o_prev; wr t nx (set_prev p)
           else Ok t);
  do p <- rd t arg o_prev;
  do t <- (if negb (p =? InvalidIndex)
           then do pv <- ObjectAt_deref t p; do n <- rd t arg o_next; wr t pv (set_next n)
           else Ok t);
  do t <- wr t arg (set_prev InvalidIndex);
  do t <- wr t arg (set_next InvalidIndex);
  wr t arg (set_parent InvalidIndex).

(** free(obj); the explicit panic is [Panic] *)
Definition free (t : Tree) (obj : N) : outcome Tree :=
  do par <- rd t obj o_parent;
  do t <- (if negb (par =? InvalidIndex)
           then do pp <- ObjectAt_deref t par;      (* detach(nil, obj) dereferences nil *)
                detach t pp obj
           else Ok t);
  do first <- rd t obj o_first;
  do last <- rd t obj o_last;
  if negb (first =? InvalidIndex) || negb (last =? InvalidIndex) then Panic
  else
    do t <- wr t obj (set_opcode opFreed);
    do t <- wr t obj (set_next (t_free t));
    do objIndex <- rd t obj o_index;
    Ok (mkTree (t_pool t) objIndex).

(** fuel for one walk along a sibling or parent chain of the pool *)
Definition chain_fuel (t : Tree) : nat := S (length (t_pool t)).

(** The sibling loop shared by Find and findRelative:
      for nextIndex := start; nextIndex != InvalidIndex; nextIndex = ObjectAt(nextIndex).nextSiblingIndex {
          obj := ObjectAt(nextIndex); compare obj.name with the 4 bytes; match -> leave }
    Result: the pointer of the first sibling whose name matches, or nil. *)
Fixpoint find_sibling (fuel : nat) (t : Tree) (nextIndex : N) (nm : Name) : outcome (option N) :=
  match fuel with
  | O => OutOfFuel
  | S fuel =>
      if nextIndex =? InvalidIndex then Ok None
      else
        do p <- ObjectAt_deref t nextIndex;
        do o <- deref t p;
        if name_eqb nm (o_name o) then Ok (Some p)
        else find_sibling fuel t (o_next o) nm
  end.

(** bytes that may start a name segment: '_' or 'A'..'Z' *)
Definition is_lead (b : N) : bool := (b =? 0x5f) || ((0x41 <=? b) && (b <=? 0x5a)).

(** findRelative(scopeIndex, expr).  [skipping = true] is the inner loop that steps over
    bytes which cannot start a name (a multi-name prefix 0x2f is stepped over together with the
    segment count behind it); the top of the outer loop is [skipping = false]. *)
Fixpoint findRelative_go (skipping : bool) (t : Tree) (scopeIndex : N) (expr : list N) : outcome N :=
  match expr with
  | [] => if skipping then Ok InvalidIndex else Ok scopeIndex
  | b0 :: rest0 =>
      if is_lead b0 then
        match rest0 with
        | b1 :: b2 :: b3 :: rest =>
            do scopeObj <- ObjectAt_deref t scopeIndex;
            do first <- rd t scopeObj o_first;
            do r <- find_sibling (chain_fuel t) t first (b0, b1, b2, b3);
            match r with
            | Some c => findRelative_go false t c rest
            | None => Ok InvalidIndex
            end
        | _ => Ok InvalidIndex          (* exprLen - segIndex < amlNameLen *)
        end
      else if b0 =? 0x2f then         (* multi-name prefix: the segment count that follows is skipped with it *)
        match rest0 with
        | _ :: rest1 => findRelative_go true t scopeIndex rest1
        | [] => Ok InvalidIndex
        end
      else findRelative_go true t scopeIndex rest0
  end.

Definition findRelative (t : Tree) (scopeIndex : N) (expr : list N) : outcome N :=
  findRelative_go false t scopeIndex expr.

(** the [^] loop of Find *)
Fixpoint find_carets (t : Tree) (scopeIndex : N) (expr : list N) : outcome N :=
  match expr with
  | [] => Ok scopeIndex
  | b :: rest =>
      if b =? 0x5e then
        do s <- ObjectAt_deref t scopeIndex;
        do par <- rd t s o_parent;
        if par =? InvalidIndex then Ok InvalidIndex else find_carets t par rest
      else findRelative t scopeIndex expr
  end.

(** the upward search of Find for a single name segment *)
Fixpoint find_upward (fuel : nat) (t : Tree) (nextScopeIndex : N) (nm : Name) : outcome N :=
  match fuel with
  | O => OutOfFuel
  | S fuel =>
      if nextScopeIndex =? InvalidIndex then Ok InvalidIndex
      else
        do scopeObj <- ObjectAt_deref t nextScopeIndex;
        do first <- rd t scopeObj o_first;
        do r <- find_sibling (chain_fuel t) t first nm;
        match r with
        | Some c => rd t c o_index
        | None => do par <- rd t scopeObj o_parent; find_upward fuel t par nm
        end
  end.

(** Find(scopeIndex, expr) *)
Definition Find (t : Tree) (scopeIndex : N) (expr : list N) : outcome N :=
  match expr with
  | [] => Ok InvalidIndex
  | b0 :: rest =>
      if scopeIndex =? InvalidIndex then Ok InvalidIndex
      else if b0 =? 0x5c then
        match rest with [] => Ok 0 | _ => findRelative t 0 rest end
      else if b0 =? 0x5e then find_carets t scopeIndex expr
      else if tree_amlNameLen <? N.of_nat (length expr) then findRelative t scopeIndex expr
      else match expr with
           | [b0; b1; b2; b3] => find_upward (chain_fuel t) t scopeIndex (b0, b1, b2, b3)
           | _ => Ok InvalidIndex
           end
  end.

(** ClosestNamedAncestor(obj); [None] is the nil pointer *)
Fixpoint closest_go (fuel : nat) (t : Tree) (ancestorIndex : N) : outcome N :=
  match fuel with
  | O => OutOfFuel
  | S fuel =>
      if ancestorIndex =? InvalidIndex then Ok InvalidIndex
      else
        do a <- ObjectAt_deref t ancestorIndex;
        do o <- deref t a;
        if o_opcode o =? opScope then Ok InvalidIndex
        else match nth_error tree_opcodeTableFlags (N.to_nat (o_infoIndex o)) with
             | None => Panic                      (* pOpcodeTable[ancestor.infoIndex] *)
             | Some flags =>
                 if negb (N.land flags tree_pOpFlagNamed =? 0) then Ok ancestorIndex
                 else closest_go fuel t (o_parent o)
             end
  end.

Definition ClosestNamedAncestor (t : Tree) (obj : option N) : outcome N :=
  match obj with
  | None => Ok InvalidIndex
  | Some p => do par <- rd t p o_parent; closest_go (chain_fuel t) t par
  end.

(** NumArgs(obj) (the uint32 counter wraps) *)
Fixpoint numArgs_go (fuel : nat) (t : Tree) (siblingIndex : N) (count : N) : outcome N :=
  match fuel with
  | O => OutOfFuel
  | S fuel =>
      if siblingIndex =? InvalidIndex then Ok count
      else do s <- ObjectAt_deref t siblingIndex;
           do n <- rd t s o_next;
           numArgs_go fuel t n (w32 (count + 1))
  end.

Definition NumArgs (t : Tree) (obj : option N) : outcome N :=
  match obj with
  | None => Ok 0
  | Some p => do first <- rd t p o_first; numArgs_go (chain_fuel t) t first 0
  end.

(** ArgAt(obj, index): pointer to the arg or nil *)
Fixpoint argAt_go (fuel : nat) (t : Tree) (argIndex siblingIndex index : N) : outcome (option N) :=
  match fuel with
  | O => OutOfFuel
  | S fuel =>
      if siblingIndex =? InvalidIndex then Ok None
      else if argIndex =? index then Ok (ObjectAt t siblingIndex)
      else do s <- ObjectAt_deref t siblingIndex;
           do n <- rd t s o_next;
           argAt_go fuel t (w32 (argIndex + 1)) n index
  end.

Definition ArgAt (t : Tree) (obj : option N) (index : N) : outcome (option N) :=
  match obj with
  | None => Ok None
  | Some p => do first <- rd t p o_first; argAt_go (chain_fuel t) t 0 first index
  end.

(** CreateDefaultScopes(tableHandle) *)
Definition name_of_list (l : list N) : Name :=
  match l with [a; b; c; d] => (a, b, c, d) | _ => name_zero end.

Fixpoint append_scopes (t : Tree) (root : N) (tableHandle : N) (names : list (list N)) : outcome Tree :=
  match names with
  | [] => Ok t
  | nm :: rest =>
      do tp <- newNamedObject t opScopeBlock tableHandle (name_of_list nm);
      let '(t1, p) := tp in
      do t2 <- append t1 root p;
      append_scopes t2 root tableHandle rest
  end.

Definition CreateDefaultScopes (t : Tree) (tableHandle : N) : outcome Tree :=
  match tree_defaultScopeNames with
  | [] => Ok t
  | rootName :: rest =>
      do tp <- newNamedObject t opScopeBlock tableHandle (name_of_list rootName);
      let '(t1, root) := tp in
      append_scopes t1 root tableHandle rest
  end.

End WithValue.

(** ---- histories (used by the theorems and by the correspondence driver) ---- *)
Inductive op : Type :=
| OpNew (opcode tableHandle : N)
| OpNewNamed (opcode tableHandle : N) (name : Name)
| OpAppend (obj arg : N)
| OpAppendAfter (obj arg nextTo : N)
| OpDetach (obj arg : N)
| OpFree (obj : N).

Definition step {V} (t : ObjectTree V) (o : op) : outcome (ObjectTree V) :=
  match o with
  | OpNew opc th => do tp <- newObject t opc th; Ok (fst tp)
  | OpNewNamed opc th nm => do tp <- newNamedObject t opc th nm; Ok (fst tp)
  | OpAppend a b => append t a b
  | OpAppendAfter a b c => appendAfter t a b c
  | OpDetach a b => detach t a b
  | OpFree a => free t a
  end.

Fixpoint run {V} (t : ObjectTree V) (ops : list op) : outcome (ObjectTree V) :=
  match ops with
  | [] => Ok t
  | o :: rest => do t1 <- step t o; run t1 rest
  end.

(** ---- flat encoding for the correspondence driver ----
    case = sequence of commands; a command is a tag followed by its operands.  Pointer operands
    are pool positions (the harness passes [objPool[i]], or nil when [i] is beyond the pool for
    the three calls that accept nil).
      0 opcode th                 newObject                -> 0 ptr digest
      1 opcode th n0 n1 n2 n3     newNamedObject           -> 0 ptr digest
      2 obj arg                   append                   -> 0 digest
      3 obj arg nextTo            appendAfter              -> 0 digest
      4 obj arg                   detach                   -> 0 digest
      5 obj                       free                     -> 0 digest
      6                           dump                     -> 0 len free (10 fields + 4 name bytes per object)
      7 scope n b1..bn            Find                     -> 0 result
      8 obj                       NumArgs                  -> 0 count
      9 obj index                 ArgAt                    -> 0 ptr-or-InvalidIndex(nil)
      10 obj                      ClosestNamedAncestor     -> 0 result
      11 index                    ObjectAt                 -> 0 ptr-or-InvalidIndex(nil)
      12 th                       CreateDefaultScopes      -> 0 digest
      13 scope n b1..bn           findRelative             -> 0 result
      14 b                        digests off (b = 0) / on: while off the edits above report only 0 (and ptr)
    A panic is reported as the single number 1 and ends the case (the state of the Go tree
    after a recovered panic is not specified); out of fuel is 2 and ends the case. *)
Definition obj_fields {V} (o : Object V) : list N :=
  [o_opcode o; o_infoIndex o; o_tableHandle o] ++ name_bytes (o_name o) ++
  [o_index o; o_parent o; o_prev o; o_next o; o_first o; o_last o; match o_value o with None => 0 | Some _ => 1 end].

Definition dump {V} (t : ObjectTree V) : list N :=
  N.of_nat (length (t_pool t)) :: t_free t :: flat_map obj_fields (t_pool t).

Definition digest {V} (t : ObjectTree V) : N :=
  fold_left (fun h x => N.land (N.shiftl h 7 + N.shiftl h 1 + h + x + 1) 0xffffffffffffffff) (dump t) 7.

Definition take_n (n : N) (l : list N) : list N * list N :=
  (firstn (N.to_nat n) l, skipn (N.to_nat n) l).

Definition ptr_opt {V} (t : ObjectTree V) (p : N) : option N :=
  if p <? N.of_nat (length (t_pool t)) then Some p else None.

Definition enc_ptr (p : option N) : N := match p with Some i => i | None => InvalidIndex end.

(** [dg]: whether edits report the digest of the whole pool (command 14 switches it; building a
    tree of several hundred objects with a digest after every edit is quadratic) *)
Definition dgst {V} (dg : bool) (t : ObjectTree V) : list N := if dg then [digest t] else [].

Definition mut {V} (dg : bool) (r : outcome (ObjectTree V)) (k : ObjectTree V -> list N) : list N :=
  match r with
  | Ok t => 0 :: dgst dg t ++ k t
  | Panic => [1]
  | OutOfFuel => [2]
  end.

Definition qry {V} (t : ObjectTree V) (r : outcome N) (k : ObjectTree V -> list N) : list N :=
  match r with
  | Ok v => 0 :: v :: k t
  | Panic => [1]
  | OutOfFuel => [2]
  end.

Fixpoint run_cmds (fuel : nat) (dg : bool) (t : ObjectTree N) (l : list N) : list N :=
  match fuel with O => [] | S fuel =>
  let k := fun t' rest => run_cmds fuel dg t' rest in
  match l with
  | 0 :: opc :: th :: rest =>
      match newObject t opc th with
      | Ok (t1, p) => 0 :: p :: dgst dg t1 ++ k t1 rest
      | Panic => [1] | OutOfFuel => [2]
      end
  | 1 :: opc :: th :: n0 :: n1 :: n2 :: n3 :: rest =>
      match newNamedObject t opc th (n0, n1, n2, n3) with
      | Ok (t1, p) => 0 :: p :: dgst dg t1 ++ k t1 rest
      | Panic => [1] | OutOfFuel => [2]
      end
  | 2 :: a :: b :: rest => mut dg (append t a b) (fun t1 => k t1 rest)
  | 3 :: a :: b :: c :: rest => mut dg (appendAfter t a b c) (fun t1 => k t1 rest)
  | 4 :: a :: b :: rest => mut dg (detach t a b) (fun t1 => k t1 rest)
  | 5 :: a :: rest => mut dg (free t a) (fun t1 => k t1 rest)
  | 6 :: rest => 0 :: dump t ++ k t rest
  | 7 :: scope :: n :: rest =>
      let '(e, rest') := take_n n rest in qry t (Find t scope e) (fun t1 => k t1 rest')
  | 8 :: a :: rest => qry t (NumArgs t (ptr_opt t a)) (fun t1 => k t1 rest)
  | 9 :: a :: i :: rest =>
      qry t (do r <- ArgAt t (ptr_opt t a) i; Ok (enc_ptr r)) (fun t1 => k t1 rest)
  | 10 :: a :: rest => qry t (ClosestNamedAncestor t (ptr_opt t a)) (fun t1 => k t1 rest)
  | 11 :: i :: rest => 0 :: enc_ptr (ObjectAt t i) :: k t rest
  | 12 :: th :: rest => mut dg (CreateDefaultScopes t th) (fun t1 => k t1 rest)
  | 13 :: scope :: n :: rest =>
      let '(e, rest') := take_n n rest in qry t (findRelative t scope e) (fun t1 => k t1 rest')
  | 14 :: b :: rest => run_cmds fuel (negb (b =? 0)) t rest
  | _ => []
  end end.

Definition run_case (l : list N) : list N := run_cmds (S (length l)) true NewObjectTree l.
