(** Flat interface of the C12 correspondence driver (see checks/C12.py, harness zz_verif_c12_test.go).
      0 fn pkgEnd offset arg bytes...     lexer-level case  -> Lex.run_lex
      1 ntables (len bytes...)*           ParseAML of the payloads in sequence:
                                          observation = class :: canonical tree dump (on success) *)
From Coq Require Import NArith List Bool.
From FF Require Import Lib.Word Gen.Consts_device_acpi_aml Aml.Stream Aml.Lex Aml.Tree Aml.Parser.
Import ListNotations.
Local Open Scope N_scope.

Fixpoint dec_tables (cnt : nat) (l : list N) : list (list N) :=
  match cnt with
  | O => []
  | S c => match l with
           | [] => []
           | n :: rest => firstn (N.to_nat n) rest :: dec_tables c (skipn (N.to_nat n) rest)
           end
  end.

Definition run_parse (payloads : list (list N)) : list N :=
  let '(class, t, _) := load payloads in
  if class =? 0 then class :: dump_tree t else [class].

Definition run_case (l : list N) : list N :=
  match l with
  | 0 :: fn :: pkgEnd :: offset :: arg :: data => run_lex fn pkgEnd offset arg data
  | 1 :: n :: rest => run_parse (dec_tables (N.to_nat n) rest)
  | _ => []
  end.
