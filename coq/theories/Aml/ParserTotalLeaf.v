(** C12 (stretch): the first-pass functions that do not recurse - parseByteList, parseSimpleArg,
    parseFieldElements - never panic, keep the invariant and pay for the objects they create. *)
From Coq Require Import NArith Arith List Bool Lia.
From Coq Require Import ZifyBool ZifyN ZifyNat.
From FF Require Import Lib.Word Gen.Consts_device_acpi_aml Gen.Consts_aml_tree Aml.Stream Aml.Lex Aml.LexProofs
  Aml.Tree Aml.TreeSpec Aml.TreeProofs Aml.TreeProofsOps Aml.Parser
  Aml.ParserTotalTree Aml.ParserTotalLex Aml.ParserTotalTable Aml.ParserTotalBase.
Import ListNotations.
Local Open Scope N_scope.

Definition specm (md : bool) {A} (P : Prop) (m : M A) (s : pstate) (g : ghost) (Q : A -> pstate -> ghost -> Prop) : Prop :=
  wp P m s (fun a s' => exists g', FIm md s' g' /\ Ext s g s' g' /\ Q a s' g').
Definition spec {A} (P : Prop) (m : M A) (s : pstate) (g : ghost) (Q : A -> pstate -> ghost -> Prop) : Prop :=
  wp P m s (fun a s' => exists g', FI s' g' /\ Ext s g s' g' /\ Q a s' g').

Ltac pcbn := cbn [p_r p_tree p_scopeStack p_pkgEndStack p_streamEnd p_allBlocks p_handle p_tables
                   with_r with_tree with_scopeStack with_pkgEndStack].
Ltac pcbn_in H := cbn [p_r p_tree p_scopeStack p_pkgEndStack p_streamEnd p_allBlocks p_handle p_tables
                   with_r with_tree with_scopeStack with_pkgEndStack] in H.

(** steps that touch the reader and payload fields only *)
Definition rstep (s s' : pstate) : Prop :=
  r_len (p_r s') = r_len (p_r s) /\ r_offset (p_r s) <= r_offset (p_r s') /\
  p_scopeStack s' = p_scopeStack s /\ lp s' = lp s /\ p_pkgEndStack s' = p_pkgEndStack s.

Lemma rstep_refl s : rstep s s.
Proof. unfold rstep. repeat split; auto. lia. Qed.

Lemma rstep_trans a b c : rstep a b -> rstep b c -> rstep a c.
Proof. unfold rstep. intros (A1 & A2 & A3 & A4 & A5) (B1 & B2 & B3 & B4 & B5). repeat split; try congruence. lia. Qed.

Lemma rstep_tset s p f : rstep s (with_tree s (tset (p_tree s) p f)).
Proof. unfold rstep, lp. pcbn. rewrite tset_len. repeat split; auto. lia. Qed.

Lemma rstep_r s r1 : adv (p_r s) r1 -> rstep s (with_r s r1).
Proof. intros ((_ & E & _) & L & _). unfold rstep, lp. pcbn. repeat split; auto. Qed.

Lemma rstep_Ext s s' g : rstep s s' -> Ext s g s' g.
Proof. intros (A1 & A2 & A3 & A4 & A5). constructor; auto using gext_refl; [exists []; exact A3|rewrite A5; lia|rewrite A5; lia]. Qed.

Ltac nfreed :=
  match goal with
  | |- ?v <> opFreed => first [ assumption | apply (proj1 (newokb_sound v eq_refl)) | (eapply proj1; eassumption) ]
  end.

Ltac lk_tac :=
  unfold lk_eq; cbn [o_opcode o_index o_parent o_prev o_next o_first o_last set_opcode set_name set_amlOffset
                     set_pkgEnd set_value set_infoIndex];
  repeat split; auto; intros; try contradiction;
  match goal with
  | E : ?v = opFreed |- _ => exfalso; cut (v <> opFreed); [let HH := fresh in intros HH; exact (HH E)|nfreed]
  | _ => idtac
  end.

Ltac info_tac :=
  cbn [o_infoIndex set_opcode set_name set_amlOffset set_pkgEnd set_value set_infoIndex]; try assumption.

(** one payload write on the live object [p]; the continuation gets the new invariant *)
Ltac wwrf H Hl :=
  apply wp_bind; eapply (wrf_step _ _ _ _ _ _ H Hl);
  [ let o := fresh "o" in let Ho := fresh "Ho" in intros o Ho; lk_tac
  | let o := fresh "o" in let Ho := fresh "Ho" in let Hi := fresh "Hi" in intros o Ho Hi; info_tac
  | ].

Lemma nk_info op : newok op -> exists i, opcodeTableIndex op true = Some i /\ opInfo i <> None.
Proof. intros (_ & _ & H). exact H. Qed.

(** ---- parseByteList ---- *)
Lemma parseByteList_spec {md} P obj dataLen s g : FIm md s g -> glive g obj ->
  wp P (parseByteList obj dataLen) s (fun res s' => FIm md s' g /\ rstep s s').
Proof.
  intros H Hl. unfold parseByteList.
  apply wp_bind, wp_get.
  pose proof (fi_rok _ _ H) as Hrok. pose proof Hrok as ((W1 & W2 & W3 & W4) & Sm & Off).
  destruct ((r_pkgEnd (p_r s) <? r_offset (p_r s)) || (w32 (r_pkgEnd (p_r s) + two32 - r_offset (p_r s)) <? dataLen)) eqn:Ec.
  { apply wp_ret. split; auto using rstep_refl. }
  apply orb_false_elim in Ec. destruct Ec as [Ec1 Ec2]. apply N.ltb_ge in Ec1, Ec2.
  assert (Ew : w32 (r_pkgEnd (p_r s) + two32 - r_offset (p_r s)) = r_pkgEnd (p_r s) - r_offset (p_r s)).
  { unfold w32, two32 in *. lia. }
  rewrite Ew in Ec2.
  wwrf H Hl. intros o1 Hg1 Hlo1 H1.
  destruct (nk_info _ (newokb_sound aml_pOpIntByteList eq_refl)) as (idx & Hidx & Hinf).
  apply wp_bind. eapply wp_tableIndex; [exact Hidx|].
  wwrf H1 Hl. intros o2 Hg2 Hlo2 H2.
  assert (Hdp : exists x, dataPtr (p_r s) = Ok x).
  { unfold dataPtr. destruct (eof (p_r s)) eqn:Ee; [eauto|]. unfold eof in Ee. apply N.leb_gt in Ee.
    assert (Hlt : r_offset (p_r s) <? r_len (p_r s) = true) by (apply N.ltb_lt; lia). rewrite Hlt. eauto. }
  destruct Hdp as (ptr & Hdp).
  apply wp_bind. eapply wp_lift; [exact Hdp|].
  apply wp_bind, wp_get.
  wwrf H2 Hl. intros o3 Hg3 Hlo3 H3.
  apply wp_bind. apply wp_ru. apply wp_ret.
  assert (Eo : w32 (r_offset (p_r s) + dataLen) = r_offset (p_r s) + dataLen) by (unfold w32, two32 in *; lia).
  rewrite Eo.
  destruct (rok_setOffset (p_r s) (r_offset (p_r s) + dataLen) Hrok) as (Hrok' & Hlen').
  split.
  - apply FI_with_r; [exact H3|exact Hrok'].
  - unfold rstep, lp. pcbn. rewrite !tset_len. repeat split; auto.
    unfold setOffset. cbn [r_offset set_offset_raw].
    destruct (r_len (p_r s) <? r_offset (p_r s) + dataLen) eqn:E; [exact Off|lia].
Qed.

(** ---- parseSimpleArg ---- *)
Definition simple_num (obj op bytes : N) : M (option N * pres) :=
  wrf obj (set_opcode op) ;;;
  mlet '(v, ok) <~ lex (parseNumConstant bytes) ;;
  wrf obj (set_value (Some (VNum v))) ;;;
  mlet idx <~ tableIndex op true ;;
  wrf obj (set_infoIndex idx) ;;;
  ret (Some obj, pres_of_bool ok).

Definition simple_str (obj tbl op : N) (f : reader -> outcome (slice * bool * reader)) : M (option N * pres) :=
  wrf obj (set_opcode op) ;;;
  mlet '(v, ok) <~ lex f ;;
  wrf obj (set_value (Some (bytesValue tbl v))) ;;;
  mlet idx <~ tableIndex op true ;;
  wrf obj (set_infoIndex idx) ;;;
  ret (Some obj, pres_of_bool ok).

Lemma simple_num_spec {md} P obj op bytes s g : FIm md s g -> glive g obj -> newok op -> 1 <= bytes ->
  wp P (simple_num obj op bytes) s (fun '(a, res) s' =>
     FIm md s' g /\ rstep s s' /\ a = Some obj /\ (res = ROk -> r_offset (p_r s) < r_offset (p_r s')) /\
     exists po v, tget (p_tree s') obj = Some po /\ o_value po = Some (VNum v)).
Proof.
  intros H Hl Hnk Hb. unfold simple_num. pose proof Hnk as (Hnf & _).
  wwrf H Hl. intros o1 Hg1 Hlo1 H1.
  apply wp_bind. apply wp_num; [apply (fi_rok _ _ H1)|]. intros v ok r1 Hadv Hok.
  assert (H2 : FIm md (with_r (with_tree s (tset (p_tree s) obj (set_opcode op))) r1) g).
  { apply FI_with_r; [exact H1|]. eapply rok_adv; [apply (fi_rok _ _ H1)|exact Hadv]. }
  wwrf H2 Hl. intros o2 Hg2 Hlo2 H3.
  destruct (nk_info _ Hnk) as (idx & Hidx & Hinf).
  apply wp_bind. eapply wp_tableIndex; [exact Hidx|].
  wwrf H3 Hl. intros o3 Hg3 Hlo3 H4.
  apply wp_ret. split; [exact H4|]. split.
  { eapply rstep_trans; [apply rstep_tset|]. eapply rstep_trans; [apply rstep_r; exact Hadv|].
    eapply rstep_trans; [apply rstep_tset|]. apply rstep_tset. }
  split; auto. split.
  { intros Hr. destruct ok; [|discriminate]. cbn in Hok |- *. specialize (Hok eq_refl). lia. }
  cbn [p_tree with_tree with_r] in *. rewrite get_tset, N.eqb_refl, Hg3. cbn [option_map].
  rewrite get_tset, N.eqb_refl in Hg3.
  destruct (tget (tset (p_tree s) obj (set_opcode op)) obj) as [ox|]; cbn [option_map] in Hg3; [|discriminate].
  inversion Hg3; subst o3. do 2 eexists. split; [reflexivity|]. reflexivity.
Qed.

Lemma simple_str_spec {md} P obj tbl op f s g : FIm md s g -> glive g obj -> newok op ->
  (forall s0 (Q : slice * bool -> pstate -> Prop), rok (p_r s0) ->
     (forall v ok r1, adv (p_r s0) r1 -> (ok = true -> r_offset (p_r s0) < r_offset r1) -> Q (v, ok) (with_r s0 r1)) ->
     wp P (lex f) s0 Q) ->
  wp P (simple_str obj tbl op f) s (fun '(a, res) s' =>
     FIm md s' g /\ rstep s s' /\ a = Some obj /\ (res = ROk -> r_offset (p_r s) < r_offset (p_r s'))).
Proof.
  intros H Hl Hnk Hf. unfold simple_str. pose proof Hnk as (Hnf & _).
  wwrf H Hl. intros o1 Hg1 Hlo1 H1.
  apply wp_bind. apply Hf; [apply (fi_rok _ _ H1)|]. intros v ok r1 Hadv Hok.
  assert (H2 : FIm md (with_r (with_tree s (tset (p_tree s) obj (set_opcode op))) r1) g).
  { apply FI_with_r; [exact H1|]. eapply rok_adv; [apply (fi_rok _ _ H1)|exact Hadv]. }
  wwrf H2 Hl. intros o2 Hg2 Hlo2 H3.
  destruct (nk_info _ Hnk) as (idx & Hidx & Hinf).
  apply wp_bind. eapply wp_tableIndex; [exact Hidx|].
  wwrf H3 Hl. intros o3 Hg3 Hlo3 H4.
  apply wp_ret. split; [exact H4|]. split.
  { eapply rstep_trans; [apply rstep_tset|]. eapply rstep_trans; [apply rstep_r; exact Hadv|].
    eapply rstep_trans; [apply rstep_tset|]. apply rstep_tset. }
  split; auto.
  intros Hr. destruct ok; [|discriminate]. cbn in Hok |- *. specialize (Hok eq_refl). lia.
Qed.

Lemma parseSimpleArg_spec {md} P argTy s g : FIm md s g -> lp s + 1 < InvalidIndex ->
  specm md P (parseSimpleArg argTy) s g (fun '(a, res) s' g' =>
     lp s' <= lp s + 1 /\ p_scopeStack s' = p_scopeStack s /\
     (res = ROk -> r_offset (p_r s) < r_offset (p_r s')) /\
     match a with
     | Some obj => ~ glive g obj /\ glive g' obj /\ groot g' obj /\
                   (argTy = aml_pArgTypeByteData ->
                      exists po v, tget (p_tree s') obj = Some po /\ o_value po = Some (VNum v))
     | None => res = RFailed /\ argTy <> aml_pArgTypeByteData
     end).
Proof.
  intros H Hroom. unfold specm, parseSimpleArg.
  apply wp_bind. eapply new_step; [exact H|apply (newokb_sound 0 eq_refl)|exact Hroom|].
  intros p t1 g1 po H1 Hext Hfresh Hlive Hroot Hkids Hpo Hop Hval Hidx Hlen1 Hlen2.
  apply wp_bind, wp_get.
  wwrf H1 Hlive. intros o1 Hg1 Hlo1 H2.
  apply wp_bind, wp_get.
  set (s2 := with_tree (with_tree s t1) (tset (p_tree (with_tree s t1)) p (set_amlOffset (r_offset (p_r (with_tree s t1)))))) in *.
  assert (S02 : r_len (p_r s2) = r_len (p_r s) /\ r_offset (p_r s2) = r_offset (p_r s) /\
                p_scopeStack s2 = p_scopeStack s /\ lp s2 <= lp s + 1 /\ p_pkgEndStack s2 = p_pkgEndStack s).
  { unfold s2, lp. pcbn. rewrite tset_len. repeat split; auto. lia. }
  destruct S02 as (L02 & O02 & St02 & Lp02 & Pk02).
  assert (Fin : forall (ares : option N * pres) s',
     (let '(a, res) := ares in FIm md s' g1 /\ rstep s2 s' /\ a = Some p /\ (res = ROk -> r_offset (p_r s2) < r_offset (p_r s')) /\
         (argTy = aml_pArgTypeByteData -> exists po v, tget (p_tree s') p = Some po /\ o_value po = Some (VNum v))) ->
     exists g', FIm md s' g' /\ Ext s g s' g' /\
       (let '(a, res) := ares in
        lp s' <= lp s + 1 /\ p_scopeStack s' = p_scopeStack s /\
        (res = ROk -> r_offset (p_r s) < r_offset (p_r s')) /\
        match a with
        | Some obj => ~ glive g obj /\ glive g' obj /\ groot g' obj /\
                      (argTy = aml_pArgTypeByteData -> exists po v, tget (p_tree s') obj = Some po /\ o_value po = Some (VNum v))
        | None => res = RFailed /\ argTy <> aml_pArgTypeByteData
        end)).
  { intros [a res] s' (F1 & (R1 & R2 & R3 & R4 & R5) & -> & F4 & F5). exists g1. split; [exact F1|]. split.
    - constructor; [exact Hext|congruence|lia|exists []; cbn; congruence|rewrite R5, Pk02; lia|rewrite R5, Pk02; lia].
    - split; [lia|]. split; [congruence|]. split; [intros Hr; specialize (F4 Hr); lia|]. auto. }
  clearbody s2.
  destruct (argTy =? aml_pArgTypeByteData) eqn:E1.
  { eapply wp_weaken; [apply (simple_num_spec P p aml_pOpBytePrefix 1 s2 g1 H2 Hlive (newokb_sound aml_pOpBytePrefix eq_refl)); lia|auto|].
    intros [a res] s' (F1 & F2 & F3 & F4 & F5). apply (Fin (a, res)). auto. }
  destruct (argTy =? aml_pArgTypeWordData) eqn:E2.
  { eapply wp_weaken; [apply (simple_num_spec P p aml_pOpWordPrefix 2 s2 g1 H2 Hlive (newokb_sound aml_pOpWordPrefix eq_refl)); lia|auto|].
    intros [a res] s' (F1 & F2 & F3 & F4 & F5). apply (Fin (a, res)). auto. }
  destruct (argTy =? aml_pArgTypeDwordData) eqn:E3.
  { eapply wp_weaken; [apply (simple_num_spec P p aml_pOpDwordPrefix 4 s2 g1 H2 Hlive (newokb_sound aml_pOpDwordPrefix eq_refl)); lia|auto|].
    intros [a res] s' (F1 & F2 & F3 & F4 & F5). apply (Fin (a, res)). auto. }
  destruct (argTy =? aml_pArgTypeQwordData) eqn:E4.
  { eapply wp_weaken; [apply (simple_num_spec P p aml_pOpQwordPrefix 8 s2 g1 H2 Hlive (newokb_sound aml_pOpQwordPrefix eq_refl)); lia|auto|].
    intros [a res] s' (F1 & F2 & F3 & F4 & F5). apply (Fin (a, res)). auto. }
  apply N.eqb_neq in E1.
  destruct (argTy =? aml_pArgTypeString) eqn:E5.
  { eapply wp_weaken; [apply (simple_str_spec P p _ aml_pOpStringPrefix parseString s2 g1 H2 Hlive (newokb_sound aml_pOpStringPrefix eq_refl));
                       intros; apply wp_string; auto|auto|].
    intros [a res] s' (F1 & F2 & F3 & F4). apply (Fin (a, res)). split; [exact F1|]. split; [exact F2|]. split; [exact F3|]. split; [exact F4|]. intros Ebd. contradiction. }
  destruct (argTy =? aml_pArgTypeNameString) eqn:E6.
  { eapply wp_weaken; [apply (simple_str_spec P p _ aml_pOpIntNamePath parseNameString s2 g1 H2 Hlive (newokb_sound aml_pOpIntNamePath eq_refl));
                       intros; apply wp_namestring; auto|auto|].
    intros [a res] s' (F1 & F2 & F3 & F4). apply (Fin (a, res)). split; [exact F1|]. split; [exact F2|]. split; [exact F3|]. split; [exact F4|]. intros Ebd. contradiction. }
  apply wp_ret. exists g1. split; [exact H2|]. split.
  - constructor; [exact Hext|congruence|lia|exists []; cbn; congruence|rewrite Pk02; lia|rewrite Pk02; lia].
  - split; [lia|]. split; [congruence|]. split; [discriminate|split; [reflexivity|exact E1]].
Qed.

(** ---- bookkeeping: [at_ s s' k c]: [s'] is reached from [s] after consuming at least [k] bytes and
    creating at most [c] objects ---- *)
Definition at_ (s s' : pstate) (k c : N) : Prop :=
  r_len (p_r s') = r_len (p_r s) /\ r_offset (p_r s) + k <= r_offset (p_r s') /\
  r_offset (p_r s') <= r_len (p_r s') /\ lp s' <= lp s + c /\
  p_scopeStack s' = p_scopeStack s /\ p_pkgEndStack s' = p_pkgEndStack s.

Lemma at_refl s : rok (p_r s) -> at_ s s 0 0.
Proof. intros (_ & _ & O). unfold at_. repeat split; auto; try lia. Qed.

Lemma at_r s s' k c k' r1 : at_ s s' k c -> r_len r1 = r_len (p_r s') -> r_offset (p_r s) + k' <= r_offset r1 ->
  r_offset r1 <= r_len r1 -> at_ s (with_r s' r1) k' c.
Proof. intros (A1 & A2 & A3 & A4 & A5 & A6) B1 B2 B3. unfold at_, lp in *. pcbn. repeat split; auto. congruence. Qed.

Lemma at_adv s s' k c r1 j : at_ s s' k c -> adv (p_r s') r1 -> r_offset (p_r s') + j <= r_offset r1 ->
  at_ s (with_r s' r1) (k + j) c.
Proof.
  intros A ((_ & E & _) & L & L') Hj. pose proof A as (A1 & A2 & A3 & A4 & A5 & A6).
  eapply at_r; eauto. lia.
Qed.

Lemma at_tset s s' k c p f : at_ s s' k c -> at_ s (with_tree s' (tset (p_tree s') p f)) k c.
Proof. intros (A1 & A2 & A3 & A4 & A5 & A6). unfold at_, lp in *. pcbn. rewrite tset_len. repeat split; auto. Qed.

Lemma at_new s s' k c t' : at_ s s' k c -> (length (t_pool t') <= S (length (t_pool (p_tree s'))))%nat ->
  at_ s (with_tree s' t') k (c + 1).
Proof. intros (A1 & A2 & A3 & A4 & A5 & A6) L. unfold at_, lp in *. pcbn. repeat split; auto. lia. Qed.

Lemma at_new' s s' k c c' t' : at_ s s' k c -> (length (t_pool t') <= S (length (t_pool (p_tree s'))))%nat ->
  c' = c + 1 -> at_ s (with_tree s' t') k c'.
Proof. intros A L ->. apply at_new; auto. Qed.

Lemma at_pframe s s' k c t' : at_ s s' k c -> pframe (p_tree s') t' -> at_ s (with_tree s' t') k c.
Proof. intros (A1 & A2 & A3 & A4 & A5 & A6) [L _]. unfold at_, lp in *. pcbn. rewrite L. repeat split; auto. Qed.

Lemma at_weaken s s' k c k' c' : at_ s s' k c -> k' <= k -> c <= c' -> at_ s s' k' c'.
Proof. intros (A1 & A2 & A3 & A4 & A5 & A6) K C. unfold at_. repeat split; auto; lia. Qed.

Lemma at_Ext s s' k c g g' : at_ s s' k c -> gext g g' -> Ext s g s' g'.
Proof. intros (A1 & A2 & A3 & A4 & A5 & A6) G. constructor; auto; [lia|exists []; exact A5|rewrite A6; lia|rewrite A6; lia]. Qed.

Lemma at_Phi s s' k c : at_ s s' k c -> Phi s' + 4 * k <= Phi s + c /\ rem s' + k <= rem s.
Proof. intros (A1 & A2 & A3 & A4 & A5 & A6). unfold Phi, rem. lia. Qed.

Lemma at_trans a b d k c k' c' : at_ a b k c -> at_ b d k' c' -> at_ a d (k + k') (c + c').
Proof.
  intros (A1 & A2 & A3 & A4 & A5 & A6) (B1 & B2 & B3 & B4 & B5 & B6). unfold at_. repeat split; try lia; try congruence.
Qed.

Lemma at_trans0 a b d k c : at_ a b k c -> at_ b d 0 0 -> at_ a d k c.
Proof. intros A B. pose proof (at_trans _ _ _ _ _ _ _ A B) as C. rewrite !N.add_0_r in C. exact C. Qed.

Lemma at_adv0 s s' k c r1 : at_ s s' k c -> adv (p_r s') r1 -> at_ s (with_r s' r1) k c.
Proof.
  intros A Hadv. assert (L : r_offset (p_r s') + 0 <= r_offset r1) by (destruct Hadv as (_ & L & _); lia).
  pose proof (at_adv _ _ _ _ r1 0 A Hadv L) as C. rewrite N.add_0_r in C. exact C.
Qed.


Lemma FI_adv {md} s g r1 : FIm md s g -> adv (p_r s) r1 -> FIm md (with_r s r1) g.
Proof. intros H A. apply FI_with_r; auto. eapply rok_adv; eauto. apply (fi_rok _ _ H). Qed.

Lemma at_rok s s' k c : at_ s s' k c -> r_offset (p_r s') <= r_len (p_r s').
Proof. intros (_ & _ & A & _). exact A. Qed.

(** ---- parseFieldElements ---- *)
Lemma fieldByte_spec {md} P s g : FIm md s g -> wp P fieldByte s (fun a s' => FIm md s' g /\ at_ s s' 0 0).
Proof.
  intros H. unfold fieldByte. apply wp_bind. apply wp_num; [apply (fi_rok _ _ H)|]. intros v ok r1 Hadv Hok.
  apply wp_ret. split; [apply FI_adv; auto|].
  replace 0 with (0 + 0) at 1 by reflexivity. apply at_adv; [apply at_refl, (fi_rok _ _ H)|exact Hadv|].
  destruct Hadv as (_ & L & _). lia.
Qed.

Lemma readName_go_spec {md} P field cnt : forall i s g, FIm md s g -> glive g field ->
  wp P (readName_go cnt i field) s (fun ok s' => FIm md s' g /\ at_ s s' 0 0).
Proof.
  induction cnt as [|cnt IH]; intros i s g H Hl; cbn [readName_go].
  - apply wp_ret. split; auto. apply at_refl. apply (fi_rok _ _ H).
  - apply wp_bind. apply wp_readByte; [apply (fi_rok _ _ H)|]. intros b r1 Hadv Hn Hs.
    assert (H1 : FIm md (with_r s r1) g) by (apply FI_adv; auto).
    assert (A1 : at_ s (with_r s r1) 0 0).
    { replace 0 with (0 + 0) at 1 by reflexivity. apply at_adv; [apply at_refl, (fi_rok _ _ H)|exact Hadv|].
      destruct Hadv as (_ & L & _). lia. }
    destruct (FI_live_get _ _ _ H1 Hl) as (o & Hg & Ho).
    apply wp_bind. eapply wp_tq; [cbv beta; rewrite deref_get, Hg; reflexivity|].
    destruct b as [b|].
    + wwrf H1 Hl. intros o1 Hg1 Hlo1 H2. eapply wp_weaken; [apply IH; eauto|auto|].
      intros ok s' (F1 & F2). split; auto.
      replace 0 with (0 + 0) by reflexivity. eapply at_trans; [apply at_tset; exact A1|exact F2].
    + wwrf H1 Hl. intros o1 Hg1 Hlo1 H2. apply wp_ret. split; auto. apply at_tset. exact A1.
Qed.

Definition dl_block (origOffset pkgLen : N) : M (option N) :=
  if 0 <? pkgLen then
    mlet ok2 <~ setPkgEndM (w32 (origOffset + pkgLen)) ;;
    if negb ok2 then ret None else
    mlet '(nextOp, ok3) <~ lex nextOpcode ;;
    if negb ok3 then ret None else
    if nextOp =? aml_pOpBytePrefix then mlet '(v, ok4) <~ lex (parseNumConstant 1) ;; ret (if ok4 then Some v else None)
    else if nextOp =? aml_pOpWordPrefix then mlet '(v, ok4) <~ lex (parseNumConstant 2) ;; ret (if ok4 then Some v else None)
    else if nextOp =? aml_pOpDwordPrefix then mlet '(v, ok4) <~ lex (parseNumConstant 4) ;; ret (if ok4 then Some v else None)
    else ret (Some 0)
  else ret (Some 0).

Lemma dl_block_spec {md} P origOffset pkgLen s g : FIm md s g ->
  wp P (dl_block origOffset pkgLen) s (fun a s' => FIm md s' g /\ at_ s s' 0 0).
Proof.
  intros H. unfold dl_block. pose proof (fi_rok _ _ H) as Hrok.
  destruct (0 <? pkgLen); [|apply wp_ret; split; auto; apply at_refl; auto].
  apply wp_bind. apply wp_setPkgEnd.
  set (s1 := with_r s (fst (setPkgEnd (p_r s) (w32 (origOffset + pkgLen))))).
  assert (Hrok1 : rok (p_r s1)) by (apply rok_setPkgEnd; auto).
  assert (H1 : FIm md s1 g) by (apply FI_with_r; auto).
  destruct (setPkgEnd_off (p_r s) (w32 (origOffset + pkgLen))) as (Eo & El).
  assert (A1 : at_ s s1 0 0).
  { eapply at_r; [apply at_refl; auto|exact El|pcbn; lia|]. pcbn. destruct Hrok as (_ & _ & O). pcbn_in Eo. lia. }
  destruct (snd (setPkgEnd (p_r s) (w32 (origOffset + pkgLen)))); cbn [negb]; [|apply wp_ret; split; auto].
  apply wp_bind. apply wp_nextop; auto. intros op ok r2 Hadv2 _ _.
  assert (H2 : FIm md (with_r s1 r2) g) by (apply FI_adv; auto).
  assert (A2 : at_ s (with_r s1 r2) 0 0).
  { replace 0 with (0 + 0) at 1 by reflexivity. apply at_adv; [exact A1|exact Hadv2|]. destruct Hadv2 as (_ & L & _). lia. }
  destruct ok; cbn [negb]; [|apply wp_ret; split; auto].
  assert (Fin : forall k, wp P (mlet '(v, ok4) <~ lex (parseNumConstant k) ;; ret (if ok4 then Some v else None)) (with_r s1 r2)
                            (fun _ s' => FIm md s' g /\ at_ s s' 0 0)).
  { intros k. apply wp_bind. apply wp_num; [apply (fi_rok _ _ H2)|]. intros v ok r3 Hadv3 _.
    apply wp_ret. split; [apply FI_adv; auto|].
    replace 0 with (0 + 0) at 1 by reflexivity. apply at_adv; [exact A2|exact Hadv3|]. destruct Hadv3 as (_ & L & _). lia. }
  destruct (op =? aml_pOpBytePrefix); [apply Fin|].
  destruct (op =? aml_pOpWordPrefix); [apply Fin|].
  destruct (op =? aml_pOpDwordPrefix); [apply Fin|].
  apply wp_ret. split; auto.
Qed.

Section Field.
Variables (md : bool) (curObj par : N).

Definition FPre (s : pstate) (g : ghost) (f : fstate) : Prop :=
  FIm md s g /\ In curObj (kids g par) /\ In (f_appendAfter f) (kids g par) /\ Phi s + 4 <= InvalidIndex.
Definition FPost (s : pstate) (res : pres) (s' : pstate) : Prop :=
  Phi s' <= Phi s + 2 /\ (res = RShort -> Phi s' <= Phi s) /\ res <> ROk /\
  p_scopeStack s' = p_scopeStack s /\ p_pkgEndStack s' = p_pkgEndStack s.
Definition FSpec (fuel : nat) : Prop := forall f s g, FPre s g f ->
  specm md (N.of_nat fuel <= rem s) (fieldElements_go fuel curObj f) s g (fun res s' _ => FPost s res s').

(** the recursive call, after at least one consumed byte and at most four created objects *)
Lemma frec fuel (IH : FSpec fuel) f1 s g s1 g1 c :
  FIm md s1 g1 -> at_ s s1 1 c -> c <= 4 -> gext g g1 -> In curObj (kids g1 par) -> In (f_appendAfter f1) (kids g1 par) ->
  Phi s + 4 <= InvalidIndex ->
  wp (N.of_nat (S fuel) <= rem s) (fieldElements_go fuel curObj f1) s1
     (fun res s' => exists g', FIm md s' g' /\ Ext s g s' g' /\ FPost s res s').
Proof.
  intros H1 A1 Hc Hext Hcur Haft Hroom. destruct (at_Phi _ _ _ _ A1) as (P1 & P2).
  eapply wp_weaken; [apply (IH f1 s1 g1)|..].
  - split; [exact H1|]. split; [exact Hcur|]. split; [exact Haft|]. lia.
  - intros Hf. lia.
  - intros res s' (g' & F1 & F2 & F3 & F4 & F5 & F6 & F7). exists g'. split; auto. split.
    + eapply Ext_trans; [eapply at_Ext; eauto|exact F2].
    + destruct A1 as (_ & _ & _ & _ & A5 & A6).
      split; [lia|]. split; [|split; [exact F5|split; congruence]]. intros Hr. specialize (F4 Hr). lia.
Qed.

(** a failing return *)
Lemma ffail (P : Prop) s g s1 g1 k c (res : pres) :
  FIm md s1 g1 -> at_ s s1 k c -> c <= 2 -> gext g g1 -> res = RFailed ->
  wp P (ret res) s1 (fun res s' => exists g', FIm md s' g' /\ Ext s g s' g' /\ FPost s res s').
Proof.
  intros H1 A1 Hc Hext ->. destruct (at_Phi _ _ _ _ A1) as (P1 & P2).
  apply wp_ret. exists g1. split; auto. split; [eapply at_Ext; eauto|]. split; [lia|]. split; [discriminate|].
  destruct A1 as (_ & _ & _ & _ & A5 & A6). split; [discriminate|split; assumption].
Qed.

Lemma fieldElements_spec : forall fuel, FSpec fuel.
Proof.
  induction fuel as [|fuel IH]; intros f s g (H & Hcur & Haft & Hroom); unfold specm; cbn [fieldElements_go].
  { apply wp_outOfFuel. change (0 <= rem s). apply N.le_0_l. }
  pose proof (fi_rok _ _ H) as Hrok.
  pose proof (R_gwf _ _ (fi_R _ _ H)) as Hwf.
  destruct (Hwf _ _ Hcur) as (Hlpar & Hlcur).
  assert (Hlp : lp s + 3 < InvalidIndex) by (unfold Phi in Hroom; lia).
  apply wp_bind, wp_get. destruct (eof (p_r s)) eqn:Ee.
  { apply wp_ret. exists g. split; auto. split; [apply Ext_refl|]. split; [lia|]. split; [lia|]. split; [discriminate|split; reflexivity]. }
  apply wp_bind. apply wp_readByte; auto. intros nx r1 Hadv Hn Hs.
  destruct nx as [next|].
  2:{ exfalso. destruct (Hn eq_refl) as (_ & Hge). unfold eof in Ee. apply N.leb_gt in Ee. lia. }
  destruct (Hs _ eq_refl) as (Ho1 & Hb & Hlt). clear Hn Hs.
  set (s1 := with_r s r1).
  assert (H1 : FIm md s1 g) by (apply FI_adv; auto).
  assert (A1 : at_ s s1 1 0).
  { replace 1 with (0 + 1) by reflexivity. apply at_adv; [apply at_refl; auto|exact Hadv|lia]. }
  destruct (next =? 0) eqn:E0.
  { (* reserved field *)
    apply wp_bind. apply wp_pkglen; [apply (fi_rok _ _ H1)|]. intros v ok r2 Hadv2 Hok Hnok.
    assert (H2 : FIm md (with_r s1 r2) g) by (apply FI_adv; auto).
    assert (A2 : at_ s (with_r s1 r2) 1 0).
    { apply at_adv0; auto. }
    destruct ok; cbn [negb].
    - eapply frec; eauto using gext_refl. lia.
    - eapply ffail; eauto using gext_refl; lia. }
  destruct (next =? 1) eqn:E1.
  { (* AccessField *)
    apply wp_bind. eapply wp_weaken; [apply (fieldByte_spec False s1 g H1)|intros []|]. intros a sa (Ha & Aa).
    assert (A2 : at_ s sa 1 0) by (eapply at_trans0; eauto).
    destruct a as [accessType|]; [|eapply ffail; eauto using gext_refl; lia].
    apply wp_bind. eapply wp_weaken; [apply (fieldByte_spec False sa g Ha)|intros []|]. intros b sb (Hb' & Ab).
    assert (A3 : at_ s sb 1 0) by (eapply at_trans0; eauto).
    destruct b as [accessAttrib|]; [|eapply ffail; eauto using gext_refl; lia].
    eapply frec; eauto using gext_refl. lia. }
  destruct (next =? 3) eqn:E3.
  { (* ExtAccessField *)
    apply wp_bind. eapply wp_weaken; [apply (fieldByte_spec False s1 g H1)|intros []|]. intros a sa (Ha & Aa).
    assert (A2 : at_ s sa 1 0) by (eapply at_trans0; eauto).
    destruct a as [accessType|]; [|eapply ffail; eauto using gext_refl; lia].
    apply wp_bind. eapply wp_weaken; [apply (fieldByte_spec False sa g Ha)|intros []|]. intros b sb (Hb' & Ab).
    assert (A3 : at_ s sb 1 0) by (eapply at_trans0; eauto).
    destruct b as [accessAttrib|]; [|eapply ffail; eauto using gext_refl; lia].
    apply wp_bind. eapply wp_weaken; [apply (fieldByte_spec False sb g Hb')|intros []|]. intros c sc (Hc' & Ac).
    assert (A4 : at_ s sc 1 0) by (eapply at_trans0; eauto).
    destruct c as [accessLength|]; [|eapply ffail; eauto using gext_refl; lia].
    eapply frec; eauto using gext_refl. lia. }
  pose proof (fi_rok _ _ H1) as Hrok1.
  assert (Eo1 : r_offset (p_r s1) = r_offset (p_r s) + 1) by exact Ho1.
  destruct (next =? 2) eqn:E2.
  { (* Connection *)
    apply wp_bind. apply wp_readByte; [exact Hrok1|]. intros nx2 r2 Hadv2 Hn2 Hs2.
    assert (H2 : FIm md (with_r s1 r2) g) by (apply FI_adv; auto).
    destruct nx2 as [next2|].
    2:{ eapply ffail; [exact H2|apply at_adv0; eauto|lia|apply gext_refl|reflexivity]. }
    destruct (Hs2 _ eq_refl) as (Ho2 & Hb2 & Hlt2). clear Hn2 Hs2.
    set (s2 := with_r s1 r2) in *.
    assert (Eo2 : r_offset (p_r s2) = r_offset (p_r s) + 2) by (unfold s2; pcbn; lia).
    assert (A2 : at_ s s2 2 0).
    { replace 2 with (1 + 1) by reflexivity. apply at_adv; auto. lia. }
    apply wp_bind. eapply new_step; [exact H2|apply (newokb_sound aml_pOpIntConnection eq_refl)| |].
    { destruct A2 as (_ & _ & _ & L & _). lia. }
    intros conn t3 g3 co H3 Hext3 Hfresh3 Hlive3 Hroot3 Hkids3 Hco Hcop Hcval Hcidx Hl3 Hl3'.
    set (s3 := with_tree s2 t3) in *.
    assert (A3 : at_ s s3 2 1) by (replace 1 with (0 + 1) by reflexivity; apply at_new; auto).
    apply wp_bind. apply wp_rdf. exists co. split; [exact Hco|].
    apply wp_bind. eapply (append_step _ curObj conn s3 g3 g);
      [exact H3|exact Hwf|exact Hext3|exact Hlcur|exact Hfresh3|exact Hlive3|exact Hroot3|].
    intros t4 H4 Hext4 Hpf4 Hk4 Hk4'.
    set (g4 := astep g3 (OpAppend curObj conn)) in *.
    set (s4 := with_tree s3 t4) in *.
    assert (A4 : at_ s s4 2 1) by (apply at_pframe; auto).
    assert (Hlconn4 : glive g4 conn) by (apply glive_set_kids; auto).
    assert (Hcur4 : In curObj (kids g4 par)) by (apply (ge_kids _ _ Hext4); auto).
    assert (Haft4 : In (f_appendAfter f) (kids g4 par)) by (apply (ge_kids _ _ Hext4); auto).
    assert (Hwf4 : gwf g4) by (apply (R_gwf _ _ (fi_R _ _ H4))).
    assert (Eo4 : r_offset (p_r s4) = r_offset (p_r s) + 2) by exact Eo2.
    assert (El4 : r_len (p_r s4) = r_len (p_r s)) by (destruct A4 as (L & _); exact L).
    pose proof (fi_rok _ _ H4) as Hrok4.
    destruct (next2 =? w8 aml_pOpBuffer) eqn:EB.
    - (* Buffer *)
      apply wp_bind, wp_get. apply wp_bind, wp_get.
      apply wp_bind. apply wp_pkglen; [exact Hrok4|]. intros pkgLen ok r5 Hadv5 Hok5 Hnok5.
      assert (H5 : FIm md (with_r s4 r5) g4) by (apply FI_adv; auto).
      assert (A5 : at_ s (with_r s4 r5) 2 1) by (apply at_adv0; auto).
      destruct ok; cbn [negb]; [|eapply ffail; [exact H5|exact A5|lia|exact Hext4|reflexivity]].
      destruct (Hok5 eq_refl) as (_ & Hpl).
      apply wp_bind. eapply wp_weaken; [apply (dl_block_spec False (r_offset (p_r s4)) pkgLen _ g4 H5)|intros []|].
      intros dl s6 (H6 & A6').
      assert (A6 : at_ s s6 2 1) by (eapply at_trans0; eauto).
      destruct dl as [dataLen|]; [|eapply ffail; [exact H6|exact A6|lia|exact Hext4|reflexivity]].
      apply wp_bind. eapply new_step; [exact H6|apply (newokb_sound aml_pOpIntByteList eq_refl)| |].
      { destruct A6 as (_ & _ & _ & L & _). lia. }
      intros carg t7 g7 cao H7 Hext7 Hfresh7 Hlive7 Hroot7 Hkids7 Hcao _ _ _ Hl7 _.
      set (s7 := with_tree s6 t7) in *.
      assert (A7 : at_ s s7 2 2) by (eapply at_new'; [exact A6|exact Hl7|reflexivity]).
      wwrf H7 Hlive7. intros o8 Hg8 Hlo8 H8.
      apply wp_bind. eapply wp_weaken; [apply (parseByteList_spec False carg (w32 dataLen) _ g7 H8 Hlive7)|intros []|].
      intros res s9 (H9 & R9).
      assert (A9 : at_ s s9 2 2).
      { apply at_tset with (p := carg) (f := set_amlOffset (r_offset (p_r s4))) in A7.
        destruct A7 as (B1 & B2 & B3 & B4 & B5 & B6). destruct R9 as (C1 & C2 & C3 & C4 & C5).
        pose proof (fi_rok _ _ H9) as (_ & _ & O9).
        unfold at_. repeat split; try lia; try congruence. }
      destruct (pres_eqb res ROk); cbn [negb]; [|eapply ffail; [exact H9|exact A9|lia|eapply gext_trans; eauto|reflexivity]].
      apply wp_bind. apply wp_setPkgEnd.
      set (s10 := with_r s9 (fst (setPkgEnd (p_r s9) (r_pkgEnd (p_r s4))))).
      assert (Hrok10 : rok (p_r s10)) by (apply rok_setPkgEnd, (fi_rok _ _ H9)).
      destruct (setPkgEnd_off (p_r s9) (r_pkgEnd (p_r s4))) as (Eo10 & El10).
      apply wp_bind. apply wp_ru.
      set (o11 := w32 (r_offset (p_r s4) + pkgLen)).
      set (s11 := with_r s10 (setOffset (p_r s10) o11)).
      destruct (rok_setOffset (p_r s10) o11 Hrok10) as (Hrok11 & El11).
      assert (H11 : FIm md s11 g7) by (apply FI_with_r; [apply FI_with_r; [exact H9|exact Hrok10]|exact Hrok11]).
      assert (A11 : at_ s s11 2 2).
      { destruct A9 as (B1 & B2 & B3 & B4 & B5 & B6).
        assert (El : r_len (p_r s10) = r_len (p_r s)) by (unfold s10; pcbn; congruence).
        eapply at_r with (s' := s10) (k := 2) (c := 2).
        - unfold at_, s10, lp in *. pcbn. repeat split; auto; try congruence; lia.
        - exact El11.
        - pcbn. unfold setOffset. cbn [r_offset set_offset_raw]. rewrite El.
          assert (Eo : o11 = r_offset (p_r s4) + pkgLen).
          { unfold o11, w32. apply N.mod_small. destruct Hrok4 as (_ & Sm & O4). unfold small_table, two32 in *. lia. }
          destruct Hrok4 as (_ & _ & O4). destruct (r_len (p_r s) <? o11) eqn:Ec; lia.
        - destruct Hrok11 as (_ & _ & O). exact O. }
      apply wp_bind. eapply (append_step _ conn carg s11 g7 g4);
        [exact H11|exact Hwf4|exact Hext7|exact Hlconn4|exact Hfresh7|exact Hlive7|exact Hroot7|].
      intros t12 H12 Hext12 Hpf12 _ _.
      eapply frec; [exact IH|exact H12| |reflexivity| | | |exact Hroom].
      + eapply at_weaken; [apply at_pframe; [exact A11|exact Hpf12]|lia|lia].
      + eapply gext_trans; eauto.
      + apply (ge_kids _ _ Hext12); auto.
      + apply (ge_kids _ _ Hext12); auto.
    - (* a name *)
      apply wp_bind. apply wp_ru.
      assert (Hz : (r_offset (p_r s4) =? 0) = false) by (apply N.eqb_neq; lia).
      unfold unreadByte. rewrite Hz. cbn [fst].
      set (r5 := set_offset_raw (p_r s4) (r_offset (p_r s4) - 1)).
      assert (Hrok5 : rok r5).
      { destruct Hrok4 as (W & Sm & O). split; [eapply wf_same_window; [exact W|apply same_window_set_offset]|].
        split; [exact Sm|]. unfold r5. cbn [r_offset r_len set_offset_raw]. lia. }
      assert (H5 : FIm md (with_r s4 r5) g4) by (apply FI_with_r; auto).
      assert (A5 : at_ s (with_r s4 r5) 1 1).
      { eapply at_r; [exact A4|reflexivity|unfold r5; cbn [r_offset r_len set_offset_raw]; lia|destruct Hrok5 as (_ & _ & O); exact O]. }
      apply wp_bind. eapply new_step; [exact H5|apply (newokb_sound aml_pOpIntNamePath eq_refl)| |].
      { destruct A5 as (_ & _ & _ & L & _). lia. }
      intros carg t7 g7 cao H7 Hext7 Hfresh7 Hlive7 Hroot7 Hkids7 Hcao _ _ _ Hl7 _.
      set (s7 := with_tree (with_r s4 r5) t7) in *.
      assert (A7 : at_ s s7 1 2) by (eapply at_new'; [exact A5|exact Hl7|reflexivity]).
      apply wp_bind, wp_get.
      wwrf H7 Hlive7. intros o8 Hg8 Hlo8 H8.
      apply wp_bind, wp_get.
      apply wp_bind. apply wp_namestring; [apply (fi_rok _ _ H8)|]. intros v ok r9 Hadv9 Hok9.
      match type of H8 with FIm md ?st _ => set (s8 := st) in * end.
      assert (A8 : at_ s s8 1 2) by (apply at_tset; exact A7).
      assert (H9 : FIm md (with_r s8 r9) g7) by (apply FI_adv; auto).
      assert (A9 : at_ s (with_r s8 r9) 1 2) by (apply at_adv0; auto).
      wwrf H9 Hlive7. intros o10 Hg10 Hlo10 H10.
      match type of H10 with FIm md ?st _ => set (s10 := st) in * end.
      assert (A10 : at_ s s10 1 2) by (apply at_tset; exact A9).
      destruct ok; cbn [negb]; [|eapply ffail; [exact H10|exact A10|lia|eapply gext_trans; eauto|reflexivity]].
      apply wp_bind. eapply (append_step _ conn carg s10 g7 g4);
        [exact H10|exact Hwf4|exact Hext7|exact Hlconn4|exact Hfresh7|exact Hlive7|exact Hroot7|].
      intros t12 H12 Hext12 Hpf12 _ _.
      eapply frec; [exact IH|exact H12| |reflexivity| | | |exact Hroom].
      + eapply at_weaken; [apply at_pframe; [exact A10|exact Hpf12]|lia|lia].
      + eapply gext_trans; eauto.
      + apply (ge_kids _ _ Hext12); auto.
      + apply (ge_kids _ _ Hext12); auto. }
  (* a named field *)
  apply wp_bind. apply wp_ru.
  assert (Hz : (r_offset (p_r s1) =? 0) = false) by (apply N.eqb_neq; lia).
  unfold unreadByte. rewrite Hz. cbn [fst].
  set (r2 := set_offset_raw (p_r s1) (r_offset (p_r s1) - 1)).
  assert (Hrok2 : rok r2).
  { destruct Hrok1 as (W & Sm & O). split; [eapply wf_same_window; [exact W|apply same_window_set_offset]|].
    split; [exact Sm|]. unfold r2. cbn [r_offset r_len set_offset_raw]. lia. }
  assert (H2 : FIm md (with_r s1 r2) g) by (apply FI_with_r; auto).
  assert (A2 : at_ s (with_r s1 r2) 0 0).
  { eapply at_r; [exact A1|reflexivity|unfold r2; cbn [r_offset r_len set_offset_raw]; lia|destruct Hrok2 as (_ & _ & O); exact O]. }
  apply wp_bind. eapply new_step; [exact H2|apply (newokb_sound aml_pOpIntNamedField eq_refl)| |].
  { destruct A2 as (_ & _ & _ & L & _). lia. }
  intros fld t3 g3 fo H3 Hext3 Hfresh3 Hlive3 Hroot3 Hkids3 Hfo _ _ _ Hl3 _.
  set (s3 := with_tree (with_r s1 r2) t3) in *.
  assert (A3 : at_ s s3 0 1) by (eapply at_new'; [exact A2|exact Hl3|reflexivity]).
  apply wp_bind, wp_get.
  wwrf H3 Hlive3. intros o4 Hg4 Hlo4 H4.
  match type of H4 with FIm md ?st _ => set (s4 := st) in * end.
  assert (A4 : at_ s s4 0 1) by (apply at_tset; exact A3).
  apply wp_bind. eapply wp_weaken; [apply (readName_go_spec False fld (N.to_nat aml_amlNameLen) 0%nat s4 g3 H4 Hlive3)|intros []|].
  intros okn s5 (H5 & A5').
  assert (A5 : at_ s s5 0 1) by (eapply at_trans0; eauto).
  destruct okn; cbn [negb]; [|eapply ffail; [exact H5|exact A5|lia|exact Hext3|reflexivity]].
  apply wp_bind. apply wp_pkglen; [apply (fi_rok _ _ H5)|]. intros pkgLen ok r6 Hadv6 Hok6 Hnok6.
  assert (H6 : FIm md (with_r s5 r6) g3) by (apply FI_adv; auto).
  destruct ok; cbn [negb]; [|eapply ffail; [exact H6|apply at_adv0; [exact A5|exact Hadv6]|lia|exact Hext3|reflexivity]].
  destruct (Hok6 eq_refl) as (Hlt6 & _).
  set (s6 := with_r s5 r6) in *.
  assert (A6 : at_ s s6 1 1).
  { replace 1 with (0 + 1) at 1 by reflexivity. apply at_adv; [exact A5|exact Hadv6|lia]. }
  assert (Hcur3 : In curObj (kids g3 par)) by (apply (ge_kids _ _ Hext3); auto).
  assert (Haft3 : In (f_appendAfter f) (kids g3 par)) by (apply (ge_kids _ _ Hext3); auto).
  assert (Hlcur3 : glive g3 curObj) by (apply (ge_live _ _ Hext3); auto).
  assert (Hlpar3 : glive g3 par) by (apply (ge_live _ _ Hext3); auto).
  destruct (FI_live_get _ _ _ H6 Hlcur3) as (co & Hco & Hlco).
  apply wp_bind. apply wp_rdf. exists co. split; [exact Hco|].
  wwrf H6 Hlive3. intros o7 Hg7 Hlo7 H7.
  match type of H7 with FIm md ?st _ => set (s7 := st) in * end.
  assert (A7 : at_ s s7 1 1) by (apply at_tset; exact A6).
  destruct (R_In_kids _ _ (fi_R _ _ H7) _ _ Hcur3) as (_ & co7 & Hco7 & _ & Hpar7).
  apply wp_bind. apply wp_rdf. exists co7. split; [exact Hco7|]. rewrite Hpar7.
  apply wp_bind. apply wp_objectAt'; [apply (FI_ObjectAt _ _ _ H7 Hlpar3)|].
  apply wp_bind. eapply (appendAfter_step _ par fld (f_appendAfter f) s7 g3 g);
    [exact H7|exact Hwf|exact Hext3|exact Hlpar|exact Hfresh3|exact Hlive3|exact Hroot3|exact Haft3|].
  intros t8 H8 Hext8 Hpf8 Hk8.
  eapply frec; [exact IH|exact H8| |reflexivity|exact Hext8| | |exact Hroom].
  + eapply at_weaken; [apply at_pframe; [exact A7|exact Hpf8]|lia|lia].
  + rewrite Hk8. apply In_insert_after_old. exact Hcur3.
  + cbn [f_appendAfter]. rewrite Hk8. apply In_insert_after_new. exact Haft3.
Qed.

End Field.

Lemma parseFieldElements_spec {md} curObj par s g :
  FIm md s g -> In curObj (kids g par) -> Phi s + 4 <= InvalidIndex ->
  (exists co lo v, tget (p_tree s) curObj = Some co /\ tget (p_tree s) (o_last co) = Some lo /\
                   o_opcode lo <> opFreed /\ o_value lo = Some (VNum v)) ->
  specm md False (parseFieldElements curObj) s g (fun res s' _ => FPost s res s').
Proof.
  intros H Hcur Hroom (co & lo & v & Hco & Hlo & Hllo & Hv). unfold specm, parseFieldElements.
  apply wp_bind. apply wp_rdf. exists co. split; [exact Hco|].
  apply wp_bind. apply wp_objectAt'.
  { eapply ObjectAt_live; eauto. apply (R_bound _ _ (fi_R _ _ H)). }
  apply wp_bind. apply wp_rdo. exists lo. split; [exact Hlo|]. rewrite Hv.
  apply wp_bind, wp_get.
  eapply wp_weaken; [apply (fieldElements_spec md curObj par)| |].
  - split; [exact H|]. split; [exact Hcur|]. split; [exact Hcur|exact Hroom].
  - intros Hf. pose proof (fi_rok _ _ H) as ((W1 & _) & _). unfold rem in Hf. lia.
  - intros res s' HQ. exact HQ.
Qed.
