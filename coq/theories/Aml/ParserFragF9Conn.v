(** [F9 copy] This file is ParserFragF1Conn.v re-done over the item type of ParserFragF9.v (one more constructor, [IStmt]: statements
    with constant operands); the item type of F1 .. F8 is shared by those fragments and is left untouched.  New material is marked F9. *)
(** C11 (fragment F1): connectNamedObjArgs turns the first-pass tree [lay1] into [lay2]
    (names set, the value of every Name moved below it), for nested Device blocks. *)
From Coq Require Import NArith ZArith Arith List Bool Lia.
From Coq Require Import ZifyBool ZifyN ZifyNat.
From FF Require Import Lib.Word Gen.Consts_device_acpi_aml Gen.Consts_aml_tree Aml.Stream Aml.Lex Aml.LexProofs
  Aml.Tree Aml.TreeSpec Aml.TreeProofs Aml.TreeProofsOps Aml.TreeProofsFind Aml.Parser Aml.Grammar Aml.LexRoundtrip
  Aml.ParserTotalTree Aml.ParserTotalBase
  Aml.ParserFragBase Aml.ParserFragFirst Aml.ParserFragF0 Aml.ParserFragF0Shape Aml.ParserFragConn Aml.ParserFragF0Conn Aml.ParserFragWalk
  Aml.ParserFragF0Top Aml.ParserFragRose Aml.ParserFragDev Aml.ParserFragArgs Aml.ParserFragF9 Aml.ParserFragF9First.
Import ListNotations.
Local Open Scope N_scope.

Ltac Zify.zify_post_hook ::= Z.div_mod_to_equations.

(** children contributed to the enclosing scope after the first pass / fuel of the pass *)
Fixpoint clen (l : list item) : nat :=
  match l with [] => O | IName _ :: t => S (S (clen t)) | IBlk _ _ _ _ _ :: t => S (clen t)
               | ILeaf _ _ _ ta :: t => S (length ta + clen t) | IPkg _ _ _ _ :: t => S (S (clen t))
               | IStmt _ ta :: t => S (length ta + clen t) end.

Fixpoint cfuel_item (it : item) : nat :=
  match it with IName _ => 2%nat
              | IBlk bk _ _ fa body => (6 + length (bfx bk fa) + fold_right (fun x n => (cfuel_item x + n)%nat) O body)%nat
              | ILeaf lk _ fa ta => (8 + length (lfx lk fa) + 2 * length ta)%nat
              | IPkg _ _ _ elems => (16 + 3 * pels_sz elems)%nat
              | IStmt _ ta => (1 + length ta)%nat end.
Definition cfuel (l : list item) : nat := fold_right (fun x n => (cfuel_item x + n)%nat) O l.
Lemma cfuel_cons x t : cfuel (x :: t) = (cfuel_item x + cfuel t)%nat. Proof. reflexivity. Qed.
Lemma cfuel_blk bk k seg fa body : cfuel_item (IBlk bk k seg fa body) = (6 + length (bfx bk fa) + cfuel body)%nat. Proof. reflexivity. Qed.

Lemma cfuel_leaf lk seg fa ta : cfuel_item (ILeaf lk seg fa ta) = (8 + length (lfx lk fa) + 2 * length ta)%nat. Proof. reflexivity. Qed.

Lemma cfuel_pkg seg k n elems : cfuel_item (IPkg seg k n elems) = (16 + 3 * pels_sz elems)%nat. Proof. reflexivity. Qed.

Lemma clen_le_cfuel l : (clen l <= cfuel l)%nat.
Proof. induction l as [|[d|bk k seg fa body|lk seg fa ta|seg k n elems|sk ta] t IH]; [cbn; lia| | | | |]; rewrite cfuel_cons; cbn [clen]; [cbn [cfuel_item]|rewrite cfuel_blk|rewrite cfuel_leaf|rewrite cfuel_pkg|cbn [cfuel_item]]; lia. Qed.

Lemma lay2_cons h tbl b off x t : lay2 h tbl b off (x :: t) = lay2_item h tbl b off x ++ lay2 h tbl (b + N.of_nat (isz x)) (off + lenN (enc_item x)) t.
Proof. reflexivity. Qed.

Lemma lay2_nodes h tbl : forall l b off x, In x (rnodesl (lay2 h tbl b off l)) -> b <= x < b + N.of_nat (iszs l).
Proof.
  induction l as [|d rest IH|bk k seg fa body rest IHb IH|lk seg fa ta rest IH|seg k n elems rest IH|sk ta rest IH] using items_ind; intros b off x Hx; [contradiction| | | | |].
  5:{ rewrite lay2_cons, rnodesl_app in Hx. rewrite iszs_cons, isz_stmt. apply in_app_or in Hx. destruct Hx as [Hx|Hx].
      - cbn [lay2_item] in Hx. unfold rnodesl in Hx. cbn [flat_map] in Hx. rewrite rnodes_eq in Hx. cbn [rnodesl flat_map app In] in Hx.
        fold (rnodesl (leaf_row (b + 1) (cst_pays h tbl (off + slo sk) ta))) in Hx.
        destruct Hx as [<-|Hx]; [lia|]. apply leaf_row_nodes in Hx. rewrite len_cst_pays in Hx. lia.
      - apply IH in Hx. rewrite isz_stmt in Hx. lia. }
  - rewrite lay2_cons, rnodesl_app in Hx. rewrite iszs_cons. apply in_app_or in Hx. destruct Hx as [Hx|Hx].
    + cbn [lay2_item rnodesl flat_map rnodes app In] in Hx. cbn [isz]. lia.
    + apply IH in Hx. cbn [isz] in *. lia.
  - rewrite lay2_cons, rnodesl_app in Hx. rewrite iszs_cons, isz_blk. apply in_app_or in Hx. destruct Hx as [Hx|Hx].
    + rewrite lay2_blk in Hx. unfold rnodesl in Hx. cbn [flat_map] in Hx. rewrite app_nil_r, rnodes_eq in Hx.
      destruct Hx as [<-|Hx]; [lia|]. rewrite rnodesl_app in Hx. apply in_app_or in Hx. destruct Hx as [Hx|Hx].
      * apply leaf_row_nodes in Hx. rewrite len_hd_pays in Hx. lia.
      * unfold rnodesl in Hx. cbn [flat_map] in Hx. rewrite app_nil_r, rnodes_eq in Hx. unfold nfx in Hx.
        destruct Hx as [<-|Hx]; [lia|]. apply IHb in Hx. lia.
    + apply IH in Hx. rewrite isz_blk in Hx. lia.
  - rewrite lay2_cons, rnodesl_app in Hx. rewrite iszs_cons, isz_leaf. apply in_app_or in Hx. destruct Hx as [Hx|Hx].
    + cbn [lay2_item] in Hx. unfold rnodesl in Hx. cbn [flat_map] in Hx. rewrite app_nil_r, rnodes_eq in Hx.
      destruct Hx as [<-|Hx]; [lia|]. apply leaf_row_nodes in Hx. rewrite app_length, len_lhd_pays, len_cst_pays in Hx. lia.
    + apply IH in Hx. rewrite isz_leaf in Hx. lia.
  - rewrite lay2_cons, rnodesl_app in Hx. rewrite iszs_cons, isz_pkg. apply in_app_or in Hx. destruct Hx as [Hx|Hx].
    + cbn [lay2_item] in Hx. unfold rnodesl in Hx. cbn [flat_map] in Hx. rewrite app_nil_r, rnodes_eq in Hx.
      destruct Hx as [<-|Hx]; [lia|]. unfold rnodesl in Hx. cbn [flat_map] in Hx. rewrite app_nil_r in Hx. apply in_app_or in Hx.
      destruct Hx as [Hx|Hx]; [rewrite rnodes_eq in Hx; cbn [rnodesl flat_map In] in Hx; lia|apply pkg_tree_nodes in Hx; lia].
    + apply IH in Hx. rewrite isz_pkg in Hx. lia.
Qed.

(** what the pass does to a range of slots *)
Record Post2 (g : ghost) (pl : list pay) (g' : ghost) (pl' : list pay) (x b : N) (n : nat) (pre post : list N) (trees : list rose) : Prop := mkPost2 {
  q_x : kids g' x = pre ++ map ridx trees ++ post;
  q_desc : Forall (Desc g' pl') trees;
  q_out_k : forall y, (y < b \/ b + N.of_nat n <= y) -> y <> x -> kids g' y = kids g y;
  q_out_p : forall y, (y < b \/ b + N.of_nat n <= y) -> pget pl' y = pget pl y
}.

Lemma kids2 g x A c B y : x < N.of_nat (length (g_kids g)) -> c < N.of_nat (length (g_kids g)) ->
  kids (set_kids (set_kids g x A) c B) y = if y =? c then B else if y =? x then A else kids g y.
Proof.
  intros Hx Hc. rewrite kids_set_kids by (rewrite len_set_kids; exact Hc). rewrite kids_set_kids by exact Hx. reflexivity.
Qed.

Lemma slice_at s tbls tbl data a b c : p_tables s = tbls -> nth_error tbls (N.to_nat tbl) = Some data -> data = a ++ b ++ c ->
  lenN b = 4 -> slice_bytes s tbl (mkSlice (Some (lenN a)) 4) = Ok b.
Proof.
  intros Ht Hn Hd Hb. unfold slice_bytes. cbn [s_len s_ptr]. change (4 =? 0) with false. cbv iota. rewrite Ht, Hn, Hd.
  replace (N.to_nat (lenN a)) with (length a) by (unfold lenN; lia).
  replace (N.to_nat 4) with (length b) by (unfold lenN in Hb; lia). rewrite take_bytes_app. reflexivity.
Qed.

Lemma seg_bytes_nm seg : seg_bytes seg = [N.land (N.shiftr seg 24) 0xff; N.land (N.shiftr seg 16) 0xff; N.land (N.shiftr seg 8) 0xff; N.land seg 0xff].
Proof. reflexivity. Qed.

Lemma const_row' op : is_constb op = true -> exists row, opInfo (const_info op) = Some row /\ op <> opFreed.
Proof.
  intros Hc. destruct (is_constb_cases _ Hc) as [E|[E|[E|[E|[E|[E|E]]]]]]; rewrite E; (eexists; split; [reflexivity|discriminate]).
Qed.

Lemma last_app_two' {A} (l : list A) x y d : last (l ++ [x; y]) d = y.
Proof. replace (l ++ [x; y]) with ((l ++ [x]) ++ [y]) by (rewrite <- app_assoc; reflexivity). apply last_app_one. Qed.

(** ---- moving a run of siblings below the target ---- *)
Lemma desc_redirect2 g g2 tg a : (forall v c, v <> tg -> In c (kids g2 v) -> In c (kids g v)) ->
  forall x, desc g2 a x -> desc g a x \/ desc g a tg.
Proof.
  intros Hsub x Hd. induction Hd as [|p c Hd IH Hin]; [left; constructor|].
  destruct IH as [IH|IH]; [|right; exact IH].
  destruct (N.eq_dec p tg) as [->|Hne]; [right; exact IH|]. left. eapply desc_step; [exact IH|apply Hsub; assumption].
Qed.

Lemma attach_go : forall cs f obj tg l1 l2 ao atg s g pl (Q : pres -> pstate -> Prop),
  Rep (p_tree s) g pl -> kids g obj = l1 ++ tg :: cs ++ l2 ->
  (forall c, In c cs -> ~ desc g c tg /\ exists ac, pget pl c = Some ac /\ y_op ac <> opFreed) ->
  pget pl obj = Some ao -> y_op ao <> opFreed -> pget pl tg = Some atg -> y_op atg <> opFreed ->
  (forall t' g', Rep t' g' pl -> length (g_kids g') = length (g_kids g) ->
     (forall y, kids g' y = if y =? tg then kids g tg ++ cs else if y =? obj then l1 ++ tg :: l2 else kids g y) ->
     Q ROk (with_tree s t')) ->
  wp False (attachSiblings_go (length cs + S f) obj tg (hd InvalidIndex (cs ++ l2)) (N.of_nat (length cs)) false) s Q.
Proof.
  induction cs as [|c cs IH]; intros f obj tg l1 l2 ao atg s g pl Q H Hk Hcs Hao Hlo Hatg Hltg K.
  - cbn [length Nat.add]. rewrite attachSiblings_go_S. change (N.of_nat 0 =? 0) with true. cbv iota. apply wp_ret.
    assert (E : with_tree s (p_tree s) = s) by (destruct s; reflexivity). rewrite <- E. apply (K (p_tree s) g H eq_refl).
    intros y. rewrite app_nil_r. cbn [app] in Hk. destruct (N.eqb_spec y tg) as [->|]; [reflexivity|]. destruct (N.eqb_spec y obj) as [->|]; [exact Hk|reflexivity].
  - pose proof (rep_R _ _ _ H) as HR. cbn [length app hd] in *.
    destruct (Hcs c (or_introl eq_refl)) as (Hndc & ac & Hac & Hlc).
    change (S (length cs) + S f)%nat with (S (length cs + S f)). rewrite attachSiblings_go_S.
    assert (En : N.of_nat (S (length cs)) =? 0 = false) by (apply N.eqb_neq; lia). rewrite En. rewrite andb_false_r.
    apply wp_bind. apply wp_ret. rewrite (rep_not_Inv _ _ _ _ _ H Hac).
    apply wp_bind. unfold objectAt. apply wp_get. rewrite (rep_ObjectAt _ _ _ H _ _ Hac Hlc).
    apply wp_bind. apply wp_need.
    assert (Hk2 : kids g obj = (l1 ++ [tg]) ++ c :: (cs ++ l2)) by (rewrite <- app_assoc; exact Hk).
    apply wp_bind. eapply (wp_rdf_sib False obj (l1 ++ [tg]) c (cs ++ l2)); [exact H|exact Hk2|]. intros o1 _ _ _ Hnext _. rewrite Hnext.
    apply wp_bind. eapply (wp_rdf_sib False obj (l1 ++ [tg]) c (cs ++ l2)); [exact H|exact Hk2|]. intros o2 _ Hpar _ _ _. rewrite Hpar.
    apply wp_bind. unfold objectAt. apply wp_get. rewrite (rep_ObjectAt _ _ _ H _ _ Hao Hlo).
    assert (Hin_c : In c (kids g obj)) by (rewrite Hk2; apply in_or_app; right; left; reflexivity).
    assert (Hin_t : In tg (kids g obj)) by (rewrite Hk; apply in_or_app; right; left; reflexivity).
    assert (Hlive_o : glive g obj) by (eapply rep_live; eauto).
    assert (Hlive_t : glive g tg) by (eapply rep_live; eauto).
    assert (Hlive_c : glive g c) by (eapply rep_live; eauto).
    assert (Hnd : NoDup (kids g obj)).
    { destruct (rep_obj _ _ _ H _ _ Hao Hlo) as (oo & Hoo & Epay & _).
      assert (Hloo : o_opcode oo <> opFreed) by (rewrite (pay_op _ _ Epay); exact Hlo).
      destruct (R_kids _ _ HR _ _ Hoo Hloo) as (_ & _ & _ & Hnd). exact Hnd. }
    assert (Hnotin : ~ In c ((l1 ++ [tg]) ++ cs ++ l2)) by (apply NoDup_mid_notin; rewrite <- Hk2; exact Hnd).
    assert (Hrem : remove1 c (kids g obj) = l1 ++ tg :: cs ++ l2).
    { rewrite Hk2, remove1_split; [rewrite <- app_assoc; reflexivity|]. intros Hi. apply Hnotin. apply in_or_app. left. exact Hi. }
    apply wp_bind. eapply wp_detach_rep; [exact H|exact Hin_c|]. intros t1 H1. rewrite Hrem in H1.
    set (g1 := set_kids g obj (l1 ++ tg :: cs ++ l2)) in *.
    assert (Holt : obj < N.of_nat (length (g_kids g))) by (apply glive_lt; exact Hlive_o).
    assert (Htlt : tg < N.of_nat (length (g_kids g))) by (apply glive_lt; exact Hlive_t).
    assert (Hne_to : tg <> obj) by (eapply (R_child_neq_parent _ _ HR); eauto).
    assert (Hne_co : c <> obj) by (eapply (R_child_neq_parent _ _ HR); eauto).
    assert (Hne_ct : c <> tg).
    { intros E. apply Hnotin. rewrite E. apply in_or_app. left. apply in_or_app. right. left. reflexivity. }
    assert (Hk1 : forall q, kids g1 q = if q =? obj then l1 ++ tg :: cs ++ l2 else kids g q).
    { intros q. unfold g1. apply kids_set_kids. exact Holt. }
    assert (Hroot1 : groot g1 c).
    { intros q Hq. rewrite Hk1 in Hq. destruct (N.eqb_spec q obj) as [E|Hne].
      - apply Hnotin. rewrite <- app_assoc. exact Hq.
      - apply Hne. eapply (R_parent_unique _ _ HR); eauto. }
    assert (Hsub1 : forall v c', v <> tg -> In c' (kids g1 v) -> In c' (kids g v)).
    { intros v c' _ Hc'. rewrite Hk1 in Hc'. destruct (N.eqb_spec v obj) as [->|_]; [|exact Hc'].
      rewrite Hk. apply in_app_or in Hc'. apply in_or_app. destruct Hc' as [Hc'|Hc']; [left; exact Hc'|right].
      destruct Hc' as [<-|Hc']; [left; reflexivity|right; right; exact Hc']. }
    assert (Hnd1 : ~ desc g1 c tg).
    { intros Hd. destruct (desc_redirect2 g g1 tg c Hsub1 tg Hd) as [A|A]; exact (Hndc A). }
    apply wp_bind. eapply (wp_append_rep False tg c _ g1 pl); [exact H1|apply glive_set_kids; exact Hlive_t|apply glive_set_kids; exact Hlive_c|exact Hroot1|exact Hnd1|].
    intros t2 H2. rewrite Hk1 in H2. assert (Eto : tg =? obj = false) by (apply N.eqb_neq; exact Hne_to). rewrite Eto in H2.
    set (g2 := set_kids g1 tg (kids g tg ++ [c])) in *.
    assert (Hk2' : forall q, kids g2 q = if q =? tg then kids g tg ++ [c] else if q =? obj then l1 ++ tg :: cs ++ l2 else kids g q).
    { intros q. unfold g2. rewrite kids_set_kids by (unfold g1; rewrite len_set_kids; exact Htlt). rewrite Hk1. reflexivity. }
    replace (N.of_nat (S (length cs)) - 1) with (N.of_nat (length cs)) by lia.
    assert (Eot : obj =? tg = false) by (apply N.eqb_neq; congruence).
    eapply (IH f obj tg l1 l2 ao atg _ g2 pl Q); [exact H2| | |exact Hao|exact Hlo|exact Hatg|exact Hltg|].
    + rewrite Hk2', Eot, N.eqb_refl. reflexivity.
    + intros c' Hc'. destruct (Hcs c' (or_intror Hc')) as (Hndc' & Hp'). split; [|exact Hp'].
      intros Hd. assert (Hsub2 : forall v c0, v <> tg -> In c0 (kids g2 v) -> In c0 (kids g v)).
      { intros v c0 Hv Hc0. rewrite Hk2' in Hc0. apply N.eqb_neq in Hv. rewrite Hv in Hc0. apply N.eqb_neq in Hv.
        apply (Hsub1 v c0 Hv). rewrite Hk1. exact Hc0. }
      destruct (desc_redirect2 g g2 tg c' Hsub2 tg Hd) as [A|A]; exact (Hndc' A).
    + intros t' g' H' Hlen' Hk'. apply (K t' g' H').
      * rewrite Hlen'. unfold g2, g1. rewrite !len_set_kids. reflexivity.
      * intros y. rewrite Hk', !Hk2', N.eqb_refl. destruct (N.eqb_spec y tg); [rewrite <- app_assoc; reflexivity|].
        destruct (N.eqb_spec y obj); reflexivity.
Qed.

(** a run of childless children in the middle of the child list is stepped over *)
Lemma conn_leaves_mid : forall D1 f obj L D2 s g pl (Q : pres -> pstate -> Prop),
  Rep (p_tree s) g pl -> kids g obj = L ++ D1 ++ D2 ->
  (forall d, In d D1 -> kids g d = [] /\ exists a row, pget pl d = Some a /\ y_op a <> opFreed /\ opInfo (y_info a) = Some row) ->
  wp False (connectNamed_loop (S (S f)) obj (last L InvalidIndex)) s Q ->
  wp False (connectNamed_loop (length D1 + S (S f)) obj (last (L ++ D1) InvalidIndex)) s Q.
Proof.
  induction D1 as [|x D1 IH] using rev_ind; intros f obj L D2 s g pl Q H Hk Hall K.
  - cbn [length Nat.add]. rewrite app_nil_r. exact K.
  - rewrite app_length. cbn [length]. replace (length D1 + 1 + S (S f))%nat with (S (S (S (length D1 + f))))%nat by lia.
    rewrite app_assoc, last_app_one. destruct (Hall x) as (Hkx & a & row & Ha & Hl & Hrow); [apply in_or_app; right; left; reflexivity|].
    assert (Hk' : kids g obj = (L ++ D1) ++ x :: D2) by (rewrite Hk, <- !app_assoc; reflexivity).
    eapply (CNloop_leaf _ obj x (L ++ D1) D2 a row); [exact H|exact Hk'|exact Ha|exact Hl|exact Hkx|exact Hrow|].
    replace (S (S (length D1 + f)))%nat with (length D1 + S (S f))%nat by lia.
    eapply (IH f obj L (x :: D2)); [exact H|rewrite Hk, <- !app_assoc; reflexivity| |exact K].
    intros d Hd. apply Hall. apply in_or_app. left. exact Hd.
Qed.

(** ---- connectNamedObjArgs over objects that are not named objects of the table being loaded ---- *)
Definition conn_ok (g : ghost) (h : N) (y : N) (a : pay) : Prop :=
  exists op flags af, opInfo (y_info a) = Some (op, flags, af) /\
    negb (hasFlag flags aml_pOpFlagNamed) || negb (y_th a =? h) || (hd InvalidIndex (kids g y) =? InvalidIndex) || (y_op a =? aml_pOpIntScopeBlock) = true.

Section ConnS.
Variable g : ghost.
Variable pl : list pay.
Variable h : N.
Variable S : N -> Prop.
Hypothesis Sclosed : forall y c, S y -> In c (kids g y) -> S c.
Hypothesis Hall : forall y a, S y -> pget pl y = Some a -> y_op a <> opFreed -> conn_ok g h y a.

Definition CWs (f : nat) : Prop := forall x a s, Rep (p_tree s) g pl -> p_handle s = h -> S x ->
  pget pl x = Some a -> y_op a <> opFreed -> fwalkb g f x ->
  wp False (connectNamedObjArgs f x) s (fun r s' => r = ROk /\ s' = s).

Definition CLs (f : nat) : Prop := forall p lr l2 s, Rep (p_tree s) g pl -> p_handle s = h ->
  kids g p = rev lr ++ l2 -> (forall c, In c lr -> S c) -> floopb g f lr ->
  wp False (connectNamed_loop f p (hd InvalidIndex lr)) s (fun r s' => r = ROk /\ s' = s).

Lemma conn_step f p lr c l2 a s (Q : pres -> pstate -> Prop) :
  CWs f -> Rep (p_tree s) g pl -> p_handle s = h -> kids g p = rev lr ++ c :: l2 -> S c -> pget pl c = Some a -> y_op a <> opFreed ->
  fwalkb g f c ->
  wp False (connectNamed_loop f p (hd InvalidIndex lr)) s Q ->
  wp False (connectNamed_loop (Datatypes.S f) p c) s Q.
Proof.
  intros IHw H Hh Hk HS Hac Hlc Hfc K. rewrite connectNamed_loop_S. rewrite (rep_not_Inv _ _ _ _ _ H Hac).
  apply wp_bind. eapply wp_objectAt_rep; [exact H|exact Hac|exact Hlc|].
  apply wp_bind. eapply (wp_rdf_sib False p (rev lr) c l2); [exact H|exact Hk|]. intros o' Hidx _ _ _ _. rewrite Hidx.
  apply wp_bind. eapply wp_conseq; [apply (IHw c a s H Hh HS Hac Hlc Hfc)|]. intros r0 s' (-> & ->).
  change (negb (pres_eqb ROk ROk)) with false. cbv iota zeta.
  destruct (Hall c a HS Hac Hlc) as (op & flags & af & Hrow & Hcond).
  apply wp_bind. eapply wp_rdo_rep; [exact H|exact Hac|exact Hlc|]. intros ao Hpay _ Hfirst _.
  rewrite (pay_info _ _ Hpay). apply wp_bind. eapply wp_info; [exact Hrow|]. cbv beta iota.
  apply wp_bind, wp_get. rewrite (pay_th _ _ Hpay), (pay_op _ _ Hpay), Hfirst, Hh, Hcond.
  apply wp_bind. eapply (wp_rdf_sib False p (rev lr) c l2); [exact H|exact Hk|]. intros o _ _ Hprev _ _. rewrite Hprev, last_rev_hd. exact K.
Qed.

Lemma connS_walk f : CLs f -> CWs (Datatypes.S f).
Proof.
  intros IHl x a s H Hh HSx Ha Hl Hf. rewrite connectNamedObjArgs_S.
  apply wp_bind. eapply wp_objectAt_rep; [exact H|exact Ha|exact Hl|].
  apply wp_bind. eapply wp_rdf_rep; [exact H|exact Ha|exact Hl|]. intros o _ _ _ Hlast. rewrite Hlast.
  cbn [fwalkb] in Hf. rewrite <- (rev_involutive (kids g x)) at 1. rewrite last_rev_hd.
  apply (IHl x (rev (kids g x)) [] s H Hh); [rewrite rev_involutive, app_nil_r; reflexivity| |exact Hf].
  intros c Hc. apply in_rev in Hc. eapply Sclosed; eauto.
Qed.

Lemma connS_loop f : CWs f -> CLs f -> CLs (Datatypes.S f).
Proof.
  intros IHw IHl p lr l2 s H Hh Hk HS Hf.
  destruct lr as [|c r]; cbn [hd]; [rewrite connectNamed_loop_S, N.eqb_refl; apply wp_ret; auto|].
  cbn [rev] in Hk. rewrite <- app_assoc in Hk. cbn [app] in Hk.
  assert (Hin : In c (kids g p)) by (rewrite Hk; apply in_or_app; right; left; reflexivity).
  destruct (rep_kid_pay _ _ _ _ _ H Hin) as (ac & Hac & Hlc).
  cbn [floopb] in Hf. destruct Hf as [Hfc Hfr].
  eapply (conn_step f p r c l2 ac s); [exact IHw|exact H|exact Hh|exact Hk|apply HS; left; reflexivity|exact Hac|exact Hlc|exact Hfc|].
  apply (IHl p r (c :: l2) s H Hh); [exact Hk| |exact Hfr]. intros c' Hc'. apply HS. right. exact Hc'.
Qed.

Lemma connS_all : forall f, CWs f /\ CLs f.
Proof.
  induction f as [|f (IHw & IHl)].
  - split; intro; intros; cbn in *; contradiction.
  - split; [apply connS_walk; exact IHl|apply connS_loop; assumption].
Qed.
End ConnS.

Lemma Desc_kids_in g pl : forall r, Desc g pl r -> forall y c, In y (rnodes r) -> In c (kids g y) -> In c (rnodes r).
Proof.
  induction r as [i a ks IH] using rose_ind2. intros Hd y c Hy Hc. destruct (Desc_inv _ _ _ _ _ Hd) as (Hp & Hk & Hks).
  rewrite rnodes_eq in Hy |- *. destruct Hy as [<-|Hy].
  - rewrite Hk in Hc. apply in_map_iff in Hc. destruct Hc as (r & <- & Hr). right. unfold rnodesl. apply in_flat_map.
    exists r. split; [exact Hr|]. destruct r. rewrite rnodes_eq. left. reflexivity.
  - right. unfold rnodesl in *. apply in_flat_map in Hy. destruct Hy as (r & Hr & Hyr). apply in_flat_map. exists r. split; [exact Hr|].
    rewrite Forall_forall in IH, Hks. apply (IH r Hr (Hks r Hr) y c Hyr Hc).
Qed.

Lemma desc_in_tree g pl r : Desc g pl r -> forall y, desc g (ridx r) y -> In y (rnodes r).
Proof.
  intros Hd y Hy. induction Hy as [|p c Hy IH Hin].
  - destruct r. rewrite rnodes_eq. left. reflexivity.
  - eapply Desc_kids_in; eauto.
Qed.

Section ConnSpec.
Variable h tbl : N.
Variable tbls : list (list N).
Variable data : list N.
Hypothesis Hnth : nth_error tbls (N.to_nat tbl) = Some data.

Definition CSpec (its : list item) : Prop :=
  forall x pre post b off s g pl f ax R dpre dpost (Q : pres -> pstate -> Prop),
  Rep (p_tree s) g pl ->
  kids g x = pre ++ map ridx (lay1 h tbl b off its) ++ post ->
  Forall (Desc g pl) (lay1 h tbl b off its) ->
  pget pl x = Some ax -> y_op ax <> opFreed -> (x < b \/ b + N.of_nat (iszs its) <= x) ->
  p_handle s = h -> p_tables s = tbls -> data = dpre ++ enc_items its ++ dpost -> off = lenN dpre ->
  forallb item_okb its = true ->
  (8 <= R)%nat -> (cfuel its + R <= f)%nat ->
  (forall t' g' pl', Rep t' g' pl' -> Post2 g pl g' pl' x b (iszs its) pre post (lay2 h tbl b off its) ->
     wp False (connectNamed_loop (f - clen its) x (last pre InvalidIndex)) (with_tree s t') Q) ->
  wp False (connectNamed_loop f x (last (pre ++ map ridx (lay1 h tbl b off its)) InvalidIndex)) s Q.

Lemma cspec_nil : CSpec [].
Proof.
  intros x pre post b off s g pl f ax R dpre dpost Q H Hk HD Hx Hlx Hrange Hh Htb Hdata Hoff Hok HR Hf K.
  cbn [lay1 map clen] in *. rewrite app_nil_r. rewrite Nat.sub_0_r in K.
  specialize (K (p_tree s) g pl H). assert (E : with_tree s (p_tree s) = s) by (destruct s; reflexivity). rewrite E in K.
  apply K. constructor; auto.
Qed.

Lemma cspec_name d rest : CSpec rest -> CSpec (IName d :: rest).
Proof.
  intros IH x pre post b off s g pl f ax R dpre dpost Q H Hk HD Hx Hlx Hrange Hh Htb Hdata Hoff Hok HR Hf K.
  apply forallb_item_cons in Hok. destruct Hok as [Hd_ok Hok]. cbn [item_okb] in Hd_ok.
  apply andb_prop in Hd_ok. destruct Hd_ok as [Hdok _]. unfold decl_okb in Hdok.
  apply andb_prop in Hdok. destruct Hdok as [Hx' _]. apply andb_prop in Hx'. destruct Hx' as [_ Hc].
  destruct (const_row' _ Hc) as (rowc & Hrowc & Hlc).
  rewrite lay1_cons in Hk, HD |- *. rewrite iszs_cons in Hrange. rewrite cfuel_cons in Hf. cbn [isz cfuel_item] in *.
  cbn [lay1_item] in Hk, HD |- *. rewrite map_app in Hk |- *. cbn [map ridx] in Hk |- *.
  change (enc_item (IName d)) with (enc_decl d) in *.
  apply Forall_app in HD. destruct HD as [HDit HDrest].
  pose proof (Forall_inv HDit) as DN. pose proof (Forall_inv (Forall_inv_tail HDit)) as DC. clear HDit.
  destruct (Desc_inv _ _ _ _ _ DN) as (PN & KN & HDp). pose proof (Forall_inv HDp) as DP. clear HDp.
  destruct (Desc_inv _ _ _ _ _ DP) as (PP & KP & _). destruct (Desc_inv _ _ _ _ _ DC) as (PC & KC & _).
  cbn [map ridx] in KN, KP, KC.
  set (B' := b + N.of_nat 3) in *. assert (HB' : B' = b + 3) by (unfold B'; lia).
  rewrite enc_items_cons in Hdata. cbn [enc_item] in Hdata.
  replace (pre ++ [b; b + 2] ++ map ridx (lay1 h tbl B' (off + lenN (enc_decl d)) rest))
    with ((pre ++ [b; b + 2]) ++ map ridx (lay1 h tbl B' (off + lenN (enc_decl d)) rest)) by (rewrite <- app_assoc; reflexivity).
  eapply (IH x (pre ++ [b; b + 2]) post B' (off + lenN (enc_decl d)) s g pl f ax (R + 2)%nat (dpre ++ enc_decl d) dpost Q);
    [exact H|rewrite Hk, <- !app_assoc; reflexivity|exact HDrest|exact Hx|exact Hlx|lia|exact Hh|exact Htb| | |exact Hok|lia|lia|].
  { rewrite Hdata, <- !app_assoc. reflexivity. }
  { rewrite lenN_app, Hoff. reflexivity. }
  intros t1 g1 pl1 H1 [Q1 Q2 Q3 Q4].
  assert (Hxne : x <> b /\ x <> b + 1 /\ x <> b + 2) by lia. destruct Hxne as (Hxb & Hxb1 & Hxb2).
  assert (KN1 : kids g1 b = [b + 1]) by (rewrite Q3 by lia; exact KN).
  assert (KP1 : kids g1 (b + 1) = []) by (rewrite Q3 by lia; exact KP).
  assert (KC1 : kids g1 (b + 2) = []) by (rewrite Q3 by lia; exact KC).
  assert (PN1 : pget pl1 b = Some (nam_pay h off name_zero)) by (rewrite Q4 by lia; exact PN).
  assert (PP1 : pget pl1 (b + 1) = Some (pth_pay h tbl (off + 1))) by (rewrite Q4 by lia; exact PP).
  assert (PC1 : pget pl1 (b + 2) = Some (cst_pay h (off + 5) d)) by (rewrite Q4 by lia; exact PC).
  assert (Px1 : pget pl1 x = Some ax) by (rewrite Q4 by lia; exact Hx).
  set (l2 := map ridx (lay2 h tbl B' (off + lenN (enc_decl d)) rest) ++ post) in *.
  assert (Hk1 : kids g1 x = pre ++ b :: (b + 2) :: l2) by (rewrite Q1, <- !app_assoc; reflexivity).
  rewrite last_app_two'.
  assert (EF : exists f1, (f - clen rest = S (S (S (S (S (S f1))))))%nat).
  { pose proof (clen_le_cfuel rest). exists (f - clen rest - 6)%nat. lia. }
  destruct EF as (f1 & EF). rewrite EF.
  (* the constant *)
  eapply (CNloop_leaf _ x (b + 2) (pre ++ [b]) l2 (cst_pay h (off + 5) d) rowc);
    [exact H1|rewrite Hk1, <- app_assoc; reflexivity|exact PC1|exact Hlc|exact KC1|exact Hrowc|].
  rewrite last_app_one.
  (* the Name object *)
  assert (Hsl : slice_bytes (with_tree s t1) tbl (mkSlice (Some (off + 1)) 4) = Ok (seg_bytes (d_seg d))).
  { replace (off + 1) with (lenN (dpre ++ [OP_NAME])) by (rewrite lenN_app, Hoff; reflexivity).
    eapply (slice_at _ tbls tbl data (dpre ++ [OP_NAME]) (seg_bytes (d_seg d)) (enc_const d ++ enc_items rest ++ dpost)); [exact Htb|exact Hnth| |reflexivity].
    rewrite Hdata. unfold enc_decl. rewrite <- !app_assoc. reflexivity. }
  rewrite seg_bytes_nm in Hsl.
  eapply (CNloop_name _ x b (b + 1) (b + 2) pre l2 ax (nam_pay h off name_zero) (pth_pay h tbl (off + 1)) (cst_pay h (off + 5) d)
            (aml_pOpIntNamePath, 8, 0) tbl (mkSlice (Some (off + 1)) 4));
    [exact H1|exact Hk1|exact KN1|exact KP1|exact KC1|exact Px1|exact Hlx|exact PN1|reflexivity|reflexivity|symmetry; exact Hh
    |exact PP1|discriminate|reflexivity|reflexivity|reflexivity|exact Hsl|exact PC1|exact Hlc|].
  intros t2 H2.
  replace (S (S (S (S f1)))) with (f - clen (IName d :: rest))%nat by (cbn [clen]; lia).
  apply (K t2 _ _ H2).
  (* the description of the result *)
  pose proof (rep_len_g _ _ _ H1) as Hlg1.
  assert (Hxlt : x < N.of_nat (length (g_kids g1))) by (rewrite Hlg1; eapply pget_lt; eauto).
  assert (Hblt : b < N.of_nat (length (g_kids g1))) by (rewrite Hlg1; eapply pget_lt; eauto).
  assert (HK2 : forall y, kids (set_kids (set_kids g1 x (pre ++ b :: l2)) b [b + 1; b + 2]) y =
                          if y =? b then [b + 1; b + 2] else if y =? x then pre ++ b :: l2 else kids g1 y).
  { intros y. apply kids2; assumption. }
  rewrite lay2_cons. cbn [lay2_item isz]. fold B'. constructor.
  - rewrite HK2. destruct (N.eqb_spec x b); [lia|]. rewrite N.eqb_refl. rewrite map_app. cbn [map ridx]. unfold l2. rewrite <- !app_assoc. reflexivity.
  - apply Forall_app. split.
    + constructor; [|constructor]. constructor.
      * rewrite pget_pupd, N.eqb_refl, PN1. reflexivity.
      * rewrite HK2, N.eqb_refl. reflexivity.
      * constructor; [|constructor; [|constructor]].
        -- constructor; [rewrite pget_pupd; destruct (N.eqb_spec (b + 1) b); [lia|exact PP1]| |constructor].
           rewrite HK2. destruct (N.eqb_spec (b + 1) b); [lia|]. destruct (N.eqb_spec (b + 1) x); [lia|exact KP1].
        -- constructor; [rewrite pget_pupd; destruct (N.eqb_spec (b + 2) b); [lia|exact PC1]| |constructor].
           rewrite HK2. destruct (N.eqb_spec (b + 2) b); [lia|]. destruct (N.eqb_spec (b + 2) x); [lia|exact KC1].
    + apply (Desc_frame_l g1 pl1); [exact Q2|]. intros y Hy. apply lay2_nodes in Hy.
      split; [rewrite HK2; destruct (N.eqb_spec y b); [lia|]; destruct (N.eqb_spec y x); [lia|reflexivity]|].
      rewrite pget_pupd. destruct (N.eqb_spec y b); [lia|reflexivity].
  - intros y Hy Hyx. rewrite iszs_cons in Hy. cbn [isz] in Hy. rewrite HK2. destruct (N.eqb_spec y b); [lia|]. apply N.eqb_neq in Hyx. rewrite Hyx. apply Q3; [lia|apply N.eqb_neq; exact Hyx].
  - intros y Hy. rewrite iszs_cons in Hy. cbn [isz] in Hy. rewrite pget_pupd. destruct (N.eqb_spec y b); [lia|]. apply Q4. lia.
Qed.

Lemma bk_tai bk : (argCount (bk_af bk) <=? termArgIndex (bk_af bk)) = true /\ hasFlag 33 aml_pOpFlagNamed = true /\
  (bk_op bk =? aml_pOpIntScopeBlock) = false.
Proof. destruct bk; repeat split. Qed.

Lemma hd_rows (bk : bkind) off k fa : forall p, In p (hd_pays h tbl bk off k fa) -> exists row, opInfo (y_info p) = Some row /\ y_op p <> opFreed.
Proof.
  unfold hd_pays. intros p [<-|Hp]; [eexists; split; [reflexivity|discriminate]|].
  generalize dependent (off + blo bk + k + 4). generalize (bfx bk fa). induction f as [|[w v] r IH]; intros o Hp; [contradiction|].
  cbn [fx_pays In] in Hp. destruct Hp as [<-|Hp]; [destruct w; (eexists; split; [reflexivity|discriminate])|]. apply (IH _ Hp).
Qed.

Lemma last_seqN b n : last (seqN b (S n)) InvalidIndex = b + N.of_nat n.
Proof. rewrite seqN_snoc. apply last_app_one. Qed.

Lemma cspec_blk bk k seg fa body rest : CSpec body -> CSpec rest -> CSpec (IBlk bk k seg fa body :: rest).
Proof.
  intros IHb IH x pre post b off s g pl f ax R dpre dpost Q H Hk HD Hx Hlx Hrange Hh Htb Hdata Hoff Hok HR Hf K.
  apply forallb_item_cons in Hok. destruct Hok as [Hd_ok Hok]. cbn [item_okb] in Hd_ok.
  apply andb_prop in Hd_ok. destruct Hd_ok as [Hx' Hbody_ok]. apply andb_prop in Hx'. destruct Hx' as [_ Hpk]. apply pkglen_okb_adm in Hpk.
  destruct (bk_tai bk) as (Htai & Hnamed & Hnsb).
  rewrite lay1_cons in Hk, HD |- *. rewrite iszs_cons, isz_blk in Hrange. rewrite cfuel_cons, cfuel_blk in Hf.
  rewrite lay1_blk in Hk, HD |- *. rewrite map_app in Hk |- *. cbn [map ridx] in Hk |- *.
  rewrite isz_blk in Hk, HD |- *. rewrite enc_blk in Hk, HD |- *.
  set (l := bfx bk fa) in *. set (nf := length l) in *. set (lo := blo bk) in *.
  assert (Hm : nfx bk fa = N.of_nat nf) by reflexivity. rewrite Hm in *.
  set (hdp := hd_pays h tbl bk off k fa) in *.
  assert (Hlh : length hdp = S nf) by apply len_hd_pays.
  set (v := k + lenN (seg_bytes seg ++ enc_fx l ++ enc_items body)) in *.
  pose proof (lenN_enc_pkglen k v Hpk) as Hlk.
  assert (HlenI : lenN (enc_op (bk_op bk) ++ enc_pkglen k v ++ seg_bytes seg ++ enc_fx l ++ enc_items body) = lo + k + 4 + lenN (enc_fx l) + lenN (enc_items body)).
  { rewrite !lenN_app, Hlk. change (lenN (enc_op (bk_op bk))) with lo. change (lenN (seg_bytes seg)) with 4. lia. }
  set (off1 := sb_off bk off k fa) in *.
  assert (Hoff1 : off1 = off + lo + k + 4 + lenN (enc_fx l)) by reflexivity.
  set (sbi := b + 2 + N.of_nat nf) in *.
  set (B' := b + N.of_nat (3 + nf + iszs body)) in *.
  set (off' := off + lenN (enc_op (bk_op bk) ++ enc_pkglen k v ++ seg_bytes seg ++ enc_fx l ++ enc_items body)) in *.
  apply Forall_app in HD. destruct HD as [HDit HDrest].
  pose proof (Forall_inv HDit) as DD. clear HDit.
  destruct (Desc_inv _ _ _ _ _ DD) as (PD & KD & HD2). rewrite map_app, leaf_row_idx, Hlh in KD. cbn [map ridx] in KD.
  apply Forall_app in HD2. destruct HD2 as [HDrow HDsb]. pose proof (Forall_inv HDsb) as DS. clear HDsb.
  destruct (Desc_inv _ _ _ _ _ DS) as (PS & KS & HDbody).
  pose proof (leaf_row_desc_inv _ _ _ _ HDrow) as Hrow.
  rewrite enc_items_cons, enc_blk in Hdata. fold l v in Hdata.
  replace (pre ++ [b] ++ map ridx (lay1 h tbl B' off' rest)) with ((pre ++ [b]) ++ map ridx (lay1 h tbl B' off' rest)) by (rewrite <- app_assoc; reflexivity).
  eapply (IH x (pre ++ [b]) post B' off' s g pl f ax (R + 6 + nf + cfuel body)%nat (dpre ++ enc_op (bk_op bk) ++ enc_pkglen k v ++ seg_bytes seg ++ enc_fx l ++ enc_items body) dpost Q);
    [exact H|rewrite Hk, <- !app_assoc; reflexivity|exact HDrest|exact Hx|exact Hlx|unfold B'; lia|exact Hh|exact Htb| | |exact Hok|lia|lia|].
  { rewrite Hdata, <- !app_assoc. reflexivity. }
  { unfold off'. rewrite Hoff. symmetry. apply lenN_app. }
  intros t1 g1 pl1 H1 [Q1 Q2 Q3 Q4].
  assert (Hout1 : forall y, b <= y < b + N.of_nat (3 + nf + iszs body) -> (y < B' \/ B' + N.of_nat (iszs rest) <= y) /\ y <> x) by (intros y Hy; unfold B'; lia).
  assert (KD1 : kids g1 b = seqN (b + 1) (S nf) ++ [sbi]) by (rewrite Q3 by (apply Hout1; lia); exact KD).
  assert (KS1 : kids g1 sbi = map ridx (lay1 h tbl (b + 3 + N.of_nat nf) off1 body)) by (rewrite Q3 by (apply Hout1; unfold sbi; lia); exact KS).
  assert (PD1 : pget pl1 b = Some (blk_pay h bk off name_zero)) by (rewrite Q4 by (apply Hout1; lia); exact PD).
  assert (PS1 : pget pl1 sbi = Some (sb_pay h off1)) by (rewrite Q4 by (apply Hout1; unfold sbi; lia); exact PS).
  assert (Hrow1 : forall i p, nth_error hdp i = Some p -> pget pl1 (b + 1 + N.of_nat i) = Some p /\ kids g1 (b + 1 + N.of_nat i) = []).
  { intros i p Hi. assert (Hilt : (i < S nf)%nat) by (rewrite <- Hlh; apply nth_error_Some; congruence).
    destruct (Hrow i p Hi) as (A & B0). split; [rewrite Q4 by (apply Hout1; lia); exact A|rewrite Q3 by (apply Hout1; lia); exact B0]. }
  assert (Px1 : pget pl1 x = Some ax) by (rewrite Q4 by (unfold B'; lia); exact Hx).
  assert (HDbody1 : Forall (Desc g1 pl1) (lay1 h tbl (b + 3 + N.of_nat nf) off1 body)).
  { apply (Desc_frame_l g pl); [exact HDbody|]. intros y Hy. apply lay1_nodes in Hy.
    split; [apply Q3; apply Hout1; lia|apply Q4; apply Hout1; lia]. }
  set (l2 := map ridx (lay2 h tbl B' off' rest) ++ post) in *.
  assert (Hk1 : kids g1 x = pre ++ b :: l2) by (rewrite Q1, <- !app_assoc; reflexivity).
  rewrite last_app_one.
  assert (EF : exists f', (f - clen rest = S (S (S (S (S (S (S (nf + f'))))))))%nat).
  { pose proof (clen_le_cfuel rest). exists (f - clen rest - 7 - nf)%nat. lia. }
  destruct EF as (f' & EF). rewrite EF.
  (* the loop of the enclosing scope reaches the block object *)
  rewrite connectNamed_loop_S. rewrite (rep_not_Inv _ _ _ _ _ H1 PD1).
  assert (Hlb : y_op (blk_pay h bk off name_zero) <> opFreed) by (destruct bk; discriminate).
  apply wp_bind. eapply wp_objectAt_rep; [exact H1|exact PD1|exact Hlb|].
  apply wp_bind. eapply wp_rdf_rep; [exact H1|exact PD1|exact Hlb|]. intros od _ Hidx _ _. rewrite Hidx.
  (* connectNamedObjArgs on the block object *)
  apply wp_bind. rewrite connectNamedObjArgs_S.
  apply wp_bind. eapply wp_objectAt_rep; [exact H1|exact PD1|exact Hlb|].
  apply wp_bind. eapply wp_rdf_rep; [exact H1|exact PD1|exact Hlb|]. intros od2 _ _ _ Hlast. rewrite Hlast, KD1, last_app_one.
  rewrite connectNamed_loop_S. rewrite (rep_not_Inv _ _ _ _ _ H1 PS1).
  apply wp_bind. eapply wp_objectAt_rep; [exact H1|exact PS1|discriminate|].
  apply wp_bind. eapply wp_rdf_rep; [exact H1|exact PS1|discriminate|]. intros os _ Hidxs _ _. rewrite Hidxs.
  (* connectNamedObjArgs on its ScopeBlock *)
  apply wp_bind. rewrite connectNamedObjArgs_S.
  apply wp_bind. eapply wp_objectAt_rep; [exact H1|exact PS1|discriminate|].
  apply wp_bind. eapply wp_rdf_rep; [exact H1|exact PS1|discriminate|]. intros os2 _ _ _ Hlasts. rewrite Hlasts, KS1.
  change (map ridx (lay1 h tbl (b + 3 + N.of_nat nf) off1 body)) with ([] ++ map ridx (lay1 h tbl (b + 3 + N.of_nat nf) off1 body)).
  eapply (IHb sbi [] [] (b + 3 + N.of_nat nf) off1 (with_tree s t1) g1 pl1 _ (sb_pay h off1) (R + 2)%nat (dpre ++ enc_op (bk_op bk) ++ enc_pkglen k v ++ seg_bytes seg ++ enc_fx l) (enc_items rest ++ dpost));
    [exact H1|rewrite KS1, app_nil_r; reflexivity|exact HDbody1|exact PS1|discriminate|unfold sbi; lia|exact Hh|exact Htb| | |exact Hbody_ok|lia|pose proof (clen_le_cfuel rest); lia|].
  { rewrite Hdata, <- !app_assoc. reflexivity. }
  { rewrite Hoff1. rewrite !lenN_app, Hlk, Hoff. change (lenN (enc_op (bk_op bk))) with lo. change (lenN (seg_bytes seg)) with 4. lia. }
  intros t2 g2 pl2 H2 [U1 U2 U3 U4]. cbn [last app] in U1 |- *. rewrite app_nil_r in U1.
  assert (EF3 : exists f3, (S (S (S (nf + f'))) - clen body = S f3)%nat).
  { pose proof (clen_le_cfuel body). pose proof (clen_le_cfuel rest). exists (S (S (S (nf + f'))) - clen body - 1)%nat. lia. }
  destruct EF3 as (f3 & EF3). rewrite EF3. rewrite connectNamed_loop_S, N.eqb_refl. apply wp_ret.
  (* back in the loop of the block object, at the ScopeBlock *)
  change (negb (pres_eqb ROk ROk)) with false. cbv iota zeta.
  assert (Hin2 : forall y, b <= y < b + 2 + N.of_nat nf \/ y = x -> kids g2 y = kids g1 y /\ pget pl2 y = pget pl1 y).
  { intros y Hy. split; [apply U3; unfold sbi; lia|apply U4; lia]. }
  assert (PS2 : pget pl2 sbi = Some (sb_pay h off1)) by (rewrite U4 by (unfold sbi; lia); exact PS1).
  assert (PD2 : pget pl2 b = Some (blk_pay h bk off name_zero)) by (rewrite (proj2 (Hin2 b ltac:(lia))); exact PD1).
  assert (Px2 : pget pl2 x = Some ax) by (rewrite (proj2 (Hin2 x ltac:(lia))); exact Px1).
  assert (KD2 : kids g2 b = seqN (b + 1) (S nf) ++ [sbi]) by (rewrite (proj1 (Hin2 b ltac:(lia))); exact KD1).
  assert (Kx2 : kids g2 x = pre ++ b :: l2) by (rewrite (proj1 (Hin2 x ltac:(lia))); exact Hk1).
  assert (Hrow2 : forall i p, nth_error hdp i = Some p -> pget pl2 (b + 1 + N.of_nat i) = Some p /\ kids g2 (b + 1 + N.of_nat i) = []).
  { intros i p Hi. assert (Hilt : (i < S nf)%nat) by (rewrite <- Hlh; apply nth_error_Some; congruence).
    destruct (Hrow1 i p Hi) as (A & B0). destruct (Hin2 (b + 1 + N.of_nat i) ltac:(lia)) as (E1 & E2). rewrite E1, E2. auto. }
  assert (PP2 : pget pl2 (b + 1) = Some (pth_pay h tbl (off + lo + k)) /\ kids g2 (b + 1) = []).
  { rewrite <- (N.add_0_r (b + 1)). apply (Hrow2 0%nat). reflexivity. }
  destruct PP2 as (PP2 & KP2).
  apply wp_bind. eapply wp_rdo_rep; [exact H2|exact PS2|discriminate|]. intros aos Hpays _ _ _.
  rewrite (pay_info _ _ Hpays). apply wp_bind. eapply wp_info; [reflexivity|]. cbv beta iota.
  apply wp_bind, wp_get. rewrite (pay_op _ _ Hpays). cbn [sb_pay y_op].
  change (aml_pOpIntScopeBlock =? aml_pOpIntScopeBlock) with true. rewrite orb_true_r.
  apply wp_bind. eapply (wp_rdf_sib False b (seqN (b + 1) (S nf)) sbi []); [exact H2|exact KD2|]. intros o' _ _ Hprev _ _. rewrite Hprev.
  (* the name path and the fixed arguments are stepped over *)
  replace (S (S (S (S (nf + f'))))) with (length (seqN (b + 1) (S nf)) + S (S (S f')))%nat by (rewrite seqN_len; lia).
  eapply (conn_leaves (seqN (b + 1) (S nf)) _ b [sbi] _ g2 pl2); [exact H2|exact KD2| |].
  { intros d Hd. apply seqN_in in Hd.
    assert (Ei : exists i, d = b + 1 + N.of_nat i /\ (i < S nf)%nat) by (exists (N.to_nat (d - (b + 1))); lia).
    destruct Ei as (i & -> & Hi). destruct (nth_error hdp i) as [p|] eqn:Ep; [|apply nth_error_None in Ep; lia].
    destruct (Hrow2 i p Ep) as (A & B0). destruct (hd_rows bk off k fa p (nth_error_In _ _ Ep)) as (row & Hr & Hlp).
    split; [exact B0|]. exists p, row. auto. }
  (* back in the loop of the enclosing scope: the object gets its name *)
  change (negb (pres_eqb ROk ROk)) with false. cbv iota zeta.
  apply wp_bind. eapply wp_rdo_rep; [exact H2|exact PD2|exact Hlb|]. intros aod Hpayd _ Hfirst _.
  rewrite (pay_info _ _ Hpayd). cbn [blk_pay y_info]. apply wp_bind. eapply wp_info; [apply (bk_facts bk)|]. cbv beta iota.
  apply wp_bind, wp_get. rewrite (pay_th _ _ Hpayd), (pay_op _ _ Hpayd), Hfirst, KD2. cbn [seqN app List.hd blk_pay y_th y_op]. scbn. rewrite Hh, N.eqb_refl.
  rewrite (rep_not_Inv _ _ _ _ _ H2 PP2). rewrite Hnamed, Hnsb. cbn [negb orb].
  apply wp_bind. eapply wp_objectAt_rep; [exact H2|exact PP2|discriminate|].
  apply wp_bind. eapply wp_rdo_rep; [exact H2|exact PP2|discriminate|]. intros nop Hpayp _ _ _.
  unfold valueBytes. rewrite (pay_val _ _ Hpayp). cbn [pth_pay y_val s_len]. change (4 <? aml_amlNameLen) with false. cbv iota.
  assert (Hsl : slice_bytes (with_tree (with_tree s t1) t2) tbl (mkSlice (Some (off + lo + k)) 4) = Ok (seg_bytes seg)).
  { replace (off + lo + k) with (lenN (dpre ++ enc_op (bk_op bk) ++ enc_pkglen k v)).
    2:{ rewrite !lenN_app, Hlk, Hoff. change (lenN (enc_op (bk_op bk))) with lo. lia. }
    eapply (slice_at _ tbls tbl data _ (seg_bytes seg) (enc_fx l ++ enc_items body ++ enc_items rest ++ dpost)); [exact Htb|exact Hnth| |reflexivity].
    rewrite Hdata, <- !app_assoc. reflexivity. }
  apply wp_bind. eapply wp_bytesOf'; [exact Hsl|].
  apply wp_bind. unfold setNameFrom. rewrite seg_bytes_nm. cbn [rev app].
  eapply (wp_wrf_rep False _ _ (ys_name (seg_nm seg))); [exact H2|exact PD2|exact Hlb|apply st_name|].
  intros t3 H3. set (pl3 := pupd pl2 b (ys_name (seg_nm seg))) in *.
  assert (Hlive_b : live t3 b).
  { apply (R_live_glive _ _ (rep_R _ _ _ H3)). eapply rep_live; [exact H2|exact PD2|exact Hlb]. }
  apply wp_bind. eapply wp_tq; [apply (NumArgs_spec _ _ (rep_R _ _ _ H3) b Hlive_b)|].
  rewrite Htai, orb_true_r. cbv iota.
  apply wp_bind. eapply (wp_rdf_sib False x pre b l2); [exact H3|exact Kx2|]. intros o3 _ _ Hprev3 _ _. rewrite Hprev3.
  match goal with |- wp _ (connectNamed_loop ?F _ _) _ _ => replace F with (f - clen (IBlk bk k seg fa body :: rest))%nat by (cbn [length clen]; rewrite ?seqN_len; lia) end.
  apply (K t3 _ _ H3).
  (* the description of the result *)
  rewrite lay2_cons, lay2_blk, isz_blk, enc_blk. fold l nf v. rewrite Hm. fold hdp off1 sbi B' off'. constructor.
  - rewrite Kx2. rewrite map_app. cbn [map ridx]. unfold l2. rewrite <- !app_assoc. reflexivity.
  - apply Forall_app. split.
    + constructor; [|constructor]. constructor.
      * unfold pl3. rewrite pget_pupd, N.eqb_refl, PD2. reflexivity.
      * rewrite KD2, map_app, leaf_row_idx, Hlh. reflexivity.
      * apply Forall_app. split.
        -- apply leaf_row_desc. intros i p Hi. assert (Hilt : (i < S nf)%nat) by (rewrite <- Hlh; apply nth_error_Some; congruence).
           destruct (Hrow2 i p Hi) as (A & B0). split; [|exact B0]. unfold pl3. rewrite pget_pupd. destruct (N.eqb_spec (b + 1 + N.of_nat i) b); [lia|exact A].
        -- constructor; [|constructor]. constructor; [unfold pl3; rewrite pget_pupd; destruct (N.eqb_spec sbi b); [unfold sbi in *; lia|exact PS2]|exact U1|].
           apply (Desc_frame_l g2 pl2); [exact U2|]. intros y Hy. apply lay2_nodes in Hy. split; [reflexivity|].
           unfold pl3. rewrite pget_pupd. destruct (N.eqb_spec y b); [lia|reflexivity].
    + apply (Desc_frame_l g1 pl1); [exact Q2|]. intros y Hy. apply lay2_nodes in Hy. unfold B' in Hy.
      split; [apply U3; unfold sbi; lia|]. unfold pl3. rewrite pget_pupd. destruct (N.eqb_spec y b); [lia|]. apply U4. lia.
  - intros y Hy Hyx. rewrite iszs_cons, isz_blk in Hy. fold l nf in Hy. rewrite U3 by (unfold sbi; lia). apply Q3; [unfold B'; lia|exact Hyx].
  - intros y Hy. rewrite iszs_cons, isz_blk in Hy. fold l nf in Hy. unfold pl3. rewrite pget_pupd. destruct (N.eqb_spec y b); [lia|]. rewrite U4 by lia. apply Q4. unfold B'. lia.
Qed.

Lemma lk_conn lk : hasFlag 1 aml_pOpFlagNamed = true /\ (lk_op lk =? aml_pOpIntScopeBlock) = false /\
  ((1 + N.of_nat (length (lk_ws lk)) =? argCount (lk_af lk)) || (argCount (lk_af lk) <=? termArgIndex (lk_af lk))) = Nat.eqb (lk_nt lk) 0 /\
  (lk_nt lk <> O -> w8 (argCount (lk_af lk) + 0x100 - termArgIndex (lk_af lk)) = N.of_nat (lk_nt lk)).
Proof. destruct lk; repeat split; intros Hn; try reflexivity; exfalso; apply Hn; reflexivity. Qed.

Lemma lhd_rows (lk : lkind) off fa : forall p, In p (lhd_pays h tbl lk off fa) -> exists row, opInfo (y_info p) = Some row /\ y_op p <> opFreed.
Proof.
  unfold lhd_pays. intros p [<-|Hp]; [eexists; split; [reflexivity|discriminate]|].
  generalize dependent (off + llo lk + 4). generalize (lfx lk fa). induction f as [|[w v] r IH]; intros o Hp; [contradiction|].
  cbn [fx_pays In] in Hp. destruct Hp as [<-|Hp]; [destruct w; (eexists; split; [reflexivity|discriminate])|]. apply (IH _ Hp).
Qed.

Lemma cst_rows : forall ta off, forallb targ_okb ta = true -> forall p, In p (cst_pays h tbl off ta) -> exists row, opInfo (y_info p) = Some row /\ y_op p <> opFreed.
Proof.
  induction ta as [|d r IH]; intros off Hok p Hp; [contradiction|]. cbn [forallb] in Hok. apply andb_prop in Hok. destruct Hok as [Hd Hok].
  cbn [cst_pays In] in Hp. destruct Hp as [<-|Hp]; [|apply (IH _ Hok _ Hp)].
  destruct d as [d|b]; cbn [targ_okb targ_pay] in *.
  - unfold cst_okb in Hd. apply andb_prop in Hd. destruct Hd as [Hc _]. apply const_row'; exact Hc.
  - eexists. split; [reflexivity|discriminate].
Qed.

Lemma seqN_app b m n : seqN b (m + n) = seqN b m ++ seqN (b + N.of_nat m) n.
Proof.
  revert b. induction m as [|m IH]; intros b; [cbn [Nat.add seqN app]; rewrite N.add_0_r; reflexivity|].
  cbn [Nat.add seqN app]. rewrite IH. f_equal. f_equal. f_equal. lia.
Qed.

(** a leaf named object: its children are stepped over, it gets its name, and the constants that follow it become
    its arguments *)
Lemma CNloop_lobj lk F x b pre cs l2 ps p off seg ax s g pl (Q : pres -> pstate -> Prop) :
  Rep (p_tree s) g pl -> kids g x = pre ++ b :: cs ++ l2 -> kids g b = p :: ps ->
  (forall d, In d (p :: ps) -> kids g d = [] /\ exists a row, pget pl d = Some a /\ y_op a <> opFreed /\ opInfo (y_info a) = Some row) ->
  (forall c, In c cs -> ~ desc g c b /\ exists ac, pget pl c = Some ac /\ y_op ac <> opFreed) ->
  pget pl x = Some ax -> y_op ax <> opFreed -> x <> b -> ~ In b cs ->
  pget pl b = Some (lf_pay h lk off name_zero) -> pget pl p = Some (pth_pay h tbl (off + llo lk)) ->
  p_handle s = h -> slice_bytes s tbl (mkSlice (Some (off + llo lk)) 4) = Ok (seg_bytes seg) ->
  length ps = length (lk_ws lk) -> length cs = lk_nt lk ->
  (forall t' g', Rep t' g' (pupd pl b (ys_name (seg_nm seg))) ->
     (forall y, kids g' y = if y =? b then (p :: ps) ++ cs else if y =? x then pre ++ b :: l2 else kids g y) ->
     wp False (connectNamed_loop (S (S (S (S (S (S (length ps + (length cs + F)))))))) x (last pre InvalidIndex)) (with_tree s t') Q) ->
  wp False (connectNamed_loop (S (S (S (S (S (S (S (length ps + (length cs + F))))))))) x b) s Q.
Proof.
  intros H Hkx Hkb Hps Hcs Hx Hlx Hxb Hbcs Hb Hp Hh Hsl Hlps Hlcs K.
  destruct (lk_conn lk) as (Hnamed & Hnsb & Hbr & Hw8). destruct (lk_facts lk) as (_ & _ & Hnf & _ & _ & Hinfo).
  assert (Hlb : y_op (lf_pay h lk off name_zero) <> opFreed) by exact Hnf.
  remember (length ps + (length cs + F))%nat as X eqn:EX.
  rewrite connectNamed_loop_S. set (FC := S (S (S (S (S (S X)))))). rewrite (rep_not_Inv _ _ _ _ _ H Hb).
  apply wp_bind. eapply wp_objectAt_rep; [exact H|exact Hb|exact Hlb|].
  apply wp_bind. eapply wp_rdf_rep; [exact H|exact Hb|exact Hlb|]. intros od _ Hidx _ _. rewrite Hidx.
  apply wp_bind. change (connectNamedObjArgs FC b) with (connectNamedObjArgs (S (S (S (S (S (S X)))))) b). rewrite connectNamedObjArgs_S.
  apply wp_bind. eapply wp_objectAt_rep; [exact H|exact Hb|exact Hlb|].
  apply wp_bind. eapply wp_rdf_rep; [exact H|exact Hb|exact Hlb|]. intros od2 _ _ _ Hlast. rewrite Hlast, Hkb.
  replace (S (S (S (S (S X))))) with (length (p :: ps) + S (S (S (S (length cs + F)))))%nat by (cbn [length]; lia).
  eapply (conn_leaves (p :: ps) _ b [] _ g pl); [exact H|rewrite Hkb, app_nil_r; reflexivity|exact Hps|].
  change (negb (pres_eqb ROk ROk)) with false. cbv iota zeta.
  apply wp_bind. eapply wp_rdo_rep; [exact H|exact Hb|exact Hlb|]. intros aod Hpayd _ Hfirst _.
  rewrite (pay_info _ _ Hpayd). cbn [lf_pay y_info]. apply wp_bind. eapply wp_info; [exact Hinfo|]. cbv beta iota.
  apply wp_bind, wp_get. rewrite (pay_th _ _ Hpayd), (pay_op _ _ Hpayd), Hfirst, Hkb. cbn [List.hd lf_pay y_th y_op]. rewrite Hh, N.eqb_refl.
  rewrite (rep_not_Inv _ _ _ _ _ H Hp). rewrite Hnamed, Hnsb. cbn [negb orb].
  apply wp_bind. eapply wp_objectAt_rep; [exact H|exact Hp|discriminate|].
  apply wp_bind. eapply wp_rdo_rep; [exact H|exact Hp|discriminate|]. intros nop Hpayp _ _ _.
  unfold valueBytes. rewrite (pay_val _ _ Hpayp). cbn [pth_pay y_val s_len]. change (4 <? aml_amlNameLen) with false. cbv iota.
  apply wp_bind. eapply wp_bytesOf'; [exact Hsl|].
  apply wp_bind. unfold setNameFrom. rewrite seg_bytes_nm. cbn [rev app].
  eapply (wp_wrf_rep False _ _ (ys_name (seg_nm seg))); [exact H|exact Hb|exact Hlb|apply st_name|].
  intros t3 H3. set (pl3 := pupd pl b (ys_name (seg_nm seg))) in *.
  assert (Hp3 : forall y, y <> b -> pget pl3 y = pget pl y) by (intros y Hy; unfold pl3; rewrite pget_pupd; destruct (N.eqb_spec y b); [contradiction|reflexivity]).
  assert (PN3 : pget pl3 b = Some (lf_pay h lk off (seg_nm seg))) by (unfold pl3; rewrite pget_pupd, N.eqb_refl, Hb; reflexivity).
  assert (Px3 : pget pl3 x = Some ax) by (rewrite Hp3 by exact Hxb; exact Hx).
  assert (Hlive_b : live t3 b).
  { apply (R_live_glive _ _ (rep_R _ _ _ H3)). eapply rep_live; [exact H|exact Hb|exact Hlb]. }
  apply wp_bind. eapply wp_tq; [apply (NumArgs_spec _ _ (rep_R _ _ _ H3) b Hlive_b)|].
  rewrite Hkb. cbn [length]. replace (N.of_nat (S (length ps))) with (1 + N.of_nat (length (lk_ws lk))) by lia. rewrite Hbr.
  destruct (lk_nt lk) as [|ntm1] eqn:Ent; cbn [Nat.eqb]; cbv iota.
  - (* no further arguments *)
    assert (Hcs0 : cs = []) by (destruct cs; [reflexivity|discriminate]). subst cs. cbn [app] in Hkx.
    apply wp_bind. eapply (wp_rdf_sib False x pre b l2); [exact H3|exact Hkx|]. intros o3 _ _ Hprev3 _ _. rewrite Hprev3.
    unfold FC. apply (K t3 g H3). intros y. rewrite app_nil_r.
    destruct (N.eqb_spec y b) as [->|_]; [exact Hkb|]. destruct (N.eqb_spec y x) as [->|_]; [exact Hkx|reflexivity].
  - (* the constants become arguments *)
    rewrite Hw8 by discriminate. rewrite <- Hlcs.
    apply wp_bind. unfold attachSiblingsAsArgs.
    apply wp_bind. eapply (wp_rdf_sib False x pre b (cs ++ l2)); [exact H3|exact Hkx|]. intros o3 _ _ _ Hnext3 _. rewrite Hnext3.
    change (attachSiblings_go FC) with (attachSiblings_go (S (S (S (S (S (S X))))))).
    replace (S (S (S (S (S (S X)))))) with (length cs + S (S (S (S (S (S (length ps + F)))))))%nat by lia.
    eapply (attach_go cs _ x b pre l2 ax _ _ g pl3); [exact H3|exact Hkx| |exact Px3|exact Hlx|exact PN3|exact Hnf|].
    { intros c Hc. destruct (Hcs c Hc) as (A & a0 & Pa & La). split; [exact A|]. exists a0. split; [|exact La].
      rewrite Hp3; [exact Pa|]. intros E. apply Hbcs. rewrite <- E. exact Hc. }
    intros t4 g4 H4 _ Hk4. change (negb (pres_eqb ROk ROk)) with false. cbv iota.
    assert (Hk4x : kids g4 x = pre ++ b :: l2).
    { rewrite Hk4. apply N.eqb_neq in Hxb. rewrite Hxb, N.eqb_refl. reflexivity. }
    apply wp_bind. eapply (wp_rdf_sib False x pre b l2); [exact H4|exact Hk4x|]. intros o4 _ _ Hprev4 _ _. rewrite Hprev4.
    unfold FC. apply (K t4 g4 H4). intros y. rewrite Hk4, Hkb. reflexivity.
Qed.

(** the tree of a leaf named object after the pass *)
Lemma post2_leaf g pl g1 pl1 g' x b off lk seg fa ta rest pre post B' off' :
  let nf := length (lfx lk fa) in let nt := length ta in let ci := b + 2 + N.of_nat nf in
  B' = b + N.of_nat (2 + nf + nt) -> (x < b \/ B' + N.of_nat (iszs rest) <= x) ->
  Post2 g pl g1 pl1 x B' (iszs rest) (pre ++ b :: seqN ci nt) post (lay2 h tbl B' off' rest) ->
  pget pl1 b = Some (lf_pay h lk off name_zero) ->
  (forall i p, nth_error (lhd_pays h tbl lk off fa) i = Some p -> pget pl1 (b + 1 + N.of_nat i) = Some p /\ kids g1 (b + 1 + N.of_nat i) = []) ->
  (forall i p, nth_error (cst_pays h tbl (ta_off lk off fa) ta) i = Some p -> pget pl1 (ci + N.of_nat i) = Some p /\ kids g1 (ci + N.of_nat i) = []) ->
  (forall y, kids g' y = if y =? b then seqN (b + 1) (S nf) ++ seqN ci nt
                         else if y =? x then pre ++ b :: (map ridx (lay2 h tbl B' off' rest) ++ post) else kids g1 y) ->
  Post2 g pl g' (pupd pl1 b (ys_name (seg_nm seg))) x b (2 + nf + nt + iszs rest) pre post
        (lay2_item h tbl b off (ILeaf lk seg fa ta) ++ lay2 h tbl B' off' rest).
Proof.
  intros nf nt ci HB' Hrange [Q1 Q2 Q3 Q4] PN1 Hrow1 Hcrow1 Hk'.
  set (pl3 := pupd pl1 b (ys_name (seg_nm seg))).
  set (hdp := lhd_pays h tbl lk off fa) in *. set (cs := cst_pays h tbl (ta_off lk off fa) ta) in *.
  assert (Hlh : length hdp = S nf) by apply len_lhd_pays.
  assert (Hlc : length cs = nt) by apply len_cst_pays.
  assert (Hxb : x <> b) by lia.
  assert (Hp3 : forall y, y <> b -> pget pl3 y = pget pl1 y) by (intros y Hy; unfold pl3; rewrite pget_pupd; destruct (N.eqb_spec y b); [contradiction|reflexivity]).
  assert (PN3 : pget pl3 b = Some (lf_pay h lk off (seg_nm seg))) by (unfold pl3; rewrite pget_pupd, N.eqb_refl, PN1; reflexivity).
  assert (Hko : forall y, y <> b -> y <> x -> kids g' y = kids g1 y).
  { intros y Hyb Hyx. rewrite Hk'. apply N.eqb_neq in Hyb. apply N.eqb_neq in Hyx. rewrite Hyb, Hyx. reflexivity. }
  cbn [lay2_item]. fold hdp cs. constructor.
  - rewrite Hk'. apply N.eqb_neq in Hxb. rewrite Hxb, N.eqb_refl. cbn [app map ridx]. reflexivity.
  - apply Forall_app. split.
    + constructor; [|constructor]. constructor.
      * exact PN3.
      * rewrite Hk', N.eqb_refl, leaf_row_idx, app_length, Hlh, Hlc, seqN_app. f_equal. f_equal. unfold ci. lia.
      * apply leaf_row_desc. intros i p Hi.
        destruct (Nat.ltb_spec i (S nf)) as [Hlt|Hge].
        -- rewrite nth_error_app1 in Hi by (rewrite Hlh; exact Hlt). destruct (Hrow1 i p Hi) as (A & B0).
           split; [rewrite Hp3 by lia; exact A|rewrite Hko by lia; exact B0].
        -- rewrite nth_error_app2 in Hi by (rewrite Hlh; exact Hge). rewrite Hlh in Hi.
           assert (Hilt : (i - S nf < nt)%nat) by (rewrite <- Hlc; apply nth_error_Some; congruence).
           destruct (Hcrow1 _ p Hi) as (A & B0). replace (ci + N.of_nat (i - S nf)) with (b + 1 + N.of_nat i) in A, B0 by (unfold ci; lia).
           split; [rewrite Hp3 by lia; exact A|rewrite Hko by lia; exact B0].
    + apply (Desc_frame_l g1 pl1); [exact Q2|]. intros y Hy. apply lay2_nodes in Hy.
      split; [apply Hko; lia|apply Hp3; lia].
  - intros y Hy Hyx. rewrite Hko by lia. apply Q3; [lia|exact Hyx].
  - intros y Hy. fold pl3. rewrite Hp3 by lia. apply Q4. lia.
Qed.

Lemma cspec_leaf lk seg fa ta rest : CSpec rest -> CSpec (ILeaf lk seg fa ta :: rest).
Proof.
  intros IH x pre post b off s g pl f ax R dpre dpost Q H Hk HD Hx Hlx Hrange Hh Htb Hdata Hoff Hok HR Hf K.
  apply forallb_item_cons in Hok. destruct Hok as [Hd_ok Hok]. cbn [item_okb] in Hd_ok.
  apply andb_prop in Hd_ok. destruct Hd_ok as [Hx' Hta]. apply andb_prop in Hx'. destruct Hx' as [Hx' Hlta]. apply Nat.eqb_eq in Hlta.
  apply andb_prop in Hx'. destruct Hx' as [Hx' _]. apply andb_prop in Hx'. destruct Hx' as [_ Hlfa]. apply Nat.eqb_eq in Hlfa.
  rewrite lay1_cons in Hk, HD |- *. rewrite iszs_cons, isz_leaf in Hrange. rewrite cfuel_cons, cfuel_leaf in Hf.
  cbn [lay1_item] in Hk, HD |- *. rewrite isz_leaf, enc_leaf in Hk, HD |- *.
  set (l := lfx lk fa) in *. set (nf := length l) in *. set (lo := llo lk) in *. set (nt := length ta) in *.
  assert (Hm : nlf lk fa = N.of_nat nf) by reflexivity. rewrite Hm in *.
  assert (Hnfw : nf = length (lk_ws lk)) by (unfold nf, l, lfx; rewrite combine_length; lia).
  set (hdp := lhd_pays h tbl lk off fa) in *. set (cs := cst_pays h tbl (ta_off lk off fa) ta) in *.
  assert (Hlh : length hdp = S nf) by apply len_lhd_pays.
  assert (Hlc : length cs = nt) by apply len_cst_pays.
  set (ci := b + 2 + N.of_nat nf) in *.
  set (B' := b + N.of_nat (2 + nf + nt)) in *.
  set (off' := off + lenN (enc_op (lk_op lk) ++ seg_bytes seg ++ enc_fx l ++ enc_ta ta)) in *.
  cbn [app map ridx] in Hk |- *. rewrite map_app, leaf_row_idx, Hlc in Hk |- *.
  pose proof (Forall_inv HD) as DN. apply Forall_inv_tail in HD. apply Forall_app in HD. destruct HD as [HDcs HDrest].
  destruct (Desc_inv _ _ _ _ _ DN) as (PN & KN & HDhd). rewrite leaf_row_idx, Hlh in KN.
  pose proof (leaf_row_desc_inv _ _ _ _ HDhd) as Hrow. pose proof (leaf_row_desc_inv _ _ _ _ HDcs) as Hcrow.
  rewrite enc_items_cons, enc_leaf in Hdata. fold l in Hdata.
  replace (pre ++ b :: seqN ci nt ++ map ridx (lay1 h tbl B' off' rest)) with ((pre ++ b :: seqN ci nt) ++ map ridx (lay1 h tbl B' off' rest)) by (rewrite <- app_assoc; reflexivity).
  eapply (IH x (pre ++ b :: seqN ci nt) post B' off' s g pl f ax (R + 8 + nf + 2 * nt)%nat (dpre ++ enc_op (lk_op lk) ++ seg_bytes seg ++ enc_fx l ++ enc_ta ta) dpost Q);
    [exact H|rewrite Hk, <- !app_assoc; reflexivity|exact HDrest|exact Hx|exact Hlx|unfold B'; lia|exact Hh|exact Htb| | |exact Hok|lia|lia|].
  { rewrite Hdata, <- !app_assoc. reflexivity. }
  { unfold off'. rewrite Hoff. symmetry. apply lenN_app. }
  intros t1 g1 pl1 H1 P1. pose proof P1 as [Q1 Q2 Q3 Q4].
  assert (Hout1 : forall y, b <= y < b + N.of_nat (2 + nf + nt) -> (y < B' \/ B' + N.of_nat (iszs rest) <= y) /\ y <> x) by (intros y Hy; unfold B'; lia).
  assert (KN1 : kids g1 b = seqN (b + 1) (S nf)) by (rewrite Q3 by (apply Hout1; lia); exact KN).
  assert (PN1 : pget pl1 b = Some (lf_pay h lk off name_zero)) by (rewrite Q4 by (apply Hout1; lia); exact PN).
  assert (Hrow1 : forall i p, nth_error hdp i = Some p -> pget pl1 (b + 1 + N.of_nat i) = Some p /\ kids g1 (b + 1 + N.of_nat i) = []).
  { intros i p Hi. assert (Hilt : (i < S nf)%nat) by (rewrite <- Hlh; apply nth_error_Some; congruence).
    destruct (Hrow i p Hi) as (A & B0). split; [rewrite Q4 by (apply Hout1; lia); exact A|rewrite Q3 by (apply Hout1; lia); exact B0]. }
  assert (Hcrow1 : forall i p, nth_error cs i = Some p -> pget pl1 (ci + N.of_nat i) = Some p /\ kids g1 (ci + N.of_nat i) = []).
  { intros i p Hi. assert (Hilt : (i < nt)%nat) by (rewrite <- Hlc; apply nth_error_Some; congruence).
    destruct (Hcrow i p Hi) as (A & B0). unfold ci in *. split; [rewrite Q4 by (apply Hout1; lia); exact A|rewrite Q3 by (apply Hout1; lia); exact B0]. }
  assert (Px1 : pget pl1 x = Some ax) by (rewrite Q4 by (unfold B'; lia); exact Hx).
  set (l2 := map ridx (lay2 h tbl B' off' rest) ++ post) in *.
  assert (Hk1 : kids g1 x = pre ++ b :: seqN ci nt ++ l2) by (rewrite Q1, <- !app_assoc; reflexivity).
  assert (Hcsleaf : forall d, In d (seqN ci nt) -> kids g1 d = [] /\ exists a row, pget pl1 d = Some a /\ y_op a <> opFreed /\ opInfo (y_info a) = Some row).
  { intros d Hd. apply seqN_in in Hd.
    assert (Ei : exists i, d = ci + N.of_nat i /\ (i < nt)%nat) by (exists (N.to_nat (d - ci)); lia).
    destruct Ei as (i & -> & Hi). destruct (nth_error cs i) as [p|] eqn:Ep; [|apply nth_error_None in Ep; lia].
    destruct (Hcrow1 i p Ep) as (A & B0). destruct (cst_rows ta _ Hta p (nth_error_In _ _ Ep)) as (row & Hr & Hlp).
    split; [exact B0|]. exists p, row. auto. }
  assert (Hhdleaf : forall d, In d (seqN (b + 1) (S nf)) -> kids g1 d = [] /\ exists a row, pget pl1 d = Some a /\ y_op a <> opFreed /\ opInfo (y_info a) = Some row).
  { intros d Hd. apply seqN_in in Hd.
    assert (Ei : exists i, d = b + 1 + N.of_nat i /\ (i < S nf)%nat) by (exists (N.to_nat (d - (b + 1))); lia).
    destruct Ei as (i & -> & Hi). destruct (nth_error hdp i) as [p|] eqn:Ep; [|apply nth_error_None in Ep; lia].
    destruct (Hrow1 i p Ep) as (A & B0). destruct (lhd_rows lk off fa p (nth_error_In _ _ Ep)) as (row & Hr & Hlp).
    split; [exact B0|]. exists p, row. auto. }
  assert (PP1 : pget pl1 (b + 1) = Some (pth_pay h tbl (off + lo))).
  { rewrite <- (N.add_0_r (b + 1)). apply (Hrow1 0%nat). reflexivity. }
  assert (Hsl : slice_bytes (with_tree s t1) tbl (mkSlice (Some (off + lo)) 4) = Ok (seg_bytes seg)).
  { replace (off + lo) with (lenN (dpre ++ enc_op (lk_op lk))) by (rewrite lenN_app, Hoff; reflexivity).
    eapply (slice_at _ tbls tbl data _ (seg_bytes seg) (enc_fx l ++ enc_ta ta ++ enc_items rest ++ dpost)); [exact Htb|exact Hnth| |reflexivity].
    rewrite Hdata, <- !app_assoc. reflexivity. }
  assert (EF : exists f', (f - clen rest = nt + S (S (S (S (S (S (S (nf + (nt + f')))))))))%nat).
  { pose proof (clen_le_cfuel rest). exists (f - clen rest - 7 - nf - 2 * nt)%nat. lia. }
  destruct EF as (f' & EF). rewrite EF.
  (* the constants *)
  replace (pre ++ b :: seqN ci nt) with ((pre ++ [b]) ++ seqN ci nt) by (rewrite <- app_assoc; reflexivity).
  replace nt with (length (seqN ci nt)) at 1 by apply seqN_len.
  eapply (conn_leaves_mid (seqN ci nt) _ x (pre ++ [b]) l2 _ g1 pl1); [exact H1|rewrite Hk1, <- !app_assoc; reflexivity|exact Hcsleaf|].
  rewrite last_app_one.
  (* the named object *)
  replace (S (S (S (S (S (S (S (nf + (nt + f')))))))))  with (S (S (S (S (S (S (S (length (seqN (b + 1 + 1) nf) + (length (seqN ci nt) + f'))))))))) by (rewrite !seqN_len; reflexivity).
  eapply (CNloop_lobj lk f' x b pre (seqN ci nt) l2 (seqN (b + 1 + 1) nf) (b + 1) off seg ax _ g1 pl1);
    [exact H1|exact Hk1|exact KN1|exact Hhdleaf| |exact Px1|exact Hlx|lia| |exact PN1|exact PP1|exact Hh|exact Hsl|rewrite seqN_len; exact Hnfw|rewrite seqN_len; exact Hlta|].
  { intros c Hc. destruct (Hcsleaf c Hc) as (A & a0 & row & Pa & La & _). split; [|exists a0; auto].
    intros Hd. apply desc_leaf in Hd; [|exact A]. apply seqN_in in Hc. unfold ci in Hc. lia. }
  { intros Hin. apply seqN_in in Hin. unfold ci in Hin. lia. }
  intros t3 g3 H3 Hk3. rewrite !seqN_len.
  replace (S (S (S (S (S (S (nf + (nt + f')))))))) with (f - clen (ILeaf lk seg fa ta :: rest))%nat by (cbn [clen]; fold nt; lia).
  apply (K t3 g3 _ H3).
  rewrite lay2_cons, isz_leaf, enc_leaf, iszs_cons, isz_leaf. fold l nf nt B' off'.
  apply (post2_leaf g pl g1 pl1 g3 x b off lk seg fa ta rest pre post B' off'); [reflexivity|unfold B'; lia|exact P1|exact PN1|exact Hrow1|exact Hcrow1|].
  intros y. rewrite Hk3. reflexivity.
Qed.

(** ---- Name(SEG, Package(..){..}) ---- *)
Definition inert (r : rose) : Prop :=
  match r with RN i a ks => exists op flags af, opInfo (y_info a) = Some (op, flags, af) /\
                               (hasFlag flags aml_pOpFlagNamed = false \/ y_op a = aml_pOpIntScopeBlock) end.

Lemma pel_trees_inert : forall elems b off, forallb pel_okb elems = true -> Forall (rallr inert) (pel_trees h tbl b off elems).
Proof.
  induction elems as [|d r IH|k n es r IHe IH] using pels_ind; intros b off Hok; [constructor| |];
    cbn [forallb] in Hok; apply andb_prop in Hok; destruct Hok as [Hd Hok]; rewrite pel_trees_cons; (constructor; [|apply IH; exact Hok]).
  - cbn [pel_tree]. constructor; [|constructor]. cbn [pel_okb] in Hd.
    destruct d as [d|bs]; cbn [targ_okb targ_pay inert] in *.
    + unfold cst_okb in Hd. apply andb_prop in Hd. destruct Hd as [Hc _]. unfold cst_pay. cbn [y_info y_op].
      destruct (is_constb_cases _ Hc) as [E|[E|[E|[E|[E|[E|E]]]]]]; rewrite E; (do 3 eexists; split; [reflexivity|left; reflexivity]).
    + do 3 eexists. split; [reflexivity|left; reflexivity].
  - rewrite pel_okb_sub in Hd. apply andb_prop in Hd. destruct Hd as [_ Hes]. rewrite pel_tree_sub.
    constructor; [cbn [inert]; do 3 eexists; split; [reflexivity|left; reflexivity]|].
    constructor; [constructor; [cbn [inert]; do 3 eexists; split; [reflexivity|left; reflexivity]|constructor]|].
    constructor; [|constructor]. constructor; [cbn [inert]; do 3 eexists; split; [reflexivity|right; reflexivity]|]. apply IHe. exact Hes.
Qed.

Lemma pkg_tree_inert b off k n elems : forallb pel_okb elems = true -> rallr inert (pkg_tree h tbl b off k n elems).
Proof.
  intros Hok. unfold pkg_tree. rewrite pel_tree_sub. constructor; [cbn [inert]; do 3 eexists; split; [reflexivity|left; reflexivity]|].
  constructor; [constructor; [cbn [inert]; do 3 eexists; split; [reflexivity|left; reflexivity]|constructor]|].
  constructor; [|constructor]. constructor; [cbn [inert]; do 3 eexists; split; [reflexivity|right; reflexivity]|]. apply pel_trees_inert. exact Hok.
Qed.

Lemma inert_conn_ok g i a ks : inert (RN i a ks) -> conn_ok g h i a.
Proof.
  intros (op & flags & af & Hrow & Hc). exists op, flags, af. split; [exact Hrow|].
  destruct Hc as [Hc|Hc]; [rewrite Hc; reflexivity|rewrite Hc, N.eqb_refl; rewrite !orb_true_r; reflexivity].
Qed.

Lemma post2_pkg g pl g1 pl1 g' x b off seg k n elems rest pre post B' off' :
  let m := pels_sz elems in
  B' = b + N.of_nat (5 + m) -> (x < b \/ B' + N.of_nat (iszs rest) <= x) ->
  Post2 g pl g1 pl1 x B' (iszs rest) (pre ++ [b; b + 2]) post (lay2 h tbl B' off' rest) ->
  pget pl1 b = Some (nam_pay h off name_zero) -> pget pl1 (b + 1) = Some (pth_pay h tbl (off + 1)) -> kids g1 (b + 1) = [] ->
  Desc g1 pl1 (pkg_tree h tbl (b + 2) (off + 5) k n elems) ->
  (forall y, kids g' y = if y =? b then [b + 1; b + 2]
                         else if y =? x then pre ++ b :: (map ridx (lay2 h tbl B' off' rest) ++ post) else kids g1 y) ->
  Post2 g pl g' (pupd pl1 b (ys_name (seg_nm seg))) x b (5 + m + iszs rest) pre post
        (lay2_item h tbl b off (IPkg seg k n elems) ++ lay2 h tbl B' off' rest).
Proof.
  intros m HB' Hrange [Q1 Q2 Q3 Q4] PN1 PP1 KP1 DP Hk'.
  set (pl3 := pupd pl1 b (ys_name (seg_nm seg))).
  assert (Hxb : x <> b) by lia.
  assert (Hp3 : forall y, y <> b -> pget pl3 y = pget pl1 y) by (intros y Hy; unfold pl3; rewrite pget_pupd; destruct (N.eqb_spec y b); [contradiction|reflexivity]).
  assert (PN3 : pget pl3 b = Some (nam_pay h off (seg_nm seg))) by (unfold pl3; rewrite pget_pupd, N.eqb_refl, PN1; reflexivity).
  assert (Hko : forall y, y <> b -> y <> x -> kids g' y = kids g1 y).
  { intros y Hyb Hyx. rewrite Hk'. apply N.eqb_neq in Hyb. apply N.eqb_neq in Hyx. rewrite Hyb, Hyx. reflexivity. }
  cbn [lay2_item]. constructor.
  - rewrite Hk'. apply N.eqb_neq in Hxb. rewrite Hxb, N.eqb_refl. cbn [app map ridx]. reflexivity.
  - apply Forall_app. split.
    + constructor; [|constructor]. constructor.
      * exact PN3.
      * rewrite Hk', N.eqb_refl. reflexivity.
      * constructor; [|constructor; [|constructor]].
        -- constructor; [rewrite Hp3 by lia; exact PP1|rewrite Hko by lia; exact KP1|constructor].
        -- apply (Desc_frame g1 pl1); [exact DP|]. intros y Hy. apply pkg_tree_nodes in Hy. split; [apply Hko; lia|apply Hp3; lia].
    + apply (Desc_frame_l g1 pl1); [exact Q2|]. intros y Hy. apply lay2_nodes in Hy.
      split; [apply Hko; lia|apply Hp3; lia].
  - intros y Hy Hyx. rewrite Hko by lia. apply Q3; [lia|exact Hyx].
  - intros y Hy. fold pl3. rewrite Hp3 by lia. apply Q4. lia.
Qed.

Lemma cspec_pkg seg k n elems rest : CSpec rest -> CSpec (IPkg seg k n elems :: rest).
Proof.
  intros IH x pre post b off s g pl f ax R dpre dpost Q H Hk HD Hx Hlx Hrange Hh Htb Hdata Hoff Hok HR Hf K.
  apply forallb_item_cons in Hok. destruct Hok as [Hd_ok Hok]. cbn [item_okb] in Hd_ok.
  apply andb_prop in Hd_ok. destruct Hd_ok as [_ Hel_ok].
  rewrite lay1_cons in Hk, HD |- *. rewrite iszs_cons, isz_pkg in Hrange. rewrite cfuel_cons, cfuel_pkg in Hf.
  cbn [lay1_item] in Hk, HD |- *. rewrite isz_pkg, enc_pkg_item in Hk, HD |- *.
  set (m := pels_sz elems) in *.
  set (B' := b + N.of_nat (5 + m)) in *.
  set (off' := off + lenN (OP_NAME :: seg_bytes seg ++ [OP_PACKAGE] ++ enc_pkglen k (k + lenN ([n] ++ enc_pels elems)) ++ [n] ++ enc_pels elems)) in *.
  cbn [app map ridx] in Hk |- *. change (ridx (pkg_tree h tbl (b + 2) (off + 5) k n elems)) with (b + 2) in Hk |- *.
  pose proof (Forall_inv HD) as DN. pose proof (Forall_inv (Forall_inv_tail HD)) as DP. pose proof (Forall_inv_tail (Forall_inv_tail HD)) as HDrest. clear HD.
  destruct (Desc_inv _ _ _ _ _ DN) as (PN & KN & HDp). pose proof (Forall_inv HDp) as Dpth. clear HDp.
  destruct (Desc_inv _ _ _ _ _ Dpth) as (PP & KP & _). cbn [map ridx] in KN, KP.
  rewrite enc_items_cons, enc_pkg_item in Hdata.
  replace (pre ++ b :: b + 2 :: map ridx (lay1 h tbl B' off' rest)) with ((pre ++ [b; b + 2]) ++ map ridx (lay1 h tbl B' off' rest)) by (rewrite <- app_assoc; reflexivity).
  eapply (IH x (pre ++ [b; b + 2]) post B' off' s g pl f ax (R + 16 + 3 * m)%nat (dpre ++ OP_NAME :: seg_bytes seg ++ [OP_PACKAGE] ++ enc_pkglen k (k + lenN ([n] ++ enc_pels elems)) ++ [n] ++ enc_pels elems) dpost Q);
    [exact H|rewrite Hk, <- !app_assoc; reflexivity|exact HDrest|exact Hx|exact Hlx|unfold B'; lia|exact Hh|exact Htb| | |exact Hok|lia|lia|].
  { rewrite Hdata, <- !app_assoc. reflexivity. }
  { unfold off'. rewrite Hoff. symmetry. apply lenN_app. }
  intros t1 g1 pl1 H1 P1. pose proof P1 as [Q1 Q2 Q3 Q4].
  assert (Hout1 : forall y, b <= y < b + N.of_nat (5 + m) -> (y < B' \/ B' + N.of_nat (iszs rest) <= y) /\ y <> x) by (intros y Hy; unfold B'; lia).
  assert (KN1 : kids g1 b = [b + 1]) by (rewrite Q3 by (apply Hout1; lia); exact KN).
  assert (KP1 : kids g1 (b + 1) = []) by (rewrite Q3 by (apply Hout1; lia); exact KP).
  assert (PN1 : pget pl1 b = Some (nam_pay h off name_zero)) by (rewrite Q4 by (apply Hout1; lia); exact PN).
  assert (PP1 : pget pl1 (b + 1) = Some (pth_pay h tbl (off + 1))) by (rewrite Q4 by (apply Hout1; lia); exact PP).
  assert (Px1 : pget pl1 x = Some ax) by (rewrite Q4 by (unfold B'; lia); exact Hx).
  set (PT := pkg_tree h tbl (b + 2) (off + 5) k n elems) in *.
  assert (DP1 : Desc g1 pl1 PT).
  { apply (Desc_frame g pl); [exact DP|]. intros y Hy. apply pkg_tree_nodes in Hy. fold m in Hy. split; [apply Q3; apply Hout1; lia|apply Q4; apply Hout1; lia]. }
  set (l2 := map ridx (lay2 h tbl B' off' rest) ++ post) in *.
  assert (Hk1 : kids g1 x = pre ++ b :: [b + 2] ++ l2) by (rewrite Q1, <- !app_assoc; reflexivity).
  assert (EF : exists F, (f - clen rest = S (S (S (S (S (S (S (S (S (F))))))))))%nat /\ (3 * (3 + m) <= S (S (S (S (S (S (S (1 + F))))))))%nat).
  { pose proof (clen_le_cfuel rest). exists (f - clen rest - 9)%nat. lia. }
  destruct EF as (F & EF & HF3). rewrite EF.
  replace (pre ++ [b; b + 2]) with (pre ++ [b] ++ [b + 2]) by reflexivity. rewrite app_assoc, last_app_one.
  (* the Package and what is below it is left alone *)
  assert (HPall : forall y a, In y (rnodes PT) -> pget pl1 y = Some a -> y_op a <> opFreed -> conn_ok g1 h y a).
  { intros y a Hy Ha _. destruct (rallr_lookup g1 pl1 inert PT DP1 (pkg_tree_inert _ _ _ _ _ Hel_ok) y Hy) as (a' & ks & Dy & Oy).
    destruct (Desc_inv _ _ _ _ _ Dy) as (Py & _ & _). assert (a' = a) by congruence. subst a'. apply (inert_conn_ok g1 y a ks Oy). }
  assert (PPk : pget pl1 (b + 2) = Some (pkg_pay h (off + 5))) by (apply (Desc_inv _ _ _ _ _ DP1)).
  replace (pre ++ [b]) with (rev (rev (pre ++ [b]))) by apply rev_involutive.
  eapply (conn_step g1 pl1 h (fun y => In y (rnodes PT)) (fun y a Hy Ha Hl => HPall y a Hy Ha Hl) _ x (rev (pre ++ [b])) (b + 2) l2 (pkg_pay h (off + 5)) (with_tree s t1));
    [|exact H1|exact Hh|rewrite rev_involutive, Hk1, <- !app_assoc; reflexivity|unfold PT, pkg_tree; rewrite pel_tree_sub, rnodes_eq; left; reflexivity|exact PPk|discriminate| |].
  { refine (proj1 (connS_all g1 pl1 h (fun y => In y (rnodes PT)) _ (fun y a Hy Ha Hl => HPall y a Hy Ha Hl) _)).
    intros y c Hy Hc. apply (Desc_kids_in g1 pl1 PT DP1 y c Hy Hc). }
  { change (b + 2) with (ridx PT). apply (fwalkb_size g1 pl1 PT DP1). unfold PT. rewrite pkg_tree_rsize. fold m. exact HF3. }
  rewrite <- (last_rev_hd (rev (pre ++ [b])) InvalidIndex), rev_involutive, last_app_one.
  (* the Name object gets its name and the Package *)
  assert (Hsl : slice_bytes (with_tree s t1) tbl (mkSlice (Some (off + 1)) 4) = Ok (seg_bytes seg)).
  { replace (off + 1) with (lenN (dpre ++ [OP_NAME])) by (rewrite lenN_app, Hoff; reflexivity).
    eapply (slice_at _ tbls tbl data (dpre ++ [OP_NAME]) (seg_bytes seg) _); [exact Htb|exact Hnth| |reflexivity].
    rewrite Hdata. cbn [app]. rewrite <- !app_assoc. reflexivity. }
  change (S (S (S (S (S (S (S (1 + F)))))))) with (S (S (S (S (S (S (S (length (@nil N) + (length [b + 2] + F))))))))).
  eapply (CNloop_lobj LName F x b pre [b + 2] l2 [] (b + 1) off seg ax _ g1 pl1);
    [exact H1|exact Hk1|exact KN1| | |exact Px1|exact Hlx|lia| |exact PN1|exact PP1|exact Hh|exact Hsl|reflexivity|reflexivity|].
  { intros d [<-|[]]. split; [exact KP1|]. do 2 eexists. split; [exact PP1|split; [discriminate|reflexivity]]. }
  { intros c [<-|[]]. split; [|exists (pkg_pay h (off + 5)); split; [exact PPk|discriminate]].
    intros Hd. apply (desc_in_tree g1 pl1 PT DP1) in Hd. unfold PT in Hd. apply pkg_tree_nodes in Hd. lia. }
  { intros [E|[]]. lia. }
  intros t3 g3 H3 Hk3. cbn [length Nat.add].
  match goal with |- wp _ (connectNamed_loop ?F0 _ _) _ _ => replace F0 with (f - clen (IPkg seg k n elems :: rest))%nat by (cbn [clen]; lia) end.
  apply (K t3 g3 _ H3).
  rewrite lay2_cons, isz_pkg, enc_pkg_item, iszs_cons, isz_pkg. fold m B' off'.
  apply (post2_pkg g pl g1 pl1 g3 x b off seg k n elems rest pre post B' off'); [reflexivity|unfold B'; lia|exact P1|exact PN1|exact PP1|exact KP1|exact DP1|].
  intros y. rewrite Hk3. reflexivity.
Qed.

(** a statement and its operands: not named objects, the pass steps over them *)
Lemma cspec_stmt sk ta rest : CSpec rest -> CSpec (IStmt sk ta :: rest).
Proof.
  intros IH x pre post b off s g pl f ax R dpre dpost Q H Hk HD Hx Hlx Hrange Hh Htb Hdata Hoff Hok HR Hf K.
  apply forallb_item_cons in Hok. destruct Hok as [Hd_ok Hok]. cbn [item_okb] in Hd_ok.
  apply andb_prop in Hd_ok. destruct Hd_ok as [_ Hta].
  rewrite lay1_cons in Hk, HD |- *. rewrite iszs_cons, isz_stmt in Hrange. rewrite cfuel_cons in Hf. cbn [cfuel_item] in Hf.
  set (row := lay1_item h tbl b off (IStmt sk ta)) in *.
  set (nt := length ta) in *.
  rewrite map_app in Hk |- *.
  apply Forall_app in HD. destruct HD as [HDit HDrest].
  set (B' := b + N.of_nat (isz (IStmt sk ta))) in *.
  assert (HB' : B' = b + 1 + N.of_nat nt) by (unfold B'; rewrite isz_stmt; fold nt; lia).
  rewrite enc_items_cons in Hdata.
  rewrite app_assoc.
  eapply (IH x (pre ++ map ridx row) post B' (off + lenN (enc_item (IStmt sk ta))) s g pl f ax (R + 1 + nt)%nat (dpre ++ enc_item (IStmt sk ta)) dpost Q);
    [exact H|rewrite Hk, <- !app_assoc; reflexivity|exact HDrest|exact Hx|exact Hlx|lia|exact Hh|exact Htb| | |exact Hok|lia|lia|].
  { rewrite Hdata, <- !app_assoc. reflexivity. }
  { rewrite lenN_app, Hoff. reflexivity. }
  intros t1 g1 pl1 H1 [Q1 Q2 Q3 Q4].
  assert (Hrow_idx : map ridx row = seqN b (S nt)).
  { unfold row. cbn [lay1_item map ridx seqN]. rewrite leaf_row_idx, len_cst_pays. reflexivity. }
  assert (Hrow : forall d, In d (map ridx row) -> kids g1 d = [] /\ exists a rw, pget pl1 d = Some a /\ y_op a <> opFreed /\ opInfo (y_info a) = Some rw).
  { intros d Hd. rewrite Hrow_idx in Hd. apply seqN_in in Hd.
    assert (Hout : d < B' \/ B' + N.of_nat (iszs rest) <= d) by lia. assert (Hdx : d <> x) by lia.
    rewrite (Q3 d Hout Hdx), (Q4 d Hout).
    unfold row in HDit. cbn [lay1_item] in HDit.
    destruct (N.eq_dec d b) as [->|Hne].
    - destruct (Desc_inv _ _ _ _ _ (Forall_inv HDit)) as (Pb & Kb & _). split; [exact Kb|].
      destruct (sk_row sk) as (Hr & _). exists (st_pay h sk off). eexists. split; [exact Pb|]. split; [destruct sk; discriminate|exact Hr].
    - pose proof (Forall_inv_tail HDit) as HDl.
      assert (Ei : exists i, d = b + 1 + N.of_nat i /\ (i < nt)%nat) by (exists (N.to_nat (d - b - 1)); lia). destruct Ei as (i & -> & Hi).
      destruct (nth_error (cst_pays h tbl (off + slo sk) ta) i) as [p|] eqn:Ep.
      2:{ apply nth_error_None in Ep. rewrite len_cst_pays in Ep. fold nt in Ep. lia. }
      destruct (leaf_row_desc_inv _ _ _ _ HDl i p Ep) as (Pp & Kp). split; [exact Kp|].
      destruct (cst_rows ta (off + slo sk) Hta p (nth_error_In _ _ Ep)) as (rw & Hrw & Hlp). exists p, rw. auto. }
  assert (Hlr : length (map ridx row) = S nt) by (rewrite Hrow_idx, seqN_len; reflexivity).
  assert (EF : exists f1, (f - clen rest = length (map ridx row) + S (S f1))%nat).
  { pose proof (clen_le_cfuel rest). exists (f - clen rest - S nt - 2)%nat. rewrite Hlr. lia. }
  destruct EF as (f1 & EF). rewrite EF.
  eapply (conn_leaves_mid (map ridx row) f1 x pre (map ridx (lay2 h tbl B' (off + lenN (enc_item (IStmt sk ta))) rest) ++ post) (with_tree s t1) g1 pl1 Q);
    [exact H1|rewrite Q1, <- app_assoc; reflexivity|exact Hrow|].
  replace (S (S f1)) with (f - clen (IStmt sk ta :: rest))%nat by (cbn [clen]; fold nt; rewrite Hlr in EF; lia).
  apply (K t1 g1 pl1 H1).
  rewrite lay2_cons. change (lay2_item h tbl b off (IStmt sk ta)) with row. fold B'. constructor.
  - rewrite Q1, map_app, <- !app_assoc. reflexivity.
  - apply Forall_app. split; [|exact Q2]. apply (Desc_frame_l g pl); [exact HDit|].
    intros y Hy. assert (Hy' : In y (rnodesl (lay1 h tbl b off [IStmt sk ta]))) by (cbn [lay1]; rewrite app_nil_r; exact Hy).
    apply lay1_nodes in Hy'. cbn [iszs fold_right] in Hy'. rewrite isz_stmt in Hy'. fold nt in Hy'.
    split; [apply Q3; lia|apply Q4; lia].
  - intros y Hy Hyx. rewrite iszs_cons, isz_stmt in Hy. fold nt in Hy. apply Q3; [lia|exact Hyx].
  - intros y Hy. rewrite iszs_cons, isz_stmt in Hy. fold nt in Hy. apply Q4. lia.
Qed.

Theorem cspec_all : forall its, CSpec its.
Proof.
  induction its as [|d rest IH|bk k seg fa body rest IHb IH|lk seg fa ta rest IH|seg k n elems rest IH|sk ta rest IH] using items_ind.
  - apply cspec_nil.
  - apply cspec_name. exact IH.
  - apply cspec_blk; assumption.
  - apply cspec_leaf; assumption.
  - apply cspec_pkg; assumption.
  - apply cspec_stmt; assumption.
Qed.
End ConnSpec.
