(** C12 (stretch): mergeScopeDirectives - preliminaries.  A name lookup that starts outside the subtree of an object
    whose own name cannot be looked up (it does not start with a name character) ends outside that subtree. *)
From Coq Require Import NArith Arith List Bool Lia.
From Coq Require Import ZifyBool ZifyN ZifyNat.
From FF Require Import Lib.Word Gen.Consts_device_acpi_aml Gen.Consts_aml_tree Aml.Stream Aml.Lex Aml.LexProofs
  Aml.Tree Aml.Parser Aml.ParserProofs Aml.TreeSpec Aml.TreeProofs Aml.TreeProofsOps Aml.TreeProofsFind Aml.TreeProofsAnc
  Aml.ParserTotalTree Aml.ParserTotalTree2 Aml.ParserTotalLex Aml.ParserTotalTable Aml.ParserTotalBase Aml.ParserTotalLeaf
  Aml.ParserTotalConn Aml.ParserTotalNonNamed Aml.ParserTotalCalls Aml.ParserTotalReloc.
Import ListNotations.
Local Open Scope N_scope.

Definition name_lead (n : Name) : bool := let '(a, _, _, _) := n in is_lead a.

Lemma name_eqb_lead a b : name_eqb a b = true -> name_lead a = name_lead b.
Proof.
  destruct a as [[[a0 a1] a2] a3], b as [[[b0 b1] b2] b3]. cbn [name_eqb name_lead]. intros H.
  apply andb_prop in H. destruct H as (H & _). apply andb_prop in H. destruct H as (H & _). apply andb_prop in H. destruct H as (H & _).
  apply N.eqb_eq in H. subst. reflexivity.
Qed.

Section Outside.
Context (t : T) (g : ghost) (HR : R t g) (obj : N).
Let nm := name_at t.
Hypothesis Hnolead : name_lead (nm obj) = false.
Hypothesis Hroot0 : groot g 0.
Hypothesis Hobj0 : obj <> 0.

Definition outside (y : N) : Prop := ~ desc g obj y.

Lemma desc_inv a x : desc g a x -> x = a \/ exists p, desc g a p /\ In x (kids g p).
Proof. intros H. destruct H as [|p c Hd Hin]; [left; reflexivity|right; eauto]. Qed.

Lemma outside_0 : outside 0.
Proof. intros Hd. destruct (desc_inv _ _ Hd) as [E|(p & _ & Hin)]; [congruence|]. apply (Hroot0 p Hin). Qed.

Lemma lookup_outside scope seg c : name_lead seg = true -> outside scope -> lookup g nm scope seg = Some c -> outside c.
Proof.
  intros Hseg Hout Hl Hd. unfold lookup in Hl. apply find_some in Hl. destruct Hl as (Hin & Heq).
  destruct (desc_inv _ _ Hd) as [E|(p & Hdp & Hin')].
  - subst c. apply name_eqb_lead in Heq. congruence.
  - assert (p = scope) by (eapply (R_parent_unique _ _ HR); eauto). subst p. contradiction.
Qed.

Lemma walk_outside : forall names scope r, Forall (fun n => name_lead n = true) names -> outside scope ->
  walk g nm scope names = Some r -> outside r.
Proof.
  induction names as [|n names IH]; intros scope r Hall Hout H; cbn [walk] in H.
  - inversion H; subst. exact Hout.
  - inversion Hall; subst. destruct (lookup g nm scope n) as [c|] eqn:El; [|discriminate].
    apply (IH c r); auto. eapply lookup_outside; eauto.
Qed.

Lemma segments_lead : forall n e sk names, (length e <= n)%nat -> segments sk e = Some names -> Forall (fun x => name_lead x = true) names.
Proof.
  induction n as [|n IH]; intros e sk names Hlen H.
  - destruct e; [|cbn in Hlen; lia]. cbn [segments] in H. destruct sk; [discriminate|]. inversion H. constructor.
  - destruct e as [|b0 rest0]; cbn [segments] in H.
    + destruct sk; [discriminate|]. inversion H. constructor.
    + destruct (is_lead b0) eqn:El.
      * destruct rest0 as [|b1 [|b2 [|b3 rest]]]; try discriminate.
        destruct (segments false rest) as [ns|] eqn:Es; cbn [option_map] in H; [|discriminate]. inversion H; subst.
        constructor; [exact El|]. apply (IH rest false ns); auto. cbn [length] in Hlen. lia.
      * destruct (b0 =? 0x2f).
        -- destruct rest0 as [|b1 rest1]; [discriminate|]. apply (IH rest1 true names); auto. cbn [length] in Hlen. lia.
        -- apply (IH rest0 true names); auto. cbn [length] in Hlen. lia.
Qed.

Lemma resolve_rel_outside scope e r : outside scope -> resolve_rel g nm scope e = Some r -> outside r.
Proof.
  intros Hout H. unfold resolve_rel in H. destruct (segments false e) as [names|] eqn:Es; [|discriminate].
  apply (walk_outside names scope r); [apply (segments_lead (length e) e false names (le_n _) Es)|exact Hout|exact H].
Qed.

Lemma parent_of_In c p : parent_of g c = Some p -> In c (kids g p).
Proof.
  unfold parent_of. intros H. apply find_some in H. destruct H as (_ & H).
  apply existsb_exists in H. destruct H as (x & Hx & E). apply N.eqb_eq in E. subst. exact Hx.
Qed.

Lemma parent_outside scope p : outside scope -> parent_of g scope = Some p -> outside p.
Proof. intros Hout H Hd. apply Hout. eapply desc_step; [exact Hd|]. apply parent_of_In. exact H. Qed.

Lemma carets_outside : forall e scope r, outside scope -> carets g nm scope e = Some r -> outside r.
Proof.
  induction e as [|b rest IH]; intros scope r Hout H; cbn [carets] in H.
  - inversion H; subst. exact Hout.
  - destruct (b =? 0x5e).
    + destruct (parent_of g scope) as [p|] eqn:Ep; [|discriminate]. apply (IH p r); auto. eapply parent_outside; eauto.
    + eapply resolve_rel_outside; eauto.
Qed.

Lemma search_up_outside seg : name_lead seg = true -> forall fuel scope r, outside scope ->
  search_up g nm fuel scope seg = Some r -> outside r.
Proof.
  intros Hseg. induction fuel as [|fuel IH]; intros scope r Hout H; cbn [search_up] in H; [discriminate|].
  destruct (lookup g nm scope seg) as [c|] eqn:El.
  - inversion H; subst. eapply lookup_outside; eauto.
  - destruct (parent_of g scope) as [p|] eqn:Ep; [|discriminate]. apply (IH p r); auto. eapply parent_outside; eauto.
Qed.

(** paths of exactly four bytes are looked up as one segment whatever their first byte is *)
Definition good_path (e : list N) : Prop :=
  match e with [b0; _; _; _] => is_lead b0 = true \/ b0 = 0x5c \/ b0 = 0x5e | _ => True end.

Lemma resolve_outside scope e r : good_path e -> outside scope -> resolve g nm scope e = Some r -> outside r.
Proof.
  intros Hgood Hout H. unfold resolve in H. destruct e as [|b rest]; [discriminate|].
  destruct (b =? 0x5c) eqn:E1.
  { eapply resolve_rel_outside; [apply outside_0|exact H]. }
  destruct (b =? 0x5e) eqn:E2.
  { eapply carets_outside; eauto. }
  destruct rest as [|b1 [|b2 [|b3 [|b4 rest']]]].
  - destruct (4 <? N.of_nat (length [b])); [eapply resolve_rel_outside; eauto|discriminate].
  - destruct (4 <? N.of_nat (length [b; b1])); [eapply resolve_rel_outside; eauto|discriminate].
  - destruct (4 <? N.of_nat (length [b; b1; b2])); [eapply resolve_rel_outside; eauto|discriminate].
  - cbn [good_path] in Hgood. apply N.eqb_neq in E1. apply N.eqb_neq in E2.
    destruct Hgood as [Hg|[Hg|Hg]]; try contradiction.
    eapply (search_up_outside (b, b1, b2, b3)); eauto.
  - destruct (4 <? N.of_nat (length (b :: b1 :: b2 :: b3 :: b4 :: rest'))); [eapply resolve_rel_outside; eauto|discriminate].
Qed.
End Outside.


(** ---- free ---- *)
Definition fframe (x : N) (t t' : T) : Prop :=
  length (t_pool t') = length (t_pool t) /\
  forall i o, tget t i = Some o -> exists o', tget t' i = Some o' /\ o_value o' = o_value o /\ (i <> x -> pay_eq o o').

Lemma fframe_of_pframe x (t t' : T) : pframe t t' -> fframe x t t'.
Proof.
  intros (L & H). split; auto. intros i o Hg. destruct (H _ _ Hg) as (o' & Hg' & E). exists o'. split; auto.
  split; [|intros _; exact E]. destruct E as (_ & _ & _ & _ & _ & _ & _ & E8). exact E8.
Qed.

Lemma fframe_trans x (t1 t2 t3 : T) : fframe x t1 t2 -> fframe x t2 t3 -> fframe x t1 t3.
Proof.
  intros (L1 & H1) (L2 & H2). split; [congruence|]. intros i o Hg.
  destruct (H1 _ _ Hg) as (o' & Hg' & V1 & P1). destruct (H2 _ _ Hg') as (o'' & Hg'' & V2 & P2).
  exists o''. split; auto. split; [congruence|]. intros Hne. specialize (P1 Hne). specialize (P2 Hne). unfold pay_eq in *. intuition congruence.
Qed.

Lemma fframe_tset x (t : T) f : (forall o, o_value (f o) = o_value o) -> fframe x t (tset t x f).
Proof.
  intros Hf. split; [apply tset_len|]. intros i o Hg. rewrite get_tset, Hg. cbn [option_map].
  destruct (N.eqb_spec i x) as [->|Hne].
  - exists (f o). split; auto. split; [apply Hf|intros E; contradiction].
  - exists o. split; auto. split; auto. intros _. apply pay_eq_refl.
Qed.

Lemma free_frame (t t' : T) x : free t x = Ok t' -> fframe x t t'.
Proof.
  unfold free. intros H.
  apply bind_ok in H. destruct H as (par & _ & H).
  apply bind_ok in H. destruct H as (t1 & Ht1 & H).
  assert (F1 : fframe x t t1).
  { destruct (negb (par =? InvalidIndex)).
    - apply bind_ok in Ht1. destruct Ht1 as (pp & _ & Hd). apply fframe_of_pframe. eapply detach_pframe; eauto.
    - inversion Ht1; subst. apply fframe_of_pframe. apply pframe_refl. }
  apply bind_ok in H. destruct H as (first & _ & H).
  apply bind_ok in H. destruct H as (lst & _ & H).
  destruct (negb (first =? InvalidIndex) || negb (lst =? InvalidIndex)); [discriminate|].
  apply bind_ok in H. destruct H as (t2 & Ht2 & H). destruct (wr_inv _ _ _ _ Ht2) as (-> & _).
  apply bind_ok in H. destruct H as (t3 & Ht3 & H). destruct (wr_inv _ _ _ _ Ht3) as (-> & _).
  apply bind_ok in H. destruct H as (oi & _ & H). inversion H; subst t'. clear H.
  eapply fframe_trans; [exact F1|].
  eapply fframe_trans; [apply (fframe_tset x t1 (set_opcode opFreed)); reflexivity|].
  pose proof (fframe_tset x (tset t1 x (set_opcode opFreed)) (set_next (t_free (tset t1 x (set_opcode opFreed)))) (fun _ => eq_refl)) as F3.
  destruct F3 as (L3 & H3). split; [exact L3|]. intros i o Hg. apply (H3 i o Hg).
Qed.

Lemma remove1_id a l : ~ In a l -> remove1 a l = l.
Proof.
  induction l as [|x l IH]; intros H; cbn [remove1]; [reflexivity|].
  destruct (N.eqb_spec x a) as [E|E]; [exfalso; apply H; left; exact E|]. rewrite IH; auto. intros Hi. apply H. right. exact Hi.
Qed.

Lemma free_step P x s g (Q : unit -> pstate -> Prop) :
  TI s g -> glive g x -> kids g x = [] ->
  (forall t', let g' := astep g (OpFree x) in
     TI (with_tree s t') g' -> (forall p, kids g' p = remove1 x (kids g p)) ->
     (forall y, glive g' y <-> glive g y /\ y <> x) ->
     (forall S : N -> Prop, S x -> evolve S g g') -> fframe x (p_tree s) t' ->
     Q tt (with_tree s t')) ->
  wp P (freeM x) s Q.
Proof.
  intros H Hl Hk K. pose proof (ti_R _ _ H) as HR.
  destruct (free_R (p_tree s) g x HR (conj Hl Hk)) as (t' & E & HR').
  pose proof (free_frame _ _ _ E) as Hff.
  unfold freeM. apply wp_tu. exists t'. split; [exact E|].
  destruct (TI_live_get _ _ _ H Hl) as (xo & Hxo & Hlxo).
  assert (Hkids : forall p, kids (astep g (OpFree x)) p = remove1 x (kids g p)).
  { intros p. cbn [astep]. rewrite (parent_of_spec _ _ _ _ HR Hxo Hlxo).
    destruct (N.eqb_spec (o_parent xo) InvalidIndex) as [Ep|Ep].
    - change (kids g p = remove1 x (kids g p)). symmetry. apply remove1_id.
      apply (proj2 (R_groot _ _ HR x xo Hxo Hlxo) Ep).
    - destruct (R_parent_live _ _ HR x xo Hxo Hlxo Ep) as (Hin & _).
      assert (Hplt : o_parent xo < N.of_nat (length (g_kids g))) by (eapply In_kids_lt; eauto).
      change (kids (set_kids g (o_parent xo) (remove1 x (kids g (o_parent xo)))) p = remove1 x (kids g p)).
      rewrite kids_set_kids by exact Hplt. destruct (N.eqb_spec p (o_parent xo)) as [->|Hne]; [reflexivity|].
      symmetry. apply remove1_id. intros Hi. apply Hne. eapply (R_parent_unique _ _ HR); eauto. }
  assert (Hlen : length (g_kids (astep g (OpFree x))) = length (g_kids g)).
  { cbn [astep]. destruct (parent_of g x); cbn [g_kids]; [apply set_kids_len|reflexivity]. }
  assert (Hfree : g_free (astep g (OpFree x)) = x :: g_free g) by reflexivity.
  assert (Hlive : forall y, glive (astep g (OpFree x)) y <-> glive g y /\ y <> x).
  { intros y. unfold glive. rewrite Hlen, Hfree. cbn [In]. split.
    - intros (A & B). split; [split; [exact A|tauto]|]. intros E1. apply B. left. symmetry. exact E1.
    - intros ((A & B) & C). split; [exact A|]. intros [E1|E1]; [apply C; symmetry; exact E1|contradiction]. }
  destruct Hff as (Lff & Hff).
  apply K; auto.
  - constructor; pcbn; auto.
    + intros i o' Hg' Hl'. pose proof (get_lt _ _ _ Hg') as Hlt. rewrite Lff in Hlt.
      destruct (get_some _ _ Hlt) as (o & Ho). destruct (Hff i o Ho) as (o2 & Hg2 & V & Pq).
      assert (o2 = o') by congruence. subst o2.
      assert (Hix : i <> x).
      { intros ->. assert (Hl2 : glive (astep g (OpFree x)) x) by (apply (R_live_glive _ _ HR'); exists o'; auto).
        apply Hlive in Hl2. destruct Hl2 as (_ & C). apply C. reflexivity. }
      destruct (Pq Hix) as (E1 & E2 & _). rewrite E2. apply (ti_info _ _ H i o Ho). congruence.
    + pose proof (ti_pool _ _ H) as Hp. unfold pool_ok in *. rewrite Forall_forall in *. intros o' Hin.
      destruct (In_nth_error _ _ Hin) as (n & Hn).
      assert (Hg' : tget t' (N.of_nat n) = Some o') by (unfold TreeSpec.get; rewrite Nat2N.id; exact Hn).
      pose proof (get_lt _ _ _ Hg') as Hlt. rewrite Lff in Hlt. destruct (get_some _ _ Hlt) as (o & Ho).
      destruct (Hff _ o Ho) as (o2 & Hg2 & V & _). assert (o2 = o') by congruence. subst o2. rewrite V.
      apply Hp. eapply nth_error_In. exact Ho.
  - intros S HSx. constructor; auto.
    + intros y Hy. apply Hlive in Hy. tauto.
    + intros y Hy Hn. apply Hlive. split; auto. intros ->. contradiction.
    + intros p. exists (remove1 x (kids g p)), []. rewrite app_nil_r. split; [apply Hkids|]. split; [apply sublist_remove1|constructor].
  - split; auto.
Qed.

(** ---- strict descendants ---- *)
Definition sdesc (g : ghost) (x y : N) : Prop := exists c, In c (kids g x) /\ desc g c y.

Lemma desc_trans g a b c : desc g a b -> desc g b c -> desc g a c.
Proof. intros H1 H2. induction H2 as [|p c H2 IH Hin]; [exact H1|]. eapply desc_step; eauto. Qed.

Lemma sdesc_desc g x y : sdesc g x y -> desc g x y.
Proof. intros (c & Hin & Hd). eapply desc_trans; [|exact Hd]. eapply desc_step; [constructor|exact Hin]. Qed.

Lemma desc_sdesc g x y : desc g x y -> y = x \/ sdesc g x y.
Proof.
  intros H. induction H as [|p c H IH Hin]; [left; reflexivity|right].
  destruct IH as [->|(c0 & Hc0 & Hd)].
  - exists c. split; [exact Hin|constructor].
  - exists c0. split; [exact Hc0|]. eapply desc_step; eauto.
Qed.

Lemma sdesc_closed g x : closed g (sdesc g x).
Proof. intros y c (c0 & Hc0 & Hd) Hin. exists c0. split; [exact Hc0|]. eapply desc_step; eauto. Qed.

Section SDesc.
Context {V : Type} (t : ObjectTree V) (g : ghost) (HR : R t g).

Lemma sdesc_not_self x : ~ sdesc g x x.
Proof. intros (c & Hin & Hd). eapply (child_not_desc t g HR); eauto. Qed.

Lemma sdesc_suffixes x : suffixes (sdesc g x) g.
Proof.
  intros p l1 a l2 Ek (c0 & Hc0 & Hd). rewrite Forall_forall. intros z Hz.
  assert (Hza : In z (kids g p)) by (rewrite Ek; apply in_or_app; right; right; exact Hz).
  assert (Hap : In a (kids g p)) by (rewrite Ek; apply in_or_app; right; left; reflexivity).
  destruct Hd as [|p' c' Hd Hin].
  - assert (p = x) by (eapply (R_parent_unique t g HR); eauto). subst p. exists z. split; [exact Hza|constructor].
  - assert (p' = p) by (eapply (R_parent_unique t g HR); eauto). subst p'. exists c0. split; [exact Hc0|]. eapply desc_step; eauto.
Qed.

Lemma parent_not_desc p c : In c (kids g p) -> ~ desc g c p.
Proof. apply (child_not_desc t g HR). Qed.
End SDesc.

(** redirecting edges into [tg] creates no new path to [tg] *)
Lemma desc_redirect g g2 tg a : (forall v c, v <> tg -> In c (kids g2 v) -> In c (kids g v)) -> desc g2 a tg -> desc g a tg.
Proof.
  intros Hsub H.
  assert (G : forall z, desc g2 a z -> desc g a z \/ desc g a tg).
  { intros z Hz. induction Hz as [|p c Hz IH Hin]; [left; constructor|].
    destruct IH as [IH|IH]; [|right; exact IH].
    destruct (N.eq_dec p tg) as [->|Hne]; [right; exact IH|left]. eapply desc_step; [exact IH|]. apply Hsub; auto. }
  destruct (G tg H); auto.
Qed.

(** ---- the shape of the Scope directives of the table being loaded ---- *)
Definition sdir (tbls : list (list N)) (t : T) (g : ghost) (x : N) (xname : Name) (xinfo : N) : Prop :=
  name_lead xname = false /\
  (forall op fl af, opInfo xinfo = Some (op, fl, af) -> hasFlag fl aml_pOpFlagNamed = false) /\
  exists n c no co tbl sl,
    kids g x = [n; c] /\ kids g n = [] /\
    tget t n = Some no /\ o_opcode no <> aml_pOpIntScopeBlock /\ o_opcode no <> aml_pOpScope /\
    o_value no = Some (VBytes tbl sl) /\
    (forall s0 bytes, p_tables s0 = tbls -> slice_bytes s0 tbl sl = Ok bytes -> good_path bytes) /\
    tget t c = Some co /\ o_opcode co = aml_pOpIntScopeBlock.

Definition tyS (X : N -> Prop) (tbls : list (list N)) (h : N) (t : T) (g : ghost) : Prop :=
  forall x xo, tget t x = Some xo -> o_opcode xo = aml_pOpScope -> o_tableHandle xo = h -> ~ X x -> sdir tbls t g x (o_name xo) (o_infoIndex xo).

Lemma tyS_weaken (X X' : N -> Prop) tbls h t g : (forall y, X y -> X' y) -> tyS X tbls h t g -> tyS X' tbls h t g.
Proof. intros Hs H x xo Hg Ho Hh Hx. apply (H x xo); auto. Qed.

Lemma scope_ne_sb : aml_pOpScope <> aml_pOpIntScopeBlock.
Proof. discriminate. Qed.

Lemma tyS_move X tbls h (t t2 : T) g g2 par target m :
  tyS X tbls h t g -> pframe t t2 ->
  (forall q, kids g2 q = (if q =? par then remove1 m (kids g par) else kids g q) ++ (if q =? target then [m] else [])) ->
  (exists o, tget t par = Some o /\ o_opcode o = aml_pOpIntScopeBlock) ->
  (exists o, tget t target = Some o /\ o_opcode o = aml_pOpIntScopeBlock) ->
  tyS X tbls h t2 g2.
Proof.
  intros H Hpf Hk (po & Hpo & Epo) (to & Hto & Eto) x xo2 Hg2 Hop Hh HX.
  destruct (pframe_inv _ _ _ _ Hpf Hg2) as (xo & Hg & E).
  destruct E as (E1 & E2 & E3 & E4 & _).
  assert (Hsame : forall q qo, tget t q = Some qo -> o_opcode qo <> aml_pOpIntScopeBlock -> kids g2 q = kids g q).
  { intros q qo Hq Hne. rewrite Hk.
    destruct (N.eqb_spec q par) as [->|_]; [exfalso; apply Hne; congruence|].
    destruct (N.eqb_spec q target) as [->|_]; [exfalso; apply Hne; congruence|]. apply app_nil_r. }
  destruct (H x xo Hg) as (Hn & Hnn & n & c & no & co & tbl & sl & K1 & K2 & K3 & K4 & K5 & K6 & K7 & K8 & K9); try congruence.
  split; [congruence|]. split; [rewrite E2; exact Hnn|].
  destruct (proj2 Hpf _ _ K3) as (no2 & Hno2 & F1 & _ & _ & _ & _ & _ & _ & F8).
  destruct (proj2 Hpf _ _ K8) as (co2 & Hco2 & G1 & _).
  exists n, c, no2, co2, tbl, sl.
  split; [rewrite (Hsame x xo Hg); [exact K1|rewrite <- E1, Hop; apply scope_ne_sb]|].
  split; [rewrite (Hsame n no K3 K4); exact K2|].
  repeat (split; [congruence|]). split; [exact K7|]. split; congruence.
Qed.

Lemma fframe_inv x (t t' : T) i o' : fframe x t t' -> tget t' i = Some o' ->
  exists o, tget t i = Some o /\ o_value o' = o_value o /\ (i <> x -> pay_eq o o').
Proof.
  intros (L & H) Hg. pose proof (get_lt _ _ _ Hg) as Hlt. rewrite L in Hlt.
  destruct (get_some _ _ Hlt) as (o & Ho). destruct (H _ _ Ho) as (o2 & Hg2 & E).
  assert (o2 = o') by congruence. subst. eauto.
Qed.

Lemma tyS_free X tbls h (t t' : T) g g' y :
  tyS X tbls h t g -> fframe y t t' ->
  (forall p, kids g' p = remove1 y (kids g p)) ->
  (forall o', tget t' y = Some o' -> o_opcode o' = opFreed) ->
  (forall x xo, tget t x = Some xo -> o_opcode xo = aml_pOpScope -> o_tableHandle xo = h -> ~ X x -> x <> y -> ~ In y (kids g x)) ->
  tyS X tbls h t' g'.
Proof.
  intros H Hff Hk Hfr Hpar x xo' Hg' Hop Hh HX.
  assert (Hxy : x <> y).
  { intros ->. specialize (Hfr _ Hg'). rewrite Hop in Hfr. discriminate. }
  destruct (fframe_inv _ _ _ _ _ Hff Hg') as (xo & Hg & _ & E). specialize (E Hxy).
  destruct E as (E1 & E2 & E3 & E4 & _).
  assert (Hop0 : o_opcode xo = aml_pOpScope) by congruence.
  assert (Hh0 : o_tableHandle xo = h) by congruence.
  destruct (H x xo Hg Hop0 Hh0 HX) as (Hn & Hnn & n & c & no & co & tbl & sl & K1 & K2 & K3 & K4 & K5 & K6 & K7 & K8 & K9).
  split; [congruence|]. split; [rewrite E2; exact Hnn|].
  pose proof (Hpar x xo Hg Hop0 Hh0 HX Hxy) as Hnin. rewrite K1 in Hnin.
  assert (Hny : n <> y) by (intros ->; apply Hnin; left; reflexivity).
  assert (Hcy : c <> y) by (intros ->; apply Hnin; right; left; reflexivity).
  destruct (proj2 Hff _ _ K3) as (no2 & Hno2 & _ & F). destruct (F Hny) as (F1 & _ & _ & _ & _ & _ & _ & F8).
  destruct (proj2 Hff _ _ K8) as (co2 & Hco2 & _ & G). destruct (G Hcy) as (G1 & _).
  exists n, c, no2, co2, tbl, sl.
  split; [rewrite Hk, K1; apply remove1_id; exact Hnin|].
  split; [rewrite Hk, K2; reflexivity|].
  repeat (split; [congruence|]). split; [exact K7|]. split; congruence.
Qed.

(** the objects mergeScopeDirectives frees: a Scope directive or a child of one *)
Definition scoped (s : pstate) (g : ghost) (y : N) : Prop :=
  (exists yo, tget (p_tree s) y = Some yo /\ o_opcode yo = aml_pOpScope) \/
  (exists d dobj, In y (kids g d) /\ tget (p_tree s) d = Some dobj /\ o_opcode dobj = aml_pOpScope).

(** ---- the invariant of mergeScopeDirectives, with an abstract part [KI] that survives a move between two ScopeBlocks and
    the freeing of a childless scoped object ---- *)
Section MergeK.
Variable KI : pstate -> ghost -> Prop.
Hypothesis K_counters : forall s g a b c, KI s g -> KI (with_counters s a b c) g.
Hypothesis K_move : forall s g c m tg (t2 : T) g2, TI s g -> KI s g -> In m (kids g c) -> is_sb s c -> is_sb s tg ->
  pframe (p_tree s) t2 -> shape_eq g g2 ->
  (forall q, kids g2 q = (if q =? c then remove1 m (kids g c) else kids g q) ++ (if q =? tg then [m] else [])) ->
  KI (with_tree s t2) g2.
Hypothesis K_free : forall s g y (t' : T) g', TI s g -> KI s g -> glive g y -> kids g y = [] -> scoped s g y ->
  fframe y (p_tree s) t' -> (forall p, kids g' p = remove1 y (kids g p)) ->
  (forall z, glive g' z <-> glive g z /\ z <> y) -> (forall o', tget t' y = Some o' -> o_opcode o' = opFreed) ->
  KI (with_tree s t') g'.

Record MI (X : N -> Prop) (s : pstate) (g : ghost) : Prop := mkMI {
  mi_TI : TI s g;
  mi_live0 : glive g 0;
  mi_root0 : groot g 0;
  mi_sb0 : is_sb s 0;
  mi_ty : tyS X (p_tables s) (p_handle s) (p_tree s) g;
  mi_K : KI s g
}.

Lemma MI_counters X s g a b c : MI X s g -> MI X (with_counters s a b c) g.
Proof. intros [A B C D E F]. constructor; auto. apply TI_counters. exact A. Qed.

Lemma MI_weaken (X X' : N -> Prop) s g : (forall y, X y -> X' y) -> MI X s g -> MI X' s g.
Proof. intros Hs [A B C D E F]. constructor; auto. eapply tyS_weaken; eauto. Qed.

Lemma is_sb_pframe s (t' : T) y : is_sb s y -> pframe (p_tree s) t' -> is_sb (with_tree s t') y.
Proof. intros (o & Ho & E) Hpf. destruct (proj2 Hpf _ _ Ho) as (o' & Ho' & E1 & _). exists o'. split; [exact Ho'|congruence]. Qed.

Lemma is_sb_fframe s (t' : T) x y : is_sb s y -> fframe x (p_tree s) t' -> y <> x -> is_sb (with_tree s t') y.
Proof. intros (o & Ho & E) Hff Hne. destruct (proj2 Hff _ _ Ho) as (o' & Ho' & _ & F). destruct (F Hne) as (E1 & _). exists o'. split; [exact Ho'|congruence]. Qed.

(** ---- one move and one free under the invariant ---- *)
Lemma MI_move {RT} P X c m tg (k : M RT) s g (Q : RT -> pstate -> Prop) :
  MI X s g -> In m (kids g c) -> glive g tg -> ~ desc g m tg -> is_sb s c -> is_sb s tg ->
  (forall t2 g2, MI X (with_tree s t2) g2 -> shape_eq g g2 ->
     (forall S : N -> Prop, S m -> evolve S g g2) -> pframe (p_tree s) t2 ->
     (forall q, kids g2 q = (if q =? c then remove1 m (kids g c) else kids g q) ++ (if q =? tg then [m] else [])) ->
     wp P k (with_tree s t2) Q) ->
  wp P (detachM (Some c) (Some m) ;;; appendM (Some tg) m ;;; k) s Q.
Proof.
  intros [A B C D E F] Hin Hltg Hnd Hc Htg K0.
  eapply (move_gen P c m tg k s g); [exact A|exact Hin|exact Hltg|exact Hnd|].
  intros t2 g2 H2 S2 R2 _ Hev Hpf Hk. apply (K0 t2 g2); auto.
  constructor; auto.
  - apply (shape_eq_glive _ _ _ S2). exact B.
  - apply (R2 0 B). exact C.
  - apply is_sb_pframe; auto.
  - eapply tyS_move; eauto.
  - eapply (K_move s g c m tg t2 g2); eauto.
Qed.

Lemma MI_free P X y s g (Q : unit -> pstate -> Prop) :
  MI X s g -> glive g y -> kids g y = [] -> y <> 0 -> scoped s g y ->
  (forall x xo, tget (p_tree s) x = Some xo -> o_opcode xo = aml_pOpScope -> o_tableHandle xo = p_handle s -> ~ X x -> x <> y -> ~ In y (kids g x)) ->
  (forall t' g', MI X (with_tree s t') g' -> (forall p, kids g' p = remove1 y (kids g p)) ->
     (forall z, glive g' z <-> glive g z /\ z <> y) ->
     (forall S : N -> Prop, S y -> evolve S g g') -> fframe y (p_tree s) t' ->
     (forall o', tget t' y = Some o' -> o_opcode o' = opFreed) ->
     Q tt (with_tree s t')) ->
  wp P (freeM y) s Q.
Proof.
  intros [A B C D E FK] Hl Hk Hy0 Hsc Hpar K0.
  apply (free_step P y s g Q A Hl Hk). intros t' g' H' Hk' Hl' Hev Hff.
  assert (Hfr : forall o', tget t' y = Some o' -> o_opcode o' = opFreed).
  { intros o' Ho'. destruct (N.eq_dec (o_opcode o') opFreed) as [E0|E0]; [exact E0|exfalso].
    assert (Hly : glive g' y) by (apply (R_live_glive _ _ (ti_R _ _ H')); exists o'; auto).
    apply Hl' in Hly. destruct Hly as (_ & F). apply F. reflexivity. }
  apply (K0 t' g'); auto.
  constructor; auto.
  - apply Hl'. split; auto.
  - intros p Hin. rewrite Hk' in Hin. apply remove1_In in Hin. apply (C p Hin).
  - apply (is_sb_fframe s t' y 0); auto.
  - eapply tyS_free; eauto.
  - eapply (K_free s g y t' g'); eauto.
Qed.

(** ---- moveContents: all children of [c] go to the end of [tg] ---- *)
Lemma move_all P X c tg : forall ms fuel s g (Q : unit -> pstate -> Prop),
  (length ms < fuel)%nat -> MI X s g -> kids g c = ms -> glive g tg -> is_sb s c -> is_sb s tg -> c <> tg ->
  (forall m, In m ms -> ~ desc g m tg) ->
  (forall s2 g2, MI X s2 g2 -> kids g2 c = [] -> (forall q, q <> c -> q <> tg -> kids g2 q = kids g q) ->
     kids g2 tg = kids g tg ++ ms -> (forall S : N -> Prop, (forall m, In m ms -> S m) -> evolve S g g2) ->
     pframe (p_tree s) (p_tree s2) -> shape_eq g g2 -> Q tt s2) ->
  wp P (moveContents_go fuel c tg (hd InvalidIndex ms)) s Q.
Proof.
  induction ms as [|m rest IH]; intros fuel s g Q Hfuel H Hk Hltg Hc Htg Hne Hnd K.
  - destruct fuel as [|fuel]; [cbn [length] in Hfuel; lia|]. cbn [moveContents_go hd]. rewrite N.eqb_refl.
    apply wp_ret. apply (K s g); auto.
    + rewrite app_nil_r. reflexivity.
    + intros S _. apply evolve_refl.
    + apply pframe_refl.
    + apply shape_eq_refl.
  - destruct fuel as [|fuel]; [cbn [length] in Hfuel; lia|]. cbn [moveContents_go hd].
    pose proof (mi_TI _ _ _ H) as HT. pose proof (ti_R _ _ HT) as HR.
    assert (Hin : In m (kids g c)) by (rewrite Hk; left; reflexivity).
    destruct ((R_gwf _ _ HR) _ _ Hin) as (Hlc & Hlm).
    destruct (TI_live_get _ _ _ HT Hlm) as (mo0 & Hmo0 & _).
    assert (Em : (m =? InvalidIndex) = false) by (apply N.eqb_neq; eapply (R_pos_not_Inv _ _ HR); eauto).
    rewrite Em.
    apply wp_bind. apply wp_objectAt'; [apply (TI_ObjectAt _ _ _ HT Hlm)|].
    destruct (sibling_links _ _ HR c [] m rest Hlc Hk) as (mo & Hmo & _ & _ & _ & En & _).
    apply wp_bind. apply wp_rdf. exists mo. split; [exact Hmo|]. rewrite En.
    apply (MI_move P X c m tg _ s g Q H Hin Hltg (Hnd m (or_introl eq_refl)) Hc Htg).
    intros t2 g2 H2 S2 Hev2 Hpf2 Hk2.
    assert (Ect : (c =? tg) = false) by (apply N.eqb_neq; exact Hne).
    assert (Etc : (tg =? c) = false) by (apply N.eqb_neq; intros E; apply Hne; symmetry; exact E).
    assert (Hkc2 : kids g2 c = rest).
    { rewrite Hk2, N.eqb_refl, Ect, app_nil_r, Hk. cbn [remove1]. rewrite N.eqb_refl. reflexivity. }
    assert (Hktg2 : kids g2 tg = kids g tg ++ [m]) by (rewrite Hk2, Etc, N.eqb_refl; reflexivity).
    assert (Hko2 : forall q, q <> c -> q <> tg -> kids g2 q = kids g q).
    { intros q Hq1 Hq2. rewrite Hk2. apply N.eqb_neq in Hq1. apply N.eqb_neq in Hq2. rewrite Hq1, Hq2. apply app_nil_r. }
    apply (IH fuel (with_tree s t2) g2 Q); auto.
    + cbn [length] in Hfuel. lia.
    + apply (shape_eq_glive _ _ _ S2). exact Hltg.
    + apply is_sb_pframe; auto.
    + apply is_sb_pframe; auto.
    + intros m' Hm' Hd. apply (Hnd m' (or_intror Hm')). eapply (desc_redirect g g2 tg); [|exact Hd].
      intros v c0 Hv Hc0. rewrite Hk2 in Hc0. apply N.eqb_neq in Hv. rewrite Hv, app_nil_r in Hc0.
      destruct (N.eqb_spec v c) as [->|_]; [eapply remove1_In; eauto|exact Hc0].
    + intros s3 g3 H3 Hkc3 Hko3 Hktg3 Hev3 Hpf3 S3. apply (K s3 g3); auto.
      * intros q Hq1 Hq2. rewrite Hko3, Hko2; auto.
      * rewrite Hktg3, Hktg2, <- app_assoc. reflexivity.
      * intros S HS. eapply evolve_trans; [apply Hev2; apply HS; left; reflexivity|apply Hev3; intros m' Hm'; apply HS; right; exact Hm'].
      * eapply pframe_trans; [exact Hpf2|exact Hpf3].
      * eapply shape_eq_trans; eauto.
Qed.

(** ---- the two mutually recursive functions ---- *)
Definition NoX : N -> Prop := fun _ => False.

Definition M_spec (fuel : nat) : Prop := forall x s g, MI NoX s g -> glive g x ->
  wp True (mergeScopeDirectives fuel x) s (fun r s' => exists g', MI NoX s' g' /\ evolve (desc g x) g g').

Definition ML_spec (fuel : nat) : Prop := forall (S : N -> Prop) sib res s g, MI NoX s g -> suffixes S g -> closed g S ->
  (sib = InvalidIndex \/ (glive g sib /\ S sib)) ->
  wp True (mergeScope_loop fuel sib res) s (fun r s' => exists g', MI NoX s' g' /\ evolve S g g').

Lemma step_ML fuel : M_spec fuel -> ML_spec fuel -> ML_spec (Datatypes.S fuel).
Proof.
  intros IHc IHl S sib res s g H Hsuf Hcl Hsib. cbn [mergeScope_loop].
  destruct (N.eqb_spec sib InvalidIndex) as [Ei|Ei].
  { apply wp_ret. exists g. split; auto. apply evolve_refl. }
  destruct Hsib as [?|(Hl & HS)]; [contradiction|].
  pose proof (mi_TI _ _ _ H) as HT. pose proof (ti_R _ _ HT) as HR.
  apply wp_bind. apply wp_objectAt'; [apply (TI_ObjectAt _ _ _ HT Hl)|].
  destruct (TI_live_get _ _ _ HT Hl) as (o & Ho & Hlo).
  apply wp_bind. apply wp_rdf. exists o. split; [exact Ho|].
  apply wp_bind. apply wp_rdf. exists o. split; [exact Ho|]. rewrite (R_index _ _ HR _ _ Ho).
  assert (Hnx : o_next o = InvalidIndex \/ (glive g (o_next o) /\ S (o_next o) /\ ~ desc g sib (o_next o))).
  { destruct (parent_link _ _ _ _ HT Ho Hlo) as [(_ & Hr)|(Ep & Hin & Hlp)].
    - destruct (root_links _ _ HR sib Hl Hr) as (o' & Ho' & _ & _ & En). assert (o' = o) by congruence. subst o'. left. exact En.
    - destruct (in_split _ _ Hin) as (l1 & l2 & Ek).
      destruct (sibling_links _ _ HR _ l1 sib l2 Hlp Ek) as (o' & Ho' & _ & _ & _ & En & _).
      assert (o' = o) by congruence. subst o'. rewrite En.
      destruct l2 as [|y l2']; [left; reflexivity|right]. cbn [hd].
      assert (Hy : In y (kids g (o_parent o))) by (rewrite Ek; apply in_or_app; right; right; left; reflexivity).
      split; [apply ((R_gwf _ _ HR) _ _ Hy)|]. split.
      + pose proof (Hsuf _ _ _ _ Ek HS) as F. inversion F; auto.
      + intros Hd. pose proof (sibling_not_desc _ _ HR _ _ _ Hin Hy Hd) as E. subst y.
        destruct (TI_live_get _ _ _ HT Hlp) as (po & Hpo & Hlpo).
        destruct (R_kids _ _ HR _ _ Hpo Hlpo) as (_ & _ & _ & Hnd).
        rewrite Ek in Hnd. apply NoDup_remove_2 in Hnd. apply Hnd. apply in_or_app. right. left. reflexivity. }
  apply wp_bind. eapply wp_weaken; [apply (IHc sib s g H Hl)|auto|].
  intros r s1 (g1 & H1 & Ev1).
  assert (Hsub : forall y, desc g sib y -> S y) by (intros y Hy; eapply desc_in_closed; eauto).
  assert (Ev1S : evolve S g g1) by (eapply evolve_weaken; eauto).
  assert (Hsuf1 : suffixes S g1) by (eapply evolve_suffixes; [|exact Ev1S|exact Hsuf]; auto).
  assert (Hcl1 : closed g1 S) by (eapply evolve_closed; [|exact Ev1S|exact Hcl]; auto).
  assert (Hnx1 : o_next o = InvalidIndex \/ (glive g1 (o_next o) /\ S (o_next o))).
  { destruct Hnx as [E|(A & B & C)]; [left; exact E|right]. split; [|exact B]. apply (ev_keep _ _ _ Ev1); auto. }
  assert (Hfin : forall res', wp True (mergeScope_loop fuel (o_next o) res') s1 (fun _ s' => exists g', MI NoX s' g' /\ evolve S g g')).
  { intros res'. eapply wp_weaken; [apply (IHl S (o_next o) res' s1 g1 H1 Hsuf1 Hcl1 Hnx1)|auto|].
    intros r' s' (g' & H' & Ev'). exists g'. split; auto. eapply evolve_trans; eauto. }
  destruct r; try apply Hfin.
  apply wp_ret. exists g1. split; auto.
Qed.

Lemma nodup_bound (l : list N) n : NoDup l -> (forall y, In y l -> y < N.of_nat n) -> (length l <= n)%nat.
Proof.
  intros Hnd Hb. rewrite <- (map_length N.to_nat l), <- (seq_length n 0). apply NoDup_incl_length.
  - apply FinFun.Injective_map_NoDup; [intros a b; apply N2Nat.inj|exact Hnd].
  - intros z Hz. apply in_map_iff in Hz. destruct Hz as (y & <- & Hy). apply in_seq. specialize (Hb y Hy). lia.
Qed.

Lemma MI_unX x s g : MI (fun y => y = x) s g -> (forall o, tget (p_tree s) x = Some o -> o_opcode o = opFreed) -> MI NoX s g.
Proof.
  intros [A B C D E F] Hfr. constructor; auto. intros x' xo Hg Hop Hh _. apply (E x' xo Hg Hop Hh).
  intros ->. specialize (Hfr _ Hg). rewrite Hop in Hfr. discriminate.
Qed.

Lemma step_M fuel : ML_spec fuel -> M_spec (S fuel).
Proof.
  intros IHl x s g H Hl. cbn [mergeScopeDirectives].
  pose proof (mi_TI _ _ _ H) as HT. pose proof (ti_R _ _ HT) as HR.
  apply wp_bind. apply wp_objectAt'; [apply (TI_ObjectAt _ _ _ HT Hl)|].
  destruct (TI_live_get _ _ _ HT Hl) as (xo & Hxo & Hlxo).
  apply wp_bind. apply wp_rdf. exists xo. split; [exact Hxo|].
  assert (Hcnt : forall (Q : unit -> pstate -> Prop),
     (forall s1, MI NoX s1 g -> p_tree s1 = p_tree s -> Q tt s1) ->
     wp True (if x =? 0 then fun s0 => Ok (tt, with_counters s0 (p_resolvePasses s0) 0 (p_relocatedObjects s0)) else ret tt) s Q).
  { intros Q K. destruct (x =? 0); [apply wp_counters|apply wp_ret]; apply K; auto. apply MI_counters. exact H. }
  apply wp_bind. apply Hcnt. intros s1 H1 Et1. clear Hcnt.
  assert (Hxo1 : tget (p_tree s1) x = Some xo) by (rewrite Et1; exact Hxo).
  pose proof (mi_TI _ _ _ H1) as HT1. pose proof (ti_R _ _ HT1) as HR1.
  apply wp_bind. apply wp_rdo. exists xo. split; [exact Hxo1|].
  pose proof (ti_info _ _ HT1 _ _ Hxo1 Hlxo) as Hinfo.
  destruct (opInfo (o_infoIndex xo)) as [[[op fl] af]|] eqn:Erow; [|contradiction].
  apply wp_bind. eapply wp_info; [exact Erow|]. cbv beta iota.
  set (Qf := fun (r : pres) s' => exists g', MI NoX s' g' /\ evolve (desc g x) g g').
  destruct (hasFlag fl aml_pOpFlagExecutable).
  { apply wp_ret. exists g. split; auto. apply evolve_refl. }
  apply wp_bind, wp_get.
  assert (Hloopx : forall s2 g2 (S : N -> Prop) first, MI NoX s2 g2 -> suffixes S g2 -> closed g2 S ->
     (first = InvalidIndex \/ (glive g2 first /\ S first)) -> evolve (desc g x) g g2 -> (forall y, S y -> desc g x y) ->
     wp True (mergeScope_loop fuel first ROk) s2 Qf).
  { intros s2 g2 S first H2 Hsuf Hcl Hfirst Ev2 Hsub.
    eapply wp_weaken; [apply (IHl S first ROk s2 g2 H2 Hsuf Hcl Hfirst)|auto|].
    intros r s' (g' & H' & Ev'). exists g'. split; auto. eapply evolve_trans; [exact Ev2|]. eapply evolve_weaken; eauto. }
  assert (Hfail : forall r : pres, wp True (ret (inl r : pres + N)) s1
     (fun r0 s' => wp True (match r0 with inl res => ret res | inr f => mergeScope_loop fuel f ROk end) s' Qf)).
  { intros r. apply wp_ret. apply wp_ret. exists g. split; auto. apply evolve_refl. }
  destruct (R_kids _ _ HR1 _ _ Hxo1 Hlxo) as (Hfirst & Hlast & _).
  apply wp_bind.
  destruct ((o_opcode xo =? aml_pOpScope) && (o_tableHandle xo =? p_handle s1)) eqn:Econd.
  2:{ apply wp_ret. rewrite Hfirst.
      apply (Hloopx s1 g (sdesc g x)); auto.
      - apply (sdesc_suffixes _ _ HR1).
      - apply sdesc_closed.
      - destruct (kids g x) as [|c0 l0] eqn:Ek; [left; reflexivity|right]. cbn [hd].
        assert (Hc0 : In c0 (kids g x)) by (rewrite Ek; left; reflexivity).
        split; [apply ((R_gwf _ _ HR1) _ _ Hc0)|]. exists c0. split; [exact Hc0|constructor].
      - apply evolve_refl.
      - apply sdesc_desc. }
  apply andb_prop in Econd. destruct Econd as (Eop & Eh). apply N.eqb_eq in Eop. apply N.eqb_eq in Eh.
  destruct (mi_ty _ _ _ H1 x xo Hxo1 Eop Eh (fun F => F)) as (Hnl & _ & n & c & no & co & tbl & sl & K1 & K2 & K3 & K4 & K5 & K6 & K7 & K8 & K9).
  rewrite K1 in Hfirst, Hlast. cbn [hd last] in Hfirst, Hlast.
  assert (Hin_n : In n (kids g x)) by (rewrite K1; left; reflexivity).
  assert (Hin_c : In c (kids g x)) by (rewrite K1; right; left; reflexivity).
  destruct ((R_gwf _ _ HR1) _ _ Hin_n) as (_ & Hln). destruct ((R_gwf _ _ HR1) _ _ Hin_c) as (_ & Hlc).
  assert (En : (o_first xo =? InvalidIndex) = false).
  { rewrite Hfirst. apply N.eqb_neq. eapply (R_pos_not_Inv _ _ HR1); eauto. }
  rewrite En, Hfirst.
  apply wp_bind. apply wp_objectAt'; [apply (TI_ObjectAt _ _ _ HT1 Hln)|].
  apply wp_bind. apply wp_rdo. exists no. split; [exact K3|]. rewrite K6.
  assert (Hsl : slice_ok (p_tables s1) tbl sl).
  { pose proof (pool_ok_get _ _ _ _ (ti_pool _ _ HT1) K3) as Hv. rewrite K6 in Hv. exact Hv. }
  destruct (slice_bytes_ok s1 tbl sl Hsl) as (bytes & Eb & _).
  apply wp_bind. eapply wp_bytesOf; [exact Eb|].
  pose proof (K7 s1 bytes eq_refl Eb) as Hgood.
  assert (Hlive_0 : live (p_tree s1) 0) by (apply (R_live_glive _ _ HR1); apply (mi_live0 _ _ _ H1)).
  assert (Hx0 : x <> 0).
  { intros ->. destruct (mi_sb0 _ _ _ H1) as (ro & Hro & Ero). assert (ro = xo) by congruence. subst ro.
    rewrite Eop in Ero. discriminate. }
  assert (Hfind : exists target, Find (p_tree s1) (o_parent xo) bytes = Ok target /\
                                 (target = InvalidIndex \/ (glive g target /\ ~ desc g x target))).
  { destruct (parent_link _ _ _ _ HT1 Hxo1 Hlxo) as [(Ep & _)|(Ep & Hinx & Hlp)].
    - rewrite Ep. exists InvalidIndex. split; [apply Find_invalid|left; reflexivity].
    - assert (Hlivep : live (p_tree s1) (o_parent xo)) by (apply (R_live_glive _ _ HR1); exact Hlp).
      pose proof (Find_spec _ _ HR1 (o_parent xo) bytes Hlivep Hlive_0) as Ef. eexists. split; [exact Ef|].
      destruct (resolve g (name_at (p_tree s1)) (o_parent xo) bytes) as [r|] eqn:Er; cbn [enc_result]; [|left; reflexivity].
      destruct (Find_result_live _ _ HR1 (o_parent xo) bytes _ Hlivep Hlive_0 Ef) as [E|E]; [left; exact E|right].
      cbn [enc_result] in E. split; [apply (R_live_glive _ _ HR1); exact E|].
      assert (Hnm : name_lead (name_at (p_tree s1) x) = false) by (unfold name_at; rewrite Hxo1; exact Hnl).
      apply (resolve_outside (p_tree s1) g HR1 x Hnm (mi_root0 _ _ _ H1) Hx0 (o_parent xo) bytes r Hgood); [|exact Er].
      apply (child_not_desc _ _ HR1). exact Hinx. }
  destruct Hfind as (target & Efind & Htarget).
  apply wp_bind. eapply wp_tq; [exact Efind|].
  destruct (N.eqb_spec target InvalidIndex) as [Et|Et].
  { apply wp_bind, wp_get. apply wp_bind, wp_get. destruct ((1 <? p_resolvePasses s1) && (p_relocatedObjects s1 =? 0)); apply Hfail. }
  destruct Htarget as [?|(Hlt & Hout)]; [contradiction|].
  apply wp_bind. eapply wp_weaken; [apply (scopeOf_spec2 target s1 g HT1 Hlt)|auto|].
  intros tgt s1' (-> & Htgt).
  destruct tgt as [tg|]; [|apply Hfail].
  destruct (Htgt tg eq_refl) as (Htg_where & Htg_sb). clear Htgt.
  assert (Hc_sb : is_sb s1 c) by (exists co; auto).
  assert (Hxc : desc g x c) by (eapply desc_step; [constructor|exact Hin_c]).
  assert (Houtg : ~ desc g x tg).
  { destruct Htg_where as [->|Hin]; [exact Hout|]. intros Hd. destruct Hd as [|p' c' Hd Hin'].
    - destruct Htg_sb as (o' & Ho' & Eo'). assert (o' = xo) by congruence. subst o'. rewrite Eop in Eo'. discriminate.
    - assert (p' = target) by (eapply (R_parent_unique _ _ HR1); eauto). subst p'. contradiction. }
  assert (Hltg : glive g tg).
  { destruct Htg_where as [->|Hin]; [exact Hlt|]. apply ((R_gwf _ _ HR1) _ _ Hin). }
  apply wp_bind. apply wp_rdf. exists xo. split; [exact Hxo1|]. rewrite Hlast.
  apply wp_bind. apply wp_objectAt'; [apply (TI_ObjectAt _ _ _ HT1 Hlc)|].
  assert (Hlco : o_opcode co <> opFreed) by (rewrite K9; discriminate).
  apply wp_bind. apply wp_rdf. exists co. split; [exact K8|].
  destruct (R_kids _ _ HR1 _ _ K8 Hlco) as (Hfc & _ & _ & Hndc). rewrite Hfc.
  apply wp_bind, wp_get.
  set (ms := kids g c) in *.
  assert (Hms_desc : forall m, In m ms -> desc g x m) by (intros m Hm; eapply desc_step; [exact Hxc|exact Hm]).
  assert (Hctg : c <> tg) by (intros ->; contradiction).
  assert (Hxtg : x <> tg) by (intros ->; apply Houtg; constructor).
  assert (Hxc_ne : x <> c) by (intros E; eapply (R_child_neq_parent _ _ HR1); [exact Hin_c|symmetry; exact E]).
  assert (Hnc_ne : n <> c).
  { intros ->. apply K4. rewrite K9 in *. assert (no = co) by congruence. subst. exact K9. }
  assert (Hntg : n <> tg).
  { intros ->. destruct Htg_sb as (o' & Ho' & Eo'). assert (o' = no) by congruence. subst. contradiction. }
  assert (Hxn_ne : x <> n) by (intros E; eapply (R_child_neq_parent _ _ HR1); [exact Hin_n|symmetry; exact E]).
  set (X := fun y : N => y = x).
  assert (H1X : MI X s1 g) by (eapply MI_weaken; [|exact H1]; intros y F; destruct F).
  apply wp_bind. eapply (move_all True X c tg ms _ s1 g); [| exact H1X | reflexivity | exact Hltg | exact Hc_sb | exact Htg_sb | exact Hctg | | ].
  { assert (length ms <= length (t_pool (p_tree s1)))%nat; [|lia].
    apply nodup_bound; [exact Hndc|]. intros y Hy. rewrite <- (R_len _ _ HR1). eapply glive_lt. apply ((R_gwf _ _ HR1) _ _ Hy). }
  { intros m Hm Hd. apply Houtg. eapply desc_trans; [apply Hms_desc; exact Hm|exact Hd]. }
  intros s2 g2 H2 Hkc2 Hko2 Hktg2 Hev2 Hpf2 S2.
  pose proof (mi_TI _ _ _ H2) as HT2. pose proof (ti_R _ _ HT2) as HR2.
  assert (Hkx2 : kids g2 x = [n; c]) by (rewrite Hko2; auto).
  assert (Hkn2 : kids g2 n = []) by (rewrite Hko2; auto).
  (* free the name *)
  destruct (proj2 Hpf2 _ _ Hxo1) as (xo2 & Hxo2 & Exo2 & _).
  apply wp_bind. apply (MI_free True X n s2 g2); [exact H2| | exact Hkn2 | | | |].
  { apply (shape_eq_glive _ _ _ S2). exact Hln. }
  { intros ->. apply (mi_root0 _ _ _ H1 x). exact Hin_n. }
  { right. exists x, xo2. split; [rewrite Hkx2; left; reflexivity|]. split; [exact Hxo2|congruence]. }
  { intros x' xo' _ _ _ HX' _ Hin'. apply HX'. eapply (R_parent_unique _ _ HR2); [exact Hin'|]. rewrite Hkx2. left. reflexivity. }
  intros t3 g3 H3 Hk3 Hl3 Hev3 Hff3 _.
  pose proof (mi_TI _ _ _ H3) as HT3. pose proof (ti_R _ _ HT3) as HR3.
  assert (Hkx3 : kids g3 x = [c]) by (rewrite Hk3, Hkx2; cbn [remove1]; rewrite N.eqb_refl; reflexivity).
  assert (Hkc3 : kids g3 c = []) by (rewrite Hk3, Hkc2; reflexivity).
  (* free the block *)
  destruct (proj2 Hff3 _ _ Hxo2) as (xo3 & Hxo3 & _ & Fxo3). destruct (Fxo3 Hxn_ne) as (Exo3 & _).
  apply wp_bind. apply (MI_free True X c (with_tree s2 t3) g3); [exact H3| | exact Hkc3 | | | |].
  { apply Hl3. split; [apply (shape_eq_glive _ _ _ S2); exact Hlc|]. intros E. apply Hnc_ne. symmetry. exact E. }
  { intros ->. apply (mi_root0 _ _ _ H1 x). exact Hin_c. }
  { right. exists x, xo3. split; [rewrite Hkx3; left; reflexivity|]. split; [exact Hxo3|congruence]. }
  { intros x' xo' _ _ _ HX' _ Hin'. apply HX'. eapply (R_parent_unique _ _ HR3); [exact Hin'|]. rewrite Hkx3. left. reflexivity. }
  intros t4 g4 H4 Hk4 Hl4 Hev4 Hff4 _.
  pose proof (mi_TI _ _ _ H4) as HT4. pose proof (ti_R _ _ HT4) as HR4.
  assert (Hkx4 : kids g4 x = []) by (rewrite Hk4, Hkx3; cbn [remove1]; rewrite N.eqb_refl; reflexivity).
  (* the directive itself still is a Scope object *)
  assert (Hxo4 : exists xo4, tget t4 x = Some xo4 /\ o_opcode xo4 = aml_pOpScope).
  { destruct (proj2 Hpf2 _ _ Hxo1) as (o2 & Ho2 & E2 & _).
    destruct (proj2 Hff3 _ _ Ho2) as (o3 & Ho3 & _ & F3). destruct (F3 Hxn_ne) as (E3 & _).
    destruct (proj2 Hff4 _ _ Ho3) as (o4 & Ho4 & _ & F4). destruct (F4 Hxc_ne) as (E4 & _).
    exists o4. split; [exact Ho4|congruence]. }
  destruct Hxo4 as (xo4 & Hxo4 & Eop4).
  assert (Hlx4 : glive g4 x).
  { apply Hl4. split; [|exact Hxc_ne]. apply Hl3. split; [|exact Hxn_ne]. apply (shape_eq_glive _ _ _ S2). exact Hl. }
  apply wp_bind. apply (MI_free True X x (with_tree (with_tree s2 t3) t4) g4); [exact H4| exact Hlx4 | exact Hkx4 | exact Hx0 | | |].
  { left. exists xo4. split; [exact Hxo4|exact Eop4]. }
  { intros x' xo' Hx' Hop' Hh' HX' _ Hin'.
    destruct (mi_ty _ _ _ H4 x' xo' Hx' Hop' Hh' HX') as (_ & _ & n' & c' & no' & co' & tbl' & sl' & J1 & _ & J3 & _ & J5 & _ & _ & J8 & J9).
    rewrite J1 in Hin'. cbn [In] in Hin'. destruct Hin' as [E|[E|[]]]; subst.
    - assert (no' = xo4) by (cbn [p_tree with_tree] in J3; congruence). subst. contradiction.
    - assert (co' = xo4) by (cbn [p_tree with_tree] in J8; congruence). subst. rewrite Eop4 in J9. discriminate. }
  intros t5 g5 H5 Hk5 Hl5 Hev5 Hff5 Hfr5.
  apply wp_bind. apply wp_counters.
  set (s5 := with_tree (with_tree (with_tree s2 t3) t4) t5) in *.
  assert (H5' : MI NoX s5 g5) by (apply (MI_unX x); [exact H5|exact Hfr5]).
  apply wp_ret.
  (* the loop over the moved objects *)
  assert (HkS : forall S : N -> Prop, (forall m, In m ms -> S m) -> kev S g g5).
  { intros S HS. eapply kev_trans; [apply (ev_kids _ _ _ (Hev2 S HS))|].
    eapply kev_trans; [apply (kev_remove1 S g2 g3 n Hk3)|]. eapply kev_trans; [apply (kev_remove1 S g3 g4 c Hk4)|apply (kev_remove1 S g4 g5 x Hk5)]. }
  assert (HmsS : forall m, In m ms -> sdesc g c m) by (intros m Hm; exists m; split; [exact Hm|constructor]).
  apply (Hloopx _ g5 (sdesc g c)).
  - apply MI_counters. exact H5'.
  - eapply kev_suffixes; [|apply (HkS _ HmsS)|apply (sdesc_suffixes _ _ HR1)]. auto.
  - eapply kev_closed; [|apply (HkS _ HmsS)|apply sdesc_closed]. auto.
  - destruct ms as [|m rest] eqn:Ems; [left; reflexivity|right]. cbn [hd].
    assert (Hm : In m (kids g c)) by (fold ms; rewrite Ems; left; reflexivity).
    split; [|apply HmsS; left; reflexivity].
    apply Hl5. split.
    + apply Hl4. split.
      * apply Hl3. split; [apply (shape_eq_glive _ _ _ S2); apply ((R_gwf _ _ HR1) _ _ Hm)|].
        intros E. subst m. apply Hxc_ne. apply (R_parent_unique _ _ HR1 x c n Hin_n Hm).
      * apply (R_child_neq_parent _ _ HR1 _ _ Hm).
    + intros ->. apply (child_not_desc _ _ HR1 _ _ Hin_c). eapply desc_step; [constructor|exact Hm].
  - eapply evolve_trans; [apply (Hev2 _ Hms_desc)|].
    eapply evolve_trans; [apply Hev3; eapply desc_step; [constructor|exact Hin_n]|].
    eapply evolve_trans; [apply Hev4; exact Hxc|apply Hev5; constructor].
  - intros y (c0 & Hc0 & Hd). eapply desc_trans; [|exact Hd]. eapply desc_step; [exact Hxc|exact Hc0].
Qed.

Lemma merge_all : forall fuel, M_spec fuel /\ ML_spec fuel.
Proof.
  induction fuel as [|fuel (IHc & IHl)].
  - split; intro; intros; cbn [mergeScopeDirectives mergeScope_loop]; apply wp_outOfFuel; exact I.
  - split; [apply step_M; exact IHl|apply step_ML; assumption].
Qed.
End MergeK.

(** mergeScopeDirectives from any live object: never panics, keeps the invariants *)
Theorem mergeScopeDirectives_never_panics : forall fuel x s g,
  R (p_tree s) g -> info_valid (p_tree s) -> pool_ok (p_tables s) (p_tree s) ->
  glive g 0 -> groot g 0 ->
  (exists o, tget (p_tree s) 0 = Some o /\ o_opcode o = aml_pOpIntScopeBlock) ->
  (forall d dobj, tget (p_tree s) d = Some dobj -> o_opcode dobj = aml_pOpScope -> o_tableHandle dobj = p_handle s ->
     name_lead (o_name dobj) = false /\
     (forall op fl af, opInfo (o_infoIndex dobj) = Some (op, fl, af) -> hasFlag fl aml_pOpFlagNamed = false) /\
     exists n c no co tbl sl,
       kids g d = [n; c] /\ kids g n = [] /\
       tget (p_tree s) n = Some no /\ o_opcode no <> aml_pOpIntScopeBlock /\ o_opcode no <> aml_pOpScope /\
       o_value no = Some (VBytes tbl sl) /\
       (forall s0 bytes, p_tables s0 = p_tables s -> slice_bytes s0 tbl sl = Ok bytes -> good_path bytes) /\
       tget (p_tree s) c = Some co /\ o_opcode co = aml_pOpIntScopeBlock) ->
  glive g x ->
  match mergeScopeDirectives fuel x s with
  | Ok (_, s') => exists g', R (p_tree s') g' /\ info_valid (p_tree s') /\ pool_ok (p_tables s') (p_tree s') /\
      glive g' 0 /\ groot g' 0 /\
      (exists o, tget (p_tree s') 0 = Some o /\ o_opcode o = aml_pOpIntScopeBlock) /\
      (forall d dobj, tget (p_tree s') d = Some dobj -> o_opcode dobj = aml_pOpScope -> o_tableHandle dobj = p_handle s' ->
         name_lead (o_name dobj) = false /\
         (forall op fl af, opInfo (o_infoIndex dobj) = Some (op, fl, af) -> hasFlag fl aml_pOpFlagNamed = false) /\
         exists n c no co tbl sl,
           kids g' d = [n; c] /\ kids g' n = [] /\
           tget (p_tree s') n = Some no /\ o_opcode no <> aml_pOpIntScopeBlock /\ o_opcode no <> aml_pOpScope /\
           o_value no = Some (VBytes tbl sl) /\
           (forall s0 bytes, p_tables s0 = p_tables s' -> slice_bytes s0 tbl sl = Ok bytes -> good_path bytes) /\
           tget (p_tree s') c = Some co /\ o_opcode co = aml_pOpIntScopeBlock) /\
      (forall y, glive g' y -> glive g y) /\ (forall y, glive g y -> ~ desc g x y -> glive g' y)
  | Panic => False
  | OutOfFuel => True
  end.
Proof.
  intros fuel x s g HR Hi Hp H0 Hr0 Hsb Hty Hl.
  set (K0 := fun (_ : pstate) (_ : ghost) => True).
  assert (HM : MI K0 NoX s g).
  { constructor; auto; [constructor; auto| |exact I]. intros d dobj Hd Hop Hh _. exact (Hty d dobj Hd Hop Hh). }
  pose proof (proj1 (merge_all K0 (fun _ _ _ _ _ _ => I) (fun _ _ _ _ _ _ _ _ _ _ _ _ _ _ _ => I)
                                  (fun _ _ _ _ _ _ _ _ _ _ _ _ _ _ => I) fuel) x s g HM Hl) as W. unfold wp in W.
  destruct (mergeScopeDirectives fuel x s) as [[r s']| |]; auto.
  destruct W as (g' & [[A B C] D E F G _] & Ev). exists g'.
  repeat (split; [assumption|]). split; [|split; [apply (ev_live _ _ _ Ev)|apply (ev_keep _ _ _ Ev)]].
  intros d dobj Hd Hop Hh. exact (G d dobj Hd Hop Hh (fun K => K)).
Qed.

(** ---- the hypotheses are satisfiable: the root, \_SB_, and a directive Scope(_SB_) { Zero } of table 1 ---- *)
Definition mex_ops : list op :=
  [ OpNewNamed opScopeBlock 0 (0x5c, 0, 0, 0);              (* 0: \ *)
    OpNewNamed opScopeBlock 0 (0x5f, 0x53, 0x42, 0x5f);     (* 1: _SB_ *)
    OpNew aml_pOpScope 1;                                    (* 2: the directive *)
    OpNew aml_pOpIntNamePath 1;                              (* 3: its target path *)
    OpNew opScopeBlock 1;                                    (* 4: its block *)
    OpNew aml_pOpZero 1;                                     (* 5: the contents *)
    OpAppend 0 1; OpAppend 2 3; OpAppend 2 4; OpAppend 4 5; OpAppend 0 2 ].

Definition mex_tree : T :=
  match run (@NewObjectTree value) mex_ops with
  | Ok t => tset t 3 (set_value (Some (VBytes 0 (mkSlice (Some 0) 4))))
  | _ => NewObjectTree
  end.
Definition mex_ghost : ghost := arun ghost0 mex_ops.
Definition mex_state : pstate := mkP (init_reader [] 0) mex_tree [] [] 0 0 0 0 false 1 [[0x5f; 0x53; 0x42; 0x5f]].

Lemma groot_chk g i : forallb (fun l => negb (existsb (N.eqb i) l)) (g_kids g) = true -> groot g i.
Proof.
  intros H p Hin. unfold kids in Hin.
  destruct (Nat.ltb_spec (N.to_nat p) (length (g_kids g))) as [Hlt|Hge].
  - rewrite forallb_forall in H. specialize (H _ (nth_In _ [] Hlt)).
    apply negb_true_iff in H. apply existsb_eqb_In in Hin. congruence.
  - rewrite nth_overflow in Hin by lia. contradiction.
Qed.

Lemma not_desc_chk g a x (S : list N) :
  existsb (N.eqb a) S = true ->
  forallb (fun p => forallb (fun c => existsb (N.eqb c) S) (kids g p)) S = true ->
  existsb (N.eqb x) S = false -> ~ desc g a x.
Proof.
  intros Ha Hc Hx Hd. assert (Hin : In x S).
  { clear Hx. induction Hd as [|p c Hd IH Hk]; [apply existsb_eqb_In; exact Ha|].
    rewrite forallb_forall in Hc. specialize (Hc _ IH). rewrite forallb_forall in Hc.
    apply existsb_eqb_In. apply Hc. exact Hk. }
  apply existsb_eqb_In in Hin. congruence.
Qed.

Lemma mex_legal : legal_seq ghost0 mex_ops.
Proof.
  unfold mex_ops. cbn [legal_seq].
  repeat match goal with |- _ /\ _ => split end; cbn [legal]; try exact I;
  try (split; [vm_compute; discriminate | split; [first [left; vm_compute; discriminate | right; vm_compute; reflexivity] | intros _; vm_compute; reflexivity]]).
  - split; [split; [vm_compute; reflexivity | vm_compute; intuition discriminate]|].
    split; [split; [vm_compute; reflexivity | vm_compute; intuition discriminate]|].
    split; [apply groot_chk; vm_compute; reflexivity|apply (not_desc_chk _ _ _ [1]); vm_compute; reflexivity].
  - split; [split; [vm_compute; reflexivity | vm_compute; intuition discriminate]|].
    split; [split; [vm_compute; reflexivity | vm_compute; intuition discriminate]|].
    split; [apply groot_chk; vm_compute; reflexivity|apply (not_desc_chk _ _ _ [3]); vm_compute; reflexivity].
  - split; [split; [vm_compute; reflexivity | vm_compute; intuition discriminate]|].
    split; [split; [vm_compute; reflexivity | vm_compute; intuition discriminate]|].
    split; [apply groot_chk; vm_compute; reflexivity|apply (not_desc_chk _ _ _ [4]); vm_compute; reflexivity].
  - split; [split; [vm_compute; reflexivity | vm_compute; intuition discriminate]|].
    split; [split; [vm_compute; reflexivity | vm_compute; intuition discriminate]|].
    split; [apply groot_chk; vm_compute; reflexivity|apply (not_desc_chk _ _ _ [5]); vm_compute; reflexivity].
  - split; [split; [vm_compute; reflexivity | vm_compute; intuition discriminate]|].
    split; [split; [vm_compute; reflexivity | vm_compute; intuition discriminate]|].
    split; [apply groot_chk; vm_compute; reflexivity|apply (not_desc_chk _ _ _ [2; 3; 4; 5]); vm_compute; reflexivity].
Qed.

Lemma mex_R : R mex_tree mex_ghost.
Proof.
  destruct (run_R mex_ops (@NewObjectTree value) ghost0 R_empty mex_legal) as (t' & Hrun & HR').
  unfold mex_tree, mex_ghost. rewrite Hrun. apply R_tset_lk; [exact HR'|].
  intros o _. unfold lk_eq, set_value. cbn. tauto.
Qed.

Lemma pool_cases (t : T) (P : N -> Object value -> Prop) :
  (forall n o, nth_error (t_pool t) n = Some o -> P (N.of_nat n) o) -> forall i o, tget t i = Some o -> P i o.
Proof. intros H i o Hg. unfold TreeSpec.get in Hg. specialize (H _ _ Hg). rewrite N2Nat.id in H. exact H. Qed.

Definition mex_dir_ok (d : N) (dobj : Object value) : Prop :=
  o_opcode dobj = aml_pOpScope -> o_tableHandle dobj = 1 ->
  name_lead (o_name dobj) = false /\
  (forall op fl af, opInfo (o_infoIndex dobj) = Some (op, fl, af) -> hasFlag fl aml_pOpFlagNamed = false) /\
  exists n c no co tbl sl,
    kids mex_ghost d = [n; c] /\ kids mex_ghost n = [] /\
    tget mex_tree n = Some no /\ o_opcode no <> aml_pOpIntScopeBlock /\ o_opcode no <> aml_pOpScope /\
    o_value no = Some (VBytes tbl sl) /\
    (forall s0 bytes, p_tables s0 = [[0x5f; 0x53; 0x42; 0x5f]] -> slice_bytes s0 tbl sl = Ok bytes -> good_path bytes) /\
    tget mex_tree c = Some co /\ o_opcode co = aml_pOpIntScopeBlock.

Lemma merge_hyps_example :
  exists (s : pstate) (g : ghost) (x : N),
    R (p_tree s) g /\ info_valid (p_tree s) /\ pool_ok (p_tables s) (p_tree s) /\
    glive g 0 /\ groot g 0 /\
    (exists o, tget (p_tree s) 0 = Some o /\ o_opcode o = aml_pOpIntScopeBlock) /\
    (forall d dobj, tget (p_tree s) d = Some dobj -> o_opcode dobj = aml_pOpScope -> o_tableHandle dobj = p_handle s ->
       name_lead (o_name dobj) = false /\
       (forall op fl af, opInfo (o_infoIndex dobj) = Some (op, fl, af) -> hasFlag fl aml_pOpFlagNamed = false) /\
       exists n c no co tbl sl,
         kids g d = [n; c] /\ kids g n = [] /\
         tget (p_tree s) n = Some no /\ o_opcode no <> aml_pOpIntScopeBlock /\ o_opcode no <> aml_pOpScope /\
         o_value no = Some (VBytes tbl sl) /\
         (forall s0 bytes, p_tables s0 = p_tables s -> slice_bytes s0 tbl sl = Ok bytes -> good_path bytes) /\
         tget (p_tree s) c = Some co /\ o_opcode co = aml_pOpIntScopeBlock) /\
    glive g x /\
    (exists dobj, tget (p_tree s) 2 = Some dobj /\ o_opcode dobj = aml_pOpScope /\ o_tableHandle dobj = p_handle s) /\
    match mergeScopeDirectives 10 x s with Ok (r, s') => r = ROk /\ p_mergedScopes s' = 1 | _ => False end.
Proof.
  exists mex_state, mex_ghost, 0. cbn [p_tree p_tables p_handle mex_state].
  split; [exact mex_R|].
  split.
  { unfold info_valid. apply (pool_cases mex_tree (fun i o => o_opcode o <> opFreed -> opInfo (o_infoIndex o) <> None)). intros n o Hn.
    do 6 (destruct n as [|n]; [vm_compute in Hn; inversion Hn; subst o; intros _; vm_compute; discriminate|]).
    vm_compute in Hn. destruct n; discriminate. }
  split.
  { unfold pool_ok. rewrite Forall_forall. intros o Hin. destruct (In_nth_error _ _ Hin) as (n & Hn).
    do 6 (destruct n as [|n]; [vm_compute in Hn; inversion Hn; subst o; unfold value_ok; cbn [o_value];
      first [exact I | exists [0x5f; 0x53; 0x42; 0x5f]; split; [reflexivity|]; right; exists 0; split; [reflexivity|]; vm_compute; discriminate]|]).
    vm_compute in Hn. destruct n; discriminate. }
  split; [split; [vm_compute; reflexivity|vm_compute; intuition discriminate]|].
  split; [apply groot_chk; vm_compute; reflexivity|].
  split; [eexists; split; [vm_compute; reflexivity|reflexivity]|].
  split.
  { apply (pool_cases mex_tree mex_dir_ok). intros n o Hn. unfold mex_dir_ok.
    do 6 (destruct n as [|n]; [vm_compute in Hn; inversion Hn; subst o; intros Hop Hh;
      first [ vm_compute in Hop; discriminate
            | split; [reflexivity|]; split; [intros op fl af Hrow; vm_compute in Hrow; inversion Hrow; reflexivity|];
              eexists 3, 4, _, _, 0, (mkSlice (Some 0) 4);
              split; [vm_compute; reflexivity|]; split; [vm_compute; reflexivity|];
              split; [vm_compute; reflexivity|]; split; [vm_compute; discriminate|]; split; [vm_compute; discriminate|];
              split; [reflexivity|]; split;
              [ intros s0 bytes Ht Hb; unfold slice_bytes in Hb; rewrite Ht in Hb; vm_compute in Hb; inversion Hb; left; reflexivity
              | split; [vm_compute; reflexivity|reflexivity] ] ]|]).
    vm_compute in Hn. destruct n; discriminate. }
  split; [split; [vm_compute; reflexivity|vm_compute; intuition discriminate]|].
  split; [eexists; split; [vm_compute; reflexivity|split; reflexivity]|].
  vm_compute. split; reflexivity.
Qed.
