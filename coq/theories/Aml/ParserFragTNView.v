(** C11 (fragment TN, any number of tables): the namespace view of the tree [root_tree_tn]. *)
From Coq Require Import NArith ZArith Arith List Bool Lia Permutation.
From Coq Require Import ZifyBool ZifyN ZifyNat.
From FF Require Import Lib.Word Gen.Consts_device_acpi_aml Gen.Consts_aml_tree Aml.Stream Aml.Lex
  Aml.Tree Aml.TreeSpec Aml.TreeProofs Aml.Parser Aml.Grammar Aml.LexRoundtrip
  Aml.ParserTotalBase Aml.ParserFragBase Aml.ParserFragFirst Aml.ParserFragF0 Aml.ParserFragF0Conn Aml.ParserFragF0Top
  Aml.ParserFragRose Aml.ParserFragDev Aml.ParserFragArgs Aml.ParserFragF1 Aml.ParserFragF1First Aml.ParserFragF1Conn Aml.ParserFragF1Top
  Aml.View Aml.ParserFragView Aml.ParserFragF0View Aml.ParserFragF1View
  Aml.ParserFragScope Aml.ParserFragScope3 Aml.ParserFragF3Top Aml.ParserFragF3View Aml.ParserFragT2Top Aml.ParserFragTNTop.
Import ListNotations.
Local Open Scope N_scope.

Ltac Zify.zify_post_hook ::= Z.div_mod_to_equations.

(** the view lists the contents of the predefined scopes (only the last table has Scope directives), then the objects
    of the tables in the order of loading *)
Definition view_tn (tss : list (list titem)) (ts : list titem) : list (list N) :=
  vmoved ts 1 ++ vmoved ts 2 ++ vmoved ts 3 ++ vmoved ts 4 ++ vmoved ts 5 ++ flat_map vkeep tss ++ vkeep ts.

Lemma vmoved_noscope d : forall ts, noscope ts = true -> vmoved ts d = [].
Proof.
  induction ts as [|x t IH]; intros Hn; [reflexivity|]. cbn [noscope forallb] in Hn. apply andb_prop in Hn. destruct Hn as [Hx Ht].
  destruct x as [it|]; [|discriminate]. cbn [vmoved flat_map app]. apply IH. exact Ht.
Qed.

Lemma vkeep_perm ts : front_ok ts -> Permutation (vkeep ts) (sentries3 ts).
Proof.
  intros (Hn & Hok). pose proof (view3_perm ts Hok) as P. unfold view3 in P. rewrite !vmoved_noscope in P by exact Hn. exact P.
Qed.

Lemma view_tn_perm tss ts : Forall front_ok tss -> forallb titem_okb ts = true ->
  Permutation (view_tn tss ts) (flat_map sentries3 tss ++ sentries3 ts).
Proof.
  intros Hfr Hok. unfold view_tn.
  assert (P1 : Permutation (flat_map vkeep tss) (flat_map sentries3 tss)).
  { induction Hfr as [|x r Hx Hr IH]; [constructor|]. cbn [flat_map]. apply Permutation_app; [apply vkeep_perm; exact Hx|exact IH]. }
  eapply Permutation_trans; [|apply Permutation_app; [exact P1|apply (view3_perm ts Hok)]].
  unfold view3. set (A1 := vmoved ts 1). set (A2 := vmoved ts 2). set (A3 := vmoved ts 3). set (A4 := vmoved ts 4). set (A5 := vmoved ts 5).
  replace (A1 ++ A2 ++ A3 ++ A4 ++ A5 ++ flat_map vkeep tss ++ vkeep ts) with ((A1 ++ A2 ++ A3 ++ A4 ++ A5) ++ flat_map vkeep tss ++ vkeep ts) by (rewrite <- !app_assoc; reflexivity).
  eapply Permutation_trans; [apply perm_ins|]. rewrite <- !app_assoc. apply Permutation_refl.
Qed.

Section ViewTN.
Variable t : T.
Variable g : ghost.
Variable pl : list pay.
Hypothesis H : Rep t g pl.
Variable tables : list (list N).

Lemma KTn_fold f known : forall tss k b es pre post,
  tables = pre ++ images tss ++ post -> lenN pre = k ->
  Forall (Desc g pl) (KTn k b tss) -> Forall (fun ts => forallb titem_okb ts = true) tss -> 6 <= b -> (6 <= length pl <= f + 2)%nat ->
  fold_left (walkF t tables f known []) (map ridx (KTn k b tss)) (es, []) = (es ++ flat_map vkeep tss, []).
Proof.
  induction tss as [|ts r IH]; intros k b es pre post Htb Hpre HD Hok Hb Hf.
  - cbn [KTn map fold_left flat_map]. rewrite app_nil_r. reflexivity.
  - cbn [KTn] in HD |- *. apply Forall_app in HD. destruct HD as [HDx HDr]. rewrite map_app, fold_left_app.
    assert (Hnth : nth_error tables (N.to_nat k) = Some (hdr_of (enc_titems ts) ++ enc_titems ts ++ [])).
    { rewrite Htb. unfold images. cbn [map app]. rewrite nth_error_app2 by (unfold lenN in Hpre; lia).
      replace (N.to_nat k - length pre)%nat with 0%nat by (unfold lenN in Hpre; lia). cbn [nth_error]. rewrite table_image_hdr, app_nil_r. reflexivity. }
    rewrite <- (lenN_hdr_of (enc_titems ts)) in HDx |- *.
    rewrite (keep_fold t g pl H tables (k + 1) k f known _ Hnth ts es [] b (hdr_of (enc_titems ts)) [] eq_refl HDx (Forall_inv Hok) Hb Hf).
    rewrite (IH (k + 1) _ _ (pre ++ [table_image (enc_titems ts)]) post); [cbn [flat_map]; rewrite <- app_assoc; reflexivity| | |exact HDr|exact (Forall_inv_tail Hok)|lia|exact Hf].
    + rewrite Htb. unfold images. cbn [map app]. rewrite <- app_assoc. reflexivity.
    + rewrite lenN_app. change (lenN [table_image (enc_titems ts)]) with 1. lia.
Qed.

Theorem view_tn_eq tss ts : Desc g pl (root_tree_tn tss ts) -> Forall (fun ts => forallb titem_okb ts = true) tss -> forallb titem_okb ts = true ->
  tables = images (tss ++ [ts]) -> view t tables = view_tn tss ts.
Proof.
  intros HD Hok1 Hok Htb.
  set (k := lenN tss) in *. set (b := 6 + N.of_nat (tszsn tss)) in *.
  assert (Hn2 : nth_error tables (N.to_nat k) = Some (hdr_of (enc_titems ts) ++ enc_titems ts ++ [])).
  { rewrite Htb. unfold images. rewrite map_app. cbn [map]. rewrite nth_error_app2 by (rewrite map_length; unfold k, lenN; lia).
    replace (N.to_nat k - length (map (fun ts0 => table_image (enc_titems ts0)) tss))%nat with 0%nat by (rewrite map_length; unfold k, lenN; lia).
    cbn [nth_error]. rewrite table_image_hdr, app_nil_r. reflexivity. }
  unfold view. set (known := [] :: collect_known t (pool_fuel t) 0 []).
  unfold pool_fuel at 1. rewrite walk_S.
  unfold root_tree_tn, root_treeG in HD. cbv zeta in HD. fold k in HD. fold b in HD.
  destruct (Desc_inv _ _ _ _ _ HD) as (P0 & K0 & HDk). apply Forall_app in HDk. destruct HDk as [HDl HD2].
  apply Forall_app in HD2. destruct HD2 as [HDK HDkeep].
  assert (Hlen : (6 <= length pl <= length (t_pool t) + 2)%nat).
  { rewrite <- (rep_len_pool _ _ _ H). split; [|lia]. cbn [D0' map] in HDl.
    pose proof (Forall_inv (Forall_inv_tail (Forall_inv_tail (Forall_inv_tail (Forall_inv_tail HDl))))) as D5.
    destruct (Desc_inv _ _ _ _ _ D5) as (P5 & _ & _). apply pget_lt in P5. lia. }
  destruct (view_obj t g pl 0 _ H P0 ltac:(discriminate)) as (so & Hso & _ & Hkso).
  rewrite Hso, Hkso, K0, !map_app, !fold_left_app.
  assert (Hleaf : forall d es, 1 <= d <= 5 ->
            walkF t tables (S (length (t_pool t))) known [] (es, []) d = (es ++ vmoved ts d, [])).
  { intros d es Hd.
    assert (Dd : Desc g pl (RN d (dpay d) (moved (k + 1) k b aml_sizeofSDTHeader ts d))).
    { rewrite Forall_forall in HDl. apply HDl. apply in_map_iff. exists d. split; [reflexivity|]. unfold D0'. cbn [In]. lia. }
    destruct (Desc_inv _ _ _ _ _ Dd) as (Pd & Kd & HDm).
    destruct (view_obj t g pl d _ H Pd ltac:(discriminate)) as (co & Hco & Epco & Hkco).
    destruct (dname_num d Hd) as (En & Ez).
    apply (walkF_scope t tables _ known [] es [] d co); [exact Hco|rewrite (pay_op _ _ Epco); reflexivity|rewrite (pay_name _ _ Epco); exact Ez|].
    rewrite walk_S, Hco, Hkco, Kd, (pay_name _ _ Epco). cbn [dpay y_name app]. rewrite En.
    rewrite <- (lenN_hdr_of (enc_titems ts)) in HDm |- *.
    rewrite (moved_fold t g pl H tables (k + 1) k (length (t_pool t)) known d _ Hn2 ts [] [] _ (hdr_of (enc_titems ts)) [] eq_refl HDm Hok ltac:(unfold b; lia) Hlen).
    reflexivity. }
  cbn [D0' map ridx fold_left].
  rewrite (Hleaf 1 []) by lia. rewrite (Hleaf 2) by lia. rewrite (Hleaf 3) by lia. rewrite (Hleaf 4) by lia. rewrite (Hleaf 5) by lia.
  rewrite (KTn_fold (S (length (t_pool t))) known tss 0 6 _ [] [table_image (enc_titems ts)]); [|rewrite Htb; unfold images; rewrite map_app; reflexivity|reflexivity|exact HDK|exact Hok1|lia|lia].
  rewrite <- (lenN_hdr_of (enc_titems ts)) in HDkeep |- *.
  match goal with |- context [fold_left _ (map ridx (keep _ _ _ _ _)) (?es, [])] =>
    rewrite (keep_fold t g pl H tables (k + 1) k (S (length (t_pool t))) known _ Hn2 ts es [] b (hdr_of (enc_titems ts)) [] eq_refl HDkeep Hok ltac:(unfold b; lia) ltac:(lia)) end.
  cbn [app anon map]. rewrite app_nil_r. unfold view_tn. rewrite <- !app_assoc. reflexivity.
Qed.
End ViewTN.
