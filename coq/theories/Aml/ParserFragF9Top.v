(** [F9 copy] This file is ParserFragF1Top.v re-done over the item type of ParserFragF9.v (one more constructor, [IStmt]: statements
    with constant operands); the item type of F1 .. F8 is shared by those fragments and is left untouched.  New material is marked F9. *)
(** C11 (fragment F1): ParseAML on Name declarations and nested Device blocks over the default scopes succeeds,
    and the resulting pool is described by the tree [root_tree] (default scopes, then [lay2] of the program). *)
From Coq Require Import NArith ZArith Arith List Bool Lia.
From Coq Require Import ZifyBool ZifyN ZifyNat.
From FF Require Import Lib.Word Gen.Consts_device_acpi_aml Gen.Consts_aml_tree Aml.Stream Aml.Lex Aml.LexProofs
  Aml.Tree Aml.TreeSpec Aml.TreeProofs Aml.TreeProofsOps Aml.TreeProofsFind Aml.Parser Aml.Grammar Aml.LexRoundtrip
  Aml.ParserTotalTree Aml.ParserTotalBase
  Aml.ParserFragBase Aml.ParserFragFirst Aml.ParserFragF0 Aml.ParserFragF0Shape Aml.ParserFragConn Aml.ParserFragF0Conn Aml.ParserFragWalk
  Aml.ParserFragF0Top Aml.ParserFragRose Aml.ParserFragDev Aml.ParserFragArgs Aml.ParserFragF9 Aml.ParserFragF9First Aml.ParserFragF9Conn.
Import ListNotations.
Local Open Scope N_scope.

Ltac Zify.zify_post_hook ::= Z.div_mod_to_equations.

(** ---- sizes against the length of the encoding ---- *)
Lemma len_enc_fx l : (length l <= length (enc_fx l))%nat.
Proof. induction l as [|[w v] r IH]; [cbn; lia|]. cbn [enc_fx length]. rewrite app_length. pose proof (lenN_fw_enc w v) as E. unfold lenN, fw_len in E. destruct w; cbn [fw_n] in E; lia. Qed.

Lemma len_enc_ta ta : (length ta <= length (enc_ta ta))%nat.
Proof.
  induction ta as [|d r IH]; [cbn; lia|]. change (enc_ta (d :: r)) with (enc_targ d ++ enc_ta r). rewrite app_length.
  destruct d as [d|b]; cbn [enc_targ]; [unfold enc_const; rewrite app_length; destruct (enc_op_nonempty (d_op d)) as (x & l & E); rewrite E|]; cbn [length]; lia.
Qed.

Lemma enc_pels_len : forall es, (pels_sz es <= length (enc_pels es))%nat /\ (pels_cnt es <= length (enc_pels es))%nat.
Proof.
  induction es as [|a r IH|k n es r IHe IH] using pels_ind; [cbn; lia| |]; rewrite pels_sz_cons, pels_cnt_cons, enc_pels_cons, app_length.
  - cbn [pel_sz pel_cnt enc_pel]. pose proof (len_enc_ta [a]) as Ha. unfold enc_ta in Ha. cbn [flat_map length] in Ha. rewrite app_nil_r in Ha. lia.
  - rewrite pel_sz_sub, pel_cnt_sub, enc_pel_sub, !app_length. cbn [length].
    assert (Hk : (1 <= length (enc_pkglen k (k + lenN ([n] ++ enc_pels es))))%nat).
    { unfold enc_pkglen. destruct (k =? 1); cbn [length]; lia. }
    lia.
Qed.

Lemma enc_item_len it : (cfuel_item it <= 3 * length (enc_item it))%nat /\ (isz it <= length (enc_item it))%nat /\ (icnt it <= length (enc_item it))%nat.
Proof.
  revert it. fix IH 1. intros [d|bk k seg fa body|lk seg fa ta|seg k n elems|sk ta].
  5:{ cbn [cfuel_item]. rewrite isz_stmt, icnt_stmt, enc_stmt, app_length.
      destruct (enc_op_nonempty (sk_op sk)) as (x0 & l0 & E). rewrite E. cbn [length]. pose proof (len_enc_ta ta). lia. }
  - cbn [cfuel_item isz icnt enc_item]. unfold enc_decl, enc_const. cbn [length]. rewrite !app_length. cbn [seg_bytes length].
    destruct (enc_op_nonempty (d_op d)) as (x & l & E). rewrite E. cbn [length]. lia.
  - rewrite cfuel_blk, isz_blk, icnt_blk, enc_blk. rewrite !app_length. cbn [seg_bytes length].
    destruct (enc_op_nonempty (bk_op bk)) as (x0 & l0 & E). rewrite E. cbn [length].
    assert (H : (cfuel body <= 3 * length (enc_items body))%nat /\ (iszs body <= length (enc_items body))%nat /\ (icnts body <= length (enc_items body))%nat).
    { induction body as [|x t IHt]; [cbn; lia|]. destruct (IH x) as (A & B & C). destruct IHt as (A' & B' & C').
      rewrite cfuel_cons, iszs_cons, icnts_cons, enc_items_cons, app_length. lia. }
    assert (Hk : (1 <= length (enc_pkglen k (k + lenN (seg_bytes seg ++ enc_fx (bfx bk fa) ++ enc_items body))))%nat).
    { unfold enc_pkglen. destruct (k =? 1); cbn [length]; lia. }
    pose proof (len_enc_fx (bfx bk fa)). lia.
  - rewrite cfuel_leaf, isz_leaf, icnt_leaf, enc_leaf. rewrite !app_length. cbn [seg_bytes length].
    destruct (enc_op_nonempty (lk_op lk)) as (x0 & l0 & E). rewrite E. cbn [length].
    pose proof (len_enc_fx (lfx lk fa)). pose proof (len_enc_ta ta). lia.
  - rewrite cfuel_pkg, isz_pkg, enc_pkg_item. cbn [icnt length]. rewrite !app_length. cbn [seg_bytes length].
    assert (Hk : (1 <= length (enc_pkglen k (k + lenN ([n] ++ enc_pels elems))))%nat).
    { unfold enc_pkglen. destruct (k =? 1); cbn [length]; lia. }
    pose proof (enc_pels_len elems). lia.
Qed.

Lemma enc_items_len l : (cfuel l <= 3 * length (enc_items l))%nat /\ (iszs l <= length (enc_items l))%nat /\ (icnts l <= length (enc_items l))%nat.
Proof.
  induction l as [|x t IHt]; [cbn; lia|]. destruct (enc_item_len x) as (A & B & C). destruct IHt as (A' & B' & C').
  rewrite cfuel_cons, iszs_cons, icnts_cons, enc_items_cons, app_length. lia.
Qed.

(** the bytes of the encoding *)
Lemma enc_pkglen_bytes k v : pkglen_admissible k v -> Forall (fun b => b < 256) (enc_pkglen k v).
Proof.
  intros [(-> & Hv)|[(-> & Hv)|[(-> & Hv)|(-> & Hv)]]]; unfold enc_pkglen.
  - cbn. constructor; [lia|constructor].
  - change (2 =? 1) with false. cbv iota. rewrite lead_byte by lia. constructor; [pose proof (N.mod_lt v 16); lia|apply gle_bytes_lt].
  - change (3 =? 1) with false. cbv iota. rewrite lead_byte by lia. constructor; [pose proof (N.mod_lt v 16); lia|apply gle_bytes_lt].
  - change (4 =? 1) with false. cbv iota. rewrite lead_byte by lia. constructor; [pose proof (N.mod_lt v 16); lia|apply gle_bytes_lt].
Qed.

Lemma seg_bytes_lt seg : Forall (fun b => b < 256) (seg_bytes seg).
Proof. unfold seg_bytes. repeat (constructor; [apply land255_lt|]). constructor. Qed.

Lemma enc_fx_bytes : forall l, fx_okb l = true -> Forall (fun b => b < 256) (enc_fx l).
Proof.
  induction l as [|[w v] r IH]; intros Hok; [constructor|]. cbn [fx_okb forallb] in Hok. apply andb_prop in Hok. destruct Hok as [Hv Hok].
  apply N.ltb_lt in Hv. cbn [enc_fx]. apply Forall_app. split; [|apply IH; exact Hok].
  destruct w; cbn [fw_enc]; [constructor; [exact Hv|constructor]|apply gle_bytes_lt|apply gle_bytes_lt].
Qed.

Lemma enc_ta_bytes : forall ta, forallb targ_okb ta = true -> Forall (fun b => b < 256) (enc_ta ta).
Proof.
  induction ta as [|d r IH]; intros Hok; [constructor|]. cbn [forallb] in Hok. apply andb_prop in Hok. destruct Hok as [Hd Hok].
  change (enc_ta (d :: r)) with (enc_targ d ++ enc_ta r). apply Forall_app. split; [|apply IH; exact Hok].
  destruct d as [d|b]; cbn [targ_okb enc_targ] in *.
  - unfold cst_okb in Hd. apply andb_prop in Hd. destruct Hd as [Hc Hv].
    unfold enc_const. apply Forall_app. split; [|apply gle_bytes_lt].
    destruct (is_constb_cases _ Hc) as [E|[E|[E|[E|[E|[E|E]]]]]]; rewrite E; repeat constructor.
  - constructor; [reflexivity|]. apply Forall_app. split; [|repeat constructor].
    unfold str_okb in Hd. rewrite forallb_forall in Hd. apply Forall_forall. intros c Hc. specialize (Hd c Hc).
    apply andb_prop in Hd. destruct Hd as [_ B]. apply N.leb_le in B. lia.
Qed.

Lemma enc_pels_bytes : forall es, forallb pel_okb es = true -> Forall (fun b => b < 256) (enc_pels es).
Proof.
  induction es as [|a r IH|k n es r IHe IH] using pels_ind; intros Hok; [constructor| |];
    cbn [forallb] in Hok; apply andb_prop in Hok; destruct Hok as [Hd Hok]; rewrite enc_pels_cons; (apply Forall_app; split; [|apply IH; exact Hok]).
  - cbn [pel_okb enc_pel] in *. pose proof (enc_ta_bytes [a]) as Ha. unfold enc_ta in Ha. cbn [flat_map forallb] in Ha. rewrite app_nil_r, andb_true_r in Ha. apply Ha. exact Hd.
  - rewrite pel_okb_sub in Hd. apply andb_prop in Hd. destruct Hd as [Hx Hes]. apply andb_prop in Hx. destruct Hx as [Hn Hpk]. apply pkglen_okb_adm in Hpk. apply N.ltb_lt in Hn.
    rewrite enc_pel_sub. apply Forall_app. split; [repeat constructor|]. apply Forall_app. split; [apply enc_pkglen_bytes; exact Hpk|].
    apply Forall_app. split; [constructor; [exact Hn|constructor]|apply IHe; exact Hes].
Qed.

Lemma enc_items_bytes : forall l, forallb item_okb l = true -> Forall (fun b => b < 256) (enc_items l).
Proof.
  induction l as [|d rest IH|bk k seg fa body rest IHb IH|lk seg fa ta rest IH|seg k n elems rest IH|sk ta rest IH] using items_ind; intros Hok; [constructor| | | | |].
  5:{ apply forallb_item_cons in Hok. destruct Hok as [Hd Hok]. cbn [item_okb] in Hd. apply andb_prop in Hd. destruct Hd as [_ Hta].
      rewrite enc_items_cons, enc_stmt. apply Forall_app. split; [|apply IH; exact Hok].
      apply Forall_app. split; [destruct sk; repeat constructor|apply enc_ta_bytes; exact Hta]. }
  - apply forallb_item_cons in Hok. destruct Hok as [Hd Hok]. cbn [item_okb] in Hd. apply andb_prop in Hd. destruct Hd as [Hd _].
    rewrite enc_items_cons. apply Forall_app. split; [apply enc_decl_bytes; exact Hd|apply IH; exact Hok].
  - apply forallb_item_cons in Hok. destruct Hok as [Hd Hok]. cbn [item_okb] in Hd.
    apply andb_prop in Hd. destruct Hd as [Hx Hbody]. apply andb_prop in Hx. destruct Hx as [Hx Hpk]. apply pkglen_okb_adm in Hpk.
    apply andb_prop in Hx. destruct Hx as [_ Hfx].
    rewrite enc_items_cons, enc_blk. apply Forall_app. split; [|apply IH; exact Hok].
    apply Forall_app. split; [destruct bk; repeat constructor|]. apply Forall_app. split; [apply enc_pkglen_bytes; exact Hpk|].
    apply Forall_app. split; [apply seg_bytes_lt|]. apply Forall_app. split; [apply enc_fx_bytes; exact Hfx|apply IHb; exact Hbody].
  - apply forallb_item_cons in Hok. destruct Hok as [Hd Hok]. cbn [item_okb] in Hd.
    apply andb_prop in Hd. destruct Hd as [Hx Hta]. apply andb_prop in Hx. destruct Hx as [Hx _]. apply andb_prop in Hx. destruct Hx as [_ Hfx].
    rewrite enc_items_cons, enc_leaf. apply Forall_app. split; [|apply IH; exact Hok].
    apply Forall_app. split; [destruct lk; repeat constructor|]. apply Forall_app. split; [apply seg_bytes_lt|].
    apply Forall_app. split; [apply enc_fx_bytes; exact Hfx|apply enc_ta_bytes; exact Hta].
  - apply forallb_item_cons in Hok. destruct Hok as [Hd Hok]. cbn [item_okb] in Hd.
    apply andb_prop in Hd. destruct Hd as [Hx Hel]. apply andb_prop in Hx. destruct Hx as [Hx Hpk]. apply pkglen_okb_adm in Hpk.
    apply andb_prop in Hx. destruct Hx as [_ Hn]. apply N.ltb_lt in Hn.
    rewrite enc_items_cons, enc_pkg_item. apply Forall_app. split; [|apply IH; exact Hok].
    constructor; [reflexivity|]. apply Forall_app. split; [apply seg_bytes_lt|]. apply Forall_app. split; [repeat constructor|].
    apply Forall_app. split; [apply enc_pkglen_bytes; exact Hpk|]. apply Forall_app. split; [constructor; [exact Hn|constructor]|apply enc_pels_bytes; exact Hel].
Qed.

(** ---- all slots of the range are nodes of [lay2] ---- *)
Lemma lay2_nodes_all h tbl : forall l b off y, b <= y < b + N.of_nat (iszs l) -> In y (rnodesl (lay2 h tbl b off l)).
Proof.
  induction l as [|d rest IH|bk k seg fa body rest IHb IH|lk seg fa ta rest IH|seg k n elems rest IH|sk ta rest IH] using items_ind; intros b off y Hy; [cbn in Hy; lia| | | | |].
  5:{ rewrite lay2_cons, rnodesl_app. rewrite iszs_cons, isz_stmt in Hy. apply in_or_app.
      destruct (N.ltb_spec y (b + N.of_nat (1 + length ta))) as [Hlt|Hge].
      - left. cbn [lay2_item]. unfold rnodesl. cbn [flat_map]. rewrite rnodes_eq. cbn [rnodesl flat_map app].
        destruct (N.eq_dec y b) as [->|Hne]; [left; reflexivity|right].
        fold (rnodesl (leaf_row (b + 1) (cst_pays h tbl (off + slo sk) ta))). apply leaf_row_nodes. rewrite len_cst_pays. lia.
      - right. apply IH. rewrite isz_stmt. lia. }
  - rewrite lay2_cons, rnodesl_app. rewrite iszs_cons in Hy. cbn [isz] in Hy. apply in_or_app.
    destruct (N.ltb_spec y (b + 3)) as [Hlt|Hge].
    + left. cbn [lay2_item rnodesl flat_map rnodes app In]. lia.
    + right. apply IH. cbn [isz]. lia.
  - rewrite lay2_cons, rnodesl_app. rewrite iszs_cons, isz_blk in Hy. apply in_or_app.
    set (nf := length (bfx bk fa)) in *.
    destruct (N.ltb_spec y (b + N.of_nat (3 + nf + iszs body))) as [Hlt|Hge].
    + left. rewrite lay2_blk. unfold rnodesl. cbn [flat_map]. rewrite app_nil_r, rnodes_eq.
      destruct (N.eq_dec y b) as [->|Hne]; [left; reflexivity|right].
      rewrite rnodesl_app. apply in_or_app. unfold nfx. fold nf.
      destruct (N.ltb_spec y (b + 2 + N.of_nat nf)) as [Hl2|Hg2].
      * left. apply leaf_row_nodes. rewrite len_hd_pays. fold nf. lia.
      * right. unfold rnodesl. cbn [flat_map]. rewrite app_nil_r, rnodes_eq.
        destruct (N.eq_dec y (b + 2 + N.of_nat nf)) as [->|Hne2]; [left; reflexivity|right]. apply IHb. lia.
    + right. apply IH. rewrite isz_blk. fold nf. lia.
  - rewrite lay2_cons, rnodesl_app. rewrite iszs_cons, isz_leaf in Hy. apply in_or_app.
    destruct (N.ltb_spec y (b + N.of_nat (2 + length (lfx lk fa) + length ta))) as [Hlt|Hge].
    + left. cbn [lay2_item]. unfold rnodesl. cbn [flat_map]. rewrite app_nil_r, rnodes_eq.
      destruct (N.eq_dec y b) as [->|Hne]; [left; reflexivity|right].
      apply leaf_row_nodes. rewrite app_length, len_lhd_pays, len_cst_pays. lia.
    + right. apply IH. rewrite isz_leaf. lia.
  - rewrite lay2_cons, rnodesl_app. rewrite iszs_cons, isz_pkg in Hy. apply in_or_app.
    destruct (N.ltb_spec y (b + N.of_nat (5 + pels_sz elems))) as [Hlt|Hge].
    + left. cbn [lay2_item]. unfold rnodesl. cbn [flat_map]. rewrite app_nil_r, rnodes_eq.
      destruct (N.eq_dec y b) as [->|Hne]; [left; reflexivity|right].
      unfold rnodesl. cbn [flat_map]. rewrite app_nil_r. apply in_or_app.
      destruct (N.eq_dec y (b + 1)) as [->|Hne1]; [left; rewrite rnodes_eq; left; reflexivity|right]. apply pkg_tree_nodes. lia.
    + right. apply IH. rewrite isz_pkg. lia.
Qed.

(** ---- the kinds of nodes of the final tree ---- *)
Definition f1_ok (h tbl : N) (r : rose) : Prop :=
  match r with RN i a ks =>
    (exists nm, a = mkPay opScopeBlock 113 0 nm 0 0 None) \/
    (exists bk off nm p po rest, a = blk_pay h bk off nm /\ ks = RN p (pth_pay h tbl po) [] :: rest) \/
    (exists off w v, a = num_pay h w off v /\ ks = []) \/
    (exists off, a = sb_pay h off) \/
    (exists off, a = pth_pay h tbl off /\ ks = []) \/
    (exists off nm p po c co d, a = nam_pay h off nm /\ ks = [RN p (pth_pay h tbl po) []; RN c (cst_pay h co d) []] /\ is_constb (d_op d) = true) \/
    (exists off d, a = cst_pay h off d /\ is_constb (d_op d) = true /\ ks = []) \/
    (exists lk off nm p po rest, a = lf_pay h lk off nm /\ ks = RN p (pth_pay h tbl po) [] :: rest) \/
    (exists off b, a = str_pay h tbl off b /\ ks = []) \/
    (exists off nm p po rest, a = nam_pay h off nm /\ ks = RN p (pth_pay h tbl po) [] :: rest) \/
    (exists off, a = pkg_pay h off)
  end.
(** F9: in addition statement operators (their operands are constants / strings, kinds that exist already) *)
Definition f9_ok (h tbl : N) (r : rose) : Prop := f1_ok h tbl r \/ (exists sk off, rpay r = st_pay h sk off).
(** for the objects of some table *)
Definition f1_okE (r : rose) : Prop := exists h tbl, f9_ok h tbl r.

Definition f1_okI (r : rose) : Prop := exists h tbl, f1_ok h tbl r.
Definition f9_ok5 (h tbl : N) (r : rose) : Prop :=
  f1_ok h tbl r \/ (exists sk off, rpay r = st_pay h sk off /\ length (rkids r) = sk_n sk).
Definition f9_ok5E (r : rose) : Prop := exists h tbl, f9_ok5 h tbl r.
Lemma ok5_E r : f9_ok5E r -> f1_okE r.
Proof. intros (h & tbl & [A|(sk & off & A & _)]); exists h, tbl; [left; exact A|right; eauto]. Qed.

Section RowsP.
Variable P : rose -> Prop.
Variable h tbl : N.
Hypothesis HP : forall r, f1_ok h tbl r -> P r.
Lemma fx_row_okP : forall l b off, Forall (rallr P) (leaf_row b (fx_pays h off l)).
Proof.
  induction l as [|[w v] r IH]; intros b off; [constructor|]. cbn [fx_pays leaf_row]. constructor; [|apply IH].
  constructor; [|constructor]. apply HP. cbn [f1_ok]. right; right; left. do 3 eexists. split; reflexivity.
Qed.

Lemma cst_row_okP : forall ta b off, forallb targ_okb ta = true -> Forall (rallr P) (leaf_row b (cst_pays h tbl off ta)).
Proof.
  induction ta as [|d r IH]; intros b off Hok; [constructor|]. cbn [forallb] in Hok. apply andb_prop in Hok. destruct Hok as [Hd Hok].
  cbn [cst_pays leaf_row]. constructor; [|apply IH; exact Hok].
  constructor; [|constructor]. destruct d as [d|bs]; cbn [targ_okb targ_pay] in *.
  - unfold cst_okb in Hd. apply andb_prop in Hd. destruct Hd as [Hc _].
    apply HP. cbn [f1_ok]. do 6 right. left. do 2 eexists. split; [reflexivity|split; [exact Hc|reflexivity]].
  - apply HP. cbn [f1_ok]. do 8 right. left. do 2 eexists. split; reflexivity.
Qed.
End RowsP.

Lemma pel_trees_okP h tbl (P : rose -> Prop) (HP : forall r, f1_ok h tbl r -> P r) :
  forall es b off, forallb pel_okb es = true -> Forall (rallr P) (pel_trees h tbl b off es).
Proof.
  induction es as [|d r IH|k n es r IHe IH] using pels_ind; intros b off Hok; [constructor| |];
    cbn [forallb] in Hok; apply andb_prop in Hok; destruct Hok as [Hd Hok]; rewrite pel_trees_cons; (constructor; [|apply IH; exact Hok]).
  - cbn [pel_tree pel_okb] in *. constructor; [|constructor]. apply HP. destruct d as [d|bs]; cbn [targ_okb targ_pay] in *.
    + unfold cst_okb in Hd. apply andb_prop in Hd. destruct Hd as [Hc _].
      cbn [f1_ok]. do 6 right. left. do 2 eexists. split; [reflexivity|split; [exact Hc|reflexivity]].
    + cbn [f1_ok]. do 8 right. left. do 2 eexists. split; reflexivity.
  - rewrite pel_okb_sub in Hd. apply andb_prop in Hd. destruct Hd as [_ Hes]. rewrite pel_tree_sub.
    constructor; [apply HP; cbn [f1_ok]; do 10 right; eexists; reflexivity|].
    constructor; [|constructor; [|constructor]].
    + constructor; [|constructor]. apply HP. cbn [f1_ok]. right; right; left. do 3 eexists. split; reflexivity.
    + constructor; [apply HP; cbn [f1_ok]; right; right; right; left; eexists; reflexivity|]. apply IHe. exact Hes.
Qed.

Section Lay2P.
Variable P : rose -> Prop.
Variable h tbl : N.
Hypothesis HP : forall r, f1_ok h tbl r -> P r.
Hypothesis HS : forall b sk off, P (RN b (st_pay h sk off) []).
Lemma lay2_okP : forall l b off, forallb item_okb l = true -> Forall (rallr P) (lay2 h tbl b off l).
Proof.
  induction l as [|d rest IH|bk k seg fa body rest IHb IH|lk seg fa ta rest IH|seg k n elems rest IH|sk ta rest IH] using items_ind; intros b off Hok; [constructor| | | | |].
  5:{ apply forallb_item_cons in Hok. destruct Hok as [Hd Hok]. cbn [item_okb] in Hd. apply andb_prop in Hd. destruct Hd as [_ Hta].
      rewrite lay2_cons. apply Forall_app. split; [|apply IH; exact Hok]. cbn [lay2_item]. constructor; [|apply (cst_row_okP P h tbl HP); exact Hta].
      constructor; [|constructor]. apply HS. }
  - apply forallb_item_cons in Hok. destruct Hok as [Hd Hok]. cbn [item_okb] in Hd. apply andb_prop in Hd. destruct Hd as [Hd _].
    unfold decl_okb in Hd. apply andb_prop in Hd. destruct Hd as [Hd _]. apply andb_prop in Hd. destruct Hd as [_ Hc].
    rewrite lay2_cons. apply Forall_app. split; [|apply IH; exact Hok]. cbn [lay2_item]. constructor; [|constructor].
    constructor.
    + apply HP. cbn [f1_ok]. right; right; right; right; right; left. do 7 eexists. split; [reflexivity|split; [reflexivity|exact Hc]].
    + constructor; [|constructor; [|constructor]].
      * constructor; [|constructor]. apply HP. cbn [f1_ok]. right; right; right; right; left. eexists. split; reflexivity.
      * constructor; [|constructor]. apply HP. cbn [f1_ok]. right; right; right; right; right; right; left. do 2 eexists. split; [reflexivity|split; [exact Hc|reflexivity]].
  - apply forallb_item_cons in Hok. destruct Hok as [Hd Hok]. cbn [item_okb] in Hd. apply andb_prop in Hd. destruct Hd as [_ Hbody].
    rewrite lay2_cons. apply Forall_app. split; [|apply IH; exact Hok]. rewrite lay2_blk. constructor; [|constructor].
    unfold hd_pays. cbn [leaf_row app]. constructor.
    + apply HP. cbn [f1_ok]. right; left. do 6 eexists. split; reflexivity.
    + constructor; [|apply Forall_app; split; [apply (fx_row_okP P h tbl HP)|constructor; [|constructor]]].
      * constructor; [|constructor]. apply HP. cbn [f1_ok]. right; right; right; right; left. eexists. split; reflexivity.
      * constructor; [|apply IHb; exact Hbody]. apply HP. cbn [f1_ok]. right; right; right; left. eexists. reflexivity.
  - apply forallb_item_cons in Hok. destruct Hok as [Hd Hok]. cbn [item_okb] in Hd. apply andb_prop in Hd. destruct Hd as [_ Hta].
    rewrite lay2_cons. apply Forall_app. split; [|apply IH; exact Hok]. cbn [lay2_item]. constructor; [|constructor].
    unfold lhd_pays. cbn [leaf_row app]. constructor.
    + apply HP. cbn [f1_ok]. do 7 right. left. do 6 eexists. split; reflexivity.
    + constructor.
      * constructor; [|constructor]. apply HP. cbn [f1_ok]. right; right; right; right; left. eexists. split; reflexivity.
      * rewrite leaf_row_app. apply Forall_app. split; [apply (fx_row_okP P h tbl HP)|apply (cst_row_okP P h tbl HP); exact Hta].
  - apply forallb_item_cons in Hok. destruct Hok as [Hd Hok]. cbn [item_okb] in Hd. apply andb_prop in Hd. destruct Hd as [_ Hel].
    rewrite lay2_cons. apply Forall_app. split; [|apply IH; exact Hok]. cbn [lay2_item]. unfold pkg_tree. rewrite pel_tree_sub. constructor; [|constructor].
    constructor.
    + apply HP. cbn [f1_ok]. do 9 right. left. do 5 eexists. split; reflexivity.
    + constructor; [|constructor; [|constructor]].
      * constructor; [|constructor]. apply HP. cbn [f1_ok]. right; right; right; right; left. eexists. split; reflexivity.
      * constructor; [apply HP; cbn [f1_ok]; do 10 right; eexists; reflexivity|].
        constructor; [|constructor; [|constructor]].
        -- constructor; [|constructor]. apply HP. cbn [f1_ok]. right; right; left. do 3 eexists. split; reflexivity.
        -- constructor; [apply HP; cbn [f1_ok]; right; right; right; left; eexists; reflexivity|]. apply (pel_trees_okP h tbl P HP). exact Hel.
Qed.

End Lay2P.

Lemma lay2_ok h tbl : forall l b off, forallb item_okb l = true -> Forall (rallr f1_okE) (lay2 h tbl b off l).
Proof.
  apply (lay2_okP f1_okE h tbl).
  - intros r Hr. exists h, tbl. left. exact Hr.
  - intros b sk off. exists h, tbl. right. do 2 eexists. reflexivity.
Qed.

Lemma lay5_cons h tbl b off x t : lay5 h tbl b off (x :: t) = lay5_item h tbl b off x ++ lay5 h tbl (b + N.of_nat (isz x)) (off + lenN (enc_item x)) t.
Proof. reflexivity. Qed.
Lemma leaf_row_rsizes_len b ps : length (leaf_row b ps) = length ps.
Proof. revert b. induction ps as [|p r IH]; intros b; [reflexivity|]. cbn [leaf_row length]. rewrite IH. reflexivity. Qed.

Section Lay5P.
Variable P : rose -> Prop.
Variable h tbl : N.
Hypothesis HP : forall r, f1_ok h tbl r -> P r.
Hypothesis HS : forall b sk off ks, length ks = sk_n sk -> P (RN b (st_pay h sk off) ks).
Lemma lay5_okP : forall l b off, forallb item_okb l = true -> Forall (rallr P) (lay5 h tbl b off l).
Proof.
  induction l as [|d rest IH|bk k seg fa body rest IHb IH|lk seg fa ta rest IH|seg k n elems rest IH|sk ta rest IH] using items_ind; intros b off Hok; [constructor| | | | |].
  5:{ apply forallb_item_cons in Hok. destruct Hok as [Hd Hok]. cbn [item_okb] in Hd. apply andb_prop in Hd. destruct Hd as [Hn Hta].
      rewrite lay5_cons. apply Forall_app. split; [|apply IH; exact Hok].
      cbn [lay5_item]. constructor; [|constructor]. constructor; [|apply (cst_row_okP P h tbl HP); exact Hta].
      apply HS. rewrite leaf_row_rsizes_len, len_cst_pays. apply Nat.eqb_eq. exact Hn. }
  - apply forallb_item_cons in Hok. destruct Hok as [Hd Hok]. cbn [item_okb] in Hd. apply andb_prop in Hd. destruct Hd as [Hd _].
    unfold decl_okb in Hd. apply andb_prop in Hd. destruct Hd as [Hd _]. apply andb_prop in Hd. destruct Hd as [_ Hc].
    rewrite lay5_cons. apply Forall_app. split; [|apply IH; exact Hok]. cbn [lay5_item]. constructor; [|constructor].
    constructor.
    + apply HP. cbn [f1_ok]. right; right; right; right; right; left. do 7 eexists. split; [reflexivity|split; [reflexivity|exact Hc]].
    + constructor; [|constructor; [|constructor]].
      * constructor; [|constructor]. apply HP. cbn [f1_ok]. right; right; right; right; left. eexists. split; reflexivity.
      * constructor; [|constructor]. apply HP. cbn [f1_ok]. right; right; right; right; right; right; left. do 2 eexists. split; [reflexivity|split; [exact Hc|reflexivity]].
  - apply forallb_item_cons in Hok. destruct Hok as [Hd Hok]. cbn [item_okb] in Hd. apply andb_prop in Hd. destruct Hd as [_ Hbody].
    rewrite lay5_cons. apply Forall_app. split; [|apply IH; exact Hok]. rewrite lay5_blk. constructor; [|constructor].
    unfold hd_pays. cbn [leaf_row app]. constructor.
    + apply HP. cbn [f1_ok]. right; left. do 6 eexists. split; reflexivity.
    + constructor; [|apply Forall_app; split; [apply (fx_row_okP P h tbl HP)|constructor; [|constructor]]].
      * constructor; [|constructor]. apply HP. cbn [f1_ok]. right; right; right; right; left. eexists. split; reflexivity.
      * constructor; [|apply IHb; exact Hbody]. apply HP. cbn [f1_ok]. right; right; right; left. eexists. reflexivity.
  - apply forallb_item_cons in Hok. destruct Hok as [Hd Hok]. cbn [item_okb] in Hd. apply andb_prop in Hd. destruct Hd as [_ Hta].
    rewrite lay5_cons. apply Forall_app. split; [|apply IH; exact Hok]. cbn [lay5_item]. constructor; [|constructor].
    unfold lhd_pays. cbn [leaf_row app]. constructor.
    + apply HP. cbn [f1_ok]. do 7 right. left. do 6 eexists. split; reflexivity.
    + constructor.
      * constructor; [|constructor]. apply HP. cbn [f1_ok]. right; right; right; right; left. eexists. split; reflexivity.
      * rewrite leaf_row_app. apply Forall_app. split; [apply (fx_row_okP P h tbl HP)|apply (cst_row_okP P h tbl HP); exact Hta].
  - apply forallb_item_cons in Hok. destruct Hok as [Hd Hok]. cbn [item_okb] in Hd. apply andb_prop in Hd. destruct Hd as [_ Hel].
    rewrite lay5_cons. apply Forall_app. split; [|apply IH; exact Hok]. cbn [lay5_item]. unfold pkg_tree. rewrite pel_tree_sub. constructor; [|constructor].
    constructor.
    + apply HP. cbn [f1_ok]. do 9 right. left. do 5 eexists. split; reflexivity.
    + constructor; [|constructor; [|constructor]].
      * constructor; [|constructor]. apply HP. cbn [f1_ok]. right; right; right; right; left. eexists. split; reflexivity.
      * constructor; [apply HP; cbn [f1_ok]; do 10 right; eexists; reflexivity|].
        constructor; [|constructor; [|constructor]].
        -- constructor; [|constructor]. apply HP. cbn [f1_ok]. right; right; left. do 3 eexists. split; reflexivity.
        -- constructor; [apply HP; cbn [f1_ok]; right; right; right; left; eexists; reflexivity|]. apply (pel_trees_okP h tbl P HP). exact Hel.
Qed.

End Lay5P.

Lemma lay5_ok5 h tbl : forall l b off, forallb item_okb l = true -> Forall (rallr f9_ok5E) (lay5 h tbl b off l).
Proof.
  apply (lay5_okP f9_ok5E h tbl).
  - intros r Hr. exists h, tbl. left. exact Hr.
  - intros b sk off ks Hl. exists h, tbl. right. exists sk, off. split; [reflexivity|exact Hl].
Qed.

(** ---- the local conditions of the walks, for every node kind ---- *)
Lemma f1_conds (t : T) g pl R0 (H0 : N) : Rep t g pl -> Desc g pl R0 -> rallr f1_okE R0 ->
  forall y a, In y (rnodes R0) -> pget pl y = Some a -> y_op a <> opFreed ->
  merge_ok H0 a /\ defer_ok H0 a /\ reloc_ok g pl H0 y a /\
  ((forall h sk off, a = st_pay h sk off -> length (kids g y) = sk_n sk) -> nonnamed_ok g H0 y a /\ calls_ok g H0 y a).
Proof.
  intros H HD Hok y a Hin Hy Hly.
  destruct (rallr_lookup g pl f1_okE R0 HD Hok y Hin) as (a' & ks & Dy & (h & tbl & Oy)).
  destruct (Desc_inv _ _ _ _ _ Dy) as (Py & Ky & Dks). assert (a' = a) by congruence. subst a'.
  destruct Oy as [Oy|(sk & off & Ea)].
  2:{ cbn [rpay] in Ea. subst a. destruct (sk_row sk) as (Hr & _ & Hac & Htai).
      split; [exists (sk_op sk), 16, (sk_af sk); split; [exact Hr|left; reflexivity]|].
      split; [exists (sk_op sk), 16, (sk_af sk); split; [exact Hr|reflexivity]|].
      split; [exists (sk_op sk), 16, (sk_af sk); split; [exact Hr|left; reflexivity]|].
      intros Hfull. specialize (Hfull h sk off eq_refl).
      assert (Hnn : nonnamed_ok g H0 y (st_pay h sk off)).
      { exists (sk_op sk), 16, (sk_af sk). split; [exact Hr|]. right. rewrite Hac, Htai, Hfull. destruct (sk_n sk); reflexivity. }
      split; [exact Hnn|]. split; [destruct sk; reflexivity|exact Hnn]. }
  cut (merge_ok H0 a /\ defer_ok H0 a /\ reloc_ok g pl H0 y a /\ nonnamed_ok g H0 y a /\ calls_ok g H0 y a);
    [intros (X1 & X2 & X3 & X4 & X5); split; [exact X1|split; [exact X2|split; [exact X3|intros _; split; [exact X4|exact X5]]]]|].
  assert (Hcalls : forall (P : Prop), P -> (negb (y_op a =? aml_pOpIntNamePathOrMethodCall) || negb (y_th a =? H0) = true) -> nonnamed_ok g H0 y a ->
            P /\ nonnamed_ok g H0 y a /\ calls_ok g H0 y a) by (intros P HP Hc Hn; split; [exact HP|split; [exact Hn|split; assumption]]).
  cbn [f1_ok] in Oy. destruct Oy as [(nm & ->)|[(bk & off & nm & p & po & rest & -> & ->)|[(off & w & v & -> & ->)|[(off & ->)|[(off & -> & ->)|[(off & nm & p & po & c & co & d & -> & -> & Hc)|[(off & d & -> & Hc & ->)|[(lk & off & nm & p & po & rest & -> & ->)|[(off & bs & -> & ->)|[(off & nm & p & po & rest & -> & ->)|(off & ->)]]]]]]]]]].
  - (* default scope *)
    split; [do 3 eexists; split; [reflexivity|right; reflexivity]|]. split; [do 3 eexists; split; reflexivity|].
    apply Hcalls; [|reflexivity|do 3 eexists; split; [reflexivity|left; reflexivity]].
    do 3 eexists. split; [reflexivity|]. right; left. cbn [y_th y_op]. change (negb (opScopeBlock =? aml_pOpIntScopeBlock)) with false. rewrite andb_false_r. reflexivity.
  - (* block-like named object *)
    destruct bk;
      (split; [do 3 eexists; split; [reflexivity|right; reflexivity]|]; split; [do 3 eexists; split; reflexivity|];
       apply Hcalls; [|reflexivity|do 3 eexists; split; [reflexivity|left; reflexivity]];
       do 3 eexists; split; [reflexivity|]; right; right;
       pose proof (Forall_inv Dks) as Dp; destruct (Desc_inv _ _ _ _ _ Dp) as (Pp & _ & _);
       exists p, (pth_pay h tbl po), tbl, (mkSlice (Some po) 4); rewrite Ky; cbn [map ridx hd];
       split; [reflexivity|]; split; [exact Pp|]; split; [discriminate|]; split; [reflexivity|]; cbn [s_len]; cbv; discriminate).
  - (* fixed data argument *)
    unfold num_pay, merge_ok, defer_ok, reloc_ok, nonnamed_ok, calls_ok. cbn [y_info y_op y_th].
    destruct w;
      (split; [do 3 eexists; split; [reflexivity|right; reflexivity]|]; split; [do 3 eexists; split; reflexivity|];
       split; [do 3 eexists; split; [reflexivity|right; left; reflexivity]|];
       split; [do 3 eexists; split; [reflexivity|right; reflexivity]|]; split; [reflexivity|do 3 eexists; split; [reflexivity|right; reflexivity]]).
  - (* ScopeBlock of a block *)
    split; [do 3 eexists; split; [reflexivity|right; reflexivity]|]. split; [do 3 eexists; split; reflexivity|].
    apply Hcalls; [|reflexivity|do 3 eexists; split; [reflexivity|left; reflexivity]].
    do 3 eexists. split; [reflexivity|]. right; left. cbn [sb_pay y_th y_op].
    change (negb (aml_pOpIntScopeBlock =? aml_pOpIntScopeBlock)) with false. rewrite andb_false_r. reflexivity.
  - (* name path *)
    split; [do 3 eexists; split; [reflexivity|right; reflexivity]|]. split; [do 3 eexists; split; reflexivity|].
    apply Hcalls; [|reflexivity|do 3 eexists; split; [reflexivity|right; reflexivity]].
    do 3 eexists. split; [reflexivity|]. right; left. reflexivity.
  - (* Name *)
    split; [do 3 eexists; split; [reflexivity|right; reflexivity]|]. split; [do 3 eexists; split; reflexivity|].
    apply Hcalls; [|reflexivity|do 3 eexists; split; [reflexivity|left; reflexivity]].
    do 3 eexists. split; [reflexivity|]. right; right.
    pose proof (Forall_inv Dks) as Dp. destruct (Desc_inv _ _ _ _ _ Dp) as (Pp & _ & _).
    exists p, (pth_pay h tbl po), tbl, (mkSlice (Some po) 4). rewrite Ky. cbn [map ridx hd].
    split; [reflexivity|]. split; [exact Pp|]. split; [discriminate|]. split; [reflexivity|]. cbn [s_len]. cbv. discriminate.
  - (* constant *)
    unfold cst_pay, merge_ok, defer_ok, reloc_ok, nonnamed_ok, calls_ok. cbn [y_info y_op y_th].
    destruct (is_constb_cases _ Hc) as [E|[E|[E|[E|[E|[E|E]]]]]]; rewrite E;
      (split; [do 3 eexists; split; [reflexivity|right; reflexivity]|]; split; [do 3 eexists; split; reflexivity|];
       split; [do 3 eexists; split; [reflexivity|right; left; reflexivity]|];
       split; [do 3 eexists; split; [reflexivity|right; reflexivity]|]; split; [reflexivity|do 3 eexists; split; [reflexivity|right; reflexivity]]).
  - (* leaf named object *)
    destruct lk;
      (split; [do 3 eexists; split; [reflexivity|right; reflexivity]|]; split; [do 3 eexists; split; reflexivity|];
       apply Hcalls; [|reflexivity|do 3 eexists; split; [reflexivity|left; reflexivity]];
       do 3 eexists; split; [reflexivity|]; right; right;
       pose proof (Forall_inv Dks) as Dp; destruct (Desc_inv _ _ _ _ _ Dp) as (Pp & _ & _);
       exists p, (pth_pay h tbl po), tbl, (mkSlice (Some po) 4); rewrite Ky; cbn [map ridx hd];
       split; [reflexivity|]; split; [exact Pp|]; split; [discriminate|]; split; [reflexivity|]; cbn [s_len]; cbv; discriminate).
  - (* string *)
    unfold str_pay, merge_ok, defer_ok, reloc_ok, nonnamed_ok, calls_ok. cbn [y_info y_op y_th].
    split; [do 3 eexists; split; [reflexivity|right; reflexivity]|]. split; [do 3 eexists; split; reflexivity|].
    split; [do 3 eexists; split; [reflexivity|right; left; reflexivity]|].
    split; [do 3 eexists; split; [reflexivity|right; reflexivity]|]. split; [reflexivity|do 3 eexists; split; [reflexivity|right; reflexivity]].
  - (* Name with any value *)
    split; [do 3 eexists; split; [reflexivity|right; reflexivity]|]. split; [do 3 eexists; split; reflexivity|].
    apply Hcalls; [|reflexivity|do 3 eexists; split; [reflexivity|left; reflexivity]].
    do 3 eexists. split; [reflexivity|]. right; right.
    pose proof (Forall_inv Dks) as Dp. destruct (Desc_inv _ _ _ _ _ Dp) as (Pp & _ & _).
    exists p, (pth_pay h tbl po), tbl, (mkSlice (Some po) 4). rewrite Ky. cbn [map ridx hd].
    split; [reflexivity|]. split; [exact Pp|]. split; [discriminate|]. split; [reflexivity|]. cbn [s_len]. cbv. discriminate.
  - (* Package *)
    unfold pkg_pay, merge_ok, defer_ok, reloc_ok, nonnamed_ok, calls_ok. cbn [y_info y_op y_th].
    split; [do 3 eexists; split; [reflexivity|right; reflexivity]|]. split; [do 3 eexists; split; reflexivity|].
    split; [do 3 eexists; split; [reflexivity|right; left; reflexivity]|].
    split; [do 3 eexists; split; [reflexivity|right; reflexivity]|]. split; [reflexivity|do 3 eexists; split; [reflexivity|right; reflexivity]].
Qed.

(** ---- statements: the conditions of resolveMethodCalls / connectNonNamedObjArgs once the operands are attached ---- *)
Lemma rallr_mono (P Q : rose -> Prop) : (forall r, P r -> Q r) -> forall r, rallr P r -> rallr Q r.
Proof.
  intros HPQ. induction r as [i a ks IH] using rose_ind2. intros Hr. apply rallr_inv in Hr. destruct Hr as (Hp & Hks).
  constructor; [apply HPQ; exact Hp|]. rewrite Forall_forall in IH, Hks |- *. intros c Hc. apply (IH c Hc). apply (Hks c Hc).
Qed.

Lemma sk_op_inj sk sk' : sk_op sk = sk_op sk' -> sk = sk'.
Proof. destruct sk, sk'; intros E; try reflexivity; cbv in E; discriminate E. Qed.

Lemma f1_ok_not_stmt h tbl y a ks h' sk off : f1_ok h tbl (RN y a ks) -> a <> st_pay h' sk off.
Proof.
  intros Oy E. assert (Hop : y_op a = sk_op sk) by (rewrite E; reflexivity). clear E. cbn [f1_ok] in Oy.
  destruct Oy as [(nm & ->)|[(bk & off0 & nm & p & po & rest & -> & _)|[(off0 & w & v & -> & _)|[(off0 & ->)|[(off0 & -> & _)|[(off0 & nm & p & po & c & co & d & -> & _ & _)|[(off0 & d & -> & Hc & _)|[(lk & off0 & nm & p & po & rest & -> & _)|[(off0 & bs & -> & _)|[(off0 & nm & p & po & rest & -> & _)|(off0 & ->)]]]]]]]]]].
  7:{ unfold cst_pay in Hop. cbn [y_op] in Hop. destruct (is_constb_cases _ Hc) as [E|[E|[E|[E|[E|[E|E]]]]]]; rewrite E in Hop; destruct sk; cbv in Hop; discriminate Hop. }
  all: try destruct bk; try destruct w; try destruct lk; destruct sk; cbv in Hop; discriminate Hop.
Qed.

Lemma f5_conds (t : T) g pl R0 (H0 : N) : Rep t g pl -> Desc g pl R0 -> rallr f9_ok5E R0 ->
  forall y a, In y (rnodes R0) -> pget pl y = Some a -> y_op a <> opFreed ->
  merge_ok H0 a /\ defer_ok H0 a /\ reloc_ok g pl H0 y a /\ nonnamed_ok g H0 y a /\ calls_ok g H0 y a.
Proof.
  intros H HD Hok y a Hin Hy Hly.
  assert (HokE : rallr f1_okE R0) by (apply (rallr_mono f9_ok5E f1_okE ok5_E); exact Hok).
  destruct (f1_conds t g pl R0 H0 H HD HokE y a Hin Hy Hly) as (A & B & C & D).
  split; [exact A|]. split; [exact B|]. split; [exact C|]. apply D.
  intros h sk off Ea.
  destruct (rallr_lookup g pl f9_ok5E R0 HD Hok y Hin) as (a' & ks & Dy & (h' & tbl & Oy)).
  destruct (Desc_inv _ _ _ _ _ Dy) as (Py & Ky & _). assert (a' = a) by congruence. subst a'.
  rewrite Ky, map_length. destruct Oy as [Oy|(sk' & off' & Ea' & Hl)].
  - exfalso. exact (f1_ok_not_stmt _ _ _ _ _ _ _ _ Oy Ea).
  - cbn [rpay rkids] in Ea', Hl. rewrite Ea in Ea'. unfold st_pay in Ea'. injection Ea' as E1 _ _ _. apply sk_op_inj in E1. subst sk'. exact Hl.
Qed.

(** ---- the final tree ---- *)
Definition dflt_leaves : list rose :=
  [RN 1 (scope_pay 0 [95; 71; 80; 69]) []; RN 2 (scope_pay 0 [95; 80; 82; 95]) []; RN 3 (scope_pay 0 [95; 83; 66; 95]) [];
   RN 4 (scope_pay 0 [95; 83; 73; 95]) []; RN 5 (scope_pay 0 [95; 84; 90; 95]) []].

Definition root_tree (its : list item) : rose :=
  RN 0 (scope_pay 0 [92; 0; 0; 0]) (dflt_leaves ++ lay2 1 0 6 aml_sizeofSDTHeader its).

Lemma lay2_rsizes h tbl : forall l b off, rsizes (lay2 h tbl b off l) = iszs l.
Proof.
  induction l as [|d rest IH|bk k seg fa body rest IHb IH|lk seg fa ta rest IH|seg k n elems rest IH|sk ta rest IH] using items_ind; intros b off; [reflexivity| | | | |].
  5:{ rewrite lay2_cons, rsizes_app, IH, iszs_cons, isz_stmt. cbn [lay2_item]. rewrite rsizes_cons, rsize_eq, leaf_row_rsizes, len_cst_pays. cbn [rsizes fold_right]. lia. }
  - rewrite lay2_cons, rsizes_app, IH, iszs_cons. reflexivity.
  - rewrite lay2_cons, rsizes_app, IH, iszs_cons, lay2_blk, isz_blk. cbn [rsizes fold_right]. rewrite !rsize_eq.
    rewrite rsizes_app, leaf_row_rsizes, len_hd_pays. cbn [rsizes fold_right]. rewrite rsize_eq, IHb. lia.
  - rewrite lay2_cons, rsizes_app, IH, iszs_cons, isz_leaf. cbn [lay2_item rsizes fold_right]. rewrite rsize_eq, leaf_row_rsizes, app_length, len_lhd_pays, len_cst_pays. lia.
  - rewrite lay2_cons, rsizes_app, IH, iszs_cons, isz_pkg. cbn [lay2_item]. rewrite rsizes_cons, rsize_eq, rsizes_cons, rsizes_cons, rsize_eq, pkg_tree_rsize. cbn [rsizes fold_right]. lia.
Qed.

Lemma root_tree_size its : rsize (root_tree its) = (6 + iszs its)%nat.
Proof. unfold root_tree. rewrite rsize_eq, rsizes_app, lay2_rsizes. reflexivity. Qed.

Lemma dflt_okE i nm ks : f1_okE (RN i (mkPay opScopeBlock 113 0 nm 0 0 None) ks).
Proof. exists 0, 0. left. cbn [f1_ok]. left. eexists. reflexivity. Qed.

Lemma root_tree_ok its : forallb item_okb its = true -> rallr f1_okE (root_tree its).
Proof.
  intros Hok. unfold root_tree. constructor; [apply dflt_okE|].
  apply Forall_app. split; [|apply lay2_ok; exact Hok].
  unfold dflt_leaves. repeat (constructor; [constructor; [apply dflt_okE|constructor]|]). constructor.
Qed.

Lemma root_tree_nodes its y : y < 6 + N.of_nat (iszs its) -> In y (rnodes (root_tree its)).
Proof.
  intros Hy. unfold root_tree. rewrite rnodes_eq, rnodesl_app.
  destruct (N.ltb_spec y 6) as [Hlt|Hge].
  - assert (Hc : y = 0 \/ y = 1 \/ y = 2 \/ y = 3 \/ y = 4 \/ y = 5) by lia.
    destruct Hc as [ -> | [ -> | [ -> | [ -> | [ -> | -> ] ] ] ] ]; cbn; tauto.
  - right. apply in_or_app. right. apply lay2_nodes_all. lia.
Qed.

Lemma leaf_desc g pl d a : pget pl d = Some a -> kids g d = [] -> Desc g pl (RN d a []).
Proof. intros Hp Hk. constructor; [exact Hp|exact Hk|constructor]. Qed.

(** ---- connectNamedObjArgs on the whole tree ---- *)
Lemma pass2_f1 its fuel t1 g1 pl1 hdr :
  let data := hdr ++ enc_items its in
  forallb item_okb its = true -> lenN hdr = aml_sizeofSDTHeader ->
  Rep t1 g1 pl1 -> Post1 g0c pl0c g1 pl1 0 (lay1 1 0 6 aml_sizeofSDTHeader its) ->
  (cfuel its + 24 <= fuel)%nat ->
  wp False (connectNamedObjArgs fuel 0) (after_first t1 [] 1 data) (fun r s' => r = ROk /\ exists t2 g2 pl2,
    s' = with_tree (after_first t1 [] 1 data) t2 /\ Rep t2 g2 pl2 /\ Desc g2 pl2 (root_tree its) /\
    N.of_nat (length pl2) <= 6 + N.of_nat (iszs its)).
Proof.
  intros data Hok Hhdr H1 P1 Hfuel. destruct P1 as [A1 A2 A3 A4 A5 A6]. change (N.of_nat (length pl0c)) with 6 in *.
  set (s1 := after_first t1 [] 1 data).
  assert (Hp0 : pget pl1 0 = Some (scope_pay 0 [92; 0; 0; 0])) by (rewrite A6 by lia; reflexivity).
  assert (Hk0 : kids g1 0 = D0 ++ map ridx (lay1 1 0 6 aml_sizeofSDTHeader its) ++ []) by (rewrite A3, app_nil_r; reflexivity).
  destruct fuel as [|F]; [lia|]. rewrite connectNamedObjArgs_S.
  apply wp_bind. eapply wp_objectAt_rep; [exact H1|exact Hp0|discriminate|].
  apply wp_bind. eapply wp_rdf_rep; [exact H1|exact Hp0|discriminate|]. intros o0 _ _ _ Hlast. rewrite Hlast, A3.
  change (kids g0c 0) with D0.
  pose proof (clen_le_cfuel its) as Hcl.
  eapply (cspec_all 1 0 [data] data eq_refl its 0 D0 [] 6 aml_sizeofSDTHeader s1 g1 pl1 F _ (F - cfuel its)%nat hdr []);
    [exact H1|exact Hk0|exact A4|exact Hp0|discriminate|left; lia|reflexivity|reflexivity|unfold data; rewrite app_nil_r; reflexivity|symmetry; exact Hhdr|exact Hok|lia|lia|].
  intros t2 g2 pl2 H2 [Q1 Q2 Q3 Q4]. rewrite app_nil_r in Q1.
  replace (F - clen its)%nat with (length D0 + S (S (F - clen its - 7)))%nat by (cbn [D0 length]; lia).
  assert (HD0 : forall d, In d D0 -> kids g2 d = [] /\ pget pl2 d = pget pl0c d).
  { intros d Hd. destruct (D0_facts d Hd) as (Hlt & Hne & _). change (N.of_nat 6) with 6 in Hlt.
    split; [rewrite Q3 by lia; rewrite A5 by lia; apply kids_g0c; exact Hne|rewrite Q4 by lia; apply A6; exact Hlt]. }
  eapply (conn_leaves D0 _ 0 (map ridx (lay2 1 0 6 aml_sizeofSDTHeader its)) _ g2 pl2); [exact H2|exact Q1| |].
  { intros d Hd. destruct (HD0 d Hd) as (E1 & E2). split; [exact E1|]. destruct (D0_facts d Hd) as (_ & _ & a & row & Ha & Hl & Hrow).
    exists a, row. rewrite E2. auto. }
  split; [reflexivity|]. exists t2, g2, pl2. split; [reflexivity|]. split; [exact H2|]. split.
  - unfold root_tree. constructor.
    + rewrite Q4 by lia. exact Hp0.
    + rewrite Q1, map_app. reflexivity.
    + apply Forall_app. split; [|exact Q2]. apply Forall_forall. intros r Hr. unfold dflt_leaves in Hr. cbn [In] in Hr.
      destruct Hr as [ <- | [ <- | [ <- | [ <- | [ <- | [] ] ] ] ] ];
        (apply leaf_desc; [match goal with |- pget pl2 ?d = _ => rewrite (proj2 (HD0 d ltac:(cbn; tauto))) end; reflexivity|apply HD0; cbn; tauto]).
  - destruct (N.leb_spec (N.of_nat (length pl2)) (6 + N.of_nat (iszs its))) as [Hle|Hgt]; [exact Hle|]. exfalso.
    assert (Hnone : pget pl2 (6 + N.of_nat (iszs its)) = None).
    { rewrite Q4 by lia. apply pget_none. rewrite A2, lay1_rsizes. cbn [pl0c map length tree_defaultScopeNames]. lia. }
    assert (Hsome : pget pl2 (6 + N.of_nat (iszs its)) <> None).
    { unfold pget. apply nth_error_Some. lia. }
    contradiction.
Qed.

