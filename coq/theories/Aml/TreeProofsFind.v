(** C13 proofs, part 3: under [R], Find / findRelative compute the reference resolver and never
    panic or run out of fuel; NumArgs / ArgAt read the child list. *)
From Coq Require Import NArith ZArith List Bool Lia.
From Coq Require Import ZifyBool ZifyN ZifyNat.
From FF Require Import Lib.Word Gen.Consts_aml_tree Aml.Stream Aml.Tree Aml.TreeSpec Aml.TreeProofs Aml.TreeProofsOps.
Import ListNotations.
Local Open Scope N_scope.

Ltac Zify.zify_post_hook ::= Z.div_mod_to_equations.

(** ---- pigeonhole: duplicate-free lists of pool slots are no longer than the pool ---- *)
Lemma NoDup_bounded_length (l : list N) (n : nat) :
  NoDup l -> (forall x, In x l -> x < N.of_nat n) -> (length l <= n)%nat.
Proof.
  intros Hnd Hb.
  assert (H : incl l (map N.of_nat (seq 0 n))).
  { intros x Hx. apply in_map_iff. exists (N.to_nat x). split; [apply N2Nat.id|].
    apply in_seq. specialize (Hb x Hx). lia. }
  pose proof (NoDup_incl_length Hnd H) as Hlen. rewrite map_length, seq_length in Hlen. exact Hlen.
Qed.

Section FindProofs.
Context {V : Type} (t : ObjectTree V) (g : ghost) (HR : R t g).

Let nm := name_at t.

Lemma kids_length i : (length (kids g i) <= length (t_pool t))%nat.
Proof.
  destruct (N.ltb_spec i (N.of_nat (length (g_kids g)))) as [Hlt|Hge].
  - rewrite (R_len _ _ HR) in Hlt. destruct (get_some _ _ Hlt) as (o & Ho).
    destruct (N.eq_dec (o_opcode o) opFreed) as [Hf|Hl].
    + destruct (R_freed _ _ HR _ _ Ho Hf) as [E _]. rewrite E. cbn. lia.
    + destruct (R_kids _ _ HR _ _ Ho Hl) as (_ & _ & Hc & Hnd).
      apply NoDup_bounded_length; auto. intros x Hx.
      destruct (chain_In_parent _ _ _ _ _ _ Hc Hx) as (ox & Hgx & _). eapply get_lt; eauto.
  - rewrite kids_oob by lia. cbn. lia.
Qed.

(** the parent chain of a live object is shorter than the pool *)
Lemma Depth_chain i k : Depth t i k ->
  exists l, length l = S k /\ NoDup l /\ (forall x, In x l -> x < N.of_nat (length (t_pool t))) /\
            (forall x, In x l -> exists j, (j <= k)%nat /\ Depth t x j).
Proof.
  induction 1 as [i o Hg Hl Hp | i o k Hg Hl Hp Hd IH].
  - exists [i]. split; [reflexivity|]. split; [repeat constructor; intros []|]. split.
    + intros x [<-|[]]. eapply get_lt; eauto.
    + intros x [<-|[]]. exists 0%nat. split; auto. eapply Depth_root; eauto.
  - destruct IH as (l & Hlen & Hnd & Hb & Hdp).
    exists (i :: l). split; [cbn; lia|]. split; [|split].
    + constructor; auto. intros Hin. destruct (Hdp _ Hin) as (j & Hj & Hdj).
      assert (Hd' : Depth t i (S k)) by (eapply Depth_step; eauto).
      pose proof (Depth_fun _ _ _ Hdj _ Hd'). lia.
    + intros x [<-|Hin]; auto. eapply get_lt; eauto.
    + intros x [<-|Hin].
      * exists (S k). split; auto. eapply Depth_step; eauto.
      * destruct (Hdp _ Hin) as (j & Hj & Hdj). exists j. split; auto.
Qed.

Lemma Depth_bound i k : Depth t i k -> (k < length (t_pool t))%nat.
Proof.
  intros Hd. destruct (Depth_chain _ _ Hd) as (l & Hlen & Hnd & Hb & _).
  pose proof (NoDup_bounded_length l _ Hnd Hb). lia.
Qed.

(** ---- the sibling loop is [find] over the child list ---- *)
Lemma find_sibling_chain seg p : forall l prev fuel,
  chain t p prev l InvalidIndex -> (length l < fuel)%nat ->
  find_sibling fuel t (hd InvalidIndex l) seg = Ok (find (fun c => name_eqb seg (nm c)) l).
Proof.
  induction l as [|c l IH]; intros prev fuel Hc Hf.
  - destruct fuel; [cbn in Hf; lia|]. cbn [find_sibling hd]. rewrite N.eqb_refl. reflexivity.
  - destruct fuel; [cbn in Hf; lia|]. cbn [hd find_sibling find].
    destruct Hc as [(oc & Hg & Hl & _ & _ & Hn) Hc].
    assert (Hcv : c <> InvalidIndex) by (eapply (R_pos_not_Inv t g HR); eauto).
    apply N.eqb_neq in Hcv. rewrite Hcv.
    erewrite ObjectAt_deref_live; [| apply (R_bound _ _ HR) | exact Hg | exact Hl]. cbn [bind].
    rewrite deref_get, Hg. cbn [bind].
    unfold nm at 1. unfold name_at. rewrite Hg.
    destruct (name_eqb seg (o_name oc)); [reflexivity|].
    rewrite Hn. apply (IH c). exact Hc. cbn in Hf. lia.
Qed.

Lemma lookup_ok scope so seg :
  get t scope = Some so -> o_opcode so <> opFreed ->
  find_sibling (chain_fuel t) t (o_first so) seg = Ok (lookup g nm scope seg).
Proof.
  intros Hg Hl. destruct (R_kids _ _ HR _ _ Hg Hl) as (Hf & _ & Hc & _).
  rewrite Hf. unfold lookup. eapply find_sibling_chain; eauto.
  unfold chain_fuel. pose proof (kids_length scope). lia.
Qed.

Lemma lookup_live scope seg c : lookup g nm scope seg = Some c ->
  In c (kids g scope) /\ exists co, get t c = Some co /\ o_opcode co <> opFreed.
Proof.
  unfold lookup. intros H. apply find_some in H. destruct H as [Hin _]. split; auto.
  destruct (R_In_kids t g HR _ _ Hin) as (_ & co & Hc & Hl & _). eauto.
Qed.

(** ---- findRelative ---- *)
Lemma findRelative_go_spec : forall n e sk scope,
  (length e <= n)%nat -> live t scope ->
  findRelative_go sk t scope e =
    Ok (enc_result (match segments sk e with Some names => walk g nm scope names | None => None end)).
Proof.
  induction n as [|n IH]; intros e sk scope Hlen Hlive.
  - destruct e; [|cbn in Hlen; lia]. cbn. destruct sk; reflexivity.
  - destruct e as [|b0 rest0]; [cbn; destruct sk; reflexivity|].
    cbn [findRelative_go segments]. destruct (is_lead b0).
    + destruct rest0 as [|b1 [|b2 [|b3 rest]]]; try reflexivity.
      destruct Hlive as (so & Hg & Hl).
      erewrite ObjectAt_deref_live; [| apply (R_bound _ _ HR) | exact Hg | exact Hl]. cbn [bind].
      rewrite (rd_ok _ _ _ _ Hg). cbn [bind].
      rewrite (lookup_ok _ _ _ Hg Hl). cbn [bind].
      destruct (lookup g nm scope (b0, b1, b2, b3)) as [c|] eqn:El.
      * destruct (lookup_live _ _ _ El) as (_ & co & Hc & Hcl).
        rewrite (IH rest false c); [| cbn in Hlen; lia | exists co; auto].
        destruct (segments false rest); cbn [option_map walk]; [rewrite El|]; reflexivity.
      * destruct (segments false rest); cbn [option_map walk]; [rewrite El|]; reflexivity.
    + destruct (b0 =? 0x2f).
      * destruct rest0 as [|b1 rest1]; [reflexivity|]. apply IH; [cbn in Hlen; lia | exact Hlive].
      * apply IH; [cbn in Hlen; lia | exact Hlive].
Qed.

Lemma findRelative_spec scope e : live t scope ->
  findRelative t scope e = Ok (enc_result (resolve_rel g nm scope e)).
Proof. intros H. unfold findRelative, resolve_rel. eapply findRelative_go_spec; eauto. Qed.

(** ---- the ^ loop ---- *)
Lemma parent_step scope so : get t scope = Some so -> o_opcode so <> opFreed ->
  parent_of g scope = (if o_parent so =? InvalidIndex then None else Some (o_parent so)) /\
  (o_parent so <> InvalidIndex -> live t (o_parent so)).
Proof.
  intros Hg Hl. split; [eapply parent_of_spec; eauto|].
  intros Hp. destruct (R_parent_live t g HR _ _ Hg Hl Hp) as (_ & po & Hpo & Hpl). exists po. auto.
Qed.

Lemma find_carets_spec : forall e scope, live t scope ->
  find_carets t scope e = Ok (enc_result (carets g nm scope e)).
Proof.
  induction e as [|b rest IH]; intros scope Hlive; [reflexivity|].
  cbn [find_carets carets]. destruct (b =? 0x5e) eqn:Eb.
  - destruct Hlive as (so & Hg & Hl).
    erewrite ObjectAt_deref_live; [| apply (R_bound _ _ HR) | exact Hg | exact Hl]. cbn [bind].
    rewrite (rd_ok _ _ _ _ Hg). cbn [bind].
    destruct (parent_step _ _ Hg Hl) as [Hpo Hpl]. rewrite Hpo.
    destruct (N.eqb_spec (o_parent so) InvalidIndex) as [E|E]; [reflexivity|].
    apply IH. auto.
  - apply findRelative_spec. exact Hlive.
Qed.

(** ---- the upward search ---- *)
Lemma find_upward_spec seg : forall k scope, Depth t scope k ->
  forall fi fs, (k + 2 <= fi)%nat -> (k + 1 <= fs)%nat ->
  find_upward fi t scope seg = Ok (enc_result (search_up g nm fs scope seg)).
Proof.
  intros k scope Hd.
  induction Hd as [scope so Hg Hl Hp | scope so k Hg Hl Hp Hd IH]; intros fi fs Hfi Hfs.
  - destruct fi as [|fi]; [lia|]. destruct fs as [|fs]; [lia|]. cbn [find_upward search_up].
    assert (Hsv : scope <> InvalidIndex) by (eapply (R_pos_not_Inv t g HR); eauto).
    apply N.eqb_neq in Hsv. rewrite Hsv.
    erewrite ObjectAt_deref_live; [| apply (R_bound _ _ HR) | exact Hg | exact Hl]. cbn [bind].
    rewrite (rd_ok _ _ _ _ Hg). cbn [bind]. rewrite (lookup_ok _ _ _ Hg Hl). cbn [bind].
    destruct (lookup g nm scope seg) as [c|] eqn:El.
    + destruct (lookup_live _ _ _ El) as (_ & co & Hc & Hcl). rewrite (rd_ok _ _ _ _ Hc).
      rewrite (R_index _ _ HR _ _ Hc). reflexivity.
    + rewrite (rd_ok _ _ _ _ Hg). cbn [bind]. destruct (parent_step _ _ Hg Hl) as [Hpo _]. rewrite Hpo, Hp, N.eqb_refl.
      destruct fi as [|fi]; [lia|]. cbn [find_upward]. rewrite N.eqb_refl. reflexivity.
  - destruct fi as [|fi]; [lia|]. destruct fs as [|fs]; [lia|]. cbn [find_upward search_up].
    assert (Hsv : scope <> InvalidIndex) by (eapply (R_pos_not_Inv t g HR); eauto).
    apply N.eqb_neq in Hsv. rewrite Hsv.
    erewrite ObjectAt_deref_live; [| apply (R_bound _ _ HR) | exact Hg | exact Hl]. cbn [bind].
    rewrite (rd_ok _ _ _ _ Hg). cbn [bind]. rewrite (lookup_ok _ _ _ Hg Hl). cbn [bind].
    destruct (lookup g nm scope seg) as [c|] eqn:El.
    + destruct (lookup_live _ _ _ El) as (_ & co & Hc & Hcl). rewrite (rd_ok _ _ _ _ Hc).
      rewrite (R_index _ _ HR _ _ Hc). reflexivity.
    + rewrite (rd_ok _ _ _ _ Hg). cbn [bind]. destruct (parent_step _ _ Hg Hl) as [Hpo _]. rewrite Hpo.
      apply N.eqb_neq in Hp. rewrite Hp. apply IH; lia.
Qed.

(** ---- Find ---- *)
Theorem Find_spec scope e : live t scope -> live t 0 ->
  Find t scope e = Ok (enc_result (resolve g nm scope e)).
Proof.
  intros Hlive Hroot. unfold Find, resolve.
  destruct e as [|b0 rest]; [reflexivity|].
  assert (Hsv : scope <> InvalidIndex).
  { destruct Hlive as (so & Hg & _). eapply (R_pos_not_Inv t g HR); eauto. }
  apply N.eqb_neq in Hsv. rewrite Hsv.
  destruct (b0 =? 0x5c) eqn:E1.
  { destruct rest as [|b1 rest]; [reflexivity|]. apply findRelative_spec. exact Hroot. }
  destruct (b0 =? 0x5e) eqn:E2.
  { apply find_carets_spec. exact Hlive. }
  rewrite amlNameLen_is_4.
  destruct rest as [|b1 [|b2 [|b3 [|b4 rest]]]]; try reflexivity.
  - (* exactly one segment: search upward *)
    destruct Hlive as (so & Hg & Hl). destruct (R_acyc _ _ HR _ _ Hg Hl) as (k & Hd).
    pose proof (Depth_bound _ _ Hd) as Hk.
    apply find_upward_spec with (k := k); auto.
    + unfold chain_fuel. lia.
    + rewrite (R_len _ _ HR). lia.
  - (* more than four bytes *)
    assert (Hlen : (4 <? N.of_nat (length (b0 :: b1 :: b2 :: b3 :: b4 :: rest))) = true).
    { apply N.ltb_lt. cbn [length]. lia. }
    rewrite Hlen. apply findRelative_spec. exact Hlive.
Qed.

Corollary Find_total scope e : live t scope -> live t 0 ->
  Find t scope e <> Panic /\ Find t scope e <> OutOfFuel.
Proof. intros H1 H2. rewrite (Find_spec scope e H1 H2). split; discriminate. Qed.


(** ---- what a lookup returns is a live object ---- *)
Lemma walk_live : forall names scope r, live t scope -> walk g nm scope names = Some r -> live t r.
Proof.
  induction names as [|n names IH]; intros scope r Hl H; cbn [walk] in H.
  - inversion H; subst; auto.
  - destruct (lookup g nm scope n) as [c|] eqn:El; [|discriminate].
    destruct (lookup_live _ _ _ El) as (_ & co & Hc & Hcl). eapply IH; [|exact H]. exists co; auto.
Qed.

Lemma resolve_rel_live scope e r : live t scope -> resolve_rel g nm scope e = Some r -> live t r.
Proof.
  unfold resolve_rel. intros Hl H. destruct (segments false e); [|discriminate]. eapply walk_live; eauto.
Qed.

Lemma parent_of_live scope p : live t scope -> parent_of g scope = Some p -> live t p.
Proof.
  intros (so & Hg & Hl) H. destruct (parent_step _ _ Hg Hl) as [Hpo Hpl]. rewrite Hpo in H.
  destruct (N.eqb_spec (o_parent so) InvalidIndex); [discriminate|]. inversion H; subst. auto.
Qed.

Lemma carets_live : forall e scope r, live t scope -> carets g nm scope e = Some r -> live t r.
Proof.
  induction e as [|b rest IH]; intros scope r Hl H; cbn [carets] in H.
  - inversion H; subst; auto.
  - destruct (b =? 0x5e).
    + destruct (parent_of g scope) as [p|] eqn:Ep; [|discriminate]. eapply IH; [|exact H].
      eapply parent_of_live; eauto.
    + eapply resolve_rel_live; eauto.
Qed.

Lemma search_up_live seg : forall fuel scope r, live t scope -> search_up g nm fuel scope seg = Some r -> live t r.
Proof.
  induction fuel as [|fuel IH]; intros scope r Hl H; cbn [search_up] in H; [discriminate|].
  destruct (lookup g nm scope seg) as [c|] eqn:El.
  - inversion H; subst. destruct (lookup_live _ _ _ El) as (_ & co & Hc & Hcl). exists co; auto.
  - destruct (parent_of g scope) as [p|] eqn:Ep; [|discriminate]. eapply IH; [|exact H].
    eapply parent_of_live; eauto.
Qed.

Lemma resolve_live scope e r : live t scope -> live t 0 -> resolve g nm scope e = Some r -> live t r.
Proof.
  intros Hl H0 H. unfold resolve in H. destruct e as [|b0 rest]; [discriminate|].
  destruct (b0 =? 0x5c); [exact (resolve_rel_live 0 _ _ H0 H)|].
  destruct (b0 =? 0x5e); [exact (carets_live _ scope _ Hl H)|].
  destruct rest as [|b1 [|b2 [|b3 [|b4 rest]]]]; try discriminate.
  - exact (search_up_live _ _ scope _ Hl H).
  - destruct (4 <? N.of_nat (length (b0 :: b1 :: b2 :: b3 :: b4 :: rest))); [|discriminate].
    exact (resolve_rel_live scope _ _ Hl H).
Qed.

Theorem Find_result_live scope e r : live t scope -> live t 0 ->
  Find t scope e = Ok r -> r = InvalidIndex \/ live t r.
Proof.
  intros Hl H0 H. rewrite (Find_spec scope e Hl H0) in H. inversion H as [E]. clear H.
  destruct (resolve g nm scope e) as [r'|] eqn:Er; cbn [enc_result] in *.
  - right. exact (resolve_live scope e r' Hl H0 Er).
  - left. reflexivity.
Qed.

(** ---- no link of a live object leads to a freed or missing slot ---- *)
Lemma chain_links_in p : forall l prev nxt x ox, chain t p prev l nxt -> In x l -> get t x = Some ox ->
  (o_prev ox = prev \/ In (o_prev ox) l) /\ (o_next ox = nxt \/ In (o_next ox) l).
Proof.
  induction l as [|c l IH]; intros prev nxt x ox Hc Hin Hg; [contradiction|].
  destruct Hc as [(oc & Hgc & _ & _ & Hpv & Hnx) Hc].
  destruct (N.eq_dec x c) as [->|Hne].
  - assert (ox = oc) by congruence. subst ox. split; [left; auto|].
    destruct l as [|c' l']; cbn [hd] in Hnx; [left; auto|right; right; left; auto].
  - destruct Hin as [E|Hin]; [congruence|]. destruct (IH c nxt x ox Hc Hin Hg) as [[A|A] [B|B]].
    + split; [right; left; auto|left; auto].
    + split; [right; left; auto|right; right; auto].
    + split; [right; right; auto|left; auto].
    + split; right; right; auto.
Qed.

Lemma In_kids_live p c : In c (kids g p) -> live t c.
Proof. intros H. destruct (R_In_kids t g HR _ _ H) as (_ & co & Hc & Hl & _). exists co; auto. Qed.

Theorem links_live i o : get t i = Some o -> o_opcode o <> opFreed ->
  forall l, In l [o_parent o; o_prev o; o_next o; o_first o; o_last o] -> l = InvalidIndex \/ live t l.
Proof.
  intros Hg Hl.
  destruct (R_kids _ _ HR _ _ Hg Hl) as (Hf & Hla & _ & _).
  assert (Hfirst : o_first o = InvalidIndex \/ live t (o_first o)).
  { rewrite Hf. destruct (kids g i) as [|c l] eqn:E; [left; reflexivity|right].
    apply (In_kids_live i). rewrite E. left. reflexivity. }
  assert (Hlast : o_last o = InvalidIndex \/ live t (o_last o)).
  { rewrite Hla. destruct (kids g i) as [|c l] eqn:E; [left; reflexivity|right].
    apply (In_kids_live i). rewrite E. apply last_In. }
  pose proof (R_up _ _ HR _ _ Hg Hl) as Hup.
  assert (Hrest : (o_parent o = InvalidIndex \/ live t (o_parent o)) /\
                  (o_prev o = InvalidIndex \/ live t (o_prev o)) /\
                  (o_next o = InvalidIndex \/ live t (o_next o))).
  { destruct (N.eqb_spec (o_parent o) InvalidIndex) as [E|E].
    - destruct Hup as [A B]. auto.
    - destruct (R_parent_live t g HR _ _ Hg Hl E) as (Hin & po & Hpo & Hpl).
      split; [right; exists po; auto|].
      destruct (R_kids _ _ HR _ _ Hpo Hpl) as (_ & _ & Hc & _).
      destruct (chain_links_in _ _ _ _ _ _ Hc Hin Hg) as [[A|A] [B|B]]; split; auto;
        right; eapply In_kids_live; eauto. }
  destruct Hrest as (A & B & C).
  intros l [<-|[<-|[<-|[<-|[<-|[]]]]]]; auto.
Qed.

Lemma ObjectAt_freed i o : get t i = Some o -> o_opcode o = opFreed -> ObjectAt t i = None.
Proof.
  intros Hg Hf. unfold ObjectAt. destruct (pool_len t <=? i); [reflexivity|].
  unfold get in Hg. rewrite Hg. apply N.eqb_eq in Hf. rewrite Hf. reflexivity.
Qed.

(** ---- NumArgs / ArgAt read the child list ---- *)
Lemma numArgs_go_chain p : forall l prev fuel cnt,
  chain t p prev l InvalidIndex -> (length l < fuel)%nat -> cnt + N.of_nat (length l) < two32 ->
  numArgs_go fuel t (hd InvalidIndex l) cnt = Ok (cnt + N.of_nat (length l)).
Proof.
  induction l as [|c l IH]; intros prev fuel cnt Hc Hf Hb.
  - destruct fuel; [cbn in Hf; lia|]. cbn [numArgs_go hd length]. rewrite N.eqb_refl. f_equal. lia.
  - destruct fuel; [cbn in Hf; lia|]. cbn [hd numArgs_go].
    destruct Hc as [(oc & Hg & Hl & _ & _ & Hn) Hc].
    assert (Hcv : c <> InvalidIndex) by (eapply (R_pos_not_Inv t g HR); eauto).
    apply N.eqb_neq in Hcv. rewrite Hcv.
    erewrite ObjectAt_deref_live; [| apply (R_bound _ _ HR) | exact Hg | exact Hl]. cbn [bind].
    rewrite (rd_ok _ _ _ _ Hg). cbn [bind]. rewrite Hn.
    cbn [length] in Hb. rewrite w32_small by lia.
    rewrite (IH c); auto; cbn [length] in *; try lia. f_equal. lia.
Qed.

Theorem NumArgs_spec p : live t p -> NumArgs t (Some p) = Ok (N.of_nat (length (kids g p))).
Proof.
  intros (po & Hg & Hl). unfold NumArgs. rewrite (rd_ok _ _ _ _ Hg). cbn [bind].
  destruct (R_kids _ _ HR _ _ Hg Hl) as (Hf & _ & Hc & _). rewrite Hf.
  pose proof (kids_length p) as Hk. pose proof (R_bound _ _ HR) as Hb. pose proof Inv_lt_two32.
  erewrite numArgs_go_chain; eauto.
  - unfold chain_fuel. lia.
  - lia.
Qed.

Lemma argAt_go_chain p index : forall l prev fuel a,
  chain t p prev l InvalidIndex -> (length l < fuel)%nat -> a + N.of_nat (length l) < two32 -> a <= index ->
  argAt_go fuel t a (hd InvalidIndex l) index = Ok (nth_error l (N.to_nat (index - a))).
Proof.
  induction l as [|c l IH]; intros prev fuel a Hc Hf Hb Ha.
  - destruct fuel; [cbn in Hf; lia|]. cbn [argAt_go hd]. rewrite N.eqb_refl.
    destruct (N.to_nat (index - a)); reflexivity.
  - destruct fuel; [cbn in Hf; lia|]. cbn [hd argAt_go].
    destruct Hc as [(oc & Hg & Hl & _ & _ & Hn) Hc].
    assert (Hcv : c <> InvalidIndex) by (eapply (R_pos_not_Inv t g HR); eauto).
    apply N.eqb_neq in Hcv. rewrite Hcv.
    destruct (N.eqb_spec a index) as [E|E].
    + subst a. rewrite N.sub_diag. cbn [N.to_nat nth_error].
      erewrite ObjectAt_live; [reflexivity | apply (R_bound _ _ HR) | exact Hg | exact Hl].
    + erewrite ObjectAt_deref_live; [| apply (R_bound _ _ HR) | exact Hg | exact Hl]. cbn [bind].
      rewrite (rd_ok _ _ _ _ Hg). cbn [bind]. rewrite Hn.
      cbn [length] in Hb. rewrite w32_small by lia.
      rewrite (IH c); auto; cbn [length] in *; try lia.
      replace (N.to_nat (index - a)) with (S (N.to_nat (index - (a + 1)))) by lia. reflexivity.
Qed.

Theorem ArgAt_spec p index : live t p ->
  ArgAt t (Some p) index = Ok (nth_error (kids g p) (N.to_nat index)).
Proof.
  intros (po & Hg & Hl). unfold ArgAt. rewrite (rd_ok _ _ _ _ Hg). cbn [bind].
  destruct (R_kids _ _ HR _ _ Hg Hl) as (Hf & _ & Hc & _). rewrite Hf.
  pose proof (kids_length p) as Hk. pose proof (R_bound _ _ HR) as Hb. pose proof Inv_lt_two32.
  erewrite argAt_go_chain; eauto.
  - rewrite N.sub_0_r. reflexivity.
  - unfold chain_fuel. lia.
  - lia.
  - lia.
Qed.

Theorem freed_unreachable :
  (forall i o, get t i = Some o -> o_opcode o <> opFreed ->
     forall l, In l [o_parent o; o_prev o; o_next o; o_first o; o_last o] -> l = InvalidIndex \/ live t l) /\
  (forall i o, get t i = Some o -> o_opcode o = opFreed -> ObjectAt t i = None /\ kids g i = [] /\
     forall p, ~ In i (kids g p)).
Proof.
  split.
  - exact links_live.
  - intros i o Hg Hf. split; [exact (ObjectAt_freed i o Hg Hf)|]. split; [exact (proj1 (R_freed t g HR i o Hg Hf))|].
    intros p Hin. destruct (R_In_kids t g HR p i Hin) as (_ & co & Hc & Hl & _). congruence.
Qed.

Theorem numargs_argat p index : live t p ->
  NumArgs t (Some p) = Ok (N.of_nat (length (kids g p))) /\
  ArgAt t (Some p) index = Ok (nth_error (kids g p) (N.to_nat index)).
Proof. intros Hl. split; [exact (NumArgs_spec p Hl) | exact (ArgAt_spec p index Hl)]. Qed.

End FindProofs.
