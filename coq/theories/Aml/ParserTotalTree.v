(** C12 (stretch): tree-level lemmas for the panic-freedom proof of the first pass.

    On top of C13's relation [R] between the pool and the ghost forest (Aml/TreeSpec.v) and the
    per-edit lemmas of Aml/TreeProofsOps.v:
      - [R_ext2]: writes that keep the links and the freed / not-freed status of every object keep [R];
      - [gext g0 g]: the forest [g] extends [g0] the way the first pass extends it (objects stay live,
        objects of [g0] get no new parent, child lists only grow), with the consequence used for the
        legality of every append: an object created after [g0] has no descendant among the objects of [g0];
      - the shape of the object returned by [newObject], and the frame (payload fields untouched) of
        [append] / [appendAfter]. *)
From Coq Require Import NArith Arith List Bool Lia.
From Coq Require Import ZifyBool ZifyN ZifyNat.
From FF Require Import Lib.Word Gen.Consts_aml_tree Aml.Stream Aml.Tree Aml.TreeSpec Aml.TreeProofs Aml.TreeProofsOps.
Import ListNotations.
Local Open Scope N_scope.

(** ---- writes that leave the links alone ---- *)
Definition lk_eq {V} (o o' : Object V) : Prop :=
  (o_opcode o' = opFreed <-> o_opcode o = opFreed) /\ o_index o' = o_index o /\ o_parent o' = o_parent o /\
  o_prev o' = o_prev o /\ o_next o' = o_next o /\ o_first o' = o_first o /\ o_last o' = o_last o.

Lemma lk_eq_refl {V} (o : Object V) : lk_eq o o.
Proof. unfold lk_eq. tauto. Qed.

Lemma node_frame2 {V} (t t' : ObjectTree V) c p pv nx :
  (forall o, get t c = Some o -> exists o', get t' c = Some o' /\ lk_eq o o') ->
  node t c p pv nx -> node t' c p pv nx.
Proof.
  intros H (o & Hg & Hl & Hp & Hpv & Hn). destruct (H o Hg) as (o' & Hg' & E1 & E2 & E3 & E4 & E5 & _).
  exists o'. split; [exact Hg'|]. split; [intros Hf; apply Hl, E1, Hf|]. repeat split; congruence.
Qed.

Lemma chain_frame2 {V} (t t' : ObjectTree V) p prev l nxt :
  (forall c o, In c l -> get t c = Some o -> exists o', get t' c = Some o' /\ lk_eq o o') ->
  chain t p prev l nxt -> chain t' p prev l nxt.
Proof.
  revert prev; induction l as [|c l IH]; intros prev H; simpl; auto.
  intros [Hn Hc]. split.
  - eapply node_frame2; eauto. intros o Ho. apply (H c o); simpl; auto.
  - apply IH; auto. intros c' o' Hin. apply H. simpl; auto.
Qed.

Lemma fchain_frame3 {V} (t T : ObjectTree V) h l :
  (forall x o, In x l -> get t x = Some o -> exists o', get T x = Some o' /\ lk_eq o o') ->
  fchain t h l -> fchain T h l.
Proof.
  revert h; induction l as [|y l IH]; intros h H; cbn [fchain]; auto.
  intros (-> & o & Hg & Hf & Hc). split; auto.
  destruct (H y o (or_introl eq_refl) Hg) as (o' & Hg' & E1 & _ & _ & _ & E5 & _).
  exists o'. split; auto. split; [apply E1; exact Hf|]. rewrite E5. apply IH; auto.
  intros x ox Hx. apply H. right; auto.
Qed.

Lemma R_ext2 {V} (t T : ObjectTree V) g :
  R t g -> length (t_pool T) = length (t_pool t) -> t_free T = t_free t ->
  (forall i o, get t i = Some o -> exists o', get T i = Some o' /\ lk_eq o o') ->
  R T g.
Proof.
  intros HR Hlen Hfree H.
  assert (Hinv : forall i o', get T i = Some o' -> exists o, get t i = Some o /\ lk_eq o o').
  { intros i o' Hg. pose proof (get_lt _ _ _ Hg) as Hlt. rewrite Hlen in Hlt.
    destruct (get_some _ _ Hlt) as (o & Ho). destruct (H _ _ Ho) as (o2 & Hg2 & E).
    assert (o2 = o') by congruence. subst. eauto. }
  constructor.
  - rewrite Hlen. apply (R_len _ _ HR).
  - rewrite Hlen. apply (R_bound _ _ HR).
  - intros i o' Hg. destruct (Hinv _ _ Hg) as (o & Ho & _ & E & _). rewrite E. eapply R_index; eauto.
  - intros i o' Hg Hl. destruct (Hinv _ _ Hg) as (o & Ho & E1 & E2 & E3 & E4 & E5 & E6 & E7).
    assert (Hl0 : o_opcode o <> opFreed) by (intros Hf; apply Hl, E1, Hf).
    destruct (R_kids _ _ HR _ _ Ho Hl0) as (F & L & C & N0).
    rewrite E6, E7. repeat split; auto. eapply chain_frame2; [|exact C]. intros c oc _ Hgc. auto.
  - intros i o' Hg Hl. destruct (Hinv _ _ Hg) as (o & Ho & E1 & E2 & E3 & E4 & E5 & E6 & E7).
    assert (Hl0 : o_opcode o <> opFreed) by (intros Hf; apply Hl, E1, Hf).
    rewrite E3, E4, E5. eapply R_up; eauto.
  - intros i o' Hg Hf. destruct (Hinv _ _ Hg) as (o & Ho & E1 & _). apply E1 in Hf. eapply R_freed; eauto.
  - destruct (R_flist _ _ HR) as [Hc Hn]. split; auto. rewrite Hfree.
    eapply fchain_frame3; [|exact Hc]. intros x o _ Hg. auto.
  - intros i o' Hg Hl. destruct (Hinv _ _ Hg) as (o & Ho & E1 & _).
    assert (Hl0 : o_opcode o <> opFreed) by (intros Hf; apply Hl, E1, Hf).
    destruct (R_acyc _ _ HR _ _ Ho Hl0) as (k & Hd). exists k.
    eapply Depth_transfer with (P := fun _ => True); [|exact Hd|exact I].
    intros j oj _ Hgj Hlj. split; auto.
    destruct (H _ _ Hgj) as (oj' & Hgj' & F1 & _ & F3 & _). exists oj'. split; auto. split; auto.
    intros Hf. apply Hlj, F1, Hf.
Qed.

(** a write into one slot that keeps its links *)
Lemma R_tset_lk {V} (t : ObjectTree V) g p f :
  R t g -> (forall o, get t p = Some o -> lk_eq o (f o)) -> R (tset t p f) g.
Proof.
  intros HR Hf. apply R_ext2 with (t := t); auto; [apply tset_len|].
  intros i o Hg. rewrite get_tset. destruct (N.eqb_spec i p) as [->|Hne].
  - rewrite Hg. cbn [option_map]. eexists; split; eauto.
  - exists o. split; auto. apply lk_eq_refl.
Qed.

Lemma wr_inv {V} (t t' : ObjectTree V) p f : wr t p f = Ok t' -> t' = tset t p f /\ exists o, get t p = Some o.
Proof.
  unfold wr. rewrite deref_get. destruct (get t p) as [o|] eqn:E; cbn [bind]; [|discriminate].
  intros H; inversion H. split; eauto.
Qed.

Lemma rd_inv {V} (t : ObjectTree V) p f v : rd t p f = Ok v -> exists o, get t p = Some o /\ v = f o.
Proof.
  unfold rd. rewrite deref_get. destruct (get t p) as [o|] eqn:E; cbn [bind]; [|discriminate].
  intros H; inversion H. eauto.
Qed.

(** ---- the forest only grows ---- *)
Definition gwf (g : ghost) : Prop := forall p c, In c (kids g p) -> glive g p /\ glive g c.

Lemma R_gwf {V} (t : ObjectTree V) g : R t g -> gwf g.
Proof.
  intros HR p c Hin. destruct (R_In_kids t g HR _ _ Hin) as ((po & Hp & Hlp) & co & Hc & Hlc & _).
  split; apply (R_live_glive t g HR); [exists po|exists co]; auto.
Qed.

Record gext (g0 g : ghost) : Prop := mkGext {
  ge_live : forall x, glive g0 x -> glive g x;
  ge_old : forall p c, In c (kids g p) -> glive g0 c -> In c (kids g0 p);
  ge_kids : forall p c, In c (kids g0 p) -> In c (kids g p)
}.

Lemma gext_refl g : gext g g.
Proof. constructor; auto. Qed.

Lemma gext_trans g0 g1 g2 : gext g0 g1 -> gext g1 g2 -> gext g0 g2.
Proof.
  intros [A1 A2 A3] [B1 B2 B3]. constructor; auto.
Qed.

(** an object created after [g0] has no descendant among the objects of [g0] *)
Lemma nodesc g0 g a x : gwf g0 -> gext g0 g -> ~ glive g0 a -> glive g0 x -> ~ desc g a x.
Proof.
  intros Hwf Hext Hna Hx Hd. revert Hx. induction Hd as [|p c Hd IH Hin]; intros Hx.
  - contradiction.
  - apply IH. pose proof (ge_old _ _ Hext _ _ Hin Hx) as Hin0. apply (Hwf _ _ Hin0).
Qed.

(** a root of [g0] is still a root *)
Lemma groot_ext g0 g x : gext g0 g -> glive g0 x -> groot g0 x -> groot g x.
Proof. intros Hext Hl Hr p Hin. apply (Hr p). eapply ge_old; eauto. Qed.

Lemma kids_free_irrel k f f' i : kids (mkGhost k f) i = kids (mkGhost k f') i.
Proof. reflexivity. Qed.

Lemma gext_new g opc th : gext g (astep g (OpNew opc th)).
Proof.
  cbn [astep]. destruct (g_free g) as [|x rest] eqn:Ef.
  - constructor.
    + intros y [Hlt Hnin]. split; cbn [g_kids g_free]; [rewrite app_length; cbn [length]; lia|auto].
    + intros p c. rewrite kids_app_nil. auto.
    + intros p c. rewrite kids_app_nil. auto.
  - constructor.
    + intros y [Hlt Hnin]. split; cbn [g_kids g_free]; auto. rewrite Ef in Hnin. intros Hin. apply Hnin. right; auto.
    + intros p c. auto.
    + intros p c. auto.
Qed.

Lemma gext_append g o a : o < N.of_nat (length (g_kids g)) ->
  forall g0, gext g0 g -> ~ glive g0 a -> gext g0 (astep g (OpAppend o a)).
Proof.
  intros Ho g0 [A1 A2 A3] Hna. cbn [astep]. constructor.
  - intros x Hx. destruct (A1 _ Hx) as [Hlt Hnin]. split; [rewrite set_kids_len; auto|rewrite set_kids_free; auto].
  - intros p c. rewrite kids_set_kids by auto. destruct (N.eqb_spec p o) as [->|Hne]; auto.
    intros Hin Hl. apply in_app_or in Hin. destruct Hin as [Hin|[E|[]]]; [auto|subst c; contradiction].
  - intros p c Hin. rewrite kids_set_kids by auto. destruct (N.eqb_spec p o) as [->|Hne]; auto.
    apply in_or_app. left; auto.
Qed.

Lemma In_insert_after n a l x : In x (insert_after n a l) -> In x l \/ x = a.
Proof.
  induction l as [|y l IH]; cbn [insert_after]; auto.
  destruct (y =? n).
  - intros [<-|[<-|H]]; cbn; auto.
  - intros [<-|H]; cbn; auto. destruct (IH H); auto.
Qed.

Lemma In_insert_after_old n a l x : In x l -> In x (insert_after n a l).
Proof.
  induction l as [|y l IH]; cbn [insert_after]; auto.
  destruct (y =? n); intros [<-|H]; cbn; auto.
Qed.

Lemma gext_appendAfter g o a n : o < N.of_nat (length (g_kids g)) ->
  forall g0, gext g0 g -> ~ glive g0 a -> gext g0 (astep g (OpAppendAfter o a n)).
Proof.
  intros Ho g0 [A1 A2 A3] Hna. cbn [astep]. constructor.
  - intros x Hx. destruct (A1 _ Hx) as [Hlt Hnin]. split; [rewrite set_kids_len; auto|rewrite set_kids_free; auto].
  - intros p c. rewrite kids_set_kids by auto. destruct (N.eqb_spec p o) as [->|Hne]; auto.
    intros Hin Hl. apply In_insert_after in Hin. destruct Hin as [Hin | ->]; auto. contradiction.
  - intros p c Hin. rewrite kids_set_kids by auto. destruct (N.eqb_spec p o) as [->|Hne]; auto.
    apply In_insert_after_old; auto.
Qed.

(** ---- the new object ---- *)
Definition new_slot {V} (t : ObjectTree V) (g : ghost) : N :=
  match g_free g with [] => N.of_nat (length (t_pool t)) | x :: _ => x end.

Lemma new_slot_fresh {V} (t : ObjectTree V) g opc th :
  R t g ->
  let p := new_slot t g in let g' := astep g (OpNew opc th) in
  ~ glive g p /\ glive g' p /\ kids g' p = [] /\ groot g' p.
Proof.
  intros HR p g'. subst p g'. unfold new_slot. cbn [astep].
  destruct (R_flist _ _ HR) as [Hfc Hnd].
  destruct (g_free g) as [|x rest] eqn:Ef.
  - assert (Hk : kids g (N.of_nat (length (t_pool t))) = []) by (apply kids_oob; rewrite (R_len _ _ HR); lia).
    split; [|split; [|split]].
    + intros [Hlt _]. rewrite (R_len _ _ HR) in Hlt. lia.
    + split; cbn [g_kids g_free]; auto. rewrite app_length, (R_len _ _ HR). cbn [length]. lia.
    + rewrite kids_app_nil. exact Hk.
    + intros q. rewrite kids_app_nil. intros Hin.
      destruct (R_In_kids t g HR _ _ Hin) as (_ & co & Hc & _). apply get_lt in Hc. lia.
  - destruct (fchain_In _ _ _ x Hfc (or_introl eq_refl)) as (xo & Hx & Hxf).
    split; [|split; [|split]].
    + intros [_ Hnin]. apply Hnin. rewrite Ef. left; auto.
    + split; cbn [g_kids g_free]. * rewrite (R_len _ _ HR). eapply get_lt; eauto.
      * inversion Hnd; auto.
    + change (kids g x = []). apply (R_freed _ _ HR _ _ Hx Hxf).
    + intros q Hin. change (In x (kids g q)) in Hin.
      destruct (R_In_kids t g HR _ _ Hin) as (_ & co & Hc & Hl & _). congruence.
Qed.

Lemma newObject_shape {V} (t t' : ObjectTree V) opc th p :
  newObject t opc th = Ok (t', p) ->
  (exists po, get t' p = Some po /\ o_opcode po = opc /\ pOpcodeTableIndex opc true = Ok (o_infoIndex po) /\
              o_tableHandle po = th /\ o_value po = None) /\
  (forall i o, i <> p -> get t i = Some o -> get t' i = Some o) /\
  (forall i o, i <> p -> get t' i = Some o -> get t i = Some o) /\
  (length (t_pool t') <= S (length (t_pool t)))%nat /\ (length (t_pool t) <= length (t_pool t'))%nat.
Proof.
  unfold newObject. destruct (t_free t =? InvalidIndex) eqn:Efr; cbn [bind].
  - destruct (pOpcodeTableIndex opc true) as [info| |] eqn:Ei; cbn [bind]; try discriminate.
    set (t1 := mkTree (t_pool t ++ [blank_object (pool_len t)]) (t_free t)).
    assert (G1 : get t1 (N.of_nat (length (t_pool t))) = Some (blank_object (pool_len t))).
    { unfold get, t1. cbn [t_pool]. rewrite Nat2N.id, nth_error_app2 by lia. rewrite Nat.sub_diag. reflexivity. }
    rewrite (wr_ok _ _ _ _ G1). cbn [bind]. intros H; inversion H; subst t' p; clear H.
    split; [|split; [|split; [|split]]].
    + eexists. rewrite get_tset, N.eqb_refl, G1. cbn [option_map]. split; [reflexivity|]. cbn. auto.
    + intros i o Hne Hg. rewrite get_tset. apply N.eqb_neq in Hne. rewrite Hne.
      unfold get, t1. cbn [t_pool]. rewrite nth_error_app1; auto. apply nth_error_Some. unfold get in Hg. congruence.
    + intros i o Hne Hg. rewrite get_tset in Hg. pose proof Hne as Hne'. apply N.eqb_neq in Hne. rewrite Hne in Hg.
      unfold get, t1 in Hg. cbn [t_pool] in Hg. unfold get.
      assert (Hlt : (N.to_nat i < length (t_pool t ++ [blank_object (pool_len t)]))%nat) by (apply nth_error_Some; congruence).
      rewrite app_length in Hlt. cbn [length] in Hlt.
      rewrite nth_error_app1 in Hg; auto. lia.
    + rewrite tset_len. unfold t1. cbn [t_pool]. rewrite app_length. cbn [length]. lia.
    + rewrite tset_len. unfold t1. cbn [t_pool]. rewrite app_length. cbn [length]. lia.
  - rewrite deref_get. destruct (get t (t_free t)) as [fo|] eqn:Ef; cbn [bind]; try discriminate.
    destruct (pOpcodeTableIndex opc true) as [info| |] eqn:Ei; cbn [bind]; try discriminate.
    set (t1 := mkTree (t_pool t) (o_next fo)).
    assert (G1 : get t1 (t_free t) = Some fo) by exact Ef.
    rewrite (wr_ok _ _ _ _ G1). cbn [bind]. intros H; inversion H; subst t' p; clear H.
    split; [|split; [|split; [|split]]].
    + eexists. rewrite get_tset, N.eqb_refl, G1. cbn [option_map]. split; [reflexivity|]. cbn. auto.
    + intros i o Hne Hg. rewrite get_tset. apply N.eqb_neq in Hne. rewrite Hne. exact Hg.
    + intros i o Hne Hg. rewrite get_tset in Hg. apply N.eqb_neq in Hne. rewrite Hne in Hg. exact Hg.
    + rewrite tset_len. unfold t1. cbn [t_pool]. lia.
    + rewrite tset_len. unfold t1. cbn [t_pool]. lia.
Qed.

(** ---- payload frames ---- *)
Definition pay_eq {V} (o o' : Object V) : Prop :=
  o_opcode o' = o_opcode o /\ o_infoIndex o' = o_infoIndex o /\ o_tableHandle o' = o_tableHandle o /\
  o_name o' = o_name o /\ o_index o' = o_index o /\ o_amlOffset o' = o_amlOffset o /\ o_pkgEnd o' = o_pkgEnd o /\
  o_value o' = o_value o.

Definition pframe {V} (t t' : ObjectTree V) : Prop :=
  length (t_pool t') = length (t_pool t) /\
  forall i o, get t i = Some o -> exists o', get t' i = Some o' /\ pay_eq o o'.

Lemma pay_eq_refl {V} (o : Object V) : pay_eq o o.
Proof. unfold pay_eq. tauto. Qed.

Lemma pframe_refl {V} (t : ObjectTree V) : pframe t t.
Proof. split; auto. intros i o H. exists o. split; auto. apply pay_eq_refl. Qed.

Lemma pframe_trans {V} (t1 t2 t3 : ObjectTree V) : pframe t1 t2 -> pframe t2 t3 -> pframe t1 t3.
Proof.
  intros [L1 H1] [L2 H2]. split; [congruence|]. intros i o Hg.
  destruct (H1 _ _ Hg) as (o' & Hg' & E). destruct (H2 _ _ Hg') as (o'' & Hg'' & E').
  exists o''. split; auto. unfold pay_eq in *. intuition congruence.
Qed.

Definition pay_setter {V} (f : Object V -> Object V) : Prop := forall o, pay_eq o (f o).

Lemma pframe_tset {V} (t : ObjectTree V) p f : pay_setter f -> pframe t (tset t p f).
Proof.
  intros Hf. split; [apply tset_len|]. intros i o Hg. rewrite get_tset, Hg. cbn [option_map].
  destruct (i =? p); eexists; split; eauto. apply pay_eq_refl.
Qed.

Lemma pframe_wr {V} (t t' : ObjectTree V) p f : pay_setter f -> wr t p f = Ok t' -> pframe t t'.
Proof. intros Hf H. destruct (wr_inv _ _ _ _ H) as [-> _]. apply pframe_tset; auto. Qed.

Lemma ps_parent {V} v : @pay_setter V (set_parent v). Proof. intros o. repeat split. Qed.
Lemma ps_prev {V} v : @pay_setter V (set_prev v). Proof. intros o. repeat split. Qed.
Lemma ps_next {V} v : @pay_setter V (set_next v). Proof. intros o. repeat split. Qed.
Lemma ps_first {V} v : @pay_setter V (set_first v). Proof. intros o. repeat split. Qed.
Lemma ps_last {V} v : @pay_setter V (set_last v). Proof. intros o. repeat split. Qed.
#[global] Hint Resolve ps_parent ps_prev ps_next ps_first ps_last : ps.

Lemma bind_ok {A B} (o : outcome A) (f : A -> outcome B) b :
  bind o f = Ok b -> exists a, o = Ok a /\ f a = Ok b.
Proof. destruct o; cbn [bind]; try discriminate. eauto. Qed.

(** peel the binds of a tree operation, collecting the frames of the writes *)
Ltac pf_step :=
  match goal with
  | H : bind (wr ?t ?p ?f) _ = Ok _ |- _ =>
      let t1 := fresh "t" in let H1 := fresh "W" in let H2 := fresh "K" in
      apply bind_ok in H; destruct H as (t1 & H1 & H2);
      apply pframe_wr in H1; [|auto with ps]
  | H : bind _ _ = Ok _ |- _ =>
      let a := fresh "a" in let H1 := fresh "B" in let H2 := fresh "K" in
      apply bind_ok in H; destruct H as (a & H1 & H2); clear H1
  | H : (if ?c then _ else _) = Ok _ |- _ => destruct c
  | H : wr ?t ?p ?f = Ok _ |- _ => apply pframe_wr in H; [|auto with ps]
  end.

Ltac pf_close :=
  repeat match goal with
  | H : pframe ?a ?b |- pframe ?a _ => eapply pframe_trans; [exact H|]; clear H
  end; try apply pframe_refl.

Lemma append_pframe {V} (t t' : ObjectTree V) o a : append t o a = Ok t' -> pframe t t'.
Proof. unfold append. intros H. repeat pf_step; pf_close. Qed.

Lemma appendAfter_pframe {V} (t t' : ObjectTree V) o a n : appendAfter t o a n = Ok t' -> pframe t t'.
Proof.
  unfold appendAfter. intros H. apply bind_ok in H. destruct H as (nx & _ & H).
  destruct (nx =? InvalidIndex); [eapply append_pframe; eauto|].
  repeat pf_step; pf_close.
Qed.

(** ---- append / appendAfter / newObject packaged for the parser proofs ---- *)
Lemma pframe_inv {V} (t t' : ObjectTree V) i o' : pframe t t' -> get t' i = Some o' ->
  exists o, get t i = Some o /\ pay_eq o o'.
Proof.
  intros [L H] Hg. pose proof (get_lt _ _ _ Hg) as Hlt. rewrite L in Hlt.
  destruct (get_some _ _ Hlt) as (o & Ho). destruct (H _ _ Ho) as (o2 & Hg2 & E).
  assert (o2 = o') by congruence. subst. eauto.
Qed.

Lemma glive_set_kids g i l x : glive g x -> glive (set_kids g i l) x.
Proof. intros [H1 H2]. split; [rewrite set_kids_len; auto|rewrite set_kids_free; auto]. Qed.

Lemma glive_lt g x : glive g x -> x < N.of_nat (length (g_kids g)).
Proof. intros [H _]; exact H. Qed.

Lemma append_full {V} (t : ObjectTree V) g g0 o a :
  R t g -> gwf g0 -> gext g0 g -> glive g0 o -> ~ glive g0 a -> glive g a -> groot g a ->
  exists t', append t o a = Ok t' /\ R t' (astep g (OpAppend o a)) /\ pframe t t' /\
             gext g0 (astep g (OpAppend o a)).
Proof.
  intros HR Hwf Hext Hlo Hna Hla Hroot.
  assert (Hlo' : glive g o) by (eapply ge_live; eauto).
  assert (Hnd : ~ desc g a o) by (eapply nodesc; eauto).
  destruct (append_R t g o a HR) as (t' & Ha & HR'); [cbn [legal]; auto|].
  exists t'. split; auto. split; auto. split; [eapply append_pframe; eauto|].
  apply gext_append; auto. apply glive_lt; auto.
Qed.

Lemma appendAfter_full {V} (t : ObjectTree V) g g0 o a n :
  R t g -> gwf g0 -> gext g0 g -> glive g0 o -> ~ glive g0 a -> glive g a -> groot g a -> In n (kids g o) ->
  exists t', appendAfter t o a n = Ok t' /\ R t' (astep g (OpAppendAfter o a n)) /\ pframe t t' /\
             gext g0 (astep g (OpAppendAfter o a n)).
Proof.
  intros HR Hwf Hext Hlo Hna Hla Hroot Hin.
  assert (Hlo' : glive g o) by (eapply ge_live; eauto).
  assert (Hnd : ~ desc g a o) by (eapply nodesc; eauto).
  destruct (appendAfter_R t g o a n HR) as (t' & Ha & HR'); [cbn [legal]; auto|].
  exists t'. split; auto. split; auto. split; [eapply appendAfter_pframe; eauto|].
  apply gext_appendAfter; auto. apply glive_lt; auto.
Qed.

Lemma In_insert_after_new n a l : In n l -> In a (insert_after n a l).
Proof.
  induction l as [|y l IH]; cbn [insert_after]; [tauto|].
  destruct (N.eqb_spec y n) as [->|Hne].
  - intros _. right; left; auto.
  - intros [->|H]; [contradiction|]. right; auto.
Qed.
