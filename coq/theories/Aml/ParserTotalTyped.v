(** C12 (stretch): every pass of ParseAML preserves "each pOpIntNamePathOrMethodCall object carries a []byte value"
    ([typed], the hypothesis of resolveMethodCalls) - a partial-correctness fact, by structural decomposition.
    The only writes of a value that is not a []byte hit an object created just before with another opcode (tracked
    with [Anp]) or an object whose opcode was read just before (parseObjectArgs). *)
From Coq Require Import NArith Arith List Bool Lia.
From FF Require Import Lib.Word Gen.Consts_device_acpi_aml Aml.Stream Aml.Lex Aml.Tree Aml.Parser Aml.TreeSpec Aml.TreeProofs
  Aml.ParserTotalTree Aml.ParserTotalTree2 Aml.ParserTotalBase Aml.ParserTotalLeaf Aml.ParserTotalFrame
  Aml.ParserTotalCalls Aml.ParserTotalDeferM.
Import ListNotations.
Local Open Scope N_scope.

Notation NPC := aml_pOpIntNamePathOrMethodCall.

Definition isbytes (v : option value) : Prop := exists tbl sl, v = Some (VBytes tbl sl).
Definition Anp (p : N) (t : T) : Prop := forall o, tget t p = Some o -> o_opcode o <> NPC.

Lemma isbytes_bytesValue tbl sl : isbytes (Some (bytesValue tbl sl)).
Proof. unfold bytesValue. destruct (s_ptr sl); eexists _, _; reflexivity. Qed.

Lemma npc_not_freed : NPC <> opFreed.
Proof. vm_compute. discriminate. Qed.

Lemma typed_tset2 (t : T) p f : typed t ->
  (forall o, tget t p = Some o -> o_opcode (f o) = NPC -> isbytes (o_value (f o))) -> typed (tset t p f).
Proof.
  intros Ht Hf i o' Hg Hl Hop. rewrite get_tset in Hg. destruct (N.eqb_spec i p) as [->|Hne].
  - destruct (tget t p) as [o|] eqn:E; cbn [option_map] in Hg; [|discriminate]. inversion Hg; subst o'. apply (Hf o eq_refl Hop).
  - apply (Ht i o' Hg Hl Hop).
Qed.

Lemma Anp_tset (t : T) q p f : Anp q t -> (forall o, o_opcode (f o) = o_opcode o \/ o_opcode (f o) <> NPC) -> Anp q (tset t p f).
Proof.
  intros H Hf o' Hg. rewrite get_tset in Hg. destruct (N.eqb_spec q p) as [->|Hne]; [|apply (H o' Hg)].
  destruct (tget t p) as [o|] eqn:E; cbn [option_map] in Hg; [|discriminate]. inversion Hg; subst o'.
  destruct (Hf o) as [Eo|Eo]; [rewrite Eo; apply (H o E)|exact Eo].
Qed.

Lemma typed_back (t t' : T) : typed t ->
  (forall i o', tget t' i = Some o' -> o_opcode o' = NPC -> exists o, tget t i = Some o /\ o_opcode o = NPC /\ o_value o' = o_value o) ->
  typed t'.
Proof.
  intros Ht Hb i o' Hg Hl Hop. destruct (Hb i o' Hg Hop) as (o & Ho & Eo & Ev). rewrite Ev. apply (Ht i o Ho); [rewrite Eo; apply npc_not_freed|exact Eo].
Qed.

Lemma Anp_pframe (t t' : T) q : Anp q t -> pframe t t' -> Anp q t'.
Proof. intros H Hp o' Hg. destruct (pframe_inv _ _ _ _ Hp Hg) as (o & Ho & E1 & _). rewrite E1. apply (H o Ho). Qed.

(** ---- the judgements ---- *)
Definition tyk {A} (m : M A) : Prop := forall s a s', m s = Ok (a, s') -> typed (p_tree s) -> typed (p_tree s').
Definition stepA {A} (p : N) (m : M A) : Prop :=
  forall s a s', m s = Ok (a, s') -> typed (p_tree s) -> Anp p (p_tree s) -> typed (p_tree s') /\ Anp p (p_tree s').
Definition tykA {A} (p : N) (m : M A) : Prop :=
  forall s a s', m s = Ok (a, s') -> typed (p_tree s) -> Anp p (p_tree s) -> typed (p_tree s').

Lemma tyk_notree {A} (m : M A) : notree m -> tyk m.
Proof. intros H s a s' E Ht. rewrite (H _ _ _ E). exact Ht. Qed.
Lemma tyk_ret {A} (a : A) : tyk (ret a).
Proof. apply tyk_notree, notree_ret. Qed.
Lemma tyk_bind {A B} (m : M A) (f : A -> M B) : tyk m -> (forall a, tyk (f a)) -> tyk (bindM m f).
Proof. intros Hm Hf s b s' H Ht. apply bindM_ok in H. destruct H as (a & s1 & E1 & E2). exact (Hf a _ _ _ E2 (Hm _ _ _ E1 Ht)). Qed.
Lemma tyk_if {A} (b : bool) (m1 m2 : M A) : tyk m1 -> tyk m2 -> tyk (if b then m1 else m2).
Proof. destruct b; auto. Qed.
Lemma tyk_fail {A} (m : M A) : (forall s, m s = Panic \/ m s = OutOfFuel) -> tyk m.
Proof. intros H s a s' E. destruct (H s) as [F|F]; rewrite F in E; discriminate. Qed.

Lemma wrf_inv p f s u s' : wrf p f s = Ok (u, s') -> exists o, tget (p_tree s) p = Some o /\ p_tree s' = tset (p_tree s) p f.
Proof.
  unfold wrf, tu. intros H. destruct (wr (p_tree s) p f) as [t'| |] eqn:E; try discriminate. inversion H; subst.
  destruct (wr_inv _ _ _ _ E) as (-> & o & Ho). exists o. split; [exact Ho|reflexivity].
Qed.

Lemma tyk_wrf_keep p f : (forall o, o_opcode (f o) = o_opcode o /\ o_value (f o) = o_value o) -> tyk (wrf p f).
Proof.
  intros Hf s u s' H Ht. destruct (wrf_inv _ _ _ _ _ H) as (o & Ho & ->). apply typed_tset2; [exact Ht|].
  intros o1 Ho1 Hop. destruct (Hf o1) as (E1 & E2). rewrite E2. rewrite E1 in Hop. apply (Ht p o1 Ho1); [rewrite Hop; apply npc_not_freed|exact Hop].
Qed.
Lemma tyk_wrf_bytes p tbl sl : tyk (wrf p (set_value (Some (bytesValue tbl sl)))).
Proof.
  intros s u s' H Ht. destruct (wrf_inv _ _ _ _ _ H) as (o & Ho & ->). apply typed_tset2; [exact Ht|].
  intros o1 _ _. apply isbytes_bytesValue.
Qed.
Lemma tyk_wrf_opcode p x : x <> NPC -> tyk (wrf p (set_opcode x)).
Proof.
  intros Hx s u s' H Ht. destruct (wrf_inv _ _ _ _ _ H) as (o & Ho & ->). apply typed_tset2; [exact Ht|].
  intros o1 _ Hop. exfalso. apply Hx. exact Hop.
Qed.

Lemma newObj_inv opc s p s' : newObj opc s = Ok (p, s') ->
  (exists po, tget (p_tree s') p = Some po /\ o_opcode po = opc /\ o_value po = None) /\
  (forall i o, i <> p -> tget (p_tree s') i = Some o -> tget (p_tree s) i = Some o).
Proof.
  unfold newObj. intros H. destruct (newObject (p_tree s) opc (p_handle s)) as [[t' q]| |] eqn:E; try discriminate.
  inversion H; subst q s'. cbn [p_tree with_tree].
  destruct (newObject_shape _ _ _ _ _ E) as ((po & Hpo & Hpop & _ & _ & Hval) & _ & Hbw & _).
  split; [exists po; auto|exact Hbw].
Qed.

Lemma newObj_typed opc s p s' : opc <> NPC -> newObj opc s = Ok (p, s') -> typed (p_tree s) -> typed (p_tree s') /\ Anp p (p_tree s').
Proof.
  intros Hne H Ht. destruct (newObj_inv _ _ _ _ H) as ((po & Hpo & Hop & _) & Hbw). split.
  - intros i o Hg Hl Hopc. destruct (N.eq_dec i p) as [->|Hip].
    + exfalso. assert (o = po) by congruence. subst o. apply Hne. congruence.
    + apply (Ht i o (Hbw i o Hip Hg) Hl Hopc).
  - intros o Ho. assert (o = po) by congruence. subst o. rewrite Hop. exact Hne.
Qed.

Lemma newObj_Anp opc s p s' q : opc <> NPC -> newObj opc s = Ok (p, s') -> Anp q (p_tree s) -> Anp q (p_tree s').
Proof.
  intros Hne H Hq o Ho. destruct (newObj_inv _ _ _ _ H) as ((po & Hpo & Hop & _) & Hbw).
  destruct (N.eq_dec q p) as [->|Hqp]; [assert (o = po) by congruence; subst o; rewrite Hop; exact Hne|].
  apply (Hq o (Hbw q o Hqp Ho)).
Qed.

Lemma tyk_newObj opc : opc <> NPC -> tyk (newObj opc).
Proof. intros Hne s p s' H Ht. apply (newObj_typed _ _ _ _ Hne H Ht). Qed.

Lemma tu_inv (f : T -> outcome T) s u s' : tu f s = Ok (u, s') -> f (p_tree s) = Ok (p_tree s').
Proof. unfold tu. intros H. destruct (f (p_tree s)) as [t'| |]; try discriminate. inversion H; subst. reflexivity. Qed.

Lemma tyk_tu_pframe (f : T -> outcome T) : (forall t t', f t = Ok t' -> pframe t t') -> tyk (tu f).
Proof. intros Hf s u s' H Ht. eapply typed_pframe; [exact Ht|apply Hf; eapply tu_inv; eauto]. Qed.

Lemma free_typed (t t' : T) x : free t x = Ok t' -> typed t -> typed t'.
Proof.
  unfold free. intros H Ht.
  apply bind_ok in H. destruct H as (par & _ & H).
  apply bind_ok in H. destruct H as (t1 & Ht1 & H).
  assert (T1 : typed t1).
  { destruct (negb (par =? InvalidIndex)).
    - apply bind_ok in Ht1. destruct Ht1 as (pp & _ & Hd). eapply typed_pframe; [exact Ht|eapply detach_pframe; eauto].
    - inversion Ht1; subst. exact Ht. }
  apply bind_ok in H. destruct H as (first & _ & H).
  apply bind_ok in H. destruct H as (lst & _ & H).
  destruct (negb (first =? InvalidIndex) || negb (lst =? InvalidIndex)); [discriminate|].
  apply bind_ok in H. destruct H as (t2 & Ht2 & H). destruct (wr_inv _ _ _ _ Ht2) as (-> & o1 & Ho1).
  apply bind_ok in H. destruct H as (t3 & Ht3 & H). destruct (wr_inv _ _ _ _ Ht3) as (-> & _).
  apply bind_ok in H. destruct H as (oi & _ & H). inversion H; subst t'. clear H.
  intros i o Hg. change (tget (tset (tset t1 x (set_opcode opFreed)) x (set_next (t_free (tset t1 x (set_opcode opFreed))))) i = Some o) in Hg.
  revert i o Hg. apply typed_tset2.
  - apply typed_tset2; [exact T1|]. intros o _ Hop. exfalso. cbn in Hop. apply npc_not_freed. symmetry. exact Hop.
  - intros o Ho Hop. exfalso. rewrite get_tset, N.eqb_refl, Ho1 in Ho. cbn [option_map] in Ho. inversion Ho; subst o.
    cbn in Hop. apply npc_not_freed. symmetry. exact Hop.
Qed.

Lemma tyk_freeM x : tyk (freeM x).
Proof. intros s u s' H Ht. unfold freeM in H. exact (free_typed _ _ x (tu_inv _ _ _ _ H) Ht). Qed.

(** ---- with a tracked object ---- *)
Lemma tykA_drop {A} p (m : M A) : tyk m -> tykA p m.
Proof. intros H s a s' E Ht _. exact (H _ _ _ E Ht). Qed.
Lemma tykA_bind {A B} p (m : M A) (f : A -> M B) : stepA p m -> (forall a, tykA p (f a)) -> tykA p (bindM m f).
Proof.
  intros Hm Hf s b s' H Ht Ha. apply bindM_ok in H. destruct H as (a & s1 & E1 & E2).
  destruct (Hm _ _ _ E1 Ht Ha) as (T1 & A1). exact (Hf a _ _ _ E2 T1 A1).
Qed.
Lemma tykA_if {A} p (b : bool) (m1 m2 : M A) : tykA p m1 -> tykA p m2 -> tykA p (if b then m1 else m2).
Proof. destruct b; auto. Qed.
Lemma tyk_newObj_A {B} opc (f : N -> M B) : opc <> NPC -> (forall p, tykA p (f p)) -> tyk (bindM (newObj opc) f).
Proof.
  intros Hne Hf s b s' H Ht. apply bindM_ok in H. destruct H as (p & s1 & E1 & E2).
  destruct (newObj_typed _ _ _ _ Hne E1 Ht) as (T1 & A1). exact (Hf p _ _ _ E2 T1 A1).
Qed.

Lemma stepA_notree {A} p (m : M A) : notree m -> stepA p m.
Proof. intros H s a s' E Ht Ha. rewrite (H _ _ _ E). auto. Qed.
Lemma stepA_bind {A B} p (m : M A) (f : A -> M B) : stepA p m -> (forall a, stepA p (f a)) -> stepA p (bindM m f).
Proof.
  intros Hm Hf s b s' H Ht Ha. apply bindM_ok in H. destruct H as (a & s1 & E1 & E2).
  destruct (Hm _ _ _ E1 Ht Ha) as (T1 & A1). exact (Hf a _ _ _ E2 T1 A1).
Qed.
Lemma stepA_if {A} p (b : bool) (m1 m2 : M A) : stepA p m1 -> stepA p m2 -> stepA p (if b then m1 else m2).
Proof. destruct b; auto. Qed.
Lemma stepA_fail {A} p (m : M A) : (forall s, m s = Panic \/ m s = OutOfFuel) -> stepA p m.
Proof. intros H s a s' E. destruct (H s) as [F|F]; rewrite F in E; discriminate. Qed.
Lemma stepA_wrf_keep p q f : (forall o, o_opcode (f o) = o_opcode o /\ o_value (f o) = o_value o) -> stepA p (wrf q f).
Proof.
  intros Hf s u s' H Ht Ha. split; [exact (tyk_wrf_keep q f Hf _ _ _ H Ht)|].
  destruct (wrf_inv _ _ _ _ _ H) as (o & Ho & ->). apply Anp_tset; [exact Ha|]. intros o1. left. apply Hf.
Qed.
Lemma stepA_wrf_bytes p q tbl sl : stepA p (wrf q (set_value (Some (bytesValue tbl sl)))).
Proof.
  intros s u s' H Ht Ha. split; [exact (tyk_wrf_bytes q tbl sl _ _ _ H Ht)|].
  destruct (wrf_inv _ _ _ _ _ H) as (o & Ho & ->). apply Anp_tset; [exact Ha|]. intros o1. left. reflexivity.
Qed.
Lemma stepA_wrf_self p v : stepA p (wrf p (set_value v)).
Proof.
  intros s u s' H Ht Ha. destruct (wrf_inv _ _ _ _ _ H) as (o & Ho & ->). split.
  - apply typed_tset2; [exact Ht|]. intros o1 Ho1 Hop. exfalso. apply (Ha o1 Ho1). exact Hop.
  - apply Anp_tset; [exact Ha|]. intros o1. left. reflexivity.
Qed.
Lemma stepA_wrf_opcode p q x : x <> NPC -> stepA p (wrf q (set_opcode x)).
Proof.
  intros Hx s u s' H Ht Ha. split; [exact (tyk_wrf_opcode q x Hx _ _ _ H Ht)|].
  destruct (wrf_inv _ _ _ _ _ H) as (o & Ho & ->). apply Anp_tset; [exact Ha|]. intros o1. right. exact Hx.
Qed.
Lemma stepA_tu_pframe p (f : T -> outcome T) : (forall t t', f t = Ok t' -> pframe t t') -> stepA p (tu f).
Proof.
  intros Hf s u s' H Ht Ha. pose proof (Hf _ _ (tu_inv _ _ _ _ H)) as Hp. split; [eapply typed_pframe; eauto|eapply Anp_pframe; eauto].
Qed.

(** the object parseNamePathOrMethodCall creates in the first pass *)
Lemma tyk_npc {B} off tbl sl (k : N -> M B) : (forall c, tyk (k c)) ->
  tyk (bindM (newObj NPC) (fun c => bindM (wrf c (set_amlOffset off)) (fun _ =>
       bindM (wrf c (set_value (Some (bytesValue tbl sl)))) (fun _ => k c)))).
Proof.
  intros Hk s b s' H Ht. apply bindM_ok in H. destruct H as (c & s1 & E1 & H).
  apply bindM_ok in H. destruct H as (u2 & s2 & E2 & H). apply bindM_ok in H. destruct H as (u3 & s3 & E3 & H).
  apply (Hk c _ _ _ H). destruct (newObj_inv _ _ _ _ E1) as ((po & Hpo & Hop & _) & Hbw).
  destruct (wrf_inv _ _ _ _ _ E2) as (o2 & Ho2 & T2). destruct (wrf_inv _ _ _ _ _ E3) as (o3 & Ho3 & T3).
  rewrite T3, T2. intros i o Hg Hl Hopc. rewrite !get_tset in Hg. destruct (N.eqb_spec i c) as [->|Hne].
  - rewrite Hpo in Hg. cbn [option_map] in Hg. inversion Hg; subst o. apply isbytes_bytesValue.
  - apply (Ht i o (Hbw i o Hne Hg) Hl Hopc).
Qed.

(** after the opcode of an object has been read *)
Lemma tyk_rdf_opcode {B} c (k : N -> M B) : (forall op, op <> NPC -> tykA c (k op)) -> tyk (k NPC) -> tyk (bindM (rdf c o_opcode) k).
Proof.
  intros Hk Hn s b s' H Ht. apply bindM_ok in H. destruct H as (op & s1 & E1 & H).
  unfold rdf, tq in E1. destruct (rd (p_tree s) c o_opcode) as [x| |] eqn:Er; try discriminate. inversion E1; subst x s1. clear E1.
  unfold rd in Er. rewrite deref_get in Er. destruct (tget (p_tree s) c) as [o|] eqn:Eo; cbn [bind] in Er; [|discriminate]. inversion Er; subst op.
  destruct (N.eq_dec (o_opcode o) NPC) as [E|E].
  - rewrite E in H. exact (Hn _ _ _ H Ht).
  - apply (Hk _ E _ _ _ H Ht). intros o' Ho'. assert (o' = o) by congruence. subst o'. exact E.
Qed.

Lemma tyk_lex_op {B} (f : reader -> outcome (N * bool * reader)) (k : N * bool -> M B) :
  (forall r op r', f r = Ok (op, true, r') -> op <> NPC) ->
  (forall op, op <> NPC -> tyk (k (op, true))) -> (forall op, tyk (k (op, false))) -> tyk (bindM (lex f) k).
Proof.
  intros Hf Hk1 Hk2 s b s' H Ht. unfold bindM, lex in H. destruct (f (p_r s)) as [[[op ok] r1]| |] eqn:E; try discriminate.
  destruct ok; [exact (Hk1 op (Hf _ _ _ E) _ _ _ H Ht)|exact (Hk2 op _ _ _ H Ht)].
Qed.

(** ---- automation ---- *)
Ltac keep_side := let o := fresh "o" in intros o; split; reflexivity.

Ltac stepA_prim :=
  first [ (apply stepA_notree; notree_prim2)
        | apply stepA_wrf_self | apply stepA_wrf_bytes
        | (apply stepA_wrf_keep; keep_side)
        | (apply stepA_wrf_opcode; discriminate)
        | (apply stepA_tu_pframe; let t := fresh in let t' := fresh in let E := fresh in intros t t' E;
           first [solve [eapply append_pframe; eauto] | solve [eapply appendAfter_pframe; eauto] | solve [eapply detach_pframe; eauto]]) ].

Ltac stepA_tac :=
  repeat first
    [ stepA_prim | apply stepA_if | (apply stepA_bind; [|intros ?])
    | match goal with |- stepA _ (match ?x with _ => _ end) => destruct x end
    | match goal with |- stepA _ (let '(_, _) := ?x in _) => destruct x end ].

Ltac tyk_prim :=
  first [ (apply tyk_notree; notree_prim2)
        | apply tyk_wrf_bytes
        | (apply tyk_wrf_keep; keep_side)
        | (apply tyk_wrf_opcode; discriminate)
        | apply tyk_freeM
        | (apply tyk_tu_pframe; let t := fresh in let t' := fresh in let E := fresh in intros t t' E;
           first [solve [eapply append_pframe; eauto] | solve [eapply appendAfter_pframe; eauto] | solve [eapply detach_pframe; eauto]]) ].

Ltac ty_unf :=
  unfold rq, offsetM, eofM, curTable, rdf, rdo, objectAt, objectAt', appendM, detachM,
         setOffsetM, pushPkgEnd, bytesOf, scopeCurrent, methodArgCountPanic, streamFuel, fieldByte, poolFuel, setNameFrom.

Lemma tykA_bind_if {A B} p (b : bool) (m1 m2 : M A) (f : A -> M B) :
  tykA p (bindM m1 f) -> tykA p (bindM m2 f) -> tykA p (bindM (if b then m1 else m2) f).
Proof. destruct b; auto. Qed.
Lemma tyk_bind_if {A B} (b : bool) (m1 m2 : M A) (f : A -> M B) :
  tyk (bindM m1 f) -> tyk (bindM m2 f) -> tyk (bindM (if b then m1 else m2) f).
Proof. destruct b; auto. Qed.

Ltac stepA_leaf := fail.

Ltac stepA_all :=
  repeat first
    [ stepA_leaf | stepA_prim | apply stepA_if | (apply stepA_bind; [|intros ?])
    | match goal with |- stepA _ (match ?x with _ => _ end) => destruct x end
    | match goal with |- stepA _ (let '(_, _) := ?x in _) => destruct x end ].

Ltac ty_step :=
  match goal with
  | |- tyk (bindM (newObj aml_pOpIntNamePathOrMethodCall) _) => apply tyk_npc; intros ?
  | |- tyk (bindM (newObj _) _) => apply tyk_newObj_A; [first [discriminate|assumption]|intros ?]
  | |- tyk (bindM (lex nextOpcode) (fun _ => let '(_, _) := _ in _)) =>
      apply tyk_lex_op; [exact nextOpcode_not_npc|intros ? ?; cbv beta iota; cbn [negb]|intros ?; cbv beta iota; cbn [negb]]
  | |- tyk (bindM (lex peekNextOpcode) (fun _ => let '(_, _) := _ in _)) =>
      apply tyk_lex_op; [exact peekNextOpcode_not_npc|intros ? ?; cbv beta iota; cbn [negb]|intros ?; cbv beta iota; cbn [negb]]
  | |- tyk (bindM _ _) => apply tyk_bind; [|intros ?]
  | |- tyk (if _ then _ else _) => apply tyk_if
  | |- tyk (match ?x with _ => _ end) => destruct x
  | |- tyk (let '(_, _) := ?x in _) => destruct x
  | |- tykA _ (bindM (newObj _) _) => apply tykA_drop
  | |- tykA _ (bindM (if _ then _ else _) _) => apply tykA_bind_if
  | |- tykA _ (bindM _ _) => first [ apply tykA_bind; [solve [stepA_all] | intros ?] | apply tykA_drop ]
  | |- tykA _ (if _ then _ else _) => apply tykA_if
  | |- tykA _ (match ?x with _ => _ end) => destruct x
  | |- tykA _ (let '(_, _) := ?x in _) => destruct x
  | |- tykA _ _ => apply tykA_drop
  | |- tyk _ => tyk_prim
  end.

(** ---- the leaves ---- *)
Lemma parseByteList_stepA p obj n : stepA p (parseByteList obj n).
Proof. unfold parseByteList. ty_unf. stepA_all. Qed.

Lemma readName_go_stepA p field cnt : forall i, stepA p (readName_go cnt i field).
Proof. induction cnt as [|cnt IH]; intros i; cbn [readName_go]; ty_unf; stepA_all; apply IH. Qed.

Ltac stepA_leaf ::= first [ apply parseByteList_stepA | apply readName_go_stepA ].

Lemma tyk_of_stepA {A} (m : M A) : (forall p, stepA p m) -> tyk m.
Proof.
  intros H s a s' E Ht. destruct (H (N.of_nat (length (t_pool (p_tree s)))) _ _ _ E Ht) as (T1 & _); [|exact T1].
  intros o Ho. exfalso. unfold TreeSpec.get in Ho. rewrite Nnat.Nat2N.id in Ho.
  assert (Hlt : (length (t_pool (p_tree s)) < length (t_pool (p_tree s)))%nat) by (apply nth_error_Some; rewrite Ho; discriminate). lia.
Qed.

Lemma parseByteList_tyk obj n : tyk (parseByteList obj n).
Proof. apply tyk_of_stepA. intros p. apply parseByteList_stepA. Qed.

Lemma parseSimpleArg_tyk ty : tyk (parseSimpleArg ty).
Proof. unfold parseSimpleArg, simple_num, simple_str. ty_unf. cbv zeta. repeat ty_step. Qed.

Lemma fieldElements_go_tyk fuel : forall curObj f, tyk (fieldElements_go fuel curObj f).
Proof.
  induction fuel as [|fuel IH]; intros curObj f; cbn [fieldElements_go]; [apply tyk_fail; intros; right; reflexivity|].
  ty_unf. repeat first [ apply IH | ty_step ].
Qed.

Lemma parseFieldElements_tyk curObj : tyk (parseFieldElements curObj).
Proof. unfold parseFieldElements. ty_unf. repeat first [ apply fieldElements_go_tyk | ty_step ]. Qed.

(** the nine mutually recursive functions *)
Definition tblock (fuel : nat) : Prop :=
  tyk (parseNextObject fuel) /\ (forall c, tyk (parseObjectArgs fuel c)) /\
  (forall inf c i, tyk (parseArgs fuel inf c i)) /\ (forall inf c ty, tyk (parseArg fuel inf c ty)) /\
  tyk (termList_go fuel) /\ tyk (parseNamePathOrMethodCall fuel) /\ (forall n, tyk (callArgs_go fuel n)) /\
  (forall c, tyk (parseStrictTermArg fuel c)) /\ tyk (parseTarget fuel).

Ltac trec H1 H2 H3 H4 H5 H6 H7 H8 H9 :=
  first [ apply H1 | apply H2 | apply H3 | apply H4 | apply H5 | apply H6 | apply H7 | apply H8 | apply H9
        | apply parseSimpleArg_tyk | apply parseByteList_tyk | apply parseFieldElements_tyk | apply fieldElements_go_tyk ].

Lemma npc_consts :
  (NPC =? aml_pOpBytePrefix) = false /\ (NPC =? aml_pOpWordPrefix) = false /\ (NPC =? aml_pOpDwordPrefix) = false /\
  (NPC =? aml_pOpQwordPrefix) = false /\ (NPC =? aml_pOpStringPrefix) = false.
Proof. vm_compute. repeat split; reflexivity. Qed.

Lemma tblock_all : forall fuel, tblock fuel.
Proof.
  induction fuel as [|fuel (H1 & H2 & H3 & H4 & H5 & H6 & H7 & H8 & H9)].
  - unfold tblock. repeat match goal with |- _ /\ _ => split end; intros; cbn; apply tyk_fail; intros; right; reflexivity.
  - unfold tblock. repeat match goal with |- _ /\ _ => split end; intros.
    + cbn [parseNextObject]. ty_unf. repeat first [ trec H1 H2 H3 H4 H5 H6 H7 H8 H9 | ty_step ].
    + cbn [parseObjectArgs]. apply tyk_rdf_opcode.
      * intros op Hop. ty_unf. repeat first [ trec H1 H2 H3 H4 H5 H6 H7 H8 H9 | ty_step ].
      * destruct npc_consts as (E1 & E2 & E3 & E4 & E5). rewrite E1, E2, E3, E4, E5.
        ty_unf. repeat first [ trec H1 H2 H3 H4 H5 H6 H7 H8 H9 | ty_step ].
    + cbn [parseArgs]. destruct inf as [[? ?] ?]. ty_unf. repeat first [ trec H1 H2 H3 H4 H5 H6 H7 H8 H9 | ty_step ].
    + cbn [parseArg]. destruct inf as [[? ?] ?]. ty_unf. repeat first [ trec H1 H2 H3 H4 H5 H6 H7 H8 H9 | ty_step ].
    + cbn [termList_go]. ty_unf. repeat first [ trec H1 H2 H3 H4 H5 H6 H7 H8 H9 | ty_step ].
    + cbn [parseNamePathOrMethodCall]. ty_unf. repeat first [ trec H1 H2 H3 H4 H5 H6 H7 H8 H9 | ty_step ].
    + cbn [callArgs_go]. ty_unf. repeat first [ trec H1 H2 H3 H4 H5 H6 H7 H8 H9 | ty_step ].
    + cbn [parseStrictTermArg]. ty_unf. repeat first [ trec H1 H2 H3 H4 H5 H6 H7 H8 H9 | ty_step ].
    + cbn [parseTarget]. ty_unf. repeat first [ trec H1 H2 H3 H4 H5 H6 H7 H8 H9 | ty_step ].
Qed.

Lemma parseNextObject_tyk fuel : tyk (parseNextObject fuel).
Proof. apply (tblock_all fuel). Qed.
Lemma parseObjectArgs_tyk fuel c : tyk (parseObjectArgs fuel c).
Proof. apply (tblock_all fuel). Qed.

Lemma objectList_inner_tyk fuel : tyk (objectList_inner fuel).
Proof.
  induction fuel as [|fuel IH]; cbn [objectList_inner]; [apply tyk_fail; intros; right; reflexivity|].
  ty_unf. repeat first [ apply IH | apply parseNextObject_tyk | ty_step ].
Qed.

Lemma parseObjectList_tyk fuel : tyk (parseObjectList fuel).
Proof.
  induction fuel as [|fuel IH]; cbn [parseObjectList]; [apply tyk_fail; intros; right; reflexivity|].
  ty_unf. repeat first [ apply IH | apply objectList_inner_tyk | ty_step ].
Qed.

(** pass 2 *)
Lemma attachSiblings_go_tyk fuel : forall par tgt sib n up, tyk (attachSiblings_go fuel par tgt sib n up).
Proof.
  induction fuel as [|fuel IH]; intros; cbn [attachSiblings_go]; [apply tyk_fail; intros; right; reflexivity|].
  ty_unf. repeat first [ apply IH | ty_step ].
Qed.
Lemma attachSiblingsAsArgs_tyk fuel par tgt n up : tyk (attachSiblingsAsArgs fuel par tgt n up).
Proof. unfold attachSiblingsAsArgs. ty_unf. repeat first [ apply attachSiblings_go_tyk | ty_step ]. Qed.

Lemma tyk_panic {A} : tyk (@panic A).
Proof. apply tyk_fail. intros; left; reflexivity. Qed.

Lemma connectNamed_tyk fuel : (forall i, tyk (connectNamedObjArgs fuel i)) /\ (forall o i, tyk (connectNamed_loop fuel o i)).
Proof.
  induction fuel as [|fuel (IH1 & IH2)]; (split; intros; [cbn [connectNamedObjArgs]|cbn [connectNamed_loop]]);
    try (apply tyk_fail; intros; right; reflexivity).
  - ty_unf. repeat first [ apply IH2 | ty_step ].
  - unfold valueBytes. ty_unf. repeat first [ apply IH1 | apply IH2 | apply attachSiblingsAsArgs_tyk | apply tyk_panic | ty_step ].
Qed.

(** pass 3 *)
Lemma nestedScope_go_tyk fuel : forall i, tyk (nestedScope_go fuel i).
Proof.
  induction fuel as [|fuel IH]; intros; cbn [nestedScope_go]; [apply tyk_fail; intros; right; reflexivity|].
  ty_unf. repeat first [ apply IH | ty_step ].
Qed.
Lemma scopeOf_tyk i : tyk (scopeOf i).
Proof. unfold scopeOf. ty_unf. repeat first [ apply nestedScope_go_tyk | ty_step ]. Qed.
Lemma moveContents_go_tyk fuel : forall c t i, tyk (moveContents_go fuel c t i).
Proof.
  induction fuel as [|fuel IH]; intros; cbn [moveContents_go]; [apply tyk_fail; intros; right; reflexivity|].
  ty_unf. repeat first [ apply IH | ty_step ].
Qed.
Lemma insideSelf_go_tyk fuel : forall a o, tyk (insideSelf_go fuel a o).
Proof.
  induction fuel as [|fuel IH]; intros; cbn [insideSelf_go]; [apply tyk_fail; intros; right; reflexivity|].
  ty_unf. repeat first [ apply IH | ty_step ].
Qed.

Lemma merge_tyk fuel : (forall i, tyk (mergeScopeDirectives fuel i)) /\ (forall i r, tyk (mergeScope_loop fuel i r)).
Proof.
  induction fuel as [|fuel (IH1 & IH2)]; (split; intros; [cbn [mergeScopeDirectives]|cbn [mergeScope_loop]]);
    try (apply tyk_fail; intros; right; reflexivity).
  - ty_unf. repeat first [ apply IH2 | apply scopeOf_tyk | apply moveContents_go_tyk | apply tyk_panic | ty_step ].
  - ty_unf. repeat first [ apply IH1 | apply IH2 | ty_step ].
Qed.

Lemma relocate_tyk fuel : (forall i, tyk (relocateNamedObjects fuel i)) /\ (forall i r, tyk (relocate_loop fuel i r)).
Proof.
  induction fuel as [|fuel (IH1 & IH2)]; (split; intros; [cbn [relocateNamedObjects]|cbn [relocate_loop]]);
    try (apply tyk_fail; intros; right; reflexivity).
  - unfold valueBytes. ty_unf. repeat first [ apply IH2 | apply scopeOf_tyk | apply insideSelf_go_tyk | apply tyk_panic | ty_step ].
  - ty_unf. repeat first [ apply IH1 | apply IH2 | ty_step ].
Qed.

Lemma resolve_loop_tyk wf : forall fuel, tyk (resolve_loop fuel wf).
Proof.
  induction fuel as [|fuel IH]; cbn [resolve_loop]; [apply tyk_fail; intros; right; reflexivity|].
  repeat first [ apply IH | apply (proj1 (merge_tyk wf)) | apply (proj1 (relocate_tyk wf)) | ty_step ].
Qed.

(** pass 4 *)
Lemma popAll_go_tyk fuel : tyk (popAll_go fuel).
Proof. induction fuel as [|fuel IH]; cbn [popAll_go]; [apply tyk_fail; intros; right; reflexivity|]. repeat first [ apply IH | ty_step ]. Qed.

Lemma deferred_tyk fuel pf : (forall i, tyk (parseDeferredBlocks fuel pf i)) /\ (forall i, tyk (deferred_loop fuel pf i)).
Proof.
  induction fuel as [|fuel (IH1 & IH2)]; (split; intros; [cbn [parseDeferredBlocks]|cbn [deferred_loop]]);
    try (apply tyk_fail; intros; right; reflexivity).
  - ty_unf. repeat first [ apply IH2 | apply parseObjectArgs_tyk | apply popAll_go_tyk | ty_step ].
  - ty_unf. repeat first [ apply IH1 | apply IH2 | ty_step ].
Qed.

(** the first four passes, as in parseAML_body *)
Definition parse_head (fuel : nat) : M bool :=
  scopeEnter 0 ;;;
  mlet r1 <~ parseObjectList fuel ;;
  if pres_eqb r1 RFailed then ret false else
  mlet r2 <~ connectNamedObjArgs fuel 0 ;;
  if negb (pres_eqb r2 ROk) then ret false else
  (fun s => Ok (tt, with_counters s 1 (p_mergedScopes s) (p_relocatedObjects s))) ;;;
  mlet r3 <~ resolve_loop fuel fuel ;;
  ret (pres_eqb r3 ROk).

Theorem parse_head_typed fuel : tyk (parse_head fuel).
Proof.
  unfold parse_head.
  repeat first [ apply parseObjectList_tyk | apply (proj1 (connectNamed_tyk fuel)) | apply resolve_loop_tyk | ty_step ].
Qed.

Theorem parseDeferredBlocks_typed fuel pf i : tyk (parseDeferredBlocks fuel pf i).
Proof. apply (proj1 (deferred_tyk fuel pf)). Qed.
