(** C12 (stretch): the first pass establishes the shape facts of the later passes: Method typing [TM2], parents of the
    pending deferred objects [PEND], the root facts, and the structure of the Scope directives. *)
From Coq Require Import NArith Arith List Bool Lia.
From Coq Require Import ZifyBool ZifyN ZifyNat.
From FF Require Import Lib.Word Gen.Consts_device_acpi_aml Gen.Consts_aml_tree Aml.Stream Aml.Lex Aml.LexProofs
  Aml.Tree Aml.Parser Aml.ParserProofs Aml.TreeSpec Aml.TreeProofs Aml.TreeProofsOps Aml.TreeProofsFind Aml.TreeProofsAnc
  Aml.ParserTotalTree Aml.ParserTotalTree2 Aml.ParserTotalLex Aml.ParserTotalTable Aml.ParserTotalBase Aml.ParserTotalLeaf
  Aml.ParserTotalFrame Aml.ParserTotalFirst Aml.ParserTotalConn Aml.ParserTotalNonNamed Aml.ParserTotalCalls Aml.ParserTotalReloc
  Aml.ParserTotalMerge Aml.ParserTotalResolve Aml.ParserTotalDefer Aml.ParserTotalDeferW Aml.ParserTotalDeferV
  Aml.ParserTotalTyped Aml.ParserTotalShape Aml.ParserTotalChain Aml.ParserTotalConn2 Aml.ParserTotalPass2
  Aml.ParserTotalBenign Aml.ParserTotalFirst2 Aml.ParserTotalNameLex Aml.ParserTotalGoodPath.
Import ListNotations.
Local Open Scope N_scope.

(** the Scope-directive shape without the two facts about names (name of the directive has no lead character, four-byte
    paths start with a lead character, \ or ^) *)
Definition sdirw (X : N -> Prop) (t : T) (g : ghost) (x : N) (xinfo : N) : Prop :=
  (forall op fl af, opInfo xinfo = Some (op, fl, af) -> hasFlag fl aml_pOpFlagNamed = false) /\
  exists n c no co tbl sl,
    kids g x = [n; c] /\ kids g n = [] /\ ~ X n /\
    tget t n = Some no /\ o_opcode no = aml_pOpIntNamePath /\
    o_value no = Some (VBytes tbl sl) /\
    tget t c = Some co /\ o_opcode co = aml_pOpIntScopeBlock.

Definition tySw (X : N -> Prop) (s : pstate) (g : ghost) : Prop :=
  forall x xo, tget (p_tree s) x = Some xo -> o_opcode xo = aml_pOpScope -> o_tableHandle xo = p_handle s ->
    name_lead (o_name xo) = false /\ sdirw X (p_tree s) g x (o_infoIndex xo).

Definition LI (X : N -> Prop) (s : pstate) (g : ghost) : Prop :=
  glive g 0 /\ groot g 0 /\ is_sb s 0 /\ Forall (is_sb s) (p_scopeStack s) /\ TM2 (p_tree s) g /\ PEND s g /\ tySw X s g /\
  (forall n, X n -> glive g n).

(** ---- table facts ---- *)
Lemma namepath_plain (o : Obj) : o_opcode o = aml_pOpIntNamePath -> rowis aml_pOpIntNamePath o -> plain o.
Proof.
  intros Hop Hr. unfold rowis in Hr. match type of Hr with ?x = _ => destruct x as [k|] eqn:Ek; [|discriminate] end.
  injection Hr as Hr. vm_compute in Ek. injection Ek as Ek. subst k. unfold plain, nodefer. rewrite <- Hr, Hop.
  split; [intros op fl af E; vm_compute in E; injection E as _ <- <-; split; [reflexivity|]; intros k Hk;
          assert (Hc : k = 0 \/ k = 1 \/ k = 2 \/ k = 3 \/ k = 4 \/ k = 5 \/ k = 6 \/ k = 7) by lia;
          destruct Hc as [->|[->|[->|[->|[->|[->|[->| ->]]]]]]]; vm_compute; discriminate|].
  split; [intros op fl af E; vm_compute in E; injection E as _ <- _; reflexivity|]. split; discriminate.
Qed.

Lemma byteprefix_plain (o : Obj) : o_opcode o = aml_pOpBytePrefix -> rowis aml_pOpBytePrefix o -> plain o.
Proof.
  intros Hop Hr. unfold rowis in Hr. match type of Hr with ?x = _ => destruct x as [k|] eqn:Ek; [|discriminate] end.
  injection Hr as Hr. vm_compute in Ek. injection Ek as Ek. subst k. unfold plain, nodefer. rewrite <- Hr, Hop.
  split; [intros op fl af E; vm_compute in E; injection E as _ <- <-; split; [reflexivity|]; intros k Hk;
          assert (Hc : k = 0 \/ k = 1 \/ k = 2 \/ k = 3 \/ k = 4 \/ k = 5 \/ k = 6 \/ k = 7) by lia;
          destruct Hc as [->|[->|[->|[->|[->|[->|[->| ->]]]]]]]; vm_compute; discriminate|].
  split; [intros op fl af E; vm_compute in E; injection E as _ <- _; reflexivity|]. split; discriminate.
Qed.

Lemma simple_from_check af : forallb (fun k => (argCount af <=? k) ||
    (let ty := argType af k in (ty =? aml_pArgTypePkgLen) || (ty =? aml_pArgTypeNameString) || (ty =? aml_pArgTypeByteData) || (ty =? aml_pArgTypeTermList)))
    idx8 = true -> simple_from af 0.
Proof.
  intros H k _ Hk. pose proof (argCount_le8 af) as Hc. assert (Hk8 : k < 8) by lia.
  pose proof (proj1 (forallb_forall _ _) H k (In_idx8 k Hk8)) as Hb. cbv beta zeta in Hb.
  apply orb_prop in Hb. destruct Hb as [Hb|Hb]; [apply N.leb_le in Hb; lia|]. unfold simple_ty.
  repeat (apply orb_prop in Hb; destruct Hb as [Hb|Hb]); apply N.eqb_eq in Hb; auto.
Qed.

Lemma method_shape : simple_from methodAF 0 /\ otys methodAF 0 = [aml_pArgTypeNameString; aml_pArgTypeByteData; aml_pArgTypeTermList].
Proof. split; [apply simple_from_check; vm_compute; reflexivity|vm_compute; reflexivity]. Qed.

Definition scopeIdx : N := match opcodeTableIndex aml_pOpScope true with Some i => i | None => 0 end.
Definition scopeAF : N := match opInfo scopeIdx with Some (_, _, af) => af | None => 0 end.
Definition scopeFl : N := match opInfo scopeIdx with Some (_, fl, _) => fl | None => 0 end.

Lemma scope_row : opcodeTableIndex aml_pOpScope true = Some scopeIdx /\ opInfo scopeIdx = Some (aml_pOpScope, scopeFl, scopeAF) /\
  hasFlag scopeFl aml_pOpFlagDeferParsing = false /\ hasFlag scopeFl aml_pOpFlagNamed = false /\
  simple_from scopeAF 0 /\ otys scopeAF 0 = [aml_pArgTypeNameString; aml_pArgTypeTermList].
Proof.
  split; [vm_compute; reflexivity|]. split; [vm_compute; reflexivity|]. split; [vm_compute; reflexivity|]. split; [vm_compute; reflexivity|].
  split; [apply simple_from_check; vm_compute; reflexivity|vm_compute; reflexivity].
Qed.

Lemma npc_row_nodefer (o : Obj) : o_opcode o = aml_pOpIntNamePathOrMethodCall -> rowis (o_opcode o) o -> ~ deferrow o.
Proof.
  intros Hop Hr (op & fl & af & Hrow & Hf). rewrite Hop in Hr. unfold rowis in Hr. match type of Hr with ?x = _ => destruct x as [k|] eqn:Ek; [|discriminate] end.
  injection Hr as Hr. vm_compute in Ek. injection Ek as Ek. subst k. rewrite <- Hr in Hrow.
  vm_compute in Hrow. injection Hrow as _ <- _. vm_compute in Hf. discriminate.
Qed.

Lemma isflag_deferrow s x o : tget (p_tree s) x = Some o -> isflag s x = true -> deferrow o.
Proof.
  intros Ho Hf. unfold isflag in Hf. rewrite Ho in Hf. destruct (opInfo (o_infoIndex o)) as [[[op fl] af]|] eqn:E; [|discriminate].
  apply andb_prop in Hf. destruct Hf as (Hf & _). exists op, fl, af. auto.
Qed.

Lemma Forall2_inv2 {A B} (P : A -> B -> Prop) x y l objs : Forall2 P (x :: y :: l) objs ->
  exists a b r, objs = a :: b :: r /\ P x a /\ P y b /\ Forall2 P l r.
Proof. intros H. inversion H as [|? a ? l1 Pa F1]; subst. inversion F1 as [|? b ? r Pb F2]; subst. exists a, b, r. auto. Qed.

(** ---- old objects keep their facts over one parseNextObject ---- *)
Lemma keepw_sameobj (P : N -> Prop) s g s' i o : keepw P s g s' -> glive g i -> tget (p_tree s) i = Some o ->
  exists o', tget (p_tree s') i = Some o' /\ sameobj o o' /\ o_name o' = o_name o /\ (~ P i -> o_value o' = o_value o).
Proof.
  intros K Hl Ho. destruct (K i o Hl Ho) as (o' & Ho' & (E1 & E2 & E3 & E4) & V). exists o'. split; [exact Ho'|]. split; [split; auto|auto].
Qed.

Lemma keepw_back (P : N -> Prop) s g s' i o' : FI s g -> keepw P s g s' -> glive g i -> tget (p_tree s') i = Some o' ->
  exists o, tget (p_tree s) i = Some o /\ sameobj o o' /\ o_name o' = o_name o /\ (~ P i -> o_value o' = o_value o).
Proof.
  intros H K Hl Ho'. destruct (FI_live_get _ _ _ H Hl) as (o & Ho & _). destruct (keepw_sameobj P s g s' i o K Hl Ho) as (o2 & Ho2 & A).
  assert (o2 = o') by congruence. subst. exists o. split; [exact Ho|exact A].
Qed.

Lemma is_sb_keep s g s' y : FI s g -> keepw NoP s g s' -> glive g y -> is_sb s y -> is_sb s' y.
Proof.
  intros H K Hl (o & Ho & E). destruct (keepw_sameobj NoP s g s' y o K Hl Ho) as (o' & Ho' & (E1 & _) & _). exists o'. split; [exact Ho'|congruence].
Qed.

Lemma groot_gext2 g g' x : gext g g' -> glive g x -> groot g x -> groot g' x.
Proof. intros G Hl Hr p Hin. apply (Hr p). apply (ge_old _ _ G p x Hin Hl). Qed.

Lemma LI_next_holds X s g top rest s' g' :
  FI s g -> LI X s g -> p_scopeStack s = top :: rest -> FI s' g' -> gext g g' ->
  Fw NoP (eq top) s g s' g' -> SSBx s s' -> p_handle s' = p_handle s ->
  (exists xs, newobjs g s' xs /\ forall x, xs = Some x -> ~ glive g x /\ xdesc s g s' g' top x) ->
  LI X s' g'.
Proof.
  intros H (H0 & Hr0 & Hsb0 & Hssb & HTM & HP & HtS & HXs) Est H' G [K Fk0] Hss Hh (xs & Hnew & Hx).
  pose proof (fi_R _ _ H) as HR. pose proof (R_gwf _ _ HR) as Hwf. pose proof (fi_R _ _ H') as HR'.
  assert (Htop_sb : is_sb s top) by (rewrite Est in Hssb; inversion Hssb; auto).
  assert (Hscl : forall y, In y (p_scopeStack s) -> glive g y) by (pose proof (fi_scopes _ _ H) as F; rewrite Forall_forall in F; exact F).
  (* lists of old nodes that are no ScopeBlocks *)
  assert (Hkeepk : forall y yo, glive g y -> tget (p_tree s) y = Some yo -> o_opcode yo <> aml_pOpIntScopeBlock -> kids g' y = kids g y).
  { intros y yo Hy Hyo Hne. destruct (Fk0 y Hy (fun F => F)) as (_ & Hex). apply Hex. intros <-.
    destruct Htop_sb as (o & Ho & E). assert (o = yo) by congruence. subst. contradiction. }
  split; [apply (ge_live _ _ G); exact H0|]. split; [apply (groot_gext2 g g' 0 G H0 Hr0)|]. split; [apply (is_sb_keep s g s' 0 H K H0 Hsb0)|].
  split.
  { rewrite Forall_forall. intros y Hy. destruct (Hss y Hy) as [A|A]; [|exact A].
    rewrite Forall_forall in Hssb. apply (is_sb_keep s g s' y H K (Hscl y A) (Hssb y A)). }
  split.
  { (* TM2 *)
    intros m mo' Hm' Hop'. assert (Hlm' : o_opcode mo' <> opFreed) by (rewrite Hop'; discriminate).
    destruct (glive_dec g m) as [Hlm|Hnm].
    - destruct (keepw_back NoP s g s' m mo' H K Hlm Hm') as (mo & Hm & (E1 & _) & _).
      assert (Hop : o_opcode mo = aml_pOpMethod) by congruence.
      destruct (HTM m mo Hm Hop) as (a0 & a1 & rest0 & a0o & a1o & v & K1 & K2 & P0 & K4 & K5 & P1).
      assert (Hl0 : glive g a0) by (apply (Hwf m a0); rewrite K1; left; reflexivity).
      assert (Hl1 : glive g a1) by (apply (Hwf m a1); rewrite K1; right; left; reflexivity).
      destruct (keepw_sameobj NoP s g s' a0 a0o K Hl0 K2) as (a0o' & K2' & S0 & _).
      destruct (keepw_sameobj NoP s g s' a1 a1o K Hl1 K4) as (a1o' & K4' & S1 & _ & V1).
      exists a0, a1, rest0, a0o', a1o', v. split; [rewrite (Hkeepk m mo Hlm Hm); [exact K1|rewrite Hop; discriminate]|].
      split; [exact K2'|]. split; [eapply plain_same; eauto|]. split; [exact K4'|]. split; [rewrite V1; [exact K5|intros []]|eapply plain_same; eauto].
    - destruct (Hnew m mo' Hm' Hlm' Hnm) as [E|(Hb & _)]; [|exfalso; apply Hb; left; exact Hop'].
      destruct (Hx m E) as (_ & xo & Hxo & _ & Hrow & _ & _ & Hshape). assert (xo = mo') by congruence. subst xo.
      destruct method_row as (Hmi & Hmrow & _). destruct method_shape as (Hsim & Hot).
      unfold rowis in Hrow. rewrite Hop', Hmi in Hrow. injection Hrow as Hrow.
      destruct (Hshape (or_introl Hop') aml_pOpMethod 33 methodAF) as (objs & Hk & Hf2 & _); [rewrite <- Hrow; exact Hmrow|exact Hsim|vm_compute; reflexivity|].
      rewrite Hot in Hf2. destruct (Forall2_inv2 _ _ _ _ _ Hf2) as (a0 & a1 & l1' & Eobjs & A0 & A1 & _). rewrite Eobjs in Hk.
      destruct A0 as (a0o & Ha0 & N0 & _). destruct (N0 eq_refl) as (_ & Eop0 & Er0 & _).
      destruct A1 as (a1o & Ha1 & _ & B1 & _). destruct (B1 eq_refl) as (_ & Eop1 & Er1 & v & Ev1).
      exists a0, a1, l1', a0o, a1o, v. split; [exact Hk|]. split; [exact Ha0|]. split; [apply namepath_plain; auto|].
      split; [exact Ha1|]. split; [exact Ev1|apply byteprefix_plain; auto]. }
  split.
  { (* PEND *)
    intros x o' Hlx' Ho' Hf'. assert (Hd' : deferrow o') by (eapply isflag_deferrow; eauto).
    destruct (glive_dec g x) as [Hlx|Hnx].
    - destruct (keepw_back NoP s g s' x o' H K Hlx Ho') as (o & Ho & So & _).
      assert (Hf : isflag s x = true) by (rewrite <- Hf'; symmetry; apply (isflag_same s s' x o o' Ho Ho' So Hh)).
      destruct (HP x o Hlx Ho Hf) as (Hpar & Hnp). split; [eapply has_parent_ext; eauto|]. destruct So as (E1 & _). rewrite E1. exact Hnp.
    - assert (Hlo' : o_opcode o' <> opFreed).
      { destruct (R_live_glive _ _ HR' x) as (_ & Hlv). destruct (Hlv Hlx') as (o2 & Ho2 & Hl2). assert (o2 = o') by congruence. subst. exact Hl2. }
      destruct (Hnew x o' Ho' Hlo' Hnx) as [E|(_ & Hb)]; [|contradiction].
      destruct (Hx x E) as (_ & xo & Hxo & Hin & Hrow & _ & _ & _). assert (xo = o') by congruence. subst xo.
      split; [exists top; exact Hin|]. intros Hop. apply (npc_row_nodefer o' Hop Hrow Hd'). }
  split; [|intros n Hn; apply (ge_live _ _ G); apply HXs; exact Hn].
  (* the Scope directives *)
  intros x xo' Hx' Hop' Hhx'. assert (Hlx' : o_opcode xo' <> opFreed) by (rewrite Hop'; discriminate).
  destruct (glive_dec g x) as [Hlx|Hnx].
  - destruct (keepw_back NoP s g s' x xo' H K Hlx Hx') as (xo & Hxo & (E1 & E2 & E3) & Enm & _).
    assert (Hop : o_opcode xo = aml_pOpScope) by congruence. assert (Hhx : o_tableHandle xo = p_handle s) by congruence.
    destruct (HtS x xo Hxo Hop Hhx) as (Hnl & Hnn & n & c & no & co & tbl & sl & K1 & K2 & KX & K3 & K4 & K6 & K8 & K9).
    split; [rewrite Enm; exact Hnl|].
    assert (K4' : o_opcode no <> aml_pOpIntScopeBlock) by (rewrite K4; discriminate).
    assert (Hln : glive g n) by (apply (Hwf x n); rewrite K1; left; reflexivity).
    assert (Hlc : glive g c) by (apply (Hwf x c); rewrite K1; right; left; reflexivity).
    destruct (keepw_sameobj NoP s g s' n no K Hln K3) as (no' & K3' & (F1 & _) & _ & V).
    destruct (keepw_sameobj NoP s g s' c co K Hlc K8) as (co' & K8' & (G1 & _) & _).
    split; [rewrite E2; exact Hnn|]. exists n, c, no', co', tbl, sl.
    split; [rewrite (Hkeepk x xo Hlx Hxo); [exact K1|rewrite Hop; discriminate]|].
    split; [rewrite (Hkeepk n no Hln K3 K4'); exact K2|]. split; [exact KX|]. split; [exact K3'|]. split; [congruence|].
    split; [rewrite V; [exact K6|intros []]|]. split; [exact K8'|congruence].
  - destruct (Hnew x xo' Hx' Hlx' Hnx) as [E|(Hb & _)]; [|exfalso; apply Hb; right; exact Hop'].
    destruct (Hx x E) as (_ & xo & Hxo & _ & Hrow & Hname & Hnameo & Hshape). assert (xo = xo') by congruence. subst xo.
    split.
    { destruct (tget (p_tree s) x) as [o0|] eqn:E0; [|rewrite (Hname eq_refl); reflexivity].
      rewrite (Hnameo o0 eq_refl). reflexivity. }
    destruct scope_row as (Hsi & Hsrow & Hsd & Hsn & Hsim & Hot).
    unfold rowis in Hrow. rewrite Hop', Hsi in Hrow. injection Hrow as Hrow.
    split; [intros op fl af E0; rewrite <- Hrow, Hsrow in E0; injection E0 as _ <- _; exact Hsn|].
    destruct (Hshape (or_intror Hop') aml_pOpScope scopeFl scopeAF) as (objs & Hk & Hf2 & Hn2); [rewrite <- Hrow; exact Hsrow|exact Hsim|exact Hsd|].
    rewrite Hot in Hf2. destruct (Forall2_inv2 _ _ _ _ _ Hf2) as (n & c & l1' & Eobjs & A0 & A1 & F1). inversion F1; subst l1'. rewrite Eobjs in Hk.
    assert (HnX : ~ X n) by (rewrite Eobjs in Hn2; inversion Hn2 as [|? ? Hq _]; subst; intros Hq'; apply Hq; apply HXs; exact Hq').
    destruct A0 as (no & Hn & N0 & _). destruct (N0 eq_refl) as (Kn & Eop0 & _ & tbl & sl & Ev0).
    destruct A1 as (co & Hc & _ & _ & C1). destruct (C1 eq_refl) as (_ & Eop1).
    exists n, c, no, co, tbl, sl. split; [exact Hk|]. split; [exact Kn|]. split; [exact HnX|]. split; [exact Hn|].
    split; [exact Eop0|]. split; [exact Ev0|]. split; [exact Hc|exact Eop1].
Qed.

Lemma LI_stable_holds X s s' g : LI X s g -> p_tree s' = p_tree s -> p_handle s' = p_handle s ->
  (forall y, In y (p_scopeStack s') -> In y (p_scopeStack s)) -> LI X s' g.
Proof.
  intros (H0 & Hr0 & Hsb0 & Hssb & HTM & HP & HtS & HXs) Et Eh Hst.
  split; [exact H0|]. split; [exact Hr0|]. split; [unfold is_sb in *; rewrite Et; exact Hsb0|].
  split; [rewrite Forall_forall in *; intros y Hy; unfold is_sb; rewrite Et; apply Hssb; apply Hst; exact Hy|].
  split; [rewrite Et; exact HTM|]. split; [|split; [|exact HXs]].
  - intros x o Hl Ho Hf. rewrite Et in Ho. apply (HP x o Hl Ho). unfold isflag in *. rewrite Et, Eh in Hf. exact Hf.
  - intros x xo Hx Hop Hh. rewrite Et in Hx. rewrite Eh in Hh. rewrite Et. apply (HtS x xo Hx Hop Hh).
Qed.

(** ---- TM3 through the first pass: the invariant [LI3] = [LI] /\ [TM3] of the object boundaries of parseObjectList ---- *)
Definition LI3 (X : N -> Prop) (s : pstate) (g : ghost) : Prop := LI X s g /\ TM3 (p_tree s) g.

Lemma rowis_np (o : Obj) : rowis aml_pOpIntNamePath o -> o_infoIndex o = npIdx.
Proof. unfold rowis. intros H. assert (E : opcodeTableIndex aml_pOpIntNamePath true = Some npIdx) by (vm_compute; reflexivity). congruence. Qed.
Lemma rowis_bp (o : Obj) : rowis aml_pOpBytePrefix o -> o_infoIndex o = bpIdx.
Proof. unfold rowis. intros H. assert (E : opcodeTableIndex aml_pOpBytePrefix true = Some bpIdx) by (vm_compute; reflexivity). congruence. Qed.

Lemma LI3_next_holds X s g top rest s' g' :
  FI s g -> LI3 X s g -> p_scopeStack s = top :: rest -> FI s' g' -> gext g g' ->
  Fw NoP (eq top) s g s' g' -> SSBx s s' -> p_handle s' = p_handle s ->
  (exists xs, newobjs g s' xs /\ forall x, xs = Some x -> ~ glive g x /\ xdesc s g s' g' top x) ->
  LI3 X s' g'.
Proof.
  intros H (HL & HTM) Est H' G F Hss Hh Hnx. split; [exact (LI_next_holds X s g top rest s' g' H HL Est H' G F Hss Hh Hnx)|].
  unfold TM3.
  destruct HL as (_ & _ & _ & Hssb & _). destruct F as [K Fk0]. destruct Hnx as (xs & Hnew & Hx).
  pose proof (fi_R _ _ H) as HR. pose proof (R_gwf _ _ HR) as Hwf.
  assert (Htop_sb : is_sb s top) by (rewrite Est in Hssb; inversion Hssb; auto).
  assert (Hkeepk : forall y yo, glive g y -> tget (p_tree s) y = Some yo -> o_opcode yo <> aml_pOpIntScopeBlock -> kids g' y = kids g y).
  { intros y yo Hy Hyo Hne. destruct (Fk0 y Hy (fun F => F)) as (_ & Hex). apply Hex. intros <-.
    destruct Htop_sb as (o & Ho & E). assert (o = yo) by congruence. subst. contradiction. }
  intros m mo' Hm' Hop'. assert (Hlm' : o_opcode mo' <> opFreed) by (rewrite Hop'; discriminate).
  destruct (glive_dec g m) as [Hlm|Hnm].
  - destruct (keepw_back NoP s g s' m mo' H K Hlm Hm') as (mo & Hm & (E1 & _) & _).
    assert (Hop : o_opcode mo = aml_pOpMethod) by congruence.
    destruct (HTM m mo Hm Hop) as (a0 & a1 & rest0 & a0o & a1o & v & K1 & K2 & K3 & K4 & K5 & K6 & K7 & K8 & K9).
    assert (Hl0 : glive g a0) by (apply (Hwf m a0); rewrite K1; left; reflexivity).
    assert (Hl1 : glive g a1) by (apply (Hwf m a1); rewrite K1; right; left; reflexivity).
    destruct (keepw_sameobj NoP s g s' a0 a0o K Hl0 K2) as (a0o' & K2' & (S1 & S2 & _) & _).
    destruct (keepw_sameobj NoP s g s' a1 a1o K Hl1 K6) as (a1o' & K6' & (T1 & T2 & _) & _ & V1).
    exists a0, a1, rest0, a0o', a1o', v. split; [rewrite (Hkeepk m mo Hlm Hm); [exact K1|rewrite Hop; discriminate]|].
    split; [exact K2'|]. split; [congruence|]. split; [congruence|].
    split; [rewrite (Hkeepk a0 a0o Hl0 K2); [exact K5|rewrite K3; discriminate]|].
    split; [exact K6'|]. split; [congruence|]. split; [congruence|]. rewrite V1; [exact K9|intros []].
  - destruct (Hnew m mo' Hm' Hlm' Hnm) as [E|(Hb & _)]; [|exfalso; apply Hb; left; exact Hop'].
    destruct (Hx m E) as (_ & xo & Hxo & _ & Hrow & _ & _ & Hshape). assert (xo = mo') by congruence. subst xo.
    destruct method_row as (Hmi & Hmrow & _). destruct method_shape as (Hsim & Hot).
    unfold rowis in Hrow. rewrite Hop', Hmi in Hrow. injection Hrow as Hrow.
    destruct (Hshape (or_introl Hop') aml_pOpMethod 33 methodAF) as (objs & Hk & Hf2 & _); [rewrite <- Hrow; exact Hmrow|exact Hsim|vm_compute; reflexivity|].
    rewrite Hot in Hf2. destruct (Forall2_inv2 _ _ _ _ _ Hf2) as (a0 & a1 & l1' & Eobjs & A0 & A1 & _). rewrite Eobjs in Hk.
    destruct A0 as (a0o & Ha0 & N0 & _). destruct (N0 eq_refl) as (Kn0 & Eop0 & Er0 & _).
    destruct A1 as (a1o & Ha1 & _ & B1 & _). destruct (B1 eq_refl) as (_ & Eop1 & Er1 & v & Ev1).
    exists a0, a1, l1', a0o, a1o, v. split; [exact Hk|]. split; [exact Ha0|]. split; [exact Eop0|]. split; [apply rowis_np; exact Er0|].
    split; [exact Kn0|]. split; [exact Ha1|]. split; [exact Eop1|]. split; [apply rowis_bp; exact Er1|exact Ev1].
Qed.

Lemma LI3_stable_holds X s s' g : LI3 X s g -> p_tree s' = p_tree s -> p_handle s' = p_handle s ->
  (forall y, In y (p_scopeStack s') -> In y (p_scopeStack s)) -> LI3 X s' g.
Proof. intros (HL & HTM) Et Eh Hst. split; [eapply LI_stable_holds; eauto|rewrite Et; exact HTM]. Qed.


(** ---- the first pass from the initial state of a table ---- *)
Theorem first_pass_establishes : forall tree g earlier handle data fuel,
  R tree g -> info_valid tree -> glive g 0 -> groot g 0 ->
  (exists o, tget tree 0 = Some o /\ o_opcode o = aml_pOpIntScopeBlock) ->
  TM2 tree g -> (forall i o, tget tree i = Some o -> o_tableHandle o <> handle) ->
  image_small data ->
  N.of_nat (length (t_pool tree)) + 4 * N.of_nat (length data) + 4 <= InvalidIndex ->
  match first_pass fuel (init_state tree earlier handle data) with
  | Ok (res, s') => exists g', R (p_tree s') g' /\ info_valid (p_tree s') /\ rok (p_r s') /\ (res = ROk \/ res = RFailed) /\
      (res = ROk -> LI (glive g) s' g' /\ p_scopeStack s' = [])
  | Panic => False
  | OutOfFuel => True
  end.
Proof.
  intros tree g earlier handle data fuel HR Hi H0 Hr0 Hsb HTM Hfresh Him Hcap.
  destruct (init_FI tree g earlier handle data HR Hi H0 Him Hcap) as (HFI & Hroom & _).
  set (s0 := with_scopeStack (init_state tree earlier handle data) [0]) in *.
  assert (HL0 : LI (glive g) s0 g).
  { split; [exact H0|]. split; [exact Hr0|]. split; [exact Hsb|]. split; [constructor; [exact Hsb|constructor]|]. split; [exact HTM|]. split.
    - intros x o _ Ho Hf. exfalso. change (p_tree s0) with tree in Ho. unfold isflag in Hf. change (p_tree s0) with tree in Hf. rewrite Ho in Hf.
      destruct (opInfo (o_infoIndex o)) as [[[op fl] af]|]; [|discriminate]. apply andb_prop in Hf. destruct Hf as (_ & Hf).
      apply N.eqb_eq in Hf. apply (Hfresh x o Ho). exact Hf.
    - split; [|auto]. intros x xo Hx _ Hh. exfalso. apply (Hfresh x xo Hx). exact Hh. }
  pose proof (list_spec2 (LI (glive g)) (LI_next_holds (glive g)) (LI_stable_holds (glive g)) fuel s0 g HFI Hroom HL0) as W. unfold wp in W.
  unfold first_pass, bindM, scopeEnter.
  change (with_scopeStack (init_state tree earlier handle data) (0 :: p_scopeStack (init_state tree earlier handle data))) with s0.
  destruct (parseObjectList fuel s0) as [[res s']| |]; auto.
  destruct W as (g' & F1 & _ & _ & _ & Hres & HLI). exists g'.
  split; [apply (fi_R _ _ F1)|]. split; [apply (fi_info _ _ F1)|]. split; [apply (fi_rok _ _ F1)|]. split; [exact Hres|exact HLI].
Qed.

(** ---- the whole of ParseAML, modulo two facts about the names of the Scope directives of the first pass ---- *)
Definition NAMEOK (X : N -> Prop) (s : pstate) : Prop :=
  (forall n no tbl sl, tget (p_tree s) n = Some no -> ~ X n -> o_opcode no = aml_pOpIntNamePath -> o_value no = Some (VBytes tbl sl) ->
     forall s0 bytes, p_tables s0 = p_tables s -> slice_bytes s0 tbl sl = Ok bytes -> good_path bytes).

Lemma SH_of_LI X s g : LI X s g -> NAMEOK X s -> SH s g.
Proof.
  intros (H0 & Hr0 & Hsb0 & _ & HTM & HP & HtS & _) N2.
  split; [exact H0|]. split; [exact Hr0|]. split; [exact Hsb0|]. split; [|split; [exact HTM|exact HP]].
  intros x xo Hx Hop Hh _. destruct (HtS x xo Hx Hop Hh) as (Hnl & Hnn & n & c & no & co & tbl & sl & K1 & K2 & KX & K3 & K4 & K6 & K8 & K9).
  split; [exact Hnl|]. split; [exact Hnn|]. exists n, c, no, co, tbl, sl.
  split; [exact K1|]. split; [exact K2|]. split; [exact K3|]. split; [rewrite K4; discriminate|]. split; [rewrite K4; discriminate|].
  split; [exact K6|]. split; [apply (N2 n no tbl sl K3 KX K4 K6)|]. split; [exact K8|exact K9].
Qed.

(** ---- the same with a postcondition about the state a successful ParseAML returns (see ParserTotalChain.rest_post) ---- *)
Section Post1.
Variable K : T -> ghost -> Prop.
Hypothesis K_move : Kmove K.
Hypothesis K_upd : Kupd K.
Hypothesis K_walk : forall f4 pf s g s1 g1, WI s g -> parseDeferredBlocks f4 pf 0 s = Ok (ROk, s1) -> WI s1 g1 -> wstep s g s1 g1 -> TM NoX s1 g1 ->
  K (p_tree s) g -> K (p_tree s1) g1.
Variable KI : pstate -> ghost -> Prop.
Hypothesis KI_KS : forall s g, KI s g -> KS s g.
Hypothesis KI_TM : forall s g, KI s g -> TM NoX s g.
Hypothesis KI_loop : forall wf fuel s g, MI KI NoX s g ->
  wp True (resolve_loop fuel wf) s (fun _ s' => exists g', MI KI NoX s' g').
Hypothesis K_start : forall s g, MI KI NoX s g -> K (p_tree s) g.
Variable J : pstate -> ghost -> Prop.
Hypothesis J_SH : forall s g, J s g -> SH s g.
Hypothesis J_conn : forall fuel, CN_spec2 J fuel.
Hypothesis J_KI : forall s g a b c, J s g -> KI (with_counters s a b c) g.
(** [LIx]: an invariant of the object boundaries of the first pass that implies [LI]; [P0]: what it needs of the initial pool *)
Variable LIx : (N -> Prop) -> pstate -> ghost -> Prop.
Variable P0 : T -> ghost -> Prop.
Hypothesis LIx_LI : forall X s g, LIx X s g -> LI X s g.
Hypothesis LIx_init : forall X s g, LI X s g -> P0 (p_tree s) g -> LIx X s g.
Hypothesis LIx_next : forall X s g top rest s' g',
  FI s g -> LIx X s g -> p_scopeStack s = top :: rest -> FI s' g' -> gext g g' ->
  Fw NoP (eq top) s g s' g' -> SSBx s s' -> p_handle s' = p_handle s ->
  (exists xs, newobjs g s' xs /\ forall x, xs = Some x -> ~ glive g x /\ xdesc s g s' g' top x) ->
  LIx X s' g'.
Hypothesis LIx_stable : forall X s s' g, LIx X s g -> p_tree s' = p_tree s -> p_handle s' = p_handle s ->
  (forall y, In y (p_scopeStack s') -> In y (p_scopeStack s)) -> LIx X s' g.
Hypothesis J_start : forall X s g, LIx X s g -> NAMEOK X s -> J s g.

Theorem parseAML_body_post : forall tree g earlier handle data fuel,
  R tree g -> info_valid tree -> glive g 0 -> groot g 0 ->
  (exists o, tget tree 0 = Some o /\ o_opcode o = aml_pOpIntScopeBlock) ->
  TM2 tree g -> P0 tree g -> typed tree -> pool_ok earlier tree ->
  (forall i o, tget tree i = Some o -> o_tableHandle o <> handle) ->
  image_small data ->
  (let L := N.of_nat (length (t_pool tree)) + 4 * N.of_nat (length data) + 2 in
   L + L * (8 * N.of_nat (length data) + 3) + 4 <= InvalidIndex) ->
  match parseAML_body fuel (init_state tree earlier handle data) with
  | Ok (b, s') => tpost K b s'
  | Panic => False
  | OutOfFuel => True
  end.
Proof.
  intros tree g earlier handle data fuel HR Hi H0 Hr0 Hsb HTM HP0 Htyp Hpool Hfresh Him Hcap. cbv zeta in Hcap.
  assert (Hcap0 : N.of_nat (length (t_pool tree)) + 4 * N.of_nat (length data) + 4 <= InvalidIndex) by nia.
  assert (Hnames : forall s1, first_pass fuel (init_state tree earlier handle data) = Ok (ROk, s1) -> NAMEOK (glive g) s1).
  { assert (HGP : GPt (earlier ++ [data]) (glive g) tree).
    { intros n no tbl sl Hn HX Hop _. exfalso. apply HX. apply (R_live_glive _ _ HR). exists no. split; [exact Hn|rewrite Hop; discriminate]. }
    intros s1 E1.
    destruct (init_FI tree g earlier handle data HR Hi H0 Him Hcap0) as (HFI & _).
    assert (Hw : W (earlier ++ [data]) data (init_state tree earlier handle data)).
    { split; [reflexivity|]. split; [|exact (fi_rok _ _ HFI)].
      unfold init_state. cbn [p_r with_r]. rewrite setPkgEnd_data, init_reader_val. reflexivity. }
    destruct (first_pass_good (earlier ++ [data]) data (glive g) (last_table earlier data) fuel _ _ _ Hw HGP E1) as (Ht1 & Hg1).
    intros n no tbl sl Hn HX Hop Hv s0 bytes Hs0 Hb. apply (Hg1 n no tbl sl Hn HX Hop Hv s0 bytes); [rewrite Hs0; exact Ht1|exact Hb]. }
  destruct (init_FI tree g earlier handle data HR Hi H0 Him Hcap0) as (HFI & Hroom & _).
  set (s0 := with_scopeStack (init_state tree earlier handle data) [0]) in *.
  assert (Hinv0 : Inv (earlier ++ [data]) s0).
  { destruct Him as (Hb & Hl). assert (Him' : image_ok data) by (split; [exact Hb|unfold two32 in *; lia]).
    destruct (init_state_Inv tree earlier handle data Him' Hpool) as [A1 A2 A3 A4 A5]. constructor; auto. }
  assert (HLI0 : LI (glive g) s0 g).
  { split; [exact H0|]. split; [exact Hr0|]. split; [exact Hsb|]. split; [constructor; [exact Hsb|constructor]|]. split; [exact HTM|]. split.
    - intros x o _ Ho Hf. exfalso. change (p_tree s0) with tree in Ho. unfold isflag in Hf. change (p_tree s0) with tree in Hf. rewrite Ho in Hf.
      destruct (opInfo (o_infoIndex o)) as [[[op fl] af]|]; [|discriminate]. apply andb_prop in Hf. destruct Hf as (_ & Hf).
      apply N.eqb_eq in Hf. apply (Hfresh x o Ho). exact Hf.
    - split; [|auto]. intros x xo Hx _ Hh. exfalso. apply (Hfresh x xo Hx). exact Hh. }
  assert (HLx0 : LIx (glive g) s0 g) by (apply LIx_init; [exact HLI0|exact HP0]).
  pose proof (list_spec2 (LIx (glive g)) (LIx_next (glive g)) (LIx_stable (glive g)) fuel s0 g HFI Hroom HLx0) as W2.
  rewrite parseAML_body_rest2. unfold first_pass in Hnames. unfold bindM, scopeEnter in *.
  change (with_scopeStack (init_state tree earlier handle data) (0 :: p_scopeStack (init_state tree earlier handle data))) with s0 in *.
  unfold wp in W2.
  destruct (parseObjectList fuel s0) as [[r1 s1]| |] eqn:E1; auto.
  destruct W2 as (g1 & F1 & _ & HPhi & Hlen & Hres & HLI).
  pose proof (fi_R _ _ F1) as A1. pose proof (fi_info _ _ F1) as A2. pose proof (fi_rok _ _ F1) as A3.
  destruct Hres as [ -> | -> ]; cbn [pres_eqb].
  2:{ unfold ret. exists g1. destruct (hoare_parseObjectList (earlier ++ [data]) fuel s0 _ s1 Hinv0 E1) as ([B1 B2 B3 B4 B5] & _).
      split; [exact A1|]. split; [exact A2|]. split; [rewrite B1; exact B5|discriminate]. }
  destruct (HLI eq_refl) as (HL1 & Hst1).
  destruct (hoare_parseObjectList (earlier ++ [data]) fuel s0 _ s1 Hinv0 E1) as (I1 & _).
  assert (Ht1 : typed (p_tree s1)) by (apply (parseObjectList_tyk fuel s0 _ s1 E1); exact Htyp).
  assert (El0 : r_len (p_r s0) = N.of_nat (length data)).
  { unfold s0, init_state. cbn [p_r with_scopeStack with_r]. rewrite (proj2 (setPkgEnd_off _ _)). rewrite init_reader_val. reflexivity. }
  apply (rest2_post (earlier ++ [data]) K K_move K_upd K_walk KI KI_KS KI_TM KI_loop K_start J J_SH J_conn J_KI fuel s1 g1 A1 A2 A3 Hst1 I1);
    [apply (J_start (glive g)); [exact HL1|apply Hnames; reflexivity]|exact Ht1|].
  assert (Hlp : lp s1 <= N.of_nat (length (t_pool tree)) + 4 * N.of_nat (length data) + 2).
  { unfold Phi, lp, rem in HPhi. pose proof A3 as (_ & _ & O1). change (p_tree s0) with tree in HPhi.
    unfold lp. rewrite Hlen, El0 in *. lia. }
  assert (El1 : r_len (p_r s1) = N.of_nat (length data)).
  { rewrite Hlen. exact El0. }
  rewrite El1. nia.
Qed.
End Post1.

(** the instance with [K] = "slot 0 holds a ScopeBlock": a successful ParseAML returns a pool whose root is again a live parentless
    ScopeBlock in slot 0 and in which every name-path-or-call object carries a []byte *)
Definition KR : T -> ghost -> Prop := fun t _ => exists o, tget t 0 = Some o /\ o_opcode o = aml_pOpIntScopeBlock.

Lemma KR_move : Kmove KR.
Proof.
  intros s g par x target pre post t2 _ (o & Ho & Hop) _ _ _ _ _ g2 _ _ _ _ Hpf.
  destruct (proj2 Hpf _ _ Ho) as (o2 & Ho2 & (E1 & _)). exists o2. split; [exact Ho2|congruence].
Qed.
Lemma KR_upd : Kupd KR.
Proof.
  intros t g p o f _ (ro & Hro & Hrop) Ho Hop _ _. exists ro. split; [|exact Hrop].
  rewrite get_tset. destruct (N.eqb_spec 0 p) as [<-|_]; [|exact Hro].
  exfalso. assert (ro = o) by congruence. subst. rewrite Hop in Hrop. vm_compute in Hrop. discriminate.
Qed.
Lemma KR_walk (f4 pf : nat) s g s1 g1 : WI s g -> parseDeferredBlocks f4 pf 0 s = Ok (ROk, s1) -> WI s1 g1 -> wstep s g s1 g1 -> TM NoX s1 g1 ->
  KR (p_tree s) g -> KR (p_tree s1) g1.
Proof.
  intros H _ _ S1 _ (o & Ho & Hop).
  assert (Hl : glive g 0).
  { apply (R_live_glive _ _ (fi_R _ _ H)). exists o. split; [exact Ho|rewrite Hop; discriminate]. }
  destruct (ws_keep _ _ _ _ S1 0 o Hl Ho) as (o' & Ho' & (E1 & _) & _). exists o'. split; [exact Ho'|congruence].
Qed.

(** ---- the whole of ParseAML: no hypothesis about the run is left; a successful run returns a pool whose root is again a live
     parentless ScopeBlock in slot 0, with the []byte typing and the Method typing [TM3] ---- *)
Definition K3 : T -> ghost -> Prop := fun t g => KR t g /\ TM3 t g.

Lemma K3_move : Kmove K3.
Proof.
  intros s g par x target pre post t2 HT (H1 & H2) Hk Hl Hne Htg Hp g2 HT2 A B C Hpf.
  split; [apply (KR_move s g par x target pre post t2 HT H1 Hk Hl Hne Htg Hp HT2 A B C Hpf)
         |apply (TM3_move s g par x target pre post t2 HT H2 Hk Hl Hne Htg Hp HT2 A B C Hpf)].
Qed.
Lemma K3_upd : Kupd K3.
Proof.
  intros t g p o f HR (H1 & H2) Ho Hop A B. split; [apply (KR_upd t g p o f HR H1 Ho Hop A B)|apply (TM3_upd t g p o f HR H2 Ho Hop A B)].
Qed.

Theorem parseAML_body_post3 : forall tree g earlier handle data fuel,
  R tree g -> info_valid tree -> glive g 0 -> groot g 0 ->
  (exists o, tget tree 0 = Some o /\ o_opcode o = aml_pOpIntScopeBlock) ->
  TM3 tree g -> typed tree -> pool_ok earlier tree ->
  (forall i o, tget tree i = Some o -> o_tableHandle o <> handle) ->
  image_small data ->
  (let L := N.of_nat (length (t_pool tree)) + 4 * N.of_nat (length data) + 2 in
   L + L * (8 * N.of_nat (length data) + 3) + 4 <= InvalidIndex) ->
  match parseAML_body fuel (init_state tree earlier handle data) with
  | Ok (b, s') => tpost K3 b s'
  | Panic => False
  | OutOfFuel => True
  end.
Proof.
  intros tree g earlier handle data fuel HR Hi H0 Hr0 Hsb HTM.
  apply (parseAML_body_post K3 K3_move K3_upd
           (fun f4 pf s g s1 g1 H E H1 S1 T1 HK => conj (KR_walk f4 pf s g s1 g1 H E H1 S1 T1 (proj1 HK)) (TM_TM3 s1 g1 T1))
           KS3 (fun s g H => proj1 H) (fun s g H => TM3_TM s g (proj2 H)) KS3_loop
           (fun s g HM => conj (mi_sb0 _ _ _ _ HM) (proj2 (mi_K _ _ _ _ HM)))
           SH3 (fun s g H => proj1 H) SH3_conn
           (fun s g a b c HS => conj (KS_counters s g a b c (conj (proj1 (proj2 (proj2 (proj2 (proj2 (proj1 HS)))))) (proj2 (proj2 (proj2 (proj2 (proj2 (proj1 HS)))))))) (proj2 HS))
           LI3 TM3 (fun X s g H => proj1 H) (fun X s g H HP => conj H HP) LI3_next_holds LI3_stable_holds
           (fun X s g HL HN => conj (SH_of_LI X s g (proj1 HL) HN) (proj2 HL))
           tree g earlier handle data fuel HR Hi H0 Hr0 Hsb (TM3_TM2 _ _ HTM) HTM).
Qed.

Theorem parseAML_body_never_panics : forall tree g earlier handle data fuel,
  R tree g -> info_valid tree -> glive g 0 -> groot g 0 ->
  (exists o, tget tree 0 = Some o /\ o_opcode o = aml_pOpIntScopeBlock) ->
  TM3 tree g -> typed tree -> pool_ok earlier tree ->
  (forall i o, tget tree i = Some o -> o_tableHandle o <> handle) ->
  image_small data ->
  (let L := N.of_nat (length (t_pool tree)) + 4 * N.of_nat (length data) + 2 in
   L + L * (8 * N.of_nat (length data) + 3) + 4 <= InvalidIndex) ->
  match parseAML_body fuel (init_state tree earlier handle data) with
  | Ok (_, s') => exists g', R (p_tree s') g' /\ info_valid (p_tree s') /\ pool_ok (p_tables s') (p_tree s')
  | Panic => False
  | OutOfFuel => True
  end.
Proof.
  intros tree g earlier handle data fuel HR Hi H0 Hr0 Hsb HTM Htyp Hpool Hfresh Him Hcap.
  pose proof (parseAML_body_post3 tree g earlier handle data fuel HR Hi H0 Hr0 Hsb HTM Htyp Hpool Hfresh Him Hcap) as W.
  destruct (parseAML_body fuel (init_state tree earlier handle data)) as [[b s']| |]; auto.
  destruct W as (g' & A & B & C & _). exists g'. auto.
Qed.

(** ParseAML itself (the fuel the model passes is [parse_fuel]) *)
Theorem parseAML_never_panics : forall tree g earlier handle data,
  R tree g -> info_valid tree -> glive g 0 -> groot g 0 ->
  (exists o, tget tree 0 = Some o /\ o_opcode o = aml_pOpIntScopeBlock) ->
  TM3 tree g -> typed tree -> pool_ok earlier tree ->
  (forall i o, tget tree i = Some o -> o_tableHandle o <> handle) ->
  image_small data ->
  (let L := N.of_nat (length (t_pool tree)) + 4 * N.of_nat (length data) + 2 in
   L + L * (8 * N.of_nat (length data) + 3) + 4 <= InvalidIndex) ->
  match parseAML tree earlier handle data with
  | Ok (_, s') => exists g', R (p_tree s') g' /\ info_valid (p_tree s') /\ pool_ok (p_tables s') (p_tree s')
  | Panic => False
  | OutOfFuel => True
  end.
Proof. intros. unfold parseAML. apply (parseAML_body_never_panics tree g earlier handle data); assumption. Qed.


(** ---- the hypotheses are satisfiable: a pool that holds just the root scope, the table While (Zero) { } ---- *)
Definition ex1_ops : list op := [ OpNewNamed opScopeBlock 0 (0x5c, 0, 0, 0) ].
Definition ex1_tree : T := match run (@NewObjectTree value) ex1_ops with Ok t => t | _ => NewObjectTree end.
Definition ex1_ghost : ghost := arun ghost0 ex1_ops.
Definition ex1_image : list N := table_image [0xa2; 0x02; 0x00].

Lemma ex1_legal : legal_seq ghost0 ex1_ops.
Proof.
  unfold ex1_ops. cbn [legal_seq]. split; [|exact I]. cbn [legal].
  split; [vm_compute; discriminate | split; [first [left; vm_compute; discriminate | right; vm_compute; reflexivity] | intros _; vm_compute; reflexivity]].
Qed.

Lemma ex1_R : R ex1_tree ex1_ghost.
Proof.
  destruct (run_R ex1_ops (@NewObjectTree value) ghost0 R_empty ex1_legal) as (t' & Hrun & HR').
  unfold ex1_tree, ex1_ghost. rewrite Hrun. exact HR'.
Qed.

Lemma parseAML_hyps_example :
  exists (tree : T) (g : ghost) (data : list N),
    R tree g /\ info_valid tree /\ glive g 0 /\ groot g 0 /\
    (exists o, tget tree 0 = Some o /\ o_opcode o = aml_pOpIntScopeBlock) /\
    TM3 tree g /\ typed tree /\ pool_ok [] tree /\
    (forall i o, tget tree i = Some o -> o_tableHandle o <> 1) /\
    image_small data /\
    (let L := N.of_nat (length (t_pool tree)) + 4 * N.of_nat (length data) + 2 in
     L + L * (8 * N.of_nat (length data) + 3) + 4 <= InvalidIndex) /\
    match parseAML_body 200 (init_state tree [] 1 data) with Ok (b, s') => b = true /\ lp s' = 4 | _ => False end.
Proof.
  exists ex1_tree, ex1_ghost, ex1_image.
  assert (Hall : forall (P : N -> Obj -> Prop), (forall o, nth_error (t_pool ex1_tree) 0 = Some o -> P 0 o) -> forall i o, tget ex1_tree i = Some o -> P i o).
  { intros P HP. apply pool_cases. intros n o Hn. destruct n as [|n]; [apply HP; exact Hn|]. vm_compute in Hn. destruct n; discriminate. }
  split; [exact ex1_R|].
  split; [unfold info_valid; apply (Hall (fun i o => o_opcode o <> opFreed -> opInfo (o_infoIndex o) <> None)); intros o Ho _; vm_compute in Ho; inversion Ho; subst o; vm_compute; discriminate|].
  split; [split; [vm_compute; reflexivity|vm_compute; intuition discriminate]|].
  split; [apply groot_chk; vm_compute; reflexivity|].
  split; [eexists; split; vm_compute; reflexivity|].
  split; [unfold TM3; apply (Hall (fun m mo => o_opcode mo = aml_pOpMethod -> mtyped3 ex1_tree ex1_ghost m)); intros o Ho Hop; vm_compute in Ho; inversion Ho; subst o; vm_compute in Hop; discriminate|].
  split; [unfold typed; apply (Hall (fun i o => o_opcode o <> opFreed -> o_opcode o = aml_pOpIntNamePathOrMethodCall -> exists tbl sl, o_value o = Some (VBytes tbl sl)));
          intros o Ho _ Hop; vm_compute in Ho; inversion Ho; subst o; vm_compute in Hop; discriminate|].
  split; [unfold pool_ok; rewrite Forall_forall; intros o Hin; destruct (In_nth_error _ _ Hin) as (n & Hn);
          destruct n as [|n]; [vm_compute in Hn; inversion Hn; subst o; exact I|vm_compute in Hn; destruct n; discriminate]|].
  split; [apply (Hall (fun i o => o_tableHandle o <> 1)); intros o Ho; vm_compute in Ho; inversion Ho; subst o; vm_compute; discriminate|].
  split; [split; [repeat constructor; vm_compute; reflexivity|vm_compute; discriminate]|].
  split; [vm_compute; discriminate|].
  vm_compute. split; reflexivity.
Qed.
