(** C11 (fragment F3): the namespace view of the tree [root_tree3]: the contents of the Scope directives appear below
    the predefined scopes, the other items below the root. *)
From Coq Require Import NArith ZArith Arith List Bool Lia Permutation.
From Coq Require Import ZifyBool ZifyN ZifyNat.
From FF Require Import Lib.Word Gen.Consts_device_acpi_aml Gen.Consts_aml_tree Aml.Stream Aml.Lex
  Aml.Tree Aml.TreeSpec Aml.TreeProofs Aml.Parser Aml.Grammar Aml.LexRoundtrip
  Aml.ParserTotalBase Aml.ParserFragBase Aml.ParserFragFirst Aml.ParserFragF0 Aml.ParserFragF0Conn Aml.ParserFragF0Top
  Aml.ParserFragRose Aml.ParserFragF1 Aml.ParserFragF1First Aml.ParserFragF1Conn Aml.ParserFragF1Top
  Aml.View Aml.ParserFragView Aml.ParserFragF0View Aml.ParserFragF1View
  Aml.ParserFragScope Aml.ParserFragScope3 Aml.ParserFragF3Top.
Import ListNotations.
Local Open Scope N_scope.

Ltac Zify.zify_post_hook ::= Z.div_mod_to_equations.

Definition vkeep (ts : list titem) : list (list N) :=
  flat_map (fun x => match x with TItem it => ventry [] it | TScope _ _ _ _ => [] end) ts.
Definition vmoved (ts : list titem) (d : N) : list (list N) :=
  flat_map (fun x => match x with TItem _ => [] | TScope _ _ d' body => if d' =? d then ventries [dseg d] body else [] end) ts.
Definition view3 (ts : list titem) : list (list N) :=
  vmoved ts 1 ++ vmoved ts 2 ++ vmoved ts 3 ++ vmoved ts 4 ++ vmoved ts 5 ++ vkeep ts.

(** what the specification lists *)
Definition sentries3 (ts : list titem) : list (list N) :=
  flat_map (fun x => match x with TItem it => sentry [] it | TScope _ _ d body => sentries [dseg d] body end) ts.

Lemma perm_ins {A} (X L1 L2 : list A) : Permutation (L1 ++ X ++ L2) (X ++ L1 ++ L2).
Proof. apply Permutation_app_swap_app. Qed.

Lemma view3_perm : forall ts, forallb titem_okb ts = true -> Permutation (view3 ts) (sentries3 ts).
Proof.
  induction ts as [|x t IH]; intros Hok; [constructor|]. cbn [forallb] in Hok. apply andb_prop in Hok. destruct Hok as [Hx Hok].
  specialize (IH Hok). unfold view3 in *. cbn [sentries3 vkeep vmoved flat_map]. fold (vkeep t) (sentries3 t).
  fold (vmoved t 1) (vmoved t 2) (vmoved t 3) (vmoved t 4) (vmoved t 5).
  set (A1 := vmoved t 1) in *. set (A2 := vmoved t 2) in *. set (A3 := vmoved t 3) in *. set (A4 := vmoved t 4) in *. set (A5 := vmoved t 5) in *.
  set (K := vkeep t) in *.
  destruct x as [it|k root d body].
  - cbn [app]. eapply Permutation_trans; [|apply Permutation_app; [|exact IH]].
    2:{ pose proof (ventries_perm [it] []) as P. cbn [ventries sentries flat_map] in P. rewrite !app_nil_r in P. exact P. }
    replace (A1 ++ A2 ++ A3 ++ A4 ++ A5 ++ ventry [] it ++ K) with ((A1 ++ A2 ++ A3 ++ A4 ++ A5) ++ ventry [] it ++ K) by (rewrite <- !app_assoc; reflexivity).
    eapply Permutation_trans; [apply perm_ins|]. rewrite <- !app_assoc. apply Permutation_refl.
  - cbn [titem_okb] in Hx. apply andb_prop in Hx. destruct Hx as [Hx _]. apply andb_prop in Hx. destruct Hx as [Hx _].
    apply andb_prop in Hx. destruct Hx as [Hd1 Hd5]. apply N.leb_le in Hd1. apply N.leb_le in Hd5.
    set (X := ventries [dseg d] body).
    eapply Permutation_trans; [|apply Permutation_app; [apply (ventries_perm body [dseg d])|exact IH]]. fold X.
    assert (Hc : d = 1 \/ d = 2 \/ d = 3 \/ d = 4 \/ d = 5) by lia.
    destruct Hc as [ -> | [ -> | [ -> | [ -> | -> ] ] ] ]; cbn [N.eqb Pos.eqb app]; fold X.
    + rewrite <- !app_assoc. apply Permutation_refl.
    + rewrite <- !app_assoc. apply perm_ins.
    + replace (A1 ++ A2 ++ (X ++ A3) ++ A4 ++ A5 ++ K) with ((A1 ++ A2) ++ X ++ A3 ++ A4 ++ A5 ++ K) by (rewrite <- !app_assoc; reflexivity).
      eapply Permutation_trans; [apply perm_ins|]. rewrite <- !app_assoc. apply Permutation_refl.
    + replace (A1 ++ A2 ++ A3 ++ (X ++ A4) ++ A5 ++ K) with ((A1 ++ A2 ++ A3) ++ X ++ A4 ++ A5 ++ K) by (rewrite <- !app_assoc; reflexivity).
      eapply Permutation_trans; [apply perm_ins|]. rewrite <- !app_assoc. apply Permutation_refl.
    + replace (A1 ++ A2 ++ A3 ++ A4 ++ (X ++ A5) ++ K) with ((A1 ++ A2 ++ A3 ++ A4) ++ X ++ A5 ++ K) by (rewrite <- !app_assoc; reflexivity).
      eapply Permutation_trans; [apply perm_ins|]. rewrite <- !app_assoc. apply Permutation_refl.
Qed.

(** a named ScopeBlock with declarations below it *)
Lemma walkF_scope (t : T) tables f known p es stmts c co es' :
  obj t c = Some co -> o_opcode co = aml_pOpIntScopeBlock -> name_eqb (o_name co) (0, 0, 0, 0) = false ->
  walk t tables f known c (p ++ [name_num (o_name co)]) = (es', []) ->
  walkF t tables f known p (es, stmts) c = (es ++ es', stmts).
Proof.
  intros Ho Hop Hnm Hw. unfold walkF. rewrite Ho. cbv zeta.
  unfold is_zero_scopeblock. rewrite Hop, Hnm. change ((aml_pOpIntScopeBlock =? aml_pOpIntScopeBlock) && negb (true && false)) with true. cbv iota.
  rewrite Hw. cbn [anon map]. rewrite app_nil_r. reflexivity.
Qed.

Section ViewF3.
Variable t : T.
Variable g : ghost.
Variable pl : list pay.
Hypothesis H : Rep t g pl.
Variable tables : list (list N).

Lemma lay2_fuel vh vtbl its b off f : Forall (Desc g pl) (lay2 vh vtbl b off its) -> 6 <= b -> (6 <= length pl <= f + 2)%nat -> (iszs its < f)%nat.
Proof.
  intros HD Hb Hf. destruct (iszs its) as [|n] eqn:En; [lia|].
  assert (Hin : In (b + N.of_nat n) (rnodesl (lay2 vh vtbl b off its))) by (apply lay2_nodes_all; lia).
  unfold rnodesl in Hin. apply in_flat_map in Hin. destruct Hin as (r & Hr & Hy). rewrite Forall_forall in HD.
  destruct (Desc_lookup g pl r (HD r Hr) _ Hy) as (a & ks & Dy). destruct (Desc_inv _ _ _ _ _ Dy) as (Py & _ & _).
  apply pget_lt in Py. lia.
Qed.

Lemma keep_fold vh vtbl f known data : nth_error tables (N.to_nat vtbl) = Some data -> forall ts es st b dpre dpost,
  data = dpre ++ enc_titems ts ++ dpost ->
  Forall (Desc g pl) (keep vh vtbl b (lenN dpre) ts) -> forallb titem_okb ts = true -> 6 <= b -> (6 <= length pl <= f + 2)%nat ->
  fold_left (walkF t tables f known []) (map ridx (keep vh vtbl b (lenN dpre) ts)) (es, st) = (es ++ vkeep ts, st).
Proof.
  intros Hnth. induction ts as [|x ts IH]; intros es st b dpre dpost Hdata HD Hok Hb Hf.
  - cbn [keep map fold_left vkeep flat_map]. rewrite app_nil_r. reflexivity.
  - cbn [forallb] in Hok. apply andb_prop in Hok. destruct Hok as [Hx Hok].
    rewrite enc_titems_cons in Hdata.
    assert (Hd' : data = (dpre ++ enc_titem x) ++ enc_titems ts ++ dpost) by (rewrite Hdata, <- !app_assoc; reflexivity).
    assert (Ho' : lenN dpre + lenN (enc_titem x) = lenN (dpre ++ enc_titem x)) by (rewrite lenN_app; reflexivity).
    cbn [keep] in HD |- *. rewrite Ho' in HD |- *. apply Forall_app in HD. destruct HD as [HDx HDr]. rewrite map_app, fold_left_app.
    destruct x as [it|k root d body].
    + cbn [titem_okb] in Hx. rewrite <- lay2_single in HDx |- *. cbn [enc_titem] in Hdata.
      rewrite (vspec_all t g pl H tables [it] vh vtbl f known [] es st b (lenN dpre) data dpre (enc_titems ts ++ dpost) Hnth
                 ltac:(rewrite Hdata; cbn [enc_items flat_map]; rewrite <- !app_assoc; reflexivity) eq_refl
                 HDx ltac:(cbn [forallb]; rewrite Hx; reflexivity) (lay2_fuel _ _ _ _ _ _ HDx Hb Hf)).
      rewrite (IH _ st _ _ dpost Hd' HDr Hok ltac:(lia) Hf). cbn [vkeep flat_map ventries]. rewrite app_nil_r, <- app_assoc. reflexivity.
    + cbn [map fold_left]. rewrite (IH _ st _ _ dpost Hd' HDr Hok ltac:(lia) Hf). reflexivity.
Qed.

Lemma moved_fold vh vtbl f known d data : nth_error tables (N.to_nat vtbl) = Some data -> forall ts es st b dpre dpost,
  data = dpre ++ enc_titems ts ++ dpost ->
  Forall (Desc g pl) (moved vh vtbl b (lenN dpre) ts d) -> forallb titem_okb ts = true -> 6 <= b -> (6 <= length pl <= f + 2)%nat ->
  fold_left (walkF t tables f known [dseg d]) (map ridx (moved vh vtbl b (lenN dpre) ts d)) (es, st) = (es ++ vmoved ts d, st).
Proof.
  intros Hnth. induction ts as [|x ts IH]; intros es st b dpre dpost Hdata HD Hok Hb Hf.
  - cbn [moved map fold_left vmoved flat_map]. rewrite app_nil_r. reflexivity.
  - cbn [forallb] in Hok. apply andb_prop in Hok. destruct Hok as [Hx Hok].
    rewrite enc_titems_cons in Hdata.
    assert (Hd' : data = (dpre ++ enc_titem x) ++ enc_titems ts ++ dpost) by (rewrite Hdata, <- !app_assoc; reflexivity).
    assert (Ho' : lenN dpre + lenN (enc_titem x) = lenN (dpre ++ enc_titem x)) by (rewrite lenN_app; reflexivity).
    cbn [moved] in HD |- *. rewrite Ho' in HD |- *. apply Forall_app in HD. destruct HD as [HDx HDr]. rewrite map_app, fold_left_app.
    destruct x as [it|k root d' body].
    + cbn [map fold_left]. rewrite (IH _ st _ _ dpost Hd' HDr Hok ltac:(lia) Hf). reflexivity.
    + cbn [titem_okb] in Hx. apply andb_prop in Hx. destruct Hx as [Hx Hbody]. apply andb_prop in Hx. destruct Hx as [_ Hpk]. apply pkglen_okb_adm in Hpk.
      cbn [vmoved flat_map]. fold (vmoved ts d). destruct (d' =? d).
      * cbn [enc_titem] in Hdata. unfold sc_body in Hdata, Hpk.
        set (V := k + lenN (enc_name (sc_name root (dseg d')) ++ enc_items body)) in *.
        assert (Eo : lenN dpre + 1 + k + sc_len root = lenN (dpre ++ enc_op OP_SCOPE ++ enc_pkglen k V ++ enc_name (sc_name root (dseg d')))).
        { rewrite (lenN_app dpre), (lenN_app (enc_op _)), (lenN_app (enc_pkglen _ _)), (lenN_enc_pkglen _ _ Hpk), lenN_sc_name. change (lenN (enc_op OP_SCOPE)) with 1. lia. }
        rewrite Eo in HDx |- *.
        rewrite (vspec_all t g pl H tables body vh vtbl f known [dseg d] es st (b + 3) (lenN (dpre ++ enc_op OP_SCOPE ++ enc_pkglen k V ++ enc_name (sc_name root (dseg d')))) data
                   (dpre ++ enc_op OP_SCOPE ++ enc_pkglen k V ++ enc_name (sc_name root (dseg d'))) (enc_titems ts ++ dpost) Hnth
                   ltac:(rewrite Hdata, <- !app_assoc; reflexivity) eq_refl HDx Hbody (lay2_fuel _ _ _ _ _ _ HDx ltac:(lia) Hf)).
        rewrite (IH _ st _ _ dpost Hd' HDr Hok ltac:(lia) Hf). rewrite <- app_assoc. reflexivity.
      * cbn [map fold_left]. rewrite (IH _ st _ _ dpost Hd' HDr Hok ltac:(lia) Hf). reflexivity.
Qed.

Lemma dname_num d : 1 <= d <= 5 -> name_num (dname d) = dseg d /\ name_eqb (dname d) (0, 0, 0, 0) = false.
Proof.
  intros Hd. assert (Hc : d = 1 \/ d = 2 \/ d = 3 \/ d = 4 \/ d = 5) by lia.
  destruct Hc as [ -> | [ -> | [ -> | [ -> | -> ] ] ] ]; split; reflexivity.
Qed.

(** ---- the whole view ---- *)
Theorem view_f3 ts hdr : Desc g pl (root_tree3 ts) -> forallb titem_okb ts = true ->
  tables = [hdr ++ enc_titems ts] -> lenN hdr = aml_sizeofSDTHeader -> view t tables = view3 ts.
Proof.
  intros HD Hok Htb Hhdr.
  assert (Hnth : nth_error tables (N.to_nat 0) = Some (hdr ++ enc_titems ts ++ [])) by (rewrite Htb, app_nil_r; reflexivity). unfold view. set (known := [] :: collect_known t (pool_fuel t) 0 []).
  unfold pool_fuel at 1. rewrite walk_S.
  destruct (Desc_inv _ _ _ _ _ HD) as (P0 & K0 & HDk). apply Forall_app in HDk. destruct HDk as [HDl HD2].
  assert (Hlen : (6 <= length pl <= length (t_pool t) + 2)%nat).
  { rewrite <- (rep_len_pool _ _ _ H). split; [|lia]. cbn [D0' map] in HDl.
    pose proof (Forall_inv (Forall_inv_tail (Forall_inv_tail (Forall_inv_tail (Forall_inv_tail HDl))))) as D5.
    destruct (Desc_inv _ _ _ _ _ D5) as (P5 & _ & _). apply pget_lt in P5. lia. }
  destruct (view_obj t g pl 0 _ H P0 ltac:(discriminate)) as (so & Hso & _ & Hkso).
  rewrite Hso, Hkso, K0, map_app, fold_left_app.
  assert (Hleaf : forall d es, 1 <= d <= 5 ->
            walkF t tables (S (length (t_pool t))) known [] (es, []) d = (es ++ vmoved ts d, [])).
  { intros d es Hd.
    assert (Dd : Desc g pl (RN d (dpay d) (moved 1 0 6 aml_sizeofSDTHeader ts d))).
    { rewrite Forall_forall in HDl. apply HDl. apply in_map_iff. exists d. split; [reflexivity|]. unfold D0'. cbn [In]. lia. }
    destruct (Desc_inv _ _ _ _ _ Dd) as (Pd & Kd & HDm).
    destruct (view_obj t g pl d _ H Pd ltac:(discriminate)) as (co & Hco & Epco & Hkco).
    destruct (dname_num d Hd) as (En & Ez).
    apply (walkF_scope t tables _ known [] es [] d co); [exact Hco|rewrite (pay_op _ _ Epco); reflexivity|rewrite (pay_name _ _ Epco); exact Ez|].
    rewrite walk_S, Hco, Hkco, Kd, (pay_name _ _ Epco). cbn [dpay y_name app]. rewrite En.
    rewrite <- Hhdr in HDm |- *.
    rewrite (moved_fold 1 0 (length (t_pool t)) known d _ Hnth ts [] [] _ hdr [] eq_refl HDm Hok ltac:(lia) Hlen). reflexivity. }
  cbn [D0' map ridx fold_left].
  rewrite (Hleaf 1 []) by lia. rewrite (Hleaf 2) by lia. rewrite (Hleaf 3) by lia. rewrite (Hleaf 4) by lia. rewrite (Hleaf 5) by lia.
  rewrite <- Hhdr in HD2 |- *.
  rewrite (keep_fold 1 0 (S (length (t_pool t))) known _ Hnth ts _ [] _ hdr [] eq_refl HD2 Hok ltac:(lia) ltac:(lia)).
  cbn [app anon map]. rewrite app_nil_r. unfold view3. rewrite <- !app_assoc. reflexivity.
Qed.
End ViewF3.
