(** C12 (stretch): how far the lexer functions move the read offset.

    For a reader that satisfies [rok] (the reader invariant, a table at least 256 MiB + 1 KiB below
    4 GiB, offset within the table) every lexer function returns, keeps the window, never moves the
    offset backwards, keeps it within the table and - when it reports success - consumes at least one
    byte.  These are the facts behind the allocation bound of the first pass (every object created
    is paid for by a consumed byte) and behind its fuel bound. *)
From Coq Require Import NArith Arith List Bool Lia.
From Coq Require Import ZifyBool ZifyN ZifyNat.
From FF Require Import Lib.Word Gen.Consts_device_acpi_aml Aml.Stream Aml.Lex Aml.LexProofs Aml.LexRoundtrip.
Import ListNotations.
Local Open Scope N_scope.

Definition small_table (r : reader) : Prop := r_len r + 0x10000400 <= two32.
Definition rok (r : reader) : Prop := reader_wf r /\ small_table r /\ r_offset r <= r_len r.
Definition adv (r r1 : reader) : Prop := same_window r r1 /\ r_offset r <= r_offset r1 /\ r_offset r1 <= r_len r1.

Lemma rok_adv r r1 : rok r -> adv r r1 -> rok r1.
Proof.
  intros (W & S & O) (A & L & L'). split; [eapply wf_same_window; eauto|]. split; auto.
  destruct A as (_ & E & _). unfold small_table in *. rewrite E. exact S.
Qed.

Lemma adv_refl r : rok r -> adv r r.
Proof. intros (W & S & O). split; [apply same_window_refl|]. split; [lia|exact O]. Qed.

Lemma adv_trans a b c : adv a b -> adv b c -> adv a c.
Proof. intros (A1 & L1 & M1) (A2 & L2 & M2). split; [eapply same_window_trans; eauto|]. split; [lia|exact M2]. Qed.

Lemma small_no_wrap r : small_table r -> no_wrap r.
Proof. unfold small_table, no_wrap, two32. lia. Qed.

Lemma adv_len r r1 : adv r r1 -> r_len r1 = r_len r.
Proof. intros ((_ & E & _) & _). exact E. Qed.

Lemma rd1 r : rok r ->
  (readByte r = Ok (None, r) /\ r_pkgEnd r <= r_offset r) \/
  (exists b, readByte r = Ok (Some b, set_offset_raw r (r_offset r + 1)) /\ r_offset r < r_pkgEnd r /\ b < 256 /\
             adv r (set_offset_raw r (r_offset r + 1))).
Proof.
  intros (W & S & O). destruct (readByte_total r W) as [(E & R)|(E & b & Hb & R & Lt)].
  - left. split; auto. unfold eof in E. apply N.leb_le in E. exact E.
  - right. exists b. split; auto. split; auto. split; [eapply byte_at_byte; eauto|].
    split; [apply same_window_set_offset|]. cbn. destruct W as (_ & W2 & _). lia.
Qed.

Lemma land15 x : N.land x 0xf < 16.
Proof. change 0xf with (N.ones 4). rewrite N.land_ones. apply N.mod_lt. discriminate. Qed.

(** ---- parsePkgLength ---- *)
Lemma fail_adv r r' : rok r -> adv r r' ->
  adv r (setOffset r' (r_offset r)) /\ r_offset (setOffset r' (r_offset r)) = r_offset r.
Proof.
  intros (W & S & O) (A & L & L').
  assert (E : r_offset (setOffset r' (r_offset r)) = r_offset r).
  { apply setOffset_noclamp. destruct A as (_ & E & _). rewrite E. exact O. }
  split; auto. split; [eapply same_window_trans; [exact A|apply same_window_setOffset]|].
  rewrite E. split; [lia|]. destruct A as (_ & E' & _). cbn. rewrite E'. exact O.
Qed.

Lemma parsePkgLength_off r : rok r ->
  exists v ok r1, parsePkgLength r = Ok (v, ok, r1) /\ adv r r1 /\
    (ok = true -> r_offset r < r_offset r1 /\ v < 0x10000000) /\ (ok = false -> r_offset r1 = r_offset r).
Proof.
  intros H. unfold parsePkgLength.
  destruct (rd1 r H) as [(E & _)|(lead & E & Lt & Hb & A1)]; rewrite E; cbn [bind].
  { destruct (fail_adv r r H (adv_refl r H)) as (F1 & F2).
    do 3 eexists. split; [reflexivity|]. split; [exact F1|]. split; [discriminate|auto]. }
  set (r1 := set_offset_raw r (r_offset r + 1)) in *.
  assert (H1 : rok r1) by (eapply rok_adv; eauto).
  destruct (N.shiftr lead 6 =? 0).
  { do 3 eexists. split; [reflexivity|]. split; [exact A1|]. split; [|discriminate].
    intros _. cbn. lia. }
  destruct (rd1 r1 H1) as [(E1 & _)|(b1 & E1 & Lt1 & Hb1 & A2)]; rewrite E1; cbn [bind].
  { destruct (fail_adv r r1 H A1) as (F1 & F2).
    do 3 eexists. split; [reflexivity|]. split; [exact F1|]. split; [discriminate|auto]. }
  set (r2 := set_offset_raw r1 (r_offset r1 + 1)) in *.
  assert (A02 : adv r r2) by (eapply adv_trans; eauto).
  assert (H2 : rok r2) by (eapply rok_adv; eauto).
  pose proof (land15 lead) as Hlow.
  destruct (N.shiftr lead 6 =? 1).
  { do 3 eexists. split; [reflexivity|]. split; [exact A02|]. split; [|discriminate].
    intros _. rewrite lor2 by exact Hlow. cbn. lia. }
  destruct (rd1 r2 H2) as [(E2 & _)|(b2 & E2 & Lt2 & Hb2 & A3)]; rewrite E2; cbn [bind].
  { destruct (fail_adv r r2 H A02) as (F1 & F2).
    do 3 eexists. split; [reflexivity|]. split; [exact F1|]. split; [discriminate|auto]. }
  set (r3 := set_offset_raw r2 (r_offset r2 + 1)) in *.
  assert (A03 : adv r r3) by (eapply adv_trans; eauto).
  assert (H3 : rok r3) by (eapply rok_adv; eauto).
  destruct (N.shiftr lead 6 =? 2).
  { do 3 eexists. split; [reflexivity|]. split; [exact A03|]. split; [|discriminate].
    intros _. rewrite lor3 by (auto; exact Hlow). cbn. lia. }
  destruct (rd1 r3 H3) as [(E3 & _)|(b3 & E3 & Lt3 & Hb3 & A4)]; rewrite E3; cbn [bind].
  { destruct (fail_adv r r3 H A03) as (F1 & F2).
    do 3 eexists. split; [reflexivity|]. split; [exact F1|]. split; [discriminate|auto]. }
  set (r4 := set_offset_raw r3 (r_offset r3 + 1)) in *.
  assert (A04 : adv r r4) by (eapply adv_trans; eauto).
  do 3 eexists. split; [reflexivity|]. split; [exact A04|]. split; [|discriminate].
  intros _. rewrite lor4 by (auto; exact Hlow). cbn. lia.
Qed.

(** ---- parseNumConstant ---- *)
Lemma parseNum_go_off cnt : forall c acc r, rok r ->
  exists v ok r1, parseNum_go cnt c acc r = Ok (v, ok, r1) /\ adv r r1 /\
     (ok = true -> r_offset r1 = r_offset r + N.of_nat cnt).
Proof.
  induction cnt as [|cnt IH]; intros c acc r H; cbn [parseNum_go].
  - exists acc, true, r. split; auto. split; [apply adv_refl; auto|]. intros _. lia.
  - destruct (rd1 r H) as [(E & _)|(b & E & Lt & Hb & A)]; rewrite E; cbn [bind].
    + exists 0, false, r. split; auto. split; [apply adv_refl; auto|discriminate].
    + destruct (IH (c + 1) (N.lor acc (w64 (N.shiftl b (w8 (c * 8))))) _ (rok_adv _ _ H A)) as (v & ok & r1 & E1 & A1 & K).
      exists v, ok, r1. split; auto. split; [eapply adv_trans; eauto|]. intros Hk. rewrite (K Hk). cbn. lia.
Qed.

Lemma parseNumConstant_off k r : rok r ->
  exists v ok r1, parseNumConstant k r = Ok (v, ok, r1) /\ adv r r1 /\ (ok = true -> r_offset r1 = r_offset r + k).
Proof.
  intros H. destruct (parseNum_go_off (N.to_nat k) 0 0 r H) as (v & ok & r1 & E & A & K).
  exists v, ok, r1. split; auto. split; auto. intros Hk. rewrite (K Hk). lia.
Qed.

(** ---- parseString ---- *)
Lemma parseString_go_off fuel : forall ptr len r s ok r1, rok r ->
  parseString_go fuel ptr len r = Ok (s, ok, r1) -> adv r r1 /\ (ok = true -> r_offset r < r_offset r1).
Proof.
  induction fuel as [|fuel IH]; intros ptr len r s ok r1 H E; cbn [parseString_go] in E; [discriminate|].
  destruct (rd1 r H) as [(R & _)|(b & R & Lt & Hb & A)]; rewrite R in E; cbn [bind] in E.
  - inversion E; subst. split; [apply adv_refl; auto|discriminate].
  - destruct (b =? 0). { inversion E; subst. split; auto. intros _. cbn. lia. }
    destruct ((1 <=? b) && (b <=? 0x7f)).
    + destruct (IH _ _ _ _ _ _ (rok_adv _ _ H A) E) as (A1 & K). split; [eapply adv_trans; eauto|].
      intros Hk. specialize (K Hk). cbn in K. lia.
    + inversion E; subst. split; auto. discriminate.
Qed.

Lemma parseString_off r : rok r ->
  exists s ok r1, parseString r = Ok (s, ok, r1) /\ adv r r1 /\ (ok = true -> r_offset r < r_offset r1).
Proof.
  intros H. pose proof H as (W & _ & _).
  pose proof (safe2_parseString r r W W (sim_refl r)) as SS.
  destruct (parseString r) as [[[s ok] r1]| |] eqn:E; try contradiction. clear SS.
  exists s, ok, r1. split; auto. unfold parseString in E.
  destruct (dataPtr r) as [ptr| |]; cbn [bind] in E; try discriminate.
  eapply parseString_go_off; eauto.
Qed.

(** ---- nextOpcode ---- *)
Lemma nextOpcode_off r : rok r ->
  exists op ok r1, nextOpcode r = Ok (op, ok, r1) /\ adv r r1 /\
    (ok = true -> r_offset r < r_offset r1 /\ op <= 0x1fe /\
                  exists idx, opcodeTableIndex op false = Some idx /\ idx <> aml_badOpcode) /\
    (ok = false -> r_offset r1 = r_offset r /\ op = 0xffff).
Proof.
  intros H. pose proof H as (W & S & O). unfold nextOpcode.
  destruct (rd1 r H) as [(E & _)|(next & E & Lt & Hb & A1)]; rewrite E; cbn [bind].
  { do 3 eexists. split; [reflexivity|]. split; [apply adv_refl; auto|]. split; [discriminate|auto]. }
  set (r1 := set_offset_raw r (r_offset r + 1)) in *.
  assert (H1 : rok r1) by (eapply rok_adv; eauto).
  assert (O32 : r_offset r < two32) by (unfold small_table, two32 in *; lia).
  destruct (next =? aml_extOpPrefix).
  - destruct (rd1 r1 H1) as [(E1 & _)|(next2 & E1 & Lt1 & Hb1 & A2)]; rewrite E1; cbn [bind].
    + unfold unreadByte. assert (Hz : r_offset r1 =? 0 = false) by (apply N.eqb_neq; cbn; lia). rewrite Hz. cbn [fst].
      do 3 eexists. split; [reflexivity|]. cbn [r_offset set_offset_raw r1].
      split; [|split; [discriminate|intros _; split; [lia|reflexivity]]].
      split; [repeat split|]. cbn. split; lia.
    + set (r2 := set_offset_raw r1 (r_offset r1 + 1)) in *.
      assert (A02 : adv r r2) by (eapply adv_trans; eauto).
      assert (Hop : w16 (255 + next2) <= 0x1fe) by (unfold w16, two16; lia).
      destruct (opcodeTableIndex_total _ Hop) as (i & Ei). rewrite Ei.
      destruct (N.eqb_spec i aml_badOpcode) as [Eb|Eb].
      * assert (Eo : w32 (r_offset r2 + two32 - 2) = r_offset r).
        { cbn. unfold w32. unfold two32 in *. lia. }
        rewrite Eo. destruct (fail_adv r r2 H A02) as (F1 & F2).
        do 3 eexists. split; [reflexivity|]. split; [exact F1|]. split; [discriminate|auto].
      * do 3 eexists. split; [reflexivity|]. split; [exact A02|]. split; [|discriminate].
        intros _. split; [cbn; lia|]. split; [exact Hop|]. exists i. auto.
  - assert (Hop : next <= 0x1fe) by lia.
    destruct (opcodeTableIndex_total _ Hop) as (i & Ei). rewrite Ei.
    destruct (N.eqb_spec i aml_badOpcode) as [Eb|Eb].
    * assert (Eo : w32 (r_offset r1 + two32 - 1) = r_offset r).
      { cbn. unfold w32. unfold two32 in *. lia. }
      rewrite Eo. destruct (fail_adv r r1 H A1) as (F1 & F2).
      do 3 eexists. split; [reflexivity|]. split; [exact F1|]. split; [discriminate|auto].
    * do 3 eexists. split; [reflexivity|]. split; [exact A1|]. split; [|discriminate].
      intros _. split; [cbn; lia|]. split; [exact Hop|]. exists i. auto.
Qed.

(** ---- parseNameString ---- *)
Lemma skipPrefix_go_adv fuel : forall r ok r1, rok r -> skipPrefix_go fuel r = Ok (ok, r1) ->
  adv r r1 /\ (ok = true -> r_offset r1 < r_pkgEnd r1).
Proof.
  induction fuel as [|fuel IH]; intros r ok r1 H E; cbn [skipPrefix_go] in E; [discriminate|].
  unfold peekByte in E. destruct (eof r) eqn:Ee; cbn [bind] in E.
  - inversion E; subst. split; [apply adv_refl; auto|discriminate].
  - destruct (byte_at (r_data r) (r_offset r)) as [b|]; cbn [bind] in E; [|discriminate].
    destruct ((b =? 0x5c) || (b =? 0x5e)).
    + destruct (rd1 r H) as [(R & Hge)|(b' & R & Lt & Hb & A)].
      * unfold eof in Ee. apply N.leb_gt in Ee. lia.
      * rewrite R in E. cbn [bind] in E. destruct (IH _ _ _ (rok_adv _ _ H A) E) as (A1 & K).
        split; [eapply adv_trans; eauto|exact K].
    + inversion E; subst. split; [apply adv_refl; auto|]. intros _. unfold eof in Ee. apply N.leb_gt in Ee. exact Ee.
Qed.

Lemma setOffset_adv r e : rok r -> r_offset r <= e -> e <= r_pkgEnd r -> adv r (setOffset r e) /\ r_offset (setOffset r e) = e.
Proof.
  intros (W & S & O) L1 L2. destruct W as (W1 & W2 & W3 & W4).
  assert (E : r_offset (setOffset r e) = e) by (apply setOffset_noclamp; lia).
  split; auto. split; [apply same_window_setOffset|]. rewrite E. split; auto. cbn. lia.
Qed.

Lemma parseNameString_inv r s ok r1 : rok r -> parseNameString r = Ok (s, ok, r1) ->
  adv r r1 /\ (ok = true -> r_offset r < r_offset r1).
Proof.
  intros H E. pose proof H as (W & S & O). unfold parseNameString in E.
  destruct (dataPtr r) as [ptr| |]; cbn [bind] in E; try discriminate.
  destruct (skipPrefix_go (stream_fuel r) r) as [[ok1 r2]| |] eqn:ESK; try discriminate. cbn [bind] in E.
  destruct (skipPrefix_go_adv _ _ _ _ H ESK) as (A1 & Hok).
  assert (H2 : rok r2) by (eapply rok_adv; eauto).
  destruct ok1; cbn [negb] in E.
  2:{ inversion E; subst. split; auto. discriminate. }
  specialize (Hok eq_refl).
  destruct (rd1 r2 H2) as [(R & Hge)|(b & R & Lt & Hb & A2)]; rewrite R in E; cbn [bind] in E; [lia|].
  set (r3 := set_offset_raw r2 (r_offset r2 + 1)) in *.
  assert (A03 : adv r r3) by (eapply adv_trans; eauto).
  assert (H3 : rok r3) by (eapply rok_adv; eauto).
  assert (O3 : r_offset r3 = r_offset r2 + 1) by reflexivity.
  assert (L02 : r_offset r <= r_offset r2) by (destruct A1 as (_ & L & _); exact L).
  assert (P3 : r_pkgEnd r3 <= r_len r3) by (destruct H3 as ((_ & P & _) & _); exact P).
  assert (B3 : r_len r3 + 0x10000400 <= two32) by (destruct H3 as (_ & P & _); exact P).
  destruct (b =? 0).
  { inversion E; subst. split; auto. intros _. lia. }
  destruct (b =? 0x2e).
  { destruct (r_pkgEnd r3 <? w32 (r_offset r3 + w32 (aml_amlNameLen * 2))) eqn:EE.
    - inversion E; subst. split; auto. discriminate.
    - apply N.ltb_ge in EE.
      assert (Ew : w32 (r_offset r3 + w32 (aml_amlNameLen * 2)) = r_offset r3 + 8).
      { destruct H3 as (_ & _ & O3'). unfold w32, aml_amlNameLen, two32 in *. lia. }
      rewrite Ew in *. destruct (setOffset_adv r3 (r_offset r3 + 8) H3) as (A4 & E4); [lia|lia|].
      set (r5 := setOffset r3 (r_offset r3 + 8)) in *. clearbody r5.
      inversion E; subst. split; [eapply adv_trans; eauto|]. intros _. lia. }
  destruct (b =? 0x2f).
  { destruct (rd1 r3 H3) as [(R' & Hge')|(sc & R' & Lt' & Hsc & A4)]; rewrite R' in E; cbn [bind] in E.
    { inversion E; subst. split; auto. discriminate. }
    set (r4 := set_offset_raw r3 (r_offset r3 + 1)) in *.
    assert (A04 : adv r r4) by (eapply adv_trans; eauto).
    assert (H4 : rok r4) by (eapply rok_adv; eauto).
    destruct (sc =? 0). { inversion E; subst. split; auto. discriminate. }
    assert (Hx : w8 (sc * aml_amlNameLen) < 256) by (unfold w8, two8; apply N.mod_lt; discriminate).
    remember (w8 (sc * aml_amlNameLen)) as x eqn:Ex. clear Ex.
    assert (O4 : r_offset r4 <= r_len r4) by (destruct H4 as (_ & _ & P); exact P).
    assert (B4 : r_len r4 + 0x10000400 <= two32) by (destruct H4 as (_ & P & _); exact P).
    assert (Ew : w32 (r_offset r4 + x) = r_offset r4 + x) by (unfold w32, two32 in *; apply N.mod_small; lia).
    rewrite Ew in E.
    destruct (r_pkgEnd r4 <? r_offset r4 + x) eqn:EE.
    - inversion E; subst. split; auto. discriminate.
    - apply N.ltb_ge in EE. destruct (setOffset_adv r4 (r_offset r4 + x) H4) as (A5 & E5); [lia|lia|].
      set (r5 := setOffset r4 (r_offset r4 + x)) in *. clearbody r5.
      assert (O4' : r_offset r4 = r_offset r3 + 1) by reflexivity.
      inversion E; subst. split; [eapply adv_trans; eauto|]. intros _. lia. }
  destruct (((b <? 0x41) || (0x5a <? b)) && negb (b =? 0x5f)). { inversion E; subst. split; auto. discriminate. }
  destruct (r_pkgEnd r3 <? w32 (r_offset r3 + w32 (aml_amlNameLen - 1))) eqn:EE.
  - inversion E; subst. split; auto. discriminate.
  - apply N.ltb_ge in EE.
    assert (Ew : w32 (r_offset r3 + w32 (aml_amlNameLen - 1)) = r_offset r3 + 3).
    { destruct H3 as (_ & _ & O3'). unfold w32, aml_amlNameLen, two32 in *. lia. }
    rewrite Ew in *. destruct (setOffset_adv r3 (r_offset r3 + 3) H3) as (A4 & E4); [lia|lia|].
    set (r5 := setOffset r3 (r_offset r3 + 3)) in *. clearbody r5.
    inversion E; subst. split; [eapply adv_trans; eauto|]. intros _. lia.
Qed.

Lemma parseNameString_off r : rok r ->
  exists s ok r1, parseNameString r = Ok (s, ok, r1) /\ adv r r1 /\ (ok = true -> r_offset r < r_offset r1).
Proof.
  intros H. pose proof H as (W & _ & _).
  pose proof (safe2_parseNameString r r W W (sim_refl r)) as SS.
  destruct (parseNameString r) as [[[s ok] r1]| |] eqn:E; try contradiction. clear SS.
  exists s, ok, r1. split; auto. eapply parseNameString_inv; eauto.
Qed.
