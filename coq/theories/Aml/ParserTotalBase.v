(** C12 (stretch): the logic used to prove that the first pass of ParseAML never panics.

    [wp P m s Q]: running [m] from [s] does not panic; when it returns, [Q] holds of the result and
    the final state; it may run out of fuel only when [P] holds.

    [FI s g]: the invariant of the first pass - the pool represents the forest [g] (C13's relation
    [R]), every live object carries an opcode-table index inside pOpcodeTable, the reader invariant
    holds, the parser skips deferred blocks (parseModeSkipAmbiguousBlocks), and the scope stack
    holds live objects.

    [Ext s0 g0 s g]: what every first-pass function guarantees about the state it returns relative
    to the state it was called in (the forest only grows, see [gext]; the read offset does not move
    backwards; the scope stack is only pushed to).

    (also: the pkgEnd stack is only pushed to, one consumed byte at least per push.)
    [Phi s]: pool size + 4 * bytes left.  The first pass pays for every object it creates with a
    byte it consumes, which bounds the pool size (no wrap of the uint32 object index). *)
From Coq Require Import NArith Arith List Bool Lia.
From Coq Require Import ZifyBool ZifyN ZifyNat.
From FF Require Import Lib.Word Gen.Consts_device_acpi_aml Gen.Consts_aml_tree Aml.Stream Aml.Lex Aml.LexProofs
  Aml.Tree Aml.TreeSpec Aml.TreeProofs Aml.TreeProofsOps Aml.Parser
  Aml.ParserTotalTree Aml.ParserTotalLex Aml.ParserTotalTable.
Import ListNotations.
Local Open Scope N_scope.

Notation tget := TreeSpec.get.

(** ---- weakest preconditions ---- *)
Definition wp {A} (P : Prop) (m : M A) (s : pstate) (Q : A -> pstate -> Prop) : Prop :=
  match m s with Ok (a, s') => Q a s' | Panic => False | OutOfFuel => P end.

Lemma wp_bind {A B} P (m : M A) (f : A -> M B) s Q :
  wp P m s (fun a s1 => wp P (f a) s1 Q) -> wp P (bindM m f) s Q.
Proof. unfold wp, bindM. destruct (m s) as [[a s1]| |]; auto. Qed.

Lemma wp_ret {A} P (a : A) s (Q : A -> pstate -> Prop) : Q a s -> wp P (ret a) s Q.
Proof. intros H. exact H. Qed.

Lemma wp_weaken {A} (P P' : Prop) (m : M A) s (Q Q' : A -> pstate -> Prop) :
  wp P' m s Q' -> (P' -> P) -> (forall a s', Q' a s' -> Q a s') -> wp P m s Q.
Proof. unfold wp. destruct (m s) as [[a s1]| |]; auto. Qed.

Lemma wp_get {A} P (f : pstate -> A) s (Q : A -> pstate -> Prop) : Q (f s) s -> wp P (get f) s Q.
Proof. intros H. exact H. Qed.

Lemma wp_outOfFuel {A} (P : Prop) s (Q : A -> pstate -> Prop) : P -> wp P outOfFuel s Q.
Proof. intros H. exact H. Qed.

(** ---- the measures ---- *)
Definition lp (s : pstate) : N := N.of_nat (length (t_pool (p_tree s))).
Definition rem (s : pstate) : N := r_len (p_r s) - r_offset (p_r s).
Definition Phi (s : pstate) : N := lp s + 4 * rem s.

(** ---- the invariant ---- *)
Definition info_valid (t : T) : Prop :=
  forall i o, tget t i = Some o -> o_opcode o <> opFreed -> opInfo (o_infoIndex o) <> None.

Record FIm (md : bool) (s : pstate) (g : ghost) : Prop := mkFIm {
  fi_R : R (p_tree s) g;
  fi_info : info_valid (p_tree s);
  fi_rok : rok (p_r s);
  fi_skip : p_allBlocks s = md;
  fi_scopes : Forall (glive g) (p_scopeStack s)
}.
Arguments fi_R {md} s g _.
Arguments fi_info {md} s g _.
Arguments fi_rok {md} s g _.
Arguments fi_skip {md} s g _.
Arguments fi_scopes {md} s g _.
(** [FI]: the invariant in the mode of the first pass (parseModeSkipAmbiguousBlocks) *)
Notation FI := (FIm false).

Record Ext (s0 : pstate) (g0 : ghost) (s : pstate) (g : ghost) : Prop := mkExt {
  ex_g : gext g0 g;
  ex_len : r_len (p_r s) = r_len (p_r s0);
  ex_off : r_offset (p_r s0) <= r_offset (p_r s);
  ex_scopes : exists extra, p_scopeStack s = extra ++ p_scopeStack s0;
  ex_pk : (length (p_pkgEndStack s0) <= length (p_pkgEndStack s))%nat;
  ex_paid : N.of_nat (length (p_pkgEndStack s)) + r_offset (p_r s0) <= N.of_nat (length (p_pkgEndStack s0)) + r_offset (p_r s)
}.

Lemma Ext_refl s g : Ext s g s g.
Proof. constructor; [apply gext_refl|reflexivity|lia|exists []; reflexivity|lia|lia]. Qed.

Lemma Ext_trans s0 g0 s1 g1 s2 g2 : Ext s0 g0 s1 g1 -> Ext s1 g1 s2 g2 -> Ext s0 g0 s2 g2.
Proof.
  intros [A1 A2 A3 (e1 & A4) A5 A6] [B1 B2 B3 (e2 & B4) B5 B6]. constructor; [eapply gext_trans; eauto|congruence|lia| |lia|lia].
  exists (e2 ++ e1). rewrite B4, A4. apply app_assoc.
Qed.

(** ---- the invariant and the components of the state ---- *)
Lemma FI_with_r {md} s g r1 : FIm md s g -> rok r1 -> FIm md (with_r s r1) g.
Proof. intros [A B C D E] H. constructor; auto. Qed.

Lemma FI_with_scope {md} s g l : FIm md s g -> Forall (glive g) l -> FIm md (with_scopeStack s l) g.
Proof. intros [A B C D E] H. constructor; auto. Qed.

Lemma FI_with_pkgEnd {md} s g l : FIm md s g -> FIm md (with_pkgEndStack s l) g.
Proof. intros [A B C D E]. constructor; auto. Qed.

Lemma FI_with_tree {md} s g t' g' :
  FIm md s g -> R t' g' -> info_valid t' -> (forall x, glive g x -> glive g' x) -> FIm md (with_tree s t') g'.
Proof.
  intros [A B C D E] HR Hi Hl. constructor; auto. cbn [p_scopeStack with_tree].
  eapply Forall_impl; [|exact E]. exact Hl.
Qed.

Lemma FI_live_get {md} s g p : FIm md s g -> glive g p -> exists o, tget (p_tree s) p = Some o /\ o_opcode o <> opFreed.
Proof. intros H Hl. apply (R_live_glive _ _ (fi_R _ _ H)) in Hl. exact Hl. Qed.

Lemma FI_ObjectAt {md} s g p : FIm md s g -> glive g p -> ObjectAt (p_tree s) p = Some p.
Proof.
  intros H Hl. destruct (FI_live_get _ _ _ H Hl) as (o & Hg & Ho).
  eapply ObjectAt_live; eauto. apply (R_bound _ _ (fi_R _ _ H)).
Qed.

Lemma info_valid_pframe (t t' : T) : info_valid t -> pframe t t' -> info_valid t'.
Proof.
  intros Hi Hp i o' Hg Hl. destruct (pframe_inv _ _ _ _ Hp Hg) as (o & Ho & E1 & E2 & _).
  rewrite E2. apply (Hi _ _ Ho). congruence.
Qed.

Lemma info_valid_tset (t : T) p f :
  info_valid t ->
  (forall o, tget t p = Some o -> o_opcode o <> opFreed -> opInfo (o_infoIndex (f o)) <> None) ->
  (forall o, tget t p = Some o -> (o_opcode (f o) = opFreed <-> o_opcode o = opFreed)) ->
  info_valid (tset t p f).
Proof.
  intros Hi Hf Hop i o' Hg Hl. rewrite get_tset in Hg. destruct (N.eqb_spec i p) as [->|Hne].
  - destruct (tget t p) as [o|] eqn:E; cbn [option_map] in Hg; [|discriminate]. inversion Hg; subst o'.
    apply (Hf o); auto. intros Hfr. apply Hl. apply (Hop o); auto.
  - eapply Hi; eauto.
Qed.

Lemma FI_tset {md} s g p f :
  FIm md s g ->
  (forall o, tget (p_tree s) p = Some o -> lk_eq o (f o)) ->
  (forall o, tget (p_tree s) p = Some o -> o_opcode o <> opFreed -> opInfo (o_infoIndex (f o)) <> None) ->
  FIm md (with_tree s (tset (p_tree s) p f)) g.
Proof.
  intros H Hlk Hinf. apply FI_with_tree with (g := g); auto.
  - apply R_tset_lk; [apply (fi_R _ _ H)|exact Hlk].
  - apply info_valid_tset; [apply (fi_info _ _ H)|exact Hinf|].
    intros o Ho. destruct (Hlk o Ho) as (E & _). exact E.
Qed.

(** ---- primitive steps ---- *)
Lemma wp_lex {A} P (f : reader -> outcome (A * bool * reader)) s (Q : A * bool -> pstate -> Prop) :
  (exists a ok r1, f (p_r s) = Ok (a, ok, r1) /\ Q (a, ok) (with_r s r1)) -> wp P (lex f) s Q.
Proof. intros (a & ok & r1 & E & H). unfold wp, lex. rewrite E. exact H. Qed.

Lemma wp_pkglen P s (Q : N * bool -> pstate -> Prop) : rok (p_r s) ->
  (forall v ok r1, adv (p_r s) r1 -> (ok = true -> r_offset (p_r s) < r_offset r1 /\ v < 0x10000000) ->
                   (ok = false -> r_offset r1 = r_offset (p_r s)) -> Q (v, ok) (with_r s r1)) ->
  wp P (lex parsePkgLength) s Q.
Proof.
  intros H K. destruct (parsePkgLength_off _ H) as (v & ok & r1 & E & A & K1 & K2).
  apply wp_lex. exists v, ok, r1. split; auto.
Qed.

Lemma wp_num P k s (Q : N * bool -> pstate -> Prop) : rok (p_r s) ->
  (forall v ok r1, adv (p_r s) r1 -> (ok = true -> r_offset r1 = r_offset (p_r s) + k) -> Q (v, ok) (with_r s r1)) ->
  wp P (lex (parseNumConstant k)) s Q.
Proof.
  intros H K. destruct (parseNumConstant_off k _ H) as (v & ok & r1 & E & A & K1).
  apply wp_lex. exists v, ok, r1. split; auto.
Qed.

Lemma wp_string P s (Q : slice * bool -> pstate -> Prop) : rok (p_r s) ->
  (forall v ok r1, adv (p_r s) r1 -> (ok = true -> r_offset (p_r s) < r_offset r1) -> Q (v, ok) (with_r s r1)) ->
  wp P (lex parseString) s Q.
Proof.
  intros H K. destruct (parseString_off _ H) as (v & ok & r1 & E & A & K1).
  apply wp_lex. exists v, ok, r1. split; auto.
Qed.

Lemma wp_namestring P s (Q : slice * bool -> pstate -> Prop) : rok (p_r s) ->
  (forall v ok r1, adv (p_r s) r1 -> (ok = true -> r_offset (p_r s) < r_offset r1) -> Q (v, ok) (with_r s r1)) ->
  wp P (lex parseNameString) s Q.
Proof.
  intros H K. destruct (parseNameString_off _ H) as (v & ok & r1 & E & A & K1).
  apply wp_lex. exists v, ok, r1. split; auto.
Qed.

Lemma wp_nextop P s (Q : N * bool -> pstate -> Prop) : rok (p_r s) ->
  (forall op ok r1, adv (p_r s) r1 ->
     (ok = true -> r_offset (p_r s) < r_offset r1 /\ op <= 0x1fe /\
                   exists idx, opcodeTableIndex op false = Some idx /\ idx <> aml_badOpcode) ->
     (ok = false -> r_offset r1 = r_offset (p_r s) /\ op = 0xffff) -> Q (op, ok) (with_r s r1)) ->
  wp P (lex nextOpcode) s Q.
Proof.
  intros H K. destruct (nextOpcode_off _ H) as (v & ok & r1 & E & A & K1 & K2).
  apply wp_lex. exists v, ok, r1. split; auto.
Qed.

Lemma wp_readByte P s (Q : option N -> pstate -> Prop) : rok (p_r s) ->
  (forall b r1, adv (p_r s) r1 ->
     (b = None -> r_offset r1 = r_offset (p_r s) /\ r_pkgEnd (p_r s) <= r_offset (p_r s)) ->
     (forall x, b = Some x -> r_offset r1 = r_offset (p_r s) + 1 /\ x < 256 /\ r_offset (p_r s) < r_pkgEnd (p_r s)) ->
     Q b (with_r s r1)) ->
  wp P readByteM s Q.
Proof.
  intros H K. unfold wp, readByteM.
  destruct (rd1 _ H) as [(E & Hge)|(b & E & Lt & Hb & A)]; rewrite E.
  - apply K; [apply adv_refl; auto|auto|discriminate].
  - apply K; [exact A|discriminate|]. intros x Hx. inversion Hx; subst. cbn. auto.
Qed.

Lemma wp_ru P f s (Q : unit -> pstate -> Prop) : Q tt (with_r s (f (p_r s))) -> wp P (ru f) s Q.
Proof. intros H. exact H. Qed.

Lemma wp_setPkgEnd P e s (Q : bool -> pstate -> Prop) :
  Q (snd (setPkgEnd (p_r s) e)) (with_r s (fst (setPkgEnd (p_r s) e))) -> wp P (setPkgEndM e) s Q.
Proof. unfold wp, setPkgEndM. destruct (setPkgEnd (p_r s) e) as [r ok]. auto. Qed.

Lemma rok_setPkgEnd r e : rok r -> rok (fst (setPkgEnd r e)).
Proof.
  intros ((W1 & W2 & W3 & W4) & S & O). unfold setPkgEnd. destruct (r_len r <? e) eqn:E; cbn [fst].
  - split; [repeat split; auto|auto].
  - apply N.ltb_ge in E. split; [repeat split; auto|auto].
Qed.

Lemma setPkgEnd_off r e : r_offset (fst (setPkgEnd r e)) = r_offset r /\ r_len (fst (setPkgEnd r e)) = r_len r.
Proof. unfold setPkgEnd. destruct (r_len r <? e); auto. Qed.

Lemma rok_setOffset r o : rok r -> rok (setOffset r o) /\ r_len (setOffset r o) = r_len r.
Proof.
  intros (W & S & O). split; auto. split; [eapply wf_same_window; [exact W|apply same_window_setOffset]|].
  split; [exact S|]. unfold setOffset. cbn. destruct (r_len r <? o) eqn:E; [lia|]. apply N.ltb_ge in E. exact E.
Qed.

Lemma wp_rdf P p (f : Obj -> N) s (Q : N -> pstate -> Prop) :
  (exists o, tget (p_tree s) p = Some o /\ Q (f o) s) -> wp P (rdf p f) s Q.
Proof. intros (o & Hg & H). unfold wp, rdf, tq. rewrite (rd_ok _ _ _ _ Hg). exact H. Qed.

Lemma wp_tq {A} P (f : T -> outcome A) a s (Q : A -> pstate -> Prop) : f (p_tree s) = Ok a -> Q a s -> wp P (tq f) s Q.
Proof. intros E H. unfold wp, tq. rewrite E. exact H. Qed.

Lemma wp_rdo P p s (Q : Obj -> pstate -> Prop) :
  (exists o, tget (p_tree s) p = Some o /\ Q o s) -> wp P (rdo p) s Q.
Proof. intros (o & Hg & H). unfold wp, rdo, tq. rewrite deref_get, Hg. exact H. Qed.

Lemma wp_wrf P p f s (Q : unit -> pstate -> Prop) :
  (exists o, tget (p_tree s) p = Some o) -> Q tt (with_tree s (tset (p_tree s) p f)) -> wp P (wrf p f) s Q.
Proof. intros (o & Hg) H. unfold wp, wrf, tu. rewrite (wr_ok _ _ _ _ Hg). exact H. Qed.

Lemma wp_tu P f s (Q : unit -> pstate -> Prop) :
  (exists t', f (p_tree s) = Ok t' /\ Q tt (with_tree s t')) -> wp P (tu f) s Q.
Proof. intros (t' & E & H). unfold wp, tu. rewrite E. exact H. Qed.

Lemma wp_appendM P o a s (Q : unit -> pstate -> Prop) :
  (exists t', append (p_tree s) o a = Ok t' /\ Q tt (with_tree s t')) -> wp P (appendM (Some o) a) s Q.
Proof. intros H. unfold appendM. apply wp_bind. cbn [need]. apply wp_ret. apply wp_tu. exact H. Qed.

Lemma wp_objectAt' P i s (Q : N -> pstate -> Prop) :
  ObjectAt (p_tree s) i = Some i -> Q i s -> wp P (objectAt' i) s Q.
Proof. intros E H. unfold objectAt'. apply wp_bind. apply wp_get. rewrite E. cbn [need]. apply wp_ret. exact H. Qed.

Lemma wp_scopeCurrent P s top rest (Q : option N -> pstate -> Prop) :
  p_scopeStack s = top :: rest -> Q (ObjectAt (p_tree s) top) s -> wp P scopeCurrent s Q.
Proof. intros E H. unfold scopeCurrent. apply wp_bind. apply wp_get. rewrite E. apply wp_get. exact H. Qed.

Lemma wp_tableIndex P op b i s (Q : N -> pstate -> Prop) :
  opcodeTableIndex op b = Some i -> Q i s -> wp P (tableIndex op b) s Q.
Proof. intros E H. unfold tableIndex. rewrite E. exact H. Qed.

Lemma wp_info P ii row s (Q : N * N * N -> pstate -> Prop) : opInfo ii = Some row -> Q row s -> wp P (info ii) s Q.
Proof. intros E H. unfold info. rewrite E. exact H. Qed.

Lemma wp_lift {A} P (o : outcome A) a s (Q : A -> pstate -> Prop) : o = Ok a -> Q a s -> wp P (lift o) s Q.
Proof. intros -> H. exact H. Qed.

Lemma wp_scopeEnter P i s (Q : unit -> pstate -> Prop) :
  Q tt (with_scopeStack s (i :: p_scopeStack s)) -> wp P (scopeEnter i) s Q.
Proof. intros H. exact H. Qed.

(** ---- steps on the tree, with the invariant ---- *)
Lemma new_step {md} P opc s g (Q : N -> pstate -> Prop) :
  FIm md s g -> newok opc -> lp s + 1 < InvalidIndex ->
  (forall p t' g' po,
     FIm md (with_tree s t') g' -> gext g g' -> ~ glive g p -> glive g' p -> groot g' p -> kids g' p = [] ->
     tget t' p = Some po -> o_opcode po = opc -> o_value po = None ->
     opcodeTableIndex opc true = Some (o_infoIndex po) ->
     (length (t_pool t') <= S (length (t_pool (p_tree s))))%nat ->
     (length (t_pool (p_tree s)) <= length (t_pool t'))%nat ->
     Q p (with_tree s t')) ->
  wp P (newObj opc) s Q.
Proof.
  intros H (Hnf & Hmaps & i0 & Hi0 & Hinfo) Hroom K.
  pose proof (fi_R _ _ H) as HR.
  destruct (newObject_R (p_tree s) g opc (p_handle s) HR) as (t' & p & E & HR' & _ & Hp).
  { split; auto. split; auto. intros _. rewrite (R_len _ _ HR). unfold lp in Hroom. lia. }
  destruct (newObject_shape _ _ _ _ _ E) as ((po & Hpo & Hop & Hidx & _ & Hval) & Hfw & Hbw & Hl1 & Hl2).
  destruct (new_slot_fresh (p_tree s) g opc (p_handle s) HR) as (F1 & F2 & F3 & F4). fold (new_slot (p_tree s) g) in Hp.
  rewrite <- Hp in F1, F2, F3, F4.
  rewrite pOpcodeTableIndex_eq, Hi0 in Hidx. inversion Hidx as [Hii].
  unfold wp, newObj. rewrite E.
  apply (K p t' (astep g (OpNew opc (p_handle s))) po); auto.
  - apply FI_with_tree with (g := g); auto.
    + intros i o Hg Hl. destruct (N.eqb_spec i p) as [->|Hne].
      * assert (o = po) by congruence. subst o. rewrite <- Hii. exact Hinfo.
      * apply (fi_info _ _ H i o); auto.
    + apply (ge_live _ _ (gext_new g opc (p_handle s))).
  - apply gext_new.
  - rewrite <- Hii. exact Hi0.
Qed.

Lemma wrf_step {md} P p f s g (Q : unit -> pstate -> Prop) :
  FIm md s g -> glive g p ->
  (forall o, o_opcode o <> opFreed -> lk_eq o (f o)) ->
  (forall o, o_opcode o <> opFreed -> opInfo (o_infoIndex o) <> None -> opInfo (o_infoIndex (f o)) <> None) ->
  (forall o, tget (p_tree s) p = Some o -> o_opcode o <> opFreed ->
             FIm md (with_tree s (tset (p_tree s) p f)) g -> Q tt (with_tree s (tset (p_tree s) p f))) ->
  wp P (wrf p f) s Q.
Proof.
  intros H Hl Hlk Hinf K. destruct (FI_live_get _ _ _ H Hl) as (o & Hg & Ho).
  apply wp_wrf; [eauto|]. apply (K o); auto. apply FI_tset; auto.
  - intros o' Hg'. assert (o' = o) by congruence. subst o'. auto.
  - intros o' Hg' Ho'. apply Hinf; auto. apply (fi_info _ _ H _ _ Hg' Ho').
Qed.

Lemma append_step {md} P o a s g g0 (Q : unit -> pstate -> Prop) :
  FIm md s g -> gwf g0 -> gext g0 g -> glive g0 o -> ~ glive g0 a -> glive g a -> groot g a ->
  (forall t', FIm md (with_tree s t') (astep g (OpAppend o a)) -> gext g0 (astep g (OpAppend o a)) ->
              pframe (p_tree s) t' -> kids (astep g (OpAppend o a)) o = kids g o ++ [a] ->
              (forall q, q <> o -> kids (astep g (OpAppend o a)) q = kids g q) ->
              Q tt (with_tree s t')) ->
  wp P (appendM (Some o) a) s Q.
Proof.
  intros H Hwf Hext Hlo Hna Hla Hroot K.
  destruct (append_full (p_tree s) g g0 o a (fi_R _ _ H) Hwf Hext Hlo Hna Hla Hroot) as (t' & E & HR' & Hpf & Hext').
  assert (Holt : o < N.of_nat (length (g_kids g))) by (apply glive_lt; eapply ge_live; eauto).
  apply wp_appendM. exists t'. split; auto. apply K; auto.
  - apply FI_with_tree with (g := g); auto.
    + eapply info_valid_pframe; [apply (fi_info _ _ H)|exact Hpf].
    + intros x Hx. cbn [astep]. apply glive_set_kids; auto.
  - cbn [astep]. rewrite kids_set_kids by auto. rewrite N.eqb_refl. reflexivity.
  - intros q Hq. cbn [astep]. rewrite kids_set_kids by auto. apply N.eqb_neq in Hq. rewrite Hq. reflexivity.
Qed.

Lemma appendAfter_step {md} P o a n s g g0 (Q : unit -> pstate -> Prop) :
  FIm md s g -> gwf g0 -> gext g0 g -> glive g0 o -> ~ glive g0 a -> glive g a -> groot g a -> In n (kids g o) ->
  (forall t', FIm md (with_tree s t') (astep g (OpAppendAfter o a n)) -> gext g0 (astep g (OpAppendAfter o a n)) ->
              pframe (p_tree s) t' -> kids (astep g (OpAppendAfter o a n)) o = insert_after n a (kids g o) ->
              Q tt (with_tree s t')) ->
  wp P (tu (fun t => appendAfter t o a n)) s Q.
Proof.
  intros H Hwf Hext Hlo Hna Hla Hroot Hin K.
  destruct (appendAfter_full (p_tree s) g g0 o a n (fi_R _ _ H) Hwf Hext Hlo Hna Hla Hroot Hin) as (t' & E & HR' & Hpf & Hext').
  assert (Holt : o < N.of_nat (length (g_kids g))) by (apply glive_lt; eapply ge_live; eauto).
  apply wp_tu. exists t'. split; auto. apply K; auto.
  - apply FI_with_tree with (g := g); auto.
    + eapply info_valid_pframe; [apply (fi_info _ _ H)|exact Hpf].
    + intros x Hx. cbn [astep]. apply glive_set_kids; auto.
  - cbn [astep]. rewrite kids_set_kids by auto. rewrite N.eqb_refl. reflexivity.
Qed.

(** what [pframe] keeps of one object *)
Lemma pframe_get (t t' : T) i o : pframe t t' -> tget t i = Some o ->
  exists o', tget t' i = Some o' /\ o_opcode o' = o_opcode o /\ o_infoIndex o' = o_infoIndex o /\ o_value o' = o_value o.
Proof.
  intros [_ H] Hg. destruct (H _ _ Hg) as (o' & Hg' & E1 & E2 & _ & _ & _ & _ & _ & E8). eauto 8.
Qed.

Lemma lp_with_tree s t' : lp (with_tree s t') = N.of_nat (length (t_pool t')).
Proof. reflexivity. Qed.
