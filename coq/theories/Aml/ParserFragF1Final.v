(** C11 (fragments F1 and F2): [parse_encode] for Name declarations, (nested) Device blocks and Method declarations.

    F2 = F1 + [Method(SEG, flags){ items }]: a Method with a single-segment name whose body holds declarations of the
    fragment only (Name / Device / Method, possibly none); productions: DefMethod (PkgLength, NameString = NameSeg,
    MethodFlags, TermList of DefName / DefDevice / DefMethod).  F1 is the Method-free sub-fragment:

    The fragment: ONE table whose items are [Name(SEG, integer constant)] (as in F0) or
    [Device(SEG){ items }] with a single-segment name (no root / parent prefix, not written as a MultiNamePath),
    nested to any depth, any PkgLength width admissible for the block; the encoded table is smaller than 256 MiB.
    Productions inside the fragment: DefName, DefDevice (PkgLength in 1-4 bytes, NameString = NameSeg, TermList of
    DefName / DefDevice), DataRefObject = ConstObj | ByteConst | WordConst | DWordConst | QWordConst. *)
From Coq Require Import NArith ZArith Arith List Bool Lia Permutation.
From Coq Require Import ZifyBool ZifyN ZifyNat.
From FF Require Import Lib.Word Gen.Consts_device_acpi_aml Gen.Consts_aml_tree Aml.Stream Aml.Lex Aml.LexProofs
  Aml.Tree Aml.TreeSpec Aml.Parser Aml.Grammar Aml.LexRoundtrip
  Aml.ParserFragBase Aml.ParserFragFirst Aml.ParserFragF0 Aml.ParserFragF0Conn Aml.ParserFragF0Top
  Aml.ParserFragRose Aml.ParserFragDev Aml.ParserFragArgs Aml.ParserFragF1 Aml.ParserFragF1First Aml.ParserFragF1Conn Aml.ParserFragF1Top
  Aml.View Aml.ParserFragView Aml.ParserFragF0View Aml.ParserFragF0Final Aml.ParserFragSort Aml.ParserFragF1View Aml.WfProgram.
Import ListNotations.
Local Open Scope N_scope.

Ltac Zify.zify_post_hook ::= Z.div_mod_to_equations.

Definition blk_ast (bk : bkind) (k : N) (nm : namestr) (fa : list N) (b : list ast) : ast :=
  match bk with
  | BDev => ADevice k nm b
  | BTZ => AThermal k nm b
  | BProc => AProcessor k nm (nth 0 fa 0) (nth 1 fa 0) (nth 2 fa 0) b
  | BPwr => APowerRes k nm (nth 0 fa 0) (nth 1 fa 0) b
  | BMeth => AMethod k nm (nth 0 fa 0) b
  end.

Definition cst_ast (d : decl) : ast := AConst (d_op d) (d_v d).
Definition targ_ast (a : targ) : ast := match a with TInt d => cst_ast d | TStr b => AStr b end.
Definition leaf_ast (lk : lkind) (nm : namestr) (fa : list N) (ta : list targ) : ast :=
  match lk with
  | LMutex => AMutex nm (nth 0 fa 0)
  | LEvent => AEvent nm
  | LOpReg => AOpRegion nm (nth 0 fa 0) (targ_ast (nth 0 ta (TInt (mkDecl 0 0 0)))) (targ_ast (nth 1 ta (TInt (mkDecl 0 0 0))))
  | LName => AName nm (targ_ast (nth 0 ta (TInt (mkDecl 0 0 0))))
  end.

Fixpoint pel_ast (x : pel) : ast :=
  match x with PLeaf a => targ_ast a | PSub k n es => APackage k n (map pel_ast es) end.

Fixpoint item_ast (it : item) : ast :=
  match it with
  | IName d => decl_ast d
  | IBlk bk k seg fa body => blk_ast bk k (seg_name seg) fa (map item_ast body)
  | ILeaf lk seg fa ta => leaf_ast lk (seg_name seg) fa ta
  | IPkg seg k n elems => AName (seg_name seg) (APackage k n (map pel_ast elems))
  end.

(** the right number of fixed arguments everywhere *)
Fixpoint shape_ok (it : item) : bool :=
  match it with
  | IName _ => true
  | IBlk bk _ _ fa body => Nat.eqb (length fa) (length (bk_ws bk)) && forallb shape_ok body
  | ILeaf lk _ fa ta => Nat.eqb (length fa) (length (lk_ws lk)) && Nat.eqb (length ta) (lk_nt lk)
  | IPkg _ _ _ _ => true
  end.

Definition simple_name (nm : namestr) : option N :=
  match n_segs nm with
  | [seg] => if negb (n_root nm) && (n_carets nm =? 0) && negb (n_multi nm) then Some seg else None
  | _ => None
  end.

Fixpoint f2_item (a : ast) : option item :=
  match a with
  | AName nm (AConst op v) => match simple_name nm with Some seg => Some (IName (mkDecl seg op v)) | None => None end
  | ADevice k nm body =>
      match simple_name nm with
      | Some seg =>
          match (fix go (l : list ast) : option (list item) :=
                   match l with
                   | [] => Some []
                   | x :: t => match f2_item x, go t with Some i, Some r => Some (i :: r) | _, _ => None end
                   end) body with
          | Some b => Some (IDev k seg b)
          | None => None
          end
      | None => None
      end
  | AMethod k nm fl body =>
      match simple_name nm with
      | Some seg =>
          match (fix go (l : list ast) : option (list item) :=
                   match l with
                   | [] => Some []
                   | x :: t => match f2_item x, go t with Some i, Some r => Some (i :: r) | _, _ => None end
                   end) body with
          | Some b => Some (IMeth k seg fl b)
          | None => None
          end
      | None => None
      end
  | _ => None
  end.

Fixpoint f2_items (l : list ast) : option (list item) :=
  match l with
  | [] => Some []
  | x :: t => match f2_item x, f2_items t with Some i, Some r => Some (i :: r) | _, _ => None end
  end.

Definition in_fragment_F2 (tables : list (list ast)) : bool :=
  match tables with
  | [p] => match f2_items p with Some _ => lenN (encode_table p) <? 0x10000000 | None => false end
  | _ => false
  end.

(** no Method anywhere *)
Fixpoint no_meth (it : item) : bool :=
  match it with
  | IName _ => true
  | IBlk bk _ _ _ body => match bk with BMeth => false | _ => forallb no_meth body end
  | ILeaf _ _ _ _ => true
  | IPkg _ _ _ _ => true
  end.

Definition in_fragment_F1 (tables : list (list ast)) : bool :=
  match tables with
  | [p] => match f2_items p with Some its => forallb no_meth its && (lenN (encode_table p) <? 0x10000000) | None => false end
  | _ => false
  end.

Lemma simple_name_eq nm seg : simple_name nm = Some seg -> nm = seg_name seg.
Proof.
  unfold simple_name. destruct nm as [root carets multi segs]. cbn [n_segs n_root n_carets n_multi].
  destruct segs as [|s [|s2 segs]]; try discriminate.
  destruct root; cbn [negb andb]; try discriminate.
  destruct (N.eqb_spec carets 0) as [->|]; cbn [andb]; try discriminate.
  destruct multi; cbn [negb]; try discriminate.
  intros E; inversion E. reflexivity.
Qed.

Lemma f2_item_ast : forall a it, f2_item a = Some it -> a = item_ast it /\ shape_ok it = true.
Proof.
  fix IH 1. intros a it. destruct a as [ | | | | | | | | | | | | | k nm body | | | | k nm fl body | nm v | | | | | | ]; try discriminate.
  - cbn [f2_item]. destruct (simple_name nm) as [seg|] eqn:En; [|discriminate]. apply simple_name_eq in En. subst nm.
    match goal with |- match ?go body with _ => _ end = _ -> _ => set (GO := go) end.
    assert (HL : forall l b, GO l = Some b -> l = map item_ast b /\ forallb shape_ok b = true).
    { induction l as [|x t IHt]; intros b Hb; cbn in Hb.
      - inversion Hb. split; reflexivity.
      - destruct (f2_item x) as [i|] eqn:Ei; [|discriminate]. destruct (GO t) as [r|] eqn:Er; [|discriminate].
        inversion Hb; subst b. cbn [map forallb]. destruct (IH x i Ei) as (-> & Hi). destruct (IHt r eq_refl) as (-> & Hr).
        rewrite Hi, Hr. split; reflexivity. }
    destruct (GO body) as [b|] eqn:Eb; [|discriminate]. intros E; inversion E; subst it. destruct (HL body b Eb) as (-> & Hb).
    split; [reflexivity|]. cbn [IDev shape_ok bk_ws length Nat.eqb andb]. exact Hb.
  - cbn [f2_item]. destruct (simple_name nm) as [seg|] eqn:En; [|discriminate]. apply simple_name_eq in En. subst nm.
    match goal with |- match ?go body with _ => _ end = _ -> _ => set (GO := go) end.
    assert (HL : forall l b, GO l = Some b -> l = map item_ast b /\ forallb shape_ok b = true).
    { induction l as [|x t IHt]; intros b Hb; cbn in Hb.
      - inversion Hb. split; reflexivity.
      - destruct (f2_item x) as [i|] eqn:Ei; [|discriminate]. destruct (GO t) as [r|] eqn:Er; [|discriminate].
        inversion Hb; subst b. cbn [map forallb]. destruct (IH x i Ei) as (-> & Hi). destruct (IHt r eq_refl) as (-> & Hr).
        rewrite Hi, Hr. split; reflexivity. }
    destruct (GO body) as [b|] eqn:Eb; [|discriminate]. intros E; inversion E; subst it. destruct (HL body b Eb) as (-> & Hb).
    split; [reflexivity|]. cbn [IMeth shape_ok bk_ws length Nat.eqb andb]. exact Hb.
  - cbn [f2_item]. destruct v; try discriminate. destruct (simple_name nm) as [seg|] eqn:En; [|discriminate]. apply simple_name_eq in En. subst nm.
    intros E; inversion E. split; reflexivity.
Qed.

Lemma f2_items_ast : forall p its, f2_items p = Some its -> p = map item_ast its /\ forallb shape_ok its = true.
Proof.
  induction p as [|x t IH]; intros its Hp; cbn [f2_items] in Hp.
  - inversion Hp. split; reflexivity.
  - destruct (f2_item x) as [i|] eqn:Ei; [|discriminate]. destruct (f2_items t) as [r|] eqn:Er; [|discriminate].
    inversion Hp; subst its. cbn [map forallb]. destruct (f2_item_ast x i Ei) as (-> & Hi). destruct (IH r eq_refl) as (-> & Hr).
    rewrite Hi, Hr. split; reflexivity.
Qed.

(** ---- encoding ---- *)
Lemma encode_targs elems : flat_map encode (map targ_ast elems) = enc_ta elems.
Proof. unfold enc_ta. induction elems as [|a r IH]; [reflexivity|]. cbn [map flat_map]. rewrite IH. destruct a; reflexivity. Qed.

Lemma encode_pels : forall els, flat_map encode (map pel_ast els) = enc_pels els.
Proof.
  induction els as [|a r IH|k n es r IHe IH] using pels_ind; [reflexivity| |]; cbn [map flat_map]; rewrite IH, enc_pels_cons; f_equal.
  - cbn [pel_ast enc_pel]. destruct a; reflexivity.
  - cbn [pel_ast encode]. unfold enc_pkg. rewrite IHe, enc_pel_sub. reflexivity.
Qed.

Lemma encode_item : forall it, shape_ok it = true -> encode (item_ast it) = enc_item it.
Proof.
  fix IH 1. intros [d|bk k seg fa body|lk seg fa ta|seg k n elems] Hs.
  - apply encode_decl.
  - cbn [shape_ok] in Hs. apply andb_prop in Hs. destruct Hs as [Hl Hb]. apply Nat.eqb_eq in Hl.
    assert (HL : flat_map encode (map item_ast body) = enc_items body).
    { clear Hl. induction body as [|x t IHt]; [reflexivity|]. cbn [forallb] in Hb. apply andb_prop in Hb. destruct Hb as [Hx Ht].
      cbn [map flat_map]. rewrite (IH x Hx), (IHt Ht). reflexivity. }
    rewrite enc_blk. cbn [item_ast].
    destruct bk; cbn [bk_ws length] in Hl; (destruct fa as [|a0 [|a1 [|a2 [|a3 fa]]]]; try discriminate Hl);
      cbn [blk_ast encode nth]; unfold enc_pkg; rewrite enc_seg_name, HL; cbn [bfx bk_ws combine enc_fx fw_enc bk_op app];
      rewrite <- ?app_assoc; reflexivity.
  - cbn [shape_ok] in Hs. apply andb_prop in Hs. destruct Hs as [Hl Ht]. apply Nat.eqb_eq in Hl. apply Nat.eqb_eq in Ht.
    rewrite enc_leaf. cbn [item_ast].
    destruct lk; cbn [lk_ws lk_nt length] in Hl, Ht; (destruct fa as [|a0 [|a1 fa]]; try discriminate Hl); (destruct ta as [|c0 [|c1 [|c2 ta]]]; try discriminate Ht);
      repeat match goal with c : targ |- _ => destruct c end;
      cbn [leaf_ast targ_ast cst_ast encode nth]; rewrite enc_seg_name; cbn [lfx lk_ws combine enc_fx fw_enc lk_op enc_ta enc_targ flat_map app]; unfold enc_const;
      rewrite ?app_nil_r, <- ?app_assoc; cbn [app]; rewrite <- ?app_assoc; reflexivity.
  - cbn [item_ast encode]. unfold enc_pkg. rewrite enc_seg_name, encode_pels, enc_pkg_item. reflexivity.
Qed.

Lemma encode_items its : forallb shape_ok its = true -> encode_table (map item_ast its) = enc_items its.
Proof.
  unfold encode_table, enc_items. induction its as [|x t IH]; intros Hs; [reflexivity|]. cbn [forallb] in Hs. apply andb_prop in Hs. destruct Hs as [Hx Ht].
  cbn [map flat_map]. rewrite (encode_item x Hx), (IH Ht). reflexivity.
Qed.

(** ---- well-formedness ---- *)
Lemma sumlen_eq : forall l, (fix sumlen (l : list ast) : N := match l with [] => 0 | x :: r => lenN (encode x) + sumlen r end) l = lenN (flat_map encode l).
Proof. induction l as [|x t IH]; [reflexivity|]. cbn [flat_map]. rewrite lenN_app, IH. reflexivity. Qed.

Lemma pkglen_of_k k A B : k_ok k A = true -> B = A -> pkglen_okb k (k + B) = true.
Proof. intros Hk ->. exact Hk. Qed.

Lemma seg_ok_parts seg : name_ok (seg_name seg) = true -> lead_okb (seg_lead seg) = true /\ (seg <? 0x100000000) = true.
Proof.
  intros Hn. unfold name_ok in Hn. cbn [seg_name n_segs forallb] in Hn. apply andb_prop in Hn. destruct Hn as [_ Hn].
  apply andb_prop in Hn. destruct Hn as [Hseg _].
  unfold seg_ok, seg_bytes in Hseg. repeat (apply andb_prop in Hseg; destruct Hseg as [Hseg ?]). split; assumption.
Qed.

Lemma wf_pels e ms scope : forall els,
  (fix allexpr (l : list ast) : bool := match l with [] => true | x :: r => is_expr x && wf_ast e ms scope x && allexpr r end) (map pel_ast els) = true ->
  forallb pel_okb els = true.
Proof.
  induction els as [|a r IH|k n es r IHe IH] using pels_ind; intros Ha; [reflexivity| |];
    cbn [map] in Ha; apply andb_prop in Ha; destruct Ha as [Ha Hr]; apply andb_prop in Ha; destruct Ha as [_ Ha];
    cbn [forallb]; rewrite (IH Hr), andb_true_r.
  - cbn [pel_ast pel_okb] in *. destruct a as [d|b]; cbn [targ_ast cst_ast wf_ast targ_okb] in *; [|exact Ha].
    unfold cst_okb. apply andb_prop in Ha. destruct Ha as [Hc Hv]. rewrite N.shiftl_1_l in Hv. rewrite Hv, andb_true_r. exact Hc.
  - cbn [pel_ast wf_ast] in Ha. apply andb_prop in Ha. destruct Ha as [Ha Hkk]. apply andb_prop in Ha. destruct Ha as [Hn Hall].
    rewrite sumlen_eq, encode_pels in Hkk. rewrite pel_okb_sub, Hn, (IHe Hall), andb_true_r, andb_true_l.
    eapply pkglen_of_k; [exact Hkk|]. rewrite lenN_app. reflexivity.
Qed.

Lemma wf_item e ms : forall it scope, shape_ok it = true -> wf_ast e ms scope (item_ast it) = true -> item_okb it = true.
Proof.
  fix IH 1. intros [d|bk k seg fa body|lk seg fa ta|seg k n elems] scope Hs Hw.
  - cbn [item_ast item_okb]. unfold decl_ast in Hw. cbn [wf_ast] in Hw.
    apply andb_prop in Hw. destruct Hw as [Hw _]. apply andb_prop in Hw. destruct Hw as [Hw Hc].
    apply andb_prop in Hw. destruct Hw as [Hn _].
    unfold name_ok in Hn. cbn [n_segs forallb] in Hn. apply andb_prop in Hn. destruct Hn as [_ Hn].
    apply andb_prop in Hn. destruct Hn as [Hseg _].
    unfold seg_ok, seg_bytes in Hseg. repeat (apply andb_prop in Hseg; destruct Hseg as [Hseg ?]).
    apply andb_prop in Hc. destruct Hc as [Hc Hv].
    apply andb_true_intro. split; [|assumption].
    unfold decl_okb. apply andb_true_intro. split; [apply andb_true_intro; split|]; [assumption|exact Hc|rewrite N.shiftl_1_l in Hv; exact Hv].
  - cbn [shape_ok] in Hs. apply andb_prop in Hs. destruct Hs as [Hl Hb]. pose proof Hl as Hl'. apply Nat.eqb_eq in Hl.
    assert (HL : flat_map encode (map item_ast body) = enc_items body).
    { clear -Hb. induction body as [|x t IHt]; [reflexivity|]. cbn [forallb] in Hb. apply andb_prop in Hb. destruct Hb as [Hx Ht].
      cbn [map flat_map]. rewrite (encode_item x Hx), (IHt Ht). reflexivity. }
    assert (HB : forall sc, (fix all (l : list ast) (sc : path) : bool := match l with [] => true | x :: r => wf_ast e ms sc x && all r sc end) (map item_ast body) sc = true ->
                 forallb item_okb body = true).
    { clear -IH Hb. intros sc. induction body as [|x t IHt]; intros Hall; [reflexivity|]. cbn [forallb] in Hb. apply andb_prop in Hb. destruct Hb as [Hx Ht].
      cbn [map] in Hall. apply andb_prop in Hall. destruct Hall as [Hwx Hwt]. cbn [forallb]. rewrite (IH x sc Hx Hwx). apply IHt; assumption. }
    cbn [item_okb]. rewrite Hl'. cbn [item_ast] in Hw.
    assert (Hdp : decl_path scope (seg_name seg) = Some (scope ++ [seg])).
    { unfold decl_path, start_scope. cbn [seg_name n_root n_carets n_segs]. destruct (lenN scope <? 0) eqn:E0; [apply N.ltb_lt in E0; lia|].
      change (N.to_nat 0) with 0%nat. rewrite Nat.sub_0_r, firstn_all. reflexivity. }
    destruct bk; cbn [bk_ws length] in Hl; (destruct fa as [|a0 [|a1 [|a2 [|a3 fa]]]]; try discriminate Hl);
      cbn [blk_ast wf_ast nth] in Hw; rewrite Hdp, sumlen_eq, HL, enc_seg_name in Hw;
      remember (name_ok (seg_name seg)) as NOK eqn:ENOK;
      repeat (apply andb_prop in Hw; destruct Hw as [Hw ?]); subst NOK;
      destruct (seg_ok_parts seg Hw) as (Hlead & Hseg);
      rewrite Hlead, Hseg; cbn [andb bfx bk_ws combine fx_okb forallb enc_fx fw_enc app];
      repeat (apply andb_true_intro; split); try assumption; try (eapply HB; eassumption);
      try (eapply pkglen_of_k; [eassumption|]; unfold enc_items, lenN; repeat (rewrite ?app_length, ?len_le_bytes; cbn [length]); lia).
  - cbn [shape_ok] in Hs. apply andb_prop in Hs. destruct Hs as [Hl Ht]. pose proof Hl as Hl'. pose proof Ht as Ht'. apply Nat.eqb_eq in Hl. apply Nat.eqb_eq in Ht.
    cbn [item_okb]. rewrite Hl', Ht'. cbn [item_ast] in Hw.
    destruct lk; cbn [lk_ws lk_nt length] in Hl, Ht; (destruct fa as [|a0 [|a1 fa]]; try discriminate Hl); (destruct ta as [|c0 [|c1 [|c2 ta]]]; try discriminate Ht);
      repeat match goal with c : targ |- _ => destruct c end;
      cbn [leaf_ast targ_ast cst_ast wf_ast nth is_expr] in Hw;
      remember (name_ok (seg_name seg)) as NOK eqn:ENOK;
      repeat (apply andb_prop in Hw; destruct Hw as [Hw ?]); subst NOK;
      destruct (seg_ok_parts seg Hw) as (Hlead & Hseg);
      rewrite Hlead, Hseg; cbn [andb lfx lk_ws combine fx_okb forallb targ_okb]; unfold cst_okb;
      repeat (apply andb_true_intro; split); try assumption; try reflexivity;
      try (match goal with Hv : (_ <? N.shiftl 1 _) = true |- _ => rewrite N.shiftl_1_l in Hv; exact Hv end);
      try (match goal with Hc : is_const_op (d_op ?c) && _ = true |- is_constb (d_op ?c) = true => apply andb_prop in Hc; exact (proj1 Hc) end);
      try (match goal with Hc : is_const_op (d_op ?c) && _ = true |- (d_v ?c <? _) = true => apply andb_prop in Hc; destruct Hc as [_ Hc]; rewrite N.shiftl_1_l in Hc; exact Hc end).
  - cbn [item_ast wf_ast is_expr] in Hw. cbn [item_okb].
    remember (name_ok (seg_name seg)) as NOK eqn:ENOK.
    repeat (apply andb_prop in Hw; destruct Hw as [Hw ?]); subst NOK.
    destruct (seg_ok_parts seg Hw) as (Hlead & Hseg). rewrite Hlead, Hseg. cbn [andb].
    match goal with H0 : (n <? 256) && _ && _ = true |- _ => apply andb_prop in H0; destruct H0 as [H0 Hkk]; apply andb_prop in H0; destruct H0 as [Hn Hall] end.
    rewrite sumlen_eq, encode_pels in Hkk.
    repeat (apply andb_true_intro; split); try assumption.
    + eapply pkglen_of_k; [exact Hkk|]. rewrite lenN_app. reflexivity.
    + apply (wf_pels e ms scope). exact Hall.
Qed.

Lemma wf_items e ms its : forallb shape_ok its = true -> forallb (wf_ast e ms []) (map item_ast its) = true -> forallb item_okb its = true.
Proof.
  induction its as [|x t IH]; intros Hs Hw; [reflexivity|]. cbn [map forallb] in Hs, Hw |- *. apply andb_prop in Hw. destruct Hw as [Hx Ht].
  apply andb_prop in Hs. destruct Hs as [Hsx Hst].
  rewrite (wf_item e ms x [] Hsx Hx), (IH Hst Ht). reflexivity.
Qed.

(** ---- the specification side ---- *)
Lemma item_is_decl it : is_decl (item_ast it) = true.
Proof. destruct it as [d|bk k seg fa body|lk seg fa ta|seg k n elems]; [reflexivity|destruct bk; reflexivity|destruct lk; reflexivity|reflexivity]. Qed.

Lemma entries_item e : forall it scope, shape_ok it = true -> entries e scope (item_ast it) = sentry scope it.
Proof.
  fix IH 1. intros [d|bk k seg fa body|lk seg fa ta|seg k n elems] scope Hs.
  - cbn [item_ast sentry]. unfold decl_ast, name_entry. cbn [entries]. unfold decl_path, start_scope. cbn [n_root n_carets n_segs].
    destruct (lenN scope <? 0) eqn:E0; [apply N.ltb_lt in E0; lia|]. change (N.to_nat 0) with 0%nat. rewrite Nat.sub_0_r, firstn_all.
    cbn [r_expr]. unfold const_tokens, const_val, tok_const. destruct (const_bytes (d_op d)); reflexivity.
  - cbn [shape_ok] in Hs. apply andb_prop in Hs. destruct Hs as [Hl Hb]. apply Nat.eqb_eq in Hl.
    assert (Hdp : decl_path scope (seg_name seg) = Some (scope ++ [seg])).
    { unfold decl_path, start_scope. cbn [seg_name n_root n_carets n_segs]. destruct (lenN scope <? 0) eqn:E0; [apply N.ltb_lt in E0; lia|].
      change (N.to_nat 0) with 0%nat. rewrite Nat.sub_0_r, firstn_all. reflexivity. }
    assert (HBody : forall sc, (fix body (l : list ast) (sc : path) : list (list N) := match l with [] => [] | x :: r => entries e sc x ++ body r sc end) (map item_ast body) sc =
                               flat_map (sentry sc) body).
    { clear -IH Hb. intros sc. induction body as [|x t IHt]; [reflexivity|]. cbn [forallb] in Hb. apply andb_prop in Hb. destruct Hb as [Hx Ht].
      cbn [map flat_map]. rewrite (IH x sc Hx), (IHt Ht). reflexivity. }
    assert (HDecls : forall sc, (fix decls (l : list ast) (sc : path) : list (list N) :=
                       match l with [] => [] | x :: r => (if is_decl x || is_fieldcontainer x then entries e sc x else []) ++ decls r sc end) (map item_ast body) sc =
                               flat_map (sentry sc) body).
    { clear -IH Hb. intros sc. induction body as [|x t IHt]; [reflexivity|]. cbn [forallb] in Hb. apply andb_prop in Hb. destruct Hb as [Hx Ht].
      cbn [map flat_map]. rewrite item_is_decl. cbn [orb]. rewrite (IH x sc Hx), (IHt Ht). reflexivity. }
    assert (HSeq : forall sc, r_seq e sc (map item_ast body) = []).
    { clear. intros sc. unfold r_seq. induction body as [|x t IHt]; [reflexivity|]. cbn [map flat_map]. rewrite item_is_decl. cbn [orb app]. exact IHt. }
    cbn [item_ast sentry].
    destruct bk; cbn [bk_ws length] in Hl; (destruct fa as [|a0 [|a1 [|a2 [|a3 fa]]]]; try discriminate Hl);
      cbn [blk_ast entries nth]; rewrite Hdp; rewrite ?HBody, ?HDecls, ?HSeq; unfold blk_entry; cbn [bfx bk_ws combine flat_map fw_op bk_op app];
      rewrite ?app_nil_r; reflexivity.
  - cbn [shape_ok] in Hs. apply andb_prop in Hs. destruct Hs as [Hl Ht]. apply Nat.eqb_eq in Hl. apply Nat.eqb_eq in Ht.
    assert (Hdp : decl_path scope (seg_name seg) = Some (scope ++ [seg])).
    { unfold decl_path, start_scope. cbn [seg_name n_root n_carets n_segs]. destruct (lenN scope <? 0) eqn:E0; [apply N.ltb_lt in E0; lia|].
      change (N.to_nat 0) with 0%nat. rewrite Nat.sub_0_r, firstn_all. reflexivity. }
    assert (Hcst : forall a, r_expr e scope (targ_ast a) = targ_tokens a).
    { intros [d|b]; [|reflexivity]. unfold targ_ast, targ_tokens, cst_ast, cst_tokens. cbn [r_expr]. unfold const_tokens, const_val, tok_const. destruct (const_bytes (d_op d)); reflexivity. }
    cbn [item_ast sentry].
    destruct lk; cbn [lk_ws lk_nt length] in Hl, Ht; (destruct fa as [|a0 [|a1 fa]]; try discriminate Hl); (destruct ta as [|c0 [|c1 [|c2 ta]]]; try discriminate Ht);
      cbn [leaf_ast entries nth]; rewrite Hdp; rewrite ?Hcst; unfold leaf_entry; cbn [lfx lk_ws combine flat_map fw_op lk_op app];
      rewrite ?app_nil_r, <- ?app_assoc; reflexivity.
  - assert (Hdp : decl_path scope (seg_name seg) = Some (scope ++ [seg])).
    { unfold decl_path, start_scope. cbn [seg_name n_root n_carets n_segs]. destruct (lenN scope <? 0) eqn:E0; [apply N.ltb_lt in E0; lia|].
      change (N.to_nat 0) with 0%nat. rewrite Nat.sub_0_r, firstn_all. reflexivity. }
    assert (Hcst : forall els, flat_map (r_expr e scope) (map pel_ast els) = flat_map pel_tokens els).
    { clear. induction els as [|a r IHr|k n es r IHe IHr] using pels_ind; [reflexivity| |]; cbn [map flat_map]; rewrite IHr; f_equal.
      - cbn [pel_ast pel_tokens]. destruct a as [d|b]; [|reflexivity]. unfold targ_ast, targ_tokens, cst_ast, cst_tokens. cbn [r_expr]. unfold const_tokens, const_val, tok_const. destruct (const_bytes (d_op d)); reflexivity.
      - cbn [pel_ast pel_tokens r_expr]. rewrite IHe. unfold lenN. rewrite map_length. reflexivity. }
    cbn [item_ast sentry entries]. rewrite Hdp. cbn [r_expr]. rewrite Hcst. unfold pkg_entry, lenN. rewrite map_length. reflexivity.
Qed.

Lemma entries_items e its : forallb shape_ok its = true -> flat_map (entries e []) (map item_ast its) = sentries [] its.
Proof.
  unfold sentries. induction its as [|x t IH]; intros Hs; [reflexivity|]. cbn [forallb] in Hs. apply andb_prop in Hs. destruct Hs as [Hx Ht].
  cbn [map flat_map]. rewrite (entries_item e x [] Hx), (IH Ht). reflexivity.
Qed.

Lemma root_len g pl its : Desc g pl (root_tree its) -> (6 + iszs its <= length pl)%nat.
Proof.
  intros HD. assert (Hin : In (5 + N.of_nat (iszs its)) (rnodes (root_tree its))) by (apply root_tree_nodes; lia).
  destruct (Desc_lookup g pl _ HD _ Hin) as (a & ks & Dy). destruct (Desc_inv _ _ _ _ _ Dy) as (Py & _ & _).
  apply pget_lt in Py. lia.
Qed.

(** THE THEOREM for the fragment F2 *)
Theorem parse_encode_F2 : forall tables,
  wf_program tables = true -> in_fragment_F2 tables = true -> parse_encode_statement tables.
Proof.
  intros tables Hwf Hfr. unfold in_fragment_F2 in Hfr.
  destruct tables as [|p [|p2 rest]]; try discriminate.
  destruct (f2_items p) as [its|] eqn:Eits; [|discriminate]. apply N.ltb_lt in Hfr.
  destruct (f2_items_ast p its Eits) as (-> & Hshape).
  unfold wf_program in Hwf. cbn [wf_tables app] in Hwf. apply andb_prop in Hwf. destruct Hwf as [Hwf _].
  pose proof (wf_items _ _ its Hshape Hwf) as Hok.
  rewrite (encode_items its Hshape) in Hfr.
  unfold parse_encode_statement, parse_program, load. cbn [map].
  destruct default_rep as (t0 & Et0 & H0). rewrite Et0. cbn [load_tables]. rewrite (encode_items its Hshape).
  destruct (parse_f1 its t0 Hok Hfr H0) as (s' & gF & plF & Eparse & HF & DF & Etb).
  rewrite Eparse. cbn [load_tables app]. change (0 =? 0) with true. cbv iota.
  rewrite (view_f1 (p_tree s') gF plF HF [table_image (enc_items its)] its (hdr_of (enc_items its)) DF Hok (root_len _ _ _ DF) ltac:(rewrite table_image_hdr; reflexivity) eq_refl).
  unfold ns. cbn [flat_map]. rewrite app_nil_r, (entries_items _ its Hshape).
  f_equal. apply sort_perm. apply ventries_perm.
Qed.

(** F1 is the Method-free part of F2 *)
Lemma in_F1_F2 tables : in_fragment_F1 tables = true -> in_fragment_F2 tables = true.
Proof.
  unfold in_fragment_F1, in_fragment_F2. destruct tables as [|p [|p2 rest]]; try discriminate.
  destruct (f2_items p) as [its|]; [|discriminate]. intros H. apply andb_prop in H. apply H.
Qed.

Theorem parse_encode_F1 : forall tables,
  wf_program tables = true -> in_fragment_F1 tables = true -> parse_encode_statement tables.
Proof. intros tables Hwf Hfr. apply parse_encode_F2; [exact Hwf|apply in_F1_F2; exact Hfr]. Qed.
