(** C13 proofs, part 1: basic facts about the pool, the ghost forest and the [chain] predicate. *)
From Coq Require Import NArith ZArith List Bool Lia.
From Coq Require Import ZifyBool ZifyN ZifyNat.
From FF Require Import Lib.Word Gen.Consts_aml_tree Aml.Stream Aml.Tree Aml.TreeSpec.
Import ListNotations.
Local Open Scope N_scope.

Ltac Zify.zify_post_hook ::= Z.div_mod_to_equations.

(** the model hard-wires 4-byte names (a [Name] is a 4-tuple) *)
Lemma amlNameLen_is_4 : tree_amlNameLen = 4.
Proof. reflexivity. Qed.

Lemma Inv_val : InvalidIndex = 0xffffffff.
Proof. reflexivity. Qed.

Lemma Inv_lt_two32 : InvalidIndex < two32.
Proof. rewrite Inv_val. unfold two32. lia. Qed.

Global Opaque InvalidIndex opFreed.

(** ---- lists ---- *)
Lemma list_upd_length {A} (l : list A) n f : length (list_upd l n f) = length l.
Proof. revert n; induction l as [|x l IH]; intros [|n]; simpl; auto. Qed.

Lemma nth_error_list_upd {A} (l : list A) n m f :
  nth_error (list_upd l n f) m = if Nat.eqb m n then option_map f (nth_error l m) else nth_error l m.
Proof.
  revert n m; induction l as [|x l IH]; intros [|n] [|m]; simpl; auto.
  - destruct (Nat.eqb m n); reflexivity.
Qed.

Lemma list_set_length {A} (l : list A) n v : length (list_set l n v) = length l.
Proof. revert n; induction l as [|x l IH]; intros [|n]; simpl; auto. Qed.

Lemma nth_list_set {A} (l : list A) n m v d :
  (n < length l)%nat -> nth m (list_set l n v) d = if Nat.eqb m n then v else nth m l d.
Proof.
  revert n m; induction l as [|x l IH]; intros [|n] [|m] H; simpl in *; try lia; auto.
  apply IH. lia.
Qed.

Lemma nth_list_set_oob {A} (l : list A) n v : (length l <= n)%nat -> list_set l n v = l.
Proof.
  revert n; induction l as [|x l IH]; intros [|n] H; simpl in *; try lia; auto.
  f_equal. apply IH. lia.
Qed.

(** ---- the pool ---- *)
Definition tset {V} (t : ObjectTree V) (p : N) (f : Object V -> Object V) : ObjectTree V :=
  mkTree (list_upd (t_pool t) (N.to_nat p) f) (t_free t).

Lemma get_tset {V} (t : ObjectTree V) p f q :
  get (tset t p f) q = if q =? p then option_map f (get t q) else get t q.
Proof.
  unfold get, tset; simpl. rewrite nth_error_list_upd.
  destruct (N.eqb_spec q p) as [->|Hne].
  - rewrite Nat.eqb_refl. reflexivity.
  - destruct (Nat.eqb_spec (N.to_nat q) (N.to_nat p)) as [E|E]; [|reflexivity].
    apply N2Nat.inj in E. contradiction.
Qed.

Lemma tset_len {V} (t : ObjectTree V) p f : length (t_pool (tset t p f)) = length (t_pool t).
Proof. unfold tset; simpl. apply list_upd_length. Qed.

Lemma tset_free {V} (t : ObjectTree V) p f : t_free (tset t p f) = t_free t.
Proof. reflexivity. Qed.

Lemma deref_get {V} (t : ObjectTree V) p : deref t p = match get t p with Some o => Ok o | None => Panic end.
Proof. reflexivity. Qed.

Lemma rd_ok {V} (t : ObjectTree V) p f o : get t p = Some o -> rd t p f = Ok (f o).
Proof. intros H. unfold rd. rewrite deref_get, H. reflexivity. Qed.

Lemma wr_ok {V} (t : ObjectTree V) p f o : get t p = Some o -> wr t p f = Ok (tset t p f).
Proof. intros H. unfold wr. rewrite deref_get, H. reflexivity. Qed.

Lemma get_lt {V} (t : ObjectTree V) i o : get t i = Some o -> i < N.of_nat (length (t_pool t)).
Proof.
  unfold get. intros H. assert (N.to_nat i < length (t_pool t))%nat by (apply nth_error_Some; congruence). lia.
Qed.

Lemma get_some {V} (t : ObjectTree V) i : i < N.of_nat (length (t_pool t)) -> exists o, get t i = Some o.
Proof.
  intros H. unfold get. destruct (nth_error (t_pool t) (N.to_nat i)) eqn:E; eauto.
  apply nth_error_None in E. lia.
Qed.

Lemma pool_len_eq {V} (t : ObjectTree V) :
  N.of_nat (length (t_pool t)) <= InvalidIndex -> pool_len t = N.of_nat (length (t_pool t)).
Proof. intros H. unfold pool_len. apply w32_small. pose proof Inv_lt_two32. lia. Qed.

Lemma ObjectAt_live {V} (t : ObjectTree V) i o :
  N.of_nat (length (t_pool t)) <= InvalidIndex ->
  get t i = Some o -> o_opcode o <> opFreed -> ObjectAt t i = Some i.
Proof.
  intros Hb Hg Hl. unfold ObjectAt. rewrite (pool_len_eq t Hb).
  pose proof (get_lt _ _ _ Hg) as Hlt.
  destruct (N.leb_spec (N.of_nat (length (t_pool t))) i); [lia|].
  unfold get in Hg. rewrite Hg. destruct (N.eqb_spec (o_opcode o) opFreed); congruence.
Qed.

Lemma ObjectAt_deref_live {V} (t : ObjectTree V) i o :
  N.of_nat (length (t_pool t)) <= InvalidIndex ->
  get t i = Some o -> o_opcode o <> opFreed -> ObjectAt_deref t i = Ok i.
Proof. intros. unfold ObjectAt_deref. erewrite ObjectAt_live; eauto. Qed.

Lemma ObjectAt_some {V} (t : ObjectTree V) i p :
  ObjectAt t i = Some p -> p = i /\ exists o, get t i = Some o /\ o_opcode o <> opFreed.
Proof.
  unfold ObjectAt. destruct (pool_len t <=? i); [discriminate|].
  fold (get t i). destruct (get t i) as [o|] eqn:E; [|discriminate].
  destruct (N.eqb_spec (o_opcode o) opFreed); [discriminate|].
  intros H; inversion H; subst. eauto.
Qed.

Lemma get_not_Inv {V} (t : ObjectTree V) i o :
  N.of_nat (length (t_pool t)) <= InvalidIndex -> get t i = Some o -> i <> InvalidIndex.
Proof. intros Hb Hg. pose proof (get_lt _ _ _ Hg). lia. Qed.

(** ---- the ghost ---- *)
Lemma kids_oob g i : N.of_nat (length (g_kids g)) <= i -> kids g i = [].
Proof. intros H. unfold kids. apply nth_overflow. lia. Qed.

Lemma kids_set_kids g i l j :
  i < N.of_nat (length (g_kids g)) ->
  kids (set_kids g i l) j = if j =? i then l else kids g j.
Proof.
  intros H. unfold kids, set_kids; simpl. rewrite nth_list_set by lia.
  destruct (N.eqb_spec j i) as [->|Hne]; [rewrite Nat.eqb_refl; reflexivity|].
  destruct (Nat.eqb_spec (N.to_nat j) (N.to_nat i)) as [E|E]; [|reflexivity].
  apply N2Nat.inj in E. contradiction.
Qed.

Lemma set_kids_len g i l : length (g_kids (set_kids g i l)) = length (g_kids g).
Proof. unfold set_kids; simpl. apply list_set_length. Qed.

Lemma set_kids_free g i l : g_free (set_kids g i l) = g_free g.
Proof. reflexivity. Qed.

Lemma In_kids_lt g p c : In c (kids g p) -> p < N.of_nat (length (g_kids g)).
Proof.
  intros H. destruct (N.ltb_spec p (N.of_nat (length (g_kids g)))); auto.
  rewrite kids_oob in H by lia. contradiction.
Qed.

(** ---- chains ---- *)
Lemma last_cons_irrel {A} (l : list A) x d d' : last (x :: l) d = last (x :: l) d'.
Proof. revert x; induction l as [|y l IH]; intros x; [reflexivity|]. change (last (y :: l) d = last (y :: l) d'). apply IH. Qed.

Lemma chain_app {V} (t : ObjectTree V) p prev l1 l2 nxt :
  chain t p prev (l1 ++ l2) nxt <-> chain t p prev l1 (hd nxt l2) /\ chain t p (last l1 prev) l2 nxt.
Proof.
  revert prev; induction l1 as [|c l1 IH]; intros prev; simpl.
  - tauto.
  - rewrite IH. destruct l1 as [|c' l1']; [simpl; tauto|].
    rewrite (last_cons_irrel l1' c' c prev).
    change (last (c :: c' :: l1') prev) with (last (c' :: l1') prev). simpl hd. tauto.
Qed.

Definition same_links {V} (o o' : Object V) : Prop :=
  o_opcode o' = o_opcode o /\ o_parent o' = o_parent o /\ o_prev o' = o_prev o /\ o_next o' = o_next o.

Lemma node_frame {V} (t t' : ObjectTree V) c p pv nx :
  (forall o, get t c = Some o -> exists o', get t' c = Some o' /\ same_links o o') ->
  node t c p pv nx -> node t' c p pv nx.
Proof.
  intros H (o & Hg & Hl & Hp & Hpv & Hn). destruct (H o Hg) as (o' & Hg' & E1 & E2 & E3 & E4).
  exists o'. repeat split; congruence.
Qed.

Lemma chain_frame {V} (t t' : ObjectTree V) p prev l nxt :
  (forall c o, In c l -> get t c = Some o -> exists o', get t' c = Some o' /\ same_links o o') ->
  chain t p prev l nxt -> chain t' p prev l nxt.
Proof.
  revert prev; induction l as [|c l IH]; intros prev H; simpl; auto.
  intros [Hn Hc]. split.
  - eapply node_frame; eauto. intros o Ho. apply (H c o); simpl; auto.
  - apply IH; auto. intros c' o' Hin. apply H. simpl; auto.
Qed.

Lemma chain_In {V} (t : ObjectTree V) p prev l nxt c :
  chain t p prev l nxt -> In c l -> exists pv nx, node t c p pv nx.
Proof.
  revert prev; induction l as [|x l IH]; intros prev; simpl; [tauto|].
  intros [Hn Hc] [->|Hin]; eauto.
Qed.

Lemma chain_In_parent {V} (t : ObjectTree V) p prev l nxt c :
  chain t p prev l nxt -> In c l -> exists o, get t c = Some o /\ o_opcode o <> opFreed /\ o_parent o = p.
Proof.
  intros Hc Hin. destruct (chain_In _ _ _ _ _ _ Hc Hin) as (pv & nx & o & H1 & H2 & H3 & _). eauto.
Qed.

(** the first element has [prev] behind it, the last has [nxt] in front *)
Lemma chain_hd {V} (t : ObjectTree V) p prev c l nxt :
  chain t p prev (c :: l) nxt -> node t c p prev (hd nxt l).
Proof. simpl. tauto. Qed.

Lemma chain_last {V} (t : ObjectTree V) p prev l z nxt :
  chain t p prev (l ++ [z]) nxt -> node t z p (last l prev) nxt.
Proof. rewrite chain_app. simpl. tauto. Qed.

Lemma last_app_one {A} (l : list A) z d : last (l ++ [z]) d = z.
Proof. apply last_last. Qed.

Lemma hd_app_one {A} (l : list A) z d : hd d (l ++ [z]) = hd z l.
Proof. destruct l; reflexivity. Qed.

Lemma list_last_case {A} (l : list A) : l = [] \/ exists l' z, l = l' ++ [z].
Proof.
  destruct l as [|x l]; [left; reflexivity|right].
  destruct (@exists_last _ (x :: l)) as (l' & z & E); [discriminate|eauto].
Qed.

(** ---- consequences of R ---- *)
Lemma fchain_In {V} (t : ObjectTree V) h l x :
  fchain t h l -> In x l -> exists o, get t x = Some o /\ o_opcode o = opFreed.
Proof.
  revert h; induction l as [|y l IH]; intros h; simpl; [tauto|].
  intros (-> & o & Hg & Hf & Hc) [->|Hin]; eauto.
Qed.

Lemma fchain_frame {V} (t t' : ObjectTree V) h l :
  (forall x, In x l -> get t' x = get t x) -> fchain t h l -> fchain t' h l.
Proof.
  revert h; induction l as [|y l IH]; intros h H; simpl; auto.
  intros (-> & o & Hg & Hf & Hc). split; auto. exists o. rewrite H by (simpl; auto).
  repeat split; auto. apply IH; auto. intros x Hx. apply H; simpl; auto.
Qed.

Lemma Depth_fun {V} (t : ObjectTree V) i k : Depth t i k -> forall k', Depth t i k' -> k = k'.
Proof.
  induction 1 as [i o Hg Hl Hp | i o k Hg Hl Hp Hd IH]; intros k' H'; inversion H'; subst; try congruence.
  - f_equal. apply IH. assert (o0 = o) by congruence. subst. assumption.
Qed.

Section RFacts.
Context {V : Type} (t : ObjectTree V) (g : ghost) (HR : R t g).

Lemma R_live_glive i : live t i <-> glive g i.
Proof.
  split.
  - intros (o & Hg & Hl). split.
    + rewrite (R_len _ _ HR). eapply get_lt; eauto.
    + intros Hin. destruct (fchain_In _ _ _ _ (proj1 (R_flist _ _ HR)) Hin) as (o' & Hg' & Hf). congruence.
  - intros [Hlt Hnin]. rewrite (R_len _ _ HR) in Hlt. destruct (get_some _ _ Hlt) as (o & Hg).
    exists o. split; auto. intros Hf. apply Hnin. eapply R_freed; eauto.
Qed.

Lemma R_In_kids p c :
  In c (kids g p) ->
  (exists po, get t p = Some po /\ o_opcode po <> opFreed) /\
  (exists co, get t c = Some co /\ o_opcode co <> opFreed /\ o_parent co = p).
Proof.
  intros Hin. pose proof (In_kids_lt _ _ _ Hin) as Hlt. rewrite (R_len _ _ HR) in Hlt.
  destruct (get_some _ _ Hlt) as (po & Hp).
  assert (Hl : o_opcode po <> opFreed).
  { intros Hf. destruct (R_freed _ _ HR _ _ Hp Hf) as [E _]. rewrite E in Hin. contradiction. }
  split; [eauto|].
  destruct (R_kids _ _ HR _ _ Hp Hl) as (_ & _ & Hc & _).
  eapply chain_In_parent; eauto.
Qed.

Lemma R_parent_unique p q c : In c (kids g p) -> In c (kids g q) -> p = q.
Proof.
  intros H1 H2. destruct (R_In_kids _ _ H1) as (_ & o1 & G1 & _ & P1).
  destruct (R_In_kids _ _ H2) as (_ & o2 & G2 & _ & P2). congruence.
Qed.

Lemma R_pos_not_Inv i o : get t i = Some o -> i <> InvalidIndex.
Proof. intros. eapply get_not_Inv; eauto. apply (R_bound _ _ HR). Qed.

Lemma R_root_not_child a ao p :
  get t a = Some ao -> o_parent ao = InvalidIndex -> ~ In a (kids g p).
Proof.
  intros Ha Hp Hin. destruct (R_In_kids _ _ Hin) as ((po & Hpo & _) & co & Hc & _ & Hpar).
  assert (co = ao) by congruence. subst. apply (R_pos_not_Inv _ _ Hpo). congruence.
Qed.

Lemma R_child_not_root c p co :
  In c (kids g p) -> get t c = Some co -> o_parent co = p /\ p <> InvalidIndex.
Proof.
  intros Hin Hc. destruct (R_In_kids _ _ Hin) as ((po & Hpo & _) & co' & Hc' & _ & Hpar).
  assert (co' = co) by congruence. subst. split; auto. eapply R_pos_not_Inv; eauto.
Qed.

Lemma R_groot a ao : get t a = Some ao -> o_opcode ao <> opFreed -> (groot g a <-> o_parent ao = InvalidIndex).
Proof.
  intros Ha Hl. split.
  - intros Hr. pose proof (R_up _ _ HR _ _ Ha Hl) as H.
    destruct (N.eqb_spec (o_parent ao) InvalidIndex); auto. exfalso. eapply Hr; eauto.
  - intros Hp p. eapply R_root_not_child; eauto.
Qed.

Lemma R_child_neq_parent p c : In c (kids g p) -> c <> p.
Proof.
  intros Hin E. subst c. destruct (R_In_kids _ _ Hin) as ((po & Hpo & Hl) & co & Hc & _ & Hpar).
  assert (co = po) by congruence. subst co.
  destruct (R_acyc _ _ HR _ _ Hpo Hl) as (k & Hd).
  assert (Hd' : Depth t p (S k)).
  { eapply Depth_step; eauto. rewrite Hpar. eapply R_pos_not_Inv; eauto. rewrite Hpar. exact Hd. }
  pose proof (Depth_fun _ _ _ Hd _ Hd'). lia.
Qed.

(** a live object's parent chain stays among live objects *)
Lemma R_parent_live i o : get t i = Some o -> o_opcode o <> opFreed -> o_parent o <> InvalidIndex ->
  In i (kids g (o_parent o)) /\ exists po, get t (o_parent o) = Some po /\ o_opcode po <> opFreed.
Proof.
  intros Hg Hl Hp. pose proof (R_up _ _ HR _ _ Hg Hl) as H.
  destruct (N.eqb_spec (o_parent o) InvalidIndex); [contradiction|].
  split; auto. apply (R_In_kids _ _ H).
Qed.
End RFacts.
