From Coq Require Import NArith Arith List Bool Lia.
From Coq Require Import ZifyBool ZifyN ZifyNat.
From FF Require Import Lib.Word Gen.Consts_device_acpi_aml Gen.Consts_aml_tree Aml.Stream Aml.Lex Aml.LexProofs
  Aml.Tree Aml.Parser Aml.ParserProofs Aml.TreeSpec Aml.TreeProofs Aml.TreeProofsOps Aml.TreeProofsFind Aml.TreeProofsAnc
  Aml.ParserTotalTree Aml.ParserTotalTree2 Aml.ParserTotalLex Aml.ParserTotalTable Aml.ParserTotalBase Aml.ParserTotalLeaf
  Aml.ParserTotalFrame Aml.ParserTotalLeaf2 Aml.ParserTotalFirst Aml.ParserTotalConn Aml.ParserTotalReloc Aml.ParserTotalDefer
  Aml.ParserTotalDeferS Aml.ParserTotalDeferA.
Import ListNotations.
Local Open Scope N_scope.

(** ---- counting the arguments that create an object without consuming a byte ---- *)
Lemma cntu_1 af i : cntu af i = 1 <-> exists j, j < 8 /\ i <= j /\ unpaid (argType af j) = true.
Proof.
  unfold cntu. destruct (existsb (fun j => (i <=? j) && unpaid (argType af j)) idx8) eqn:E.
  - split; [intros _|reflexivity]. apply existsb_exists in E. destruct E as (j & Hj & Hb). apply andb_prop in Hb. destruct Hb as (Hb1 & Hb2).
    exists j. split; [|split; [apply N.leb_le; exact Hb1|exact Hb2]].
    unfold idx8 in Hj. cbn [In] in Hj. repeat (destruct Hj as [<-|Hj]; [lia|]). contradiction.
  - split; [discriminate|]. intros (j & Hj8 & Hij & Hu). exfalso.
    assert (Hex : existsb (fun j => (i <=? j) && unpaid (argType af j)) idx8 = true).
    { apply existsb_exists. exists j. split; [apply In_idx8; exact Hj8|]. rewrite Hu. apply N.leb_le in Hij. rewrite Hij. reflexivity. }
    congruence.
Qed.

Lemma cntu_01 af i : cntu af i = 0 \/ cntu af i = 1.
Proof. unfold cntu. destruct (existsb _ idx8); auto. Qed.

Lemma cntu_mono af i : cntu af (i + 1) <= cntu af i.
Proof.
  destruct (cntu_01 af (i + 1)) as [E|E]; [lia|]. rewrite E. apply cntu_1 in E. destruct E as (j & A & B & C).
  assert (E' : cntu af i = 1) by (apply cntu_1; exists j; split; [exact A|split; [lia|exact C]]). lia.
Qed.

Lemma ucost_cntu af i : i < 8 -> ucost (argType af i) <= cntu af i.
Proof.
  intros Hi. unfold ucost. destruct (unpaid (argType af i)) eqn:E; [|lia].
  assert (E' : cntu af i = 1) by (apply cntu_1; exists i; split; [exact Hi|split; [lia|exact E]]). lia.
Qed.

(** ---- where the fields go: composition ---- *)
Lemma finsert_refl s g c : finsert s g g c.
Proof. intros par l1 tl E. exists []. split; [exact E|apply sibs_nil]. Qed.

Lemma finsert_trans s1 s2 g g1 g2 c :
  finsert s1 g g1 c -> finsert s2 g1 g2 c -> (forall x, glive g x -> glive g1 x) -> carry g s1 g1 s2 g2 -> finsert s2 g g2 c.
Proof.
  intros F1 F2 L C par l1 tl E. destruct (F1 par l1 tl E) as (new1 & E1 & S1). destruct (F2 par l1 (new1 ++ tl) E1) as (new2 & E2 & S2).
  exists (new2 ++ new1). split; [rewrite E2, <- app_assoc; reflexivity|].
  apply sibs_app; [eapply sibs_old; eauto|eapply sibs_carry; eauto].
Qed.

Lemma finsert_same s' g g' c : (forall y, In c (kids g y) -> kids g' y = kids g y) -> finsert s' g g' c.
Proof.
  intros H par l1 tl E. exists []. split; [|apply sibs_nil]. rewrite H; [exact E|]. rewrite E. apply in_or_app. right. left. reflexivity.
Qed.

Lemma carry_append g s1 g1 s2 g2 c :
  pframe (p_tree s1) (p_tree s2) -> (forall q, q <> c -> kids g2 q = kids g1 q) -> (forall x, glive g2 x <-> glive g1 x) ->
  glive g c -> carry g s1 g1 s2 g2.
Proof.
  intros Hpf Hk Hlv Hc x Hl Hn Hkx (o & Ho & Hrow).
  split; [apply Hlv; exact Hl|]. split.
  - rewrite Hk; [exact Hkx|]. intros E. apply Hn. rewrite E. exact Hc.
  - destruct (proj2 Hpf _ _ Ho) as (o' & Ho' & (_ & Ei & _)). exists o'. split; [exact Ho'|]. rewrite Ei. exact Hrow.
Qed.

Section StepG.
Variable tbls : list (list N).
Notation IV := (Inv tbls).
Notation FD := (FIm true).

Lemma glive_append' g o a x : glive (astep g (OpAppend o a)) x <-> glive g x.
Proof. cbn [astep]. unfold glive. rewrite set_kids_len, set_kids_free. tauto. Qed.

(** the types of the first three arguments of a Method look nothing up *)
Lemma method_nolook i : i <= 2 -> nolook (argType methodAF i) = true.
Proof.
  intros Hi. destruct method_row as (_ & _ & _ & E0 & E1 & E2 & _).
  assert (Hc : i = 0 \/ i = 1 \/ i = 2) by lia. destruct Hc as [->|[->| ->]]; [rewrite E0|rewrite E1|rewrite E2]; reflexivity.
Qed.

(** a Method whose arguments are being parsed: either it is complete, or the next argument looks nothing up *)
Lemma mbA_TM s g c af i :
  TM (eq c) s g -> mbA s g c af i -> TM (fun m => m = c /\ nolook (argType af i) = true) s g.
Proof.
  intros HTM Hmb m mo Hm Hop Hx. destruct (N.eq_dec c m) as [E|E]; [|apply (HTM m mo Hm Hop E)]. subst m.
  destruct (Hmb mo Hm Hop) as [Ht|(-> & Hb)]; [exact Ht|]. exfalso. apply Hx. split; [reflexivity|].
  apply method_nolook. destruct Hb as [(Hi & _)|(Hi & _)]; lia.
Qed.

Lemma mbA_done s g c af i : argCount af <= i -> argCount af <> 0 \/ True -> TM (eq c) s g -> mbA s g c af i -> TM NoX s g.
Proof.
  intros Hc _ HTM Hmb m mo Hm Hop _. destruct (N.eq_dec c m) as [E|E]; [|apply (HTM m mo Hm Hop E)]. subst m.
  destruct (Hmb mo Hm Hop) as [Ht|(-> & Hb)]; [exact Ht|]. exfalso.
  destruct method_row as (_ & _ & Ec & _). rewrite Ec in Hc. destruct Hb as [(Hi & _)|(Hi & _)]; lia.
Qed.

(** typedness of the Methods other than [c] survives a relinking step that leaves their child lists alone *)
Lemma TM_pframe_except (X : N -> Prop) s1 g1 s2 g2 c :
  gwf g1 -> TM X s1 g1 -> pframe (p_tree s1) (p_tree s2) -> (forall q, q <> c -> kids g2 q = kids g1 q) -> nnp s1 c ->
  TM (fun m => X m \/ m = c) s2 g2.
Proof.
  intros Hwf H Hpf Hk Hnc m mo Hm Hop Hx.
  destruct (pframe_inv _ _ _ _ Hpf Hm) as (mo1 & Hm1 & E1 & _).
  assert (Hmc : m <> c) by (intros E; apply Hx; right; exact E).
  assert (Ht1 : mtyped s1 g1 m) by (apply (H m mo1 Hm1); [congruence|intros F; apply Hx; left; exact F]).
  destruct Ht1 as (a0 & a1 & rest & a0o & a1o & v & Hk1 & Ha0 & Hn0 & Ha1 & Hv & Hn1 & Hmx).
  destruct (proj2 Hpf _ _ Ha0) as (a0o' & Ha0' & E0). destruct (proj2 Hpf _ _ Ha1) as (a1o' & Ha1' & E1').
  destruct (pay_eq_pnv _ _ E0) as (E0p & _). destruct (pay_eq_pnv _ _ E1') as (E1p & V1).
  assert (Ha0c : a0 <> c) by (intros ->; destruct Hmx as (_ & M2 & _); exact (Hnc a0o Ha0 M2)).
  exists a0, a1, rest, a0o', a1o', v. rewrite (Hk m Hmc). split; [exact Hk1|]. split; [exact Ha0'|].
  split; [eapply nodefer_pnv; eauto|]. split; [exact Ha1'|]. split; [congruence|]. split; [eapply nodefer_pnv; eauto|].
  apply (mx_pnv g1 g2 a0 a0o a0o' a1o a1o' E0p E1p (Hk a0 Ha0c) Hmx).
Qed.

Lemma step_Dargs fuel : D_arg tbls fuel -> D_args tbls fuel -> D_args tbls (S fuel).
Proof.
  intros IHarg IHargs ii op fl af curObj argIndex s g H I0 H0 Hl Hrow Hi9 Hroom Hflp Htie HLI HTM Hmb.
  cbn [parseArgs].
  pose proof (argCount_le8 af) as Hcnt. pose proof (fi_R _ _ H) as HR. pose proof (R_gwf _ _ HR) as Hwf.
  assert (Hdone : argCount af <= argIndex ->
    exists g', FD s g' /\ ExtD s g s g' /\ Fr NoP (eq curObj) (fun y => has_fl af /\ In curObj (kids g y)) s g s g' /\
      finsert s g g' curObj /\ Psi s <= Psi s + 3 /\
      (okres ROk -> Psi s <= Psi s + cntu af argIndex /\ TM NoX s g' /\ p_scopeStack s = p_scopeStack s)).
  { intros Hc. exists g. split; [exact H|]. split; [apply ExtD_refl|]. split; [apply Fr_refl|]. split; [apply finsert_refl|].
    split; [lia|]. intros _. split; [lia|]. split; [|reflexivity]. eapply mbA_done; eauto. }
  destruct (N.eqb_spec (argCount af) 0) as [Ez|Ez].
  { apply wp_ret. apply Hdone. lia. }
  destruct (argCount af <=? argIndex) eqn:Ele.
  { apply wp_ret. apply Hdone. apply N.leb_le. exact Ele. }
  clear Hdone. apply N.leb_gt in Ele. assert (Hi8 : argIndex < 8) by lia.
  assert (Hnnp : nnp s curObj).
  { intros co Hco E. rewrite (Htie co Hco) in E. subst ii. vm_compute in Hrow. injection Hrow as _ _ Eaf. subst af. vm_compute in Ele. destruct argIndex; discriminate. }
  set (argTy := argType af argIndex) in *.
  assert (Hhf : argTy = aml_pArgTypeFieldList -> hasfl s curObj).
  { intros E. destruct (FI_live_get _ _ _ H Hl) as (co & Hco & _). exists co, op, fl, af. split; [exact Hco|].
    split; [rewrite (Htie co Hco); exact Hrow|]. exists argIndex. split; [exact Hi8|exact E]. }
  wbi tbls I0. eapply wp_weaken; [apply (IHarg op fl af curObj argTy s g H I0 H0 Hl)| |].
  { pose proof (ucost_cntu af argIndex Hi8). fold argTy in H1. unfold roomD in *. lia. }
  { intros E. split; [apply Hflp; exists argIndex; split; auto|]. split; [apply HLI; auto|apply Hhf; exact E]. }
  { apply mbA_TM; auto. }
  { exact Hnnp. }
  { auto. }
  intros [a res] s1 (g1 & H1 & X1 & F1 & Hkc1 & Hfi1 & Hfr & HP1 & Hok1 & Hsh1 & Hbd1 & Hns1 & Hpl1 & Hnfl1) I1.
  pose proof (xd_g _ _ _ _ X1) as G1.
  assert (Hlc1 : glive g1 curObj) by (apply (ge_live _ _ G1); exact Hl).
  assert (Hnnp1 : nnp s1 curObj) by (apply (nnp_keep NoP s g s1 curObj (fr_keep _ _ _ _ _ _ _ F1) HR Hl Hnnp)).
  (* the state after the optional append *)
  assert (Happ : forall (Q : unit -> pstate -> Prop),
    (forall s2 g2, FD s2 g2 -> IV s2 -> gext g g2 -> pframe (p_tree s1) (p_tree s2) ->
       Psi s2 = Psi s1 -> p_scopeStack s2 = p_scopeStack s1 ->
       r_len (p_r s2) = r_len (p_r s1) -> r_offset (p_r s2) = r_offset (p_r s1) ->
       kids g2 curObj = kids g1 curObj ++ (match a with Some x => [x] | None => [] end) ->
       (forall q, q <> curObj -> kids g2 q = kids g1 q) ->
       (forall x, glive g2 x <-> glive g1 x) -> Q tt s2) ->
    wp True (match a with Some a0 => appendM (Some curObj) a0 | None => ret tt end) s1 (fun u s2 => IV s2 -> Q u s2)).
  { intros Q K. destruct a as [obj|].
    - destruct Hfr as (Hfresh & Hlive & Hroot).
      eapply (append_step _ curObj obj s1 g1 g); [exact H1|exact Hwf|exact G1|exact Hl|exact Hfresh|exact Hlive|exact Hroot|].
      intros t2 H2 G2 Hpf Hk Hk' I2.
      apply (K (with_tree s1 t2) (astep g1 (OpAppend curObj obj))); auto.
      + unfold Psi, lp, rem. pcbn. rewrite (proj1 Hpf). reflexivity.
      + intros x. apply glive_append'.
    - apply wp_ret. intros I2. apply (K s1 g1); auto.
      + apply pframe_refl.
      + rewrite app_nil_r. reflexivity.
      + intros x. tauto. }
  assert (HflE : argTy = aml_pArgTypeFieldList -> has_fl af) by (intros E; exists argIndex; split; [exact Hi8|exact E]).
  apply (wp_bind_inv tbls _ _ _ _ _ I1); [destruct a; [apply hoare_appendM|apply hoare_ret; exact I]|].
  apply Happ. intros s2 g2 H2 I2 G2 Hpf2 EP2 Est2 El2 Eo2 Hk2 Hk2' Hlv2.
  assert (Hlc2 : glive g2 curObj) by (apply (ge_live _ _ G2); exact Hl).
  (* frames up to here *)
  assert (F2 : Fr NoP (eq curObj) (fun y => has_fl af /\ In curObj (kids g y)) s g s2 g2).
  { assert (F1' : Fr NoP (eq curObj) (fun y => has_fl af /\ In curObj (kids g y)) s g s1 g1).
    { eapply Fr_weaken; [| | |exact F1]; auto. intros y _ (E & Hin). split; [apply HflE; exact E|exact Hin]. }
    destruct F1' as [K1 Gk1]. constructor.
    - intros i o Hi Ho. destruct (K1 i o Hi Ho) as (o1 & Ho1 & E1 & V1). destruct (proj2 Hpf2 _ _ Ho1) as (o2 & Ho2 & E2).
      destruct (pay_eq_pnv _ _ E2) as (E2' & V2). exists o2. split; [exact Ho2|]. split; [eapply pnv_trans; eauto|]. intros Hn. rewrite V2. apply V1. exact Hn.
    - intros y Hy HE. destruct (Gk1 y Hy HE) as ((e1 & Ee1) & B1).
      destruct (N.eq_dec y curObj) as [->|Hne].
      + split; [rewrite Hk2, Ee1, <- app_assoc; eexists; reflexivity|]. intros F. exfalso. apply F. reflexivity.
      + rewrite (Hk2' y Hne). split; [exists e1; exact Ee1|]. exact B1. }
  assert (Hfi2 : finsert s2 g g2 curObj).
  { apply finsert_trans with (s1 := s1) (g1 := g1).
    - destruct (N.eq_dec argTy aml_pArgTypeFieldList) as [E|E]; [apply Hfi1; exact E|].
      apply finsert_same. intros y Hin. assert (Hy : glive g y) by (apply (Hwf y curObj Hin)).
      destruct (fr_kids _ _ _ _ _ _ _ F1 y Hy) as (_ & Hex); [intros (F & _); contradiction|].
      apply Hex. intros Ey. subst y. eapply (R_child_neq_parent _ _ HR); eauto.
    - apply finsert_same. intros y Hin. apply Hk2'. intros Ey. subst y.
      eapply (R_child_neq_parent _ _ (fi_R _ _ H1)); eauto.
    - apply (ge_live _ _ G1).
    - eapply carry_append; eauto. }
  assert (HX2 : ExtD s g s2 g2).
  { constructor; [exact G2| | |].
    - rewrite El2. apply (xd_len _ _ _ _ X1).
    - rewrite Eo2. apply (xd_off _ _ _ _ X1).
    - rewrite Est2. apply (xd_scopes _ _ _ _ X1). }
  (* the object itself, back at the start *)
  assert (Hback : forall mo, tget (p_tree s2) curObj = Some mo ->
            exists co, tget (p_tree s) curObj = Some co /\ o_opcode co = o_opcode mo).
  { intros mo Hm. destruct (FI_live_get _ _ _ H Hl) as (co & Hco & _). exists co. split; [exact Hco|].
    destruct (fr_keep _ _ _ _ _ _ _ F2 curObj co Hl Hco) as (mo' & Hm' & (E & _) & _). congruence. }
  assert (Hnotin : ~ In curObj (kids g curObj)) by (intros F; eapply (R_child_neq_parent _ _ HR); eauto).
  assert (Htyped_keep : mtyped s g curObj -> mtyped s2 g2 curObj).
  { intros Ht. eapply (mtyped_frame NoP (eq curObj) _ s g s2 g2 curObj Hwf F2 Hl);
      [| |intros i o []|intros i <-; exact Hnnp|intros y (_ & Hin) F; rewrite F in Hin; exact Hin|exact Ht].
    - intros (_ & F). contradiction.
    - right. intros (_ & F). contradiction. }
  destruct (pres_eqb res ROk) eqn:Eres.
  2:{ (* the argument failed, or the field list is done *)
      apply wp_ret. exists g2. split; [exact H2|]. split; [exact HX2|]. split; [exact F2|]. split; [exact Hfi2|].
      split; [lia|]. intros [Hr|Hr]; [subst res; discriminate|].
      pose proof (Hsh1 Hr) as Efl. destruct (Hok1 (or_intror Hr)) as (K1 & K2 & K3).
      assert (Eu : ucost argTy = 0) by (rewrite Efl; reflexivity).
      split; [lia|]. split; [|congruence].
      assert (HTM2 : TM (fun m => (m = curObj /\ nolook argTy = true) \/ m = curObj) s2 g2).
      { apply (TM_pframe_except _ s1 g1 s2 g2 curObj (R_gwf _ _ (fi_R _ _ H1)) K3 Hpf2 Hk2' Hnnp1). }
      intros m mo Hm Hop _. destruct (N.eq_dec m curObj) as [->|Hne]; [|apply (HTM2 m mo Hm Hop); intros [(F & _)|F]; contradiction].
      destruct (Hback mo Hm) as (co & Hco & Eop). rewrite Hop in Eop.
      destruct (Hmb co Hco Eop) as [Ht|(Eaf & Hb)]; [apply Htyped_keep; exact Ht|]. exfalso.
      assert (Hi2 : argIndex <= 2) by (destruct Hb as [(Hi & _)|(Hi & _)]; lia).
      pose proof (method_nolook argIndex Hi2) as Hnl. unfold argTy in Efl. rewrite Eaf in Efl.
      destruct method_row as (_ & _ & _ & E0 & E1 & E2 & _).
      assert (Hc : argIndex = 0 \/ argIndex = 1 \/ argIndex = 2) by lia.
      destruct Hc as [Ec|[Ec|Ec]]; rewrite Ec in Efl; [rewrite E0 in Efl|rewrite E1 in Efl|rewrite E2 in Efl]; discriminate. }
  assert (res = ROk) by (destruct res; try discriminate; reflexivity). subst res. clear Eres.
  destruct (Hok1 (or_introl eq_refl)) as (K1 & K2 & K3).
  assert (Ew : w8 (argIndex + 1) = argIndex + 1) by (unfold w8, two8; apply N.mod_small; lia). rewrite Ew.
  assert (HTM2 : TM (eq curObj) s2 g2).
  { eapply TM_weaken; [|apply (TM_pframe_except _ s1 g1 s2 g2 curObj (R_gwf _ _ (fi_R _ _ H1)) K3 Hpf2 Hk2' Hnnp1)].
    intros m mo _ _ [(E & _)|E]; symmetry; exact E. }
  assert (Hkc2 : kids g2 curObj = kids g curObj ++ (match a with Some x => [x] | None => [] end)).
  { rewrite Hk2. f_equal. destruct (N.eq_dec argTy aml_pArgTypeFieldList) as [E|E].
    - exfalso. exact (Hnfl1 eq_refl E).
    - apply Hkc1; [left; reflexivity|exact E]. }
  (* the Method that is being built advances by one argument *)
  assert (Hmb2 : mbA s2 g2 curObj af (argIndex + 1)).
  { intros co2 Hco2 Hop2. destruct (Hback co2 Hco2) as (co & Hco & Eop). rewrite Hop2 in Eop.
    destruct (Hmb co Hco Eop) as [Ht|(Eaf & Hb)]; [left; apply Htyped_keep; exact Ht|].
    destruct method_row as (_ & _ & _ & E0 & E1 & E2 & _).
    destruct Hb as [(Hi1 & Hk0)|(Hi2 & a0 & a0o & Hk0 & Ha0 & Hn0 & Hop0 & Hii0 & Hkn0)].
    - assert (Hc : argIndex = 0 \/ argIndex = 1) by lia. destruct Hc as [Ec|Ec].
      + assert (Ety : argTy = aml_pArgTypePkgLen) by (unfold argTy; rewrite Eaf, Ec; exact E0).
        rewrite (Hpl1 eq_refl Ety) in Hkc2. rewrite Hk0 in Hkc2. cbn [app] in Hkc2.
        right. split; [exact Eaf|]. left. split; [lia|exact Hkc2].
      + assert (Ety : argTy = aml_pArgTypeNameString) by (unfold argTy; rewrite Eaf, Ec; exact E1).
        destruct (Hns1 eq_refl Ety) as (obj & po & Ea & Hpo & Hnd & Hpop & Hpii & Hpk). rewrite Ea, Hk0 in Hkc2. cbn [app] in Hkc2.
        destruct (proj2 Hpf2 _ _ Hpo) as (po2 & Hpo2 & E2'). destruct (pay_eq_pnv _ _ E2') as (E2p & _).
        assert (Hoc : obj <> curObj).
        { intros E. pose proof Hfr as Hfr'. rewrite Ea in Hfr'. cbn [fresh_root] in Hfr'. apply (proj1 Hfr'). rewrite E. exact Hl. }
        right. split; [exact Eaf|]. right. split; [lia|]. exists obj, po2. split; [exact Hkc2|]. split; [exact Hpo2|].
        split; [eapply nodefer_pnv; eauto|]. destruct E2p as (P1 & P2 & _). split; [congruence|]. split; [congruence|].
        rewrite (Hk2' obj Hoc). exact Hpk.
    - assert (Ety : argTy = aml_pArgTypeByteData) by (unfold argTy; rewrite Eaf, Hi2; exact E2).
      destruct (Hbd1 eq_refl Ety) as (obj & po & v & Ea & Hpo & Hv & Hnd & Hpop & Hpii). rewrite Ea, Hk0 in Hkc2. cbn [app] in Hkc2.
      destruct (proj2 Hpf2 _ _ Hpo) as (po2 & Hpo2 & E2'). destruct (pay_eq_pnv _ _ E2') as (E2p & V2).
      assert (Hla0 : glive g a0) by (apply (Hwf curObj a0); rewrite Hk0; left; reflexivity).
      destruct (fr_keep _ _ _ _ _ _ _ F2 a0 a0o Hla0 Ha0) as (a0o2 & Ha0o2 & E0p & _).
      left. exists a0, obj, [], a0o2, po2, v. split; [exact Hkc2|]. split; [exact Ha0o2|]. split; [eapply nodefer_pnv; eauto|].
      split; [exact Hpo2|]. split; [congruence|]. split; [eapply nodefer_pnv; eauto|].
      assert (Ha0c : a0 <> curObj) by (intros E; apply (R_child_neq_parent _ _ HR curObj a0); [rewrite Hk0; left; reflexivity|exact E]).
      destruct E0p as (Q1 & Q2 & _). destruct E2p as (P1 & P2 & _).
      unfold mx. split; [congruence|]. split; [congruence|]. split; [|split; congruence].
      destruct (fr_kids _ _ _ _ _ _ _ F2 a0 Hla0) as (_ & Hex); [intros (_ & Hin); rewrite Hkn0 in Hin; exact Hin|].
      rewrite Hex; [exact Hkn0|]. intros E. apply Ha0c. symmetry. exact E. }
  assert (Htie2 : forall co, tget (p_tree s2) curObj = Some co -> o_infoIndex co = ii).
  { intros co2 Hco2. destruct (FI_live_get _ _ _ H Hl) as (co & Hco & _).
    destruct (fr_keep _ _ _ _ _ _ _ F2 curObj co Hl Hco) as (co2' & Hco2' & (_ & Ei & _) & _).
    assert (co2' = co2) by congruence. subst. rewrite Ei. apply Htie. exact Hco. }
  assert (H02 : glive g2 0) by (apply (ge_live _ _ G2); exact H0).
  destruct (unpaid argTy) eqn:Eun.
  - (* a term list or byte list is the last argument: the recursive call returns at once *)
    assert (Hlast : argCount af <= argIndex + 1) by (apply (unpaid_last ii op fl af argIndex Hrow Hi8 Eun)).
    assert (Hc1 : cntu af argIndex = 1) by (apply cntu_1; exists argIndex; split; [exact Hi8|split; [lia|exact Eun]]).
    assert (Eu : ucost argTy = 1) by (unfold ucost; rewrite Eun; reflexivity).
    destruct fuel as [|fuel']; cbn [parseArgs]; [apply wp_outOfFuel; exact I|].
    apply N.eqb_neq in Ez. rewrite Ez. apply N.leb_le in Hlast. rewrite Hlast. apply wp_ret.
    exists g2. split; [exact H2|]. split; [exact HX2|]. split; [exact F2|]. split; [exact Hfi2|].
    split; [lia|]. intros _. split; [lia|]. split; [|congruence].
    intros m mo Hm Hop _. destruct (N.eq_dec curObj m) as [E|Hne]; [|apply (HTM2 m mo Hm Hop Hne)]. subst m.
    destruct (Hmb2 mo Hm Hop) as [Ht|(Eaf & Hb)]; [exact Ht|]. exfalso.
    destruct method_row as (_ & _ & Ec & _). rewrite Eaf, Ec in Hlast. apply N.leb_le in Hlast.
    destruct Hb as [(Hi & _)|(Hi & _)]; lia.
  - assert (Eu : ucost argTy = 0) by (unfold ucost; rewrite Eun; reflexivity).
    eapply wp_weaken; [apply (IHargs ii op fl af curObj (argIndex + 1) s2 g2 H2 I2 H02 Hlc2 Hrow)| |].
    + lia.
    + pose proof (cntu_mono af argIndex). unfold roomD in *. lia.
    + intros Hf. eapply has_parent_ext; [exact G2|apply Hflp; exact Hf].
    + exact Htie2.
    + intros Hi9' Hfl1.
      destruct (fieldlist_after_bytedata _ _ _ _ _ Hrow Hi9' Hfl1) as (_ & Hb). replace (argIndex + 1 - 1) with argIndex in Hb by lia.
      destruct (Hbd1 eq_refl Hb) as (obj & po & v & Ea & Hpo & Hv & _). rewrite Ea in Hk2.
      destruct (FI_live_get _ _ _ H2 Hlc2) as (co2 & Hco2 & Hlco2).
      destruct (R_kids _ _ (fi_R _ _ H2) _ _ Hco2 Hlco2) as (_ & Hlast & _).
      rewrite Hk2, last_app_one in Hlast.
      destruct (proj2 Hpf2 _ _ Hpo) as (po2 & Hpo2 & E2'). destruct (pay_eq_pnv _ _ E2') as ((Eop2 & _) & V2).
      assert (Hlo2 : glive g2 obj).
      { apply ((R_gwf _ _ (fi_R _ _ H2)) curObj obj). rewrite Hk2. apply in_or_app. right. left. reflexivity. }
      destruct (FI_live_get _ _ _ H2 Hlo2) as (po2' & Hpo2' & Hlpo2). assert (po2' = po2) by congruence. subst po2'.
      exists co2, po2, v. split; [exact Hco2|]. rewrite Hlast. split; [exact Hpo2|]. split; [exact Hlpo2|congruence].
    + exact HTM2.
    + exact Hmb2.
    + auto.
    + intros res s3 (g3 & H3 & X3 & F3 & Hfi3 & HP3 & Hok3). exists g3. split; [exact H3|].
      split; [eapply ExtD_trans; eauto|].
      split.
      { eapply Fr_trans; [exact F2|exact F3|apply (ge_live _ _ G2)|auto|auto|].
        intros y Hy (Hf & Hin). split; [exact Hf|]. apply (ge_old _ _ G2 y curObj Hin Hl). }
      split.
      { eapply finsert_trans; [exact Hfi2|exact Hfi3|apply (ge_live _ _ G2)|].
        apply (Fr_carry _ _ _ g s2 g2 s3 g3 F3 (xd_g _ _ _ _ X3)).
        - intros x <-. exact Hl.
        - intros y (_ & Hin) E. rewrite E in Hin. exact Hin. }
      split; [lia|]. intros Hr. destruct (Hok3 Hr) as (L1 & L2 & L3). pose proof (cntu_mono af argIndex).
      split; [lia|]. split; [exact L2|congruence].
Qed.
End StepG.
