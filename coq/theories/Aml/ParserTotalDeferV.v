(** C12 (stretch): the walk of parseDeferredBlocks over the whole tree never panics and preserves R.  A pending BankField
    (the only Defer row with a FieldList) inserts its NamedFields into the list the walk is iterating: they are new,
    childless and not pending, so the walk steps over them. *)
From Coq Require Import NArith Arith List Bool Lia.
From Coq Require Import ZifyBool ZifyN ZifyNat.
From FF Require Import Lib.Word Gen.Consts_device_acpi_aml Gen.Consts_aml_tree Aml.Stream Aml.Lex Aml.LexProofs
  Aml.Tree Aml.Parser Aml.ParserProofs Aml.TreeSpec Aml.TreeProofs Aml.TreeProofsOps Aml.TreeProofsFind Aml.TreeProofsAnc
  Aml.ParserTotalTree Aml.ParserTotalTree2 Aml.ParserTotalLex Aml.ParserTotalTable Aml.ParserTotalBase Aml.ParserTotalLeaf
  Aml.ParserTotalFrame Aml.ParserTotalLeaf2 Aml.ParserTotalFirst Aml.ParserTotalConn Aml.ParserTotalReloc Aml.ParserTotalDefer
  Aml.ParserTotalMerge Aml.ParserTotalNonNamed Aml.ParserTotalCalls Aml.ParserTotalDeferS Aml.ParserTotalDeferB Aml.ParserTotalDeferW Aml.ParserTotalDeferH Aml.ParserTotalDeferM.
Import ListNotations.
Local Open Scope N_scope.

(** the test of parseDeferredBlocks: the row of the object has the Defer flag and the object belongs to the table being parsed *)
Definition isflag (s : pstate) (x : N) : bool :=
  match tget (p_tree s) x with
  | Some o => match opInfo (o_infoIndex o) with
              | Some (_, fl, _) => hasFlag fl aml_pOpFlagDeferParsing && (o_tableHandle o =? p_handle s)
              | None => false
              end
  | None => false
  end.

(** [dcnt s g x n]: the walk from [x] meets [n] pending deferred objects (it does not descend below them); one with a
    field list (BankField) has a parent; none is a pOpIntNamePathOrMethodCall object *)
Inductive dcnt (s : pstate) (g : ghost) : N -> N -> Prop :=
| dc_flag x : glive g x -> isflag s x = true -> (hasfl s x -> has_parent g x) ->
    (forall o, tget (p_tree s) x = Some o -> o_opcode o <> aml_pOpIntNamePathOrMethodCall) -> dcnt s g x 1
| dc_node x n : glive g x -> isflag s x = false -> dcl s g (kids g x) n -> dcnt s g x n
with dcl (s : pstate) (g : ghost) : list N -> N -> Prop :=
| dcl_nil : dcl s g [] 0
| dcl_cons c l n m : dcnt s g c n -> dcl s g l m -> dcl s g (c :: l) (n + m).

Scheme dcnt_mut := Minimality for dcnt Sort Prop
  with dcl_mut := Minimality for dcl Sort Prop.
Combined Scheme dcnt_dcl_ind from dcnt_mut, dcl_mut.

Lemma dcnt_live s g x n : dcnt s g x n -> glive g x.
Proof. intros H. inversion H; auto. Qed.

(** objects that cost the walk nothing: childless and not pending (the NamedFields a BankField block inserts next to it) *)
Definition zero (s : pstate) (g : ghost) (x : N) : Prop := glive g x /\ kids g x = [] /\ isflag s x = false.

Lemma zero_dcnt s g x : zero s g x -> dcnt s g x 0.
Proof. intros (A & B & C). apply dc_node; auto. rewrite B. apply dcl_nil. Qed.

Lemma nfrow_unflagged s x : nfrow s x -> isflag s x = false.
Proof.
  intros (o & Ho & Hrow). unfold isflag. rewrite Ho.
  destruct (opcodeTableIndex aml_pOpIntNamedField true) as [k|] eqn:Ek; [|discriminate]. injection Hrow as Hrow. rewrite <- Hrow.
  vm_compute in Ek. injection Ek as Ek. subst k.
  match goal with |- match opInfo ?k with _ => _ end = _ => destruct (opInfo k) as [[[op fl] af]|] eqn:E; [|reflexivity] end.
  vm_compute in E. injection E as _ Efl _.
  assert (Hf : hasFlag fl aml_pOpFlagDeferParsing = false) by (subst fl; vm_compute; reflexivity).
  rewrite Hf. reflexivity.
Qed.

(** a list with objects satisfying [Z] inserted *)
Inductive ins (Z : N -> Prop) : list N -> list N -> Prop :=
| ins_nil : ins Z [] []
| ins_keep x l l' : ins Z l l' -> ins Z (x :: l) (x :: l')
| ins_add x l l' : Z x -> ins Z l l' -> ins Z l (x :: l').

Lemma ins_refl Z l : ins Z l l.
Proof. induction l; constructor; auto. Qed.

Lemma ins_mono (Z Z' : N -> Prop) l l' : (forall x, Z x -> Z' x) -> ins Z l l' -> ins Z' l l'.
Proof. intros H I. induction I; constructor; auto. Qed.

Lemma ins_trans Z l1 l2 l3 : ins Z l1 l2 -> ins Z l2 l3 -> ins Z l1 l3.
Proof.
  intros H12 H23. revert l1 H12. induction H23 as [|x l2 l3 H IH|x l2 l3 Hz H IH]; intros l1 H12.
  - exact H12.
  - inversion H12 as [|y k k' Hk|y k k' Hy Hk]; subst.
    + apply ins_keep. apply IH. exact Hk.
    + apply ins_add; [exact Hy|]. apply IH. exact Hk.
  - apply ins_add; [exact Hz|]. apply IH. exact H12.
Qed.

Lemma ins_split Z l l' : ins Z l l' -> forall l1 c l2, l = l1 ++ c :: l2 -> exists l1' l2', l' = l1' ++ c :: l2' /\ ins Z l2 l2'.
Proof.
  induction 1 as [|x l l' H IH|x l l' Hz H IH]; intros l1 c l2 E.
  - destruct l1; discriminate.
  - destruct l1 as [|y l1]; cbn [app] in E; injection E as E1 E2.
    + subst. exists [], l'. split; [reflexivity|exact H].
    + subst. destruct (IH l1 c l2 eq_refl) as (a & b & Ea & Hb). exists (y :: a), b. split; [rewrite Ea; reflexivity|exact Hb].
  - destruct (IH l1 c l2 E) as (a & b & Ea & Hb). exists (x :: a), b. split; [rewrite Ea; reflexivity|exact Hb].
Qed.

Lemma ins_front Z new l : Forall Z new -> ins Z l (new ++ l).
Proof. intros H. induction H; cbn [app]; [apply ins_refl|apply ins_add; auto]. Qed.

Lemma ins_insert Z l1 c new tl : Forall Z new -> ins Z (l1 ++ c :: tl) (l1 ++ c :: new ++ tl).
Proof. intros H. induction l1; cbn [app]; apply ins_keep; [apply ins_front; exact H|exact IHl1]. Qed.

Lemma dcl_ins s g l l' : ins (zero s g) l l' -> forall n, dcl s g l n -> dcl s g l' n.
Proof.
  induction 1 as [|x l l' H IH|x l l' Hz H IH]; intros n Hd.
  - exact Hd.
  - inversion Hd as [|c k n1 m Hc Hr]; subst. apply dcl_cons; [exact Hc|apply IH; exact Hr].
  - change n with (0 + n). apply dcl_cons; [apply zero_dcnt; exact Hz|apply IH; exact Hd].
Qed.

(** what one step of the walk does to the rest of the tree *)
Record wstep (s : pstate) (g : ghost) (s' : pstate) (g' : ghost) : Prop := mkWstep {
  ws_g : gext g g';
  ws_keep : keep (fun _ => True) s g s';
  ws_h : p_handle s' = p_handle s;
  ws_len : r_len (p_r s') = r_len (p_r s);
  ws_typed : typed (p_tree s) -> typed (p_tree s');
  ws_nil : forall y, glive g y -> isflag s y = false -> kids g y = [] -> kids g' y = [];
  ws_kids : forall y, glive g y -> isflag s y = false -> ins (zero s' g') (kids g y) (kids g' y);
  ws_pre : forall y a0 a1 rest, glive g y -> isflag s a0 = false -> isflag s a1 = false ->
    kids g y = a0 :: a1 :: rest -> exists rest', kids g' y = a0 :: a1 :: rest'
}.

Lemma wstep_refl s g : wstep s g s g.
Proof.
  constructor; auto; [apply gext_refl|apply keep_refl|intros; apply ins_refl|].
  intros y a0 a1 rest _ _ _ Hk. exists rest. exact Hk.
Qed.

Lemma isflag_keep P s g s' y : WI s g -> keep P s g s' -> p_handle s' = p_handle s -> glive g y -> isflag s' y = isflag s y.
Proof.
  intros H K Hh Hy. destruct (FI_live_get _ _ _ H Hy) as (o & Ho & _).
  destruct (K y o Hy Ho) as (o' & Ho' & (_ & E2 & E3 & _) & _).
  unfold isflag. rewrite Ho, Ho', E2, E3, Hh. reflexivity.
Qed.

Lemma hasfl_keep P s g s' y : WI s g -> keep P s g s' -> glive g y -> hasfl s' y -> hasfl s y.
Proof.
  intros H K Hy (co & op & fl & af & Hco & Hrow & Hf). destruct (FI_live_get _ _ _ H Hy) as (o & Ho & _).
  destruct (K y o Hy Ho) as (o' & Ho' & (_ & E2 & _) & _). assert (o' = co) by congruence. subst o'.
  exists o, op, fl, af. rewrite <- E2. auto.
Qed.

Lemma zero_step s g s' g' x : WI s g -> wstep s g s' g' -> zero s g x -> zero s' g' x.
Proof.
  intros H [A B C D T E F G] (Hl & Hk & Hf). split; [apply (ge_live _ _ A); exact Hl|]. split; [apply E; auto|].
  rewrite (isflag_keep _ _ _ _ _ H B C Hl). exact Hf.
Qed.

Lemma wstep_trans s g s1 g1 s2 g2 : WI s g -> WI s1 g1 -> wstep s g s1 g1 -> wstep s1 g1 s2 g2 -> wstep s g s2 g2.
Proof.
  intros H H1 S1 S2. pose proof S1 as [A1 B1 C1 D1 T1 E1 F1 G1]. pose proof S2 as [A2 B2 C2 D2 T2 E2 F2 G2]. constructor.
  - eapply gext_trans; eauto.
  - eapply keep_trans; eauto. apply (ge_live _ _ A1).
  - congruence.
  - congruence.
  - auto.
  - intros y Hy Hf Hk. apply E2; [apply (ge_live _ _ A1); exact Hy| |apply E1; auto].
    rewrite (isflag_keep _ _ _ _ _ H B1 C1 Hy). exact Hf.
  - intros y Hy Hf. eapply ins_trans.
    + eapply ins_mono; [|apply (F1 y Hy Hf)]. intros x Hx. eapply zero_step; eauto.
    + apply F2; [apply (ge_live _ _ A1); exact Hy|]. rewrite (isflag_keep _ _ _ _ _ H B1 C1 Hy). exact Hf.
  - intros y a0 a1 rest Hy Hf0 Hf1 Hk.
    pose proof (R_gwf _ _ (fi_R _ _ H)) as Hwf.
    assert (Hl0 : glive g a0) by (apply (Hwf y a0); rewrite Hk; left; reflexivity).
    assert (Hl1 : glive g a1) by (apply (Hwf y a1); rewrite Hk; right; left; reflexivity).
    destruct (G1 y a0 a1 rest Hy Hf0 Hf1 Hk) as (rest1 & Hk1).
    apply (G2 y a0 a1 rest1); [apply (ge_live _ _ A1); exact Hy| | |exact Hk1].
    + rewrite (isflag_keep _ _ _ _ _ H B1 C1 Hl0). exact Hf0.
    + rewrite (isflag_keep _ _ _ _ _ H B1 C1 Hl1). exact Hf1.
Qed.

Lemma dcnt_step s g s' g' : WI s g -> wstep s g s' g' ->
  (forall x n, dcnt s g x n -> dcnt s' g' x n) /\ (forall l n, dcl s g l n -> dcl s' g' l n).
Proof.
  intros H [A B C D T E F G]. apply dcnt_dcl_ind.
  - intros x Hx Hf Hn Hnp. apply dc_flag.
    + apply (ge_live _ _ A). exact Hx.
    + rewrite (isflag_keep _ _ _ _ _ H B C Hx). exact Hf.
    + intros Hfl. eapply has_parent_ext; [exact A|]. apply Hn. eapply hasfl_keep; eauto.
    + intros o' Ho'. destruct (FI_live_get _ _ _ H Hx) as (o & Ho & _).
      destruct (B x o Hx Ho) as (o2 & Ho2 & (Eop & _) & _). assert (o2 = o') by congruence. subst o2.
      rewrite Eop. apply (Hnp o Ho).
  - intros x n Hx Hf _ IH. apply dc_node.
    + apply (ge_live _ _ A). exact Hx.
    + rewrite (isflag_keep _ _ _ _ _ H B C Hx). exact Hf.
    + eapply dcl_ins; [apply (F x Hx Hf)|exact IH].
  - apply dcl_nil.
  - intros c l n m _ IH1 _ IH2. apply dcl_cons; auto.
Qed.

(** links of a live object *)
Lemma WI_first s g x o : WI s g -> tget (p_tree s) x = Some o -> o_opcode o <> opFreed -> o_first o = hd InvalidIndex (kids g x).
Proof. intros H Hg Hl. destruct (R_kids _ _ (fi_R _ _ H) _ _ Hg Hl) as (A & _). exact A. Qed.

Lemma WI_next s g p l1 c l2 : WI s g -> glive g p -> kids g p = l1 ++ c :: l2 ->
  exists o, tget (p_tree s) c = Some o /\ o_next o = hd InvalidIndex l2.
Proof.
  intros H Hl Hk. destruct (FI_live_get _ _ _ H Hl) as (po & Hpo & Hlpo).
  destruct (R_kids _ _ (fi_R _ _ H) _ _ Hpo Hlpo) as (_ & _ & Hch & _). rewrite Hk in Hch.
  destruct (chain_mid _ _ _ _ _ Hch) as (o & Ho & _ & _ & _ & Hnx). exists o. auto.
Qed.

Lemma block_body_hsame pf obj oo : hsame (block_body pf obj oo).
Proof.
  unfold block_body. hsame_unf.
  repeat first [ apply parseObjectArgs_hsame | apply popAll_go_hsame | progress hsame_tac ].
Qed.

Lemma block_body_NN pf obj oo s a s' : block_body pf obj oo s = Ok (a, s') -> NN s s'.
Proof.
  unfold block_body. intros H. apply bindM_ok in H. destruct H as (u & s1 & E1 & H). inversion E1; subst u s1. clear E1.
  assert (Hn : nnp (mlet se <~ Parser.get p_streamEnd ;;
                    setPkgEndM se ;;;
                    setOffsetM (w32 (o_amlOffset oo + 1)) ;;;
                    (if 0xff <? o_opcode oo then readByteM ;;; ret tt else ret tt) ;;;
                    mlet res <~ parseObjectArgs pf obj ;;
                    if negb (pres_eqb res ROk) then ret RFailed else
                    mlet n <~ Parser.get (fun s => S (length (p_pkgEndStack s))) ;; popAll_go n ;;; ret ROk)).
  { nnp_unf. repeat first [ apply parseObjectArgs_nnp | apply popAll_go_nnp | progress nnp_tac ]. }
  destruct (Hn _ _ _ H eq_refl) as (_ & N1). exact N1.
Qed.

Section WalkAll.
Variable tbls : list (list N).
Notation IV := (Inv tbls).

Definition capW (n : N) (s : pstate) : Prop := lp s + n * Cblock s + 4 <= InvalidIndex.

Definition WPost (s : pstate) (g : ghost) (n : N) (res : pres) (s' : pstate) : Prop :=
  exists g', WI s' g' /\ wstep s g s' g' /\ lp s' <= lp s + n * Cblock s /\ (res = ROk -> TM NoX s' g').

Definition DW (fuel : nat) : Prop := forall pf x n s g,
  WI s g -> IV s -> glive g 0 -> TM NoX s g -> dcnt s g x n -> capW n s ->
  wp True (parseDeferredBlocks fuel pf x) s (WPost s g n).

Definition DL (fuel : nat) : Prop := forall pf par l1 l2 n s g,
  WI s g -> IV s -> glive g 0 -> TM NoX s g -> glive g par -> isflag s par = false -> kids g par = l1 ++ l2 ->
  dcl s g l2 n -> capW n s ->
  wp True (deferred_loop fuel pf (hd InvalidIndex l2)) s (WPost s g n).

Lemma step_DW fuel : DL fuel -> DW (S fuel).
Proof.
  intros HL pf x n s g H I0 H0 HTM Hd Hcap. cbn [parseDeferredBlocks].
  pose proof (dcnt_live _ _ _ _ Hd) as Hl.
  apply wp_bind. apply wp_objectAt'; [apply (FI_ObjectAt _ _ _ H Hl)|].
  destruct (FI_live_get _ _ _ H Hl) as (oo & Hoo & Hlo).
  apply wp_bind. apply wp_rdo. exists oo. split; [exact Hoo|].
  pose proof (fi_info _ _ H _ _ Hoo Hlo) as Hinfo.
  destruct (opInfo (o_infoIndex oo)) as [[[op fl] af]|] eqn:Erow; [|contradiction].
  apply wp_bind. eapply wp_info; [exact Erow|]. cbv beta iota.
  apply wp_bind, wp_get.
  assert (Ef : isflag s x = hasFlag fl aml_pOpFlagDeferParsing && (o_tableHandle oo =? p_handle s)).
  { unfold isflag. rewrite Hoo, Erow. reflexivity. }
  rewrite <- Ef. destruct (isflag s x) eqn:Efl.
  - inversion Hd as [x' Hx Hf Hn Hnp|x' n' Hx Hf Hk]; subst; [|congruence].
    symmetry in Ef. apply andb_prop in Ef. destruct Ef as (Ef1 & Ef2).
    assert (HB : wp True (block_body pf x oo) s (fun res s' => exists g',
      WI s' g' /\ gext g g' /\ r_len (p_r s') = r_len (p_r s) /\
      lp s' <= lp s + Cblock s /\ keep (eq x) s g s' /\ (res = ROk -> TM NoX s' g') /\
      Fk (eq x) (fun y => hasfl s x /\ In x (kids g y)) g g' /\ finsert s' g g' x)).
    { apply (block_spec tbls pf x oo s g H I0 H0 Hl Hoo).
      - exists oo, op, fl, af. auto.
      - exact Hn.
      - exact HTM.
      - unfold capW, Cblock in *. lia. }
    eapply wp_weaken; [apply (wp_and_pc _ _ _ _ (fun _ s' => p_handle s' = p_handle s /\ NN s s') HB)|auto|].
    + intros a s' E. split; [apply (block_body_hsame pf x oo s a s' E)|apply (block_body_NN pf x oo s a s' E)].
    + intros res s' ((g' & W' & G & L & P & K & T & F & Fi) & Hh & HNN). exists g'. split; [exact W'|]. split.
      * constructor; auto.
        -- intros i o Hi Ho. destruct (K i o Hi Ho) as (o' & Ho' & E' & _). exists o'. split; [exact Ho'|]. split; [exact E'|]. intros F'. exfalso. apply F'. exact I.
        -- intros Hty i o' Ho' Hlo' Hop'. destruct (HNN i o' Ho' Hop') as (o0 & Ho0 & Hop0).
           assert (Hl0 : o_opcode o0 <> opFreed) by (rewrite Hop0; discriminate).
           assert (Hi : glive g i) by (apply (R_live_glive _ _ (fi_R _ _ H)); exists o0; auto).
           destruct (K i o0 Hi Ho0) as (o2 & Ho2 & _ & Hv). assert (o2 = o') by congruence. subst o2.
           rewrite Hv; [apply (Hty i o0 Ho0 Hl0 Hop0)|]. intros <-. apply (Hnp o0 Ho0). exact Hop0.
        -- intros y Hy Hfy Hky. destruct (F y Hy) as (_ & Hex); [intros (_ & Hin); rewrite Hky in Hin; exact Hin|].
           rewrite Hex; [exact Hky|]. intros <-. congruence.
        -- intros y Hy Hfy. destruct (in_dec N.eq_dec x (kids g y)) as [Hin|Hnin].
           ++ destruct (in_split _ _ Hin) as (l1 & tl & Ek). destruct (Fi y l1 tl Ek) as (new & En & Hs). rewrite Ek, En.
              apply ins_insert. unfold sibs in Hs. rewrite Forall_forall in *. intros z Hz. destruct (Hs z Hz) as (_ & Z1 & Z2 & Z3).
              split; [exact Z1|]. split; [exact Z2|apply nfrow_unflagged; exact Z3].
           ++ destruct (F y Hy) as (_ & Hex); [intros (_ & Hin); contradiction|].
              rewrite Hex; [apply ins_refl|]. intros <-. congruence.
        -- intros y a0 a1 rest Hy Hf0 Hf1 Hky. destruct (in_dec N.eq_dec x (kids g y)) as [Hin|Hnin].
           ++ destruct (in_split _ _ Hin) as (l1 & tl & Ek). destruct (Fi y l1 tl Ek) as (new & En & _). rewrite En.
              rewrite Hky in Ek. destruct l1 as [|b0 [|b1 l1']]; cbn [app] in Ek.
              ** exfalso. injection Ek as E0 _. subst a0. congruence.
              ** exfalso. injection Ek as _ E1 _. subst a1. congruence.
              ** injection Ek as E0 E1 _. subst b0 b1. cbn [app]. eexists. reflexivity.
           ++ destruct (F y Hy) as ((extra & Eex) & _); [intros (_ & Hin); contradiction|].
              rewrite Eex, Hky. cbn [app]. eexists. reflexivity.
      * split; [lia|exact T].
  - inversion Hd as [x' Hx Hf Hn Hnp|x' n' Hx Hf Hk]; subst; [congruence|].
    rewrite (WI_first _ _ _ _ H Hoo Hlo).
    apply (HL pf x [] (kids g x) n s g); auto.
Qed.

Lemma step_DL fuel : DW fuel -> DL fuel -> DL (S fuel).
Proof.
  intros HW HL pf par l1 l2 n s g H I0 H0 HTM Hp Hfp Hk Hd Hcap. cbn [deferred_loop].
  destruct l2 as [|c l2].
  - cbn [hd]. rewrite N.eqb_refl. apply wp_ret. exists g. split; [exact H|]. split; [apply wstep_refl|]. split; [lia|auto].
  - cbn [hd]. inversion Hd as [|c' l' n1 m Hc Hr]; subst.
    pose proof (dcnt_live _ _ _ _ Hc) as Hlc.
    destruct (FI_live_get _ _ _ H Hlc) as (co & Hco & _).
    assert (Hne : (c =? InvalidIndex) = false).
    { apply N.eqb_neq. eapply (R_pos_not_Inv _ _ (fi_R _ _ H)); eauto. }
    rewrite Hne.
    apply (wp_bind_inv tbls _ _ _ _ _ I0); [apply (proj1 (hoare_deferred tbls fuel pf))|].
    eapply wp_weaken; [apply (HW pf c n1 s g H I0 H0 HTM Hc)|auto|].
    + unfold capW in *. nia.
    + intros res s1 (g1 & H1 & S1 & L1 & T1) I1.
      assert (El : Cblock s1 = Cblock s) by (unfold Cblock; rewrite (ws_len _ _ _ _ S1); reflexivity).
      destruct (pres_eqb res ROk) eqn:Er; cbn [negb].
      2:{ apply wp_ret. exists g1. split; [exact H1|]. split; [exact S1|]. split; [nia|intros; discriminate]. }
      assert (res = ROk) by (destruct res; try discriminate; reflexivity). subst res.
      pose proof (ge_live _ _ (ws_g _ _ _ _ S1)) as Hlv.
      apply wp_bind. apply wp_objectAt'; [apply (FI_ObjectAt _ _ _ H1 (Hlv _ Hlc))|].
      assert (Hfp1 : isflag s1 par = false).
      { rewrite (isflag_keep _ _ _ _ _ H (ws_keep _ _ _ _ S1) (ws_h _ _ _ _ S1) Hp). exact Hfp. }
      destruct (ins_split _ _ _ (ws_kids _ _ _ _ S1 par Hp Hfp) l1 c l2 Hk) as (l1' & l2' & Hk1 & Hins).
      destruct (WI_next s1 g1 par l1' c l2' H1 (Hlv _ Hp) Hk1) as (co1 & Hco1 & Hnx).
      apply wp_bind. apply wp_rdf. exists co1. split; [exact Hco1|]. rewrite Hnx.
      destruct (dcnt_step _ _ _ _ H S1) as (_ & Hstep).
      eapply wp_weaken; [apply (HL pf par (l1' ++ [c]) l2' m s1 g1 H1 I1 (Hlv _ H0) (T1 eq_refl) (Hlv _ Hp) Hfp1)|auto|].
      * rewrite Hk1, <- app_assoc. reflexivity.
      * eapply dcl_ins; [exact Hins|]. apply Hstep. exact Hr.
      * unfold capW in *. rewrite El. nia.
      * intros res2 s2 (g2 & H2 & S2 & L2 & T2). exists g2. split; [exact H2|].
        split; [eapply (wstep_trans s g s1 g1 s2 g2); eauto|]. split; [rewrite El in L2; nia|exact T2].
Qed.

Lemma DWL_all : forall fuel, DW fuel /\ DL fuel.
Proof.
  induction fuel as [|fuel (HW & HL)].
  - split; [intros pf x n s g _ _ _ _ _ _|intros pf par l1 l2 n s g _ _ _ _ _ _ _ _ _]; exact I.
  - split; [apply step_DW; exact HL|apply step_DL; auto].
Qed.

(** parseDeferredBlocks over the whole tree *)
Theorem deferred_walk_never_panics : forall fuel parseFuel x n s g,
  R (p_tree s) g -> info_valid (p_tree s) -> rok (p_r s) -> Forall (glive g) (p_scopeStack s) -> IV s ->
  glive g 0 -> TM NoX s g -> dcnt s g x n ->
  lp s + n * (8 * r_len (p_r s) + 3) + 4 <= InvalidIndex ->
  match parseDeferredBlocks fuel parseFuel x s with
  | Ok (res, s') => exists g', R (p_tree s') g' /\ info_valid (p_tree s') /\ rok (p_r s') /\ Forall (glive g') (p_scopeStack s') /\
      gext g g' /\ glive g' 0 /\ lp s' <= lp s + n * (8 * r_len (p_r s) + 3) /\ (res = ROk -> TM NoX s' g') /\
      (typed (p_tree s) -> typed (p_tree s'))
  | Panic => False
  | OutOfFuel => True
  end.
Proof.
  intros fuel pf x n s g HR Hi Hrk Hsc I0 H0 HTM Hd Hcap.
  assert (H : WI s g) by (constructor; auto).
  pose proof (proj1 (DWL_all fuel) pf x n s g H I0 H0 HTM Hd Hcap) as W.
  unfold wp in W. destruct (parseDeferredBlocks fuel pf x s) as [[res s']| |]; auto.
  destruct W as (g' & [A B C D E] & S1 & L & T). exists g'. repeat (split; [assumption|]).
  split; [apply (ws_g _ _ _ _ S1)|]. split; [apply (ge_live _ _ (ws_g _ _ _ _ S1)); exact H0|]. split; [exact L|]. split; [exact T|apply (ws_typed _ _ _ _ S1)].
Qed.

(** ---- the rest of ParseAML after the resolve loop: parseDeferredBlocks, resolveMethodCalls, connectNonNamedObjArgs ---- *)
Definition parse_tail (f4 pf f5 f6 : nat) : M bool :=
  mlet r4 <~ parseDeferredBlocks f4 pf 0 ;;
  if negb (pres_eqb r4 ROk) then ret false else
  mlet r5 <~ resolveMethodCalls f5 0 ;;
  if negb (pres_eqb r5 ROk) then ret false else
  mlet r6 <~ connectNonNamedObjArgs f6 0 ;;
  if negb (pres_eqb r6 ROk) then ret false else
  ret true.

Lemma parseAML_body_tail fuel :
  parseAML_body fuel =
  (scopeEnter 0 ;;;
   mlet r1 <~ parseObjectList fuel ;;
   if pres_eqb r1 RFailed then ret false else
   mlet r2 <~ connectNamedObjArgs fuel 0 ;;
   if negb (pres_eqb r2 ROk) then ret false else
   (fun s => Ok (tt, with_counters s 1 (p_mergedScopes s) (p_relocatedObjects s))) ;;;
   mlet r3 <~ resolve_loop fuel fuel ;;
   if negb (pres_eqb r3 ROk) then ret false else parse_tail fuel fuel fuel fuel).
Proof. reflexivity. Qed.

Lemma groot_gext g g' x : gext g g' -> glive g x -> groot g x -> groot g' x.
Proof. intros G Hl Hr p Hin. apply (Hr p). apply (ge_old _ _ G p x Hin Hl). Qed.

(** the tail with an invariant [K] of the tree that the walk, the moves of attachSiblingsAsArgs and the rewriting of
    name-path-or-method-call objects preserve: when the tail succeeds the root is still a live root, the []byte typing and [K] hold *)
Theorem deferred_tail_post : forall (K : T -> ghost -> Prop), Kmove K -> Kupd K ->
  forall f4 pf f5 f6 n s g,
  R (p_tree s) g -> info_valid (p_tree s) -> rok (p_r s) -> Forall (glive g) (p_scopeStack s) -> IV s ->
  glive g 0 -> groot g 0 -> TM NoX s g -> typed (p_tree s) -> dcnt s g 0 n ->
  lp s + n * (8 * r_len (p_r s) + 3) + 4 <= InvalidIndex ->
  (forall s1 g1, parseDeferredBlocks f4 pf 0 s = Ok (ROk, s1) -> WI s1 g1 -> wstep s g s1 g1 -> TM NoX s1 g1 -> K (p_tree s1) g1) ->
  match parse_tail f4 pf f5 f6 s with
  | Ok (b, s') => exists g', R (p_tree s') g' /\ info_valid (p_tree s') /\ pool_ok (p_tables s') (p_tree s') /\
      (b = true -> glive g' 0 /\ groot g' 0 /\ typed (p_tree s') /\ K (p_tree s') g')
  | Panic => False
  | OutOfFuel => True
  end.
Proof.
  intros K K_move K_upd f4 pf f5 f6 n s g HR Hi Hrk Hsc I0 H0 Hroot HTM Hty Hd Hcap HKw.
  assert (H : WI s g) by (constructor; auto).
  assert (W : wp True (parse_tail f4 pf f5 f6) s (fun b s' => exists g',
            R (p_tree s') g' /\ info_valid (p_tree s') /\ pool_ok (p_tables s') (p_tree s') /\
            (b = true -> glive g' 0 /\ groot g' 0 /\ typed (p_tree s') /\ K (p_tree s') g'))).
  { unfold parse_tail.
    apply (wp_bind_inv tbls _ _ _ _ _ I0); [apply (proj1 (hoare_deferred tbls f4 pf))|].
    eapply wp_weaken; [apply (wp_and_pc _ _ _ _ (fun r4 s1 => parseDeferredBlocks f4 pf 0 s = Ok (r4, s1))
                                (proj1 (DWL_all f4) pf 0 n s g H I0 H0 HTM Hd Hcap))|auto|].
    { intros a s1 E. exact E. }
    intros r4 s1 ((g1 & H1 & S1 & L1 & T1) & Eq4) I1.
    assert (Hp1 : pool_ok (p_tables s1) (p_tree s1)) by (rewrite (inv_tbls _ _ I1); apply (inv_pool _ _ I1)).
    destruct (pres_eqb r4 ROk) eqn:E4; cbn [negb].
    2:{ apply wp_ret. exists g1. split; [apply (fi_R _ _ H1)|]. split; [apply (fi_info _ _ H1)|]. split; [exact Hp1|discriminate]. }
    assert (r4 = ROk) by (destruct r4; try discriminate; reflexivity). subst r4.
    pose proof (ws_g _ _ _ _ S1) as G1.
    assert (Hl1 : glive g1 0) by (apply (ge_live _ _ G1); exact H0).
    assert (Hroot1 : groot g1 0) by (eapply groot_gext; eauto).
    assert (TI1 : TI s1 g1) by (constructor; [apply (fi_R _ _ H1)|apply (fi_info _ _ H1)|exact Hp1]).
    assert (HK1 : K (p_tree s1) g1) by (apply (HKw s1 g1 Eq4 H1 S1 (T1 eq_refl))).
    apply wp_bind. eapply wp_weaken; [apply (proj1 (calls_all K K_move K_upd f5) 0 s1 g1 None [] [] TI1 (ws_typed _ _ _ _ S1 Hty) Hl1 Hl1 (conj Hroot1 eq_refl) HK1)|auto|].
    intros r5 s2 (g2 & m2 & (TI2 & Hrel2 & _ & Hroots2 & Hty2 & HK2) & _ & _).
    destruct (pres_eqb r5 ROk); cbn [negb].
    2:{ apply wp_ret. exists g2. destruct TI2 as [A B C]. split; [exact A|]. split; [exact B|]. split; [exact C|discriminate]. }
    assert (Hl2 : glive g2 0) by (apply (reloc_glive _ _ _ 0 Hrel2); exact Hl1).
    apply wp_bind. eapply wp_weaken; [apply (proj1 (nonNamed_all K K_move f6) 0 s2 g2 None [] [] TI2 Hl2 (conj (Hroots2 0 Hroot1) eq_refl) HK2)|auto|].
    intros r6 s3 (g3 & m3 & (TI3 & Hrel3 & _ & Hroots3 & Hpf3 & HK3) & _ & _).
    destruct (pres_eqb r6 ROk); cbn [negb]; apply wp_ret; exists g3; destruct TI3 as [A B C];
      (split; [exact A|]; split; [exact B|]; split; [exact C|]); [|discriminate].
    intros _. split; [apply (reloc_glive _ _ _ 0 Hrel3); exact Hl2|]. split; [apply Hroots3; apply Hroots2; exact Hroot1|].
    split; [eapply typed_pframe; eauto|exact HK3]. }
  unfold wp in W. destruct (parse_tail f4 pf f5 f6 s) as [[b s']| |]; auto.
Qed.

Theorem deferred_tail_never_panics : forall f4 pf f5 f6 n s g,
  R (p_tree s) g -> info_valid (p_tree s) -> rok (p_r s) -> Forall (glive g) (p_scopeStack s) -> IV s ->
  glive g 0 -> groot g 0 -> TM NoX s g -> typed (p_tree s) -> dcnt s g 0 n ->
  lp s + n * (8 * r_len (p_r s) + 3) + 4 <= InvalidIndex ->
  match parse_tail f4 pf f5 f6 s with
  | Ok (_, s') => exists g', R (p_tree s') g' /\ info_valid (p_tree s') /\ pool_ok (p_tables s') (p_tree s')
  | Panic => False
  | OutOfFuel => True
  end.
Proof.
  intros f4 pf f5 f6 n s g HR Hi Hrk Hsc I0 H0 Hroot HTM Hty Hd Hcap.
  pose proof (deferred_tail_post KT KT_move KT_upd f4 pf f5 f6 n s g HR Hi Hrk Hsc I0 H0 Hroot HTM Hty Hd Hcap (fun _ _ _ _ _ _ => I)) as W.
  destruct (parse_tail f4 pf f5 f6 s) as [[b s']| |]; auto.
  destruct W as (g' & A & B & C & _). exists g'. auto.
Qed.
End WalkAll.

(** ---- the hypotheses are satisfiable: the walk from the root over the tree of DeferW's example (root, pending While) ---- *)
Lemma walk_hyps_example :
  exists (s : pstate) (g : ghost) (n : N),
    R (p_tree s) g /\ info_valid (p_tree s) /\ rok (p_r s) /\ Forall (glive g) (p_scopeStack s) /\ Inv (p_tables s) s /\
    glive g 0 /\ TM NoX s g /\ dcnt s g 0 n /\
    lp s + n * (8 * r_len (p_r s) + 3) + 4 <= InvalidIndex /\
    match parseDeferredBlocks 6 400 0 s with Ok (res, s') => res = ROk /\ lp s' = 4 | _ => False end.
Proof.
  destruct dex_hyps as (oo & op & fl & af & A & B & C & D & E & F & G & Hoo & Hrow & Hdf & Hh & Hfl & HTM & _ & _).
  exists dex_state, dex_ghost, 1.
  repeat (split; [assumption|]).
  split.
  { apply dc_node; [exact F|vm_compute; reflexivity|].
    assert (Ek : kids dex_ghost 0 = [1]) by (vm_compute; reflexivity). rewrite Ek.
    change 1 with (1 + 0) at 2. apply dcl_cons; [|apply dcl_nil].
    apply dc_flag; [exact G|vm_compute; reflexivity| |intros o Ho; rewrite Hoo in Ho; inversion Ho; subst o; vm_compute in Hoo; inversion Hoo; subst oo; vm_compute; discriminate].
    intros (co & op' & fl' & af' & Hco & Hr' & k & Hk & Hf). revert Hf.
    assert (co = oo) by congruence. subst co. rewrite Hrow in Hr'. inversion Hr'; subst op' fl' af'. clear Hr' Hco.
    vm_compute in Hoo. inversion Hoo; subst oo. vm_compute in Hrow. inversion Hrow; subst af.
    assert (Hc : k = 0 \/ k = 1 \/ k = 2 \/ k = 3 \/ k = 4 \/ k = 5 \/ k = 6 \/ k = 7) by lia.
    destruct Hc as [->|[->|[->|[->|[->|[->|[->| ->]]]]]]]; vm_compute; discriminate. }
  split; [vm_compute; discriminate|].
  vm_compute. split; reflexivity.
Qed.

(** the hypotheses of the tail theorem are satisfiable by the same state; all three passes return ok *)
Lemma tail_hyps_example :
  exists (s : pstate) (g : ghost) (n : N),
    R (p_tree s) g /\ info_valid (p_tree s) /\ rok (p_r s) /\ Forall (glive g) (p_scopeStack s) /\ Inv (p_tables s) s /\
    glive g 0 /\ groot g 0 /\ TM NoX s g /\ typed (p_tree s) /\ dcnt s g 0 n /\
    lp s + n * (8 * r_len (p_r s) + 3) + 4 <= InvalidIndex /\
    match parse_tail 6 400 10 10 s with Ok (b, s') => b = true /\ lp s' = 4 | _ => False end.
Proof.
  destruct dex_hyps as (oo & op & fl & af & A & B & C & D & E & F & G & Hoo & Hrow & Hdf & Hh & Hfl & HTM & _ & _).
  exists dex_state, dex_ghost, 1.
  split; [exact A|]. split; [exact B|]. split; [exact C|]. split; [exact D|]. split; [exact E|]. split; [exact F|].
  split; [apply groot_chk; vm_compute; reflexivity|]. split; [exact HTM|].
  split.
  { unfold typed. change (p_tree dex_state) with dex_tree.
    apply (pool_cases dex_tree (fun i o => o_opcode o <> opFreed -> o_opcode o = aml_pOpIntNamePathOrMethodCall ->
                                           exists tbl sl, o_value o = Some (VBytes tbl sl))). intros k o Hk _ Hop.
    do 2 (destruct k as [|k]; [vm_compute in Hk; inversion Hk; subst o; vm_compute in Hop; discriminate|]).
    vm_compute in Hk. destruct k; discriminate. }
  split.
  { apply dc_node; [exact F|vm_compute; reflexivity|].
    assert (Ek : kids dex_ghost 0 = [1]) by (vm_compute; reflexivity). rewrite Ek.
    change 1 with (1 + 0) at 2. apply dcl_cons; [|apply dcl_nil].
    apply dc_flag; [exact G|vm_compute; reflexivity| |intros o Ho; rewrite Hoo in Ho; inversion Ho; subst o; vm_compute in Hoo; inversion Hoo; subst oo; vm_compute; discriminate].
    intros (co & op' & fl' & af' & Hco & Hr' & k & Hk & Hf). revert Hf.
    assert (co = oo) by congruence. subst co. rewrite Hrow in Hr'. inversion Hr'; subst op' fl' af'. clear Hr' Hco.
    vm_compute in Hoo. inversion Hoo; subst oo. vm_compute in Hrow. inversion Hrow; subst af.
    assert (Hc : k = 0 \/ k = 1 \/ k = 2 \/ k = 3 \/ k = 4 \/ k = 5 \/ k = 6 \/ k = 7) by lia.
    destruct Hc as [->|[->|[->|[->|[->|[->|[->| ->]]]]]]]; vm_compute; discriminate. }
  split; [vm_compute; discriminate|].
  vm_compute. split; reflexivity.
Qed.

(** ---- the same with a pending BankField: BankField (REG0, BNK0, Zero, 1) { FLD0, 8 } - the block inserts the NamedField FLD0
    behind the BankField into the root's list, and the walk steps over it ---- *)
Definition bex_ops : list op :=
  [ OpNewNamed opScopeBlock 0 (0x5c, 0, 0, 0); OpNew aml_pOpBankField 1; OpAppend 0 1 ].
Definition bex_image : list N :=
  table_image [0x5b; 0x87; 0x10; 0x52; 0x45; 0x47; 0x30; 0x42; 0x4e; 0x4b; 0x30; 0x00; 0x01; 0x46; 0x4c; 0x44; 0x30; 0x08].
Definition bex_tree : T :=
  match run (@NewObjectTree value) bex_ops with
  | Ok t => tset t 1 (set_amlOffset aml_sizeofSDTHeader)
  | _ => NewObjectTree
  end.
Definition bex_ghost : ghost := arun ghost0 bex_ops.
Definition bex_state : pstate := with_scopeStack (init_state bex_tree [] 1 bex_image) [0].

Lemma bex_legal : legal_seq ghost0 bex_ops.
Proof.
  unfold bex_ops. cbn [legal_seq].
  repeat match goal with |- _ /\ _ => split end; cbn [legal]; try exact I;
  try (split; [vm_compute; discriminate | split; [first [left; vm_compute; discriminate | right; vm_compute; reflexivity] | intros _; vm_compute; reflexivity]]).
  split; [split; [vm_compute; reflexivity | vm_compute; intuition discriminate]|].
  split; [split; [vm_compute; reflexivity | vm_compute; intuition discriminate]|].
  split; [apply groot_chk; vm_compute; reflexivity|apply (not_desc_chk _ _ _ [1]); vm_compute; reflexivity].
Qed.

Lemma bex_R : R bex_tree bex_ghost.
Proof.
  destruct (run_R bex_ops (@NewObjectTree value) ghost0 R_empty bex_legal) as (t' & Hrun & HR').
  unfold bex_tree, bex_ghost. rewrite Hrun. apply R_tset_lk; [exact HR'|].
  intros o _. unfold lk_eq, set_amlOffset. cbn. tauto.
Qed.

Lemma tail_bankfield_example :
  exists (s : pstate) (g : ghost) (n : N),
    R (p_tree s) g /\ info_valid (p_tree s) /\ rok (p_r s) /\ Forall (glive g) (p_scopeStack s) /\ Inv (p_tables s) s /\
    glive g 0 /\ groot g 0 /\ TM NoX s g /\ typed (p_tree s) /\ dcnt s g 0 n /\
    (exists x, hasfl s x /\ isflag s x = true /\ In x (kids g 0)) /\
    lp s + n * (8 * r_len (p_r s) + 3) + 4 <= InvalidIndex /\
    match parse_tail 6 400 10 10 s with Ok (b, s') => b = true /\ lp s' = 7 | _ => False end.
Proof.
  assert (Hi : info_valid bex_tree).
  { unfold info_valid. apply (pool_cases bex_tree (fun i o => o_opcode o <> opFreed -> opInfo (o_infoIndex o) <> None)). intros n o Hn.
    do 2 (destruct n as [|n]; [vm_compute in Hn; inversion Hn; subst o; intros _; vm_compute; discriminate|]).
    vm_compute in Hn. destruct n; discriminate. }
  assert (H0 : glive bex_ghost 0) by (split; [vm_compute; reflexivity|vm_compute; intuition discriminate]).
  assert (H1 : glive bex_ghost 1) by (split; [vm_compute; reflexivity|vm_compute; intuition discriminate]).
  assert (Him : image_small bex_image) by (split; [repeat constructor; vm_compute; reflexivity|vm_compute; discriminate]).
  assert (Hcap : N.of_nat (length (t_pool bex_tree)) + 4 * N.of_nat (length bex_image) + 4 <= InvalidIndex) by (vm_compute; discriminate).
  destruct (init_FI bex_tree bex_ghost [] 1 bex_image bex_R Hi H0 Him Hcap) as ([A B C D E] & _).
  fold bex_state in A, B, C, D, E.
  assert (Hfl1 : hasfl bex_state 1).
  { eexists _, _, _, _. split; [vm_compute; reflexivity|]. split; [vm_compute; reflexivity|]. exists 5. split; [reflexivity|vm_compute; reflexivity]. }
  exists bex_state, bex_ghost, 1.
  split; [exact A|]. split; [exact B|]. split; [exact C|]. split; [exact E|].
  split.
  { destruct C as (W & Sm & O). constructor; [reflexivity|exact W| |reflexivity|].
    - unfold no_wrap. unfold small_table in Sm. unfold two32 in *. lia.
    - unfold pool_ok. rewrite Forall_forall. intros o Hin. destruct (In_nth_error _ _ Hin) as (n & Hn).
      do 2 (destruct n as [|n]; [vm_compute in Hn; inversion Hn; subst o; exact I|]). vm_compute in Hn. destruct n; discriminate. }
  split; [exact H0|]. split; [apply groot_chk; vm_compute; reflexivity|].
  split.
  { unfold TM. change (p_tree bex_state) with bex_tree.
    apply (pool_cases bex_tree (fun m mo => o_opcode mo = aml_pOpMethod -> ~ NoX m -> mtyped bex_state bex_ghost m)). intros n o Hn Hop.
    do 2 (destruct n as [|n]; [vm_compute in Hn; inversion Hn; subst o; vm_compute in Hop; discriminate|]).
    vm_compute in Hn. destruct n; discriminate. }
  split.
  { unfold typed. change (p_tree bex_state) with bex_tree.
    apply (pool_cases bex_tree (fun i o => o_opcode o <> opFreed -> o_opcode o = aml_pOpIntNamePathOrMethodCall ->
                                           exists tbl sl, o_value o = Some (VBytes tbl sl))). intros k o Hk _ Hop.
    do 2 (destruct k as [|k]; [vm_compute in Hk; inversion Hk; subst o; vm_compute in Hop; discriminate|]).
    vm_compute in Hk. destruct k; discriminate. }
  assert (Ek : kids bex_ghost 0 = [1]) by (vm_compute; reflexivity).
  split.
  { apply dc_node; [exact H0|vm_compute; reflexivity|]. rewrite Ek.
    change 1 with (1 + 0) at 2. apply dcl_cons; [|apply dcl_nil].
    apply dc_flag; [exact H1|vm_compute; reflexivity| |].
    - intros _. exists 0. rewrite Ek. left. reflexivity.
    - intros o Ho. vm_compute in Ho. inversion Ho; subst o. vm_compute. discriminate. }
  split; [exists 1; split; [exact Hfl1|split; [vm_compute; reflexivity|rewrite Ek; left; reflexivity]]|].
  split; [vm_compute; discriminate|].
  vm_compute. split; reflexivity.
Qed.
