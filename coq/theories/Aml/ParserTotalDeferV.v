(** C12 (stretch): the walk of parseDeferredBlocks over the whole tree never panics and preserves R.  A pending BankField
    (the only Defer row with a FieldList) inserts its NamedFields into the list the walk is iterating: they are new,
    childless and not pending, so the walk steps over them. *)
From Coq Require Import NArith Arith List Bool Lia.
From Coq Require Import ZifyBool ZifyN ZifyNat.
From FF Require Import Lib.Word Gen.Consts_device_acpi_aml Gen.Consts_aml_tree Aml.Stream Aml.Lex Aml.LexProofs
  Aml.Tree Aml.Parser Aml.ParserProofs Aml.TreeSpec Aml.TreeProofs Aml.TreeProofsOps Aml.TreeProofsFind Aml.TreeProofsAnc
  Aml.ParserTotalTree Aml.ParserTotalTree2 Aml.ParserTotalLex Aml.ParserTotalTable Aml.ParserTotalBase Aml.ParserTotalLeaf
  Aml.ParserTotalFrame Aml.ParserTotalLeaf2 Aml.ParserTotalFirst Aml.ParserTotalConn Aml.ParserTotalReloc Aml.ParserTotalDefer
  Aml.ParserTotalMerge Aml.ParserTotalDeferS Aml.ParserTotalDeferB Aml.ParserTotalDeferW Aml.ParserTotalDeferH.
Import ListNotations.
Local Open Scope N_scope.

(** the test of parseDeferredBlocks: the row of the object has the Defer flag and the object belongs to the table being parsed *)
Definition isflag (s : pstate) (x : N) : bool :=
  match tget (p_tree s) x with
  | Some o => match opInfo (o_infoIndex o) with
              | Some (_, fl, _) => hasFlag fl aml_pOpFlagDeferParsing && (o_tableHandle o =? p_handle s)
              | None => false
              end
  | None => false
  end.

(** [dcnt s g x n]: the walk from [x] meets [n] pending deferred objects (it does not descend below them); one with a
    field list (BankField) has a parent *)
Inductive dcnt (s : pstate) (g : ghost) : N -> N -> Prop :=
| dc_flag x : glive g x -> isflag s x = true -> (hasfl s x -> has_parent g x) -> dcnt s g x 1
| dc_node x n : glive g x -> isflag s x = false -> dcl s g (kids g x) n -> dcnt s g x n
with dcl (s : pstate) (g : ghost) : list N -> N -> Prop :=
| dcl_nil : dcl s g [] 0
| dcl_cons c l n m : dcnt s g c n -> dcl s g l m -> dcl s g (c :: l) (n + m).

Scheme dcnt_mut := Minimality for dcnt Sort Prop
  with dcl_mut := Minimality for dcl Sort Prop.
Combined Scheme dcnt_dcl_ind from dcnt_mut, dcl_mut.

Lemma dcnt_live s g x n : dcnt s g x n -> glive g x.
Proof. intros H. inversion H; auto. Qed.

(** objects that cost the walk nothing: childless and not pending (the NamedFields a BankField block inserts next to it) *)
Definition zero (s : pstate) (g : ghost) (x : N) : Prop := glive g x /\ kids g x = [] /\ isflag s x = false.

Lemma zero_dcnt s g x : zero s g x -> dcnt s g x 0.
Proof. intros (A & B & C). apply dc_node; auto. rewrite B. apply dcl_nil. Qed.

Lemma nfrow_unflagged s x : nfrow s x -> isflag s x = false.
Proof.
  intros (o & Ho & Hrow). unfold isflag. rewrite Ho.
  destruct (opcodeTableIndex aml_pOpIntNamedField true) as [k|] eqn:Ek; [|discriminate]. injection Hrow as Hrow. rewrite <- Hrow.
  vm_compute in Ek. injection Ek as Ek. subst k.
  match goal with |- match opInfo ?k with _ => _ end = _ => destruct (opInfo k) as [[[op fl] af]|] eqn:E; [|reflexivity] end.
  vm_compute in E. injection E as _ Efl _.
  assert (Hf : hasFlag fl aml_pOpFlagDeferParsing = false) by (subst fl; vm_compute; reflexivity).
  rewrite Hf. reflexivity.
Qed.

(** a list with objects satisfying [Z] inserted *)
Inductive ins (Z : N -> Prop) : list N -> list N -> Prop :=
| ins_nil : ins Z [] []
| ins_keep x l l' : ins Z l l' -> ins Z (x :: l) (x :: l')
| ins_add x l l' : Z x -> ins Z l l' -> ins Z l (x :: l').

Lemma ins_refl Z l : ins Z l l.
Proof. induction l; constructor; auto. Qed.

Lemma ins_mono (Z Z' : N -> Prop) l l' : (forall x, Z x -> Z' x) -> ins Z l l' -> ins Z' l l'.
Proof. intros H I. induction I; constructor; auto. Qed.

Lemma ins_trans Z l1 l2 l3 : ins Z l1 l2 -> ins Z l2 l3 -> ins Z l1 l3.
Proof.
  intros H12 H23. revert l1 H12. induction H23 as [|x l2 l3 H IH|x l2 l3 Hz H IH]; intros l1 H12.
  - exact H12.
  - inversion H12 as [|y k k' Hk|y k k' Hy Hk]; subst.
    + apply ins_keep. apply IH. exact Hk.
    + apply ins_add; [exact Hy|]. apply IH. exact Hk.
  - apply ins_add; [exact Hz|]. apply IH. exact H12.
Qed.

Lemma ins_split Z l l' : ins Z l l' -> forall l1 c l2, l = l1 ++ c :: l2 -> exists l1' l2', l' = l1' ++ c :: l2' /\ ins Z l2 l2'.
Proof.
  induction 1 as [|x l l' H IH|x l l' Hz H IH]; intros l1 c l2 E.
  - destruct l1; discriminate.
  - destruct l1 as [|y l1]; cbn [app] in E; injection E as E1 E2.
    + subst. exists [], l'. split; [reflexivity|exact H].
    + subst. destruct (IH l1 c l2 eq_refl) as (a & b & Ea & Hb). exists (y :: a), b. split; [rewrite Ea; reflexivity|exact Hb].
  - destruct (IH l1 c l2 E) as (a & b & Ea & Hb). exists (x :: a), b. split; [rewrite Ea; reflexivity|exact Hb].
Qed.

Lemma ins_front Z new l : Forall Z new -> ins Z l (new ++ l).
Proof. intros H. induction H; cbn [app]; [apply ins_refl|apply ins_add; auto]. Qed.

Lemma ins_insert Z l1 c new tl : Forall Z new -> ins Z (l1 ++ c :: tl) (l1 ++ c :: new ++ tl).
Proof. intros H. induction l1; cbn [app]; apply ins_keep; [apply ins_front; exact H|exact IHl1]. Qed.

Lemma dcl_ins s g l l' : ins (zero s g) l l' -> forall n, dcl s g l n -> dcl s g l' n.
Proof.
  induction 1 as [|x l l' H IH|x l l' Hz H IH]; intros n Hd.
  - exact Hd.
  - inversion Hd as [|c k n1 m Hc Hr]; subst. apply dcl_cons; [exact Hc|apply IH; exact Hr].
  - change n with (0 + n). apply dcl_cons; [apply zero_dcnt; exact Hz|apply IH; exact Hd].
Qed.

(** what one step of the walk does to the rest of the tree *)
Record wstep (s : pstate) (g : ghost) (s' : pstate) (g' : ghost) : Prop := mkWstep {
  ws_g : gext g g';
  ws_keep : keep (fun _ => True) s g s';
  ws_h : p_handle s' = p_handle s;
  ws_len : r_len (p_r s') = r_len (p_r s);
  ws_nil : forall y, glive g y -> isflag s y = false -> kids g y = [] -> kids g' y = [];
  ws_kids : forall y, glive g y -> isflag s y = false -> ins (zero s' g') (kids g y) (kids g' y)
}.

Lemma wstep_refl s g : wstep s g s g.
Proof. constructor; auto. apply gext_refl. apply keep_refl. intros. apply ins_refl. Qed.

Lemma isflag_keep P s g s' y : WI s g -> keep P s g s' -> p_handle s' = p_handle s -> glive g y -> isflag s' y = isflag s y.
Proof.
  intros H K Hh Hy. destruct (FI_live_get _ _ _ H Hy) as (o & Ho & _).
  destruct (K y o Hy Ho) as (o' & Ho' & (_ & E2 & E3 & _) & _).
  unfold isflag. rewrite Ho, Ho', E2, E3, Hh. reflexivity.
Qed.

Lemma hasfl_keep P s g s' y : WI s g -> keep P s g s' -> glive g y -> hasfl s' y -> hasfl s y.
Proof.
  intros H K Hy (co & op & fl & af & Hco & Hrow & Hf). destruct (FI_live_get _ _ _ H Hy) as (o & Ho & _).
  destruct (K y o Hy Ho) as (o' & Ho' & (_ & E2 & _) & _). assert (o' = co) by congruence. subst o'.
  exists o, op, fl, af. rewrite <- E2. auto.
Qed.

Lemma zero_step s g s' g' x : WI s g -> wstep s g s' g' -> zero s g x -> zero s' g' x.
Proof.
  intros H [A B C D E F] (Hl & Hk & Hf). split; [apply (ge_live _ _ A); exact Hl|]. split; [apply E; auto|].
  rewrite (isflag_keep _ _ _ _ _ H B C Hl). exact Hf.
Qed.

Lemma wstep_trans s g s1 g1 s2 g2 : WI s g -> WI s1 g1 -> wstep s g s1 g1 -> wstep s1 g1 s2 g2 -> wstep s g s2 g2.
Proof.
  intros H H1 S1 S2. pose proof S1 as [A1 B1 C1 D1 E1 F1]. pose proof S2 as [A2 B2 C2 D2 E2 F2]. constructor.
  - eapply gext_trans; eauto.
  - eapply keep_trans; eauto. apply (ge_live _ _ A1).
  - congruence.
  - congruence.
  - intros y Hy Hf Hk. apply E2; [apply (ge_live _ _ A1); exact Hy| |apply E1; auto].
    rewrite (isflag_keep _ _ _ _ _ H B1 C1 Hy). exact Hf.
  - intros y Hy Hf. eapply ins_trans.
    + eapply ins_mono; [|apply (F1 y Hy Hf)]. intros x Hx. eapply zero_step; eauto.
    + apply F2; [apply (ge_live _ _ A1); exact Hy|]. rewrite (isflag_keep _ _ _ _ _ H B1 C1 Hy). exact Hf.
Qed.

Lemma dcnt_step s g s' g' : WI s g -> wstep s g s' g' ->
  (forall x n, dcnt s g x n -> dcnt s' g' x n) /\ (forall l n, dcl s g l n -> dcl s' g' l n).
Proof.
  intros H [A B C D E F]. apply dcnt_dcl_ind.
  - intros x Hx Hf Hn. apply dc_flag.
    + apply (ge_live _ _ A). exact Hx.
    + rewrite (isflag_keep _ _ _ _ _ H B C Hx). exact Hf.
    + intros Hfl. eapply has_parent_ext; [exact A|]. apply Hn. eapply hasfl_keep; eauto.
  - intros x n Hx Hf _ IH. apply dc_node.
    + apply (ge_live _ _ A). exact Hx.
    + rewrite (isflag_keep _ _ _ _ _ H B C Hx). exact Hf.
    + eapply dcl_ins; [apply (F x Hx Hf)|exact IH].
  - apply dcl_nil.
  - intros c l n m _ IH1 _ IH2. apply dcl_cons; auto.
Qed.

(** links of a live object *)
Lemma WI_first s g x o : WI s g -> tget (p_tree s) x = Some o -> o_opcode o <> opFreed -> o_first o = hd InvalidIndex (kids g x).
Proof. intros H Hg Hl. destruct (R_kids _ _ (fi_R _ _ H) _ _ Hg Hl) as (A & _). exact A. Qed.

Lemma WI_next s g p l1 c l2 : WI s g -> glive g p -> kids g p = l1 ++ c :: l2 ->
  exists o, tget (p_tree s) c = Some o /\ o_next o = hd InvalidIndex l2.
Proof.
  intros H Hl Hk. destruct (FI_live_get _ _ _ H Hl) as (po & Hpo & Hlpo).
  destruct (R_kids _ _ (fi_R _ _ H) _ _ Hpo Hlpo) as (_ & _ & Hch & _). rewrite Hk in Hch.
  destruct (chain_mid _ _ _ _ _ Hch) as (o & Ho & _ & _ & _ & Hnx). exists o. auto.
Qed.

Lemma block_body_hsame pf obj oo : hsame (block_body pf obj oo).
Proof.
  unfold block_body. hsame_unf.
  repeat first [ apply parseObjectArgs_hsame | apply popAll_go_hsame | progress hsame_tac ].
Qed.

Section WalkAll.
Variable tbls : list (list N).
Notation IV := (Inv tbls).

Definition capW (n : N) (s : pstate) : Prop := lp s + n * Cblock s + 4 <= InvalidIndex.

Definition WPost (s : pstate) (g : ghost) (n : N) (res : pres) (s' : pstate) : Prop :=
  exists g', WI s' g' /\ wstep s g s' g' /\ lp s' <= lp s + n * Cblock s /\ (res = ROk -> TM NoX s' g').

Definition DW (fuel : nat) : Prop := forall pf x n s g,
  WI s g -> IV s -> glive g 0 -> TM NoX s g -> dcnt s g x n -> capW n s ->
  wp True (parseDeferredBlocks fuel pf x) s (WPost s g n).

Definition DL (fuel : nat) : Prop := forall pf par l1 l2 n s g,
  WI s g -> IV s -> glive g 0 -> TM NoX s g -> glive g par -> isflag s par = false -> kids g par = l1 ++ l2 ->
  dcl s g l2 n -> capW n s ->
  wp True (deferred_loop fuel pf (hd InvalidIndex l2)) s (WPost s g n).

Lemma step_DW fuel : DL fuel -> DW (S fuel).
Proof.
  intros HL pf x n s g H I0 H0 HTM Hd Hcap. cbn [parseDeferredBlocks].
  pose proof (dcnt_live _ _ _ _ Hd) as Hl.
  apply wp_bind. apply wp_objectAt'; [apply (FI_ObjectAt _ _ _ H Hl)|].
  destruct (FI_live_get _ _ _ H Hl) as (oo & Hoo & Hlo).
  apply wp_bind. apply wp_rdo. exists oo. split; [exact Hoo|].
  pose proof (fi_info _ _ H _ _ Hoo Hlo) as Hinfo.
  destruct (opInfo (o_infoIndex oo)) as [[[op fl] af]|] eqn:Erow; [|contradiction].
  apply wp_bind. eapply wp_info; [exact Erow|]. cbv beta iota.
  apply wp_bind, wp_get.
  assert (Ef : isflag s x = hasFlag fl aml_pOpFlagDeferParsing && (o_tableHandle oo =? p_handle s)).
  { unfold isflag. rewrite Hoo, Erow. reflexivity. }
  rewrite <- Ef. destruct (isflag s x) eqn:Efl.
  - inversion Hd as [x' Hx Hf Hn|x' n' Hx Hf Hk]; subst; [|congruence].
    symmetry in Ef. apply andb_prop in Ef. destruct Ef as (Ef1 & Ef2).
    assert (HB : wp True (block_body pf x oo) s (fun res s' => exists g',
      WI s' g' /\ gext g g' /\ r_len (p_r s') = r_len (p_r s) /\
      lp s' <= lp s + Cblock s /\ keep (eq x) s g s' /\ (res = ROk -> TM NoX s' g') /\
      Fk (eq x) (fun y => hasfl s x /\ In x (kids g y)) g g' /\ finsert s' g g' x)).
    { apply (block_spec tbls pf x oo s g H I0 H0 Hl Hoo).
      - exists oo, op, fl, af. auto.
      - exact Hn.
      - exact HTM.
      - unfold capW, Cblock in *. lia. }
    eapply wp_weaken; [apply (wp_and_pc _ _ _ _ (fun _ s' => p_handle s' = p_handle s) HB)|auto|].
    + intros a s' E. apply (block_body_hsame pf x oo s a s' E).
    + intros res s' ((g' & W' & G & L & P & K & T & F & Fi) & Hh). exists g'. split; [exact W'|]. split.
      * constructor; auto.
        -- intros i o Hi Ho. destruct (K i o Hi Ho) as (o' & Ho' & E' & _). exists o'. split; [exact Ho'|]. split; [exact E'|]. intros F'. exfalso. apply F'. exact I.
        -- intros y Hy Hfy Hky. destruct (F y Hy) as (_ & Hex); [intros (_ & Hin); rewrite Hky in Hin; exact Hin|].
           rewrite Hex; [exact Hky|]. intros <-. congruence.
        -- intros y Hy Hfy. destruct (in_dec N.eq_dec x (kids g y)) as [Hin|Hnin].
           ++ destruct (in_split _ _ Hin) as (l1 & tl & Ek). destruct (Fi y l1 tl Ek) as (new & En & Hs). rewrite Ek, En.
              apply ins_insert. unfold sibs in Hs. rewrite Forall_forall in *. intros z Hz. destruct (Hs z Hz) as (_ & Z1 & Z2 & Z3).
              split; [exact Z1|]. split; [exact Z2|apply nfrow_unflagged; exact Z3].
           ++ destruct (F y Hy) as (_ & Hex); [intros (_ & Hin); contradiction|].
              rewrite Hex; [apply ins_refl|]. intros <-. congruence.
      * split; [lia|exact T].
  - inversion Hd as [x' Hx Hf Hn|x' n' Hx Hf Hk]; subst; [congruence|].
    rewrite (WI_first _ _ _ _ H Hoo Hlo).
    apply (HL pf x [] (kids g x) n s g); auto.
Qed.

Lemma step_DL fuel : DW fuel -> DL fuel -> DL (S fuel).
Proof.
  intros HW HL pf par l1 l2 n s g H I0 H0 HTM Hp Hfp Hk Hd Hcap. cbn [deferred_loop].
  destruct l2 as [|c l2].
  - cbn [hd]. rewrite N.eqb_refl. apply wp_ret. exists g. split; [exact H|]. split; [apply wstep_refl|]. split; [lia|auto].
  - cbn [hd]. inversion Hd as [|c' l' n1 m Hc Hr]; subst.
    pose proof (dcnt_live _ _ _ _ Hc) as Hlc.
    destruct (FI_live_get _ _ _ H Hlc) as (co & Hco & _).
    assert (Hne : (c =? InvalidIndex) = false).
    { apply N.eqb_neq. eapply (R_pos_not_Inv _ _ (fi_R _ _ H)); eauto. }
    rewrite Hne.
    apply (wp_bind_inv tbls _ _ _ _ _ I0); [apply (proj1 (hoare_deferred tbls fuel pf))|].
    eapply wp_weaken; [apply (HW pf c n1 s g H I0 H0 HTM Hc)|auto|].
    + unfold capW in *. nia.
    + intros res s1 (g1 & H1 & S1 & L1 & T1) I1.
      assert (El : Cblock s1 = Cblock s) by (unfold Cblock; rewrite (ws_len _ _ _ _ S1); reflexivity).
      destruct (pres_eqb res ROk) eqn:Er; cbn [negb].
      2:{ apply wp_ret. exists g1. split; [exact H1|]. split; [exact S1|]. split; [nia|intros; discriminate]. }
      assert (res = ROk) by (destruct res; try discriminate; reflexivity). subst res.
      pose proof (ge_live _ _ (ws_g _ _ _ _ S1)) as Hlv.
      apply wp_bind. apply wp_objectAt'; [apply (FI_ObjectAt _ _ _ H1 (Hlv _ Hlc))|].
      assert (Hfp1 : isflag s1 par = false).
      { rewrite (isflag_keep _ _ _ _ _ H (ws_keep _ _ _ _ S1) (ws_h _ _ _ _ S1) Hp). exact Hfp. }
      destruct (ins_split _ _ _ (ws_kids _ _ _ _ S1 par Hp Hfp) l1 c l2 Hk) as (l1' & l2' & Hk1 & Hins).
      destruct (WI_next s1 g1 par l1' c l2' H1 (Hlv _ Hp) Hk1) as (co1 & Hco1 & Hnx).
      apply wp_bind. apply wp_rdf. exists co1. split; [exact Hco1|]. rewrite Hnx.
      destruct (dcnt_step _ _ _ _ H S1) as (_ & Hstep).
      eapply wp_weaken; [apply (HL pf par (l1' ++ [c]) l2' m s1 g1 H1 I1 (Hlv _ H0) (T1 eq_refl) (Hlv _ Hp) Hfp1)|auto|].
      * rewrite Hk1, <- app_assoc. reflexivity.
      * eapply dcl_ins; [exact Hins|]. apply Hstep. exact Hr.
      * unfold capW in *. rewrite El. nia.
      * intros res2 s2 (g2 & H2 & S2 & L2 & T2). exists g2. split; [exact H2|].
        split; [eapply (wstep_trans s g s1 g1 s2 g2); eauto|]. split; [rewrite El in L2; nia|exact T2].
Qed.

Lemma DWL_all : forall fuel, DW fuel /\ DL fuel.
Proof.
  induction fuel as [|fuel (HW & HL)].
  - split; [intros pf x n s g _ _ _ _ _ _|intros pf par l1 l2 n s g _ _ _ _ _ _ _ _ _]; exact I.
  - split; [apply step_DW; exact HL|apply step_DL; auto].
Qed.

(** parseDeferredBlocks over the whole tree *)
Theorem deferred_walk_never_panics : forall fuel parseFuel x n s g,
  R (p_tree s) g -> info_valid (p_tree s) -> rok (p_r s) -> Forall (glive g) (p_scopeStack s) -> IV s ->
  glive g 0 -> TM NoX s g -> dcnt s g x n ->
  lp s + n * (8 * r_len (p_r s) + 3) + 4 <= InvalidIndex ->
  match parseDeferredBlocks fuel parseFuel x s with
  | Ok (res, s') => exists g', R (p_tree s') g' /\ info_valid (p_tree s') /\ rok (p_r s') /\ Forall (glive g') (p_scopeStack s') /\
      gext g g' /\ glive g' 0 /\ lp s' <= lp s + n * (8 * r_len (p_r s) + 3) /\ (res = ROk -> TM NoX s' g')
  | Panic => False
  | OutOfFuel => True
  end.
Proof.
  intros fuel pf x n s g HR Hi Hrk Hsc I0 H0 HTM Hd Hcap.
  assert (H : WI s g) by (constructor; auto).
  pose proof (proj1 (DWL_all fuel) pf x n s g H I0 H0 HTM Hd Hcap) as W.
  unfold wp in W. destruct (parseDeferredBlocks fuel pf x s) as [[res s']| |]; auto.
  destruct W as (g' & [A B C D E] & S1 & L & T). exists g'. repeat (split; [assumption|]).
  split; [apply (ws_g _ _ _ _ S1)|]. split; [apply (ge_live _ _ (ws_g _ _ _ _ S1)); exact H0|]. split; [exact L|exact T].
Qed.
End WalkAll.

(** ---- the hypotheses are satisfiable: the walk from the root over the tree of DeferW's example (root, pending While) ---- *)
Lemma walk_hyps_example :
  exists (s : pstate) (g : ghost) (n : N),
    R (p_tree s) g /\ info_valid (p_tree s) /\ rok (p_r s) /\ Forall (glive g) (p_scopeStack s) /\ Inv (p_tables s) s /\
    glive g 0 /\ TM NoX s g /\ dcnt s g 0 n /\
    lp s + n * (8 * r_len (p_r s) + 3) + 4 <= InvalidIndex /\
    match parseDeferredBlocks 6 400 0 s with Ok (res, s') => res = ROk /\ lp s' = 4 | _ => False end.
Proof.
  destruct dex_hyps as (oo & op & fl & af & A & B & C & D & E & F & G & Hoo & Hrow & Hdf & Hh & Hfl & HTM & _ & _).
  exists dex_state, dex_ghost, 1.
  repeat (split; [assumption|]).
  split.
  { apply dc_node; [exact F|vm_compute; reflexivity|].
    assert (Ek : kids dex_ghost 0 = [1]) by (vm_compute; reflexivity). rewrite Ek.
    change 1 with (1 + 0) at 2. apply dcl_cons; [|apply dcl_nil].
    apply dc_flag; [exact G|vm_compute; reflexivity|].
    intros (co & op' & fl' & af' & Hco & Hr' & k & Hk & Hf). revert Hf.
    assert (co = oo) by congruence. subst co. rewrite Hrow in Hr'. inversion Hr'; subst op' fl' af'. clear Hr' Hco.
    vm_compute in Hoo. inversion Hoo; subst oo. vm_compute in Hrow. inversion Hrow; subst af.
    assert (Hc : k = 0 \/ k = 1 \/ k = 2 \/ k = 3 \/ k = 4 \/ k = 5 \/ k = 6 \/ k = 7) by lia.
    destruct Hc as [->|[->|[->|[->|[->|[->|[->| ->]]]]]]]; vm_compute; discriminate. }
  split; [vm_compute; discriminate|].
  vm_compute. split; reflexivity.
Qed.
