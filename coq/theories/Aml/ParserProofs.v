(** Whole-parser invariants of Aml/Parser.v (all passes of ParseAML), used by Props/C12.v:

    - the reader invariant ([reader_wf], data / length untouched) holds at every state the parser reaches, so
      (with [reader_safe]) every byte the parser reads lies inside the table;
    - every []byte stored in the object pool ([VBytes]) lies inside the table it aliases.

    The proof is a Hoare-style argument: an invariant [Inv] on parser states, a rule for [bindM], one lemma
    per primitive, and an induction on the fuel for each block of mutually recursive functions. *)
From Coq Require Import NArith ZArith List Bool Lia.
From Coq Require Import ZifyBool ZifyN ZifyNat.
From FF Require Import Lib.Word Gen.Consts_device_acpi_aml Aml.Stream Aml.Lex Aml.LexProofs Aml.Tree Aml.Parser.
Import ListNotations.
Local Open Scope N_scope.

Ltac Zify.zify_post_hook ::= Z.div_mod_to_equations.

(** ---- values that alias the tables ---- *)
Section Inv.
Variable tbls : list (list N).        (* the images of the tables loaded so far, the current one last *)

Definition slice_ok (tbl : N) (sl : slice) : Prop :=
  exists d, nth_error tbls (N.to_nat tbl) = Some d /\ slice_inside (N.of_nat (length d)) sl.

Definition value_ok (v : option value) : Prop :=
  match v with Some (VBytes tbl sl) => slice_ok tbl sl | _ => True end.

Definition pool_ok (t : ObjectTree value) : Prop := Forall (fun o => value_ok (o_value o)) (t_pool t).

(** ---- the object tree operations keep the stored values ---- *)
Definition keeps (f : Object value -> Object value) : Prop := forall o, value_ok (o_value o) -> value_ok (o_value (f o)).

Lemma list_upd_Forall {A} (P : A -> Prop) (f : A -> A) : forall (l : list A) n,
  Forall P l -> (forall x, P x -> P (f x)) -> Forall P (list_upd l n f).
Proof.
  induction l as [|x l IH]; intros n H Hf; cbn [list_upd]; [destruct n; constructor|].
  inversion H; subst. destruct n; constructor; auto.
Qed.

Lemma wr_ok t p f t' : keeps f -> wr t p f = Ok t' -> pool_ok t -> pool_ok t'.
Proof.
  intros Hf H Hp. unfold wr in H. destruct (deref t p) as [o| |]; try discriminate. cbn [bind] in H.
  inversion H; subst. unfold pool_ok. cbn [t_pool]. apply list_upd_Forall; auto.
Qed.

Lemma deref_ok t p o : deref t p = Ok o -> pool_ok t -> value_ok (o_value o).
Proof.
  unfold deref. intros H Hp. destruct (nth_error (t_pool t) (N.to_nat p)) eqn:E; try discriminate.
  inversion H; subst. unfold pool_ok in Hp. rewrite Forall_forall in Hp. apply Hp. eapply nth_error_In; eauto.
Qed.

Lemma keeps_link f : (forall o, o_value (f o) = o_value o) -> keeps f.
Proof. intros H o Ho. rewrite H. exact Ho. Qed.

(** inversion of [bind] on outcomes *)
Lemma bind_Ok {A B} (m : outcome A) (f : A -> outcome B) b : bind m f = Ok b -> exists a, m = Ok a /\ f a = Ok b.
Proof. destruct m; cbn; intros H; try discriminate. eauto. Qed.

(** [tpres f]: the tree transformer keeps [pool_ok] *)
Definition tpres (f : ObjectTree value -> outcome (ObjectTree value)) : Prop :=
  forall t t', f t = Ok t' -> pool_ok t -> pool_ok t'.

(** step through the chains of rd / wr / ObjectAt_deref binds in the hypotheses *)
Ltac tstep1 :=
  match goal with
  | H : bind _ _ = Ok _ |- _ =>
      let a := fresh "a" in let H1 := fresh "H1" in
      apply bind_Ok in H; destruct H as (a & H1 & H)
  | H : (if ?c then _ else _) = Ok _ |- _ => destruct c
  | H : Ok _ = Ok _ |- _ => inversion H; subst; clear H
  | H : Panic = Ok _ |- _ => discriminate H
  end.
Ltac tstep H := repeat tstep1.

Ltac keeps_solve := apply keeps_link; intros; reflexivity.

Ltac wr_chain :=
  repeat match goal with
  | H : wr ?t ?p ?f = Ok ?t', Hp : pool_ok ?t |- _ =>
      let Hn := fresh "Hp" in
      assert (Hn : pool_ok t') by (eapply wr_ok; [|exact H|exact Hp]; keeps_solve);
      clear H
  end.

Lemma append_ok obj arg : tpres (fun t => append t obj arg).
Proof.
  intros t t' H Hp. unfold append in H. tstep H; wr_chain; try assumption;
    try (eapply wr_ok; [|eassumption|eassumption]; keeps_solve).
Qed.

Lemma appendAfter_ok obj arg nextTo : tpres (fun t => appendAfter t obj arg nextTo).
Proof.
  intros t t' H Hp. unfold appendAfter in H. tstep H.
  - eapply append_ok; eauto.
  - wr_chain; try assumption; try (eapply wr_ok; [|eassumption|eassumption]; keeps_solve).
Qed.

Lemma detach_ok obj arg : tpres (fun t => detach t obj arg).
Proof.
  intros t t' H Hp. unfold detach in H. tstep H; wr_chain; try assumption;
    try (eapply wr_ok; [|eassumption|eassumption]; keeps_solve).
Qed.

Lemma free_ok obj : tpres (fun t => free t obj).
Proof.
  intros t t' H Hp. unfold free in H. tstep H; try discriminate.
  all: repeat match goal with
       | Hd : detach ?t ?a ?b = Ok ?t', Hp : pool_ok ?t |- _ =>
           let Hn := fresh "Hp" in assert (Hn : pool_ok t') by (eapply detach_ok; eauto); clear Hd
       end; wr_chain; unfold pool_ok in *; cbn [t_pool] in *; assumption.
Qed.

Lemma newObject_ok t opcode th t' p : newObject t opcode th = Ok (t', p) -> pool_ok t -> pool_ok t'.
Proof.
  intros H Hp. unfold newObject in H.
  apply bind_Ok in H. destruct H as ([t1 p1] & H1 & H).
  apply bind_Ok in H. destruct H as (info & H2 & H).
  apply bind_Ok in H. destruct H as (t2 & H3 & H). inversion H; subst; clear H.
  assert (Hp1 : pool_ok t1).
  { destruct (t_free t =? InvalidIndex).
    - inversion H1; subst. unfold pool_ok in *. cbn [t_pool]. apply Forall_app. split; auto.
      repeat constructor.
    - apply bind_Ok in H1. destruct H1 as (o & Hd & H1). inversion H1; subst. exact Hp. }
  eapply wr_ok; [|exact H3|exact Hp1]. intros o _. exact I.
Qed.

(** ---- the invariant on parser states ---- *)
Definition cur : N := N.of_nat (length tbls) - 1.

Record Inv (s : pstate) : Prop := mkInv {
  inv_tbls : p_tables s = tbls;
  inv_wf : reader_wf (p_r s);
  inv_nowrap : no_wrap (p_r s);
  inv_data : nth_error tbls (N.to_nat cur) = Some (r_data (p_r s));
  inv_pool : pool_ok (p_tree s)
}.

(** Hoare triples with the fixed invariant and a pure postcondition on the result *)
Definition hoare {A} (m : M A) (Q : A -> Prop) : Prop :=
  forall s a s', Inv s -> m s = Ok (a, s') -> Inv s' /\ Q a.

Lemma hoare_weaken {A} (m : M A) (Q Q' : A -> Prop) : hoare m Q -> (forall a, Q a -> Q' a) -> hoare m Q'.
Proof. intros H HQ s a s' I E. destruct (H s a s' I E). auto. Qed.

Lemma hoare_ret {A} (a : A) (Q : A -> Prop) : Q a -> hoare (ret a) Q.
Proof. intros HQ s a' s' I E. inversion E; subst. auto. Qed.

Lemma hoare_bind {A B} (m : M A) (f : A -> M B) (Q : A -> Prop) (R : B -> Prop) :
  hoare m Q -> (forall a, Q a -> hoare (f a) R) -> hoare (bindM m f) R.
Proof.
  intros Hm Hf s b s' I E. unfold bindM in E. destruct (m s) as [[a s1]| |] eqn:Em; try discriminate.
  destruct (Hm s a s1 I Em) as (I1 & Qa). exact (Hf a Qa s1 b s' I1 E).
Qed.

Lemma hoare_panic {A} (Q : A -> Prop) : hoare panic Q.
Proof. intros s a s' _ E. discriminate. Qed.
Lemma hoare_outOfFuel {A} (Q : A -> Prop) : hoare outOfFuel Q.
Proof. intros s a s' _ E. discriminate. Qed.

Lemma hoare_get {A} (f : pstate -> A) : hoare (get f) (fun _ => True).
Proof. intros s a s' I E. inversion E; subst. auto. Qed.

Lemma hoare_lift {A} (o : outcome A) : hoare (lift o) (fun _ => True).
Proof. intros s a s' I E. unfold lift in E. destruct o; inversion E; subst. auto. Qed.

(** state updates that keep reader, tree and tables *)
Lemma Inv_same s s' : p_r s' = p_r s -> p_tree s' = p_tree s -> p_tables s' = p_tables s -> Inv s -> Inv s'.
Proof. intros E1 E2 E3 [I1 I2 I3 I4 I5]. constructor; rewrite ?E1, ?E2, ?E3; auto. Qed.

Lemma hoare_upd (f : pstate -> pstate) :
  (forall s, p_r (f s) = p_r s /\ p_tree (f s) = p_tree s /\ p_tables (f s) = p_tables s) ->
  hoare (fun s => Ok (tt, f s)) (fun _ => True).
Proof. intros H s a s' I E. inversion E; subst. destruct (H s) as (E1 & E2 & E3). split; auto. eapply Inv_same; eauto. Qed.

(** tree queries and updates *)
Lemma hoare_tq {A} (f : ObjectTree value -> outcome A) : hoare (tq f) (fun _ => True).
Proof. intros s a s' I E. unfold tq, lift in E. destruct (f (p_tree s)); inversion E; subst. auto. Qed.

Lemma hoare_tu f : tpres f -> hoare (tu f) (fun _ => True).
Proof.
  intros Hf s a s' [I1 I2 I3 I4 I5] E. unfold tu in E. destruct (f (p_tree s)) as [t| |] eqn:Ef; inversion E; subst.
  split; auto. constructor; cbn; auto. eapply Hf; eauto.
Qed.

Lemma hoare_rdo p : hoare (rdo p) (fun o => value_ok (o_value o)).
Proof.
  intros s a s' I E. unfold rdo, tq, lift in E. destruct (deref (p_tree s) p) as [o| |] eqn:Ed; inversion E; subst.
  split; auto. eapply deref_ok; eauto. apply I.
Qed.

Lemma hoare_wrf p f : keeps f -> hoare (wrf p f) (fun _ => True).
Proof. intros Hf. unfold wrf. apply hoare_tu. intros t t' H Hp. eapply wr_ok; eauto. Qed.

Lemma hoare_newObj op : hoare (newObj op) (fun _ => True).
Proof.
  intros s a s' [I1 I2 I3 I4 I5] E. unfold newObj in E.
  destruct (newObject (p_tree s) op (p_handle s)) as [[t p]| |] eqn:En; inversion E; subst.
  split; auto. constructor; cbn; auto. eapply newObject_ok; eauto.
Qed.

Lemma hoare_need o : hoare (need o) (fun _ => True).
Proof. destruct o; [apply hoare_ret; exact I|apply hoare_panic]. Qed.

End Inv.

(** ---- primitives that touch the reader ---- *)
Section Prims.
Variable tbls : list (list N).
Notation Inv := (Inv tbls).
Notation hoare := (@hoare tbls).
Notation cur := (cur tbls).
Notation slice_ok := (slice_ok tbls).
Notation value_ok := (value_ok tbls).

(** replacing the reader by one with the same data / length and a valid window keeps the invariant *)
Lemma Inv_reader s r1 :
  Inv s -> reader_wf r1 -> r_data r1 = r_data (p_r s) -> r_len r1 = r_len (p_r s) -> Inv (with_r s r1).
Proof.
  intros [I1 I2 I3 I4 I5] W D L. constructor; cbn; auto.
  - unfold no_wrap in *. rewrite L. exact I3.
  - rewrite D. exact I4.
Qed.

Lemma safe2_window {A} (f : reader -> outcome (A * bool * reader)) r a ok r1 :
  safe2 f -> reader_wf r -> f r = Ok (a, ok, r1) -> same_window r r1.
Proof.
  intros Hs W E. pose proof (Hs r r W W (sim_refl r)) as H. rewrite E in H. destruct H as (_ & _ & _ & A1 & _). exact A1.
Qed.

Lemma hoare_lex {A} (f : reader -> outcome (A * bool * reader)) : safe2 f -> hoare (lex f) (fun _ => True).
Proof.
  intros Hs s a s' I E. unfold lex in E. destruct (f (p_r s)) as [[[v ok] r1]| |] eqn:Ef; inversion E; subst.
  split; auto. pose proof (safe2_window f _ _ _ _ Hs (inv_wf _ _ I) Ef) as (D & L & P).
  apply Inv_reader; auto. eapply wf_same_window; [apply I|]. repeat split; auto.
Qed.

Lemma hoare_lex_slice (f : reader -> outcome (slice * bool * reader)) :
  safe2 f -> (f = parseString \/ f = parseNameString) -> hoare (lex f) (fun x => slice_ok cur (fst x)).
Proof.
  intros Hs Hf s a s' I E.
  destruct (hoare_lex f Hs s a s' I E) as (I' & _). split; auto.
  unfold lex in E. destruct (f (p_r s)) as [[[v ok] r1]| |] eqn:Ef; inversion E; subst. cbn [fst].
  destruct I as [I1 I2 I3 I4 I5].
  assert (SI : slice_inside (r_len (p_r s)) v).
  { destruct Hf as [-> | ->]; eapply lex_slices_inside; eauto. }
  exists (r_data (p_r s)). split; auto. destruct I2 as (W1 & _). rewrite <- W1. exact SI.
Qed.

Lemma hoare_readByteM : hoare readByteM (fun _ => True).
Proof.
  intros s a s' I E. unfold readByteM in E. destruct (readByte (p_r s)) as [[b r1]| |] eqn:Er; inversion E; subst.
  split; auto.
  destruct (readByte_total _ (inv_wf _ _ I)) as [(_ & R)|(_ & b' & _ & R & _)]; rewrite R in Er; inversion Er; subst.
  - destruct s; exact I.
  - apply Inv_reader; auto. eapply wf_same_window; [apply I|apply same_window_set_offset].
Qed.

Lemma hoare_rq {A} (f : reader -> A) : hoare (rq f) (fun _ => True).
Proof. apply hoare_get. Qed.

Lemma hoare_ru g : (forall r, reader_wf r -> reader_wf (g r) /\ r_data (g r) = r_data r /\ r_len (g r) = r_len r) ->
  hoare (ru g) (fun _ => True).
Proof.
  intros Hg s a s' I E. inversion E; subst. split; auto.
  destruct (Hg _ (inv_wf _ _ I)) as (W & D & L). apply Inv_reader; auto.
Qed.

Lemma rpres_setOffset o r : reader_wf r -> reader_wf (setOffset r o) /\ r_data (setOffset r o) = r_data r /\ r_len (setOffset r o) = r_len r.
Proof. intros W. split; [|split; reflexivity]. eapply wf_same_window; [exact W|apply same_window_setOffset]. Qed.

Lemma rpres_unread r : reader_wf r -> reader_wf (fst (unreadByte r)) /\ r_data (fst (unreadByte r)) = r_data r /\ r_len (fst (unreadByte r)) = r_len r.
Proof.
  intros W. unfold unreadByte. destruct (r_offset r =? 0); cbn [fst]; [auto|].
  split; [|split; reflexivity]. eapply wf_same_window; [exact W|apply same_window_set_offset].
Qed.

Lemma rpres_setPkgEnd e r : reader_wf r -> reader_wf (fst (setPkgEnd r e)) /\ r_data (fst (setPkgEnd r e)) = r_data r /\ r_len (fst (setPkgEnd r e)) = r_len r.
Proof.
  intros (W1 & W2 & W3 & W4). unfold setPkgEnd. destruct (r_len r <? e) eqn:E; cbn [fst]; [repeat split; auto|].
  apply N.ltb_ge in E. repeat split; cbn; auto.
Qed.

Lemma hoare_setOffsetM o : hoare (setOffsetM o) (fun _ => True).
Proof. apply hoare_ru. intros r W. apply rpres_setOffset; auto. Qed.

Lemma hoare_setPkgEndM e : hoare (setPkgEndM e) (fun _ => True).
Proof.
  intros s a s' I E. unfold setPkgEndM in E. destruct (setPkgEnd (p_r s) e) as [r ok] eqn:Es. inversion E; subst.
  split; auto. destruct (rpres_setPkgEnd e _ (inv_wf _ _ I)) as (W & D & L). rewrite Es in *. cbn [fst] in *.
  apply Inv_reader; auto.
Qed.

Lemma hoare_pushPkgEnd e : hoare (pushPkgEnd e) (fun _ => True).
Proof.
  unfold pushPkgEnd. eapply hoare_bind with (Q := fun _ => True).
  - apply hoare_upd. intros s. repeat split.
  - intros _ _. apply hoare_setPkgEndM.
Qed.

Lemma hoare_popPkgEnd : hoare popPkgEnd (fun _ => True).
Proof.
  intros s a s' I E. unfold popPkgEnd in E.
  set (st := match p_pkgEndStack s with [] => [] | _ :: rest => rest end) in *.
  assert (I1 : Inv (with_pkgEndStack s st)) by (eapply Inv_same; [| | |exact I]; reflexivity).
  destruct st as [|top rest]; inversion E; subst; split; auto.
  destruct (rpres_setPkgEnd top _ (inv_wf _ _ I1)) as (W & D & L).
  apply Inv_reader; auto.
Qed.

(** facts about the current reader *)
Lemma hoare_get_r : hoare (get p_r) (fun r => reader_wf r /\ no_wrap r /\ nth_error tbls (N.to_nat cur) = Some (r_data r)).
Proof. intros s a s' I E. inversion E; subst. split; auto. destruct I; auto. Qed.

Lemma hoare_curTable : hoare curTable (fun tbl => tbl = cur).
Proof.
  intros s a s' I E. unfold curTable, get in E. inversion E; subst. split; auto.
  rewrite (inv_tbls _ _ I). reflexivity.
Qed.

Lemma hoare_lift_eq {A} (o : outcome A) : hoare (lift o) (fun a => o = Ok a).
Proof. intros s a s' I E. unfold lift in E. destruct o; inversion E; subst. auto. Qed.

Lemma hoare_bytesOf tbl sl : hoare (bytesOf tbl sl) (fun _ => True).
Proof. unfold bytesOf. intros s a s' I E. unfold lift in E. destruct (slice_bytes s tbl sl); inversion E; subst. auto. Qed.

(** stacks *)
Lemma hoare_scopeEnter i : hoare (scopeEnter i) (fun _ => True).
Proof. apply hoare_upd. intros s. repeat split. Qed.
Lemma hoare_scopeExit : hoare scopeExit (fun _ => True).
Proof.
  intros s a s' I E. unfold scopeExit in E. destruct (p_scopeStack s); inversion E; subst. split; auto.
  eapply Inv_same; [| | |exact I]; reflexivity.
Qed.

(** values *)
Lemma keeps_set_value v : value_ok (Some v) -> keeps tbls (set_value (Some v)).
Proof. intros H o _. exact H. Qed.

Lemma value_ok_bytes tbl sl : slice_ok tbl sl -> value_ok (Some (bytesValue tbl sl)).
Proof.
  intros H. unfold bytesValue. destruct (s_ptr sl); cbn; auto.
  destruct H as (d & Hd & _). exists d. split; auto. left. reflexivity.
Qed.

End Prims.

(** ---- automation ---- *)
Ltac keeps_any tbls :=
  first [ apply keeps_link; intros; reflexivity
        | apply keeps_set_value; first [ exact I | apply value_ok_bytes; cbn [fst] in *; subst; eassumption ] ].

Ltac hprim tbls :=
  lazymatch goal with
  | |- hoare _ (ret _) _ => apply hoare_ret; exact I
  | |- hoare _ panic _ => apply hoare_panic
  | |- hoare _ outOfFuel _ => apply hoare_outOfFuel
  | |- hoare _ (get _) _ => apply hoare_get
  | |- hoare _ (rq _) _ => apply hoare_rq
  | |- hoare _ eofM _ => apply hoare_rq
  | |- hoare _ offsetM _ => apply hoare_rq
  | |- hoare _ (tq _) _ => apply hoare_tq
  | |- hoare _ (rdf _ _) _ => apply hoare_tq
  | |- hoare _ (rdo _) _ => eapply hoare_weaken; [apply hoare_rdo|intros; exact I]
  | |- hoare _ (objectAt _) _ => apply hoare_get
  | |- hoare _ (need _) _ => apply hoare_need
  | |- hoare _ (newObj _) _ => apply hoare_newObj
  | |- hoare _ (wrf _ _) _ => apply hoare_wrf; keeps_any tbls
  | |- hoare _ (freeM _) _ => apply hoare_tu; apply free_ok
  | |- hoare _ (tu (fun t => appendAfter t _ _ _)) _ => apply hoare_tu; apply appendAfter_ok
  | |- hoare _ (tu (fun t => append t _ _)) _ => apply hoare_tu; apply append_ok
  | |- hoare _ (tu (fun t => detach t _ _)) _ => apply hoare_tu; apply detach_ok
  | |- hoare _ readByteM _ => apply hoare_readByteM
  | |- hoare _ (setOffsetM _) _ => apply hoare_setOffsetM
  | |- hoare _ (setPkgEndM _) _ => apply hoare_setPkgEndM
  | |- hoare _ (pushPkgEnd _) _ => apply hoare_pushPkgEnd
  | |- hoare _ popPkgEnd _ => apply hoare_popPkgEnd
  | |- hoare _ (scopeEnter _) _ => apply hoare_scopeEnter
  | |- hoare _ scopeExit _ => apply hoare_scopeExit
  | |- hoare _ curTable _ => eapply hoare_weaken; [apply hoare_curTable|intros; exact I]
  | |- hoare _ (bytesOf _ _) _ => apply hoare_bytesOf
  | |- hoare _ (lift _) _ => apply hoare_lift
  | |- hoare _ (ru (fun r => fst (unreadByte r))) _ => apply hoare_ru; intros; apply rpres_unread; assumption
  | |- hoare _ (ru (fun r => setOffset r _)) _ => apply hoare_ru; intros; apply rpres_setOffset; assumption
  | |- hoare _ (lex parsePkgLength) _ => apply hoare_lex; apply safe_safe2, safe_parsePkgLength
  | |- hoare _ (lex (parseNumConstant _)) _ => apply hoare_lex; apply safe_safe2, safe_parseNumConstant
  | |- hoare _ (lex nextOpcode) _ => apply hoare_lex; apply safe_safe2, safe_nextOpcode
  | |- hoare _ (lex peekNextOpcode) _ => apply hoare_lex; apply safe_safe2, safe_peekNextOpcode
  | |- hoare _ (lex parseString) _ => apply hoare_lex; apply safe2_parseString
  | |- hoare _ (lex parseNameString) _ => apply hoare_lex; apply safe2_parseNameString
  | |- hoare _ (fun s => Ok (tt, _)) _ => apply hoare_upd; intros; repeat split
  end.

(** one decomposition step *)
Ltac hstep tbls :=
  lazymatch goal with
  | |- hoare _ (bindM (lex parseString) _) _ =>
      eapply hoare_bind; [apply hoare_lex_slice; [apply safe2_parseString|left; reflexivity]|intros [? ?] ?]
  | |- hoare _ (bindM (lex parseNameString) _) _ =>
      eapply hoare_bind; [apply hoare_lex_slice; [apply safe2_parseNameString|right; reflexivity]|intros [? ?] ?]
  | |- hoare _ (bindM curTable _) _ => eapply hoare_bind; [apply hoare_curTable|intros ? ?]
  | |- hoare _ (bindM (get p_r) _) _ => eapply hoare_bind; [apply hoare_get_r|intros ? (? & ? & ?)]
  | |- hoare _ (bindM (rdo _) _) _ => eapply hoare_bind; [apply hoare_rdo|intros ? ?]
  | |- hoare _ (bindM (lift (dataPtr _)) _) _ => eapply hoare_bind; [apply hoare_lift_eq|intros ? ?]
  | |- hoare _ (bindM _ _) _ => eapply hoare_bind with (Q := fun _ => True); [|intros ? _]
  | |- hoare _ (if ?c then _ else _) _ => destruct c eqn:?
  | |- hoare _ (match ?x with _ => _ end) _ => destruct x eqn:?
  | |- hoare _ (let _ := _ in _) _ => cbv zeta
  | |- _ => hprim tbls
  end.

Ltac hauto tbls := repeat (hstep tbls).

(** ---- the parser functions ---- *)
Section Funs.
Variable tbls : list (list N).
Notation hoareT m := (hoare tbls m (fun _ => True)).

Lemma hoare_info i : hoareT (info i).
Proof. unfold info. destruct (opInfo i); hauto tbls. Qed.
Lemma hoare_tableIndex op b : hoareT (tableIndex op b).
Proof. unfold tableIndex. destruct (opcodeTableIndex op b); hauto tbls. Qed.
Lemma hoare_objectAt' i : hoareT (objectAt' i).
Proof. unfold objectAt'. hauto tbls. Qed.
Lemma hoare_appendM o a : hoareT (appendM o a).
Proof. unfold appendM. hauto tbls. Qed.
Lemma hoare_detachM o a : hoareT (detachM o a).
Proof. unfold detachM. hauto tbls. Qed.
Lemma hoare_scopeCurrent : hoareT scopeCurrent.
Proof. unfold scopeCurrent. hauto tbls. Qed.

Ltac hfun :=
  lazymatch goal with
  | |- hoare _ (info _) _ => apply hoare_info
  | |- hoare _ (tableIndex _ _) _ => apply hoare_tableIndex
  | |- hoare _ (objectAt' _) _ => apply hoare_objectAt'
  | |- hoare _ (appendM _ _) _ => apply hoare_appendM
  | |- hoare _ (detachM _ _) _ => apply hoare_detachM
  | |- hoare _ scopeCurrent _ => apply hoare_scopeCurrent
  end.
Ltac hgo := repeat (first [hfun | hstep tbls]).

(** the byte list stored by parseByteList lies inside the current package *)
Lemma hoare_parseByteList obj dataLen : hoareT (parseByteList obj dataLen).
Proof.
  unfold parseByteList.
  eapply hoare_bind; [apply hoare_get_r|intros r (W & NW & D)].
  destruct ((r_pkgEnd r <? r_offset r) || (w32 (r_pkgEnd r + two32 - r_offset r) <? dataLen)) eqn:Echk; [hgo|].
  apply orb_false_iff in Echk. destruct Echk as (E1 & E2). apply N.ltb_ge in E1. apply N.ltb_ge in E2.
  eapply hoare_bind with (Q := fun _ => True); [hgo|intros _ _].
  eapply hoare_bind with (Q := fun _ => True); [hgo|intros idx _].
  eapply hoare_bind with (Q := fun _ => True); [hgo|intros _ _].
  eapply hoare_bind; [apply hoare_lift_eq|intros ptr Hptr].
  eapply hoare_bind; [apply hoare_curTable|intros tbl ->].
  eapply hoare_bind with (Q := fun _ => True); [|intros _ _; hgo].
  apply hoare_wrf. apply keeps_set_value. apply value_ok_bytes.
  exists (r_data r). split; auto.
  destruct W as (W1 & W2 & W3 & W4). rewrite <- W1.
  unfold slice_inside. cbn [s_ptr s_len].
  unfold dataPtr, eof in Hptr.
  destruct (r_pkgEnd r <=? r_offset r) eqn:Ee.
  - inversion Hptr; subst. apply N.leb_le in Ee. left.
    assert (r_pkgEnd r = r_offset r) by lia. unfold w32, two32 in *. lia.
  - apply N.leb_gt in Ee. destruct (r_offset r <? r_len r); inversion Hptr; subst.
    right. exists (r_offset r). split; auto. unfold w32, two32 in *. lia.
Qed.

Lemma hoare_parseSimpleArg ty : hoareT (parseSimpleArg ty).
Proof. unfold parseSimpleArg. hgo. Qed.

Lemma hoare_fieldByte : hoareT fieldByte.
Proof. unfold fieldByte. hgo. Qed.

Lemma hoare_readName_go cnt : forall i field, hoareT (readName_go cnt i field).
Proof. induction cnt as [|cnt IH]; intros i field; cbn [readName_go]; hgo. apply IH. Qed.

Lemma hoare_fieldElements_go fuel : forall curObj f, hoareT (fieldElements_go fuel curObj f).
Proof.
  induction fuel as [|fuel IH]; intros curObj f; cbn [fieldElements_go]; [hgo|].
  repeat (first [apply IH | apply hoare_fieldByte | apply hoare_readName_go | apply hoare_parseByteList | hfun | hstep tbls]).
Qed.

Lemma hoare_parseFieldElements curObj : hoareT (parseFieldElements curObj).
Proof.
  unfold parseFieldElements, streamFuel.
  repeat (first [apply hoare_fieldElements_go | hfun | hstep tbls]).
Qed.


Lemma hoare_methodArgCountPanic tg : hoareT (methodArgCountPanic tg).
Proof. unfold methodArgCountPanic. hgo. Qed.

(** first pass / deferred pass: the nine mutually recursive functions *)
Definition block1 (fuel : nat) : Prop :=
  hoareT (parseNextObject fuel) /\ (forall c, hoareT (parseObjectArgs fuel c)) /\
  (forall inf c i, hoareT (parseArgs fuel inf c i)) /\ (forall inf c ty, hoareT (parseArg fuel inf c ty)) /\
  hoareT (termList_go fuel) /\ hoareT (parseNamePathOrMethodCall fuel) /\ (forall n, hoareT (callArgs_go fuel n)) /\
  (forall c, hoareT (parseStrictTermArg fuel c)) /\ hoareT (parseTarget fuel).

Lemma block1_all : forall fuel, block1 fuel.
Proof.
  induction fuel as [|fuel (H1 & H2 & H3 & H4 & H5 & H6 & H7 & H8 & H9)].
  - unfold block1. repeat match goal with |- _ /\ _ => split end; intros; cbn; apply hoare_outOfFuel.
  - Ltac hrec H1 H2 H3 H4 H5 H6 H7 H8 H9 :=
      first [ apply H1 | apply H2 | apply H3 | apply H4 | apply H5 | apply H6 | apply H7 | apply H8 | apply H9
            | apply hoare_parseSimpleArg | apply hoare_parseByteList | apply hoare_parseFieldElements
            | apply hoare_methodArgCountPanic ].
    unfold block1. repeat match goal with |- _ /\ _ => split end; intros.
    + cbn [parseNextObject]. repeat (first [hrec H1 H2 H3 H4 H5 H6 H7 H8 H9 | hfun | hstep tbls]).
    + cbn [parseObjectArgs]. repeat (first [hrec H1 H2 H3 H4 H5 H6 H7 H8 H9 | hfun | hstep tbls]).
    + cbn [parseArgs]. repeat (first [hrec H1 H2 H3 H4 H5 H6 H7 H8 H9 | hfun | hstep tbls]).
    + cbn [parseArg]. repeat (first [hrec H1 H2 H3 H4 H5 H6 H7 H8 H9 | hfun | hstep tbls]).
    + cbn [termList_go]. repeat (first [hrec H1 H2 H3 H4 H5 H6 H7 H8 H9 | hfun | hstep tbls]).
    + cbn [parseNamePathOrMethodCall]. repeat (first [hrec H1 H2 H3 H4 H5 H6 H7 H8 H9 | hfun | hstep tbls]).
    + cbn [callArgs_go]. repeat (first [hrec H1 H2 H3 H4 H5 H6 H7 H8 H9 | hfun | hstep tbls]).
    + cbn [parseStrictTermArg]. repeat (first [hrec H1 H2 H3 H4 H5 H6 H7 H8 H9 | hfun | hstep tbls]).
    + cbn [parseTarget]. repeat (first [hrec H1 H2 H3 H4 H5 H6 H7 H8 H9 | hfun | hstep tbls]).
Qed.

Ltac hmore := first [ apply hoare_parseSimpleArg | apply hoare_parseByteList | apply hoare_parseFieldElements
                    | apply hoare_methodArgCountPanic | hfun | hstep tbls ].

Lemma hoare_parseNextObject fuel : hoareT (parseNextObject fuel).
Proof. apply (block1_all fuel). Qed.
Lemma hoare_parseObjectArgs fuel c : hoareT (parseObjectArgs fuel c).
Proof. apply (block1_all fuel). Qed.

Lemma hoare_objectList_inner fuel : hoareT (objectList_inner fuel).
Proof. induction fuel as [|fuel IH]; cbn [objectList_inner]; repeat (first [apply IH | apply hoare_parseNextObject | hmore]). Qed.

Lemma hoare_parseObjectList fuel : hoareT (parseObjectList fuel).
Proof. induction fuel as [|fuel IH]; cbn [parseObjectList]; repeat (first [apply IH | apply hoare_objectList_inner | hmore]). Qed.

Lemma hoare_attachSiblings_go fuel : forall a b c d e, hoareT (attachSiblings_go fuel a b c d e).
Proof. induction fuel as [|fuel IH]; intros; cbn [attachSiblings_go]; repeat (first [apply IH | hmore]). Qed.

Lemma hoare_attachSiblingsAsArgs fuel a b c d : hoareT (attachSiblingsAsArgs fuel a b c d).
Proof. unfold attachSiblingsAsArgs. repeat (first [apply hoare_attachSiblings_go | hmore]). Qed.

Lemma hoare_setNameFrom obj bytes : hoareT (setNameFrom obj bytes).
Proof. unfold setNameFrom. repeat hmore. Qed.

Lemma hoare_connectNamed fuel :
  (forall i, hoareT (connectNamedObjArgs fuel i)) /\ (forall o i, hoareT (connectNamed_loop fuel o i)).
Proof.
  induction fuel as [|fuel (H1 & H2)]; (split; intros; [cbn [connectNamedObjArgs]|cbn [connectNamed_loop]]);
    repeat (first [apply H1 | apply H2 | apply hoare_attachSiblingsAsArgs | apply hoare_setNameFrom | hmore]).
Qed.

Lemma hoare_nestedScope_go fuel : forall i, hoareT (nestedScope_go fuel i).
Proof. induction fuel as [|fuel IH]; intros; cbn [nestedScope_go]; repeat (first [apply IH | hmore]). Qed.

Lemma hoare_scopeOf i : hoareT (scopeOf i).
Proof. unfold scopeOf, poolFuel. repeat (first [apply hoare_nestedScope_go | hmore]). Qed.

Lemma hoare_moveContents_go fuel : forall a b c, hoareT (moveContents_go fuel a b c).
Proof. induction fuel as [|fuel IH]; intros; cbn [moveContents_go]; repeat (first [apply IH | hmore]). Qed.

Lemma hoare_mergeScope fuel :
  (forall i, hoareT (mergeScopeDirectives fuel i)) /\ (forall i r, hoareT (mergeScope_loop fuel i r)).
Proof.
  induction fuel as [|fuel (H1 & H2)]; (split; intros; [cbn [mergeScopeDirectives]|cbn [mergeScope_loop]]);
    unfold poolFuel;
    repeat (first [apply H1 | apply H2 | apply hoare_scopeOf | apply hoare_moveContents_go | hmore]).
Qed.

Lemma hoare_insideSelf_go fuel : forall a o, hoareT (insideSelf_go fuel a o).
Proof. induction fuel as [|fuel IH]; intros; cbn [insideSelf_go]; repeat (first [apply IH | hmore]). Qed.

(** the tail of a stored name (relocateNamedObjects keeps the last segment) stays inside the table *)
Lemma reslice_ok tbl sl : slice_ok tbls tbl sl -> aml_amlNameLen <? s_len sl = true ->
  slice_ok tbls tbl (mkSlice (match s_ptr sl with Some p => Some (p + (s_len sl - aml_amlNameLen)) | None => None end) aml_amlNameLen).
Proof.
  intros (d & Hd & Hin) Hlt. apply N.ltb_lt in Hlt. exists d. split; auto.
  unfold slice_inside in *. cbn [s_ptr s_len]. unfold aml_amlNameLen in *.
  destruct Hin as [H0|(p & Hp & Hle)]; [lia|].
  right. rewrite Hp. exists (p + (s_len sl - 4)). split; auto. lia.
Qed.

Lemma valueBytes_ok (o : Object value) tbl sl : value_ok tbls (o_value o) -> valueBytes o = Some (tbl, sl) -> slice_ok tbls tbl sl.
Proof.
  unfold valueBytes. destruct (o_value o) as [[n|tb s|i|f]|]; intros H E; inversion E; subst. exact H.
Qed.

Lemma hoare_relocate fuel :
  (forall i, hoareT (relocateNamedObjects fuel i)) /\ (forall i r, hoareT (relocate_loop fuel i r)).
Proof.
  induction fuel as [|fuel (H1 & H2)]; (split; intros; [cbn [relocateNamedObjects]|cbn [relocate_loop]]);
    unfold poolFuel;
    repeat (first [apply H1 | apply H2 | apply hoare_scopeOf | apply hoare_insideSelf_go
                  | match goal with
                    | |- hoare _ (wrf _ (set_value (Some (bytesValue _ (mkSlice _ aml_amlNameLen))))) _ =>
                        apply hoare_wrf; apply keeps_set_value; apply value_ok_bytes; apply reslice_ok;
                        [eapply valueBytes_ok; [|eassumption]; cbv beta in *; assumption|assumption]
                    end
                  | hmore]).
Qed.

Lemma hoare_popAll_go fuel : hoareT (popAll_go fuel).
Proof. induction fuel as [|fuel IH]; cbn [popAll_go]; repeat (first [apply IH | hmore]). Qed.

Lemma hoare_deferred fuel : forall pf,
  (forall i, hoareT (parseDeferredBlocks fuel pf i)) /\ (forall i, hoareT (deferred_loop fuel pf i)).
Proof.
  induction fuel as [|fuel IH]; intros pf; (split; intros; [cbn [parseDeferredBlocks]|cbn [deferred_loop]]);
    repeat (first [apply (IH pf) | apply hoare_parseObjectArgs | apply hoare_popAll_go | hmore]).
Qed.

Lemma hoare_connectNonNamedObjArg fuel a b : hoareT (connectNonNamedObjArg fuel a b).
Proof. unfold connectNonNamedObjArg. repeat (first [apply hoare_attachSiblingsAsArgs | hmore]). Qed.

Lemma hoare_connectNonNamed fuel :
  (forall i, hoareT (connectNonNamedObjArgs fuel i)) /\ (forall o i, hoareT (connectNonNamed_loop fuel o i)).
Proof.
  induction fuel as [|fuel (H1 & H2)]; (split; intros; [cbn [connectNonNamedObjArgs]|cbn [connectNonNamed_loop]]);
    repeat (first [apply H1 | apply H2 | apply hoare_connectNonNamedObjArg | hmore]).
Qed.

Lemma hoare_resolveCalls fuel :
  (forall i, hoareT (resolveMethodCalls fuel i)) /\ (forall o i, hoareT (resolveCalls_loop fuel o i)).
Proof.
  induction fuel as [|fuel (H1 & H2)]; (split; intros; [cbn [resolveMethodCalls]|cbn [resolveCalls_loop]]);
    repeat (first [apply H1 | apply H2 | apply hoare_connectNonNamedObjArg | apply hoare_attachSiblingsAsArgs | hmore]).
Qed.

Lemma hoare_resolve_loop fuel : forall wf, hoareT (resolve_loop fuel wf).
Proof.
  induction fuel as [|fuel IH]; intros; cbn [resolve_loop];
    repeat (first [apply IH | apply (hoare_mergeScope wf) | apply (hoare_relocate wf) | hmore]).
Qed.

Lemma hoare_parseAML_body fuel : hoareT (parseAML_body fuel).
Proof.
  unfold parseAML_body.
  repeat (first [apply hoare_parseObjectList | apply (hoare_connectNamed fuel) | apply hoare_resolve_loop
                | apply (hoare_deferred fuel fuel) | apply (hoare_resolveCalls fuel) | apply (hoare_connectNonNamed fuel) | hmore]).
Qed.

End Funs.

(** ---- from one table to a sequence of tables ---- *)
Lemma slice_ok_app tbls more tbl sl : slice_ok tbls tbl sl -> slice_ok (tbls ++ more) tbl sl.
Proof.
  intros (d & Hd & Hin). exists d. split; auto. rewrite nth_error_app1; auto.
  apply nth_error_Some. congruence.
Qed.

Lemma pool_ok_app tbls more t : pool_ok tbls t -> pool_ok (tbls ++ more) t.
Proof.
  unfold pool_ok. intros H. eapply Forall_impl; [|exact H]. intros o Ho.
  unfold value_ok in *. destruct (o_value o) as [[n|tb s|i|f]|]; auto. apply slice_ok_app; auto.
Qed.

(** a table image the invariant can start from: bytes, and not within 1 KiB of 4 GiB *)
Definition image_ok (data : list N) : Prop :=
  Forall (fun b => b < 256) data /\ N.of_nat (length data) + 1024 <= two32.

Lemma init_reader_eq d h :
  init_reader d h = mkReader d (N.of_nat (length d)) (if N.of_nat (length d) <? h then N.of_nat (length d) else h) (N.of_nat (length d)).
Proof. unfold init_reader, setPkgEnd, setOffset. cbn [r_len r_data r_pkgEnd r_offset fst]. rewrite N.ltb_irrefl. reflexivity. Qed.

Lemma init_state_Inv tree earlier handle data :
  image_ok data -> pool_ok earlier tree -> Inv (earlier ++ [data]) (init_state tree earlier handle data).
Proof.
  intros (Hb & Hl) Hp. unfold init_state. rewrite init_reader_eq.
  set (n := N.of_nat (length data)) in *.
  unfold setPkgEnd. cbn [r_len r_data r_pkgEnd r_offset]. rewrite N.ltb_irrefl. cbn [fst].
  constructor; cbn [p_tables p_r p_tree with_r with_pkgEndStack set_pkgEnd_raw r_len r_data r_pkgEnd r_offset].
  - reflexivity.
  - unfold reader_wf, set_pkgEnd_raw. cbn [r_len r_data r_pkgEnd]. split; [reflexivity|split; [lia|split; [unfold two32 in *; lia|exact Hb]]].
  - unfold no_wrap, set_pkgEnd_raw. cbn [r_len]. exact Hl.
  - unfold cur. rewrite app_length. cbn [length].
    replace (N.to_nat (N.of_nat (length earlier + 1) - 1)) with (length earlier) by lia.
    rewrite nth_error_app2 by lia. rewrite Nat.sub_diag. reflexivity.
  - apply pool_ok_app. exact Hp.
Qed.

(** ParseAML keeps every stored []byte inside its table and the reader inside the table, whatever it returns *)
Theorem parseAML_inv tree earlier handle data b s :
  image_ok data -> pool_ok earlier tree -> parseAML tree earlier handle data = Ok (b, s) ->
  pool_ok (earlier ++ [data]) (p_tree s) /\ reader_wf (p_r s) /\ r_data (p_r s) = data.
Proof.
  intros Hi Hp E. unfold parseAML in E.
  destruct (hoare_parseAML_body (earlier ++ [data]) _ _ _ _ (init_state_Inv tree earlier handle data Hi Hp) E) as ([I1 I2 I3 I4 I5] & _).
  split; [exact I5|split; [exact I2|]].
  unfold cur in I4. rewrite app_length in I4. cbn [length] in I4.
  replace (N.to_nat (N.of_nat (length earlier + 1) - 1)) with (length earlier) in I4 by lia.
  rewrite nth_error_app2 in I4 by lia. rewrite Nat.sub_diag in I4. cbn in I4. congruence.
Qed.

(** the default scopes carry no values *)
Lemma newNamedObject_ok tbls t opc th nm t' p : newNamedObject t opc th nm = Ok (t', p) -> pool_ok tbls t -> pool_ok tbls t'.
Proof.
  intros H Hp. unfold newNamedObject in H. apply bind_Ok in H. destruct H as ([t1 p1] & H1 & H).
  apply bind_Ok in H. destruct H as (t2 & H2 & H). inversion H; subst.
  eapply wr_ok; [|exact H2|eapply newObject_ok; eauto]. apply keeps_link. reflexivity.
Qed.

Lemma append_scopes_ok tbls names : forall t root th t', append_scopes t root th names = Ok t' -> pool_ok tbls t -> pool_ok tbls t'.
Proof.
  induction names as [|nm names IH]; intros t root th t' H Hp; cbn [append_scopes] in H.
  - inversion H; subst; exact Hp.
  - apply bind_Ok in H. destruct H as ([t1 p] & H1 & H). apply bind_Ok in H. destruct H as (t2 & H2 & H).
    eapply IH; [exact H|]. eapply append_ok; [exact H2|]. eapply newNamedObject_ok; eauto.
Qed.

Lemma CreateDefaultScopes_ok tbls th t' : CreateDefaultScopes (@NewObjectTree value) th = Ok t' -> pool_ok tbls t'.
Proof.
  unfold CreateDefaultScopes. destruct Gen.Consts_aml_tree.tree_defaultScopeNames as [|rootName rest].
  - intros H. inversion H; subst. constructor.
  - intros H. apply bind_Ok in H. destruct H as ([t1 root] & H1 & H).
    eapply append_scopes_ok; [exact H|]. eapply newNamedObject_ok; [exact H1|]. constructor.
Qed.

Lemma land255_lt x : N.land x 0xff < 256.
Proof. change 0xff with (N.ones 8). rewrite N.land_ones. apply N.mod_lt. discriminate. Qed.

Lemma le_bytes_bytes cnt : forall v, Forall (fun b => b < 256) (Parser.le_bytes cnt v).
Proof. induction cnt as [|cnt IH]; intros v; cbn [Parser.le_bytes]; constructor; auto using land255_lt. Qed.

Lemma table_image_ok payload : Forall (fun b => b < 256) payload -> N.of_nat (length payload) + 2048 <= two32 -> image_ok (table_image payload).
Proof.
  intros Hb Hl. unfold image_ok, table_image. split.
  - apply Forall_app. split; [repeat constructor|].
    apply Forall_app. split; [apply le_bytes_bytes|].
    apply Forall_app. split; [repeat constructor|].
    apply Forall_app. split; [|exact Hb].
    apply Forall_forall. intros x Hx. apply repeat_spec in Hx. subst. reflexivity.
  - rewrite !app_length, repeat_length.
    assert (E4 : forall v, length (Parser.le_bytes 4 v) = 4%nat) by reflexivity. rewrite E4.
    change (length [68; 83; 68; 84]) with 4%nat. change (length [2]) with 1%nat.
    change (N.to_nat aml_sizeofSDTHeader - 9)%nat with 27%nat.
    unfold two32 in *. lia.
Qed.

Lemma load_tables_ok payloads : forall tree earlier handle class t imgs,
  Forall (fun p => Forall (fun b => b < 256) p /\ N.of_nat (length p) + 2048 <= two32) payloads ->
  pool_ok earlier tree -> load_tables tree earlier handle payloads = (class, t, imgs) -> class = 0 \/ class = 1 ->
  pool_ok imgs t.
Proof.
  induction payloads as [|p rest IH]; intros tree earlier handle class t imgs Hall Hp E Hc; cbn [load_tables] in E.
  - inversion E; subst. exact Hp.
  - inversion Hall as [|? ? (Hb & Hl) Hrest]; subst.
    pose proof (table_image_ok p Hb Hl) as Hi.
    destruct (parseAML tree earlier handle (table_image p)) as [[[|] s]| |] eqn:Ep.
    + destruct (parseAML_inv _ _ _ _ _ _ Hi Hp Ep) as (Hp' & _). eapply IH; eauto.
    + destruct (parseAML_inv _ _ _ _ _ _ Hi Hp Ep) as (Hp' & _). inversion E; subst. exact Hp'.
    + inversion E; subst. destruct Hc; discriminate.
    + inversion E; subst. destruct Hc; discriminate.
Qed.

