(** C11 (two-table fragment): ParseAML on a second table (handle 2) loaded into the tree the first table left.
    Generic part: connectNamedObjArgs leaves alone the objects of earlier tables. *)
From Coq Require Import NArith ZArith Arith List Bool Lia.
From Coq Require Import ZifyBool ZifyN ZifyNat.
From FF Require Import Lib.Word Gen.Consts_device_acpi_aml Gen.Consts_aml_tree Aml.Stream Aml.Lex Aml.LexProofs
  Aml.Tree Aml.TreeSpec Aml.TreeProofs Aml.TreeProofsOps Aml.TreeProofsFind Aml.Parser Aml.Grammar Aml.LexRoundtrip
  Aml.ParserTotalTree Aml.ParserTotalBase
  Aml.ParserFragBase Aml.ParserFragFirst Aml.ParserFragF0 Aml.ParserFragF0Shape Aml.ParserFragConn Aml.ParserFragF0Conn Aml.ParserFragWalk
  Aml.ParserFragF0Top Aml.ParserFragRose Aml.ParserFragDev Aml.ParserFragArgs Aml.ParserFragF1 Aml.ParserFragF1First Aml.ParserFragF1Conn Aml.ParserFragF1Top
  Aml.ParserFragMerge Aml.ParserFragScope Aml.ParserFragScope2 Aml.ParserFragScope3 Aml.ParserFragF3Top.
Import ListNotations.
Local Open Scope N_scope.

Ltac Zify.zify_post_hook ::= Z.div_mod_to_equations.

(** ---- no freed slot: the free list is empty ---- *)
Lemma rep_free_nil (t : T) g pl : Rep t g pl -> (forall i a, pget pl i = Some a -> y_op a <> opFreed) -> g_free g = [].
Proof.
  intros H Hall. pose proof (rep_R _ _ _ H) as HR. destruct (R_flist _ _ HR) as (Hch & _).
  destruct (g_free g) as [|x r]; [reflexivity|]. exfalso. cbn [fchain] in Hch. destruct Hch as (_ & o & Ho & Hop & _).
  apply (Hall x (pay_of o)); [|cbn [pay_of y_op]; exact Hop].
  rewrite <- (rep_pl _ _ _ H). unfold pget. rewrite nth_error_map. unfold tget, TreeSpec.get in Ho. rewrite Ho. reflexivity.
Qed.

Lemma rallr_mono (P Q : rose -> Prop) : (forall r, P r -> Q r) -> forall r, rallr P r -> rallr Q r.
Proof.
  intros HPQ. induction r as [i a ks IH] using rose_ind2. intros Hr. apply rallr_inv in Hr. destruct Hr as (Hp & Hks).
  constructor; [apply HPQ; exact Hp|]. rewrite Forall_forall in *. intros c Hc. apply (IH c Hc). apply Hks. exact Hc.
Qed.

Lemma conn_ok_f1 g h0 tbl0 H0 i a ks : f1_ok h0 tbl0 (RN i a ks) -> h0 <> H0 -> 0 <> H0 -> conn_ok g H0 i a.
Proof.
  intros Hk Hne Hne0. assert (E : (h0 =? H0) = false) by (apply N.eqb_neq; exact Hne). assert (E0 : (0 =? H0) = false) by (apply N.eqb_neq; exact Hne0).
  cbn [f1_ok] in Hk.
  destruct Hk as [(nm & ->)|[(bk & off & nm & p & po & rest & -> & _)|[(off & w & v & -> & _)|[(off & ->)|[(off & -> & _)|[(off & nm & p & po & c & co & d & -> & _ & _)|[(off & d & -> & Hc & _)|[(lk & off & nm & p & po & rest & -> & _)|[(off & bs & -> & _)|[(off & nm & p & po & rest & -> & _)|(off & ->)]]]]]]]]]].
  all: try (destruct bk); try (destruct w); try (destruct lk);
    try (unfold cst_pay; cbn [y_info y_op y_th]; destruct (is_constb_cases _ Hc) as [E1|[E1|[E1|[E1|[E1|[E1|E1]]]]]]; rewrite E1);
    (do 3 eexists; split; [reflexivity|]);
    cbn [blk_pay num_pay sb_pay pth_pay nam_pay lf_pay str_pay pkg_pay y_th y_op]; rewrite ?E, ?E0, ?N.eqb_refl; cbn [negb orb]; rewrite ?orb_true_r; reflexivity.
Qed.

(** ---- the first table ---- *)
Lemma f1_ok_live h0 tbl0 i a ks : f1_ok h0 tbl0 (RN i a ks) -> y_op a <> opFreed.
Proof. intros Hk. apply (f1_okE_live i a ks). exists h0, tbl0. exact Hk. Qed.

Lemma root_tree_okh its : forallb item_okb its = true -> rallr (fun r => f1_ok 1 0 r) (root_tree its).
Proof.
  intros Hok. unfold root_tree. constructor; [cbn [f1_ok]; left; eexists; reflexivity|].
  apply Forall_app. split; [|apply lay2_okh; exact Hok].
  unfold dflt_leaves. repeat (constructor; [constructor; [cbn [f1_ok]; left; eexists; reflexivity|constructor]|]). constructor.
Qed.

Theorem table1 its t0 :
  forallb item_okb its = true -> lenN (enc_items its) < 0x10000000 -> Rep t0 g0c pl0c ->
  exists s' gF plF,
    parseAML t0 [] 1 (table_image (enc_items its)) = Ok (true, s') /\
    Rep (p_tree s') gF plF /\ Desc gF plF (root_tree its) /\ p_tables s' = [table_image (enc_items its)] /\
    length plF = (6 + iszs its)%nat /\ g_free gF = [].
Proof.
  intros Hok Hsz H0. destruct (parse_f1x its t0 Hok Hsz H0) as (s' & gF & plF & Ep & HF & DF & Etb & Hle).
  exists s', gF, plF. split; [exact Ep|]. split; [exact HF|]. split; [exact DF|]. split; [exact Etb|].
  assert (Hlen : length plF = (6 + iszs its)%nat).
  { assert (Hin : In (5 + N.of_nat (iszs its)) (rnodes (root_tree its))) by (apply root_tree_nodes; lia).
    destruct (Desc_lookup gF plF _ DF _ Hin) as (a & ks & Dy). destruct (Desc_inv _ _ _ _ _ Dy) as (Py & _ & _). apply pget_lt in Py. lia. }
  split; [exact Hlen|].
  apply (rep_free_nil _ _ _ HF). intros i a Hi.
  assert (Hin : In i (rnodes (root_tree its))) by (apply root_tree_nodes; apply pget_lt in Hi; lia).
  destruct (rallr_lookup gF plF _ _ DF (root_tree_okh its Hok) i Hin) as (a' & ks & Di & Oi).
  destruct (Desc_inv _ _ _ _ _ Di) as (Pi & _ & _). assert (a' = a) by congruence. subst a'. exact (f1_ok_live _ _ _ _ _ Oi).
Qed.

(** ---- the first pass of a table that is not the first ---- *)
Theorem first_t ts fuel tree g pl earlier h hdr a0 :
  let data := hdr ++ enc_titems ts in
  lenN hdr = aml_sizeofSDTHeader -> Forall (fun b => b < 256) data -> lenN data < two32 ->
  Rep tree g pl -> g_free g = [] -> N.of_nat (length pl) + N.of_nat (tszs ts) < InvalidIndex ->
  pget pl 0 = Some a0 -> y_op a0 <> opFreed -> forallb titem_okb ts = true -> (tcnts ts + 12 <= fuel)%nat ->
  wp False (first_pass fuel) (init_state tree earlier h data) (fun res s' => res = ROk /\ exists t1 g1 pl1,
    s' = after_first t1 earlier h data /\ Rep t1 g1 pl1 /\
    Post1 g pl g1 pl1 0 (tlay1 h (N.of_nat (length earlier)) (N.of_nat (length pl)) aml_sizeofSDTHeader ts)).
Proof.
  intros data Hhdr Hbytes Hsmall H Hfree Hroom H0 Hl0 Hok Hfuel.
  assert (Hlen : lenN data = aml_sizeofSDTHeader + lenN (enc_titems ts)) by (unfold data; rewrite lenN_app, Hhdr; reflexivity).
  rewrite init_state_eq by lia.
  destruct fuel as [|f1]; [lia|].
  unfold first_pass. apply wp_bind. apply wp_scopeEnter. scbn.
  apply wp_parseObjectList_cont; [scbn; discriminate|].
  change (mkP (mkReader data (lenN data) aml_sizeofSDTHeader (lenN data)) tree [0] [lenN data] (lenN data) 0 0 0 false h (earlier ++ [data]))
    with (st1 h data (lenN data) (lenN data) (earlier ++ [data]) aml_sizeofSDTHeader (lenN data) tree [0] [lenN data]).
  assert (Etbl : N.of_nat (length (earlier ++ [data])) - 1 = N.of_nat (length earlier)) by (rewrite app_length; cbn [length]; lia).
  rewrite <- Etbl.
  eapply (tispec_all h data (lenN data) (lenN data) (earlier ++ [data]) eq_refl Hsmall Hbytes ts f1 f1 aml_sizeofSDTHeader (lenN data) tree 0 [] [] g pl hdr [] a0 9%nat);
    [exact H|exact Hfree|exact Hroom|unfold data; rewrite app_nil_r; reflexivity|symmetry; exact Hhdr|rewrite Hhdr, Hlen; lia|lia|exact Hok|reflexivity|exact H0|exact Hl0|lia|lia|lia|].
  intros t1 g1 pl1 fo fi H1 P1 Hfi Hfo.
  destruct fi as [|fi']; [lia|]. apply wp_list_cont_S. unfold eofM, rq. apply wp_bind, wp_get.
  assert (Eeof : eof (p_r (st1 h data (lenN data) (lenN data) (earlier ++ [data]) (aml_sizeofSDTHeader + lenN (enc_titems ts)) (lenN data) t1 [0] [lenN data])) = true).
  { unfold eof. cbn [st1 p_r r_pkgEnd r_offset]. apply N.leb_le. lia. }
  rewrite Eeof. unfold list_end.
  apply wp_bind, wp_get. apply wp_bind, wp_get. scbn. cbn [length Nat.eqb].
  apply wp_bind. unfold wp at 1, scopeExit. scbn.
  apply wp_bind. unfold wp at 1, popPkgEnd. scbn. cbv zeta iota beta.
  destruct fo as [|fo']; [lia|]. rewrite parseObjectList_S. apply wp_bind, wp_get. scbn. apply wp_ret.
  split; [reflexivity|]. exists t1, g1, pl1. split; [|split; [exact H1|exact P1]].
  unfold after_first, st1. rewrite <- Hlen. reflexivity.
Qed.

(** ---- connectNamedObjArgs on the whole tree, second table ---- *)
Lemma floopb_forest g pl : forall l f, Forall (Desc g pl) l -> (3 * rsizes l + 1 <= f)%nat -> floopb g f (map ridx l).
Proof.
  induction l as [|c r IH]; intros f HD Hf; (destruct f as [|f1]; [lia|]); cbn [floopb map]; [exact I|].
  cbn [rsizes fold_right] in Hf. fold (rsizes r) in Hf. pose proof (rsize_pos c).
  split; [apply (fwalkb_size g pl c (Forall_inv HD)); lia|apply IH; [exact (Forall_inv_tail HD)|lia]].
Qed.

Lemma rsizes_rev' (l : list rose) : rsizes (rev l) = rsizes l.
Proof. induction l as [|x t IH]; [reflexivity|]. cbn [rev]. rewrite rsizes_app, IH. unfold rsizes. cbn [fold_right]. lia. Qed.

Lemma root_tree_dflt g pl its : Desc g pl (root_tree its) ->
  (forall i, 0 <= i <= 5 -> pget pl i = Some (dpay i)) /\ (forall d, 1 <= d <= 5 -> kids g d = []) /\
  kids g 0 = D0' ++ map ridx (lay2 1 0 6 aml_sizeofSDTHeader its) /\ Forall (Desc g pl) (lay2 1 0 6 aml_sizeofSDTHeader its) /\
  Forall (Desc g pl) dflt_leaves.
Proof.
  intros HD. destruct (Desc_inv _ _ _ _ _ HD) as (P0 & K0 & HDk). apply Forall_app in HDk. destruct HDk as [HDl HD2].
  rewrite map_app in K0.
  unfold dflt_leaves in HDl.
  pose proof (Forall_inv HDl) as D1. pose proof (Forall_inv (Forall_inv_tail HDl)) as D2.
  pose proof (Forall_inv (Forall_inv_tail (Forall_inv_tail HDl))) as D3.
  pose proof (Forall_inv (Forall_inv_tail (Forall_inv_tail (Forall_inv_tail HDl)))) as D4.
  pose proof (Forall_inv (Forall_inv_tail (Forall_inv_tail (Forall_inv_tail (Forall_inv_tail HDl))))) as D5.
  destruct (Desc_inv _ _ _ _ _ D1) as (P1 & K1 & _). destruct (Desc_inv _ _ _ _ _ D2) as (P2 & K2 & _).
  destruct (Desc_inv _ _ _ _ _ D3) as (P3 & K3 & _). destruct (Desc_inv _ _ _ _ _ D4) as (P4 & K4 & _).
  destruct (Desc_inv _ _ _ _ _ D5) as (P5 & K5 & _).
  split; [|split; [|split; [exact K0|split; [exact HD2|exact HDl]]]].
  - intros i Hi. assert (Hc : i = 0 \/ i = 1 \/ i = 2 \/ i = 3 \/ i = 4 \/ i = 5) by lia.
    destruct Hc as [ -> | [ -> | [ -> | [ -> | [ -> | -> ] ] ] ] ]; assumption.
  - intros d Hd. assert (Hc : d = 1 \/ d = 2 \/ d = 3 \/ d = 4 \/ d = 5) by lia.
    destruct Hc as [ -> | [ -> | [ -> | [ -> | -> ] ] ] ]; assumption.
Qed.

Lemma pass2_t2 its1 ts fuel t1 g0 pl0 g1 pl1 hdr data1 :
  let data := hdr ++ enc_titems ts in
  let b2 := 6 + N.of_nat (iszs its1) in
  forallb item_okb its1 = true -> forallb titem_okb ts = true -> lenN hdr = aml_sizeofSDTHeader ->
  Desc g0 pl0 (root_tree its1) -> length pl0 = (6 + iszs its1)%nat ->
  Rep t1 g1 pl1 -> Post1 g0 pl0 g1 pl1 0 (tlay1 2 1 b2 aml_sizeofSDTHeader ts) ->
  (tcfuel ts + 3 * (6 + iszs its1) + 24 <= fuel)%nat ->
  wp False (connectNamedObjArgs fuel 0) (after_first t1 [data1] 2 data) (fun r s' => r = ROk /\ exists t2 g2 pl2,
    s' = with_tree (after_first t1 [data1] 2 data) t2 /\ Rep t2 g2 pl2 /\
    MInv 2 1 g2 pl2 (lay2 1 0 6 aml_sizeofSDTHeader its1) (fun _ => []) b2 aml_sizeofSDTHeader ts).
Proof.
  intros data b2 Hok1 Hok Hhdr D0t Hl0 H1 P1 Hfuel. destruct P1 as [A1 A2 A3 A4 A5 A6].
  destruct (root_tree_dflt g0 pl0 its1 D0t) as (Hpay0 & Hleaf0 & Hk00 & HDK0 & HDL0).
  set (KT0 := lay2 1 0 6 aml_sizeofSDTHeader its1) in *.
  assert (Hb2 : N.of_nat (length pl0) = b2) by (unfold b2; lia). rewrite Hb2 in *.
  set (s1 := after_first t1 [data1] 2 data).
  assert (Hp0 : pget pl1 0 = Some (dpay 0)) by (rewrite A6 by lia; apply Hpay0; lia).
  assert (Hk0 : kids g1 0 = (D0' ++ map ridx KT0) ++ map ridx (tlay1 2 1 b2 aml_sizeofSDTHeader ts) ++ []) by (rewrite A3, Hk00, app_nil_r; reflexivity).
  destruct fuel as [|F]; [lia|]. rewrite connectNamedObjArgs_S.
  apply wp_bind. eapply wp_objectAt_rep; [exact H1|exact Hp0|discriminate|].
  apply wp_bind. eapply wp_rdf_rep; [exact H1|exact Hp0|discriminate|]. intros o0 _ _ _ Hlast. rewrite Hlast, A3, Hk00.
  pose proof (tclen_le_tcfuel ts) as Hcl.
  eapply (tcspec_all 2 1 [data1; data] data eq_refl ts 0 (D0' ++ map ridx KT0) [] b2 aml_sizeofSDTHeader s1 g1 pl1 F _ (F - tcfuel ts)%nat hdr []);
    [exact H1|exact Hk0|exact A4|exact Hp0|discriminate|left; unfold b2; lia|reflexivity|reflexivity|unfold data; rewrite app_nil_r; reflexivity|symmetry; exact Hhdr|exact Hok|lia|lia|].
  intros t2 g2 pl2 H2 [Q1 Q2 Q3 Q4]. rewrite app_nil_r in Q1.
  (* the objects of the first table and the predefined scopes are left alone *)
  set (F0 := dflt_leaves ++ KT0).
  assert (Hframe : forall y, In y (rnodesl F0) -> kids g2 y = kids g0 y /\ pget pl2 y = pget pl0 y).
  { intros y Hy. assert (Hylt : 1 <= y < b2).
    { unfold F0 in Hy. rewrite rnodesl_app in Hy. apply in_app_or in Hy. destruct Hy as [Hy|Hy].
      - unfold dflt_leaves, rnodesl in Hy. cbn in Hy. unfold b2. lia.
      - apply lay2_nodes in Hy. unfold b2. lia. }
    split; [rewrite Q3 by lia; apply A5; lia|rewrite Q4 by lia; apply A6; lia]. }
  assert (HDF0 : Forall (Desc g0 pl0) F0) by (apply Forall_app; split; assumption).
  assert (HDF : Forall (Desc g2 pl2) F0).
  { apply (Desc_frame_l g0 pl0); [exact HDF0|]. intros y Hy. destruct (Hframe y Hy). auto. }
  assert (HOF : Forall (rallr (fun r => f1_ok 1 0 r)) F0).
  { apply Forall_app. split; [|apply lay2_okh; exact Hok1].
    unfold dflt_leaves. repeat (constructor; [constructor; [cbn [f1_ok]; left; eexists; reflexivity|constructor]|]). constructor. }
  assert (Hidx : map ridx F0 = D0' ++ map ridx KT0) by (unfold F0; rewrite map_app; reflexivity).
  rewrite <- Hidx. rewrite <- (rev_involutive (map ridx F0)), last_rev_hd.
  eapply wp_conseq.
  { refine (proj2 (connS_all g2 pl2 2 (fun y => In y (rnodesl F0)) _ _ (F - tclen ts)) 0 (rev (map ridx F0)) (map ridx (tlay2 2 1 b2 aml_sizeofSDTHeader ts)) (with_tree s1 t2) H2 eq_refl _ _ _).
    - intros y c Hy Hc. apply (forest_kids_in g2 pl2 F0 HDF y c Hy Hc).
    - intros y a Hy Ha _. unfold rnodesl in Hy. apply in_flat_map in Hy. destruct Hy as (r & Hr & Hyr). rewrite Forall_forall in HDF, HOF.
      destruct (rallr_lookup g2 pl2 _ r (HDF r Hr) (HOF r Hr) y Hyr) as (a2 & ks2 & D2 & O2).
      destruct (Desc_inv _ _ _ _ _ D2) as (P2 & _ & _). assert (a2 = a) by congruence. subst a2.
      apply (conn_ok_f1 g2 1 0 2 y a ks2 O2); discriminate.
    - rewrite rev_involutive, Q1, Hidx. reflexivity.
    - intros c Hc. apply in_rev in Hc. apply in_map_iff in Hc. destruct Hc as (r & <- & Hr).
      unfold rnodesl. apply in_flat_map. exists r. split; [exact Hr|]. destruct r. rewrite rnodes_eq. left. reflexivity.
    - rewrite <- map_rev. apply (floopb_forest g2 pl2); [apply Forall_rev; exact HDF|].
      rewrite rsizes_rev'. unfold F0. rewrite rsizes_app. unfold KT0. rewrite lay2_rsizes. unfold dflt_leaves. cbn [rsizes fold_right]. rewrite !rsize_eq. cbn [rsizes fold_right].
      pose proof (tclen_le_tcfuel ts). lia. }
  intros r s' (-> & ->). split; [reflexivity|]. exists t2, g2, pl2. split; [reflexivity|]. split; [exact H2|].
  assert (Hin0 : forall y, In y (rnodesl KT0) -> In y (rnodesl F0)) by (intros y Hy; unfold F0; rewrite rnodesl_app; apply in_or_app; right; exact Hy).
  constructor.
  - rewrite Q1, <- app_assoc. reflexivity.
  - intros i Hi. rewrite Q4 by (unfold b2; lia). rewrite A6 by (unfold b2; lia). apply Hpay0. exact Hi.
  - intros d Hd. rewrite Q3 by (unfold b2; lia). rewrite A5 by (unfold b2; lia). apply Hleaf0. exact Hd.
  - exact Q2.
  - apply Forall_app in HDF. apply HDF.
  - intros d Hd. constructor.
  - apply lay2_ok. exact Hok1.
  - intros d Hd. constructor.
  - intros y Hy. apply lay2_nodes in Hy. unfold b2. lia.
  - intros d y Hd [].
  - unfold b2. lia.
  - intros y a Hy Hpa Hla. left. apply lay2_nodes_all. unfold b2 in Hy. lia.
  - intros y Hy. rewrite Q4 by lia. apply pget_none. rewrite A2, tlay1_rsizes. lia.
Qed.

(** ---- the final tree ---- *)
Definition root_tree_t2 (its1 : list item) (ts : list titem) : rose :=
  let b2 := 6 + N.of_nat (iszs its1) in
  root_treeG (lay2 1 0 6 aml_sizeofSDTHeader its1 ++ keep 2 1 b2 aml_sizeofSDTHeader ts) (moved 2 1 b2 aml_sizeofSDTHeader ts).

Lemma root_tree_t2_size its1 ts : (rsize (root_tree_t2 its1 ts) <= 6 + iszs its1 + tszs ts)%nat.
Proof.
  unfold root_tree_t2, root_treeG. cbv zeta. rewrite rsize_eq, !rsizes_app, lay2_rsizes. cbn [D0' map rsizes fold_right]. rewrite !rsize_eq.
  pose proof (keep_moved_size 2 1 ts (6 + N.of_nat (iszs its1)) aml_sizeofSDTHeader). unfold rsizes in *. lia.
Qed.

(** ---- ParseAML on the second table ---- *)
Theorem parse_t2 its1 ts t1 g0 pl0 data1 :
  forallb item_okb its1 = true -> forallb titem_okb ts = true ->
  lenN (enc_items its1) < 0x10000000 -> lenN (enc_titems ts) < 0x10000000 ->
  Rep t1 g0 pl0 -> Desc g0 pl0 (root_tree its1) -> length pl0 = (6 + iszs its1)%nat -> g_free g0 = [] ->
  exists s' gF plF,
    parseAML t1 [data1] 2 (table_image (enc_titems ts)) = Ok (true, s') /\
    Rep (p_tree s') gF plF /\ Desc gF plF (root_tree_t2 its1 ts) /\ p_tables s' = [data1; table_image (enc_titems ts)].
Proof.
  intros Hok1 Hok Hsz1 Hsz H0 D0t Hl0 Hfree0.
  destruct (enc_titems_len ts) as (Hcf & Hsz' & Hcn & Hln).
  destruct (enc_items_len its1) as (_ & Hsz1' & _).
  destruct (root_tree_dflt g0 pl0 its1 D0t) as (Hpay0 & _).
  rewrite table_image_hdr. set (hdr := hdr_of (enc_titems ts)). set (data := hdr ++ enc_titems ts).
  assert (Hhdr : lenN hdr = aml_sizeofSDTHeader) by reflexivity.
  assert (HlenD : lenN data = aml_sizeofSDTHeader + lenN (enc_titems ts)) by (unfold data; rewrite lenN_app, Hhdr; reflexivity).
  assert (Hpool : length (t_pool t1) = (6 + iszs its1)%nat) by (rewrite <- (rep_len_pool _ _ _ H0); exact Hl0).
  unfold parseAML. rewrite Hpool.
  set (fuel := parse_fuel (length data + (6 + iszs its1))).
  assert (Hfuel : (400 + 8 * length (enc_titems ts) + 8 * iszs its1 <= fuel)%nat).
  { unfold fuel, parse_fuel. unfold lenN in *. change aml_sizeofSDTHeader with 36 in HlenD. lia. }
  clearbody fuel.
  set (b2 := 6 + N.of_nat (iszs its1)).
  assert (Hgoal : wp False (parseAML_body fuel) (init_state t1 [data1] 2 data) (fun b s' => b = true /\
            exists gF plF, Rep (p_tree s') gF plF /\ Desc gF plF (root_tree_t2 its1 ts) /\ p_tables s' = [data1; data])).
  2:{ destruct (wp_run _ _ _ Hgoal) as (b & s' & E & -> & gF & plF & A & B & C). exists s', gF, plF. auto. }
  unfold wp. rewrite parseAML_body_eq.
  match goal with |- match ?m ?s with _ => _ end => change (wp False m s (fun b s' => b = true /\
            exists gF plF, Rep (p_tree s') gF plF /\ Desc gF plF (root_tree_t2 its1 ts) /\ p_tables s' = [data1; data])) end.
  (* the first pass *)
  apply wp_bind. eapply wp_conseq.
  { eapply (first_t ts fuel t1 g0 pl0 [data1] 2 hdr (dpay 0)); [exact Hhdr| | |exact H0|exact Hfree0| |apply Hpay0; lia|discriminate|exact Hok|lia].
    - apply Forall_app. split; [apply hdr_bytes|apply enc_titems_bytes; exact Hok].
    - fold data. rewrite HlenD. unfold two32. change aml_sizeofSDTHeader with 36. lia.
    - rewrite Hl0. change InvalidIndex with 0xffffffff. unfold lenN in *. lia. }
  intros res s1 (-> & t1' & g1 & pl1 & -> & H1 & P1). fold data in H1, P1 |- *.
  change (pres_eqb ROk RFailed) with false. cbv iota. cbn [length] in P1. rewrite Hl0 in P1.
  replace (N.of_nat (6 + iszs its1)) with b2 in P1 by (unfold b2; lia). change (N.of_nat 1) with 1 in P1.
  (* connectNamedObjArgs *)
  apply wp_bind. eapply wp_conseq.
  { apply (pass2_t2 its1 ts fuel t1' g0 pl0 g1 pl1 hdr data1 Hok1 Hok Hhdr D0t Hl0 H1 P1). lia. }
  intros r s2 (-> & t2 & g2 & pl2 & -> & H2 & I2).
  change (negb (pres_eqb ROk ROk)) with false. cbv iota.
  (* the remaining passes *)
  set (s2 := with_tree (after_first t1' [data1] 2 data) t2).
  set (KT0 := lay2 1 0 6 aml_sizeofSDTHeader its1) in *.
  eapply wp_conseq.
  { apply (rest_generic2 fuel s2 2 (fun g pl => exists B off, MInv 2 1 g pl (KT0 ++ keep 2 1 b2 aml_sizeofSDTHeader ts) (moved 2 1 b2 aml_sizeofSDTHeader ts) B off [])).
    - intros t g pl Hrep (B & off & I). destruct (root_treeG_facts 2 1 g pl _ _ B off I) as (D3 & O3 & C3).
      exists (root_tree_t2 its1 ts), (dpay 0). split; [exact D3|]. split; [reflexivity|]. split; [apply (Desc_inv _ _ _ _ _ D3)|]. split; [discriminate|].
      split; [|pose proof (root_tree_t2_size its1 ts); lia].
      apply (f1_conds t g pl (root_tree_t2 its1 ts) 2 Hrep D3 O3 C3).
    - eapply wp_conseq.
      { rewrite <- Hhdr in I2.
        apply (merge_rootG 2 1 [data1; data] data eq_refl ts KT0 b2 hdr [] fuel (with_counters s2 1 (p_mergedScopes s2) (p_relocatedObjects s2)) g2 pl2 H2 I2 eq_refl eq_refl);
          [unfold data; rewrite app_nil_r; reflexivity|exact Hok|].
        unfold KT0. rewrite lay2_rsizes.
        assert (Hlk : (length (lay2 1 0 6 aml_sizeofSDTHeader its1) <= iszs its1)%nat).
        { rewrite <- (lay2_rsizes 1 0 its1 6 aml_sizeofSDTHeader). generalize (lay2 1 0 6 aml_sizeofSDTHeader its1). intros l.
          induction l as [|x t IHl]; [cbn; lia|]. cbn [length rsizes fold_right]. fold (rsizes t). pose proof (rsize_pos x). lia. }
        lia. }
      intros r s3 (-> & g3 & pl3 & H3 & Hh3 & Htb3 & Hr3 & I3). split; [reflexivity|]. exists g3, pl3.
      split; [exact H3|]. split; [do 2 eexists; exact I3|]. split; [exact Hh3|]. split; [exact Htb3|]. rewrite Hr3. reflexivity. }
  intros b s3 (-> & g3 & pl3 & H3 & (B & off & I3) & Etb). split; [reflexivity|]. exists g3, pl3.
  split; [exact H3|]. split; [apply (root_treeG_facts 2 1 g3 pl3 _ _ B off I3)|exact Etb].
Qed.
