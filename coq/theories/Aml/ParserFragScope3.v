(** C11 (fragment F3): mergeScopeDirectives over the top-level items: every Scope directive over a predefined scope
    is merged into it (contents moved, three objects freed), everything else is left alone. *)
From Coq Require Import NArith ZArith Arith List Bool Lia.
From Coq Require Import ZifyBool ZifyN ZifyNat.
From FF Require Import Lib.Word Gen.Consts_device_acpi_aml Gen.Consts_aml_tree Aml.Stream Aml.Lex Aml.LexProofs
  Aml.Tree Aml.TreeSpec Aml.TreeProofs Aml.TreeProofsOps Aml.TreeProofsFind Aml.Parser Aml.Grammar Aml.LexRoundtrip
  Aml.ParserTotalTree Aml.ParserTotalBase
  Aml.ParserFragBase Aml.ParserFragFirst Aml.ParserFragF0 Aml.ParserFragF0Shape Aml.ParserFragConn Aml.ParserFragF0Conn Aml.ParserFragWalk
  Aml.ParserFragF0Top Aml.ParserFragRose Aml.ParserFragDev Aml.ParserFragF1 Aml.ParserFragF1First Aml.ParserFragF1Conn Aml.ParserFragF1Top
  Aml.ParserFragMerge Aml.ParserFragScope Aml.ParserFragScope2.
Import ListNotations.
Local Open Scope N_scope.

Ltac Zify.zify_post_hook ::= Z.div_mod_to_equations.

(** ---- descriptions and descendants ---- *)

Lemma floop_size g pl : forall l f, Forall (Desc g pl) l -> (3 * rsizes l + 1 <= f)%nat -> floop g f (map ridx l).
Proof.
  induction l as [|c r IHl]; intros f HD Hf; (destruct f as [|f']; [lia|]); cbn [floop map]; [exact I|].
  inversion HD; subst. cbn [rsizes fold_right] in Hf. fold (rsizes r) in Hf. pose proof (rsize_pos c).
  split; [apply (fwalk_size g pl c); [assumption|lia]|apply IHl; [assumption|lia]].
Qed.

Lemma merge_ok_f1 H0 i a ks : f1_okE (RN i a ks) -> merge_ok H0 a.
Proof.
  intros (h0 & tbl0 & Hk). revert Hk. cbn [f1_ok]. intros [(nm & ->)|[(bk & off & nm & p & po & rest & -> & _)|[(off & w & v & -> & _)|[(off & ->)|[(off & -> & _)|[(off & nm & p & po & c & co & d & -> & _ & _)|[(off & d & -> & Hc & _)|[(lk & off & nm & p & po & rest & -> & _)|[(off & bs & -> & _)|[(off & nm & p & po & rest & -> & _)|(off & ->)]]]]]]]]]];
    try (do 3 eexists; split; [reflexivity|right; reflexivity]).
  - destruct bk; (do 3 eexists; split; [reflexivity|right; reflexivity]).
  - destruct w; (do 3 eexists; split; [reflexivity|right; reflexivity]).
  - unfold cst_pay, merge_ok. cbn [y_info y_op y_th].
    destruct (is_constb_cases _ Hc) as [E|[E|[E|[E|[E|[E|E]]]]]]; rewrite E; (do 3 eexists; split; [reflexivity|right; reflexivity]).
  - destruct lk; (do 3 eexists; split; [reflexivity|right; reflexivity]).
Qed.

Lemma f1_okE_live i a ks : f1_okE (RN i a ks) -> y_op a <> opFreed.
Proof.
  intros (h0 & tbl0 & Hk1). cbn [f1_ok] in Hk1.
  destruct Hk1 as [(nm & ->)|[(bk0 & ? & ? & ? & ? & ? & -> & _)|[(? & w0 & ? & -> & _)|[(? & ->)|[(? & -> & _)|[(? & ? & ? & ? & ? & ? & ? & -> & _ & _)|[(? & d & -> & Hc & _)|[(lk0 & ? & ? & ? & ? & ? & -> & _)|[(? & ? & -> & _)|[(? & ? & ? & ? & ? & -> & _)|(? & ->)]]]]]]]]]]; try discriminate; try (destruct bk0; discriminate); try (destruct w0; discriminate); try (destruct lk0; discriminate).
  cbn [cst_pay y_op]. destruct (is_constb_cases _ Hc) as [E|[E|[E|[E|[E|[E|E]]]]]]; rewrite E; discriminate.
Qed.

Lemma slice_at_n s tbls tbl data a b c : p_tables s = tbls -> nth_error tbls (N.to_nat tbl) = Some data -> data = a ++ b ++ c ->
  1 <= lenN b -> slice_bytes s tbl (mkSlice (Some (lenN a)) (lenN b)) = Ok b.
Proof.
  intros Ht Hn Hd Hb. unfold slice_bytes. cbn [s_len s_ptr].
  destruct (N.eqb_spec (lenN b) 0); [lia|]. rewrite Ht, Hn, Hd.
  replace (N.to_nat (lenN a)) with (length a) by (unfold lenN; lia).
  replace (N.to_nat (lenN b)) with (length b) by (unfold lenN; lia). rewrite take_bytes_app. reflexivity.
Qed.

(** ---- the predefined scopes ---- *)
Definition dname (d : N) : Name :=
  nth (N.to_nat d) [(92, 0, 0, 0); (95, 71, 80, 69); (95, 80, 82, 95); (95, 83, 66, 95); (95, 83, 73, 95); (95, 84, 90, 95)] name_zero.
Definition dpay (d : N) : pay := mkPay opScopeBlock 113 0 (dname d) 0 0 None.

Lemma dseg_bytes d : 1 <= d <= 5 -> exists b0 b1 b2 b3, seg_bytes (dseg d) = [b0; b1; b2; b3] /\ dname d = (b0, b1, b2, b3) /\ is_lead b0 = true.
Proof.
  intros Hd. assert (Hc : d = 1 \/ d = 2 \/ d = 3 \/ d = 4 \/ d = 5) by lia.
  destruct Hc as [ -> | [ -> | [ -> | [ -> | -> ] ] ] ]; do 4 eexists; repeat split.
Qed.

Lemma find_default (nm : N -> Name) d rest : 1 <= d <= 5 -> (forall i, 1 <= i <= 5 -> nm i = dname i) ->
  find (fun c => name_eqb (dname d) (nm c)) ([1; 2; 3; 4; 5] ++ rest) = Some d.
Proof.
  intros Hd Hnm. cbn [app find]. rewrite !Hnm by lia.
  assert (Hc : d = 1 \/ d = 2 \/ d = 3 \/ d = 4 \/ d = 5) by lia.
  destruct Hc as [ -> | [ -> | [ -> | [ -> | -> ] ] ] ]; reflexivity.
Qed.

Lemma Find_default (t : T) g pl root d rest : Rep t g pl -> 1 <= d <= 5 ->
  kids g 0 = [1; 2; 3; 4; 5] ++ rest -> (forall i, 0 <= i <= 5 -> pget pl i = Some (dpay i)) ->
  Find t 0 (enc_name (sc_name root (dseg d))) = Ok d.
Proof.
  intros H Hd Hk Hp. pose proof (rep_R _ _ _ H) as HR.
  assert (Hlive0 : live t 0).
  { apply (R_live_glive _ _ HR). eapply rep_live; [exact H|apply (Hp 0); lia|discriminate]. }
  rewrite (Find_spec t g HR 0 _ Hlive0 Hlive0). f_equal.
  assert (Hnm : forall i, 1 <= i <= 5 -> name_at t i = dname i).
  { intros i Hi. destruct (rep_get _ _ _ H _ _ (Hp i ltac:(lia))) as (o & Ho & Epay). unfold name_at. rewrite Ho.
    rewrite (pay_name _ _ Epay). reflexivity. }
  destruct (dseg_bytes d Hd) as (b0 & b1 & b2 & b3 & Eb & En & Hl0).
  assert (Hlook : TreeSpec.lookup g (name_at t) 0 (b0, b1, b2, b3) = Some d).
  { unfold TreeSpec.lookup. rewrite Hk, <- En. apply find_default; assumption. }
  rewrite enc_sc_name, Eb. destruct root; cbn [app].
  - unfold resolve. change (92 =? 92) with true. cbv iota. unfold resolve_rel. cbn [segments]. rewrite Hl0. cbn [segments option_map].
    cbn [TreeSpec.walk]. rewrite Hlook. reflexivity.
  - unfold resolve.
    assert (E1 : b0 =? 92 = false).
    { unfold is_lead in Hl0. destruct (N.eqb_spec b0 92) as [->|]; [discriminate Hl0|reflexivity]. }
    assert (E2 : b0 =? 94 = false).
    { unfold is_lead in Hl0. destruct (N.eqb_spec b0 94) as [->|]; [discriminate Hl0|reflexivity]. }
    rewrite E1, E2.
    assert (Hlen : (1 <= length (g_kids g))%nat).
    { rewrite (rep_len_g _ _ _ H). pose proof (pget_lt _ _ _ (Hp 0 ltac:(lia))). lia. }
    destruct (length (g_kids g)) as [|n]; [lia|]. cbn [TreeSpec.search_up]. rewrite Hlook. reflexivity.
Qed.

(** ---- what stays below the root and what is moved below a predefined scope ---- *)
Section MergeTop.
Variable h tbl : N.
Variable tbls : list (list N).
Variable data : list N.
Hypothesis Hnth : nth_error tbls (N.to_nat tbl) = Some data.

Fixpoint keep (b off : N) (ts : list titem) : list rose :=
  match ts with
  | [] => []
  | x :: t => (match x with TItem it => lay2_item h tbl b off it | TScope _ _ _ _ => [] end) ++ keep (b + N.of_nat (tsz x)) (off + lenN (enc_titem x)) t
  end.

Fixpoint moved (b off : N) (ts : list titem) (d : N) : list rose :=
  match ts with
  | [] => []
  | x :: t => (match x with
               | TItem _ => []
               | TScope k root d' body => if d' =? d then lay2 h tbl (b + 3) (off + 1 + k + sc_len root) body else []
               end) ++ moved (b + N.of_nat (tsz x)) (off + lenN (enc_titem x)) t d
  end.

Definition D0' : list N := [1; 2; 3; 4; 5].

(** the state of the pool while the root's children are walked: [KT] = the trees of the items that stay, [M d] = the
    trees moved below scope [d] so far, [b] = first slot of the remaining items *)
Record MInv (g : ghost) (pl : list pay) (KT : list rose) (M : N -> list rose) (b off : N) (ts : list titem) : Prop := mkMInv {
  mi_root : kids g 0 = D0' ++ map ridx KT ++ map ridx (tlay2 h tbl b off ts);
  mi_pay : forall i, 0 <= i <= 5 -> pget pl i = Some (dpay i);
  mi_leaf : forall d, 1 <= d <= 5 -> kids g d = map ridx (M d);
  mi_rem : Forall (Desc g pl) (tlay2 h tbl b off ts);
  mi_KT : Forall (Desc g pl) KT;
  mi_M : forall d, 1 <= d <= 5 -> Forall (Desc g pl) (M d);
  mi_okK : Forall (rallr f1_okE) KT;
  mi_okM : forall d, 1 <= d <= 5 -> Forall (rallr f1_okE) (M d);
  mi_lowK : forall y, In y (rnodesl KT) -> 6 <= y < b;
  mi_lowM : forall d y, 1 <= d <= 5 -> In y (rnodesl (M d)) -> 6 <= y < b;
  mi_b : 6 <= b;
  mi_cover : forall y a, 6 <= y < b -> pget pl y = Some a -> y_op a <> opFreed ->
             In y (rnodesl KT) \/ exists d, 1 <= d <= 5 /\ In y (rnodesl (M d));
  mi_top : forall y, b + N.of_nat (tszs ts) <= y -> pget pl y = None
}.

Definition MSpec (ts : list titem) : Prop :=
  forall KT M b off s g pl f R dpre dpost (Q : pres -> pstate -> Prop),
  Rep (p_tree s) g pl -> MInv g pl KT M b off ts ->
  p_handle s = h -> p_tables s = tbls -> data = dpre ++ enc_titems ts ++ dpost -> off = lenN dpre ->
  forallb titem_okb ts = true ->
  (4 <= R)%nat -> (3 * tszs ts + length ts + R <= f)%nat ->
  (forall t' g' pl' m', Rep t' g' pl' ->
     MInv g' pl' (KT ++ keep b off ts) (fun d => M d ++ moved b off ts d) (b + N.of_nat (tszs ts)) (off + lenN (enc_titems ts)) [] ->
     wp False (mergeScope_loop (f - length ts) InvalidIndex ROk)
        (with_counters (with_tree s t') (p_resolvePasses s) m' (p_relocatedObjects s)) Q) ->
  wp False (mergeScope_loop f (hd InvalidIndex (map ridx (tlay2 h tbl b off ts))) ROk) s Q.

Lemma mspec_nil : MSpec [].
Proof.
  intros KT M b off s g pl f R dpre dpost Q H I Hh Htb Hdata Hoff Hok HR Hf K.
  cbn [tlay2 map hd length tszs fold_right enc_titems flat_map keep moved] in *. rewrite Nat.sub_0_r in K.
  specialize (K (p_tree s) g pl (p_mergedScopes s) H).
  assert (E : with_counters (with_tree s (p_tree s)) (p_resolvePasses s) (p_mergedScopes s) (p_relocatedObjects s) = s) by (destruct s; reflexivity).
  rewrite E in K. apply K. change (lenN (@nil N)) with 0. rewrite !N.add_0_r, app_nil_r.
  destruct I as [I1 I2 I3 I4 I5 I6 I7 I8 I9 I10 I11 I12 I13]. constructor; auto.
  - intros d Hd. rewrite app_nil_r. apply I3. exact Hd.
  - intros d Hd. rewrite app_nil_r. apply I6. exact Hd.
  - intros d Hd. rewrite app_nil_r. apply I8. exact Hd.
  - intros d y Hd Hy. rewrite app_nil_r in Hy. apply (I10 d y Hd Hy).
  - intros y a Hy Ha Hl. destruct (I12 y a Hy Ha Hl) as [A|(d & Hd & A)]; [left; exact A|right; exists d; split; [exact Hd|rewrite app_nil_r; exact A]].
Qed.

Lemma lay2_item_single h' tbl' b off it : exists a ks, lay2_item h' tbl' b off it = [RN b a ks].
Proof. destruct it as [d|bk k seg fa body|lk seg fa ta|seg k n elems]; [cbn [lay2_item]|rewrite lay2_blk|cbn [lay2_item]|cbn [lay2_item]]; eauto. Qed.

Lemma MInv_ext g pl KT KT' M M' b b' off off' ts :
  KT = KT' -> (forall d, M d = M' d) -> b = b' -> off = off' -> MInv g pl KT M b off ts -> MInv g pl KT' M' b' off' ts.
Proof.
  intros -> HM -> -> [I1 I2 I3 I4 I5 I6 I7 I8 I9 I10 I11 I12 I13]. constructor; auto.
  - intros d Hd. rewrite <- HM. apply I3. exact Hd.
  - intros d Hd. rewrite <- HM. apply I6. exact Hd.
  - intros d Hd. rewrite <- HM. apply I8. exact Hd.
  - intros d y Hd Hy. rewrite <- HM in Hy. apply (I10 d y Hd Hy).
  - intros y a Hy Ha Hl. destruct (I12 y a Hy Ha Hl) as [A|(d & Hd & A)]; [left; exact A|right; exists d; split; [exact Hd|rewrite <- HM; exact A]].
Qed.

Lemma mspec_item it rest : MSpec rest -> MSpec (TItem it :: rest).
Proof.
  intros IH KT M b off s g pl f R dpre dpost Q H I Hh Htb Hdata Hoff Hok HR Hf K.
  cbn [forallb titem_okb] in Hok. apply andb_prop in Hok. destruct Hok as [Hit Hok].
  pose proof I as [I1 I2 I3 I4 I5 I6 I7 I8 I9 I10 I11 I12 I13].
  rewrite tlay2_cons in I1, I4 |- *. cbn [tlay2_item tsz enc_titem] in I1, I4 |- *.
  rewrite tszs_cons in Hf. cbn [tsz length] in Hf.
  rewrite enc_titems_cons in Hdata. cbn [enc_titem] in Hdata.
  destruct (lay2_item_single h tbl b off it) as (a & ks & Etree). rewrite Etree in I1, I4 |- *. cbn [app map ridx hd] in I1, I4 |- *.
  set (B' := b + N.of_nat (isz it)) in *. set (off' := off + lenN (enc_item it)) in *.
  pose proof (Forall_inv I4) as Dtree. pose proof (Forall_inv_tail I4) as Drest.
  destruct (Desc_inv _ _ _ _ _ Dtree) as (Pb & Kb & _).
  assert (Hnodes : forall y, In y (rnodes (RN b a ks)) -> b <= y < B').
  { intros y Hy. assert (Hy' : In y (rnodesl (lay2 h tbl b off [it]))) by (rewrite lay2_single, Etree; unfold rnodesl; cbn [flat_map]; rewrite app_nil_r; exact Hy).
    apply lay2_nodes in Hy'. cbn [iszs fold_right] in Hy'. unfold B'. lia. }
  assert (Hoktree : rallr f1_okE (RN b a ks)).
  { assert (Hl : Forall (rallr f1_okE) (lay2 h tbl b off [it])) by (apply lay2_ok; cbn [forallb]; rewrite Hit; reflexivity).
    rewrite lay2_single, Etree in Hl. apply (Forall_inv Hl). }
  assert (Hsize : rsize (RN b a ks) = isz it).
  { pose proof (lay2_rsizes h tbl [it] b off) as E. rewrite lay2_single, Etree in E. cbn [rsizes fold_right iszs] in E. lia. }
  destruct f as [|f1]; [lia|]. rewrite mergeScope_loop_S.
  assert (Hlb : y_op a <> opFreed) by (apply rallr_inv in Hoktree; destruct Hoktree as (Hk1 & _); exact (f1_okE_live _ _ _ Hk1)).
  rewrite (rep_not_Inv _ _ _ _ _ H Pb).
  apply wp_bind. eapply wp_objectAt_rep; [exact H|exact Pb|exact Hlb|].
  assert (Hk0 : kids g 0 = (D0' ++ map ridx KT) ++ b :: map ridx (tlay2 h tbl B' off' rest)) by (rewrite I1, <- !app_assoc; reflexivity).
  apply wp_bind. eapply (wp_rdf_sib False 0 (D0' ++ map ridx KT) b _); [exact H|exact Hk0|]. intros o _ _ _ Hnext _. rewrite Hnext.
  apply wp_bind. eapply (wp_rdf_sib False 0 (D0' ++ map ridx KT) b _); [exact H|exact Hk0|]. intros o' Hidx _ _ _ _. rewrite Hidx.
  (* the sub-tree of the item holds no Scope directive *)
  apply wp_bind. eapply wp_conseq.
  { apply (proj1 (mergeS_all g pl h (fun y => In y (rnodes (RN b a ks)))
                   (fun y c Hy Hc => Desc_kids_in g pl _ Dtree y c Hy Hc)
                   (fun y Hy => ltac:(pose proof (Hnodes y Hy); lia))
                   (fun y a' Hy Ha' _ => ltac:(destruct (rallr_lookup g pl f1_okE _ Dtree Hoktree y Hy) as (a2 & ks2 & D2 & O2);
                                                destruct (Desc_inv _ _ _ _ _ D2) as (P2 & _ & _); assert (a2 = a') by congruence; subst a2;
                                                exact (merge_ok_f1 h _ _ _ O2))) f1) b a s H Hh).
    - rewrite rnodes_eq. left. reflexivity.
    - exact Pb.
    - exact Hlb.
    - apply (fwalk_size g pl _ Dtree). rewrite Hsize. lia. }
  intros r s' (-> & ->). cbv iota.
  eapply (IH (KT ++ [RN b a ks]) M B' off' s g pl f1 R (dpre ++ enc_item it) dpost Q); [exact H| |exact Hh|exact Htb| | |exact Hok|exact HR|lia|].
  - constructor; auto.
    + rewrite I1, map_app. cbn [map ridx]. rewrite <- !app_assoc. reflexivity.
    + apply Forall_app. split; [exact I5|constructor; [exact Dtree|constructor]].
    + apply Forall_app. split; [exact I7|constructor; [exact Hoktree|constructor]].
    + intros y Hy. rewrite rnodesl_app in Hy. apply in_app_or in Hy. destruct Hy as [Hy|Hy].
      * pose proof (I9 y Hy). unfold B'. lia.
      * unfold rnodesl in Hy. cbn [flat_map] in Hy. rewrite app_nil_r in Hy. pose proof (Hnodes y Hy). lia.
    + intros d y Hd Hy. pose proof (I10 d y Hd Hy). unfold B'. lia.
    + unfold B'. lia.
    + intros y a' Hy Ha' Hl'. destruct (N.ltb_spec y b) as [Hlt|Hge].
      * destruct (I12 y a' ltac:(lia) Ha' Hl') as [A|A]; [left; rewrite rnodesl_app; apply in_or_app; left; exact A|right; exact A].
      * left. rewrite rnodesl_app. apply in_or_app. right.
        assert (Hin : In y (rnodesl (lay2 h tbl b off [it]))) by (apply lay2_nodes_all; cbn [iszs fold_right]; unfold B' in Hy; lia).
        rewrite lay2_single, Etree in Hin. exact Hin.
    + intros y Hy. apply I13. rewrite tszs_cons. cbn [tsz]. unfold B' in Hy. lia.
  - rewrite Hdata, <- !app_assoc. reflexivity.
  - unfold off'. rewrite Hoff. symmetry. apply lenN_app.
  - intros t' g' pl' m' H' I'. replace (f1 - length rest)%nat with (S f1 - length (TItem it :: rest))%nat by (cbn [length]; lia).
    apply (K t' g' pl' m' H'). revert I'. apply MInv_ext.
    + cbn [keep]. rewrite Etree. fold B' off'. rewrite <- app_assoc. reflexivity.
    + intros d. cbn [moved app tsz enc_titem]. reflexivity.
    + rewrite tszs_cons. cbn [tsz]. unfold B'. lia.
    + rewrite enc_titems_cons, lenN_app. cbn [enc_titem]. unfold off'. lia.
Qed.

Lemma forest_kids_in g pl l : Forall (Desc g pl) l -> forall y c, In y (rnodesl l) -> In c (kids g y) -> In c (rnodesl l).
Proof.
  intros HD y c Hy Hc. unfold rnodesl in *. apply in_flat_map in Hy. destruct Hy as (r & Hr & Hyr).
  apply in_flat_map. exists r. split; [exact Hr|]. rewrite Forall_forall in HD. eapply Desc_kids_in; eauto.
Qed.

Lemma forest_lookup g pl l : Forall (Desc g pl) l -> Forall (rallr f1_okE) l -> forall y, In y (rnodesl l) ->
  exists a ks, Desc g pl (RN y a ks) /\ f1_okE (RN y a ks).
Proof.
  intros HD HO y Hy. unfold rnodesl in Hy. apply in_flat_map in Hy. destruct Hy as (r & Hr & Hyr).
  rewrite Forall_forall in HD, HO. apply (rallr_lookup g pl f1_okE r (HD r Hr) (HO r Hr) y Hyr).
Qed.

Lemma mspec_scope k root d body rest : MSpec rest -> MSpec (TScope k root d body :: rest).
Proof.
  intros IH KT M b off s g pl f R dpre dpost Q H I Hh Htb Hdata Hoff Hok HR Hf K.
  cbn [forallb titem_okb] in Hok. apply andb_prop in Hok. destruct Hok as [Hd_ok Hok].
  apply andb_prop in Hd_ok. destruct Hd_ok as [Hx Hbody_ok]. apply andb_prop in Hx. destruct Hx as [Hx Hpk].
  apply andb_prop in Hx. destruct Hx as [Hd1 Hd5]. apply N.leb_le in Hd1. apply N.leb_le in Hd5. apply pkglen_okb_adm in Hpk.
  pose proof I as [I1 I2 I3 I4 I5 I6 I7 I8 I9 I10 I11 I12 I13].
  rewrite tlay2_cons in I1, I4. cbn [tlay2_item tsz enc_titem] in I1, I4. cbn [app map ridx] in I1.
  rewrite tszs_cons in Hf. cbn [tsz length] in Hf.
  rewrite enc_titems_cons in Hdata. cbn [enc_titem] in Hdata.
  set (nl := sc_len root) in *. set (seg := dseg d) in *. unfold sc_body in *. fold seg in Hdata, Hpk, I1, I4.
  set (v := k + lenN (enc_name (sc_name root seg) ++ enc_items body)) in *.
  pose proof (lenN_enc_pkglen k v Hpk) as Hlk.
  set (off1 := off + 1 + k + nl) in *.
  set (B' := b + N.of_nat (3 + iszs body)) in *.
  set (off' := off + lenN (enc_op OP_SCOPE ++ enc_pkglen k v ++ enc_name (sc_name root seg) ++ enc_items body)) in *.
  assert (Hnl : 4 <= nl <= 5) by (unfold nl, sc_len; destruct root; lia).
  pose proof (Forall_inv I4) as DD. pose proof (Forall_inv_tail I4) as Drest.
  destruct (Desc_inv _ _ _ _ _ DD) as (PD & KD & HD2). cbn [map ridx] in KD.
  pose proof (Forall_inv HD2) as DP. pose proof (Forall_inv (Forall_inv_tail HD2)) as DS. clear HD2.
  destruct (Desc_inv _ _ _ _ _ DP) as (PP & KP & _). destruct (Desc_inv _ _ _ _ _ DS) as (PS & KS & HDbody). cbn [map] in KP.
  set (ms := map ridx (lay2 h tbl (b + 3) off1 body)) in *.
  set (l1 := D0' ++ map ridx KT). set (l2 := map ridx (tlay2 h tbl B' off' rest)) in *.
  assert (Hk0 : kids g 0 = l1 ++ b :: l2) by (rewrite I1; unfold l1; rewrite <- !app_assoc; reflexivity).
  assert (Hbody_nodes : forall y, In y (rnodesl (lay2 h tbl (b + 3) off1 body)) -> b + 3 <= y < B').
  { intros y Hy. apply lay2_nodes in Hy. unfold B'. lia. }
  assert (Hbody_okf : Forall (rallr f1_okE) (lay2 h tbl (b + 3) off1 body)) by (apply lay2_ok; exact Hbody_ok).
  destruct f as [|f1]; [lia|]. rewrite tlay2_cons. cbn [tlay2_item app map ridx hd]. rewrite mergeScope_loop_S.
  rewrite (rep_not_Inv _ _ _ _ _ H PD).
  apply wp_bind. eapply wp_objectAt_rep; [exact H|exact PD|discriminate|].
  apply wp_bind. eapply (wp_rdf_sib False 0 l1 b l2); [exact H|exact Hk0|]. intros o _ _ _ Hnext _. rewrite Hnext.
  apply wp_bind. eapply (wp_rdf_sib False 0 l1 b l2); [exact H|exact Hk0|]. intros o' Hidx _ _ _ _. rewrite Hidx.
  (* the directive is merged *)
  destruct f1 as [|f2]; [lia|].
  assert (Hsl : slice_bytes s tbl (mkSlice (Some (off + 1 + k)) nl) = Ok (enc_name (sc_name root seg))).
  { replace (off + 1 + k) with (lenN (dpre ++ enc_op OP_SCOPE ++ enc_pkglen k v)).
    2:{ rewrite !lenN_app, Hlk, Hoff. change (lenN (enc_op OP_SCOPE)) with 1. lia. }
    replace nl with (lenN (enc_name (sc_name root seg))) by (apply lenN_sc_name).
    eapply (slice_at_n _ tbls tbl data _ _ (enc_items body ++ enc_titems rest ++ dpost)); [exact Htb|exact Hnth| |rewrite lenN_sc_name; fold nl; lia].
    rewrite Hdata, <- !app_assoc. reflexivity. }
  assert (HFind : Find (p_tree s) 0 (enc_name (sc_name root seg)) = Ok d).
  { eapply (Find_default _ g pl root d (map ridx KT ++ b :: l2)); [exact H|lia|rewrite Hk0; unfold l1; rewrite <- app_assoc; reflexivity|exact I2]. }
  apply wp_bind.
  eapply (merge_scope f2 h b (b + 1) (b + 2) d ms (map ridx (M d)) l1 l2 (enc_name (sc_name root seg)) tbl (mkSlice (Some (off + 1 + k)) nl) s g pl
            (dpay 0) (scp_pay h off) (pthn_pay h tbl (off + 1 + k) nl) (sb_pay h off1) (dpay d));
    [exact H|exact Hh|exact Hk0|exact KD|exact KP|exact KS|apply I3; lia|apply I2; lia|discriminate|exact PD|reflexivity|reflexivity|reflexivity
    |exact PP|discriminate|reflexivity|exact Hsl|exact PS|discriminate|apply I2; lia|reflexivity| |lia|lia|lia|lia|lia|lia|lia|lia|lia|lia|exact HFind| |].
  { unfold l1, D0'. apply in_or_app. left. cbn [In]. lia. }
  { intros m Hm Hdesc. unfold ms in Hm. apply in_map_iff in Hm. destruct Hm as (r & <- & Hr).
    rewrite Forall_forall in HDbody. pose proof (desc_in_tree g pl r (HDbody r Hr) d Hdesc) as Hin.
    assert (Hin' : In d (rnodesl (lay2 h tbl (b + 3) off1 body))) by (unfold rnodesl; apply in_flat_map; exists r; auto).
    apply Hbody_nodes in Hin'. lia. }
  intros t1 g1 H1 L1 F1 K1.
  set (pl1 := pupd (pupd (pupd pl (b + 1) FR) (b + 2) FR) b FR) in *.
  assert (Hp1 : forall y, y <> b -> y <> b + 1 -> y <> b + 2 -> pget pl1 y = pget pl y).
  { intros y A B C. unfold pl1. rewrite !pget_pupd. apply N.eqb_neq in A, B, C. rewrite A, B, C. reflexivity. }
  assert (Hk1 : forall y, y <> d -> y <> 0 -> y <> b -> y <> b + 1 -> y <> b + 2 -> kids g1 y = kids g y).
  { intros y A B C D E. rewrite K1. apply N.eqb_neq in A, B, C, D, E. rewrite A, B, C, D, E. reflexivity. }
  assert (Hframe : forall l, Forall (Desc g pl) l -> (forall y, In y (rnodesl l) -> 6 <= y /\ (y < b \/ b + 3 <= y)) -> Forall (Desc g1 pl1) l).
  { intros l HDl Hl. apply (Desc_frame_l g pl); [exact HDl|]. intros y Hy. destruct (Hl y Hy) as (A & B).
    split; [apply Hk1; lia|apply Hp1; lia]. }
  assert (HDbody1 : Forall (Desc g1 pl1) (lay2 h tbl (b + 3) off1 body)).
  { apply Hframe; [exact HDbody|]. intros y Hy. apply Hbody_nodes in Hy. lia. }
  (* the walk goes on over the moved objects *)
  set (s1 := with_counters (with_tree s t1) (p_resolvePasses s) (w32 (p_mergedScopes s + 1)) (p_relocatedObjects s)).
  assert (Hkd1 : kids g1 d = map ridx (M d) ++ ms).
  { rewrite K1, N.eqb_refl. reflexivity. }
  eapply wp_conseq.
  { apply (proj2 (mergeS_all g1 pl1 h (fun y => In y (rnodesl (lay2 h tbl (b + 3) off1 body)))
                   (fun y c Hy Hc => forest_kids_in g1 pl1 _ HDbody1 y c Hy Hc)
                   (fun y Hy => ltac:(pose proof (Hbody_nodes y Hy); lia))
                   (fun y a' Hy Ha' _ => ltac:(destruct (forest_lookup g1 pl1 _ HDbody1 Hbody_okf y Hy) as (a2 & ks2 & D2 & O2);
                                                destruct (Desc_inv _ _ _ _ _ D2) as (P2 & _ & _); assert (a2 = a') by congruence; subst a2;
                                                exact (merge_ok_f1 h _ _ _ O2))) f2) d (map ridx (M d)) ms ROk s1 H1 Hh Hkd1).
    - intros c Hc. unfold ms in Hc. apply in_map_iff in Hc. destruct Hc as (r & <- & Hr). unfold rnodesl. apply in_flat_map.
      exists r. split; [exact Hr|]. destruct r. rewrite rnodes_eq. left. reflexivity.
    - apply (floop_size g1 pl1 _ _ HDbody1). rewrite lay2_rsizes. lia. }
  intros r s' (-> & ->). cbv iota.
  (* the remaining items *)
  set (M' := fun d' => if d' =? d then M d ++ lay2 h tbl (b + 3) off1 body else M d').
  eapply (IH KT M' B' off' s1 g1 pl1 (S f2) R (dpre ++ enc_op OP_SCOPE ++ enc_pkglen k v ++ enc_name (sc_name root seg) ++ enc_items body) dpost Q);
    [exact H1| |exact Hh|exact Htb| | |exact Hok|exact HR|lia|].
  - constructor.
    + rewrite K1. destruct (N.eqb_spec 0 d); [lia|]. rewrite N.eqb_refl. unfold l1, l2. rewrite <- app_assoc. reflexivity.
    + intros i Hi. rewrite Hp1 by lia. apply I2. exact Hi.
    + intros d' Hd'. unfold M'. destruct (N.eqb_spec d' d) as [->|Hne]; [rewrite Hkd1, map_app; reflexivity|].
      rewrite Hk1 by lia. apply I3. exact Hd'.
    + apply Hframe; [exact Drest|]. intros y Hy. apply tlay2_nodes in Hy. unfold B' in Hy. lia.
    + apply Hframe; [exact I5|]. intros y Hy. pose proof (I9 y Hy). lia.
    + intros d' Hd'. unfold M'. destruct (N.eqb_spec d' d) as [->|Hne].
      * apply Forall_app. split; [|exact HDbody1]. apply Hframe; [apply I6; lia|]. intros y Hy. pose proof (I10 d y ltac:(lia) Hy). lia.
      * apply Hframe; [apply I6; exact Hd'|]. intros y Hy. pose proof (I10 d' y Hd' Hy). lia.
    + exact I7.
    + intros d' Hd'. unfold M'. destruct (N.eqb_spec d' d) as [->|Hne]; [apply Forall_app; split; [apply I8; lia|exact Hbody_okf]|apply I8; exact Hd'].
    + intros y Hy. pose proof (I9 y Hy). unfold B'. lia.
    + intros d' y Hd' Hy. unfold M' in Hy. destruct (N.eqb_spec d' d) as [->|Hne].
      * rewrite rnodesl_app in Hy. apply in_app_or in Hy. destruct Hy as [Hy|Hy]; [pose proof (I10 d y ltac:(lia) Hy); unfold B'; lia|apply Hbody_nodes in Hy; lia].
      * pose proof (I10 d' y Hd' Hy). unfold B'. lia.
    + unfold B'. lia.
    + intros y a' Hy Ha' Hl'.
      destruct (N.ltb_spec y b) as [Hlt|Hge].
      * rewrite Hp1 in Ha' by lia. destruct (I12 y a' ltac:(lia) Ha' Hl') as [A|(d' & Hd' & A)]; [left; exact A|right].
        exists d'. split; [exact Hd'|]. unfold M'. destruct (N.eqb_spec d' d) as [->|]; [rewrite rnodesl_app; apply in_or_app; left; exact A|exact A].
      * destruct (N.ltb_spec y (b + 3)) as [Hlt3|Hge3].
        -- exfalso. apply Hl'. unfold pl1 in Ha'. rewrite !pget_pupd in Ha'.
           assert (Hc : y = b \/ y = b + 1 \/ y = b + 2) by lia.
           destruct Hc as [-> | [-> | ->]].
           ++ rewrite N.eqb_refl in Ha'. destruct (N.eqb_spec b (b + 2)); [lia|]. destruct (N.eqb_spec b (b + 1)); [lia|].
              rewrite PD in Ha'. cbn [option_map] in Ha'. inversion Ha'. reflexivity.
           ++ destruct (N.eqb_spec (b + 1) b); [lia|]. destruct (N.eqb_spec (b + 1) (b + 2)); [lia|]. rewrite N.eqb_refl in Ha'.
              rewrite PP in Ha'. cbn [option_map] in Ha'. inversion Ha'. reflexivity.
           ++ destruct (N.eqb_spec (b + 2) b); [lia|]. rewrite N.eqb_refl in Ha'. destruct (N.eqb_spec (b + 2) (b + 1)); [lia|].
              rewrite PS in Ha'. cbn [option_map] in Ha'. inversion Ha'. reflexivity.
        -- right. exists d. split; [lia|]. unfold M'. rewrite N.eqb_refl, rnodesl_app. apply in_or_app. right.
           apply lay2_nodes_all. unfold B' in Hy. lia.
    + intros y Hy. rewrite Hp1 by (unfold B' in Hy; lia). apply I13. rewrite tszs_cons. cbn [tsz]. unfold B' in Hy. lia.
  - rewrite Hdata, <- !app_assoc. reflexivity.
  - unfold off'. rewrite Hoff. symmetry. apply lenN_app.
  - intros t' g' pl' m' H' I'. replace (S f2 - length rest)%nat with (S (S f2) - length (TScope k root d body :: rest))%nat by (cbn [length]; lia).
    apply (K t' g' pl' m' H'). revert I'. apply MInv_ext.
    + cbn [keep app tsz enc_titem]. unfold sc_body. fold seg v B' off'. reflexivity.
    + intros d'. cbn [moved tsz enc_titem]. unfold sc_body. fold seg v nl off1 B' off'. unfold M'.
      rewrite (N.eqb_sym d d'). destruct (N.eqb_spec d' d) as [->|Hne]; [rewrite <- app_assoc; reflexivity|reflexivity].
    + rewrite tszs_cons. cbn [tsz]. unfold B'. lia.
    + rewrite enc_titems_cons, lenN_app. cbn [enc_titem]. unfold sc_body. fold seg v. unfold off'. lia.
Qed.

Theorem mspec_all : forall ts, MSpec ts.
Proof.
  induction ts as [|[it|k root d body] rest IH].
  - apply mspec_nil.
  - apply mspec_item. exact IH.
  - apply mspec_scope. exact IH.
Qed.
End MergeTop.
