(** C12 (stretch): tree-level lemmas for the passes that move objects around (connectNamedObjArgs):
    the payload frame of [detach]; an object is never a descendant of one of its children (and siblings
    are not descendants of each other); rearrangements confined to a set of objects that is closed under
    taking children ([reloc]). *)
From Coq Require Import NArith Arith List Bool Lia.
From Coq Require Import ZifyBool ZifyN ZifyNat.
From FF Require Import Lib.Word Gen.Consts_aml_tree Aml.Stream Aml.Tree Aml.TreeSpec Aml.TreeProofs Aml.TreeProofsOps
  Aml.ParserTotalTree.
Import ListNotations.
Local Open Scope N_scope.

(** ---- detach keeps the payload ---- *)
Ltac pf_step2 :=
  match goal with
  | H : Ok _ = Ok _ |- _ => inversion H; subst; clear H
  | H : bind (wr ?t ?p ?f) _ = Ok _ |- _ =>
      let t1 := fresh "t" in let H1 := fresh "W" in let H2 := fresh "K" in
      apply bind_ok in H; destruct H as (t1 & H1 & H2);
      apply pframe_wr in H1; [|auto with ps]
  | H : bind _ _ = Ok _ |- _ =>
      let a := fresh "a" in let H1 := fresh "B" in let H2 := fresh "K" in
      apply bind_ok in H; destruct H as (a & H1 & H2)
  | H : (if ?c then _ else _) = Ok _ |- _ => destruct c
  | H : wr ?t ?p ?f = Ok _ |- _ => apply pframe_wr in H; [|auto with ps]
  end.

Lemma detach_pframe {V} (t t' : ObjectTree V) o a : detach t o a = Ok t' -> pframe t t'.
Proof. unfold detach. intros H. repeat pf_step2; pf_close. Qed.

Lemma detach_full {V} (t : ObjectTree V) g o a :
  R t g -> In a (kids g o) ->
  exists t', detach t o a = Ok t' /\ R t' (astep g (OpDetach o a)) /\ pframe t t'.
Proof.
  intros HR Hin. destruct (detach_R t g o a HR Hin) as (t' & E & HR').
  exists t'. split; auto. split; auto. eapply detach_pframe; eauto.
Qed.

Lemma append_full2 {V} (t : ObjectTree V) g o a :
  R t g -> glive g o -> glive g a -> groot g a -> ~ desc g a o ->
  exists t', append t o a = Ok t' /\ R t' (astep g (OpAppend o a)) /\ pframe t t'.
Proof.
  intros HR H1 H2 H3 H4. destruct (append_R t g o a HR) as (t' & E & HR'); [cbn [legal]; auto|].
  exists t'. split; auto. split; auto. eapply append_pframe; eauto.
Qed.

(** ---- depth and descendants ---- *)
Lemma desc_mono g1 g a x : (forall p c, In c (kids g1 p) -> In c (kids g p)) -> desc g1 a x -> desc g a x.
Proof. intros H Hd. induction Hd as [|p c Hd IH Hin]; [constructor|]. eapply desc_step; eauto. Qed.

Section Depth.
Context {V : Type} (t : ObjectTree V) (g : ghost) (HR : R t g).

Lemma child_depth p c k : In c (kids g p) -> Depth t p k -> Depth t c (S k).
Proof.
  intros Hin Hd. destruct (R_In_kids t g HR _ _ Hin) as ((po & Hp & Hlp) & co & Hc & Hlc & Hpar).
  eapply Depth_step; eauto; rewrite Hpar; [eapply (R_pos_not_Inv t g HR); eauto|exact Hd].
Qed.

Lemma desc_depth a x : desc g a x -> forall ka, Depth t a ka -> exists kx, Depth t x kx /\ (ka <= kx)%nat /\ (ka = kx -> x = a).
Proof.
  intros Hd. induction Hd as [|p c Hd IH Hin]; intros ka Ha.
  - exists ka. split; auto.
  - destruct (IH ka Ha) as (kp & Hp & Hle & _). exists (S kp). split; [eapply child_depth; eauto|]. split; lia.
Qed.

Lemma live_depth x : glive g x -> exists k, Depth t x k.
Proof. intros Hl. apply (R_live_glive t g HR) in Hl. destruct Hl as (o & Hg & Ho). eapply R_acyc; eauto. Qed.

(** an object is not a descendant of its child *)
Lemma child_not_desc p c : In c (kids g p) -> ~ desc g c p.
Proof.
  intros Hin Hd. destruct (R_In_kids t g HR _ _ Hin) as ((po & Hp & Hlp) & _).
  destruct (R_acyc _ _ HR _ _ Hp Hlp) as (k & Hk).
  pose proof (child_depth _ _ _ Hin Hk) as Hc.
  destruct (desc_depth _ _ Hd _ Hc) as (k' & Hk' & Hle & _).
  pose proof (Depth_fun _ _ _ Hk _ Hk'). lia.
Qed.

(** two children of the same object are not descendants of each other *)
Lemma sibling_not_desc p a b : In a (kids g p) -> In b (kids g p) -> desc g a b -> b = a.
Proof.
  intros Ha Hb Hd. destruct (R_In_kids t g HR _ _ Ha) as ((po & Hp & Hlp) & _).
  destruct (R_acyc _ _ HR _ _ Hp Hlp) as (k & Hk).
  pose proof (child_depth _ _ _ Ha Hk) as Hda. pose proof (child_depth _ _ _ Hb Hk) as Hdb.
  destruct (desc_depth _ _ Hd _ Hda) as (k' & Hk' & Hle & Heq).
  pose proof (Depth_fun _ _ _ Hdb _ Hk'). apply Heq. lia.
Qed.

(** the previous sibling of a child is a child too *)
Lemma chain_prev_in p pv l nx c : chain t p pv l nx -> In c l ->
  exists o, get t c = Some o /\ (o_prev o = pv \/ In (o_prev o) l).
Proof.
  revert pv. induction l as [|x l IH]; intros pv Hc Hin; [contradiction|].
  cbn [chain] in Hc. destruct Hc as ((o & Hg & _ & _ & Hpv & _) & Hrest). destruct Hin as [->|Hin].
  - exists o. split; auto.
  - destruct (IH x Hrest Hin) as (o' & Hg' & [E|E]); exists o'; split; auto; right; [rewrite E; left; reflexivity|right; exact E].
Qed.

Lemma prev_sibling p c co : In c (kids g p) -> get t c = Some co ->
  o_prev co = InvalidIndex \/ In (o_prev co) (kids g p).
Proof.
  intros Hin Hc. destruct (R_In_kids t g HR _ _ Hin) as ((po & Hp & Hlp) & _).
  destruct (R_kids _ _ HR _ _ Hp Hlp) as (_ & _ & Hch & _).
  destruct (chain_prev_in _ _ _ _ _ Hch Hin) as (o & Hg & E). assert (o = co) by congruence. subst o. exact E.
Qed.
End Depth.

(** ---- rearrangements inside a set of objects ---- *)
Definition closed (g : ghost) (S : N -> Prop) : Prop := forall y c, S y -> In c (kids g y) -> S c.

Record reloc (g g' : ghost) (S : N -> Prop) : Prop := mkReloc {
  rl_len : length (g_kids g') = length (g_kids g);
  rl_free : g_free g' = g_free g;
  rl_out : forall y, ~ S y -> kids g' y = kids g y;
  rl_kids : forall y c, In c (kids g' y) -> In c (kids g y) \/ (S y /\ S c)
}.

Lemma reloc_refl g S : reloc g g S.
Proof. constructor; auto. Qed.

Lemma reloc_trans g0 g1 g2 S : reloc g0 g1 S -> reloc g1 g2 S -> reloc g0 g2 S.
Proof.
  intros [A1 A2 A3 A4] [B1 B2 B3 B4]. constructor; [congruence|congruence| |].
  - intros y Hy. rewrite B3, A3; auto.
  - intros y c Hin. destruct (B4 _ _ Hin) as [H|H]; auto.
Qed.

Lemma reloc_glive g g' S x : reloc g g' S -> (glive g x <-> glive g' x).
Proof. intros [A1 A2 _ _]. unfold glive. rewrite A1, A2. tauto. Qed.

Lemma closed_desc g x : closed g (desc g x).
Proof. intros y c Hy Hin. eapply desc_step; eauto. Qed.

Lemma desc_in_closed g S p y : closed g S -> S p -> desc g p y -> S y.
Proof. intros Hc Hp Hd. induction Hd as [|q c Hd IH Hin]; auto. eapply Hc; eauto. Qed.

Lemma reloc_closed g g' S : closed g S -> reloc g g' S -> closed g' S.
Proof. intros Hc [_ _ _ A4] y c Hy Hin. destruct (A4 _ _ Hin) as [H|(_ & H)]; auto. eapply Hc; eauto. Qed.

(** a rearrangement inside a smaller set is one inside a bigger set *)
Lemma reloc_lift g g' (S1 S2 : N -> Prop) : (forall y, S1 y -> S2 y) -> reloc g g' S1 -> reloc g g' S2.
Proof.
  intros Hsub [A1 A2 A3 A4]. constructor; [exact A1|exact A2| |].
  - intros y Hy. apply A3. intros H1. apply Hy. apply Hsub. exact H1.
  - intros y c Hin. destruct (A4 _ _ Hin) as [H|(H1 & H2)]; auto.
Qed.

(** the two edits of attachSiblingsAsArgs *)
Lemma reloc_detach g o a (S : N -> Prop) : o < N.of_nat (length (g_kids g)) -> S o -> reloc g (astep g (OpDetach o a)) S.
Proof.
  intros Ho HS. cbn [astep]. constructor; [apply set_kids_len|apply set_kids_free| |].
  - intros y Hy. rewrite kids_set_kids by auto. destruct (N.eqb_spec y o) as [->|Hne]; [contradiction|reflexivity].
  - intros y c. rewrite kids_set_kids by auto. destruct (N.eqb_spec y o) as [->|Hne]; auto.
    intros Hin. left. clear -Hin. induction (kids g o) as [|x l IH]; cbn [remove1] in Hin; [contradiction|].
    destruct (x =? a); [right; exact Hin|]. destruct Hin as [->|Hin]; [left; reflexivity|right; auto].
Qed.

Lemma reloc_append g o a (S : N -> Prop) : o < N.of_nat (length (g_kids g)) -> S o -> S a -> reloc g (astep g (OpAppend o a)) S.
Proof.
  intros Ho HS Ha. cbn [astep]. constructor; [apply set_kids_len|apply set_kids_free| |].
  - intros y Hy. rewrite kids_set_kids by auto. destruct (N.eqb_spec y o) as [->|Hne]; [contradiction|reflexivity].
  - intros y c. rewrite kids_set_kids by auto. destruct (N.eqb_spec y o) as [->|Hne]; auto.
    intros Hin. apply in_app_or in Hin. destruct Hin as [Hin|[<-|[]]]; auto.
Qed.

Lemma remove1_In a l x : In x (remove1 a l) -> In x l.
Proof.
  induction l as [|y l IH]; cbn [remove1]; [tauto|].
  destruct (y =? a); [intros H; right; exact H|]. intros [->|H]; [left; reflexivity|right; auto].
Qed.

(** ---- links of an object at a known position of its parent's child list ---- *)
Section Links.
Context {V : Type} (t : ObjectTree V) (g : ghost) (HR : R t g).

Lemma sibling_links p l1 c l2 : glive g p -> kids g p = l1 ++ c :: l2 ->
  exists o, get t c = Some o /\ o_opcode o <> opFreed /\ o_parent o = p /\
            o_prev o = last l1 InvalidIndex /\ o_next o = hd InvalidIndex l2 /\ o_index o = c.
Proof.
  intros Hl Hk. apply (R_live_glive t g HR) in Hl. destruct Hl as (po & Hpo & Hlpo).
  destruct (R_kids _ _ HR _ _ Hpo Hlpo) as (_ & _ & Hch & _). rewrite Hk in Hch.
  destruct (chain_mid _ _ _ _ _ Hch) as (o & Ho & Hlo & Hp & Hpv & Hnx).
  exists o. repeat split; auto. apply (R_index _ _ HR _ _ Ho).
Qed.

Lemma root_links x : glive g x -> groot g x ->
  exists o, get t x = Some o /\ o_opcode o <> opFreed /\ o_parent o = InvalidIndex /\ o_next o = InvalidIndex.
Proof.
  intros Hl Hr. apply (R_live_glive t g HR) in Hl. destruct Hl as (o & Ho & Hlo).
  pose proof (proj1 (R_groot t g HR x o Ho Hlo) Hr) as Hp.
  pose proof (R_up _ _ HR _ _ Ho Hlo) as Hup. rewrite Hp, N.eqb_refl in Hup. destruct Hup as (_ & Hn).
  exists o. auto.
Qed.

Lemma live_root_or_child x : glive g x -> groot g x \/ exists p, In x (kids g p).
Proof.
  intros Hl. apply (R_live_glive t g HR) in Hl. destruct Hl as (o & Ho & Hlo).
  destruct (N.eqb_spec (o_parent o) InvalidIndex) as [E|E].
  - left. apply (R_groot t g HR x o Ho Hlo). exact E.
  - right. exists (o_parent o). apply (R_parent_live t g HR x o Ho Hlo E).
Qed.

(** a descendant one level below is a child *)
Lemma desc_one_level a x ka : desc g a x -> Depth t a ka -> Depth t x (S ka) -> In x (kids g a).
Proof.
  intros Hd Ha Hx. destruct Hd as [|p c Hd Hin].
  - pose proof (Depth_fun _ _ _ Ha _ Hx). lia.
  - destruct (desc_depth t g HR _ _ Hd _ Ha) as (kp & Hkp & Hle & Heq).
    pose proof (child_depth t g HR _ _ _ Hin Hkp) as Hc. pose proof (Depth_fun _ _ _ Hx _ Hc) as E.
    assert (p = a) by (apply Heq; lia). subst p. exact Hin.
Qed.

(** a sibling of the parent is not an ancestor *)
Lemma uncle_not_desc gp p u x : In p (kids g gp) -> In u (kids g gp) -> u <> p -> In x (kids g p) -> ~ desc g u x.
Proof.
  intros Hp Hu Hne Hx Hd.
  destruct (R_In_kids t g HR _ _ Hp) as ((gpo & Hgp & Hlgp) & _).
  destruct (R_acyc _ _ HR _ _ Hgp Hlgp) as (k & Hk).
  pose proof (child_depth t g HR _ _ _ Hp Hk) as Hdp. pose proof (child_depth t g HR _ _ _ Hu Hk) as Hdu.
  pose proof (child_depth t g HR _ _ _ Hx Hdp) as Hdx.
  pose proof (desc_one_level u x (S k) Hd Hdu Hdx) as Hin.
  apply Hne. eapply (R_parent_unique t g HR); eauto.
Qed.
End Links.
