(** C12 (stretch): tree-level lemmas for the passes that move objects around (connectNamedObjArgs):
    the payload frame of [detach]; an object is never a descendant of one of its children (and siblings
    are not descendants of each other); rearrangements confined to a set of objects that is closed under
    taking children ([reloc]). *)
From Coq Require Import NArith Arith List Bool Lia.
From Coq Require Import ZifyBool ZifyN ZifyNat.
From FF Require Import Lib.Word Gen.Consts_aml_tree Aml.Stream Aml.Tree Aml.TreeSpec Aml.TreeProofs Aml.TreeProofsOps
  Aml.ParserTotalTree.
Import ListNotations.
Local Open Scope N_scope.

(** ---- detach keeps the payload ---- *)
Ltac pf_step2 :=
  match goal with
  | H : Ok _ = Ok _ |- _ => inversion H; subst; clear H
  | H : bind (wr ?t ?p ?f) _ = Ok _ |- _ =>
      let t1 := fresh "t" in let H1 := fresh "W" in let H2 := fresh "K" in
      apply bind_ok in H; destruct H as (t1 & H1 & H2);
      apply pframe_wr in H1; [|auto with ps]
  | H : bind _ _ = Ok _ |- _ =>
      let a := fresh "a" in let H1 := fresh "B" in let H2 := fresh "K" in
      apply bind_ok in H; destruct H as (a & H1 & H2)
  | H : (if ?c then _ else _) = Ok _ |- _ => destruct c
  | H : wr ?t ?p ?f = Ok _ |- _ => apply pframe_wr in H; [|auto with ps]
  end.

Lemma detach_pframe {V} (t t' : ObjectTree V) o a : detach t o a = Ok t' -> pframe t t'.
Proof. unfold detach. intros H. repeat pf_step2; pf_close. Qed.

Lemma detach_full {V} (t : ObjectTree V) g o a :
  R t g -> In a (kids g o) ->
  exists t', detach t o a = Ok t' /\ R t' (astep g (OpDetach o a)) /\ pframe t t'.
Proof.
  intros HR Hin. destruct (detach_R t g o a HR Hin) as (t' & E & HR').
  exists t'. split; auto. split; auto. eapply detach_pframe; eauto.
Qed.

Lemma append_full2 {V} (t : ObjectTree V) g o a :
  R t g -> glive g o -> glive g a -> groot g a -> ~ desc g a o ->
  exists t', append t o a = Ok t' /\ R t' (astep g (OpAppend o a)) /\ pframe t t'.
Proof.
  intros HR H1 H2 H3 H4. destruct (append_R t g o a HR) as (t' & E & HR'); [cbn [legal]; auto|].
  exists t'. split; auto. split; auto. eapply append_pframe; eauto.
Qed.

(** ---- depth and descendants ---- *)
Lemma desc_mono g1 g a x : (forall p c, In c (kids g1 p) -> In c (kids g p)) -> desc g1 a x -> desc g a x.
Proof. intros H Hd. induction Hd as [|p c Hd IH Hin]; [constructor|]. eapply desc_step; eauto. Qed.

Section Depth.
Context {V : Type} (t : ObjectTree V) (g : ghost) (HR : R t g).

Lemma child_depth p c k : In c (kids g p) -> Depth t p k -> Depth t c (S k).
Proof.
  intros Hin Hd. destruct (R_In_kids t g HR _ _ Hin) as ((po & Hp & Hlp) & co & Hc & Hlc & Hpar).
  eapply Depth_step; eauto; rewrite Hpar; [eapply (R_pos_not_Inv t g HR); eauto|exact Hd].
Qed.

Lemma desc_depth a x : desc g a x -> forall ka, Depth t a ka -> exists kx, Depth t x kx /\ (ka <= kx)%nat /\ (ka = kx -> x = a).
Proof.
  intros Hd. induction Hd as [|p c Hd IH Hin]; intros ka Ha.
  - exists ka. split; auto.
  - destruct (IH ka Ha) as (kp & Hp & Hle & _). exists (S kp). split; [eapply child_depth; eauto|]. split; lia.
Qed.

Lemma live_depth x : glive g x -> exists k, Depth t x k.
Proof. intros Hl. apply (R_live_glive t g HR) in Hl. destruct Hl as (o & Hg & Ho). eapply R_acyc; eauto. Qed.

(** an object is not a descendant of its child *)
Lemma child_not_desc p c : In c (kids g p) -> ~ desc g c p.
Proof.
  intros Hin Hd. destruct (R_In_kids t g HR _ _ Hin) as ((po & Hp & Hlp) & _).
  destruct (R_acyc _ _ HR _ _ Hp Hlp) as (k & Hk).
  pose proof (child_depth _ _ _ Hin Hk) as Hc.
  destruct (desc_depth _ _ Hd _ Hc) as (k' & Hk' & Hle & _).
  pose proof (Depth_fun _ _ _ Hk _ Hk'). lia.
Qed.

(** two children of the same object are not descendants of each other *)
Lemma sibling_not_desc p a b : In a (kids g p) -> In b (kids g p) -> desc g a b -> b = a.
Proof.
  intros Ha Hb Hd. destruct (R_In_kids t g HR _ _ Ha) as ((po & Hp & Hlp) & _).
  destruct (R_acyc _ _ HR _ _ Hp Hlp) as (k & Hk).
  pose proof (child_depth _ _ _ Ha Hk) as Hda. pose proof (child_depth _ _ _ Hb Hk) as Hdb.
  destruct (desc_depth _ _ Hd _ Hda) as (k' & Hk' & Hle & Heq).
  pose proof (Depth_fun _ _ _ Hdb _ Hk'). apply Heq. lia.
Qed.

(** the previous sibling of a child is a child too *)
Lemma chain_prev_in p pv l nx c : chain t p pv l nx -> In c l ->
  exists o, get t c = Some o /\ (o_prev o = pv \/ In (o_prev o) l).
Proof.
  revert pv. induction l as [|x l IH]; intros pv Hc Hin; [contradiction|].
  cbn [chain] in Hc. destruct Hc as ((o & Hg & _ & _ & Hpv & _) & Hrest). destruct Hin as [->|Hin].
  - exists o. split; auto.
  - destruct (IH x Hrest Hin) as (o' & Hg' & [E|E]); exists o'; split; auto; right; [rewrite E; left; reflexivity|right; exact E].
Qed.

Lemma prev_sibling p c co : In c (kids g p) -> get t c = Some co ->
  o_prev co = InvalidIndex \/ In (o_prev co) (kids g p).
Proof.
  intros Hin Hc. destruct (R_In_kids t g HR _ _ Hin) as ((po & Hp & Hlp) & _).
  destruct (R_kids _ _ HR _ _ Hp Hlp) as (_ & _ & Hch & _).
  destruct (chain_prev_in _ _ _ _ _ Hch Hin) as (o & Hg & E). assert (o = co) by congruence. subst o. exact E.
Qed.
End Depth.

(** ---- rearrangements inside a set of objects ---- *)
Definition closed (g : ghost) (S : N -> Prop) : Prop := forall y c, S y -> In c (kids g y) -> S c.

Record reloc (g g' : ghost) (S : N -> Prop) : Prop := mkReloc {
  rl_len : length (g_kids g') = length (g_kids g);
  rl_free : g_free g' = g_free g;
  rl_out : forall y, ~ S y -> kids g' y = kids g y;
  rl_kids : forall y c, In c (kids g' y) -> In c (kids g y) \/ (S y /\ S c)
}.

Lemma reloc_refl g S : reloc g g S.
Proof. constructor; auto. Qed.

Lemma reloc_trans g0 g1 g2 S : reloc g0 g1 S -> reloc g1 g2 S -> reloc g0 g2 S.
Proof.
  intros [A1 A2 A3 A4] [B1 B2 B3 B4]. constructor; [congruence|congruence| |].
  - intros y Hy. rewrite B3, A3; auto.
  - intros y c Hin. destruct (B4 _ _ Hin) as [H|H]; auto.
Qed.

Lemma reloc_glive g g' S x : reloc g g' S -> (glive g x <-> glive g' x).
Proof. intros [A1 A2 _ _]. unfold glive. rewrite A1, A2. tauto. Qed.

Lemma closed_desc g x : closed g (desc g x).
Proof. intros y c Hy Hin. eapply desc_step; eauto. Qed.

Lemma desc_in_closed g S p y : closed g S -> S p -> desc g p y -> S y.
Proof. intros Hc Hp Hd. induction Hd as [|q c Hd IH Hin]; auto. eapply Hc; eauto. Qed.

Lemma reloc_closed g g' S : closed g S -> reloc g g' S -> closed g' S.
Proof. intros Hc [_ _ _ A4] y c Hy Hin. destruct (A4 _ _ Hin) as [H|(_ & H)]; auto. eapply Hc; eauto. Qed.

(** a rearrangement inside a smaller set is one inside a bigger set *)
Lemma reloc_lift g g' (S1 S2 : N -> Prop) : (forall y, S1 y -> S2 y) -> reloc g g' S1 -> reloc g g' S2.
Proof.
  intros Hsub [A1 A2 A3 A4]. constructor; [exact A1|exact A2| |].
  - intros y Hy. apply A3. intros H1. apply Hy. apply Hsub. exact H1.
  - intros y c Hin. destruct (A4 _ _ Hin) as [H|(H1 & H2)]; auto.
Qed.

(** the two edits of attachSiblingsAsArgs *)
Lemma reloc_detach g o a (S : N -> Prop) : o < N.of_nat (length (g_kids g)) -> S o -> reloc g (astep g (OpDetach o a)) S.
Proof.
  intros Ho HS. cbn [astep]. constructor; [apply set_kids_len|apply set_kids_free| |].
  - intros y Hy. rewrite kids_set_kids by auto. destruct (N.eqb_spec y o) as [->|Hne]; [contradiction|reflexivity].
  - intros y c. rewrite kids_set_kids by auto. destruct (N.eqb_spec y o) as [->|Hne]; auto.
    intros Hin. left. clear -Hin. induction (kids g o) as [|x l IH]; cbn [remove1] in Hin; [contradiction|].
    destruct (x =? a); [right; exact Hin|]. destruct Hin as [->|Hin]; [left; reflexivity|right; auto].
Qed.

Lemma reloc_append g o a (S : N -> Prop) : o < N.of_nat (length (g_kids g)) -> S o -> S a -> reloc g (astep g (OpAppend o a)) S.
Proof.
  intros Ho HS Ha. cbn [astep]. constructor; [apply set_kids_len|apply set_kids_free| |].
  - intros y Hy. rewrite kids_set_kids by auto. destruct (N.eqb_spec y o) as [->|Hne]; [contradiction|reflexivity].
  - intros y c. rewrite kids_set_kids by auto. destruct (N.eqb_spec y o) as [->|Hne]; auto.
    intros Hin. apply in_app_or in Hin. destruct Hin as [Hin|[<-|[]]]; auto.
Qed.

Lemma remove1_In a l x : In x (remove1 a l) -> In x l.
Proof.
  induction l as [|y l IH]; cbn [remove1]; [tauto|].
  destruct (y =? a); [intros H; right; exact H|]. intros [->|H]; [left; reflexivity|right; auto].
Qed.

(** ---- links of an object at a known position of its parent's child list ---- *)
Section Links.
Context {V : Type} (t : ObjectTree V) (g : ghost) (HR : R t g).

Lemma sibling_links p l1 c l2 : glive g p -> kids g p = l1 ++ c :: l2 ->
  exists o, get t c = Some o /\ o_opcode o <> opFreed /\ o_parent o = p /\
            o_prev o = last l1 InvalidIndex /\ o_next o = hd InvalidIndex l2 /\ o_index o = c.
Proof.
  intros Hl Hk. apply (R_live_glive t g HR) in Hl. destruct Hl as (po & Hpo & Hlpo).
  destruct (R_kids _ _ HR _ _ Hpo Hlpo) as (_ & _ & Hch & _). rewrite Hk in Hch.
  destruct (chain_mid _ _ _ _ _ Hch) as (o & Ho & Hlo & Hp & Hpv & Hnx).
  exists o. repeat split; auto. apply (R_index _ _ HR _ _ Ho).
Qed.

Lemma root_links x : glive g x -> groot g x ->
  exists o, get t x = Some o /\ o_opcode o <> opFreed /\ o_parent o = InvalidIndex /\ o_next o = InvalidIndex.
Proof.
  intros Hl Hr. apply (R_live_glive t g HR) in Hl. destruct Hl as (o & Ho & Hlo).
  pose proof (proj1 (R_groot t g HR x o Ho Hlo) Hr) as Hp.
  pose proof (R_up _ _ HR _ _ Ho Hlo) as Hup. rewrite Hp, N.eqb_refl in Hup. destruct Hup as (_ & Hn).
  exists o. auto.
Qed.

Lemma live_root_or_child x : glive g x -> groot g x \/ exists p, In x (kids g p).
Proof.
  intros Hl. apply (R_live_glive t g HR) in Hl. destruct Hl as (o & Ho & Hlo).
  destruct (N.eqb_spec (o_parent o) InvalidIndex) as [E|E].
  - left. apply (R_groot t g HR x o Ho Hlo). exact E.
  - right. exists (o_parent o). apply (R_parent_live t g HR x o Ho Hlo E).
Qed.

(** a descendant one level below is a child *)
Lemma desc_one_level a x ka : desc g a x -> Depth t a ka -> Depth t x (S ka) -> In x (kids g a).
Proof.
  intros Hd Ha Hx. destruct Hd as [|p c Hd Hin].
  - pose proof (Depth_fun _ _ _ Ha _ Hx). lia.
  - destruct (desc_depth t g HR _ _ Hd _ Ha) as (kp & Hkp & Hle & Heq).
    pose proof (child_depth t g HR _ _ _ Hin Hkp) as Hc. pose proof (Depth_fun _ _ _ Hx _ Hc) as E.
    assert (p = a) by (apply Heq; lia). subst p. exact Hin.
Qed.

(** a sibling of the parent is not an ancestor *)
Lemma uncle_not_desc gp p u x : In p (kids g gp) -> In u (kids g gp) -> u <> p -> In x (kids g p) -> ~ desc g u x.
Proof.
  intros Hp Hu Hne Hx Hd.
  destruct (R_In_kids t g HR _ _ Hp) as ((gpo & Hgp & Hlgp) & _).
  destruct (R_acyc _ _ HR _ _ Hgp Hlgp) as (k & Hk).
  pose proof (child_depth t g HR _ _ _ Hp Hk) as Hdp. pose proof (child_depth t g HR _ _ _ Hu Hk) as Hdu.
  pose proof (child_depth t g HR _ _ _ Hx Hdp) as Hdx.
  pose proof (desc_one_level u x (S k) Hd Hdu Hdx) as Hin.
  apply Hne. eapply (R_parent_unique t g HR); eauto.
Qed.
End Links.

(** ---- sublists ---- *)
Inductive sublist {A} : list A -> list A -> Prop :=
| sl_nil : sublist [] []
| sl_skip x l1 l2 : sublist l1 l2 -> sublist l1 (x :: l2)
| sl_keep x l1 l2 : sublist l1 l2 -> sublist (x :: l1) (x :: l2).

Lemma sublist_refl {A} (l : list A) : sublist l l.
Proof. induction l; [apply sl_nil|apply sl_keep; auto]. Qed.

Lemma sublist_nil {A} (l : list A) : sublist [] l.
Proof. induction l; [apply sl_nil|apply sl_skip; auto]. Qed.

Lemma sublist_trans {A} (a b c : list A) : sublist a b -> sublist b c -> sublist a c.
Proof.
  intros H1 H2. revert a H1. induction H2 as [|x l1 l2 H2 IH|x l1 l2 H2 IH]; intros a H1.
  - exact H1.
  - apply sl_skip. apply IH. exact H1.
  - inversion H1; subst; [apply sl_skip; apply IH; auto|apply sl_keep; apply IH; auto].
Qed.

Lemma sublist_In {A} (a b : list A) x : sublist a b -> In x a -> In x b.
Proof. induction 1; intros Hin; cbn in *; auto. destruct Hin; auto. Qed.

Lemma sublist_app {A} (a1 a2 b1 b2 : list A) : sublist a1 b1 -> sublist a2 b2 -> sublist (a1 ++ a2) (b1 ++ b2).
Proof. induction 1; intros H2; cbn [app]; [exact H2|apply sl_skip; auto|apply sl_keep; auto]. Qed.

Lemma sublist_app_split {A} (k a b : list A) : sublist k (a ++ b) ->
  exists ka kb, k = ka ++ kb /\ sublist ka a /\ sublist kb b.
Proof.
  revert k. induction a as [|x a IH]; intros k H; cbn [app] in H.
  - exists [], k. repeat split; auto. apply sl_nil.
  - inversion H; subst.
    + destruct (IH _ H2) as (ka & kb & E & A1 & A2). exists ka, kb. repeat split; auto. apply sl_skip; auto.
    + destruct (IH _ H2) as (ka & kb & E & A1 & A2). exists (x :: ka), kb. subst. repeat split; auto. apply sl_keep; auto.
Qed.

Lemma sublist_remove1 a l : sublist (remove1 a l) l.
Proof.
  induction l as [|x l IH]; cbn [remove1]; [apply sl_nil|].
  destruct (x =? a); [apply sl_skip; apply sublist_refl|apply sl_keep; exact IH].
Qed.

(** in a sublist the elements behind an element are among those behind it in the list *)
Lemma sublist_suffix {A} (P : A -> Prop) (k l : list A) : sublist k l ->
  (forall l1 a l2, l = l1 ++ a :: l2 -> P a -> Forall P l2) ->
  forall k1 a k2, k = k1 ++ a :: k2 -> P a -> Forall P k2.
Proof.
  induction 1 as [|x k l Hs IH|x k l Hs IH]; intros Hl k1 a k2 E Pa.
  - destruct k1; discriminate.
  - apply (IH (fun l1 b l2 El => Hl (x :: l1) b l2 (f_equal (cons x) El)) k1 a k2 E Pa).
  - destruct k1 as [|y k1]; cbn [app] in E; inversion E; subst.
    + pose proof (Hl [] a l eq_refl Pa) as Hall. rewrite Forall_forall in *. intros z Hz. apply Hall. eapply sublist_In; eauto.
    + apply (IH (fun l1 b l2 El => Hl (y :: l1) b l2 (f_equal (cons y) El)) k1 a k2 eq_refl Pa).
Qed.

(** ---- the forest as mergeScopeDirectives changes it: child lists lose elements and gain elements of [S] at the end ---- *)
Definition kev (S : N -> Prop) (g g' : ghost) : Prop :=
  forall p, exists keep app, kids g' p = keep ++ app /\ sublist keep (kids g p) /\ Forall S app.

Lemma kev_refl S g : kev S g g.
Proof. intros p. exists (kids g p), []. rewrite app_nil_r. repeat split; auto using sublist_refl. Qed.

Lemma kev_trans S g0 g1 g2 : kev S g0 g1 -> kev S g1 g2 -> kev S g0 g2.
Proof.
  intros A4 B4 p. destruct (B4 p) as (k2 & a2 & E2 & S2 & F2). destruct (A4 p) as (k1 & a1 & E1 & S1 & F1).
  rewrite E1 in S2. destruct (sublist_app_split _ _ _ S2) as (ka & kb & E & Ska & Skb). subst k2.
  exists ka, (kb ++ a2). rewrite E2, <- app_assoc. repeat split; auto.
  - eapply sublist_trans; eauto.
  - apply Forall_app. split; auto. rewrite Forall_forall in *. intros z Hz. apply F1. eapply sublist_In; eauto.
Qed.

Lemma kev_weaken (S S' : N -> Prop) g g' : (forall y, S y -> S' y) -> kev S g g' -> kev S' g g'.
Proof.
  intros Hsub A4 p. destruct (A4 p) as (k & apx & E & Sk & F). exists k, apx. repeat split; auto. eapply Forall_impl; eauto.
Qed.

Lemma kev_remove1 S g g' x : (forall p, kids g' p = remove1 x (kids g p)) -> kev S g g'.
Proof. intros H p. exists (remove1 x (kids g p)), []. rewrite app_nil_r. split; [apply H|]. split; [apply sublist_remove1|constructor]. Qed.

Record evolve (S : N -> Prop) (g g' : ghost) : Prop := mkEvolve {
  ev_len : length (g_kids g') = length (g_kids g);
  ev_live : forall y, glive g' y -> glive g y;
  ev_keep : forall y, glive g y -> ~ S y -> glive g' y;
  ev_kids : kev S g g'
}.

Lemma evolve_refl S g : evolve S g g.
Proof. constructor; auto. apply kev_refl. Qed.

Lemma evolve_trans S g0 g1 g2 : evolve S g0 g1 -> evolve S g1 g2 -> evolve S g0 g2.
Proof. intros [A1 A2 A3 A4] [B1 B2 B3 B4]. constructor; [congruence|auto|auto|eapply kev_trans; eauto]. Qed.

Lemma evolve_weaken (S S' : N -> Prop) g g' : (forall y, S y -> S' y) -> evolve S g g' -> evolve S' g g'.
Proof. intros Hsub [A1 A2 A3 A4]. constructor; auto. eapply kev_weaken; eauto. Qed.

(** what an enclosing set keeps: its elements form suffixes of the child lists, and it is closed under children *)
Definition suffixes (S : N -> Prop) (g : ghost) : Prop :=
  forall p l1 a l2, kids g p = l1 ++ a :: l2 -> S a -> Forall S l2.

Lemma app_split_cases {A} (k apx l1 l2 : list A) (a : A) : k ++ apx = l1 ++ a :: l2 ->
  (exists k2, k = l1 ++ a :: k2 /\ l2 = k2 ++ apx) \/ (exists m, l1 = k ++ m /\ apx = m ++ a :: l2).
Proof.
  revert l1. induction k as [|x k IH]; intros l1 Ek; cbn [List.app] in Ek.
  - right. exists l1. auto.
  - destruct l1 as [|y l1]; cbn [List.app] in Ek; inversion Ek; subst.
    + left. exists k. auto.
    + destruct (IH l1 H1) as [(k2 & E1 & E2)|(m & E1 & E2)]; [left; exists k2; subst; auto|right; exists m; subst; auto].
Qed.

Lemma kev_suffixes (S T : N -> Prop) g g' : (forall y, S y -> T y) -> kev S g g' -> suffixes T g -> suffixes T g'.
Proof.
  intros Hsub Hev Hsuf p l1 a l2 Ek Ta. destruct (Hev p) as (k & apx & E & Sk & F).
  rewrite E in Ek.
  assert (Happ : Forall T apx) by (eapply Forall_impl; [|exact F]; auto).
  destruct (app_split_cases _ _ _ _ _ Ek) as [(k2 & E1 & E2)|(m & E1 & E2)].
  - subst l2. apply Forall_app. split; [|exact Happ].
    apply (sublist_suffix T k (kids g p) Sk (Hsuf p) l1 a k2 E1 Ta).
  - subst apx. apply Forall_app in Happ. destruct Happ as (_ & Happ). inversion Happ; auto.
Qed.

Lemma kev_closed (S T : N -> Prop) g g' : (forall y, S y -> T y) -> kev S g g' -> closed g T -> closed g' T.
Proof.
  intros Hsub Hev Hc y c Ty Hin. destruct (Hev y) as (k & apx & E & Sk & F).
  rewrite E in Hin. apply in_app_or in Hin. destruct Hin as [Hin|Hin].
  - apply (Hc y c Ty). eapply sublist_In; eauto.
  - apply Hsub. rewrite Forall_forall in F. apply F. exact Hin.
Qed.

Lemma evolve_suffixes (S T : N -> Prop) g g' : (forall y, S y -> T y) -> evolve S g g' -> suffixes T g -> suffixes T g'.
Proof. intros Hsub Hev. eapply kev_suffixes; [exact Hsub|apply (ev_kids _ _ _ Hev)]. Qed.

Lemma evolve_closed (S T : N -> Prop) g g' : (forall y, S y -> T y) -> evolve S g g' -> closed g T -> closed g' T.
Proof. intros Hsub Hev. eapply kev_closed; [exact Hsub|apply (ev_kids _ _ _ Hev)]. Qed.
