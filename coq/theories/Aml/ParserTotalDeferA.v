From Coq Require Import NArith Arith List Bool Lia.
From Coq Require Import ZifyBool ZifyN ZifyNat.
From FF Require Import Lib.Word Gen.Consts_device_acpi_aml Gen.Consts_aml_tree Aml.Stream Aml.Lex Aml.LexProofs
  Aml.Tree Aml.Parser Aml.ParserProofs Aml.TreeSpec Aml.TreeProofs Aml.TreeProofsOps Aml.TreeProofsFind Aml.TreeProofsAnc
  Aml.ParserTotalTree Aml.ParserTotalTree2 Aml.ParserTotalLex Aml.ParserTotalTable Aml.ParserTotalBase Aml.ParserTotalLeaf
  Aml.ParserTotalFrame Aml.ParserTotalLeaf2 Aml.ParserTotalFirst Aml.ParserTotalConn Aml.ParserTotalReloc Aml.ParserTotalDefer Aml.ParserTotalFirst2
  Aml.ParserTotalDeferS.
Import ListNotations.
Local Open Scope N_scope.

Section StepA.
Variable tbls : list (list N).
Notation IV := (Inv tbls).
Notation FD := (FIm true).

Ltac wwrfI I H Hl :=
  wbi tbls I; eapply (wrf_step _ _ _ _ _ _ H Hl);
  [ let o := fresh "o" in let Ho := fresh "Ho" in intros o Ho; lk_tac
  | let o := fresh "o" in let Ho := fresh "Ho" in let Hi := fresh "Hi" in intros o Ho Hi; info_tac
  | ].

(** the Methods that were there stay typed across a call that creates none *)
Lemma TM_leaf (X P XX E : N -> Prop) s g s' g' :
  gwf g -> R (p_tree s) g -> TM X s g -> Fr P XX E s g s' g' ->
  (forall i o, P i -> tget (p_tree s) i = Some o -> ~ nodefer o) ->
  Eok E s g g' ->
  (forall i, XX i -> nnp s i) -> (forall y, E y -> kids g y <> []) ->
  (forall i o, tget (p_tree s') i = Some o -> o_opcode o = aml_pOpMethod ->
     exists o0, tget (p_tree s) i = Some o0 /\ o_opcode o0 = aml_pOpMethod) ->
  TM X s' g'.
Proof.
  intros Hwf HR H F HP HE HXn HEk Hnm.
  eapply (TM_frame2 X X P XX E s g s' g' Hwf HR H F HP HE HXn HEk); [auto|].
  intros m mo Hm Hop Hnl. exfalso. destruct (Hnm m mo Hm Hop) as (o0 & Ho0 & Hop0). apply Hnl.
  apply (R_live_glive _ _ HR). exists o0. split; [exact Ho0|rewrite Hop0; discriminate].
Qed.

(** the postcondition of parseArg (D_arg) *)
Definition ArgPost (curObj argTy : N) (s : pstate) (g : ghost) (ar : option N * pres) (s' : pstate) : Prop :=
  let '(a, res) := ar in exists g',
    FD s' g' /\ ExtD s g s' g' /\
    Fr NoP (eq curObj) (fun y => argTy = aml_pArgTypeFieldList /\ In curObj (kids g y)) s g s' g' /\
    (okres res -> argTy <> aml_pArgTypeFieldList -> kids g' curObj = kids g curObj) /\
    (argTy = aml_pArgTypeFieldList -> finsert s' g g' curObj) /\
    fresh_root g g' a /\ Psi s' <= Psi s + 2 /\
    (okres res -> Psi s' <= Psi s + ucost argTy /\ p_scopeStack s' = p_scopeStack s /\
                  TM (fun m => m = curObj /\ nolook argTy = true) s' g') /\
    (res = RShort -> argTy = aml_pArgTypeFieldList) /\
    (res = ROk -> argTy = aml_pArgTypeByteData ->
       exists obj po v, a = Some obj /\ tget (p_tree s') obj = Some po /\ o_value po = Some (VNum v) /\ nodefer po /\
                        o_opcode po = aml_pOpBytePrefix /\ o_infoIndex po = bpIdx) /\
    (res = ROk -> argTy = aml_pArgTypeNameString ->
       exists obj po, a = Some obj /\ tget (p_tree s') obj = Some po /\ nodefer po /\
                      o_opcode po = aml_pOpIntNamePath /\ o_infoIndex po = npIdx /\ kids g' obj = []) /\
    (res = ROk -> argTy = aml_pArgTypePkgLen -> a = None) /\
    (res = ROk -> argTy <> aml_pArgTypeFieldList).

Lemma nodefer_idx (o : Obj) idx op fl af : o_infoIndex o = idx -> opInfo idx = Some (op, fl, af) ->
  hasFlag fl aml_pOpFlagDeferParsing = false -> no_fieldlist af = true -> nodefer o.
Proof.
  intros E Hr Hf Hn op' fl' af' Hr'. rewrite E, Hr in Hr'. inversion Hr'; subst. split; [exact Hf|apply no_fieldlist_sound; exact Hn].
Qed.

Lemma namepath_row : exists i fl af, opcodeTableIndex aml_pOpIntNamePath true = Some i /\ opInfo i = Some (aml_pOpIntNamePath, fl, af) /\
  hasFlag fl aml_pOpFlagDeferParsing = false /\ no_fieldlist af = true.
Proof. vm_compute. do 3 eexists. repeat split; reflexivity. Qed.

Definition simple_ty (argTy : N) : bool :=
  (argTy =? aml_pArgTypeByteData) || (argTy =? aml_pArgTypeWordData) || (argTy =? aml_pArgTypeDwordData) ||
  (argTy =? aml_pArgTypeQwordData) || (argTy =? aml_pArgTypeString) || (argTy =? aml_pArgTypeNameString).

Lemma arg_simple curObj argTy s g :
  FD s g -> IV s -> glive g curObj -> roomD 0 s -> simple_ty argTy = true ->
  TM (fun m => m = curObj /\ nolook argTy = true) s g ->
  wp True (parseSimpleArg argTy) s (ArgPost curObj argTy s g).
Proof.
  intros H I0 Hl Hroom Hty HTM. pose proof (fi_R _ _ H) as HR. pose proof (R_gwf _ _ HR) as Hwf.
  pose proof (roomD_lp _ _ Hroom) as Hlp.
  eapply wp_weaken; [apply (wp_and_pc True _ s _ (fun ar s' => parseSimpleArg argTy s = Ok (ar, s'))
                             (parseSimpleArg_spec2 True argTy s g H ltac:(lia)))| |].
  { intros a s' E. exact E. }
  { auto. }
  intros [a res] s' ((g' & H' & X' & L1 & L2 & L3 & L4 & L5 & Lrs) & Erun). unfold ArgPost. exists g'.
  assert (Hnm := parseSimpleArg_nmeth argTy s (a, res) s' Erun).
  assert (Hnfl : argTy <> aml_pArgTypeFieldList).
  { intros ->. vm_compute in Hty. discriminate. }
  assert (Hrem : rem s' <= rem s) by (unfold rem; pose proof (ex_len _ _ _ _ X'); pose proof (ex_off _ _ _ _ X'); lia).
  assert (HPsi : Psi s' <= Psi s + 1) by (unfold Psi; lia).
  assert (Hkc : kids g' curObj = kids g curObj).
  { destruct (fr_kids _ _ _ _ _ _ _ L5 curObj Hl) as (_ & Hex); [intros []|]. apply Hex. intros []. }
  split; [exact H'|]. split; [apply Ext_ExtD; exact X'|].
  split; [eapply Fr_weaken; [| | |exact L5]; auto; intros y _ []|].
  split; [intros _ _; exact Hkc|]. split; [intros E; contradiction|].
  split; [destruct a as [obj|]; [destruct L4 as (A & B & C & _); cbn [fresh_root]; auto|exact I]|].
  split; [lia|].
  split.
  { intros Hok. assert (Hu : ucost argTy = 0).
    { unfold ucost, unpaid. unfold simple_ty in Hty.
      destruct (N.eqb_spec argTy aml_pArgTypeTermList) as [->|_]; [vm_compute in Hty; discriminate|].
      destruct (N.eqb_spec argTy aml_pArgTypeByteList) as [->|_]; [vm_compute in Hty; discriminate|]. reflexivity. }
    rewrite Hu. split.
    - destruct Hok as [->| ->].
      + specialize (L3 eq_refl). unfold Psi, rem in *. pose proof (ex_len _ _ _ _ X'). pose proof (fi_rok _ _ H') as (_ & _ & O'). lia.
      + exfalso. apply Lrs. reflexivity.
    - split; [exact L2|].
      eapply (TM_leaf _ NoP NoP NoP s g s' g' Hwf HR HTM L5); try (intros; contradiction); try apply Eok_NoP. exact Hnm. }
  split.
  { intros ->. exfalso. apply Lrs. reflexivity. }
  split.
  { intros Hr Eb. destruct a as [obj|]; [|destruct L4 as (F & _); rewrite Hr in F; discriminate].
    destruct L4 as (_ & _ & _ & D1 & _). destruct (D1 Eb) as (po & v & idx & Hpo & Hv & Hidx & Hii).
    exists obj, po, v. split; [reflexivity|]. split; [exact Hpo|]. split; [exact Hv|].
    destruct (parseSimpleArg_obj argTy s obj res s' Erun) as (po' & Hpo' & _ & _ & K1 & _). assert (po' = po) by congruence. subst po'.
    split; [|split; [apply (K1 Eb)|unfold bpIdx; rewrite Hidx; exact Hii]].
    destruct byteprefix_row as (i & fl & af & Ei & Er & Ef & En0). rewrite Ei in Hidx. injection Hidx as Hidx'.
    eapply (nodefer_idx po i); [congruence|exact Er|exact Ef|exact En0]. }
  split.
  { intros Hr En. destruct a as [obj|]; [|destruct L4 as (F & _); rewrite Hr in F; discriminate].
    destruct L4 as (_ & Hlo & _ & _ & D2). destruct (D2 En) as (po & idx & Hpo & Hidx & Hii).
    exists obj, po. split; [reflexivity|]. split; [exact Hpo|].
    destruct (parseSimpleArg_obj argTy s obj res s' Erun) as (po' & Hpo' & Hfirst & _ & _ & K2). assert (po' = po) by congruence. subst po'.
    split; [|split; [apply (K2 En)|split; [unfold npIdx; rewrite Hidx; exact Hii|]]].
    - destruct namepath_row as (i & fl & af & Ei & Er & Ef & En0). rewrite Ei in Hidx. injection Hidx as Hidx'.
      eapply (nodefer_idx po i); [congruence|exact Er|exact Ef|exact En0].
    - pose proof (fi_R _ _ H') as HR'. destruct (FI_live_get _ _ _ H' Hlo) as (o & Ho & Hlo'). assert (o = po) by congruence. subst o.
      destruct (R_kids _ _ HR' _ _ Hpo Hlo') as (Hf1 & _). destruct (kids g' obj) as [|c l] eqn:Ek; [reflexivity|exfalso].
      cbn [hd] in Hf1. assert (Hin : In c (kids g' obj)) by (rewrite Ek; left; reflexivity).
      destruct ((R_gwf _ _ HR') _ _ Hin) as (_ & Hlc). destruct (FI_live_get _ _ _ H' Hlc) as (co & Hco & _).
      apply (R_pos_not_Inv _ _ HR' _ _ Hco). congruence. }
  split; [intros _ ->; vm_compute in Hty; discriminate|intros _; exact Hnfl].
Qed.

(** a result that leaves the pool alone *)
Lemma ArgPost_pure curObj argTy s g res s' :
  FD s g -> FD s' g -> p_tree s' = p_tree s -> p_scopeStack s' = p_scopeStack s ->
  r_len (p_r s') = r_len (p_r s) -> r_offset (p_r s) <= r_offset (p_r s') ->
  argTy <> aml_pArgTypeFieldList -> argTy <> aml_pArgTypeByteData -> argTy <> aml_pArgTypeNameString ->
  res <> RShort -> (res = ROk -> Psi s' <= Psi s + ucost argTy) ->
  TM (fun m => m = curObj /\ nolook argTy = true) s g ->
  ArgPost curObj argTy s g (None, res) s'.
Proof.
  intros H H' Et Es El Eo N1 N2 N3 Hrs HPs HTM. unfold ArgPost. exists g.
  assert (HPsi : Psi s' <= Psi s) by (unfold Psi, lp, rem; rewrite Et, El; lia).
  split; [exact H'|]. split; [constructor; [apply gext_refl|exact El|exact Eo|exists []; exact Es]|].
  split; [eapply Fr_tree_eq; [apply Fr_refl|exact Et]|].
  split; [auto|]. split; [intros E; contradiction|]. split; [exact I|]. split; [lia|].
  split.
  { intros [Hr|Hr]; [|contradiction]. split; [exact (HPs Hr)|]. split; [exact Es|eapply TM_tree_eq; eauto]. }
  split; [intros E; contradiction|]. split; [intros _ E; contradiction|]. split; [intros _ E; contradiction|]. split; [auto|intros _; exact N1].
Qed.

Lemma arg_pkglen curObj fl s g :
  FD s g -> IV s -> TM (fun m => m = curObj /\ nolook aml_pArgTypePkgLen = true) s g ->
  wp True (mlet origOffset <~ offsetM ;;
           mlet '(pkgLen, ok) <~ lex parsePkgLength ;;
           if negb ok then ret (None, RFailed) else
           mlet allBlocks <~ Parser.get p_allBlocks ;;
           if negb allBlocks && hasFlag fl aml_pOpFlagDeferParsing then
             wrf curObj (set_pkgEnd (w32 (origOffset + pkgLen))) ;;;
             setOffsetM (w32 (origOffset + pkgLen)) ;;;
             ret (None, RShort)
           else
             mlet ok2 <~ pushPkgEnd (w32 (origOffset + pkgLen)) ;;
             ret (None, pres_of_bool ok2)) s (ArgPost curObj aml_pArgTypePkgLen s g).
Proof.
  intros H I0 HTM. pose proof (fi_rok _ _ H) as Hrok.
  apply wp_bind, wp_get.
  apply wp_bind. apply wp_pkglen; auto. intros pkgLen ok r1 Hadv Hok Hnok.
  assert (H1 : FD (with_r s r1) g) by (apply FI_adv; auto).
  destruct Hadv as ((Ed & El & Ep) & Ho & Ho').
  destruct ok; cbn [negb].
  2:{ apply wp_ret. apply (ArgPost_pure curObj _ s g RFailed (with_r s r1) H H1); try reflexivity; try discriminate; auto. }
  destruct (Hok eq_refl) as (Hlt1 & _).
  apply wp_bind, wp_get. rewrite (fi_skip _ _ H1). cbn [negb andb].
  apply wp_bind. apply wp_pushPkgEnd. apply wp_ret.
  set (e := w32 (r_offset (p_r s) + pkgLen)).
  set (s2 := with_r (with_pkgEndStack (with_r s r1) (e :: p_pkgEndStack (with_r s r1))) (fst (setPkgEnd (p_r (with_r s r1)) e))).
  assert (H2 : FD s2 g).
  { apply FI_with_r; [apply FI_with_pkgEnd; exact H1|]. apply rok_setPkgEnd. apply (fi_rok _ _ H1). }
  destruct (setPkgEnd_off (p_r (with_r s r1)) e) as (Eo2 & El2).
  apply (ArgPost_pure curObj _ s g _ s2 H H2); try reflexivity; try discriminate; auto.
  - unfold s2. pcbn. pcbn_in El2. rewrite El2. exact El.
  - unfold s2. pcbn. pcbn_in Eo2. rewrite Eo2. exact Ho.
  - destruct (snd (setPkgEnd (p_r (with_r s r1)) e)); discriminate.
  - intros _. change (ucost aml_pArgTypePkgLen) with 0. unfold Psi, lp, rem, s2. pcbn. pcbn_in Eo2. pcbn_in El2. rewrite Eo2, El2, El. lia.
Qed.

(** the postcondition may use the equation of the run *)
Lemma wp_run {A} P (m : M A) s (Q : A -> pstate -> Prop) :
  wp P m s (fun a s' => m s = Ok (a, s') -> Q a s') -> wp P m s Q.
Proof. unfold wp. destruct (m s) as [[a s']| |]; auto. Qed.

Definition m_bytelist : M (option N * pres) :=
  mlet argObj <~ newObj aml_pOpIntByteList ;;
  mlet r <~ Parser.get p_r ;;
  mlet res <~ parseByteList argObj (w32 (r_pkgEnd r + two32 - r_offset r)) ;;
  if pres_eqb res ROk then ret (Some argObj, ROk) else ret (None, RFailed).

Lemma m_bytelist_nmeth : nmeth m_bytelist.
Proof. unfold m_bytelist. nmeth_tac; try apply parseByteList_nmeth. Qed.

Lemma arg_bytelist curObj s g :
  FD s g -> IV s -> glive g curObj -> roomD 1 s ->
  TM (fun m => m = curObj /\ nolook aml_pArgTypeByteList = true) s g -> nnp s curObj ->
  wp True m_bytelist s (ArgPost curObj aml_pArgTypeByteList s g).
Proof.
  intros H I0 Hl Hroom HTM Hnnp. pose proof (fi_R _ _ H) as HR. pose proof (R_gwf _ _ HR) as Hwf.
  pose proof (roomD_lp _ _ Hroom) as Hlp.
  apply wp_run. unfold m_bytelist.
  apply wp_bind. eapply new_step2; [exact H|apply (newokb_sound aml_pOpIntByteList eq_refl)|lia|].
  intros p t2 g2 po H2 Hext2 Hfresh2 Hlive2 Hroot2 Hkids2 Hpo Hpop _ _ Hl2 Hfw2 Hks2 Hlv2.
  set (s2 := with_tree s t2) in *.
  assert (F2 : Fr NoP (eq curObj) NoP s g s2 g2) by (apply (Fr_new NoP (eq curObj) NoP s g s g t2 g2 p (Fr_refl _ _ _ s g) (fun x Hx => Hx) Hfresh2 Hfw2 Hks2)).
  apply wp_bind, wp_get.
  apply wp_bind. eapply wp_weaken; [apply (parseByteList_spec2 True p _ s2 g2 H2 Hlive2)|auto|].
  intros res s3 (H3 & (C1 & C2 & C3 & C4 & C5) & T3).
  assert (F3 : Fr NoP (eq curObj) NoP s g s3 g2).
  { eapply Fr_gets; [exact F2|]. intros i Hi. apply T3. intros ->. contradiction. }
  assert (HPsi : Psi s3 <= Psi s + 1).
  { unfold Psi, rem. unfold lp in *. unfold s2 in *. pcbn_in C1. pcbn_in C2. pcbn_in C4. lia. }
  assert (HX : ExtD s g s3 g2).
  { constructor; [exact Hext2|exact C1|exact C2|exists []; exact C3]. }
  assert (Hkc : kids g2 curObj = kids g curObj) by apply Hks2.
  assert (Hfin : forall a res', (a = Some p \/ a = None) -> (res' = ROk \/ res' = RFailed) ->
     m_bytelist s = Ok ((a, res'), s3) -> ArgPost curObj aml_pArgTypeByteList s g (a, res') s3).
  { intros a res' Ha Hr Erun. unfold ArgPost. exists g2.
    split; [exact H3|]. split; [exact HX|].
    split; [eapply Fr_weaken; [| | |exact F3]; auto; intros y _ []|].
    split; [intros _ _; exact Hkc|]. split; [intros E; discriminate|].
    split; [destruct Ha as [->| ->]; [cbn [fresh_root]; auto|exact I]|].
    split; [lia|]. split.
    { intros _. split; [change (ucost aml_pArgTypeByteList) with 1; lia|]. split; [exact C3|].
      eapply (TM_leaf _ NoP (eq curObj) NoP s g s3 g2 Hwf HR HTM F3); try (intros; contradiction); try apply Eok_NoP;
        [intros i <-; exact Hnnp|exact (m_bytelist_nmeth s _ s3 Erun)]. }
    split; [intros E; destruct Hr as [->| ->]; discriminate|].
    split; [intros _ E; discriminate|]. split; [intros _ E; discriminate|]. split; [intros _ E; discriminate|intros _ E; discriminate]. }
  destruct (pres_eqb res ROk); apply wp_ret; intros Erun; apply Hfin; auto.
Qed.

Lemma nodup_split_unique (x : N) l1 t1 l2 t2 : NoDup (l1 ++ x :: t1) -> l1 ++ x :: t1 = l2 ++ x :: t2 -> l1 = l2 /\ t1 = t2.
Proof.
  revert l2. induction l1 as [|y l1 IH]; intros l2 Hnd E.
  - destruct l2 as [|z l2]; cbn [app] in E.
    + injection E as E1. auto.
    + injection E as E1 E2. subst z. exfalso. cbn [app] in Hnd. apply NoDup_cons_iff in Hnd. destruct Hnd as (Hni & _).
      apply Hni. rewrite E2. apply in_or_app. right. left. reflexivity.
  - destruct l2 as [|z l2]; cbn [app] in E.
    + injection E as E1 E2. subst y. exfalso. cbn [app] in Hnd. apply NoDup_cons_iff in Hnd. destruct Hnd as (Hni & _).
      apply Hni. apply in_or_app. right. left. reflexivity.
    + injection E as E1 E2. subst z. cbn [app] in Hnd. apply NoDup_cons_iff in Hnd. destruct Hnd as (_ & Hnd').
      destruct (IH l2 Hnd' E2) as (-> & ->). auto.
Qed.

Lemma prefix2 (c a0 a1 : N) l1 tl rest : l1 ++ c :: tl = a0 :: a1 :: rest -> c <> a0 -> c <> a1 -> exists l1', l1 = a0 :: a1 :: l1'.
Proof.
  intros E N0 N1. destruct l1 as [|x [|y l1']]; cbn [app] in E; inversion E; subst; try contradiction. eauto.
Qed.

Lemma arg_fieldlist curObj s g :
  FD s g -> IV s -> glive g curObj -> roomD 0 s ->
  has_parent g curObj -> LastNum s curObj -> hasfl s curObj ->
  TM (fun m => m = curObj /\ nolook aml_pArgTypeFieldList = true) s g -> nnp s curObj ->
  wp True (mlet res <~ parseFieldElements curObj ;; ret (None, res)) s (ArgPost curObj aml_pArgTypeFieldList s g).
Proof.
  intros H I0 Hl Hroom (par & Hin) HLN Hfl HTM Hnnp. pose proof (fi_R _ _ H) as HR. pose proof (R_gwf _ _ HR) as Hwf.
  destruct (in_split _ _ Hin) as (l1 & tl & Ek).
  apply wp_run.
  apply wp_bind. eapply wp_weaken; [apply (parseFieldElements_spec2 curObj par l1 tl s g H Ek)| |].
  { unfold roomD, Psi, Phi in *. lia. }
  { exact HLN. }
  { intros []. }
  intros res s' (g' & H' & X' & (Q1 & Q2 & Q3 & Q4 & Q5) & Fr' & (new & Hnew & Hsibs)).
  apply wp_ret. intros Erun. unfold ArgPost. exists g'.
  assert (Hnm : forall i o, tget (p_tree s') i = Some o -> o_opcode o = aml_pOpMethod ->
                 exists o0, tget (p_tree s) i = Some o0 /\ o_opcode o0 = aml_pOpMethod).
  { apply bindM_ok in Erun. destruct Erun as (r0 & s0 & E0 & E1). inversion E1; subst r0 s0.
    exact (parseFieldElements_nmeth curObj s _ s' E0). }
  assert (Hlpar : glive g par) by (apply (Hwf par curObj Hin)).
  destruct (R_live_glive _ _ HR par) as (_ & Hlv). destruct (Hlv Hlpar) as (po & Hpo & Hlpo).
  destruct (R_kids _ _ HR _ _ Hpo Hlpo) as (_ & _ & _ & Hnd).
  assert (Hfin : finsert s' g g' curObj).
  { intros par' l1' tl' Ek'. assert (par' = par).
    { eapply (R_parent_unique _ _ HR); [|exact Hin]. rewrite Ek'. apply in_or_app. right. left. reflexivity. }
    subst par'. rewrite Ek in Ek'. rewrite Ek in Hnd. destruct (nodup_split_unique _ _ _ _ _ Hnd Ek') as (-> & ->).
    exists new. split; [exact Hnew|exact Hsibs]. }
  assert (Hrem : rem s' <= rem s) by (unfold rem; pose proof (ex_len _ _ _ _ X'); pose proof (ex_off _ _ _ _ X'); lia).
  split; [exact H'|]. split; [apply Ext_ExtD; exact X'|].
  split.
  { apply (Fr_weaken NoP NoP (XC curObj) (eq curObj) (EP par) (fun y => aml_pArgTypeFieldList = aml_pArgTypeFieldList /\ In curObj (kids g y)) s g s' g'); [auto| | |exact Fr'].
    - intros y _ E. unfold XC in E. symmetry. exact E.
    - intros y _ E. unfold EP in E. subst y. split; [reflexivity|exact Hin]. }
  split; [intros _ F; contradiction|]. split; [intros _; exact Hfin|]. split; [exact I|].
  split; [unfold Psi, Phi in *; lia|].
  split.
  { intros [Hr|Hr]; [contradiction|]. specialize (Q2 Hr). split; [change (ucost aml_pArgTypeFieldList) with 0; unfold Psi, Phi in *; lia|].
    split; [exact Q4|].
    eapply (TM_leaf _ NoP (XC curObj) (EP par) s g s' g' Hwf HR HTM Fr');
      [intros i o []| |intros i Hi; unfold XC in Hi; subst i; exact Hnnp|intros y Hy F; unfold EP in Hy; subst y; rewrite F in Hin; contradiction|exact Hnm].
    split.
    - intros m. unfold EP. destruct (N.eq_dec m par); [left|right]; auto.
    - intros m mo Em Hm Hmop a0 a1 rest Hk. unfold EP in Em. subst m.
      (* the object with the field list is neither of the first two arguments of a Method *)
      assert (Hnx : ~ (par = curObj /\ nolook aml_pArgTypeFieldList = true)).
      { intros (E & _). subst par. eapply (R_child_neq_parent _ _ HR); [exact Hin|reflexivity]. }
      destruct (HTM par mo Hm Hmop Hnx) as (b0 & b1 & rest0 & b0o & b1o & v & Hk0 & Hb0 & Hn0 & Hb1 & _ & Hn1 & _).
      rewrite Hk in Hk0. inversion Hk0; subst b0 b1 rest0.
      destruct Hfl as (co & op' & fl' & af' & Hco & Hinfo & (k & Hk8 & Hkf)).
      assert (Hc0 : curObj <> a0).
      { intros E. subst a0. assert (b0o = co) by congruence. subst. destruct (Hn0 _ _ _ Hinfo) as (_ & Hnf). exact (Hnf k Hk8 Hkf). }
      assert (Hc1 : curObj <> a1).
      { intros E. subst a1. assert (b1o = co) by congruence. subst. destruct (Hn1 _ _ _ Hinfo) as (_ & Hnf). exact (Hnf k Hk8 Hkf). }
      rewrite Ek in Hk. destruct (prefix2 _ _ _ _ _ _ Hk Hc0 Hc1) as (l1' & ->).
      rewrite Hnew. cbn [app]. eexists. reflexivity. }
  split; [auto|]. split; [intros Hr; contradiction|]. split; [intros Hr; contradiction|]. split; [intros Hr; contradiction|intros Hr; contradiction].
Qed.

(** the wrappers for the recursive cases whose frame is exact *)
Lemma ArgPost_exact curObj argTy s g a res s' g' :
  argTy <> aml_pArgTypeFieldList -> argTy <> aml_pArgTypeByteData -> argTy <> aml_pArgTypeNameString -> argTy <> aml_pArgTypePkgLen ->
  nolook argTy = false ->
  FD s' g' -> ExtD s g s' g' -> Fr NoP (eq curObj) NoP s g s' g' -> fresh_root g g' a -> Psi s' <= Psi s + 1 -> res <> RShort ->
  (res = ROk -> Psi s' <= Psi s /\ TM NoX s' g' /\ p_scopeStack s' = p_scopeStack s /\ kids g' curObj = kids g curObj) ->
  ArgPost curObj argTy s g (a, res) s'.
Proof.
  intros N1 N2 N3 N4 Hnl H' X' F' Hfr HPsi Hrs Hok. unfold ArgPost. exists g'.
  split; [exact H'|]. split; [exact X'|].
  split; [eapply Fr_weaken; [| | |exact F']; auto; intros y _ []|].
  split; [intros [Hr|Hr] _; [apply (Hok Hr)|contradiction]|].
  split; [intros E; contradiction|]. split; [exact Hfr|]. split; [lia|].
  split.
  { intros [Hr|Hr]; [|contradiction]. destruct (Hok Hr) as (K1 & K2 & K3 & K4). split; [lia|]. split; [exact K3|].
    apply TM_NoX_any. exact K2. }
  split; [intros Hr; contradiction|]. split; [intros _ E; contradiction|]. split; [intros _ E; contradiction|]. split; [intros _ E; contradiction|intros _; exact N1].
Qed.

Lemma TM_nolook_false curObj argTy s g : nolook argTy = false -> TM (fun m => m = curObj /\ nolook argTy = true) s g -> TM NoX s g.
Proof. intros Hn. apply TM_weaken. intros m mo _ _ (_ & F). rewrite Hn in F. discriminate. Qed.

Lemma arg_strict fuel curObj argTy s g :
  D_strict tbls fuel ->
  argTy = aml_pArgTypeTermArg \/ argTy = aml_pArgTypeDataRefObj ->
  FD s g -> IV s -> glive g 0 -> glive g curObj -> roomD 0 s ->
  TM (fun m => m = curObj /\ nolook argTy = true) s g -> nnp s curObj ->
  wp True (parseStrictTermArg fuel curObj) s (ArgPost curObj argTy s g).
Proof.
  intros IH Hty H I0 H0 Hl Hroom HTM Hnnp.
  assert (Hnl : nolook argTy = false) by (destruct Hty as [-> | ->]; reflexivity).
  eapply wp_weaken; [apply (IH curObj s g H I0 H0 Hl Hroom (TM_nolook_false _ _ _ _ Hnl HTM) Hnnp)|auto|].
  intros [a res] s' (g' & G1 & G2 & G3 & G4 & G5 & G6 & G7).
  apply (ArgPost_exact curObj argTy s g a res s' g'); auto; try (destruct Hty as [-> | ->]; discriminate).
  intros Hr. destruct (G7 Hr) as (K1 & K2 & K3 & K4). repeat split; auto. lia.
Qed.

Lemma arg_target fuel curObj argTy s g :
  D_target tbls fuel -> nolook argTy = false ->
  argTy <> aml_pArgTypeFieldList -> argTy <> aml_pArgTypeByteData -> argTy <> aml_pArgTypeNameString -> argTy <> aml_pArgTypePkgLen ->
  FD s g -> IV s -> glive g 0 -> glive g curObj -> roomD 0 s ->
  TM (fun m => m = curObj /\ nolook argTy = true) s g ->
  wp True (parseTarget fuel) s (ArgPost curObj argTy s g).
Proof.
  intros IH Hnl N1 N2 N3 N4 H I0 H0 Hl Hroom HTM.
  eapply wp_weaken; [apply (IH s g H I0 H0 Hroom (TM_nolook_false _ _ _ _ Hnl HTM))|auto|].
  intros [a res] s' (g' & G1 & G2 & G3 & G4 & G5 & G6 & G7).
  apply (ArgPost_exact curObj argTy s g a res s' g'); auto.
  - eapply Fr_weaken; [| | |exact G3]; auto. intros y _ [].
  - intros Hr. destruct (G7 Hr) as (K1 & K2 & K3). repeat split; auto.
    destruct (fr_kids _ _ _ _ _ _ _ G3 curObj Hl) as (_ & Hex); [intros []|]. apply Hex. intros [].
Qed.

Lemma glive_append g o a x : glive (astep g (OpAppend o a)) x <-> glive g x.
Proof. cbn [astep]. unfold glive. rewrite set_kids_len, set_kids_free. tauto. Qed.

Definition m_termlist (fuel : nat) (curObj : N) : M (option N * pres) :=
  mlet scope <~ newObj aml_pOpIntScopeBlock ;;
  mlet off <~ offsetM ;;
  wrf scope (set_amlOffset off) ;;;
  mlet scopeIndex <~ rdf scope o_index ;;
  scopeEnter scopeIndex ;;;
  mlet allBlocks <~ Parser.get p_allBlocks ;;
  if negb allBlocks then ret (Some scope, RShort) else
  appendM (Some curObj) scope ;;;
  mlet ok <~ termList_go fuel ;;
  if negb ok then ret (None, RFailed) else
  scopeExit ;;;
  detachM (Some curObj) (Some scope) ;;;
  ret (Some scope, ROk).

Lemma arg_termlist fuel curObj s g :
  D_termlist tbls fuel ->
  FD s g -> IV s -> glive g 0 -> glive g curObj -> roomD 1 s ->
  TM (fun m => m = curObj /\ nolook aml_pArgTypeTermList = true) s g -> nnp s curObj ->
  wp True (m_termlist fuel curObj) s (ArgPost curObj aml_pArgTypeTermList s g).
Proof.
  intros IH H I0 H0 Hl Hroom HTM0 Hnnp. pose proof (fi_R _ _ H) as HR. pose proof (R_gwf _ _ HR) as Hwf.
  pose proof (roomD_lp _ _ Hroom) as Hlp. pose proof (fi_rok _ _ H) as Hrok.
  assert (HTM : TM NoX s g) by (apply (TM_nolook_false curObj aml_pArgTypeTermList); [reflexivity|exact HTM0]).
  unfold m_termlist.
  wbi tbls I0. eapply new_step2; [exact H|apply (newokb_sound aml_pOpIntScopeBlock eq_refl)|lia|].
  intros p t2 g2 po H2 Hext2 Hfresh2 Hlive2 Hroot2 Hkids2 Hpo Hpop _ Hpidx Hl2 Hfw2 Hks2 Hlv2 I2.
  set (s2 := with_tree s t2) in *.
  assert (F2 : Fr NoP (eq curObj) NoP s g s2 g2) by (apply (Fr_new NoP (eq curObj) NoP s g s g t2 g2 p (Fr_refl _ _ _ s g) (fun x Hx => Hx) Hfresh2 Hfw2 Hks2)).
  assert (A2 : at_ s s2 0 1) by (eapply at_new'; [apply at_refl; exact Hrok|exact Hl2|reflexivity]).
  wbi tbls I2. apply wp_get. intros _.
  wwrfI I2 H2 Hlive2. intros o3 Hg3 Hlo3 H3 I3.
  match type of H3 with FIm true ?st _ => set (s3 := st) in * end.
  assert (F3 : Fr NoP (eq curObj) NoP s g s3 g2) by (apply Fr_tset_fresh; [exact F2|exact Hfresh2]).
  assert (A3 : at_ s s3 0 1) by (apply at_tset; exact A2).
  destruct (FI_live_get _ _ _ H3 Hlive2) as (po3 & Hpo3 & _).
  wbi tbls I3. apply wp_rdf. exists po3. split; [exact Hpo3|]. intros _. rewrite (R_index _ _ (fi_R _ _ H3) _ _ Hpo3).
  wbi tbls I3. apply wp_scopeEnter. intros I4.
  set (s4 := with_scopeStack s3 (p :: p_scopeStack s3)) in *.
  assert (Est4 : p_scopeStack s4 = p :: p_scopeStack s) by reflexivity.
  assert (H4 : FD s4 g2).
  { apply FI_with_scope; [exact H3|]. constructor; [exact Hlive2|]. apply (fi_scopes _ _ H3). }
  wbi tbls I4. apply wp_get. intros _. rewrite (fi_skip _ _ H4). cbn [negb].
  assert (F4 : Fr NoP (eq curObj) NoP s g s4 g2) by (eapply Fr_tree_eq; [exact F3|reflexivity]).
  wbi tbls I4. eapply (append_step _ curObj p s4 g2 g); [exact H4|exact Hwf|exact Hext2|exact Hl|exact Hfresh2|exact Hlive2|exact Hroot2|].
  intros t5 H5 Hext5 Hpf5 Hk5 Hk5' I5.
  set (g5 := astep g2 (OpAppend curObj p)) in *. set (s5 := with_tree s4 t5) in *.
  assert (F5 : Fr NoP (eq curObj) NoP s g s5 g5).
  { apply (Fr_append NoP (eq curObj) NoP s g s4 g2 t5 g5 curObj p F4 Hpf5 Hk5 Hk5'). intros _. left. reflexivity. }
  assert (EP5 : Psi s5 <= Psi s + 1).
  { pose proof (at_Psi _ _ _ _ A3) as P3. assert (E : Psi s5 = Psi s3); [|lia].
    unfold Psi, lp, rem, s5, s4. pcbn. rewrite (proj1 Hpf5). reflexivity. }
  assert (Hkc5 : kids g5 curObj = kids g curObj ++ [p]) by (rewrite Hk5, Hks2; reflexivity).
  assert (Hlive5 : glive g5 p) by (apply glive_append; exact Hlive2).
  assert (Hpc : p <> curObj) by (intros E; apply Hfresh2; rewrite E; exact Hl).
  assert (Est5 : p_scopeStack s5 = p :: p_scopeStack s) by reflexivity.
  assert (Hp5 : exists po5, tget (p_tree s5) p = Some po5 /\ o_opcode po5 = aml_pOpIntScopeBlock).
  { assert (Hp4 : tget (p_tree s4) p = Some (set_amlOffset (r_offset (p_r s)) po)).
    { unfold s4, s3, s2. pcbn. rewrite get_tset, N.eqb_refl. assert (Hy : tget t2 p = Some po) by exact Hpo. rewrite Hy. reflexivity. }
    destruct (proj2 Hpf5 _ _ Hp4) as (po5 & Hpo5 & E5 & _). exists po5. split; [exact Hpo5|]. cbn [o_opcode set_amlOffset] in E5. congruence. }
  assert (HTM5 : TM NoX s5 g5).
  { eapply (TM_frame2 NoX NoX NoP (eq curObj) NoP s g s5 g5 Hwf HR HTM F5); try (intros; contradiction); try apply Eok_NoP; [intros i <-; exact Hnnp|].
    intros m mo Hm Hmop Hnl. exfalso.
    assert (Hl5m : glive g5 m) by (apply (R_live_glive _ _ (fi_R _ _ H5)); exists mo; split; [exact Hm|rewrite Hmop; discriminate]).
    apply glive_append in Hl5m. destruct (Hlv2 m Hl5m) as [F|F]; [contradiction|]. subst m.
    destruct Hp5 as (po5 & Hpo5 & Eop5). assert (po5 = mo) by congruence. subst. rewrite Hmop in Eop5. discriminate. }
  assert (H05 : glive g5 0) by (apply glive_append; apply (ge_live _ _ Hext2); exact H0).
  assert (Hnnp5 : nnp s5 p).
  { intros co Hco.
    assert (Hp4 : tget (p_tree s4) p = Some (set_amlOffset (r_offset (p_r s)) po)).
    { unfold s4, s3, s2. pcbn. rewrite get_tset, N.eqb_refl. assert (Hy : tget t2 p = Some po) by exact Hpo. rewrite Hy. reflexivity. }
    destruct (proj2 Hpf5 _ _ Hp4) as (po5 & Hpo5 & _ & E5' & _). change (tget t5 p = Some co) in Hco. assert (po5 = co) by congruence. subst po5.
    cbn [o_infoIndex set_amlOffset] in E5'. rewrite E5'. intros E. rewrite E in Hpidx. vm_compute in Hpidx. discriminate. }
  wbi tbls I5. eapply wp_weaken; [apply (IH s5 g5 p (p_scopeStack s) H5 I5 H05 Est5)| |].
  { unfold roomD in *. lia. }
  { exact HTM5. }
  { exact Hnnp5. }
  { auto. }
  intros ok s6 (g6 & H6 & X6 & G3 & G4 & G5) I6.
  assert (Hext6 : gext g g6) by (eapply gext_trans; [exact Hext5|apply (xd_g _ _ _ _ X6)]).
  assert (Hlc5 : glive g5 curObj) by (apply glive_append; apply (ge_live _ _ Hext2); exact Hl).
  assert (Hkc6 : kids g6 curObj = kids g curObj ++ [p]).
  { destruct (fr_kids _ _ _ _ _ _ _ G3 curObj Hlc5) as (_ & Hex); [intros []|]. rewrite Hex; [exact Hkc5|]. intros E. apply Hpc. exact E. }
  assert (HX6 : forall s', p_scopeStack s' = p_scopeStack s6 \/ (exists x, p_scopeStack s6 = x :: p_scopeStack s') ->
            r_offset (p_r s') = r_offset (p_r s6) -> r_len (p_r s') = r_len (p_r s6) -> forall g', gext g g' ->
            (exists e, p_scopeStack s' = e ++ p_scopeStack s) -> ExtD s g s' g').
  { intros s' _ E3 E4 g' Hg' Hsc. constructor; [exact Hg'| | |exact Hsc].
    - rewrite E4, (xd_len _ _ _ _ X6). destruct A3 as (L & _). exact L.
    - rewrite E3. pose proof (xd_off _ _ _ _ X6) as O. destruct A3 as (_ & O3 & _).
      change (r_offset (p_r s5)) with (r_offset (p_r s3)) in O. lia. }
  assert (Hkeep6 : keep NoP s g s6).
  { eapply keep_trans; [apply (fr_keep _ _ _ _ _ _ _ F5)|apply (fr_keep _ _ _ _ _ _ _ G3)| |auto].
    intros y Hy. apply glive_append. apply (ge_live _ _ Hext2). exact Hy. }
  destruct ok; cbn [negb].
  2:{ apply wp_ret. unfold ArgPost. exists g6. split; [exact H6|].
      destruct (xd_scopes _ _ _ _ X6) as (e & Ee).
      split; [apply (HX6 s6); auto; exists (e ++ [p]); rewrite Ee, Est5, <- app_assoc; reflexivity|].
      split.
      { constructor; [exact Hkeep6|]. intros y Hy _.
        destruct (N.eq_dec y curObj) as [->|Hne].
        - split; [exists [p]; exact Hkc6|]. intros F. exfalso. apply F. reflexivity.
        - assert (Hy5 : glive g5 y) by (apply glive_append; apply (ge_live _ _ Hext2); exact Hy).
          destruct (fr_kids _ _ _ _ _ _ _ G3 y Hy5) as (_ & Hex); [intros []|].
          assert (E6 : kids g6 y = kids g y).
          { rewrite Hex; [|intros E; subst y; contradiction]. rewrite (Hk5' y Hne). apply Hks2. }
          rewrite E6. split; [exists []; rewrite app_nil_r; reflexivity|reflexivity]. }
      split; [intros [Hr|Hr]; discriminate|]. split; [intros E; discriminate|]. split; [exact I|].
      split; [lia|]. split; [intros [Hr|Hr]; discriminate|].
      split; [intros E; discriminate|]. split; [intros E; discriminate|]. split; [intros E; discriminate|]. split; [intros E; discriminate|intros E; discriminate]. }
  destruct (G5 eq_refl) as (K1 & K2 & K3).
  rewrite Est5 in K3.
  wbi tbls I6. eapply wp_scopeExit; [exact K3|]. intros I7.
  set (s7 := with_scopeStack s6 (p_scopeStack s)) in *.
  assert (H7 : FD s7 g6).
  { apply FI_with_scope; [exact H6|]. pose proof (fi_scopes _ _ H6) as Fs. rewrite K3 in Fs. inversion Fs; auto. }
  wbi tbls I7. eapply (detach_last_step _ curObj p s7 g g6); [exact H7|exact Hwf|exact Hext6|exact Hl|exact Hfresh2|exact Hkc6|].
  intros t8 g8 H8 Hext8 Hpf8 Hkc8 Hkq8 Hlive8 Hroot8 I8.
  set (s8 := with_tree s7 t8) in *.
  apply wp_ret. unfold ArgPost. exists g8. split; [exact H8|].
  split; [apply (HX6 s8); auto; [right; exists p; exact K3|exists []; reflexivity]|].
  assert (Hkids8 : forall y, glive g y -> kids g8 y = kids g y).
  { intros y Hy. destruct (N.eq_dec y curObj) as [->|Hne]; [exact Hkc8|].
    rewrite (Hkq8 y Hne).
    assert (Hy5 : glive g5 y) by (apply glive_append; apply (ge_live _ _ Hext2); exact Hy).
    destruct (fr_kids _ _ _ _ _ _ _ G3 y Hy5) as (_ & Hex); [intros []|].
    rewrite Hex; [|intros E; subst y; contradiction]. rewrite (Hk5' y Hne). apply Hks2. }
  assert (F8 : Fr NoP NoP NoP s g s8 g8).
  { constructor; [apply keep_pframe; [exact Hkeep6|exact Hpf8]|]. intros y Hy _. rewrite (Hkids8 y Hy).
    split; [exists []; rewrite app_nil_r; reflexivity|reflexivity]. }
  split; [eapply Fr_weaken; [| | |exact F8]; auto; intros y _ []|].
  split; [intros _ _; apply Hkids8; exact Hl|]. split; [intros E; discriminate|].
  split; [cbn [fresh_root]; split; [exact Hfresh2|split; [exact Hlive8|exact Hroot8]]|].
  assert (EP8 : Psi s8 = Psi s6) by (unfold Psi, lp, rem, s8, s7; pcbn; rewrite (proj1 Hpf8); reflexivity).
  split; [lia|].
  split.
  { intros _. split; [change (ucost aml_pArgTypeTermList) with 1; lia|]. split; [reflexivity|].
    apply TM_NoX_any.
    eapply (TM_frame2 NoX NoX NoP NoP NoP s g s8 g8 Hwf HR HTM F8); try (intros; contradiction); try apply Eok_NoP.
    intros m mo Hm Hmop Hnl. right.
    unfold s8 in Hm. pcbn_in Hm.
    destruct (pframe_inv _ _ _ _ Hpf8 Hm) as (mo6 & Hm6 & E6 & _).
    assert (Ht6 : mtyped s6 g6 m) by (apply (K2 m mo6 Hm6); [congruence|intros []]).
    assert (Hmc : m <> curObj) by (intros E; subst m; contradiction).
    assert (Ht7 : mtyped s7 g6 m).
    { destruct Ht6 as (a0 & a1 & rest & a0o & a1o & v & Q). exists a0, a1, rest, a0o, a1o, v. exact Q. }
    exact (mtyped_pframe_kids s7 g6 t8 g8 m curObj (R_gwf _ _ (fi_R _ _ H6)) Ht7 Hpf8 Hkq8 Hmc (nnp_keep NoP s g s6 curObj Hkeep6 HR Hl Hnnp)). }
  split; [intros E; discriminate|]. split; [intros _ E; discriminate|]. split; [intros _ E; discriminate|]. split; [intros _ E; discriminate|intros _ E; discriminate].
Qed.

Lemma roomD_mono k s : roomD k s -> roomD 0 s.
Proof. unfold roomD. lia. Qed.

Lemma nolook_split argTy : nolook argTy = simple_ty argTy || (argTy =? aml_pArgTypeByteList) || (argTy =? aml_pArgTypePkgLen) || (argTy =? aml_pArgTypeFieldList).
Proof. reflexivity. Qed.

Lemma step_Darg fuel : D_strict tbls fuel -> D_termlist tbls fuel -> D_target tbls fuel -> D_arg tbls (S fuel).
Proof.
  intros IHs IHt IHg op fl af curObj argTy s g H I0 H0 Hl Hroom Hfl HTM Hnnp.
  assert (K : wp True (parseArg (S fuel) (op, fl, af) curObj argTy) s (ArgPost curObj argTy s g));
    [|eapply wp_weaken; [exact K|auto|intros [a res] s' Hp; exact Hp]].
  cbn [parseArg].
  change ((argTy =? aml_pArgTypeByteData) || (argTy =? aml_pArgTypeWordData) || (argTy =? aml_pArgTypeDwordData) ||
          (argTy =? aml_pArgTypeQwordData) || (argTy =? aml_pArgTypeString) || (argTy =? aml_pArgTypeNameString)) with (simple_ty argTy).
  destruct (simple_ty argTy) eqn:Es.
  { apply arg_simple; auto. eapply roomD_mono; eauto. }
  destruct (N.eqb_spec argTy aml_pArgTypeByteList) as [E1|E1].
  { subst argTy. apply arg_bytelist; auto. }
  destruct (N.eqb_spec argTy aml_pArgTypePkgLen) as [E2|E2].
  { subst argTy. apply (arg_pkglen curObj fl); auto. }
  destruct (N.eqb_spec argTy aml_pArgTypeFieldList) as [E3|E3].
  { subst argTy. destruct (Hfl eq_refl) as (Hp & HLN & Hhf). apply arg_fieldlist; auto. }
  assert (Hnl : nolook argTy = false).
  { rewrite nolook_split, Es. apply N.eqb_neq in E1. apply N.eqb_neq in E2. apply N.eqb_neq in E3. rewrite E1, E2, E3. reflexivity. }
  assert (N4 : argTy <> aml_pArgTypeByteData) by (intros ->; vm_compute in Es; discriminate).
  assert (N5 : argTy <> aml_pArgTypeNameString) by (intros ->; vm_compute in Es; discriminate).
  destruct ((argTy =? aml_pArgTypeTermArg) || (argTy =? aml_pArgTypeDataRefObj)) eqn:E4.
  { apply wp_bind, wp_get. rewrite (fi_skip _ _ H).
    apply (arg_strict fuel curObj argTy s g IHs); auto; [|eapply roomD_mono; eauto].
    apply orb_true_iff in E4. destruct E4 as [E|E]; apply N.eqb_eq in E; auto. }
  destruct (N.eqb_spec argTy aml_pArgTypeTermList) as [E5|E5].
  { subst argTy. apply (arg_termlist fuel curObj s g IHt); auto. }
  apply (arg_target fuel curObj argTy s g IHg); auto. eapply roomD_mono; eauto.
Qed.

End StepA.
