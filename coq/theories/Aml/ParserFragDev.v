(** C11 (fragment proofs): the first pass on the header of a Device (or Scope) block:
    opcode, PkgLength, name path, and the ScopeBlock that becomes the current scope. *)
From Coq Require Import NArith ZArith Arith List Bool Lia.
From Coq Require Import ZifyBool ZifyN ZifyNat.
From FF Require Import Lib.Word Gen.Consts_device_acpi_aml Gen.Consts_aml_tree Aml.Stream Aml.Lex Aml.LexProofs
  Aml.Tree Aml.TreeSpec Aml.TreeProofs Aml.TreeProofsOps Aml.TreeProofsFind Aml.Parser Aml.Grammar Aml.LexRoundtrip
  Aml.ParserTotalTree Aml.ParserTotalTree2 Aml.ParserTotalLex Aml.ParserTotalTable Aml.ParserTotalBase
  Aml.ParserFragBase Aml.ParserFragFirst.
Import ListNotations.
Local Open Scope N_scope.

Ltac Zify.zify_post_hook ::= Z.div_mod_to_equations.

Lemma parseArg_PkgLen f op flags af cur :
  parseArg (S f) (op, flags, af) cur aml_pArgTypePkgLen =
  (mlet origOffset <~ offsetM ;;
   mlet '(pkgLen, ok) <~ lex parsePkgLength ;;
   if negb ok then ret (None, RFailed) else
   mlet allBlocks <~ get p_allBlocks ;;
   if negb allBlocks && hasFlag flags aml_pOpFlagDeferParsing then
     wrf cur (set_pkgEnd (w32 (origOffset + pkgLen))) ;;;
     setOffsetM (w32 (origOffset + pkgLen)) ;;;
     ret (None, RShort)
   else
     mlet ok2 <~ pushPkgEnd (w32 (origOffset + pkgLen)) ;;
     ret (None, pres_of_bool ok2)).
Proof. reflexivity. Qed.

Lemma parseArg_TermList f inf cur :
  parseArg (S f) inf cur aml_pArgTypeTermList =
  (mlet scope <~ newObj aml_pOpIntScopeBlock ;;
   mlet off <~ offsetM ;;
   wrf scope (set_amlOffset off) ;;;
   mlet scopeIndex <~ rdf scope o_index ;;
   scopeEnter scopeIndex ;;;
   mlet allBlocks <~ get p_allBlocks ;;
   if negb allBlocks then ret (Some scope, RShort) else
   appendM (Some cur) scope ;;;
   mlet ok <~ termList_go f ;;
   if negb ok then ret (None, RFailed) else
   scopeExit ;;;
   detachM (Some cur) (Some scope) ;;;
   ret (Some scope, ROk)).
Proof. destruct inf as [[a b] c]. reflexivity. Qed.

Lemma parseArgs_S f op flags af cur argIndex : parseArgs (S f) (op, flags, af) cur argIndex =
  (let cnt := argCount af in
   if cnt =? 0 then ret ROk else
   if cnt <=? argIndex then ret ROk else
   mlet '(argObj, res) <~ parseArg f (op, flags, af) cur (argType af argIndex) ;;
   (match argObj with Some a => appendM (Some cur) a | None => ret tt end) ;;;
   if pres_eqb res ROk then parseArgs f (op, flags, af) cur (w8 (argIndex + 1)) else ret res).
Proof. reflexivity. Qed.

Lemma wp_pushPkgEnd' P e s (Q : bool -> pstate -> Prop) : e <= r_len (p_r s) ->
  Q true (with_r (with_pkgEndStack s (e :: p_pkgEndStack s)) (set_pkgEnd_raw (p_r s) e)) -> wp P (pushPkgEnd e) s Q.
Proof.
  intros He K. unfold pushPkgEnd, wp, bindM, setPkgEndM, setPkgEnd. scbn.
  assert (E : r_len (p_r s) <? e = false) by (apply N.ltb_ge; exact He). rewrite E. exact K.
Qed.

(** the PkgLength argument of a block that is parsed in the first pass *)
Lemma arg_pkglen f op flags af cur s pre k v rest post (Q : option N * pres -> pstate -> Prop) :
  at_token (p_r s) pre (enc_pkglen k v ++ rest) post -> pkglen_admissible k v -> lenN pre + v <= r_len (p_r s) ->
  p_allBlocks s = false -> hasFlag flags aml_pOpFlagDeferParsing = false ->
  Q (None, ROk) (with_r (with_pkgEndStack s (lenN pre + v :: p_pkgEndStack s))
                        (set_pkgEnd_raw (set_offset_raw (p_r s) (lenN pre + k)) (lenN pre + v))) ->
  wp False (parseArg (S f) (op, flags, af) cur aml_pArgTypePkgLen) s Q.
Proof.
  intros Hat Hadm Hend Hab Hdefer K. rewrite parseArg_PkgLen. unfold offsetM, rq. apply wp_bind, wp_get.
  apply wp_bind. apply wp_lex. exists v, true, (set_offset_raw (p_r s) (lenN pre + k)). split.
  { apply (pkglen_roundtrip k v (p_r s) pre (rest ++ post) Hadm). apply at_split. exact Hat. }
  cbv beta iota. cbn [negb]. apply wp_bind, wp_get. scbn. rewrite Hab, Hdefer. cbn [negb andb].
  destruct (at_token_facts _ _ _ _ Hat) as (Ooff & Eend & Wb & Wc). rewrite Ooff.
  assert (Hw : w32 (lenN pre + v) = lenN pre + v) by (apply w32_small; lia). rewrite Hw.
  apply wp_bind. apply wp_pushPkgEnd'; [scbn; cbn [r_len set_offset_raw]; exact Hend|].
  apply wp_ret. cbn [pres_of_bool]. exact K.
Qed.

(** the TermList argument in the first pass: the ScopeBlock becomes the current scope *)
Lemma arg_termlist f inf cur s g pl (Q : option N * pres -> pstate -> Prop) :
  Rep (p_tree s) g pl -> g_free g = [] -> N.of_nat (length pl) < InvalidIndex -> p_allBlocks s = false ->
  (forall t', Rep t' (gnew g) (pl ++ [mkPay aml_pOpIntScopeBlock 113 (p_handle s) name_zero (r_offset (p_r s)) 0 None]) ->
     Q (Some (N.of_nat (length pl)), RShort) (with_scopeStack (with_tree s t') (N.of_nat (length pl) :: p_scopeStack s))) ->
  wp False (parseArg (S f) inf cur aml_pArgTypeTermList) s Q.
Proof.
  intros H Hfree Hroom Hab K. rewrite parseArg_TermList.
  apply wp_bind. eapply (wp_newObj_rep False aml_pOpIntScopeBlock 113 s g pl); [exact H|exact Hfree|exact Hroom|discriminate|right; cbv; reflexivity|reflexivity|].
  intros t1 H1. unfold offsetM, rq. apply wp_bind, wp_get. scbn.
  apply wp_bind. eapply (wp_wrf_rep False _ _ (ys_off (r_offset (p_r s)))); [exact H1|apply pget_app_last|discriminate|apply st_amlOffset|].
  intros t2 H2. rewrite pupd_app_last in H2. unfold ys_off in H2; cbn [y_op y_info y_th y_name y_off y_pkgEnd y_val] in H2.
  apply wp_bind. eapply wp_rdf_rep; [exact H2|apply pget_app_last|discriminate|]. intros o _ Hidx _ _. rewrite Hidx.
  apply wp_bind. apply wp_scopeEnter. apply wp_bind, wp_get. scbn. rewrite Hab. cbn [negb]. apply wp_ret.
  exact (K t2 H2).
Qed.

(** the forest after the header: block object [n] below the scope, its name path [n+1] and ScopeBlock [n+2] *)
Definition g_block (g : ghost) (sc : N) : ghost :=
  let n := N.of_nat (length (g_kids g)) in
  set_kids (gnew (set_kids (gnew (g_head g sc)) n [n + 1])) n [n + 1; n + 2].

Lemma len_g_block g sc : length (g_kids (g_block g sc)) = S (S (S (length (g_kids g)))).
Proof. unfold g_block. cbv zeta. rewrite len_set_kids, len_gnew, len_set_kids, len_gnew, len_g_head. reflexivity. Qed.

Lemma kids_g_block g sc i : sc < N.of_nat (length (g_kids g)) ->
  let n := N.of_nat (length (g_kids g)) in
  kids (g_block g sc) i = if i =? n then [n + 1; n + 2] else if i =? sc then kids g sc ++ [n] else kids g i.
Proof.
  intros Hsc n. unfold g_block. cbv zeta. fold n.
  rewrite kids_set_kids by (rewrite len_gnew, len_set_kids, len_gnew, len_g_head; lia).
  destruct (N.eqb_spec i n) as [E|E]; [reflexivity|].
  rewrite kids_gnew. rewrite kids_set_kids by (rewrite len_gnew, len_g_head; lia).
  apply N.eqb_neq in E. rewrite E. rewrite kids_gnew, kids_g_head by exact Hsc. reflexivity.
Qed.

Definition blk_pays (s : pstate) (op info off k : N) : list pay :=
  [mkPay op info (p_handle s) name_zero off 0 None;
   path_pay s (off + lenN (enc_op op) + k) 4;
   mkPay aml_pOpIntScopeBlock 113 (p_handle s) name_zero (off + lenN (enc_op op) + k + 4) 0 None].

(** the state after the header *)
Definition after_block (s : pstate) (off' e : N) (t' : T) : pstate :=
  with_tree
    (with_scopeStack
       (with_pkgEndStack (with_r s (set_pkgEnd_raw (set_offset_raw (p_r s) off') e)) (e :: p_pkgEndStack s))
       (N.of_nat (length (t_pool (p_tree s))) + 2 :: p_scopeStack s))
    t'.

Lemma next_block f op info flags s g pl pre k v seg rest post sc scs a :
  Rep (p_tree s) g pl -> g_free g = [] -> N.of_nat (length pl) + 2 < InvalidIndex ->
  at_token (p_r s) pre (enc_op op ++ enc_pkglen k v ++ seg_bytes seg ++ rest) post ->
  valid_opcode op -> op <> aml_pOpNoop -> op <> opFreed -> is_prefix_op op = false ->
  opcodeTableIndex op true = Some info -> opInfo info = Some (op, flags, 67855) -> hasFlag flags aml_pOpFlagDeferParsing = false ->
  pkglen_admissible k v -> 4 + k <= v -> lenN pre + lenN (enc_op op) + v <= r_len (p_r s) ->
  lead_okb (seg_lead seg) = true ->
  p_scopeStack s = sc :: scs -> pget pl sc = Some a -> y_op a <> opFreed -> p_allBlocks s = false ->
  wp False (parseNextObject (S (S (S (S (S (S f))))))) s (fun res s' => res = ROk /\ exists t',
    s' = after_block s (lenN pre + lenN (enc_op op) + k + 4) (lenN pre + lenN (enc_op op) + v) t' /\
    Rep t' (g_block g sc) (pl ++ blk_pays s op info (lenN pre) k)).
Proof.
  intros H Hfree Hroom Hat Hvalid Hnoop Hnf Hnp Hidx Hinfo Hdefer Hadm Hv4 Hend Hlead Est Hsc Hlsc Hab.
  pose proof (rep_len_g _ _ _ H) as Hlg. pose proof (rep_len_pool _ _ _ H) as Hlp.
  assert (Hsclt : sc < N.of_nat (length pl)) by (eapply pget_lt; eauto).
  set (lo := lenN (enc_op op)) in *.
  eapply (next_head _ op info s g pl pre _ post sc scs a);
    [exact H|exact Hfree|lia|exact Hat|exact Hvalid|exact Hnoop|exact Hnf|exact Hidx|exact Est|exact Hsc|exact Hlsc|].
  intros t1 H1. fold lo.
  set (a1 := mkPay op info (p_handle s) name_zero (lenN pre) 0 None) in *.
  set (pl1 := pl ++ [a1]) in *.
  assert (Hl1 : length pl1 = S (length pl)) by (unfold pl1; rewrite app_length; cbn [length]; lia).
  assert (Hn : pget pl1 (N.of_nat (length pl)) = Some a1) by apply pget_app_last.
  eapply (objargs_other _ _ a1 (op, flags, 67855) _ _ pl1); [exact H1|exact Hn|exact Hnf|exact Hnp|exact Hinfo|].
  (* argument 0: the PkgLength *)
  rewrite parseArgs_S. change (argCount 67855) with 3. cbv zeta. change (3 =? 0) with false. change (3 <=? 0) with false. cbv iota.
  change (argType 67855 0) with aml_pArgTypePkgLen.
  pose proof (at_adv (p_r s) pre (enc_op op) _ post Hat) as Hat1. fold lo in Hat1.
  apply wp_bind.
  eapply (arg_pkglen _ op flags 67855 _ _ (pre ++ enc_op op) k v (seg_bytes seg ++ rest) post); [exact Hat1|exact Hadm| |exact Hab|exact Hdefer|].
  { rewrite lenN_app. fold lo. exact Hend. }
  cbv beta iota. apply wp_bind. apply wp_ret. change (pres_eqb ROk ROk) with true. cbv iota. change (w8 (0 + 1)) with 1.
  rewrite lenN_app. fold lo. set (e := lenN pre + lo + v).
  (* argument 1: the name *)
  rewrite parseArgs_S. change (argCount 67855) with 3. cbv zeta. change (3 =? 0) with false. change (3 <=? 1) with false. cbv iota.
  change (argType 67855 1) with aml_pArgTypeNameString. rewrite parseArg_NameString.
  destruct (at_token_facts _ _ _ _ Hat) as (Ooff & Eend & Wb & Wc).
  assert (Hlk : lenN (enc_pkglen k v) = k).
  { destruct Hadm as [(-> & _)|[(-> & _)|[(-> & _)|(-> & _)]]]; reflexivity. }
  assert (Hat2 : at_token (set_pkgEnd_raw (set_offset_raw (p_r s) (lenN pre + lo + k)) e) ((pre ++ enc_op op) ++ enc_pkglen k v)
                   (enc_name (seg_name seg) ++ []) (rest ++ post)).
  { rewrite enc_seg_name, app_nil_r.
    pose proof (at_adv _ (pre ++ enc_op op) (enc_pkglen k v) (seg_bytes seg ++ rest) post Hat1) as A.
    rewrite Hlk, lenN_app in A. destruct A as [D O E W]. constructor.
    - cbn [r_data set_pkgEnd_raw set_offset_raw] in D |- *. rewrite D, <- !app_assoc. reflexivity.
    - exact O.
    - cbn [r_pkgEnd set_pkgEnd_raw]. rewrite !lenN_app, Hlk. change (lenN (seg_bytes seg)) with 4. unfold e, lo. lia.
    - destruct W as (W1 & W2 & W3 & W4). unfold reader_wf. cbn. repeat split; auto; unfold e, lo; lia. }
  apply wp_bind.
  eapply (simpleArg_name (seg_name seg) _ _ pl1 _ [] (rest ++ post)); [exact H1|apply free_g_head|lia|exact Hat2|apply wf_seg_name; exact Hlead|rewrite slice_seg_name; lia|].
  intros t2 H2. cbv beta iota.
  rewrite ?slice_seg_name, ?enc_seg_name, ?lenN_app, ?Hlk in H2. rewrite ?slice_seg_name, ?enc_seg_name, ?lenN_app, ?Hlk. fold lo in H2 |- *. change (lenN (seg_bytes seg)) with 4.
  (* append the path to the block object *)
  assert (Hlg1 : length (g_kids (gnew (g_head g sc))) = S (S (length pl))) by (rewrite len_gnew, len_g_head; lia).
  assert (Hlive_n : glive (gnew (g_head g sc)) (N.of_nat (length pl))) by (split; [rewrite Hlg1; lia|cbn; tauto]).
  assert (Hlive_p : glive (gnew (g_head g sc)) (N.of_nat (length pl1))) by (split; [rewrite Hlg1; lia|cbn; tauto]).
  assert (Hkn : kids (g_head g sc) (N.of_nat (length pl)) = []).
  { rewrite kids_g_head by lia. destruct (N.eqb_spec (N.of_nat (length pl)) sc); [lia|]. apply kids_oob. lia. }
  apply wp_bind. eapply wp_append_rep; [exact H2|exact Hlive_n|exact Hlive_p| | |].
  { replace (N.of_nat (length pl1)) with (N.of_nat (length (g_kids (g_head g sc)))) by (rewrite len_g_head; lia).
    eapply groot_fresh. apply (rep_R _ _ _ H1). }
  { intros Hd. apply desc_leaf in Hd; [lia|]. rewrite kids_gnew. apply kids_oob. rewrite len_g_head. lia. }
  intros t3 H3. rewrite kids_gnew, Hkn in H3. cbn [app] in H3.
  change (pres_eqb ROk ROk) with true. cbv iota. change (w8 (1 + 1)) with 2.
  (* argument 2: the ScopeBlock *)
  rewrite parseArgs_S. change (argCount 67855) with 3. cbv zeta. change (3 =? 0) with false. change (3 <=? 2) with false. cbv iota.
  change (argType 67855 2) with aml_pArgTypeTermList.
  set (g3 := set_kids (gnew (g_head g sc)) (N.of_nat (length pl)) [N.of_nat (length pl1)]) in *.
  set (pl2 := pl1 ++ [path_pay _ (lenN pre + lo + k) 4]) in *.
  assert (Hl2 : length pl2 = S (S (length pl))) by (unfold pl2; rewrite app_length; cbn [length]; lia).
  apply wp_bind.
  eapply (arg_termlist _ _ _ _ g3 pl2); [exact H3|reflexivity|lia|exact Hab|].
  intros t4 H4. cbv beta iota.
  assert (Hlg3 : length (g_kids (gnew g3)) = S (S (S (length pl)))) by (unfold g3; rewrite len_gnew, len_set_kids, Hlg1; reflexivity).
  assert (Hkn3 : kids (gnew g3) (N.of_nat (length pl)) = [N.of_nat (length pl1)]).
  { rewrite kids_gnew. unfold g3. rewrite kids_set_kids by (rewrite Hlg1; lia). rewrite N.eqb_refl. reflexivity. }
  apply wp_bind. eapply wp_append_rep; [exact H4| | | | |].
  { split; [rewrite Hlg3; lia|cbn; tauto]. }
  { split; [rewrite Hlg3; lia|cbn; tauto]. }
  { replace (N.of_nat (length pl2)) with (N.of_nat (length (g_kids g3))) by (unfold g3; rewrite len_set_kids, Hlg1; lia).
    eapply groot_fresh. apply (rep_R _ _ _ H3). }
  { intros Hd. apply desc_leaf in Hd; [lia|]. rewrite kids_gnew. apply kids_oob. unfold g3. rewrite len_set_kids, Hlg1. lia. }
  intros t5 H5. rewrite Hkn3 in H5. cbn [app] in H5.
  change (pres_eqb RShort ROk) with false. cbv iota. apply wp_ret.
  split; [reflexivity|]. exists t5. split.
  - unfold after_block. rewrite <- Hlp. replace (N.of_nat (length pl) + 2) with (N.of_nat (length pl2)) by lia. reflexivity.
  - unfold g_block. cbv zeta. rewrite Hlg.
    assert (E1 : N.of_nat (length pl1) = N.of_nat (length pl) + 1) by lia.
    assert (E2 : N.of_nat (length pl2) = N.of_nat (length pl) + 2) by lia.
    unfold g3 in H5. rewrite E1, E2 in H5.
    unfold blk_pays. fold lo. unfold pl2, pl1 in H5. rewrite <- !app_assoc in H5. cbn [app] in H5. exact H5.
Qed.

(** ---- a ByteData argument ---- *)
Lemma simpleArg_byte_eq :
  parseSimpleArg aml_pArgTypeByteData =
  (mlet obj <~ newObj 0 ;;
   mlet off <~ offsetM ;;
   wrf obj (set_amlOffset off) ;;;
   mlet tbl <~ curTable ;;
   wrf obj (set_opcode aml_pOpBytePrefix) ;;;
   mlet '(v, ok) <~ lex (parseNumConstant 1) ;;
   wrf obj (set_value (Some (VNum v))) ;;;
   mlet idx <~ tableIndex aml_pOpBytePrefix true ;;
   wrf obj (set_infoIndex idx) ;;;
   ret (Some obj, pres_of_bool ok)).
Proof. reflexivity. Qed.

Lemma parseArg_ByteData f inf cur : parseArg (S f) inf cur aml_pArgTypeByteData = parseSimpleArg aml_pArgTypeByteData.
Proof. destruct inf as [[a b] c]. reflexivity. Qed.

Definition byte_pay (s : pstate) (off v : N) : pay :=
  mkPay aml_pOpBytePrefix 4 (p_handle s) name_zero off 0 (Some (VNum v)).

Lemma simpleArg_byte v s g pl pre rest post (Q : option N * pres -> pstate -> Prop) :
  Rep (p_tree s) g pl -> g_free g = [] -> N.of_nat (length pl) < InvalidIndex ->
  at_token (p_r s) pre ([v] ++ rest) post -> v < 256 ->
  (forall t', Rep t' (gnew g) (pl ++ [byte_pay s (lenN pre) v]) ->
     Q (Some (N.of_nat (length pl)), ROk) (with_tree (with_r s (set_offset_raw (p_r s) (lenN pre + 1))) t')) ->
  wp False (parseSimpleArg aml_pArgTypeByteData) s Q.
Proof.
  intros H Hfree Hroom Hat Hv K. rewrite simpleArg_byte_eq.
  apply wp_bind. eapply (wp_newObj_rep False 0 0 s g pl); [exact H|exact Hfree|exact Hroom|discriminate| |reflexivity|].
  { left. lia. }
  intros t1 H1. unfold offsetM, rq. apply wp_bind, wp_get. scbn.
  apply wp_bind. eapply (wp_wrf_rep False _ _ (ys_off (r_offset (p_r s)))); [exact H1|apply pget_app_last|discriminate|apply st_amlOffset|].
  intros t2 H2. rewrite pupd_app_last in H2. unfold ys_off in H2; cbn [y_op y_info y_th y_name y_off y_pkgEnd y_val] in H2.
  rewrite (at_off _ _ _ _ Hat) in H2.
  unfold curTable. apply wp_bind, wp_get. scbn.
  apply wp_bind. eapply (wp_wrf_rep False _ _ (ys_opcode aml_pOpBytePrefix)); [exact H2|apply pget_app_last|discriminate|apply st_opcode; discriminate|].
  intros t3 H3. rewrite pupd_app_last in H3. unfold ys_opcode in H3; cbn [y_op y_info y_th y_name y_off y_pkgEnd y_val] in H3.
  apply wp_bind. apply wp_lex.
  exists v, true, (set_offset_raw (p_r s) (lenN pre + 1)). split.
  { assert (E : [v] = Grammar.le_bytes 1 v).
    { cbn [Grammar.le_bytes]. rewrite land_255. rewrite N.mod_small by exact Hv. reflexivity. }
    apply (num_roundtrip 1 v (p_r s) pre (rest ++ post)); [lia|change (2 ^ (N.of_nat 1 * 8)) with 256; exact Hv|].
    rewrite <- E. apply at_split. exact Hat. }
  cbv beta iota.
  apply wp_bind. eapply (wp_wrf_rep False _ _ (ys_val _)); [exact H3|apply pget_app_last|discriminate|apply st_value|].
  intros t4 H4. rewrite pupd_app_last in H4. unfold ys_val in H4; cbn [y_op y_info y_th y_name y_off y_pkgEnd y_val] in H4.
  apply wp_bind. eapply wp_tableIndex; [reflexivity|].
  apply wp_bind. eapply (wp_wrf_rep False _ _ (ys_info _)); [exact H4|apply pget_app_last|discriminate|apply st_infoIndex|].
  intros t5 H5. rewrite pupd_app_last in H5. unfold ys_info in H5; cbn [y_op y_info y_th y_name y_off y_pkgEnd y_val] in H5.
  apply wp_ret. cbn [pres_of_bool]. apply K. exact H5.
Qed.

(** ---- the header of a Method: opcode, PkgLength, name path, flags byte, ScopeBlock ---- *)
Definition g_meth (g : ghost) (sc : N) : ghost :=
  let n := N.of_nat (length (g_kids g)) in
  set_kids (gnew (set_kids (gnew (set_kids (gnew (g_head g sc)) n [n + 1])) n [n + 1; n + 2])) n [n + 1; n + 2; n + 3].

Lemma len_g_meth g sc : length (g_kids (g_meth g sc)) = S (S (S (S (length (g_kids g))))).
Proof. unfold g_meth. cbv zeta. rewrite len_set_kids, len_gnew, len_set_kids, len_gnew, len_set_kids, len_gnew, len_g_head. reflexivity. Qed.

Lemma kids_g_meth g sc i : sc < N.of_nat (length (g_kids g)) ->
  let n := N.of_nat (length (g_kids g)) in
  kids (g_meth g sc) i = if i =? n then [n + 1; n + 2; n + 3] else if i =? sc then kids g sc ++ [n] else kids g i.
Proof.
  intros Hsc n. unfold g_meth. cbv zeta. fold n.
  rewrite kids_set_kids by (rewrite len_gnew, len_set_kids, len_gnew, len_set_kids, len_gnew, len_g_head; lia).
  destruct (N.eqb_spec i n) as [E|E]; [reflexivity|].
  rewrite kids_gnew. rewrite kids_set_kids by (rewrite len_gnew, len_set_kids, len_gnew, len_g_head; lia).
  apply N.eqb_neq in E. rewrite E. rewrite kids_gnew. rewrite kids_set_kids by (rewrite len_gnew, len_g_head; lia).
  rewrite E. rewrite kids_gnew, kids_g_head by exact Hsc. reflexivity.
Qed.

Definition meth_pays (s : pstate) (off k fl : N) : list pay :=
  [mkPay aml_pOpMethod 13 (p_handle s) name_zero off 0 None;
   path_pay s (off + 1 + k) 4;
   byte_pay s (off + 1 + k + 4) fl;
   mkPay aml_pOpIntScopeBlock 113 (p_handle s) name_zero (off + 1 + k + 5) 0 None].

Definition after_meth (s : pstate) (off' e : N) (t' : T) : pstate :=
  with_tree
    (with_scopeStack
       (with_pkgEndStack (with_r s (set_pkgEnd_raw (set_offset_raw (p_r s) off') e)) (e :: p_pkgEndStack s))
       (N.of_nat (length (t_pool (p_tree s))) + 3 :: p_scopeStack s))
    t'.

Lemma meth_facts : valid_opcode aml_pOpMethod /\ aml_pOpMethod <> aml_pOpNoop /\ aml_pOpMethod <> opFreed /\
  is_prefix_op aml_pOpMethod = false /\ opcodeTableIndex aml_pOpMethod true = Some 13 /\
  opInfo 13 = Some (aml_pOpMethod, 33, 17107215) /\ hasFlag 33 aml_pOpFlagDeferParsing = false.
Proof.
  repeat split; try discriminate; try reflexivity. exists 13. split; [reflexivity|discriminate].
Qed.

Lemma next_meth f s g pl pre k v seg fl rest post sc scs a :
  Rep (p_tree s) g pl -> g_free g = [] -> N.of_nat (length pl) + 3 < InvalidIndex ->
  at_token (p_r s) pre (enc_op aml_pOpMethod ++ enc_pkglen k v ++ seg_bytes seg ++ [fl] ++ rest) post ->
  pkglen_admissible k v -> 5 + k <= v -> lenN pre + 1 + v <= r_len (p_r s) ->
  lead_okb (seg_lead seg) = true -> fl < 256 ->
  p_scopeStack s = sc :: scs -> pget pl sc = Some a -> y_op a <> opFreed -> p_allBlocks s = false ->
  wp False (parseNextObject (S (S (S (S (S (S (S f)))))))) s (fun res s' => res = ROk /\ exists t',
    s' = after_meth s (lenN pre + 1 + k + 5) (lenN pre + 1 + v) t' /\
    Rep t' (g_meth g sc) (pl ++ meth_pays s (lenN pre) k fl)).
Proof.
  intros H Hfree Hroom Hat Hadm Hv4 Hend Hlead Hfl Est Hsc Hlsc Hab.
  destruct meth_facts as (Hvalid & Hnoop & Hnf & Hnp & Hidx & Hinfo & Hdefer).
  pose proof (rep_len_g _ _ _ H) as Hlg. pose proof (rep_len_pool _ _ _ H) as Hlp.
  assert (Hsclt : sc < N.of_nat (length pl)) by (eapply pget_lt; eauto).
  change (lenN (enc_op aml_pOpMethod)) with 1 in *.
  eapply (next_head _ aml_pOpMethod 13 s g pl pre _ post sc scs a);
    [exact H|exact Hfree|lia|exact Hat|exact Hvalid|exact Hnoop|exact Hnf|exact Hidx|exact Est|exact Hsc|exact Hlsc|].
  intros t1 H1. change (lenN (enc_op aml_pOpMethod)) with 1.
  set (a1 := mkPay aml_pOpMethod 13 (p_handle s) name_zero (lenN pre) 0 None) in *.
  set (pl1 := pl ++ [a1]) in *.
  assert (Hl1 : length pl1 = S (length pl)) by (unfold pl1; rewrite app_length; cbn [length]; lia).
  assert (Hn : pget pl1 (N.of_nat (length pl)) = Some a1) by apply pget_app_last.
  eapply (objargs_other _ _ a1 (aml_pOpMethod, 33, 17107215) _ _ pl1); [exact H1|exact Hn|exact Hnf|exact Hnp|exact Hinfo|].
  (* argument 0: the PkgLength *)
  rewrite parseArgs_S. change (argCount 17107215) with 4. cbv zeta. change (4 =? 0) with false. change (4 <=? 0) with false. cbv iota.
  change (argType 17107215 0) with aml_pArgTypePkgLen.
  pose proof (at_adv (p_r s) pre (enc_op aml_pOpMethod) _ post Hat) as Hat1. change (lenN (enc_op aml_pOpMethod)) with 1 in Hat1.
  apply wp_bind.
  eapply (arg_pkglen _ aml_pOpMethod 33 17107215 _ _ (pre ++ enc_op aml_pOpMethod) k v (seg_bytes seg ++ [fl] ++ rest) post); [exact Hat1|exact Hadm| |exact Hab|exact Hdefer|].
  { rewrite lenN_app. change (lenN (enc_op aml_pOpMethod)) with 1. exact Hend. }
  cbv beta iota. apply wp_bind. apply wp_ret. change (pres_eqb ROk ROk) with true. cbv iota. change (w8 (0 + 1)) with 1.
  rewrite lenN_app. change (lenN (enc_op aml_pOpMethod)) with 1. set (e := lenN pre + 1 + v).
  (* argument 1: the name *)
  rewrite parseArgs_S. change (argCount 17107215) with 4. cbv zeta. change (4 =? 0) with false. change (4 <=? 1) with false. cbv iota.
  change (argType 17107215 1) with aml_pArgTypeNameString. rewrite parseArg_NameString.
  destruct (at_token_facts _ _ _ _ Hat) as (Ooff & Eend & Wb & Wc).
  assert (Hlk : lenN (enc_pkglen k v) = k).
  { destruct Hadm as [(-> & _)|[(-> & _)|[(-> & _)|(-> & _)]]]; reflexivity. }
  pose proof (at_adv _ (pre ++ enc_op aml_pOpMethod) (enc_pkglen k v) (seg_bytes seg ++ [fl] ++ rest) post Hat1) as A.
  rewrite Hlk, lenN_app in A. change (lenN (enc_op aml_pOpMethod)) with 1 in A.
  set (pre2 := (pre ++ enc_op aml_pOpMethod) ++ enc_pkglen k v) in *.
  assert (Hlpre2 : lenN pre2 = lenN pre + 1 + k).
  { unfold pre2. rewrite !lenN_app, Hlk. change (lenN (enc_op aml_pOpMethod)) with 1. reflexivity. }
  assert (Hat2 : at_token (set_pkgEnd_raw (set_offset_raw (p_r s) (lenN pre + 1 + k)) e) pre2 (enc_name (seg_name seg) ++ [fl]) (rest ++ post)).
  { rewrite enc_seg_name. destruct A as [D O E W]. constructor.
    - cbn [r_data set_pkgEnd_raw set_offset_raw] in D |- *. rewrite D, <- !app_assoc. reflexivity.
    - exact O.
    - cbn [r_pkgEnd set_pkgEnd_raw]. rewrite Hlpre2, lenN_app. change (lenN (seg_bytes seg)) with 4. change (lenN [fl]) with 1. unfold e. lia.
    - destruct W as (W1 & W2 & W3 & W4). unfold reader_wf. cbn. repeat split; auto; unfold e; lia. }
  apply wp_bind.
  eapply (simpleArg_name (seg_name seg) _ _ pl1 _ [fl] (rest ++ post)); [exact H1|apply free_g_head|lia|exact Hat2|apply wf_seg_name; exact Hlead|rewrite slice_seg_name; lia|].
  intros t2 H2. cbv beta iota.
  rewrite ?slice_seg_name, ?enc_seg_name, ?Hlpre2 in H2. rewrite ?slice_seg_name, ?enc_seg_name, ?Hlpre2. change (lenN (seg_bytes seg)) with 4.
  (* append the path to the Method object *)
  assert (Hlg1 : length (g_kids (gnew (g_head g sc))) = S (S (length pl))) by (rewrite len_gnew, len_g_head; lia).
  assert (Hkn : kids (g_head g sc) (N.of_nat (length pl)) = []).
  { rewrite kids_g_head by lia. destruct (N.eqb_spec (N.of_nat (length pl)) sc); [lia|]. apply kids_oob. lia. }
  apply wp_bind. eapply wp_append_rep; [exact H2| | | | |].
  { split; [rewrite Hlg1; lia|cbn; tauto]. }
  { split; [rewrite Hlg1; lia|cbn; tauto]. }
  { replace (N.of_nat (length pl1)) with (N.of_nat (length (g_kids (g_head g sc)))) by (rewrite len_g_head; lia).
    eapply groot_fresh. apply (rep_R _ _ _ H1). }
  { intros Hd. apply desc_leaf in Hd; [lia|]. rewrite kids_gnew. apply kids_oob. rewrite len_g_head. lia. }
  intros t3 H3. rewrite kids_gnew, Hkn in H3. cbn [app] in H3.
  change (pres_eqb ROk ROk) with true. cbv iota. change (w8 (1 + 1)) with 2.
  set (g3 := set_kids (gnew (g_head g sc)) (N.of_nat (length pl)) [N.of_nat (length pl1)]) in *.
  set (pl2 := pl1 ++ [path_pay _ (lenN pre + 1 + k) 4]) in *.
  assert (Hl2 : length pl2 = S (S (length pl))) by (unfold pl2; rewrite app_length; cbn [length]; lia).
  assert (Hlg3 : length (g_kids g3) = S (S (length pl))) by (unfold g3; rewrite len_set_kids, Hlg1; reflexivity).
  (* argument 2: the flags byte *)
  rewrite parseArgs_S. change (argCount 17107215) with 4. cbv zeta. change (4 =? 0) with false. change (4 <=? 2) with false. cbv iota.
  change (argType 17107215 2) with aml_pArgTypeByteData. rewrite parseArg_ByteData.
  pose proof (at_adv _ pre2 (enc_name (seg_name seg)) ([fl]) (rest ++ post) Hat2) as A3.
  rewrite enc_seg_name, Hlpre2 in A3. change (lenN (seg_bytes seg)) with 4 in A3.
  apply wp_bind.
  eapply (simpleArg_byte fl _ g3 pl2 (pre2 ++ seg_bytes seg) [] (rest ++ post)); [exact H3|reflexivity|lia| |exact Hfl|].
  { rewrite app_nil_r. exact A3. }
  intros t4 H4. cbv beta iota.
  assert (Hlp3 : lenN (pre2 ++ seg_bytes seg) = lenN pre + 1 + k + 4) by (rewrite lenN_app, Hlpre2; reflexivity).
  rewrite Hlp3 in H4 |- *.
  set (pl3 := pl2 ++ [byte_pay _ (lenN pre + 1 + k + 4) fl]) in *.
  assert (Hl3 : length pl3 = S (S (S (length pl)))) by (unfold pl3; rewrite app_length; cbn [length]; lia).
  assert (Hkn3 : kids (gnew g3) (N.of_nat (length pl)) = [N.of_nat (length pl1)]).
  { rewrite kids_gnew. unfold g3. rewrite kids_set_kids by (rewrite Hlg1; lia). rewrite N.eqb_refl. reflexivity. }
  apply wp_bind. eapply wp_append_rep; [exact H4| | | | |].
  { split; [rewrite len_gnew, Hlg3; lia|cbn; tauto]. }
  { split; [rewrite len_gnew, Hlg3; lia|cbn; tauto]. }
  { replace (N.of_nat (length pl2)) with (N.of_nat (length (g_kids g3))) by (rewrite Hlg3; lia).
    eapply groot_fresh. apply (rep_R _ _ _ H3). }
  { intros Hd. apply desc_leaf in Hd; [lia|]. rewrite kids_gnew. apply kids_oob. rewrite Hlg3. lia. }
  intros t5 H5. rewrite Hkn3 in H5. cbn [app] in H5.
  change (pres_eqb ROk ROk) with true. cbv iota. change (w8 (2 + 1)) with 3.
  set (g5 := set_kids (gnew g3) (N.of_nat (length pl)) [N.of_nat (length pl1); N.of_nat (length pl2)]) in *.
  assert (Hlg5 : length (g_kids g5) = S (S (S (length pl)))) by (unfold g5; rewrite len_set_kids, len_gnew, Hlg3; reflexivity).
  (* argument 3: the ScopeBlock *)
  rewrite parseArgs_S. change (argCount 17107215) with 4. cbv zeta. change (4 =? 0) with false. change (4 <=? 3) with false. cbv iota.
  change (argType 17107215 3) with aml_pArgTypeTermList.
  apply wp_bind.
  eapply (arg_termlist _ _ _ _ g5 pl3); [exact H5|reflexivity|lia|exact Hab|].
  intros t6 H6. cbv beta iota.
  assert (Hkn5 : kids (gnew g5) (N.of_nat (length pl)) = [N.of_nat (length pl1); N.of_nat (length pl2)]).
  { rewrite kids_gnew. unfold g5. rewrite kids_set_kids by (rewrite len_gnew, Hlg3; lia). rewrite N.eqb_refl. reflexivity. }
  apply wp_bind. eapply wp_append_rep; [exact H6| | | | |].
  { split; [rewrite len_gnew, Hlg5; lia|cbn; tauto]. }
  { split; [rewrite len_gnew, Hlg5; lia|cbn; tauto]. }
  { replace (N.of_nat (length pl3)) with (N.of_nat (length (g_kids g5))) by (rewrite Hlg5; lia).
    eapply groot_fresh. apply (rep_R _ _ _ H5). }
  { intros Hd. apply desc_leaf in Hd; [lia|]. rewrite kids_gnew. apply kids_oob. rewrite Hlg5. lia. }
  intros t7 H7. rewrite Hkn5 in H7. cbn [app] in H7.
  change (pres_eqb RShort ROk) with false. cbv iota. apply wp_ret.
  split; [reflexivity|]. exists t7. split.
  - unfold after_meth. rewrite <- Hlp. replace (N.of_nat (length pl) + 3) with (N.of_nat (length pl3)) by lia.
    replace (lenN pre + 1 + k + 5) with (lenN pre + 1 + k + 4 + 1) by lia. reflexivity.
  - unfold g_meth. cbv zeta. rewrite Hlg.
    assert (E1 : N.of_nat (length pl1) = N.of_nat (length pl) + 1) by lia.
    assert (E2 : N.of_nat (length pl2) = N.of_nat (length pl) + 2) by lia.
    assert (E3 : N.of_nat (length pl3) = N.of_nat (length pl) + 3) by lia.
    unfold g5, g3 in H7. rewrite E1, E2, E3 in H7.
    unfold meth_pays. unfold pl3, pl2, pl1 in H7. rewrite <- !app_assoc in H7. cbn [app] in H7.
    replace (lenN pre + 1 + k + 4 + 1) with (lenN pre + 1 + k + 5) in H7 by lia. exact H7.
Qed.
