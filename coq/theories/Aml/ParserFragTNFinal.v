(** C11 (fragment TN): [parse_encode] for programs of ANY NUMBER of tables (at least one).

    The fragment: every table is a table of F7 (Name with integer / string / package-of-constants value, Device,
    ThermalZone, Processor, PowerResource, Method with declaration-only body, Mutex, Event, OperationRegion with
    constant arguments, nested to any depth; at the top level of a table also Scope(\SEG) / Scope(SEG) directives over the
    predefined scopes); all tables but the LAST one are without Scope directives (a merged Scope directive leaves three
    freed pool slots behind, which the next table would reuse: the layout of later tables is then no longer contiguous);
    6 + the sum of the encoded table lengths is below 2^28.
    Table number i (from 1) is parsed with handle i into the tree the earlier ones left: its first pass appends to the
    pool and to the root, all later passes walk the objects of the earlier tables as well and leave them alone (other
    table handle), and the namespace is the union of all tables.  Subsumes F7, T2 and T2F7. *)
From Coq Require Import NArith ZArith Arith List Bool Lia Permutation.
From Coq Require Import ZifyBool ZifyN ZifyNat.
From FF Require Import Lib.Word Gen.Consts_device_acpi_aml Gen.Consts_aml_tree Aml.Stream Aml.Lex Aml.LexProofs
  Aml.Tree Aml.TreeSpec Aml.Parser Aml.Grammar Aml.LexRoundtrip
  Aml.ParserFragBase Aml.ParserFragFirst Aml.ParserFragF0 Aml.ParserFragF0Conn Aml.ParserFragF0Top
  Aml.ParserFragRose Aml.ParserFragDev Aml.ParserFragArgs Aml.ParserFragF1 Aml.ParserFragF1First Aml.ParserFragF1Conn Aml.ParserFragF1Top
  Aml.View Aml.ParserFragView Aml.ParserFragF0View Aml.ParserFragF0Final Aml.ParserFragSort Aml.ParserFragF1View Aml.WfProgram
  Aml.ParserFragF1Final Aml.ParserFragScope Aml.ParserFragScope3 Aml.ParserFragF3Top Aml.ParserFragF3View Aml.ParserFragF3Final
  Aml.ParserFragF7Final Aml.ParserFragT2Top Aml.ParserFragTNTop Aml.ParserFragTNView.
Import ListNotations.
Local Open Scope N_scope.

Ltac Zify.zify_post_hook ::= Z.div_mod_to_equations.

Fixpoint f7_tables (l : list (list ast)) : option (list (list titem)) :=
  match l with
  | [] => Some []
  | p :: r => match f7_titems p, f7_tables r with Some ts, Some tss => Some (ts :: tss) | _, _ => None end
  end.

Definition in_fragment_TN (tables : list (list ast)) : bool :=
  match tables with
  | [] => false
  | _ => match f7_tables tables with
         | Some tss => forallb noscope (removelast tss) && (6 + lenN (flat_map encode_table tables) <? 0x10000000)
         | None => false
         end
  end.

Definition tables_ok (ts : list titem) : Prop := Forall tscope_ok ts /\ forallb tshape ts = true.

Lemma f7_tables_ast : forall l tss, f7_tables l = Some tss -> l = map (map titem_ast) tss /\ Forall tables_ok tss.
Proof.
  induction l as [|p r IH]; intros tss Hl; cbn [f7_tables] in Hl.
  - inversion Hl. split; [reflexivity|constructor].
  - destruct (f7_titems p) as [ts|] eqn:Ep; [|discriminate]. destruct (f7_tables r) as [tss'|] eqn:Er; [|discriminate].
    inversion Hl; subst tss. destruct (f7_titems_ast p ts Ep) as (-> & Hd & Hs). destruct (IH tss' eq_refl) as (-> & Hr).
    split; [reflexivity|constructor; [split; assumption|exact Hr]].
Qed.

Lemma wf_tables_okb : forall tss done, Forall tables_ok tss -> wf_tables done (map (map titem_ast) tss) = true ->
  Forall (fun ts => forallb titem_okb ts = true) tss.
Proof.
  induction tss as [|ts r IH]; intros done Hok Hwf; [constructor|]. cbn [map wf_tables] in Hwf. apply andb_prop in Hwf. destruct Hwf as [Hw Hr].
  pose proof (Forall_inv Hok) as (Hd & Hs). constructor; [apply (wf_titems _ _ ts Hs Hd Hw)|apply (IH _ (Forall_inv_tail Hok) Hr)].
Qed.

Lemma encode_tables tss : Forall tables_ok tss -> map encode_table (map (map titem_ast) tss) = map enc_titems tss.
Proof.
  induction 1 as [|ts r (Hd & Hs) Hr IH]; [reflexivity|]. cbn [map]. rewrite (encode_titems ts Hs), IH. reflexivity.
Qed.

Lemma entries_tables e tss : (forall d, 1 <= d <= 5 -> env_mem e [dseg d] = true) -> Forall tables_ok tss ->
  flat_map (fun t => flat_map (entries e []) t) (map (map titem_ast) tss) = flat_map sentries3 tss.
Proof.
  intros He. induction 1 as [|ts r (Hd & Hs) Hr IH]; [reflexivity|]. cbn [map flat_map]. rewrite (entries_titems e ts He Hs Hd), IH. reflexivity.
Qed.

(** the core: any sequence of tables of the right shape *)
Theorem parse_encode_tables tss ts :
  Forall tables_ok (tss ++ [ts]) -> forallb noscope tss = true ->
  wf_program (map (map titem_ast) (tss ++ [ts])) = true ->
  6 + lenN (flat_map encode_table (map (map titem_ast) (tss ++ [ts]))) < 0x10000000 ->
  parse_encode_statement (map (map titem_ast) (tss ++ [ts])).
Proof.
  intros Hok Hns Hwf Hsz.
  pose proof (wf_tables_okb _ _ Hok Hwf) as Hokb.
  assert (Eenc : flat_map encode_table (map (map titem_ast) (tss ++ [ts])) = flat_map enc_titems (tss ++ [ts])).
  { rewrite !flat_map_concat_map, (encode_tables _ Hok). reflexivity. }
  rewrite Eenc, flat_map_app, lenN_app in Hsz. cbn [flat_map] in Hsz. rewrite app_nil_r in Hsz.
  pose proof Hokb as Hokb'. apply Forall_app in Hokb'. destruct Hokb' as [HokF HokL]. pose proof (Forall_inv HokL) as HokT.
  assert (Hfr : Forall front_ok tss).
  { rewrite forallb_forall in Hns. rewrite Forall_forall in HokF |- *. intros x Hx. split; [apply Hns; exact Hx|apply HokF; exact Hx]. }
  unfold parse_encode_statement, parse_program, load. rewrite (encode_tables _ Hok).
  destruct default_rep as (t0 & Et0 & H0). rewrite Et0.
  destruct (load_tn tss ts t0 H0 Hfr HokT ltac:(lia)) as (tF & gF & plF & El & HF & DF).
  rewrite El. change (0 =? 0) with true. cbv iota.
  rewrite (view_tn_eq tF gF plF HF (images (tss ++ [ts])) tss ts DF HokF HokT eq_refl).
  unfold ns. rewrite (entries_tables _ _ (fun d Hd' => resolve_env_default _ d Hd') Hok).
  rewrite flat_map_app. cbn [flat_map]. rewrite app_nil_r.
  f_equal. apply sort_perm. apply view_tn_perm; assumption.
Qed.

(** THE THEOREM for the fragment TN *)
Theorem parse_encode_TN : forall tables,
  wf_program tables = true -> in_fragment_TN tables = true -> parse_encode_statement tables.
Proof.
  intros tables Hwf Hfr. unfold in_fragment_TN in Hfr.
  assert (Hne : tables <> []) by (intros ->; discriminate Hfr).
  assert (Hfr' : match f7_tables tables with
                 | Some tss => forallb noscope (removelast tss) && (6 + lenN (flat_map encode_table tables) <? 0x10000000)
                 | None => false
                 end = true) by (destruct tables; [congruence|exact Hfr]).
  clear Hfr. destruct (f7_tables tables) as [tss|] eqn:Ets; [|discriminate].
  apply andb_prop in Hfr'. destruct Hfr' as [Hns Hsz]. apply N.ltb_lt in Hsz.
  destruct (f7_tables_ast tables tss Ets) as (E & Hok). subst tables.
  destruct (exists_last (l := tss)) as (front & ts & ->).
  { intros ->. apply Hne. reflexivity. }
  rewrite removelast_last in Hns.
  apply parse_encode_tables; assumption.
Qed.
